//go:build verif && verifoverlay

package lamport

import (
	"bytes"
	"fmt"
	"runtime"
	"strconv"
	"sync"
	"testing"
	"time"

	"github.com/anishathalye/porcupine"
	"github.com/hashicorp/serf/serf"
	"pgregory.net/rapid"

	"verif/internal/vkit"
)

// C19 — Lamport clocks never go backwards; witnessing moves them past the value.
//
// Sequential part: op sequences against the reference model
//   Time -> s ; Increment -> s+1 ; Witness(v) -> max(s, v+1)
// with the postcondition Time() > v after Witness(v).
//
// Concurrent part: lamport.go is built through a generated -overlay that
// calls serf.VerifYieldHook before every atomic operation. The harness runs
// 2-6 workers cooperatively: exactly one worker runs at a time, and which one
// proceeds past its next atomic operation is decided by a decision stream
// drawn by rapid. The interleaving is therefore generated, replayable and
// shrinkable. The resulting history (call/return stamps in scheduler steps)
// is checked by porcupine against the sequential model, plus direct checks.

const (
	lTime = iota
	lIncr
	lWitness
)

type lop struct {
	K int    `json:"k"`
	V uint64 `json:"v,omitempty"`
}

type c19Case struct {
	Seq       []lop   `json:"seq"`
	Workers   [][]lop `json:"workers"`
	Decisions []int   `json:"decisions"`
}

const maxU = ^uint64(0)

func genLop(t *rapid.T, seq, allowMax bool) lop {
	k := rapid.SampledFrom([]int{lTime, lIncr, lIncr, lWitness, lWitness}).Draw(t, "k")
	op := lop{K: k}
	if k == lWitness {
		switch rapid.IntRange(0, 5).Draw(t, "vclass") {
		case 0:
			pool := []uint64{0, 1, 1<<32 - 1, 1 << 32, 1<<32 + 1, 1<<63 - 1, 1 << 63, 1<<63 + 1}
			if seq {
				// only the sequential part goes to the top of the range: there the
				// model knows when an Increment would step past the last
				// representable value (outside the statement) and stops
				pool = append(pool, maxU-2, maxU-1)
				if allowMax {
					pool = append(pool, maxU)
				}
			}
			op.V = rapid.SampledFrom(pool).Draw(t, "vpool")
		default:
			op.V = rapid.Uint64Range(0, 12).Draw(t, "vsmall")
		}
	}
	return op
}

func genC19(t *rapid.T) c19Case {
	var c c19Case
	allowMax := !vkit.IsKnown("C19", "witness(2^64-1)") || rapid.IntRange(0, 9).Draw(t, "max") == 0
	n := rapid.IntRange(0, 30).Draw(t, "nseq")
	for i := 0; i < n; i++ {
		c.Seq = append(c.Seq, genLop(t, true, allowMax))
	}
	g := rapid.IntRange(2, 6).Draw(t, "workers")
	for w := 0; w < g; w++ {
		m := rapid.IntRange(1, 8).Draw(t, "nops")
		var ops []lop
		for i := 0; i < m; i++ {
			ops = append(ops, genLop(t, false, false))
		}
		c.Workers = append(c.Workers, ops)
	}
	nd := rapid.IntRange(0, 120).Draw(t, "ndec")
	for i := 0; i < nd; i++ {
		c.Decisions = append(c.Decisions, rapid.IntRange(0, 5).Draw(t, "dec"))
	}
	return c
}

// ---- cooperative scheduler ----------------------------------------------

func goid() uint64 {
	var buf [64]byte
	n := runtime.Stack(buf[:], false)
	// "goroutine 123 [running]:"
	f := bytes.Fields(buf[:n])
	id, _ := strconv.ParseUint(string(f[1]), 10, 64)
	return id
}

type worker struct {
	id      int
	resume  chan struct{}
	parked  chan struct{} // signalled when the worker blocks at a yield point or finishes
	done    bool
	started bool
}

type sched struct {
	mu      sync.Mutex
	byGoid  map[uint64]*worker
	workers []*worker
	step    int64
}

func (s *sched) hook() {
	s.mu.Lock()
	w := s.byGoid[goid()]
	s.mu.Unlock()
	if w == nil {
		return // not one of ours (sequential part)
	}
	w.parked <- struct{}{}
	<-w.resume
}

type hist struct {
	mu  sync.Mutex
	ops []porcupine.Operation
}

type lin struct {
	K int
	V uint64
}

func runConcurrent(c *c19Case, x *vkit.Ctx) (ops []porcupine.Operation, overlaps int, ok bool) {
	var clock serf.LamportClock
	s := &sched{byGoid: map[uint64]*worker{}}
	serf.VerifYieldHook = s.hook
	defer func() { serf.VerifYieldHook = nil }()
	var h hist
	var wg sync.WaitGroup
	type obs struct {
		k   int
		v   uint64
		out uint64
	}
	perWorker := make([][]obs, len(c.Workers))
	for i, prog := range c.Workers {
		w := &worker{id: i, resume: make(chan struct{}), parked: make(chan struct{}, 1)}
		s.workers = append(s.workers, w)
		wg.Add(1)
		ready := make(chan struct{})
		go func(i int, prog []lop, w *worker) {
			defer wg.Done()
			s.mu.Lock()
			s.byGoid[goid()] = w
			s.mu.Unlock()
			close(ready)
			<-w.resume // wait to be scheduled for the first time
			for _, op := range prog {
				s.mu.Lock()
				call := s.step
				s.mu.Unlock()
				var out uint64
				switch op.K {
				case lTime:
					out = uint64(clock.Time())
				case lIncr:
					out = uint64(clock.Increment())
				case lWitness:
					clock.Witness(serf.LamportTime(op.V))
				}
				s.mu.Lock()
				s.step++
				ret := s.step
				s.mu.Unlock()
				h.mu.Lock()
				h.ops = append(h.ops, porcupine.Operation{ClientId: i, Input: lin{op.K, op.V}, Call: call, Output: out, Return: ret})
				h.mu.Unlock()
				perWorker[i] = append(perWorker[i], obs{op.K, op.V, out})
			}
			s.mu.Lock()
			w.done = true
			s.mu.Unlock()
			w.parked <- struct{}{}
		}(i, prog, w)
		<-ready
	}
	// scheduling loop: resume one runnable worker, wait until it parks again
	di := 0
	for {
		var runnable []*worker
		s.mu.Lock()
		for _, w := range s.workers {
			if !w.done {
				runnable = append(runnable, w)
			}
		}
		s.step++
		s.mu.Unlock()
		if len(runnable) == 0 {
			break
		}
		d := 0
		if di < len(c.Decisions) {
			d = c.Decisions[di]
			di++
		}
		w := runnable[d%len(runnable)]
		w.resume <- struct{}{}
		select {
		case <-w.parked:
		case <-time.After(20 * time.Second):
			x.Inconclusive("scheduler-timeout")
			return nil, 0, false
		}
	}
	wg.Wait()

	// direct checks
	seenIncr := map[uint64]int{}
	for wi, os := range perWorker {
		var last uint64
		var mustExceed uint64
		have := false
		for oi, o := range os {
			switch o.k {
			case lWitness:
				if !have || o.v >= mustExceed {
					mustExceed, have = o.v, true
				}
				continue
			case lIncr:
				if prev, dup := seenIncr[o.out]; dup {
					x.Violationf("increment-duplicate", "worker %d op %d: Increment returned %d, which worker %d also got", wi, oi, o.out, prev)
					return nil, 0, false
				}
				seenIncr[o.out] = wi
			}
			if o.out < last {
				x.Violationf("clock-went-backwards", "worker %d op %d observed %d after having observed %d", wi, oi, o.out, last)
				return nil, 0, false
			}
			last = o.out
			if have && o.out <= mustExceed {
				x.Violationf("witness-not-exceeded", "worker %d op %d observed %d after its own Witness(%d) had returned", wi, oi, o.out, mustExceed)
				return nil, 0, false
			}
		}
	}
	// overlap count for the non-triviality rule
	for i := range h.ops {
		for j := i + 1; j < len(h.ops); j++ {
			a, b := h.ops[i], h.ops[j]
			if a.ClientId != b.ClientId && a.Call < b.Return && b.Call < a.Return &&
				(a.Input.(lin).K == lWitness || b.Input.(lin).K == lWitness) {
				overlaps++
			}
		}
	}
	return h.ops, overlaps, true
}

var lamportModel = porcupine.Model{
	Init: func() interface{} { return uint64(0) },
	Step: func(state, input, output interface{}) (bool, interface{}) {
		s := state.(uint64)
		in := input.(lin)
		out := output.(uint64)
		switch in.K {
		case lTime:
			return out == s, s
		case lIncr:
			return out == s+1, s + 1
		default:
			if in.V >= s {
				return true, in.V + 1
			}
			return true, s
		}
	},
	Equal: func(a, b interface{}) bool { return a.(uint64) == b.(uint64) },
	DescribeOperation: func(in, out interface{}) string {
		return fmt.Sprintf("%v -> %v", in, out)
	},
}

func bodyC19(c c19Case, x *vkit.Ctx) {
	// ---- sequential contract
	var clk serf.LamportClock
	var model uint64
	ntSeq := false
	for i, op := range c.Seq {
		before := uint64(clk.Time())
		if before != model {
			x.Violationf("seq-model-mismatch", "seq op %d: clock reads %d, model %d", i, before, model)
			return
		}
		switch op.K {
		case lTime:
		case lIncr:
			if model == maxU {
				return // incrementing past the last representable value is outside the statement
			}
			got := uint64(clk.Increment())
			model++
			if got != model {
				x.Violationf("seq-increment", "seq op %d: Increment returned %d, model %d", i, got, model)
				return
			}
		case lWitness:
			if op.V == maxU {
				x.Label("witness(2^64-1)")
			}
			if op.V >= model {
				ntSeq = true
			}
			clk.Witness(serf.LamportTime(op.V))
			after := uint64(clk.Time())
			if after < before {
				sig := "seq-went-backwards"
				if op.V == maxU {
					sig = "witness(2^64-1)"
				}
				x.Violationf(sig, "seq op %d: Witness(%d) moved the clock from %d back to %d", i, op.V, before, after)
				if op.V == maxU && vkit.IsKnown("C19", sig) {
					x.Excluded()
				}
				return
			}
			if after <= op.V {
				sig := "seq-witness-not-exceeded"
				if op.V == maxU {
					sig = "witness(2^64-1)"
				}
				x.Violationf(sig, "seq op %d: after Witness(%d) the clock is %d, not greater", i, op.V, after)
				return
			}
			if op.V >= model {
				model = op.V + 1
			}
			if after != model {
				x.Violationf("seq-witness-model", "seq op %d: after Witness(%d) clock is %d, model %d", i, op.V, after, model)
				return
			}
		}
	}
	// ---- concurrent, harness-owned interleaving
	ops, overlaps, ok := runConcurrent(&c, x)
	if !ok {
		return
	}
	res := porcupine.CheckOperations(lamportModel, ops)
	if !res {
		x.Violationf("not-linearizable", "the concurrent history is not linearizable w.r.t. the Lamport clock model: %v", describe(ops))
		return
	}
	x.Labelf("workers=%d", len(c.Workers))
	x.Labelf("overlapping-witness-pairs=%d", min(overlaps, 5))
	if ntSeq {
		x.Label("seq-witness>=clock")
	}
	x.NonTrivial(overlaps >= 1 || ntSeq)
}

func describe(ops []porcupine.Operation) string {
	var b bytes.Buffer
	for _, o := range ops {
		in := o.Input.(lin)
		name := []string{"Time", "Increment", "Witness"}[in.K]
		fmt.Fprintf(&b, "[w%d %s(%d)->%d @%d..%d] ", o.ClientId, name, in.V, o.Output, o.Call, o.Return)
	}
	return b.String()
}

func TestC19(t *testing.T) { vkit.Run(t, "C19", genC19, bodyC19) }
