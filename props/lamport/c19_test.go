//go:build verif && verifoverlay

package lamport

import (
	"bytes"
	"fmt"
	"runtime"
	"strconv"
	"sync"
	"testing"
	"time"

	"github.com/anishathalye/porcupine"
	"github.com/hashicorp/serf/serf"
	"pgregory.net/rapid"

	"verif/internal/vkit"
)

// C19 — Lamport clocks never go backwards; witnessing moves them past the value.
//
// Sequential part: op sequences against the reference model
//   Time -> s ; Increment -> s+1 ; Witness(v) -> max(s, v+1)
// with the postcondition Time() > v after Witness(v).
//
// Concurrent part: lamport.go is built through a generated -overlay that
// calls serf.VerifYieldHook before every atomic operation. The harness runs
// 2-6 workers cooperatively: exactly one worker runs at a time, and which one
// proceeds past its next atomic operation is decided by a decision stream
// drawn by rapid. The interleaving is therefore generated, replayable and
// shrinkable. The resulting history (call/return stamps in scheduler steps)
// is checked by porcupine against the sequential model, plus direct checks.

const (
	lTime = iota
	lIncr
	lWitness
)

type lop struct {
	K int    `json:"k"`
	V uint64 `json:"v,omitempty"`
}

type c19Case struct {
	Seq       []lop   `json:"seq"`
	Workers   [][]lop `json:"workers"`
	Decisions []int   `json:"decisions"`
	// Base is the value the shared clock of the concurrent part starts from
	// (0 = a fresh clock). Burst[i] (absent = 1) is how many consecutive atomic
	// steps the worker picked by Decisions[i] is given.
	Base  uint64 `json:"base,omitempty"`
	Burst []int  `json:"burst,omitempty"`
}

const maxU = ^uint64(0)

// concurrent part: no value above concTop is ever witnessed and at most
// 6*8+16 increments happen, so the clock cannot step past the last
// representable value (which is outside the statement)
const concTop = maxU - 200

// genLop draws one operation. For the sequential part *cur is the reference
// model's clock value before the operation (the generator keeps it up to date,
// so "the recorded value and its neighbours" can be drawn at any magnitude);
// for a worker program *cur is the base the shared clock starts from.
func genLop(t *rapid.T, seq, allowMax bool, cur *uint64) lop {
	k := rapid.SampledFrom([]int{lTime, lIncr, lIncr, lWitness, lWitness}).Draw(t, "k")
	op := lop{K: k}
	if k == lWitness {
		switch rapid.IntRange(0, 7).Draw(t, "vclass") {
		case 0:
			pool := []uint64{0, 1, 1<<32 - 1, 1 << 32, 1<<32 + 1, 1<<53 - 1, 1 << 53, 1<<53 + 1, 1<<63 - 1, 1 << 63, 1<<63 + 1}
			if seq {
				// only the sequential part goes to the top of the range: there the
				// model knows when an Increment would step past the last
				// representable value (outside the statement) and stops
				pool = append(pool, maxU-2, maxU-1)
				if allowMax {
					pool = append(pool, maxU)
				}
			}
			op.V = rapid.SampledFrom(pool).Draw(t, "vpool")
		case 1, 2:
			if seq {
				// the recorded value, its neighbours, a little behind / ahead
				d := rapid.IntRange(-3, 3).Draw(t, "vrel")
				v := *cur + uint64(int64(d))
				if d < 0 && uint64(-d) > *cur {
					v = 0
				}
				if d > 0 && v < *cur {
					v = maxU - 1 // wrapped
				}
				op.V = v
			} else {
				op.V = *cur + rapid.Uint64Range(0, 14).Draw(t, "vnear")
			}
		case 3:
			if seq {
				op.V = rapid.Uint64().Draw(t, "vany")
			} else {
				op.V = rapid.Uint64Range(0, concTop).Draw(t, "vany")
			}
		default:
			op.V = rapid.Uint64Range(0, 12).Draw(t, "vsmall")
			if !seq {
				op.V += *cur
			}
		}
		if op.V == maxU && !allowMax {
			op.V = maxU - 1
		}
		if !seq && op.V > concTop {
			op.V = concTop
		}
	}
	if seq {
		switch {
		case k == lIncr && *cur < maxU:
			*cur++
		case k == lWitness && op.V >= *cur:
			*cur = op.V + 1
		}
	}
	return op
}

func genC19(t *rapid.T) c19Case {
	var c c19Case
	allowMax := !vkit.IsKnown("C19", "witness(2^64-1)") || rapid.IntRange(0, 9).Draw(t, "max") == 0
	n := rapid.IntRange(0, 30).Draw(t, "nseq")
	var cur uint64
	for i := 0; i < n; i++ {
		c.Seq = append(c.Seq, genLop(t, true, allowMax, &cur))
	}
	// the concurrent part starts from a fresh clock (most cases) or from a
	// clock already standing next to a power-of-two boundary / far up the range
	if rapid.IntRange(0, 9).Draw(t, "based") < 4 {
		c.Base = rapid.SampledFrom([]uint64{1<<32 - 4, 1<<32 - 20, 1<<53 - 6, 1<<63 - 4, 1<<63 - 20, concTop - 30,
			rapid.Uint64Range(1, concTop-30).Draw(t, "anybase")}).Draw(t, "base")
	}
	base := c.Base
	if rapid.IntRange(0, 4).Draw(t, "adversary") == 0 {
		genAdversary(t, &c)
	}
	g := rapid.IntRange(2, 6).Draw(t, "workers")
	for w := len(c.Workers); w < g; w++ {
		m := rapid.IntRange(1, 8).Draw(t, "nops")
		var ops []lop
		for i := 0; i < m; i++ {
			ops = append(ops, genLop(t, false, false, &base))
		}
		c.Workers = append(c.Workers, ops)
	}
	nd := rapid.IntRange(0, 120).Draw(t, "ndec")
	for i := 0; i < nd; i++ {
		c.Decisions = append(c.Decisions, rapid.IntRange(0, 5).Draw(t, "dec"))
		// mostly single steps; sometimes one worker gets a run of steps while the
		// others stay parked where they are (e.g. between a Load and its CAS)
		b := 1
		if rapid.IntRange(0, 5).Draw(t, "bursty") == 0 {
			b = rapid.IntRange(2, 8).Draw(t, "burst")
		}
		c.Burst = append(c.Burst, b)
	}
	for len(c.Burst) < len(c.Decisions) {
		c.Burst = append([]int{1}, c.Burst...) // the adversary prefix is single-stepped
	}
	return c
}

// genAdversary spells out the schedule the retry loop of Witness is written
// for: worker 0 witnesses a value ahead of the clock and is parked between its
// Load and its compare-and-swap; worker 1 completes one whole operation
// (mostly Increment, sometimes a Witness that passes worker 0 by); worker 0
// fails its CAS, re-reads and is parked again - k times in a row. Random
// decision streams produce 4-6 such rounds now and then, never 10.
func genAdversary(t *rapid.T, c *c19Case) {
	k := rapid.IntRange(1, 14).Draw(t, "advRounds")
	v := c.Base + uint64(k) + rapid.Uint64Range(0, 6).Draw(t, "advAhead")
	a := []lop{{K: lWitness, V: v}, {K: lTime}}
	var b []lop
	dec := []int{0, 0, 1} // w0: parked before Load, then before CAS; w1: parked before its first atomic
	for i := 0; i < k; i++ {
		steps := 1
		if rapid.IntRange(0, 5).Draw(t, "advPass") == 0 {
			v2 := v + rapid.Uint64Range(1, 3).Draw(t, "advBy")
			b = append(b, lop{K: lWitness, V: v2})
			steps = 2
		} else {
			b = append(b, lop{K: lIncr})
		}
		for j := 0; j < steps; j++ {
			dec = append(dec, 1)
		}
		dec = append(dec, 0, 0)
	}
	b = append(b, lop{K: lTime})
	c.Workers = append(c.Workers, a, b)
	c.Decisions = append(c.Decisions, dec...)
}

// ---- cooperative scheduler ----------------------------------------------

func goid() uint64 {
	var buf [64]byte
	n := runtime.Stack(buf[:], false)
	// "goroutine 123 [running]:"
	f := bytes.Fields(buf[:n])
	id, _ := strconv.ParseUint(string(f[1]), 10, 64)
	return id
}

type worker struct {
	id      int
	resume  chan struct{}
	parked  chan struct{} // signalled when the worker blocks at a yield point or finishes
	done    bool
	started bool
	// operations completed so far (guarded by sched.mu)
	completed int
	// blocked: the worker found a lock taken (guarded by sched.mu); it is not
	// scheduled again before another worker has moved
	blocked bool
}

type sched struct {
	mu      sync.Mutex
	byGoid  map[uint64]*worker
	workers []*worker
	step    int64
}

func (s *sched) hook() {
	s.mu.Lock()
	w := s.byGoid[goid()]
	s.mu.Unlock()
	if w == nil {
		return // not one of ours (sequential part)
	}
	w.parked <- struct{}{}
	<-w.resume
}

// lockWait is the hook of a worker that found a lock of the clock taken (only
// a changed lamport.go has locks; the overlay turns them into try-lock loops
// that come here instead of blocking the cooperative scheduler).
func (s *sched) lockWait() {
	s.mu.Lock()
	w := s.byGoid[goid()]
	if w != nil {
		w.blocked = true
	}
	s.mu.Unlock()
	if w == nil {
		runtime.Gosched()
		return
	}
	w.parked <- struct{}{}
	<-w.resume
}

type hist struct {
	mu  sync.Mutex
	ops []porcupine.Operation
}

type lin struct {
	K int
	V uint64
}

func runConcurrent(c *c19Case, x *vkit.Ctx) (ops []porcupine.Operation, overlaps int, ok bool) {
	var clock serf.LamportClock
	s := &sched{byGoid: map[uint64]*worker{}}
	serf.VerifYieldHook, serf.VerifLockWaitHook = s.hook, s.lockWait
	defer func() { serf.VerifYieldHook, serf.VerifLockWaitHook = nil, nil }()
	if c.Base > 0 {
		// bring the shared clock to its starting value (sequentially, by the
		// contract the sequential part checks) before any worker runs
		clock.Witness(serf.LamportTime(c.Base - 1))
		if got := uint64(clock.Time()); got != c.Base {
			x.Violationf("seq-witness-model", "fresh clock: after Witness(%d) the clock is %d, model %d", c.Base-1, got, c.Base)
			return nil, 0, false
		}
	}
	var h hist
	var wg sync.WaitGroup
	type obs struct {
		k   int
		v   uint64
		out uint64
	}
	perWorker := make([][]obs, len(c.Workers))
	for i, prog := range c.Workers {
		w := &worker{id: i, resume: make(chan struct{}), parked: make(chan struct{}, 1)}
		s.workers = append(s.workers, w)
		wg.Add(1)
		ready := make(chan struct{})
		go func(i int, prog []lop, w *worker) {
			defer wg.Done()
			s.mu.Lock()
			s.byGoid[goid()] = w
			s.mu.Unlock()
			close(ready)
			<-w.resume // wait to be scheduled for the first time
			for _, op := range prog {
				s.mu.Lock()
				call := s.step
				s.mu.Unlock()
				var out uint64
				switch op.K {
				case lTime:
					out = uint64(clock.Time())
				case lIncr:
					out = uint64(clock.Increment())
				case lWitness:
					clock.Witness(serf.LamportTime(op.V))
				}
				s.mu.Lock()
				s.step++
				ret := s.step
				w.completed++
				s.mu.Unlock()
				h.mu.Lock()
				h.ops = append(h.ops, porcupine.Operation{ClientId: i, Input: lin{op.K, op.V}, Call: call, Output: out, Return: ret})
				h.mu.Unlock()
				perWorker[i] = append(perWorker[i], obs{op.K, op.V, out})
			}
			s.mu.Lock()
			w.done = true
			s.mu.Unlock()
			w.parked <- struct{}{}
		}(i, prog, w)
		<-ready
	}
	// scheduling loop: resume one runnable worker, wait until it parks again
	di := 0
	var lastW *worker
	lastCompleted, solo := 0, 0
	for {
		var runnable []*worker
		unfinished := 0
		s.mu.Lock()
		for _, w := range s.workers {
			if !w.done {
				unfinished++
				if !w.blocked {
					runnable = append(runnable, w)
				}
			}
		}
		s.mu.Unlock()
		if unfinished == 0 {
			break
		}
		if len(runnable) == 0 {
			// everybody who is left waits for a lock that nobody is going to release
			x.Violationf("op-never-completes-undisturbed", "all %d unfinished workers wait for a lock of the clock", unfinished)
			return nil, 0, false
		}
		d, burst := 0, 1
		if di < len(c.Decisions) {
			d = c.Decisions[di]
			if di < len(c.Burst) && c.Burst[di] > 1 {
				burst = c.Burst[di]
			}
			di++
		}
		w := runnable[d%len(runnable)]
		for b := 0; b < burst; b++ {
			s.mu.Lock()
			s.step++
			done, completed := w.done, w.completed
			s.mu.Unlock()
			if done {
				break
			}
			// A worker that is the only one running must finish its operation
			// within a few of its own atomic steps: Time and Increment are one
			// step, Witness re-reads and retries at most once per interference.
			// An operation that does not return while nobody else moves never
			// returns at all ("after witnessing a time ..." presupposes it does).
			if w == lastW && completed == lastCompleted {
				solo++
			} else {
				lastW, lastCompleted, solo = w, completed, 1
			}
			if solo > 16 {
				x.Violationf("op-never-completes-undisturbed", "worker %d took %d atomic steps in a row inside one operation (op index %d) while no other worker ran", w.id, solo, completed)
				return nil, 0, false
			}
			w.resume <- struct{}{}
			select {
			case <-w.parked:
			case <-time.After(20 * time.Second):
				x.Inconclusive("scheduler-timeout")
				return nil, 0, false
			}
			// this worker moved: whoever waited for a lock may try again; if it
			// is now waiting itself, its burst ends here and the retry is not
			// counted as a step of its own
			s.mu.Lock()
			nowBlocked := w.blocked
			if !nowBlocked {
				for _, o := range s.workers {
					if o != w {
						o.blocked = false
					}
				}
			}
			s.mu.Unlock()
			if nowBlocked {
				solo--
				break
			}
		}
	}
	wg.Wait()
	// one more read by the harness after every worker has returned: the state
	// the history leaves behind is part of the history
	s.step++
	final := uint64(clock.Time())
	h.ops = append(h.ops, porcupine.Operation{ClientId: len(c.Workers), Input: lin{lTime, 0}, Call: s.step, Output: final, Return: s.step + 1})

	// direct checks
	seenIncr := map[uint64]int{}
	for wi, os := range perWorker {
		var last uint64
		var mustExceed uint64
		have := false
		for oi, o := range os {
			switch o.k {
			case lWitness:
				if !have || o.v >= mustExceed {
					mustExceed, have = o.v, true
				}
				continue
			case lIncr:
				if prev, dup := seenIncr[o.out]; dup {
					x.Violationf("increment-duplicate", "worker %d op %d: Increment returned %d, which worker %d also got", wi, oi, o.out, prev)
					return nil, 0, false
				}
				seenIncr[o.out] = wi
			}
			if o.out < last {
				x.Violationf("clock-went-backwards", "worker %d op %d observed %d after having observed %d", wi, oi, o.out, last)
				return nil, 0, false
			}
			last = o.out
			if have && o.out <= mustExceed {
				x.Violationf("witness-not-exceeded", "worker %d op %d observed %d after its own Witness(%d) had returned", wi, oi, o.out, mustExceed)
				return nil, 0, false
			}
		}
	}
	for wi, os := range perWorker {
		for oi, o := range os {
			if o.k == lWitness && final <= o.v {
				x.Violationf("witness-not-exceeded", "worker %d op %d: Witness(%d) returned, yet the clock reads %d when all workers are done", wi, oi, o.v, final)
				return nil, 0, false
			}
			if o.k != lWitness && final < o.out {
				x.Violationf("clock-went-backwards", "worker %d op %d observed %d, the clock reads %d when all workers are done", wi, oi, o.out, final)
				return nil, 0, false
			}
		}
	}
	// overlap count for the non-triviality rule
	for i := range h.ops {
		for j := i + 1; j < len(h.ops); j++ {
			a, b := h.ops[i], h.ops[j]
			if a.ClientId != b.ClientId && a.Call < b.Return && b.Call < a.Return &&
				(a.Input.(lin).K == lWitness || b.Input.(lin).K == lWitness) {
				overlaps++
			}
		}
	}
	return h.ops, overlaps, true
}

func lamportModel(base uint64) porcupine.Model {
	m := lamportModel0
	m.Init = func() interface{} { return base }
	return m
}

var lamportModel0 = porcupine.Model{
	Init: func() interface{} { return uint64(0) },
	Step: func(state, input, output interface{}) (bool, interface{}) {
		s := state.(uint64)
		in := input.(lin)
		out := output.(uint64)
		switch in.K {
		case lTime:
			return out == s, s
		case lIncr:
			return out == s+1, s + 1
		default:
			if in.V >= s {
				return true, in.V + 1
			}
			return true, s
		}
	},
	Equal: func(a, b interface{}) bool { return a.(uint64) == b.(uint64) },
	DescribeOperation: func(in, out interface{}) string {
		return fmt.Sprintf("%v -> %v", in, out)
	},
}

func bodyC19(c c19Case, x *vkit.Ctx) {
	// ---- sequential contract
	var clk serf.LamportClock
	var model uint64
	ntSeq := false
	for i, op := range c.Seq {
		before := uint64(clk.Time())
		if before != model {
			x.Violationf("seq-model-mismatch", "seq op %d: clock reads %d, model %d", i, before, model)
			return
		}
		switch op.K {
		case lTime:
		case lIncr:
			if model == maxU {
				return // incrementing past the last representable value is outside the statement
			}
			got := uint64(clk.Increment())
			model++
			if got != model {
				x.Violationf("seq-increment", "seq op %d: Increment returned %d, model %d", i, got, model)
				return
			}
		case lWitness:
			if op.V == maxU {
				x.Label("witness(2^64-1)")
			}
			if op.V >= model {
				ntSeq = true
			}
			clk.Witness(serf.LamportTime(op.V))
			after := uint64(clk.Time())
			if after < before {
				sig := "seq-went-backwards"
				if op.V == maxU {
					sig = "witness(2^64-1)"
				}
				x.Violationf(sig, "seq op %d: Witness(%d) moved the clock from %d back to %d", i, op.V, before, after)
				if op.V == maxU && vkit.IsKnown("C19", sig) {
					x.Excluded()
				}
				return
			}
			if after <= op.V {
				sig := "seq-witness-not-exceeded"
				if op.V == maxU {
					sig = "witness(2^64-1)"
				}
				x.Violationf(sig, "seq op %d: after Witness(%d) the clock is %d, not greater", i, op.V, after)
				return
			}
			if op.V >= model {
				model = op.V + 1
			}
			if after != model {
				x.Violationf("seq-witness-model", "seq op %d: after Witness(%d) clock is %d, model %d", i, op.V, after, model)
				return
			}
		}
	}
	// ---- concurrent, harness-owned interleaving
	ops, overlaps, ok := runConcurrent(&c, x)
	if !ok {
		return
	}
	res := porcupine.CheckOperations(lamportModel(c.Base), ops)
	if !res {
		x.Violationf("not-linearizable", "the concurrent history is not linearizable w.r.t. the Lamport clock model: %v", describe(ops))
		return
	}
	x.Labelf("workers=%d", len(c.Workers))
	if c.Base > 0 {
		x.Label("concurrent-base>0")
	}
	x.Labelf("overlapping-witness-pairs=%d", min(overlaps, 5))
	if ntSeq {
		x.Label("seq-witness>=clock")
	}
	x.NonTrivial(overlaps >= 1 || ntSeq)
}

func describe(ops []porcupine.Operation) string {
	var b bytes.Buffer
	for _, o := range ops {
		in := o.Input.(lin)
		name := []string{"Time", "Increment", "Witness"}[in.K]
		fmt.Fprintf(&b, "[w%d %s(%d)->%d @%d..%d] ", o.ClientId, name, in.V, o.Output, o.Call, o.Return)
	}
	return b.String()
}

func TestC19(t *testing.T) { vkit.Run(t, "C19", genC19, bodyC19) }
