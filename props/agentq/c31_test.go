//go:build verif

package agentq

import (
	"bytes"
	"encoding/json"
	"fmt"
	"os"
	"path/filepath"
	"reflect"
	"sort"
	"strings"
	"testing"
	"time"

	"github.com/hashicorp/serf/cmd/serf/command/agent"
	"pgregory.net/rapid"

	"verif/internal/vkit"
)

// C31 — configuration sources layer predictably without side effects.
//
// Mode 0: three generated Config values; every MergeConfig call made while
// evaluating Merge(Merge(a,b),c) and Merge(a,Merge(b,c)) is compared field by
// field with a rule table written from the statement, its inputs are compared
// with deep copies taken before the call, and both groupings are compared.
// Mode 1: generated files and directories; ReadConfigPaths is compared with
// folding MergeConfig over DecodeConfig of each file in the documented order.

// rule kinds
const (
	c31Value    = "value"    // later if set (non-zero), else earlier
	c31Switch   = "switch"   // on if either source turns it on
	c31Later    = "later"    // always the later source's
	c31Tags     = "tags"     // union, later wins
	c31List     = "list"     // concatenation in order
	c31Free     = "free"     // not a setting: unconstrained
	c31Protocol = "protocol" // value; "set" means > 0, negative is unconstrained
)

// c31Rules is the rule table: one entry per leaf field of agent.Config.
// TestC31 refuses to run if Config and this table disagree.
var c31Rules = map[string]string{
	"NodeName": c31Value, "Role": c31Value, "DisableCoordinates": c31Switch, "Tags": c31Tags,
	"TagsFile": c31Value, "BindAddr": c31Value, "AdvertiseAddr": c31Value, "EncryptKey": c31Value,
	"KeyringFile": c31Value, "LogLevel": c31Value, "RPCAddr": c31Value, "RPCAuthKey": c31Value,
	"Protocol": c31Protocol, "ReplayOnJoin": c31Switch,
	"QueryResponseSizeLimit": c31Value, "QuerySizeLimit": c31Value, "UserEventSizeLimit": c31Value,
	"StartJoin": c31List, "EventHandlers": c31List, "Profile": c31Value, "SnapshotPath": c31Value,
	"LeaveOnTerm": c31Switch, "SkipLeaveOnInt": c31Switch, "Discover": c31Value,
	"MDNS.Interface": c31Value, "MDNS.DisableIPv4": c31Switch, "MDNS.DisableIPv6": c31Switch,
	"Interface":            c31Value,
	"ReconnectIntervalRaw": c31Free, "ReconnectInterval": c31Value,
	"ReconnectTimeoutRaw": c31Free, "ReconnectTimeout": c31Value,
	"TombstoneTimeoutRaw": c31Free, "TombstoneTimeout": c31Value,
	"DisableNameResolution": c31Switch, "EnableSyslog": c31Switch, "SyslogFacility": c31Value,
	"RetryJoin": c31List, "RetryMaxAttempts": c31Value,
	"RetryIntervalRaw": c31Free, "RetryInterval": c31Value,
	"RejoinAfterLeave": c31Switch, "EnableCompression": c31Later,
	"StatsiteAddr": c31Value, "StatsdAddr": c31Value,
	"BroadcastTimeoutRaw": c31Free, "BroadcastTimeout": c31Value,
	"ValidateNodeNames": c31Switch, "MsgpackUseNewTimeFormat": c31Free,
}

var c31Duration = reflect.TypeOf(time.Duration(0))

// c31Leaves calls fn for every leaf field (structs are descended into).
func c31Leaves(v reflect.Value, prefix string, fn func(path string, f reflect.Value)) {
	t := v.Type()
	for i := 0; i < t.NumField(); i++ {
		f := v.Field(i)
		p := prefix + t.Field(i).Name
		if f.Kind() == reflect.Struct {
			c31Leaves(f, p+".", fn)
			continue
		}
		fn(p, f)
	}
}

// c31TableProblems compares the rule table with the real struct.
func c31TableProblems() []string {
	var probs []string
	seen := map[string]bool{}
	c31Leaves(reflect.ValueOf(agent.Config{}), "", func(p string, f reflect.Value) {
		seen[p] = true
		kind, ok := c31Rules[p]
		if !ok {
			probs = append(probs, fmt.Sprintf("agent.Config has field %s (%s) that the C31 rule table does not know", p, f.Type()))
			return
		}
		good := false
		switch kind {
		case c31Value:
			good = f.Kind() == reflect.String || f.Kind() == reflect.Int || f.Type() == c31Duration
		case c31Protocol:
			good = f.Kind() == reflect.Int
		case c31Switch, c31Later:
			good = f.Kind() == reflect.Bool
		case c31Tags:
			good = f.Type() == reflect.TypeOf(map[string]string(nil))
		case c31List:
			good = f.Type() == reflect.TypeOf([]string(nil))
		case c31Free:
			good = f.Kind() == reflect.String || f.Kind() == reflect.Bool
		}
		if !good {
			probs = append(probs, fmt.Sprintf("field %s has type %s, incompatible with rule %q", p, f.Type(), kind))
		}
	})
	for p := range c31Rules {
		if !seen[p] {
			probs = append(probs, fmt.Sprintf("rule table names field %s which agent.Config does not have", p))
		}
	}
	sort.Strings(probs)
	return probs
}

// ---- case

type c31Entry struct {
	Name     string     `json:"name"`
	Dir      bool       `json:"dir,omitempty"`
	Content  string     `json:"content,omitempty"` // file bytes
	Children []c31Entry `json:"children,omitempty"`
}

type c31Case struct {
	Mode  int           `json:"mode"` // 0 merge laws, 1 file law
	A     *agent.Config `json:"a,omitempty"`
	B     *agent.Config `json:"b,omitempty"`
	C     *agent.Config `json:"c,omitempty"`
	Paths []c31Entry    `json:"paths,omitempty"`
	// Spare: unused capacity behind the end of every non-nil list handed to
	// MergeConfig (filled with a sentinel). JSON cannot express capacity, the
	// callers' slices can have it (anything built with append has).
	Spare int `json:"spare,omitempty"`
	// SameAB: Merge(a,a) is judged too - one object passed as both arguments
	SameAB bool `json:"same_ab,omitempty"`
}

const c31Sentinel = "\x00spare capacity of an input list"

var (
	c31Strs    = []string{"x", "y", "z", "10.0.0.1:7946"}
	c31Ints    = []int{1, 2, 3, 1024}
	c31Durs    = []time.Duration{time.Second, 2 * time.Second, 500 * time.Millisecond}
	c31TagKeys = []string{"role", "dc", "k"}
	// a tag may be set to the empty string: that is a value like any other (a
	// later source that says k="" wins over an earlier k="x")
	c31TagVals = []string{"x", "y", "z", "10.0.0.1:7946", "", ""}
)

// (shapes are ordered so that rapid shrinks towards nil / unset)
func c31GenTags(t *rapid.T) map[string]string {
	switch rapid.IntRange(0, 6).Draw(t, "tagshape") {
	case 0:
		return nil
	case 1:
		return map[string]string{}
	case 2:
		return map[string]string{rapid.SampledFrom(c31TagKeys).Draw(t, "tagkey"): rapid.SampledFrom(c31TagVals).Draw(t, "tagval")}
	default:
		m := map[string]string{}
		for _, k := range c31TagKeys {
			if rapid.Bool().Draw(t, "hastag") {
				m[k] = rapid.SampledFrom(c31TagVals).Draw(t, "tagval")
			}
		}
		return m
	}
}

func c31GenList(t *rapid.T) []string {
	switch rapid.IntRange(0, 4).Draw(t, "listshape") {
	case 0:
		return nil
	case 1:
		return []string{}
	case 2, 3:
		return []string{rapid.SampledFrom(c31Strs).Draw(t, "item")}
	default:
		return []string{rapid.SampledFrom(c31Strs).Draw(t, "item"), rapid.SampledFrom(c31Strs).Draw(t, "item")}
	}
}

func c31GenConfig(t *rapid.T) *agent.Config {
	c := &agent.Config{}
	density := rapid.IntRange(1, 4).Draw(t, "density") // set about density/5 of the fields
	c31Leaves(reflect.ValueOf(c).Elem(), "", func(p string, f reflect.Value) {
		kind := c31Rules[p]
		switch kind {
		case c31Tags:
			f.Set(reflect.ValueOf(c31GenTags(t)))
			return
		case c31List:
			f.Set(reflect.ValueOf(c31GenList(t)))
			return
		}
		if rapid.IntRange(0, 4).Draw(t, "set") < 5-density {
			return // unset (and the direction rapid shrinks in)
		}
		switch {
		case kind == c31Protocol:
			f.SetInt(int64(rapid.SampledFrom([]int{1, 2, 3, 4, 5, 0, -1}).Draw(t, "proto")))
		case f.Type() == c31Duration:
			f.SetInt(int64(rapid.SampledFrom(c31Durs).Draw(t, "dur")))
		case f.Kind() == reflect.String:
			f.SetString(rapid.SampledFrom(c31Strs).Draw(t, "str"))
		case f.Kind() == reflect.Int:
			f.SetInt(int64(rapid.SampledFrom(c31Ints).Draw(t, "int")))
		case f.Kind() == reflect.Bool:
			f.SetBool(true)
		}
	})
	return c
}

// c31FileKeys: config-file key -> generator of a JSON value
func c31GenFileContent(t *rapid.T) string {
	m := map[string]any{}
	str := func() any { return rapid.SampledFrom(c31Strs).Draw(t, "fstr") }
	num := func() any { return rapid.SampledFrom(c31Ints).Draw(t, "fint") }
	boolean := func() any { return rapid.Bool().Draw(t, "fbool") }
	dur := func() any { return rapid.SampledFrom([]string{"1s", "2s", "500ms", "1m"}).Draw(t, "fdur") }
	list := func() any {
		l := c31GenList(t)
		if l == nil {
			return []string{}
		}
		return l
	}
	tags := func() any {
		tg := c31GenTags(t)
		if tg == nil {
			return map[string]string{}
		}
		return tg
	}
	keys := []struct {
		k string
		g func() any
	}{
		{"node_name", str}, {"role", str}, {"disable_coordinates", boolean}, {"tags", tags}, {"tags_file", str},
		{"bind", str}, {"advertise", str}, {"encrypt_key", str}, {"keyring_file", str}, {"log_level", str},
		{"rpc_addr", str}, {"rpc_auth", str}, {"protocol", num}, {"replay_on_join", boolean},
		{"query_response_size_limit", num}, {"query_size_limit", num}, {"user_event_size_limit", num},
		{"start_join", list}, {"event_handlers", list}, {"profile", str}, {"snapshot_path", str},
		{"leave_on_terminate", boolean}, {"skip_leave_on_interrupt", boolean}, {"discover", str},
		{"interface", str}, {"reconnect_interval", dur}, {"reconnect_timeout", dur}, {"tombstone_timeout", dur},
		{"disable_name_resolution", boolean}, {"enable_syslog", boolean}, {"syslog_facility", str},
		{"retry_join", list}, {"retry_max_attempts", num}, {"retry_interval", dur}, {"rejoin_after_leave", boolean},
		{"enable_compression", boolean}, {"statsite_addr", str}, {"statsd_addr", str}, {"broadcast_timeout", dur},
		{"validate_node_names", boolean},
	}
	density := rapid.IntRange(1, 3).Draw(t, "fdensity")
	for _, k := range keys {
		if rapid.IntRange(0, 5).Draw(t, "has") >= 6-density {
			m[k.k] = k.g()
		}
	}
	if rapid.IntRange(0, 5).Draw(t, "hasmdns") == 5 {
		m["mdns"] = map[string]any{"interface": str(), "disable_ipv4": boolean(), "disable_ipv6": boolean()}
	}
	b, _ := json.Marshal(m)
	return string(b)
}

var c31ChildNames = []string{"a.json", "b.json", "10.json", "9.json", "B.json", "_.json", "a.json.bak", "c.JSON", "z.txt", "json", ".json", "ab.json", "a-.json"}

func c31GenPaths(t *rapid.T) []c31Entry {
	n := rapid.IntRange(1, 4).Draw(t, "npaths")
	var out []c31Entry
	for i := 0; i < n; i++ {
		if rapid.IntRange(0, 2).Draw(t, "isfile") == 0 {
			// a path given directly is read whatever its suffix
			name := fmt.Sprintf("p%d%s", i, rapid.SampledFrom([]string{".json", ".conf", ""}).Draw(t, "suffix"))
			out = append(out, c31Entry{Name: name, Content: c31GenFileContent(t)})
			continue
		}
		d := c31Entry{Name: fmt.Sprintf("d%d", i), Dir: true}
		used := map[string]bool{}
		nc := rapid.IntRange(0, 5).Draw(t, "nchildren")
		for j := 0; j < nc; j++ {
			cn := rapid.SampledFrom(c31ChildNames).Draw(t, "child")
			if used[cn] {
				continue
			}
			used[cn] = true
			switch {
			case rapid.IntRange(0, 7).Draw(t, "subdir") == 0:
				// a sub-directory (even one called *.json) is not descended into
				d.Children = append(d.Children, c31Entry{Name: cn, Dir: true,
					Children: []c31Entry{{Name: "inner.json", Content: c31GenFileContent(t)}}})
			case strings.HasSuffix(cn, ".json"):
				d.Children = append(d.Children, c31Entry{Name: cn, Content: c31GenFileContent(t)})
			default:
				// not a configuration file: must be ignored, whatever is in it
				content := "this is not json"
				if rapid.Bool().Draw(t, "validother") {
					content = c31GenFileContent(t)
				}
				d.Children = append(d.Children, c31Entry{Name: cn, Content: content})
			}
		}
		out = append(out, d)
	}
	return out
}

func genC31(t *rapid.T) c31Case {
	if rapid.IntRange(0, 3).Draw(t, "mode") == 3 {
		return c31Case{Mode: 1, Paths: c31GenPaths(t)}
	}
	return c31Case{Mode: 0, A: c31GenConfig(t), B: c31GenConfig(t), C: c31GenConfig(t),
		Spare:  rapid.SampledFrom([]int{0, 1, 4, 4}).Draw(t, "spare"),
		SameAB: rapid.IntRange(0, 7).Draw(t, "sameab") == 0}
}

// ---- helpers

func c31DeepCopy(c *agent.Config) *agent.Config { return c31DeepCopyCap(c, 0) }

// c31DeepCopyCap: a deep copy whose non-nil lists have spare elements of
// unused capacity, filled with a sentinel.
func c31DeepCopyCap(c *agent.Config, spare int) *agent.Config {
	out := *c
	c31Leaves(reflect.ValueOf(&out).Elem(), "", func(p string, f reflect.Value) {
		switch f.Kind() {
		case reflect.Map:
			if !f.IsNil() {
				m := reflect.MakeMapWithSize(f.Type(), f.Len())
				it := f.MapRange()
				for it.Next() {
					m.SetMapIndex(it.Key(), it.Value())
				}
				f.Set(m)
			}
		case reflect.Slice:
			if !f.IsNil() {
				s := reflect.MakeSlice(f.Type(), f.Len()+spare, f.Len()+spare)
				reflect.Copy(s, f)
				for i := f.Len(); i < s.Len(); i++ {
					s.Index(i).SetString(c31Sentinel)
				}
				f.Set(s.Slice(0, f.Len()))
			}
		}
	})
	return &out
}

// c31Same compares two leaf values; containers: nil ≡ empty.
func c31Same(a, b reflect.Value) bool {
	switch a.Kind() {
	case reflect.Map, reflect.Slice:
		if a.Len() == 0 && b.Len() == 0 {
			return true
		}
	}
	return reflect.DeepEqual(a.Interface(), b.Interface())
}

func c31Field(c *agent.Config, path string) reflect.Value {
	v := reflect.ValueOf(c).Elem()
	for _, p := range strings.Split(path, ".") {
		v = v.FieldByName(p)
	}
	return v
}

func c31Paths() []string {
	var ps []string
	for p := range c31Rules {
		ps = append(ps, p)
	}
	sort.Strings(ps)
	return ps
}

// c31FirstDiff names the first leaf at which two configs differ strictly.
func c31FirstDiff(a, b *agent.Config) string {
	for _, p := range c31Paths() {
		if !reflect.DeepEqual(c31Field(a, p).Interface(), c31Field(b, p).Interface()) {
			return p
		}
	}
	return ""
}

// c31SpareTouched names the first input list whose unused capacity no longer
// holds the sentinel: the merge wrote into memory that belongs to its input.
func c31SpareTouched(c *agent.Config) string {
	bad := ""
	c31Leaves(reflect.ValueOf(c).Elem(), "", func(p string, f reflect.Value) {
		if f.Kind() != reflect.Slice || f.IsNil() || bad != "" {
			return
		}
		full := f.Slice(0, f.Cap())
		for i := f.Len(); i < full.Len(); i++ {
			if full.Index(i).String() != c31Sentinel {
				bad = fmt.Sprintf("%s (element %d behind its %d elements now holds %q)", p, i, f.Len(), full.Index(i).String())
				return
			}
		}
	})
	return bad
}

// c31Other: a configuration that sets every list, tag and plain string setting
// of c to something else (used for the "an earlier result stays what it was" probe).
func c31Other(c *agent.Config) *agent.Config {
	out := c31DeepCopy(c)
	c31Leaves(reflect.ValueOf(out).Elem(), "", func(p string, f reflect.Value) {
		switch c31Rules[p] {
		case c31List:
			f.Set(reflect.ValueOf([]string{"other-1", "other-2", "other-3"}))
		case c31Tags:
			f.Set(reflect.ValueOf(map[string]string{"role": "other", "dc": "other", "k": "other", "other": "other"}))
		case c31Value:
			if f.Kind() == reflect.String {
				f.SetString("other")
			}
		}
	})
	return out
}

// c31Merge runs the real MergeConfig on private copies of a and b and judges
// that one call: inputs untouched (including the unused capacity of their
// lists), every setting per the rule table, and the result still the same
// value after the same earlier source has been merged with something else.
func c31Merge(x *vkit.Ctx, what string, a, b *agent.Config, spare int, sameArg, probe bool) (*agent.Config, bool) {
	a1, b1 := c31DeepCopyCap(a, spare), c31DeepCopyCap(b, spare)
	if sameArg {
		b, b1 = a, a1 // one object as both arguments
	}
	got := agent.MergeConfig(a1, b1)
	if got == nil {
		x.Violationf("merge-nil", "%s: MergeConfig returned nil", what)
		return nil, false
	}
	if l := c31SpareTouched(a1); l != "" {
		x.Violationf("input-memory-written:earlier", "%s: MergeConfig wrote into the unused capacity of its first argument's list %s", what, l)
		return nil, false
	}
	if l := c31SpareTouched(b1); l != "" {
		x.Violationf("input-memory-written:later", "%s: MergeConfig wrote into the unused capacity of its second argument's list %s", what, l)
		return nil, false
	}
	if p := c31FirstDiff(a, a1); p != "" {
		x.Violationf("input-mutated:earlier."+p, "%s: MergeConfig changed its first argument: %s was %v, is %v after the call (second argument's %s: %v)",
			what, p, c31Field(a, p).Interface(), c31Field(a1, p).Interface(), p, c31Field(b, p).Interface())
		return nil, false
	}
	if p := c31FirstDiff(b, b1); p != "" {
		x.Violationf("input-mutated:later."+p, "%s: MergeConfig changed its second argument: %s was %v, is %v after the call",
			what, p, c31Field(b, p).Interface(), c31Field(b1, p).Interface())
		return nil, false
	}
	for _, p := range c31Paths() {
		av, bv, gv := c31Field(a, p), c31Field(b, p), c31Field(got, p)
		var want reflect.Value
		switch c31Rules[p] {
		case c31Free:
			continue
		case c31Protocol:
			if bv.Int() < 0 {
				continue // whether a negative protocol "sets" it is not stated
			}
			if bv.Int() > 0 {
				want = bv
			} else {
				want = av
			}
		case c31Value:
			if !bv.IsZero() {
				want = bv
			} else {
				want = av
			}
		case c31Switch:
			want = reflect.ValueOf(av.Bool() || bv.Bool())
		case c31Later:
			want = bv
		case c31Tags:
			m := map[string]string{}
			for _, src := range []reflect.Value{av, bv} {
				it := src.MapRange()
				for it.Next() {
					m[it.Key().String()] = it.Value().String()
				}
			}
			want = reflect.ValueOf(m)
		case c31List:
			l := []string{}
			for _, src := range []reflect.Value{av, bv} {
				for i := 0; i < src.Len(); i++ {
					l = append(l, src.Index(i).String())
				}
			}
			want = reflect.ValueOf(l)
		}
		if !c31Same(gv, want) {
			x.Violationf("merge-"+c31Rules[p]+":"+p, "%s: setting %s (rule %q): earlier source has %v, later source has %v, merged has %v, expected %v",
				what, p, c31Rules[p], av.Interface(), bv.Interface(), gv.Interface(), want.Interface())
			return nil, false
		}
	}
	// what the next calls (or a restart of the caller's loop) leave behind: the
	// value returned by this merge must not change when the same sources are
	// merged again with something else
	if !probe {
		return got, true
	}
	snap := c31DeepCopy(got)
	_ = agent.MergeConfig(a1, c31Other(b))
	_ = agent.MergeConfig(c31Other(a), b1)
	if p := c31FirstDiff(snap, got); p != "" {
		x.Violationf("result-changed-by-later-merge:"+p, "%s: the merged configuration had %s = %v; after two more MergeConfig calls on the same sources it has %v (results share memory)",
			what, p, c31Field(snap, p).Interface(), c31Field(got, p).Interface())
		return nil, false
	}
	return got, true
}

func bodyC31(c c31Case, x *vkit.Ctx) {
	if c.Mode == 1 {
		c31Files(c, x)
		return
	}
	if c.A == nil || c.B == nil || c.C == nil {
		x.Inconclusive("malformed case")
		return
	}
	x.Label("merge-laws")
	// classify
	conflict, tagOverlap, switchLater, switchEarlier := false, false, false, false
	for _, pair := range [][2]*agent.Config{{c.A, c.B}, {c.B, c.C}} {
		for _, p := range c31Paths() {
			av, bv := c31Field(pair[0], p), c31Field(pair[1], p)
			switch c31Rules[p] {
			case c31Value, c31Protocol:
				if !av.IsZero() && !bv.IsZero() && !reflect.DeepEqual(av.Interface(), bv.Interface()) {
					conflict = true
				}
			case c31Switch:
				if bv.Bool() && !av.Bool() {
					switchLater = true
				}
				if av.Bool() && !bv.Bool() {
					switchEarlier = true
				}
			case c31Tags:
				it := av.MapRange()
				for it.Next() {
					if o := bv.MapIndex(it.Key()); o.IsValid() && o.String() != it.Value().String() {
						tagOverlap = true
					}
				}
			}
		}
	}
	if conflict {
		x.Label("same-setting-set-differently")
	}
	if tagOverlap {
		x.Label("tags-overlap-different-value")
	}
	if switchLater {
		x.Label("switch-on-only-in-later")
	}
	if switchEarlier {
		x.Label("switch-on-only-in-earlier")
	}
	if c.A.Tags == nil || c.B.Tags == nil {
		x.Label("nil-tags")
	}
	x.NonTrivial(conflict && tagOverlap)

	if c.Spare < 0 || c.Spare > 64 {
		x.Inconclusive("malformed case")
		return
	}
	if c.Spare > 0 {
		x.Label("input-lists-with-spare-capacity")
	}
	if c.SameAB {
		x.Label("same-object-as-both-arguments")
		if _, ok := c31Merge(x, "Merge(a,a)", c.A, c.A, c.Spare, true, false); !ok {
			return
		}
	}
	ab, ok := c31Merge(x, "Merge(a,b)", c.A, c.B, c.Spare, false, true)
	if !ok {
		return
	}
	left, ok := c31Merge(x, "Merge(Merge(a,b),c)", ab, c.C, c.Spare, false, true)
	if !ok {
		return
	}
	bc, ok := c31Merge(x, "Merge(b,c)", c.B, c.C, c.Spare, false, false)
	if !ok {
		return
	}
	right, ok := c31Merge(x, "Merge(a,Merge(b,c))", c.A, bc, c.Spare, false, false)
	if !ok {
		return
	}
	for _, p := range c31Paths() {
		if c31Rules[p] == c31Free {
			continue
		}
		if c31Rules[p] == c31Protocol && (c.A.Protocol < 0 || c.B.Protocol < 0 || c.C.Protocol < 0) {
			continue
		}
		l, r := c31Field(left, p), c31Field(right, p)
		if !c31Same(l, r) {
			x.Violationf("not-associative:"+p, "setting %s: Merge(Merge(a,b),c) has %v, Merge(a,Merge(b,c)) has %v (a %v, b %v, c %v)",
				p, l.Interface(), r.Interface(), c31Field(c.A, p).Interface(), c31Field(c.B, p).Interface(), c31Field(c.C, p).Interface())
			return
		}
	}
}

// c31Files: ReadConfigPaths ≡ fold MergeConfig over DecodeConfig(file_i).
func c31Files(c c31Case, x *vkit.Ctx) {
	x.Label("file-law")
	root, err := os.MkdirTemp("", "c31-")
	if err != nil {
		x.Inconclusive("mkdirtemp failed")
		return
	}
	defer os.RemoveAll(root)
	var write func(dir string, e c31Entry) error
	write = func(dir string, e c31Entry) error {
		p := filepath.Join(dir, e.Name)
		if e.Name == "" || strings.ContainsAny(e.Name, "/\x00") || e.Name == "." || e.Name == ".." {
			return fmt.Errorf("bad name")
		}
		if !e.Dir {
			return os.WriteFile(p, []byte(e.Content), 0o644)
		}
		if err := os.Mkdir(p, 0o755); err != nil {
			return err
		}
		for _, ch := range e.Children {
			if err := write(p, ch); err != nil {
				return err
			}
		}
		return nil
	}
	var paths []string
	var order []c31Entry // files in the order they must be read
	var orderNames []string
	dirWithTwo, ignored := false, 0
	for _, e := range c.Paths {
		if err := write(root, e); err != nil {
			x.Inconclusive("cannot materialise the generated tree")
			return
		}
		paths = append(paths, filepath.Join(root, e.Name))
		if !e.Dir {
			order = append(order, e)
			orderNames = append(orderNames, e.Name)
			continue
		}
		kids := append([]c31Entry(nil), e.Children...)
		sort.Slice(kids, func(i, j int) bool { return kids[i].Name < kids[j].Name })
		nj := 0
		for _, k := range kids {
			if k.Dir || !strings.HasSuffix(k.Name, ".json") {
				ignored++
				continue
			}
			nj++
			order = append(order, k)
			orderNames = append(orderNames, e.Name+"/"+k.Name)
		}
		if nj >= 2 {
			dirWithTwo = true
		}
	}
	// expectation: decode each file, merge one by one
	want := new(agent.Config)
	keysSeen := map[string]string{}
	conflict := false
	for i, e := range order {
		cfg, err := agent.DecodeConfig(bytes.NewReader([]byte(e.Content)))
		if err != nil {
			x.Inconclusive("generated file does not decode")
			return
		}
		want = agent.MergeConfig(want, cfg)
		var raw map[string]json.RawMessage
		_ = json.Unmarshal([]byte(e.Content), &raw)
		for k, v := range raw {
			if prev, ok := keysSeen[k]; ok && prev != string(v) {
				conflict = true
			}
			keysSeen[k] = string(v)
		}
		_ = i
	}
	x.Labelf("files-read=%d", min(len(order), 6))
	if ignored > 0 {
		x.Label("ignored-entries")
	}
	if dirWithTwo {
		x.Label("dir-with-2+-json")
	}
	x.NonTrivial(dirWithTwo && conflict)

	got, err := agent.ReadConfigPaths(paths)
	if err != nil {
		x.Violationf("read-failed", "ReadConfigPaths failed although every configuration file decodes: %v (read order expected: %v)", err, orderNames)
		return
	}
	if got == nil {
		x.Violationf("read-nil", "ReadConfigPaths returned nil without error")
		return
	}
	for _, p := range c31Paths() {
		g, w := c31Field(got, p), c31Field(want, p)
		if !c31Same(g, w) {
			x.Violationf("files-differ-from-fold:"+p, "setting %s: ReadConfigPaths gives %v, merging the files one by one in order %v gives %v",
				p, g.Interface(), orderNames, w.Interface())
			return
		}
	}
}

func TestC31(t *testing.T) {
	if probs := c31TableProblems(); len(probs) > 0 {
		t.Fatalf("C31 check setup: rule table out of date, fix the table before trusting this check:\n  %s", strings.Join(probs, "\n  "))
	}
	vkit.Run(t, "C31", genC31, bodyC31)
}
