//go:build verif

package agentq

import (
	"fmt"
	"net"
	"regexp"
	"sort"
	"strings"
	"testing"

	"github.com/hashicorp/serf/cmd/serf/command/agent"
	"github.com/hashicorp/serf/serf"
	"pgregory.net/rapid"

	"verif/internal/vkit"
)

// C26 — filtered member listings match whole names, statuses and tag values.
//
// The real filter (AgentIPC.filterMembers, through VerifFilterMembers) is run
// on a generated member set and generated patterns; the oracle is an
// independent whole-string matcher built from the *bare* pattern (two
// constructions, cross-checked against each other).

type c26Member struct {
	Name   string            `json:"name"`
	Status int               `json:"status"` // serf.MemberStatus 0..4
	Tags   map[string]string `json:"tags"`   // nil = no tags
}

type c26Case struct {
	Members []c26Member       `json:"members"`
	Tags    map[string]string `json:"tag_filters"` // tag -> pattern (always applied)
	Status  string            `json:"status"`      // "" = no status filter
	Name    string            `json:"name"`        // "" = no name filter
}

var (
	c26Values   = []string{"a", "b", "c", "ab", "ba", "aa", "abc", "cab", "bab", "a.b", "a-b", "a|b", "web", "db", "a\nb"}
	c26NameLits = []string{"a", "b", "c", "ab", "ba", "abc", "web", "db", "-", `\.`, `\|`, "w", "e"}
	c26StatLits = []string{"alive", "left", "failed", "leaving", "none", "a", "l", "f", "le", "ed", "ing", "n", "live", "fail", "e"}
	c26TagKeys  = []string{"role", "dc", "x"}
)

// c26Regex draws a pattern from a small regular-expression grammar over the
// given literal atoms.
func c26Regex(t *rapid.T, lits []string, depth int, top bool) string {
	nAlt := 1
	if top {
		nAlt = rapid.SampledFrom([]int{1, 1, 1, 2, 2, 3}).Draw(t, "nalt")
	} else if depth > 0 {
		nAlt = rapid.SampledFrom([]int{1, 1, 1, 2}).Draw(t, "nalt")
	}
	var alts []string
	for i := 0; i < nAlt; i++ {
		nItems := rapid.SampledFrom([]int{0, 1, 1, 1, 2, 2, 3}).Draw(t, "nitems")
		var sb strings.Builder
		for j := 0; j < nItems; j++ {
			a := c26Atom(t, lits, depth)
			sb.WriteString(a)
			if a == ".*" {
				continue
			}
			sb.WriteString(rapid.SampledFrom([]string{"", "", "", "", "", "*", "+", "?", "{2}", "{1,2}", "{0,1}", "*?", "+?"}).Draw(t, "rep"))
		}
		alts = append(alts, sb.String())
	}
	return strings.Join(alts, "|")
}

func c26Atom(t *rapid.T, lits []string, depth int) string {
	k := rapid.IntRange(0, 19).Draw(t, "atom")
	switch {
	case k < 9:
		return rapid.SampledFrom(lits).Draw(t, "lit")
	case k == 9:
		return "."
	case k == 10:
		return ".*"
	case k == 11:
		return rapid.SampledFrom([]string{"[ab]", "[^a]", "[a-c]", "[a-z]", `[\w.]`, "[^\n]"}).Draw(t, "class")
	case k == 12:
		return rapid.SampledFrom([]string{`\w`, `\d`, `\s`, `\S`, `\b`, `\\`}).Draw(t, "esc")
	case k == 13:
		return rapid.SampledFrom([]string{"^", "$", `\A`, `\z`}).Draw(t, "anchor")
	case k < 18 && depth > 0:
		inner := c26Regex(t, lits, depth-1, false)
		return rapid.SampledFrom([]string{"(", "(", "(?:", "(?i:", "(?P<g>"}).Draw(t, "open") + inner + ")"
	default:
		return rapid.SampledFrom(lits).Draw(t, "lit")
	}
}

func c26Invalid(t *rapid.T, lits []string) string {
	v := c26Regex(t, lits, 1, true)
	switch rapid.IntRange(0, 11).Draw(t, "invalid") {
	case 0, 1, 2:
		return v + `\`
	case 3:
		return "(" + v
	case 4:
		return v + ")"
	case 5:
		return "*" + v
	case 6:
		return "+" + v
	case 7:
		return v + "a{2,1}"
	case 8:
		return "[" + v
	case 9:
		return v + "a**"
	case 10:
		return "a)|(b"
	default:
		return rapid.SampledFrom([]string{`\8`, "(?P<x", "a{1001}", "(?z)a", `\`, "?", "a|*"}).Draw(t, "inv")
	}
}

func c26Pattern(t *rapid.T, lits []string) string {
	// rapid biases integer draws towards the low end: common shapes first
	switch k := rapid.IntRange(0, 39).Draw(t, "pkind"); {
	case k < 14:
		return c26Regex(t, lits, 2, true)
	case k < 22: // two-way alternation of short pieces: the D9 shape
		return c26Regex(t, lits, 0, false) + "|" + c26Regex(t, lits, 0, false)
	case k < 28:
		return rapid.SampledFrom(lits).Draw(t, "plain") // simple literal
	case k < 31:
		return rapid.SampledFrom([]string{"(?i)", "(?m)", "(?s)"}).Draw(t, "flag") + c26Regex(t, lits, 1, true)
	case k < 34:
		return c26Invalid(t, lits)
	case k == 34:
		return rapid.StringOfN(rapid.RuneFrom([]rune(`ab|()\*+?[]^$.{},1`)), 0, 8, -1).Draw(t, "soup")
	default:
		return c26Regex(t, lits, 1, true)
	}
}

func genC26(t *rapid.T) c26Case {
	var c c26Case
	n := rapid.IntRange(1, 6).Draw(t, "members")
	for i := 0; i < n; i++ {
		m := c26Member{
			Name:   rapid.SampledFrom(c26Values).Draw(t, "name"),
			Status: rapid.IntRange(0, 4).Draw(t, "status"),
		}
		if rapid.IntRange(0, 5).Draw(t, "hastags") > 0 {
			m.Tags = map[string]string{}
			for _, k := range c26TagKeys {
				switch rapid.IntRange(0, 3).Draw(t, "tagset") {
				case 0: // missing
				case 1:
					m.Tags[k] = ""
				default:
					m.Tags[k] = rapid.SampledFrom(c26Values).Draw(t, "tagval")
				}
			}
		}
		c.Members = append(c.Members, m)
	}
	nt := rapid.SampledFrom([]int{0, 0, 1, 1, 1, 2}).Draw(t, "ntagfilters")
	if nt > 0 {
		c.Tags = map[string]string{}
		for i := 0; i < nt; i++ {
			k := rapid.SampledFrom([]string{"role", "dc", "x", "absent"}).Draw(t, "fkey")
			if rapid.IntRange(0, 9).Draw(t, "emptypat") == 0 {
				c.Tags[k] = ""
			} else {
				c.Tags[k] = c26Pattern(t, c26NameLits)
			}
		}
	}
	if rapid.IntRange(0, 9).Draw(t, "hasstatus") < 5 {
		c.Status = c26Pattern(t, c26StatLits)
	}
	if rapid.IntRange(0, 9).Draw(t, "hasname") < 6 {
		c.Name = c26Pattern(t, c26NameLits)
	}
	return c
}

// c26Matcher is the oracle for one pattern: whole-string match, built from
// the bare pattern in two independent ways.
type c26Matcher struct {
	expr    string
	longest *regexp.Regexp // bare pattern, leftmost-longest
	wrapped *regexp.Regexp // \A(?:expr)\z
	search  *regexp.Regexp // bare pattern, plain search (for the NT rule only)
}

func c26Compile(expr string) (*c26Matcher, error) {
	bare, err := regexp.Compile(expr)
	if err != nil {
		return nil, err
	}
	l := bare.Copy()
	l.Longest()
	w, werr := regexp.Compile(`\A(?:` + expr + `)\z`)
	if werr != nil {
		w = nil
	}
	return &c26Matcher{expr: expr, longest: l, wrapped: w, search: bare}, nil
}

// whole reports whether some match of the bare pattern covers all of s.
// ok=false: the two constructions disagree (the case cannot be judged).
func (m *c26Matcher) whole(s string) (match, ok bool) {
	// leftmost-longest: if a match covering [0,len] exists the leftmost start
	// is 0 and the longest match from 0 ends at len; conversely [0,len] is one.
	idx := m.longest.FindStringIndex(s)
	a := idx != nil && idx[0] == 0 && idx[1] == len(s)
	if m.wrapped == nil {
		return a, false
	}
	b := m.wrapped.MatchString(s)
	return a, a == b
}

func c26InvalidClass(expr string) string {
	// count trailing backslashes
	n := 0
	for i := len(expr) - 1; i >= 0 && expr[i] == '\\'; i-- {
		n++
	}
	if n%2 == 1 {
		if _, err := regexp.Compile(expr[:len(expr)-1]); err == nil {
			return "trailing-backslash"
		}
	}
	if strings.HasPrefix(expr, "*") || strings.HasPrefix(expr, "+") || strings.HasPrefix(expr, "?") {
		return "leading-repeat"
	}
	return "other"
}

func bodyC26(c c26Case, x *vkit.Ctx) {
	for _, m := range c.Members {
		if m.Status < 0 || m.Status > 4 {
			x.Inconclusive("bad status in case")
			return
		}
	}
	members := make([]serf.Member, len(c.Members))
	for i, m := range c.Members {
		var tags map[string]string
		if m.Tags != nil {
			tags = map[string]string{}
			for k, v := range m.Tags {
				tags[k] = v
			}
		}
		members[i] = serf.Member{Name: m.Name, Addr: net.IPv4(10, 0, 0, byte(i+1)), Port: uint16(7000 + i),
			Tags: tags, Status: serf.MemberStatus(m.Status)}
	}
	var ftags map[string]string
	if c.Tags != nil {
		ftags = map[string]string{}
		for k, v := range c.Tags {
			ftags[k] = v
		}
	}

	got, err := agent.VerifFilterMembers(members, ftags, c.Status, c.Name)

	// ---- oracle
	type filt struct {
		kind string // "tag:<k>", "status", "name"
		expr string
		get  func(m c26Member) string
		m    *c26Matcher
	}
	var filts []filt
	var tkeys []string
	for k := range c.Tags {
		tkeys = append(tkeys, k)
	}
	sort.Strings(tkeys)
	for _, k := range tkeys {
		k := k
		filts = append(filts, filt{kind: "tag", expr: c.Tags[k], get: func(m c26Member) string { return m.Tags[k] }})
	}
	// status and name patterns are validated even when empty (empty is valid)
	filts = append(filts, filt{kind: "status", expr: c.Status, get: func(m c26Member) string { return serf.MemberStatus(m.Status).String() }})
	filts = append(filts, filt{kind: "name", expr: c.Name, get: func(m c26Member) string { return m.Name }})

	invalid := ""
	invalidKind := ""
	hasAlt, hasInvalidTrailing := false, false
	for i := range filts {
		m, cerr := c26Compile(filts[i].expr)
		if cerr != nil {
			if invalid == "" {
				invalid, invalidKind = filts[i].expr, filts[i].kind
			}
			if c26InvalidClass(filts[i].expr) == "trailing-backslash" {
				hasInvalidTrailing = true
			}
			continue
		}
		filts[i].m = m
		if strings.Contains(filts[i].expr, "|") {
			hasAlt = true
		}
	}
	if hasAlt {
		x.Label("has-alternation")
	}
	if c.Status != "" {
		x.Label("status-filter")
	}
	if c.Name != "" {
		x.Label("name-filter")
	}
	x.Labelf("tag-filters=%d", len(c.Tags))

	if invalid != "" {
		cls := c26InvalidClass(invalid)
		x.Label("invalid-pattern:" + cls)
		x.NonTrivial(hasInvalidTrailing)
		if err == nil {
			x.Violationf("invalid-pattern-accepted:"+cls, "%s pattern %q does not compile as a regular expression, but the filter returned no error (list of %d members)", invalidKind, invalid, len(got))
			return
		}
		if got != nil {
			x.Violationf("list-with-error", "invalid pattern %q: error %v but also a list of %d", invalid, err, len(got))
		}
		return
	}
	if err != nil {
		x.Violationf("valid-pattern-rejected", "all patterns compile (tags %q status %q name %q) but the filter failed: %v", c.Tags, c.Status, c.Name, err)
		return
	}

	want := map[uint16]bool{}
	failing := map[int][]string{} // member index -> kinds of filters the oracle says do not match
	failingAlt := map[int]bool{}
	distinguishes := false // a `|` pattern and a member where search-match != whole-match
	for i, m := range c.Members {
		all := true
		for _, f := range filts {
			if f.kind != "tag" && f.expr == "" {
				continue // not provided
			}
			s := f.get(m)
			ok, agree := f.m.whole(s)
			if !agree {
				x.Inconclusive("oracle constructions disagree")
				x.Labelf("oracle-disagree")
				return
			}
			if strings.Contains(f.expr, "|") && f.m.search.MatchString(s) != ok {
				distinguishes = true
			}
			if !ok {
				all = false
				failing[i] = append(failing[i], f.kind)
				if strings.Contains(f.expr, "|") {
					failingAlt[i] = true
				}
			}
		}
		if all {
			want[uint16(7000+i)] = true
		}
	}
	x.NonTrivial(hasAlt && distinguishes)
	if distinguishes {
		x.Label("alt-distinguishes-whole-from-partial")
	}
	switch {
	case len(want) == 0:
		x.Label("expect-none")
	case len(want) == len(c.Members):
		x.Label("expect-all")
	default:
		x.Label("expect-some")
	}

	gotSet := map[uint16]int{}
	for _, g := range got {
		gotSet[g.Port]++
	}
	for i, m := range c.Members {
		p := uint16(7000 + i)
		switch {
		case gotSet[p] > 1:
			x.Violationf("member-listed-twice", "member #%d %q listed %d times", i, m.Name, gotSet[p])
			return
		case gotSet[p] == 1 && !want[p]:
			sig := "listed-despite-nonmatching-" + strings.Join(c26Uniq(failing[i]), "+")
			if failingAlt[i] {
				sig = "alternation-not-whole-match"
			}
			x.Violationf(sig, "member #%d (name %q status %s tags %q) is listed, but filter(s) %v do not match the whole value; filters: tags %q status %q name %q",
				i, m.Name, serf.MemberStatus(m.Status), m.Tags, failing[i], c.Tags, c.Status, c.Name)
			return
		case gotSet[p] == 0 && want[p]:
			x.Violationf("omitted-although-all-match", "member #%d (name %q status %s tags %q) whole-matches every filter (tags %q status %q name %q) but is not listed",
				i, m.Name, serf.MemberStatus(m.Status), m.Tags, c.Tags, c.Status, c.Name)
			return
		}
		delete(gotSet, p)
	}
	if len(gotSet) > 0 {
		x.Violationf("unknown-member-listed", "filter returned members that were not in the input: %v", fmt.Sprint(gotSet))
	}
}

func c26Uniq(in []string) []string {
	seen := map[string]bool{}
	var out []string
	for _, s := range in {
		if !seen[s] {
			seen[s] = true
			out = append(out, s)
		}
	}
	sort.Strings(out)
	return out
}

func TestC26(t *testing.T) { vkit.Run(t, "C26", genC26, bodyC26) }
