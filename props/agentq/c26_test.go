//go:build verif

package agentq

import (
	"fmt"
	"io"
	"net"
	"reflect"
	"regexp"
	"sort"
	"strings"
	"testing"

	"github.com/hashicorp/serf/client"
	"github.com/hashicorp/serf/cmd/serf/command/agent"
	"github.com/hashicorp/serf/serf"
	"pgregory.net/rapid"

	"verif/internal/node"
	"verif/internal/simnet"
	"verif/internal/vkit"
)

// C26 — filtered member listings match whole names, statuses and tag values.
//
// The real filter (AgentIPC.filterMembers, through VerifFilterMembers) is run
// on a generated member set and generated patterns; the oracle is an
// independent whole-string matcher built from the *bare* pattern (two
// constructions, cross-checked against each other).
//
// About one case in twenty-five takes the whole way instead (RPC: true): a real agent with
// its IPC server on loopback, members made known to its Serf through the
// memberlist notifications (alive / leaving / left / failed), and the real
// client's MembersFiltered; the oracle then filters what the same client's
// unfiltered Members call returned.

type c26Member struct {
	Name   string            `json:"name"`
	Status int               `json:"status"` // serf.MemberStatus 0..4
	Tags   map[string]string `json:"tags"`   // nil = no tags
}

type c26Case struct {
	Members []c26Member       `json:"members"`
	Tags    map[string]string `json:"tag_filters"` // tag -> pattern (always applied)
	Status  string            `json:"status"`      // "" = no status filter
	Name    string            `json:"name"`        // "" = no name filter
	RPC     bool              `json:"rpc,omitempty"`
}

var (
	c26Values   = []string{"a", "b", "c", "ab", "ba", "aa", "abc", "cab", "bab", "a.b", "a-b", "a|b", "web", "db", "a\nb", "A", "Web", "a\n", " a", "aaa", "é", "\\"}
	c26NameLits = []string{"a", "b", "c", "ab", "ba", "abc", "web", "db", "-", `\.`, `\|`, "w", "e"}
	c26StatLits = []string{"alive", "left", "failed", "leaving", "none", "a", "l", "f", "le", "ed", "ing", "n", "live", "fail", "e"}
	c26TagKeys  = []string{"role", "dc", "x"}
)

// c26Regex draws a pattern from a small regular-expression grammar over the
// given literal atoms.
func c26Regex(t *rapid.T, lits []string, depth int, top bool) string {
	nAlt := 1
	if top {
		nAlt = rapid.SampledFrom([]int{1, 1, 1, 2, 2, 3}).Draw(t, "nalt")
	} else if depth > 0 {
		nAlt = rapid.SampledFrom([]int{1, 1, 1, 2}).Draw(t, "nalt")
	}
	var alts []string
	for i := 0; i < nAlt; i++ {
		nItems := rapid.SampledFrom([]int{0, 1, 1, 1, 2, 2, 3}).Draw(t, "nitems")
		var sb strings.Builder
		for j := 0; j < nItems; j++ {
			a := c26Atom(t, lits, depth)
			sb.WriteString(a)
			if a == ".*" {
				continue
			}
			sb.WriteString(rapid.SampledFrom([]string{"", "", "", "", "", "*", "+", "?", "{2}", "{1,2}", "{0,1}", "*?", "+?"}).Draw(t, "rep"))
		}
		alts = append(alts, sb.String())
	}
	return strings.Join(alts, "|")
}

func c26Atom(t *rapid.T, lits []string, depth int) string {
	k := rapid.IntRange(0, 19).Draw(t, "atom")
	switch {
	case k < 9:
		return rapid.SampledFrom(lits).Draw(t, "lit")
	case k == 9:
		return "."
	case k == 10:
		return ".*"
	case k == 11:
		return rapid.SampledFrom([]string{"[ab]", "[^a]", "[a-c]", "[a-z]", `[\w.]`, "[^\n]"}).Draw(t, "class")
	case k == 12:
		return rapid.SampledFrom([]string{`\w`, `\d`, `\s`, `\S`, `\b`, `\\`}).Draw(t, "esc")
	case k == 13:
		return rapid.SampledFrom([]string{"^", "$", `\A`, `\z`}).Draw(t, "anchor")
	case k < 18 && depth > 0:
		inner := c26Regex(t, lits, depth-1, false)
		return rapid.SampledFrom([]string{"(", "(", "(?:", "(?i:", "(?P<g>"}).Draw(t, "open") + inner + ")"
	default:
		return rapid.SampledFrom(lits).Draw(t, "lit")
	}
}

func c26Invalid(t *rapid.T, lits []string) string {
	v := c26Regex(t, lits, 1, true)
	switch rapid.IntRange(0, 11).Draw(t, "invalid") {
	case 0, 1, 2:
		return v + `\`
	case 3:
		return "(" + v
	case 4:
		return v + ")"
	case 5:
		return "*" + v
	case 6:
		return "+" + v
	case 7:
		return v + "a{2,1}"
	case 8:
		return "[" + v
	case 9:
		return v + "a**"
	case 10:
		return "a)|(b"
	default:
		return rapid.SampledFrom([]string{`\8`, "(?P<x", "a{1001}", "(?z)a", `\`, "?", "a|*"}).Draw(t, "inv")
	}
}

func c26Pattern(t *rapid.T, lits []string) string {
	// rapid biases integer draws towards the low end: common shapes first
	switch k := rapid.IntRange(0, 39).Draw(t, "pkind"); {
	case k < 14:
		return c26Regex(t, lits, 2, true)
	case k < 22: // two-way alternation of short pieces: the D9 shape
		return c26Regex(t, lits, 0, false) + "|" + c26Regex(t, lits, 0, false)
	case k < 28:
		return rapid.SampledFrom(lits).Draw(t, "plain") // simple literal
	case k < 31:
		return rapid.SampledFrom([]string{"(?i)", "(?m)", "(?s)"}).Draw(t, "flag") + c26Regex(t, lits, 1, true)
	case k < 34:
		return c26Invalid(t, lits)
	case k == 34:
		return rapid.StringOfN(rapid.RuneFrom([]rune(`ab|()\*+?[]^$.{},1`)), 0, 8, -1).Draw(t, "soup")
	case k < 38:
		// the user wrote anchors of their own: around an alternation they bind
		// only its first and last alternative, and a final "\$" is a literal
		// dollar, not an anchor - the whole-string rule still applies to all of it
		body := c26Regex(t, lits, 0, false) + "|" + c26Regex(t, lits, 0, false)
		if rapid.IntRange(0, 2).Draw(t, "anch.single") == 0 {
			body = rapid.SampledFrom(lits).Draw(t, "anch.lit")
		}
		return rapid.SampledFrom([]string{"^", "^", "^", "", `\A`}).Draw(t, "anch.l") + body + rapid.SampledFrom([]string{"$", "$", "$", `\$`, "", `\z`}).Draw(t, "anch.r")
	default:
		return c26Regex(t, lits, 1, true)
	}
}

func genC26(t *rapid.T) c26Case {
	var c c26Case
	n := rapid.IntRange(1, 6).Draw(t, "members")
	for i := 0; i < n; i++ {
		m := c26Member{
			Name:   rapid.SampledFrom(c26Values).Draw(t, "name"),
			Status: rapid.IntRange(0, 4).Draw(t, "status"),
		}
		if rapid.IntRange(0, 5).Draw(t, "hastags") > 0 {
			m.Tags = map[string]string{}
			for _, k := range c26TagKeys {
				switch rapid.IntRange(0, 3).Draw(t, "tagset") {
				case 0: // missing
				case 1:
					m.Tags[k] = ""
				default:
					m.Tags[k] = rapid.SampledFrom(c26Values).Draw(t, "tagval")
				}
			}
		}
		c.Members = append(c.Members, m)
	}
	nt := rapid.SampledFrom([]int{0, 0, 1, 1, 1, 2}).Draw(t, "ntagfilters")
	if nt > 0 {
		c.Tags = map[string]string{}
		for i := 0; i < nt; i++ {
			k := rapid.SampledFrom([]string{"role", "dc", "x", "absent", "role", "dc", "x", "Role"}).Draw(t, "fkey")
			if rapid.IntRange(0, 9).Draw(t, "emptypat") == 0 {
				c.Tags[k] = ""
			} else {
				c.Tags[k] = c26Pattern(t, c26NameLits)
			}
		}
	}
	if rapid.IntRange(0, 9).Draw(t, "hasstatus") < 5 {
		c.Status = c26Pattern(t, c26StatLits)
	}
	if rapid.IntRange(0, 9).Draw(t, "hasname") < 6 {
		c.Name = c26Pattern(t, c26NameLits)
	}
	c.RPC = rapid.IntRange(0, 23).Draw(t, "rpc") == 11 // (a mid-range value: rapid favours the ends)
	return c
}

// c26Matcher is the oracle for one pattern: whole-string match, built from
// the bare pattern in two independent ways.
type c26Matcher struct {
	expr    string
	longest *regexp.Regexp // bare pattern, leftmost-longest
	wrapped *regexp.Regexp // \A(?:expr)\z
	search  *regexp.Regexp // bare pattern, plain search (for the NT rule only)
}

func c26Compile(expr string) (*c26Matcher, error) {
	bare, err := regexp.Compile(expr)
	if err != nil {
		return nil, err
	}
	l := bare.Copy()
	l.Longest()
	w, werr := regexp.Compile(`\A(?:` + expr + `)\z`)
	if werr != nil {
		w = nil
	}
	return &c26Matcher{expr: expr, longest: l, wrapped: w, search: bare}, nil
}

// whole reports whether some match of the bare pattern covers all of s.
// ok=false: the two constructions disagree (the case cannot be judged).
func (m *c26Matcher) whole(s string) (match, ok bool) {
	// leftmost-longest: if a match covering [0,len] exists the leftmost start
	// is 0 and the longest match from 0 ends at len; conversely [0,len] is one.
	idx := m.longest.FindStringIndex(s)
	a := idx != nil && idx[0] == 0 && idx[1] == len(s)
	if m.wrapped == nil {
		return a, false
	}
	b := m.wrapped.MatchString(s)
	return a, a == b
}

func c26InvalidClass(expr string) string {
	// count trailing backslashes
	n := 0
	for i := len(expr) - 1; i >= 0 && expr[i] == '\\'; i-- {
		n++
	}
	if n%2 == 1 {
		if _, err := regexp.Compile(expr[:len(expr)-1]); err == nil {
			return "trailing-backslash"
		}
	}
	if strings.HasPrefix(expr, "*") || strings.HasPrefix(expr, "+") || strings.HasPrefix(expr, "?") {
		return "leading-repeat"
	}
	return "other"
}

// c26Subject is one member as the oracle sees it.
type c26Subject struct {
	ID     string // how it is recognised in the returned list
	Name   string
	Status string
	Tags   map[string]string
}

func bodyC26(c c26Case, x *vkit.Ctx) {
	for _, m := range c.Members {
		if m.Status < 0 || m.Status > 4 {
			x.Inconclusive("bad status in case")
			return
		}
	}
	if c.RPC {
		c26RPC(c, x)
		return
	}
	x.Label("path:filter-direct")
	members := make([]serf.Member, len(c.Members))
	subjects := make([]c26Subject, len(c.Members))
	for i, m := range c.Members {
		var tags map[string]string
		if m.Tags != nil {
			tags = map[string]string{}
			for k, v := range m.Tags {
				tags[k] = v
			}
		}
		members[i] = serf.Member{Name: m.Name, Addr: net.IPv4(10, 0, 0, byte(i+1)), Port: uint16(7000 + i),
			Tags: tags, Status: serf.MemberStatus(m.Status)}
		subjects[i] = c26Subject{ID: fmt.Sprint(7000 + i), Name: m.Name, Status: serf.MemberStatus(m.Status).String(), Tags: m.Tags}
	}
	var ftags map[string]string
	if c.Tags != nil {
		ftags = map[string]string{}
		for k, v := range c.Tags {
			ftags[k] = v
		}
	}
	before := make([]serf.Member, len(members))
	copy(before, members)

	got, err := agent.VerifFilterMembers(members, ftags, c.Status, c.Name)

	// the call must leave what it was given alone
	if !reflect.DeepEqual(before, members) {
		x.Violationf("input-members-changed", "the member list handed to the filter was modified")
		return
	}
	if (c.Tags == nil) != (ftags == nil) || len(ftags) != len(c.Tags) {
		x.Violationf("input-filter-changed", "the tag filter map handed to the filter was modified: %q, was %q", ftags, c.Tags)
		return
	}
	for k, v := range c.Tags {
		if fv, ok := ftags[k]; !ok || fv != v {
			x.Violationf("input-filter-changed", "the tag filter map handed to the filter was modified: %q, was %q", ftags, c.Tags)
			return
		}
	}
	var gotIDs []string
	for _, g := range got {
		gotIDs = append(gotIDs, fmt.Sprint(g.Port))
		if i := int(g.Port) - 7000; i >= 0 && i < len(before) && !reflect.DeepEqual(g, before[i]) {
			x.Violationf("listed-member-altered", "member #%d is listed as %+v, it is %+v", i, g, before[i])
			return
		}
	}
	c26Judge(c, x, subjects, gotIDs, got != nil, err)
}

// c26RPC: the same question asked the way a user asks it.
func c26RPC(c c26Case, x *vkit.Ctx) {
	x.Label("path:members-filtered-rpc")
	const self = "zz-self"
	nw := simnet.New(1)
	conf, tr, _, _ := node.Config(nw, node.Opts{Name: self, Quiet: true, NoEventCh: true, Tags: map[string]string{"role": "ab", "x": "a|b"},
		Mutate: func(sc *serf.Config) {
			sc.Logger = nil
			sc.MemberlistConfig.Logger = nil
		}})
	aconf := agent.DefaultConfig()
	aconf.NodeName = self
	a, err := agent.Create(aconf, conf, io.Discard)
	if err != nil {
		tr.Kill()
		x.Inconclusive("agent could not be created")
		return
	}
	if err := a.Start(); err != nil {
		tr.Kill()
		x.Inconclusive("agent could not be started")
		return
	}
	ln, err := loopbackListen()
	if err != nil {
		a.Shutdown()
		tr.Kill()
		x.Inconclusive("cannot listen on loopback")
		return
	}
	ipc := agent.NewAgentIPC(a, "", ln, io.Discard, agent.NewLogWriter(8), false)
	defer func() {
		a.Shutdown()
		ipc.Shutdown()
		tr.Kill()
	}()

	// make the members known: join, then whatever leads to the status
	sf := a.Serf()
	ed, dl := sf.VerifEventDelegate(), sf.VerifDelegate()
	used := map[string]bool{self: true}
	for i, m := range c.Members {
		if used[m.Name] || m.Name == "" {
			continue
		}
		used[m.Name] = true
		var meta []byte
		if m.Tags != nil {
			meta = sf.VerifEncodeTags(m.Tags)
		}
		n := node.MLNode(m.Name, fmt.Sprintf("10.0.0.%d", i+1), uint16(7000+i), meta, 5, 5)
		ed.NotifyJoin(n)
		if m.Status == 2 || m.Status == 3 { // leaving, left: a leave intent first
			buf, err := serf.VerifEncodeMessage(serf.VerifMessageLeaveType, &serf.VerifMessageLeave{LTime: serf.LamportTime(100 + i), Node: m.Name}, false)
			if err != nil {
				x.Inconclusive("cannot encode a leave intent")
				return
			}
			dl.NotifyMsg(buf)
		}
		if m.Status == 3 || m.Status == 4 { // left, failed: memberlist reports it gone
			ed.NotifyLeave(n)
		}
	}

	cl, err := client.NewRPCClient(ln.Addr().String())
	if err != nil {
		x.Inconclusive("RPC client could not connect")
		return
	}
	defer cl.Close()
	base, err := cl.Members()
	if err != nil {
		x.Inconclusive("unfiltered members call failed")
		return
	}
	var subjects []c26Subject
	statuses := map[string]bool{}
	for _, m := range base {
		subjects = append(subjects, c26Subject{ID: m.Name, Name: m.Name, Status: m.Status, Tags: m.Tags})
		statuses[m.Status] = true
	}
	x.Labelf("rpc:distinct-statuses=%d", len(statuses))
	var ftags map[string]string
	if c.Tags != nil {
		ftags = map[string]string{}
		for k, v := range c.Tags {
			ftags[k] = v
		}
	}
	got, err := cl.MembersFiltered(ftags, c.Status, c.Name)
	var gotIDs []string
	for _, g := range got {
		gotIDs = append(gotIDs, g.Name)
		for _, b := range base {
			if b.Name == g.Name && !reflect.DeepEqual(g, b) {
				x.Violationf("listed-member-altered", "member %q is listed as %+v, the unfiltered list has %+v", g.Name, g, b)
				return
			}
		}
	}
	c26Judge(c, x, subjects, gotIDs, len(got) > 0, err)
}

// c26Judge compares the identifiers of the returned list with the oracle's.
func c26Judge(c c26Case, x *vkit.Ctx, subjects []c26Subject, gotIDs []string, hasList bool, err error) {
	type filt struct {
		kind string // "tag:<k>", "status", "name"
		expr string
		get  func(m c26Subject) string
		m    *c26Matcher
	}
	var filts []filt
	var tkeys []string
	for k := range c.Tags {
		tkeys = append(tkeys, k)
	}
	sort.Strings(tkeys)
	for _, k := range tkeys {
		k := k
		filts = append(filts, filt{kind: "tag", expr: c.Tags[k], get: func(m c26Subject) string { return m.Tags[k] }})
	}
	// status and name patterns are validated even when empty (empty is valid)
	filts = append(filts, filt{kind: "status", expr: c.Status, get: func(m c26Subject) string { return m.Status }})
	filts = append(filts, filt{kind: "name", expr: c.Name, get: func(m c26Subject) string { return m.Name }})

	invalid := ""
	invalidKind := ""
	hasAlt, hasInvalidTrailing := false, false
	for i := range filts {
		m, cerr := c26Compile(filts[i].expr)
		if cerr != nil {
			if invalid == "" {
				invalid, invalidKind = filts[i].expr, filts[i].kind
			}
			if c26InvalidClass(filts[i].expr) == "trailing-backslash" {
				hasInvalidTrailing = true
			}
			continue
		}
		filts[i].m = m
		if strings.Contains(filts[i].expr, "|") {
			hasAlt = true
		}
	}
	if hasAlt {
		x.Label("has-alternation")
	}
	if c.Status != "" {
		x.Label("status-filter")
	}
	if c.Name != "" {
		x.Label("name-filter")
	}
	x.Labelf("tag-filters=%d", len(c.Tags))

	if invalid != "" {
		cls := c26InvalidClass(invalid)
		x.Label("invalid-pattern:" + cls)
		x.NonTrivial(hasInvalidTrailing)
		if err == nil {
			x.Violationf("invalid-pattern-accepted:"+cls, "%s pattern %q does not compile as a regular expression, but the filter returned no error (list of %d members)", invalidKind, invalid, len(gotIDs))
			return
		}
		if hasList {
			x.Violationf("list-with-error", "invalid pattern %q: error %v but also a list of %d", invalid, err, len(gotIDs))
		}
		return
	}
	if err != nil {
		x.Violationf("valid-pattern-rejected", "all patterns compile (tags %q status %q name %q) but the filter failed: %v", c.Tags, c.Status, c.Name, err)
		return
	}

	want := map[string]bool{}
	failing := map[int][]string{} // member index -> kinds of filters the oracle says do not match
	failingAlt := map[int]bool{}
	distinguishes := false // a `|` pattern and a member where search-match != whole-match
	for i, m := range subjects {
		all := true
		for _, f := range filts {
			if f.kind != "tag" && f.expr == "" {
				continue // not provided
			}
			s := f.get(m)
			ok, agree := f.m.whole(s)
			if !agree {
				x.Inconclusive("oracle constructions disagree")
				x.Labelf("oracle-disagree")
				return
			}
			if strings.Contains(f.expr, "|") && f.m.search.MatchString(s) != ok {
				distinguishes = true
			}
			if !ok {
				all = false
				failing[i] = append(failing[i], f.kind)
				if strings.Contains(f.expr, "|") {
					failingAlt[i] = true
				}
			}
		}
		if all {
			want[m.ID] = true
		}
	}
	x.NonTrivial(hasAlt && distinguishes)
	if distinguishes {
		x.Label("alt-distinguishes-whole-from-partial")
	}
	switch {
	case len(want) == 0:
		x.Label("expect-none")
	case len(want) == len(subjects):
		x.Label("expect-all")
	default:
		x.Label("expect-some")
	}

	gotSet := map[string]int{}
	for _, g := range gotIDs {
		gotSet[g]++
	}
	for i, m := range subjects {
		p := m.ID
		switch {
		case gotSet[p] > 1:
			x.Violationf("member-listed-twice", "member #%d %q listed %d times", i, m.Name, gotSet[p])
			return
		case gotSet[p] == 1 && !want[p]:
			sig := "listed-despite-nonmatching-" + strings.Join(c26Uniq(failing[i]), "+")
			if failingAlt[i] {
				sig = "alternation-not-whole-match"
			}
			x.Violationf(sig, "member #%d (name %q status %s tags %q) is listed, but filter(s) %v do not match the whole value; filters: tags %q status %q name %q",
				i, m.Name, m.Status, m.Tags, failing[i], c.Tags, c.Status, c.Name)
			return
		case gotSet[p] == 0 && want[p]:
			x.Violationf("omitted-although-all-match", "member #%d (name %q status %s tags %q) whole-matches every filter (tags %q status %q name %q) but is not listed",
				i, m.Name, m.Status, m.Tags, c.Tags, c.Status, c.Name)
			return
		}
		delete(gotSet, p)
	}
	if len(gotSet) > 0 {
		x.Violationf("unknown-member-listed", "filter returned members that were not in the input: %v", fmt.Sprint(gotSet))
	}
}

func c26Uniq(in []string) []string {
	seen := map[string]bool{}
	var out []string
	for _, s := range in {
		if !seen[s] {
			seen[s] = true
			out = append(out, s)
		}
	}
	sort.Strings(out)
	return out
}

func TestC26(t *testing.T) { vkit.Run(t, "C26", genC26, bodyC26) }
