//go:build verif

package agentq

import (
	"fmt"
	"runtime"
	"strings"
	"sync"
	"sync/atomic"
	"testing"

	"github.com/hashicorp/serf/cmd/serf/command/agent"
	"pgregory.net/rapid"

	"verif/internal/vkit"
)

// C29 — agent log lines are delivered completely and in order.
//
// Kind 0: GatedWriter. Real goroutines behind a start barrier write uniquely
// numbered lines in three phases: "pre" writers finish before Flush is called,
// "during" writers run concurrently with Flush, "post" writers start after
// Flush returned. The schedule is NOT owned: a violation is real, a pass only
// says that the schedules that happened were fine. No timing is asserted.
// Every writer formats its lines into one reused buffer (as package log does),
// Flush may be called a second time (after or concurrently with the first) and
// the underlying writer may yield the processor inside every call.
// Kind 1: logWriter, sequential writes, monitor attachments, repeated
// registrations and deregistrations at generated positions (deterministic).
// Kind 2: logWriter, concurrent writers with monitors attached in the middle;
// a reference monitor attached from the start gives the linearisation.

type c29Case struct {
	Kind int `json:"kind"`
	// kind 0
	Pre        int `json:"pre,omitempty"`         // writers that finish before Flush is called
	During     int `json:"during,omitempty"`      // writers concurrent with Flush
	Post       int `json:"post,omitempty"`        // writers that start after Flush returned
	Lines      int `json:"lines,omitempty"`       // lines per writer
	FlushAfter int `json:"flush_after,omitempty"` // Flush is called once this many "during" writes returned
	Reps       int `json:"reps,omitempty"`        // the round is repeated (fresh writer each time)
	// Flush2: 0 Flush is called once; 1 a second Flush follows the first (before
	// the "post" writers start); 2 a second Flush runs concurrently with the first
	Flush2 int `json:"flush2,omitempty"`
	// Slow (all kinds): the harness' sink (underlying writer / monitor) yields the
	// processor this many times inside every call, which stretches whatever the
	// code under test does around the call (no sleeping, no timing assumption)
	Slow int `json:"slow,omitempty"`
	// kind 1, 2
	Buf int   `json:"buf,omitempty"`
	// kind 1: op%10 = 0 attach a new monitor, 1 write "…\n", 2 write without
	// newline, 3 register monitor #(op/10 mod monitors) again, 4 deregister it
	Ops []int `json:"ops,omitempty"`
	// kind 2
	Writers  int   `json:"writers,omitempty"`
	AttachAt []int `json:"attach_at,omitempty"` // attach a monitor once this many writes returned
}

func genC29(t *rapid.T) c29Case {
	switch rapid.IntRange(0, 5).Draw(t, "kind") {
	case 0, 1, 2:
		c := c29Case{Kind: 0}
		total := rapid.IntRange(1, 16).Draw(t, "writers")
		// split writers over the phases
		for i := 0; i < total; i++ {
			switch rapid.IntRange(0, 3).Draw(t, "phase") {
			case 0, 1:
				c.During++
			case 2:
				c.Pre++
			default:
				c.Post++
			}
		}
		// long writers first: overlap with Flush needs writers that live long enough
		c.Lines = rapid.SampledFrom([]int{200, 100, 150, 50, 120, 20, 10, 5, 2, 1, 3, 30, 75}).Draw(t, "lines")
		// tenths of the "during" writes, middle first (rapid favours the front)
		c.FlushAfter = c.During * c.Lines * rapid.SampledFrom([]int{5, 3, 7, 2, 8, 1, 9, 0, 10}).Draw(t, "flushafter") / 10
		c.Reps = rapid.IntRange(1, 4).Draw(t, "reps")
		c.Flush2 = rapid.SampledFrom([]int{0, 0, 1, 2}).Draw(t, "flush2")
		c.Slow = rapid.SampledFrom([]int{0, 0, 1, 3}).Draw(t, "slow")
		return c
	case 3:
		c := c29Case{Kind: 1, Buf: rapid.IntRange(1, 64).Draw(t, "buf")}
		n := rapid.IntRange(1, 150).Draw(t, "nops")
		for i := 0; i < n; i++ {
			op := rapid.SampledFrom([]int{1, 1, 1, 1, 2, 0, 1, 1, 1, 3, 4, 1}).Draw(t, "op")
			if op >= 3 {
				op += 10 * rapid.IntRange(0, 5).Draw(t, "mon")
			}
			c.Ops = append(c.Ops, op)
		}
		return c
	default:
		c := c29Case{Kind: 2, Buf: rapid.IntRange(1, 64).Draw(t, "buf")}
		c.Writers = rapid.IntRange(1, 8).Draw(t, "writers")
		c.Lines = rapid.IntRange(1, 100).Draw(t, "lines")
		na := rapid.IntRange(1, 3).Draw(t, "nattach")
		for i := 0; i < na; i++ {
			c.AttachAt = append(c.AttachAt, c.Writers*c.Lines*rapid.SampledFrom([]int{5, 3, 7, 2, 8, 1, 9, 0, 10}).Draw(t, "attachat")/10)
		}
		c.Slow = rapid.SampledFrom([]int{0, 0, 1, 3}).Draw(t, "slow")
		return c
	}
}

// c29Rec is the underlying writer of the gate: records arrival order.
type c29Rec struct {
	mu    sync.Mutex
	lines []string
	slow  int
}

func c29Yield(n int) {
	for i := 0; i < n; i++ {
		runtime.Gosched()
	}
}

func (r *c29Rec) Write(p []byte) (int, error) {
	c29Yield(r.slow)
	r.mu.Lock()
	r.lines = append(r.lines, string(p))
	r.mu.Unlock()
	c29Yield(r.slow)
	return len(p), nil
}

// c29Writer is one log producer. Like log.Logger it formats every line into
// ONE buffer that it reuses for the next line: an io.Writer must not keep the
// slice it was handed (io.Writer: "Write must not retain p").
type c29Writer struct{ buf []byte }

func (w *c29Writer) line(s string) []byte {
	w.buf = append(w.buf[:0], s...)
	return w.buf
}

// c29Mon is a log monitor.
type c29Mon struct {
	mu    sync.Mutex
	lines []string
	slow  int
}

func (m *c29Mon) HandleLog(s string) {
	c29Yield(m.slow)
	m.mu.Lock()
	m.lines = append(m.lines, s)
	m.mu.Unlock()
}

func (m *c29Mon) count() int {
	m.mu.Lock()
	defer m.mu.Unlock()
	return len(m.lines)
}

func (m *c29Mon) snapshot() []string {
	m.mu.Lock()
	defer m.mu.Unlock()
	return append([]string(nil), m.lines...)
}

// c29Barrier is a spinning start barrier: all parties are running (not parked
// on a channel) when they are released, which makes real overlap likely.
type c29Barrier struct {
	ready atomic.Int64
	open  atomic.Bool
}

func (b *c29Barrier) wait() {
	b.ready.Add(1)
	for !b.open.Load() {
		runtime.Gosched()
	}
}

func (b *c29Barrier) release(parties int) {
	for b.ready.Load() < int64(parties) {
		runtime.Gosched()
	}
	b.open.Store(true)
}

func c29Line(w, i int) string { return fmt.Sprintf("w%02d-%04d", w, i) }

func c29Parse(s string) (w, i int, ok bool) {
	if len(s) != 8 || s[0] != 'w' || s[3] != '-' {
		return 0, 0, false
	}
	if _, err := fmt.Sscanf(s, "w%02d-%04d", &w, &i); err != nil {
		return 0, 0, false
	}
	return w, i, true
}

func bodyC29(c c29Case, x *vkit.Ctx) {
	// two cases in three: the writers' goroutines linger after releasing one of
	// the mutexes of GatedWriter / logWriter (lockyield_test.go)
	lockYield((c.Lines + c.Slow + c.Writers + len(c.Ops)) % 3)
	defer lockYield(0)
	switch c.Kind {
	case 0:
		c29Gated(c, x)
	case 1:
		c29LogSeq(c, x)
	case 2:
		c29LogConc(c, x)
	default:
		x.Inconclusive("malformed case")
	}
}

// ---------------------------------------------------------------- gated writer

func c29Gated(c c29Case, x *vkit.Ctx) {
	if c.Pre < 0 || c.During < 0 || c.Post < 0 || c.Pre+c.During+c.Post < 1 || c.Pre+c.During+c.Post > 64 ||
		c.Lines < 1 || c.Lines > 2000 || c.Reps < 1 || c.Reps > 1000 || c.Flush2 < 0 || c.Flush2 > 2 || c.Slow < 0 || c.Slow > 64 {
		x.Inconclusive("malformed case")
		return
	}
	x.Label("gated")
	if c.Pre >= 2 {
		x.Label("gated:>=2-concurrent-writers-before-flush")
	}
	if c.During >= 1 {
		x.Label("gated:writers-during-flush")
	}
	if c.Pre > 0 && c.Post > 0 {
		x.Label("gated:pre-and-post-writers")
	}
	x.Labelf("gated:second-flush=%s", []string{"none", "after", "concurrent"}[c.Flush2])
	if c.Slow > 0 {
		x.Label("gated:slow-underlying-writer")
	}
	overlapMax := 0
	for rep := 0; rep < c.Reps; rep++ {
		ov, bad := c29GatedRound(c, x)
		if ov > overlapMax {
			overlapMax = ov
		}
		if bad {
			return
		}
	}
	x.Labelf("gated:writers-overlapping-gate=%d", min(overlapMax, 4))
	x.NonTrivial(overlapMax >= 2)
}

// one round; returns how many writers had writes on both sides of the Flush
// call, and whether a violation was reported.
func c29GatedRound(c c29Case, x *vkit.Ctx) (overlap int, bad bool) {
	rec := &c29Rec{slow: c.Slow}
	gw := &agent.GatedWriter{Writer: rec}
	nw := c.Pre + c.During + c.Post
	// the first Write whose result is not (len(p), nil) although the underlying
	// writer always returns exactly that
	var badWrite atomic.Pointer[string]
	write := func(lw *c29Writer, w, i int) {
		p := lw.line(c29Line(w, i) + "\n")
		if n, err := gw.Write(p); n != len(p) || err != nil {
			s := fmt.Sprintf("Write(%q) = %d, %v", c29Line(w, i)+"\n", n, err)
			badWrite.CompareAndSwap(nil, &s)
		}
	}

	// phase A: pre writers, all done before Flush is called
	var wg sync.WaitGroup
	var startA c29Barrier
	for w := 0; w < c.Pre; w++ {
		wg.Add(1)
		go func(w int) {
			defer wg.Done()
			startA.wait()
			lw := &c29Writer{}
			for i := 0; i < c.Lines; i++ {
				write(lw, w, i)
			}
		}(w)
	}
	startA.release(c.Pre)
	wg.Wait()

	// phase B: during writers and the flusher; phase C: post writers
	var flushCalled atomic.Bool
	var duringDone atomic.Int64
	var overlapping atomic.Int64
	var startB c29Barrier
	flushed := make(chan struct{})
	flushAfter := int64(min(max(c.FlushAfter, 0), c.During*c.Lines))
	for w := c.Pre; w < c.Pre+c.During; w++ {
		wg.Add(1)
		go func(w int) {
			defer wg.Done()
			startB.wait()
			before, after := false, false
			lw := &c29Writer{}
			for i := 0; i < c.Lines; i++ {
				b := flushCalled.Load()
				write(lw, w, i)
				a := flushCalled.Load()
				duringDone.Add(1)
				if !b {
					before = true // this Write began before Flush was called
				}
				if a {
					after = true // this Write ended after Flush was called
				}
			}
			if before && after {
				overlapping.Add(1)
			}
		}(w)
	}
	wg.Add(1)
	go func() {
		defer wg.Done()
		startB.wait()
		for duringDone.Load() < flushAfter {
			runtime.Gosched()
		}
		flushCalled.Store(true)
		gw.Flush()
		if c.Flush2 == 1 {
			gw.Flush() // the gate is open and the buffer drained: nothing may come out again
		}
		close(flushed)
	}()
	partiesB := c.During + 1
	if c.Flush2 == 2 {
		partiesB++
		wg.Add(1)
		go func() {
			defer wg.Done()
			startB.wait()
			for !flushCalled.Load() {
				runtime.Gosched()
			}
			gw.Flush()
		}()
	}
	for w := c.Pre + c.During; w < nw; w++ {
		wg.Add(1)
		go func(w int) {
			defer wg.Done()
			<-flushed
			lw := &c29Writer{}
			for i := 0; i < c.Lines; i++ {
				write(lw, w, i)
			}
		}(w)
	}
	startB.release(partiesB)
	wg.Wait()
	overlap = int(overlapping.Load())
	if s := badWrite.Load(); s != nil {
		x.Violationf("gated-write-result", "the underlying writer accepts everything, but %s", *s)
		return overlap, true
	}

	// ---- verdict (all goroutines are done; rec is quiescent)
	out := rec.lines
	pos := make([][]int, nw) // pos[w][i] = index in out, -1 = absent
	for w := range pos {
		pos[w] = make([]int, c.Lines)
		for i := range pos[w] {
			pos[w][i] = -1
		}
	}
	empties, firstEmpty := 0, -1
	for idx, l := range out {
		if l == "" {
			// judged below: an empty write is what a torn buffer produces
			empties++
			if firstEmpty < 0 {
				firstEmpty = idx
			}
			continue
		}
		w, i, ok := c29Parse(strings.TrimSuffix(l, "\n"))
		if !ok || !strings.HasSuffix(l, "\n") || w >= nw || i >= c.Lines {
			x.Violationf("gated-foreign-line", "underlying writer received %q which nobody wrote (position %d of %d)", l, idx, len(out))
			return overlap, true
		}
		if pos[w][i] >= 0 {
			x.Violationf("gated-line-duplicated", "line %q reached the underlying writer twice (positions %d and %d)", l, pos[w][i], idx)
			return overlap, true
		}
		pos[w][i] = idx
	}
	lost, firstLost := 0, ""
	for w := range pos {
		for i := range pos[w] {
			if pos[w][i] < 0 {
				lost++
				if firstLost == "" {
					firstLost = c29Line(w, i)
				}
			}
		}
	}
	if lost > 0 {
		x.Violationf("gated-lines-lost-concurrent-writers", "%d of %d lines never reached the underlying writer (first: %q); %d writers finished before Flush, %d ran during it, %d after, %d lines each",
			lost, nw*c.Lines, firstLost, c.Pre, c.During, c.Post, c.Lines)
		return overlap, true
	}
	if empties > 0 {
		x.Violationf("gated-empty-write", "the underlying writer received %d empty writes nobody made (first at position %d of %d)", empties, firstEmpty, len(out))
		return overlap, true
	}
	for w := range pos {
		for i := 1; i < c.Lines; i++ {
			if pos[w][i] < pos[w][i-1] {
				phase := "pre"
				if w >= c.Pre+c.During {
					phase = "post"
				} else if w >= c.Pre {
					phase = "during"
				}
				x.Violationf("gated-later-line-overtook-earlier", "writer %d (%s-flush phase) wrote %q and, after that Write returned, %q; the output has them at positions %d and %d (reversed)",
					w, phase, c29Line(w, i-1), c29Line(w, i), pos[w][i-1], pos[w][i])
				return overlap, true
			}
		}
	}
	maxPre, minPost := -1, len(out)
	for w := 0; w < c.Pre; w++ {
		maxPre = max(maxPre, pos[w][c.Lines-1])
	}
	for w := c.Pre + c.During; w < nw; w++ {
		minPost = min(minPost, pos[w][0])
	}
	if c.Pre > 0 && c.Post > 0 && maxPre > minPost {
		x.Violationf("gated-post-flush-line-before-pre-flush-line", "a line whose Write began after Flush returned is at position %d, before a line whose Write returned before Flush was called (position %d)", minPost, maxPre)
		return overlap, true
	}
	return overlap, false
}

// ---------------------------------------------------------------- logWriter, sequential

func c29Strip(s string) string { return strings.TrimSuffix(s, "\n") }

func c29LogSeq(c c29Case, x *vkit.Ctx) {
	if c.Buf < 1 || c.Buf > 4096 || len(c.Ops) == 0 {
		x.Inconclusive("malformed case")
		return
	}
	x.Label("logwriter-sequential")
	lw := agent.NewLogWriter(c.Buf)
	// model of one monitor: what it must have received so far
	type att struct {
		m        *c29Mon
		want     []string
		attached bool
		t        int  // writes before the (last) attachment
		wrapped  bool // some attachment happened after the ring had wrapped
		again    bool // registered again while attached / deregistered / re-attached
	}
	var atts []*att
	var all []string
	wrapped, reReg, deReg, reAtt := false, false, false, false
	backlog := func() []string { return all[max(0, len(all)-c.Buf):] }
	wr := &c29Writer{}
	for i, op := range c.Ops {
		if op < 0 {
			x.Inconclusive("malformed case")
			return
		}
		switch op % 10 {
		case 0:
			a := &att{m: &c29Mon{}, attached: true, t: len(all)}
			lw.RegisterHandler(a.m)
			a.want = append(a.want, backlog()...)
			if len(all) > c.Buf {
				wrapped, a.wrapped = true, true
			}
			atts = append(atts, a)
		case 1, 2:
			line := fmt.Sprintf("line-%04d", i)
			all = append(all, line)
			for _, a := range atts {
				if a.attached {
					a.want = append(a.want, line)
				}
			}
			if op%10 == 1 {
				line += "\n"
			}
			p := wr.line(line) // one reused buffer, as package log does
			n, err := lw.Write(p)
			if err != nil || n != len(line) {
				x.Violationf("logwriter-write-result", "Write(%q) = %d, %v", line, n, err)
				return
			}
		case 3:
			if len(atts) == 0 {
				continue
			}
			a := atts[(op/10)%len(atts)]
			lw.RegisterHandler(a.m)
			a.again = true
			if a.attached {
				reReg = true // already attached: nothing may be replayed to it
			} else {
				// attached anew after a deregistration: backlog first, as for any new monitor
				reAtt = true
				a.attached, a.t = true, len(all)
				a.want = append(a.want, backlog()...)
				if len(all) > c.Buf {
					wrapped, a.wrapped = true, true
				}
			}
		case 4:
			if len(atts) == 0 {
				continue
			}
			a := atts[(op/10)%len(atts)]
			lw.DeregisterHandler(a.m) // "removes a LogHandler and prevents more invocations"
			a.attached, a.again = false, true
			deReg = true
		default:
			x.Inconclusive("malformed case")
			return
		}
	}
	if wrapped {
		x.Label("logwriter:ring-wrapped-before-attach")
	}
	if reReg {
		x.Label("logwriter:registered-again-while-attached")
	}
	if deReg {
		x.Label("logwriter:deregistered")
	}
	if reAtt {
		x.Label("logwriter:attached-again-after-deregistration")
	}
	x.Labelf("logwriter:attachments=%d", min(len(atts), 5))
	x.NonTrivial(wrapped)
	for k, a := range atts {
		got := a.m.snapshot()
		if d := c29DiffSeq(got, a.want); d != "" {
			sig := "logwriter-monitor-sequence"
			switch {
			case a.again:
				sig = "logwriter-monitor-sequence-reregistered"
			case a.wrapped:
				sig = "logwriter-monitor-sequence-after-wrap"
			}
			x.Violationf(sig, "monitor #%d (last attached after %d writes, buffer %d; registered again or deregistered in between: %v) must receive, per attachment, the last min(t,%d) buffered lines oldest first and then every later line once while attached: %s",
				k, a.t, c.Buf, a.again, c.Buf, d)
			return
		}
	}
}

func c29DiffSeq(got, want []string) string {
	for i := 0; i < len(got) || i < len(want); i++ {
		switch {
		case i >= len(got):
			return fmt.Sprintf("got %d lines, want %d; first missing %q", len(got), len(want), want[i])
		case i >= len(want):
			return fmt.Sprintf("got %d lines, want %d; first extra %q", len(got), len(want), got[i])
		case got[i] != want[i]:
			return fmt.Sprintf("position %d: got %q, want %q (got %d lines, want %d)", i, got[i], want[i], len(got), len(want))
		}
	}
	return ""
}

// ---------------------------------------------------------------- logWriter, concurrent

func c29LogConc(c c29Case, x *vkit.Ctx) {
	if c.Buf < 1 || c.Buf > 4096 || c.Writers < 1 || c.Writers > 64 || c.Lines < 1 || c.Lines > 2000 || len(c.AttachAt) > 16 {
		x.Inconclusive("malformed case")
		return
	}
	x.Label("logwriter-concurrent")
	if c.Slow < 0 || c.Slow > 64 {
		x.Inconclusive("malformed case")
		return
	}
	if c.Slow > 0 {
		x.Label("logwriter:slow-monitors")
	}
	lw := agent.NewLogWriter(c.Buf)
	ref := &c29Mon{slow: c.Slow}
	lw.RegisterHandler(ref)
	total := c.Writers * c.Lines
	var done atomic.Int64
	var wg sync.WaitGroup
	var start c29Barrier
	for w := 0; w < c.Writers; w++ {
		wg.Add(1)
		go func(w int) {
			defer wg.Done()
			start.wait()
			wr := &c29Writer{}
			for i := 0; i < c.Lines; i++ {
				l := c29Line(w, i)
				if (w+i)%3 != 0 {
					l += "\n"
				}
				lw.Write(wr.line(l))
				done.Add(1)
			}
		}(w)
	}
	type att struct {
		m      *c29Mon
		lo, hi int
	}
	atts := make([]att, len(c.AttachAt))
	for k, at := range c.AttachAt {
		wg.Add(1)
		go func(k int, at int64) {
			defer wg.Done()
			start.wait()
			for done.Load() < at {
				runtime.Gosched()
			}
			m := &c29Mon{slow: c.Slow}
			lo := ref.count()
			lw.RegisterHandler(m)
			hi := ref.count()
			atts[k] = att{m, lo, hi}
		}(k, int64(min(max(at, 0), total)))
	}
	start.release(c.Writers + len(c.AttachAt))
	wg.Wait()

	// the reference monitor: every line exactly once, each writer's in order
	refLines := ref.snapshot()
	next := make([]int, c.Writers)
	for idx, l := range refLines {
		w, i, ok := c29Parse(l)
		if !ok || w >= c.Writers {
			x.Violationf("logwriter-foreign-line", "monitor attached from the start received %q (position %d), which nobody wrote", l, idx)
			return
		}
		if i != next[w] {
			x.Violationf("logwriter-concurrent-lost-or-reordered", "monitor attached from the start: writer %d's next line should be #%d, received %q at position %d", w, next[w], l, idx)
			return
		}
		next[w]++
	}
	for w, n := range next {
		if n != c.Lines {
			x.Violationf("logwriter-concurrent-lost-or-reordered", "monitor attached from the start received %d of writer %d's %d lines", n, w, c.Lines)
			return
		}
	}
	mid, wrapped := false, false
	for k, a := range atts {
		got := a.m.snapshot()
		st := len(refLines) - len(got)
		if st < 0 {
			x.Violationf("logwriter-monitor-extra-lines", "monitor #%d received %d lines, more than were ever written (%d)", k, len(got), len(refLines))
			return
		}
		if d := c29DiffSeq(got, refLines[st:]); d != "" {
			x.Violationf("logwriter-monitor-not-a-suffix", "monitor #%d (attached between write %d and %d, buffer %d): what it received is not a suffix of the delivery order: %s", k, a.lo, a.hi, c.Buf, d)
			return
		}
		// st must be max(0, t-buf) for an attachment index t in [lo, hi]
		okT := false
		if st == 0 {
			okT = a.lo <= c.Buf
		} else {
			t := st + c.Buf
			okT = t >= a.lo && t <= a.hi
		}
		if !okT {
			x.Violationf("logwriter-monitor-wrong-backlog", "monitor #%d was attached when between %d and %d lines had been written (buffer %d); its sequence starts at line index %d of the delivery order, which fits no attachment point in that window (lost or extra backlog lines)",
				k, a.lo, a.hi, c.Buf, st)
			return
		}
		if a.lo > 0 && a.hi < total {
			mid = true
		}
		if a.lo > c.Buf {
			wrapped = true
		}
	}
	if mid {
		x.Label("logwriter:attach-in-the-middle")
	}
	if wrapped {
		x.Label("logwriter:ring-wrapped-before-attach")
	}
	x.NonTrivial(c.Writers >= 2 && mid && wrapped)
}

func TestC29(t *testing.T) { vkit.Run(t, "C29", genC29, bodyC29) }
