//go:build verif

package agentq

import (
	"bytes"
	"fmt"
	"io"
	"log"
	"net"
	"os"
	"os/exec"
	"path/filepath"
	"sort"
	"strconv"
	"strings"
	"sync"
	"testing"
	"time"
	"unicode"

	"github.com/hashicorp/serf/cmd/serf/command/agent"
	"github.com/hashicorp/serf/serf"
	"pgregory.net/rapid"

	"verif/internal/node"
	"verif/internal/simnet"
	"verif/internal/vkit"
)

// C27 — event handler scripts are invoked per the documented contract.
//
// The handler specs of a case are parsed by the real ParseEventScript and run
// by the real ScriptEventHandler / invokeEventScript (through /bin/sh -c).
// The "script" is a self-describing helper (an inline shell snippet, or this
// test binary in helper mode, see main_test.go and c27ShellScript): it dumps
// its environment and standard input to files, prints a generated amount of
// output and exits with a generated status. Queries are real *serf.Query
// values taken from a Quiet loopback node, so Respond travels the real path;
// the response packet is read from the harness network capture
// (synchronously — no timing decides a verdict).

type c27Member struct {
	Name string            `json:"name"`
	Addr string            `json:"addr"` // textual IP, "" = nil
	Tags map[string]string `json:"tags"`
}

type c27Script struct {
	Spec    string `json:"spec"`     // filter part of the handler spec, "" = bare script
	Out     int    `json:"out"`      // bytes of output
	ErrFrom int    `json:"err_from"` // output from this offset on goes to stderr
	Exit    int    `json:"exit"`
}

type c27Case struct {
	SelfName  string            `json:"self_name"`
	SelfTags  map[string]string `json:"self_tags"`
	Scripts   []c27Script       `json:"scripts"`
	EvKind    int               `json:"ev_kind"` // 0..4 member-join/leave/failed/update/reap, 5 user, 6 query
	Members   []c27Member       `json:"members,omitempty"`
	Name      string            `json:"name,omitempty"`    // user event / query name
	LTime     uint64            `json:"ltime,omitempty"`   // user event
	Payload   []byte            `json:"payload,omitempty"` // user event / query
	RespLimit int               `json:"resp_limit,omitempty"`
	// Reload: 0 the handlers are configured from the start; 1 the agent starts
	// without handlers and they are installed by a configuration reload
	// (UpdateScripts) before the event; 2 they are configured from the start and
	// a reload removes them all before the event
	// 3 a reload installs decoy handlers and a second reload, still before the
	// event, installs the generated ones (the last reload counts, no decoy may
	// run); 4 the agent starts without handlers, handles an unrelated event, and
	// only then a reload installs the generated ones (a reload after the first
	// event must work like one before it)
	Reload int `json:"reload,omitempty"`
	// QClock > 0 (queries): before the query is issued the node sees a query with
	// this Lamport time from elsewhere, so the query under test gets QClock+1
	// (values around 2^31, 2^32, 2^53, 2^63) instead of the 1 of a fresh node
	QClock uint64 `json:"qclock,omitempty"`
}

var (
	c27EvTypes    = []string{"member-join", "member-leave", "member-failed", "member-update", "member-reap", "user", "query"}
	c27SerfTypes  = []serf.EventType{serf.EventMemberJoin, serf.EventMemberLeave, serf.EventMemberFailed, serf.EventMemberUpdate, serf.EventMemberReap}
	c27NamePool   = []string{"deploy", "load", "dep", "Deploy", "a.b", "user", "query", "deploy:prod", "a:b:c", "deploy:", "member-join", "ploy", "deploy ", "*"}
	c27QClocks    = []uint64{0, 0, 1<<31 - 2, 1<<32 - 2, 1<<32 - 1, 1 << 53, 1<<63 - 2, 1<<63 - 1, 1<<64 - 10}
	c27Nasty      = []rune("ab \t\n=,é日-_.:Z9\\")
	c27TagRunes   = []rune("roleabAZ09_-.:= é\t")
	c27Addrs      = []string{"10.0.0.1", "192.168.1.20", "::1", "fe80::1", ""}
	c27OutSizes   = []int{9000, 10, 20000, 8193, 8192, 100, 0, 900, 1100, 8191, 1}
	c27RespLimits = []int{16384, 1024, 9000, 200}
)

const c27OutAlphabet = "abcdefghijklmnopqrstuvwxyz0123456789"

func c27OutByte(i int) byte { return c27OutAlphabet[(i+i/36)%36] }

func c27GenStr(t *rapid.T, label string) string {
	switch rapid.IntRange(0, 3).Draw(t, label+"-kind") {
	case 0:
		return rapid.SampledFrom([]string{"web", "node1", "db", "east"}).Draw(t, label)
	default:
		return rapid.StringOfN(rapid.RuneFrom(c27Nasty), 0, 6, -1).Draw(t, label)
	}
}

func c27GenTags(t *rapid.T, label string, max int) map[string]string {
	n := rapid.IntRange(0, max).Draw(t, label+"-n")
	if n == 0 && rapid.Bool().Draw(t, label+"-nil") {
		return nil
	}
	m := map[string]string{}
	for i := 0; i < n; i++ {
		var k string
		switch rapid.IntRange(0, 3).Draw(t, label+"-keykind") {
		case 0:
			k = "role"
		case 1:
			k = rapid.SampledFrom([]string{"dc", "Role", "a-b", "a_b", "x.y"}).Draw(t, label+"-key")
		default:
			k = rapid.StringOfN(rapid.RuneFrom(c27TagRunes), 0, 5, -1).Draw(t, label+"-key")
		}
		m[k] = c27GenStr(t, label+"-val")
	}
	return m
}

// c27NearNames: the event's own name and its near misses (a proper prefix, a
// proper suffix, the other letter case, one character more) - the values a
// sloppy comparison confuses with the name itself.
func c27NearNames(name string) []string {
	if name == "" || strings.ContainsAny(name, "=,\x00") {
		return nil
	}
	r := []rune(name)
	out := []string{name, name, name + "x", "x" + name}
	if len(r) > 1 {
		out = append(out, string(r[:len(r)-1]), string(r[1:]), string(r[:(len(r)+1)/2]), string(r[len(r)/2:]))
	}
	if u := strings.ToUpper(name); u != name {
		out = append(out, u)
	}
	if l := strings.ToLower(name); l != name {
		out = append(out, l)
	}
	return out
}

func c27GenSpec(t *rapid.T, evKind int, evName string) string {
	n := rapid.SampledFrom([]int{1, 1, 2, 3, 0}).Draw(t, "nfilters")
	var els []string
	for i := 0; i < n; i++ {
		var el string
		switch rapid.IntRange(0, 5).Draw(t, "filterkind") {
		case 0, 1: // same family as the event
			el = c27EvTypes[evKind]
		case 2:
			el = rapid.SampledFrom(c27EvTypes).Draw(t, "ftype")
		default:
			el = rapid.SampledFrom([]string{"user:", "query:"}).Draw(t, "fprefix") + rapid.SampledFrom(c27NamePool).Draw(t, "fname")
			if evKind >= 5 && rapid.IntRange(0, 3).Draw(t, "famsame") > 0 {
				names := c27NamePool
				if near := c27NearNames(evName); near != nil && rapid.IntRange(0, 3).Draw(t, "near") > 0 {
					names = near
				}
				el = c27EvTypes[evKind] + ":" + rapid.SampledFrom(names).Draw(t, "fname2")
			}
		}
		els = append(els, el)
	}
	return strings.Join(els, ",")
}

func genC27(t *rapid.T) c27Case {
	var c c27Case
	c.EvKind = rapid.SampledFrom([]int{6, 0, 5, 6, 1, 2, 3, 4, 5}).Draw(t, "evkind")
	c.SelfName = c27GenStr(t, "selfname")
	c.SelfTags = c27GenTags(t, "selftags", 4)
	c.Reload = rapid.SampledFrom([]int{0, 0, 0, 1, 1, 2, 3, 4}).Draw(t, "reload")
	if c.EvKind >= 5 {
		if rapid.IntRange(0, 3).Draw(t, "namekind") == 0 {
			c.Name = c27GenStr(t, "evname")
		} else {
			c.Name = rapid.SampledFrom(c27NamePool).Draw(t, "evname")
		}
	}
	ns := 1
	if c.EvKind != 6 {
		ns = rapid.SampledFrom([]int{1, 1, 2, 3}).Draw(t, "nscripts")
	}
	for i := 0; i < ns; i++ {
		s := c27Script{Spec: c27GenSpec(t, c.EvKind, c.Name)}
		s.Exit = rapid.SampledFrom([]int{0, 0, 0, 1, 3}).Draw(t, "exit")
		if c.EvKind == 6 {
			s.Out = rapid.SampledFrom(c27OutSizes).Draw(t, "out")
		} else {
			s.Out = rapid.SampledFrom([]int{0, 5, 300}).Draw(t, "out")
		}
		switch rapid.IntRange(0, 4).Draw(t, "split") {
		case 0, 1:
			s.ErrFrom = s.Out // everything on stdout
		case 2, 3:
			s.ErrFrom = 0 // everything on stderr
		default:
			s.ErrFrom = rapid.IntRange(0, s.Out).Draw(t, "errfrom")
		}
		c.Scripts = append(c.Scripts, s)
	}
	switch {
	case c.EvKind < 5:
		nm := rapid.IntRange(0, 3).Draw(t, "nmembers")
		for i := 0; i < nm; i++ {
			c.Members = append(c.Members, c27Member{
				Name: c27GenStr(t, "mname"),
				Addr: rapid.SampledFrom(c27Addrs).Draw(t, "maddr"),
				Tags: c27GenTags(t, "mtags", 3),
			})
		}
	default:
		c.LTime = rapid.Uint64().Draw(t, "ltime")
		switch rapid.IntRange(0, 7).Draw(t, "payloadkind") {
		case 6, 7:
			// newlines inside, with and without one at the very end: only the last byte decides
			c.Payload = []byte(rapid.SampledFrom([]string{"two\nlines", "a\n\nb", "\nx", "x\n\n", "l1\nl2\n", "\n\n", "a\rb", "tab\there\nand more"}).Draw(t, "multiline"))
		case 0:
			c.Payload = nil
		case 1:
			c.Payload = []byte("line with newline\n")
		case 2:
			c.Payload = []byte("no newline")
		case 3:
			c.Payload = rapid.SliceOfN(rapid.Byte(), 1, 40).Draw(t, "binary")
		case 4:
			c.Payload = []byte("\n")
		default:
			n := rapid.SampledFrom([]int{20000, 4096, 70000}).Draw(t, "bigpayload")
			c.Payload = bytes.Repeat([]byte{'p'}, n)
			if rapid.Bool().Draw(t, "bignl") {
				c.Payload[n-1] = '\n'
			}
		}
		if c.EvKind == 6 {
			c.LTime = 0
			c.QClock = rapid.SampledFrom(c27QClocks).Draw(t, "qclock")
			c.RespLimit = rapid.SampledFrom(c27RespLimits).Draw(t, "resplimit")
			if rapid.IntRange(0, 3).Draw(t, "nearlimit") == 0 {
				// straddle the limit: encoded response = output + a few dozen bytes
				c.Scripts[0].Out = max(0, c.RespLimit-rapid.IntRange(0, 60).Draw(t, "under"))
				c.Scripts[0].ErrFrom = min(c.Scripts[0].ErrFrom, c.Scripts[0].Out)
			}
		}
	}
	return c
}

// ---- the "script"
//
// Two interchangeable helpers record one invocation as <base>.<idx>.<n>.env
// (the environment, NUL separated) and <base>.<idx>.<n>.stdin, then print
// <out> bytes of the output pattern (the first <errFrom> on stdout, the rest
// on stderr) and exit with <exit>:
//   - an inline shell snippet (handlers are shell snippets) using cat, env -0,
//     head and tail: three to five small processes per run; it contains no '='
//     because a bare handler spec is split at the first '=';
//   - this test binary in helper mode (no external tools, one process, but every
//     package of the test binary initialises: 0.1-0.3 s per run); used when the
//     shell tools are missing or with VERIF_C27_HELPER=binary.

const c27PatternLen = 1 << 16

func c27ShellScript(base string, idx int, sc c27Script, pattern string) string {
	f := fmt.Sprintf("'%s.%d.'$1", base, idx)
	var sb strings.Builder
	// the counter lives in $1 (no assignment, hence no '=')
	fmt.Fprintf(&sb, "set -- 0; while [ -e %s.env ]; do set -- $(($1+1)); done; ", f)
	fmt.Fprintf(&sb, "cat > %s.stdin || exit 98; env -0 > %s.env || exit 99; ", f, f)
	if sc.ErrFrom > 0 {
		fmt.Fprintf(&sb, "head -c %d '%s'; ", sc.ErrFrom, pattern)
	}
	switch {
	case sc.Out > sc.ErrFrom && sc.ErrFrom == 0:
		fmt.Fprintf(&sb, "head -c %d '%s' >&2; ", sc.Out, pattern)
	case sc.Out > sc.ErrFrom:
		fmt.Fprintf(&sb, "tail -c +%d '%s' | head -c %d >&2; ", sc.ErrFrom+1, pattern, sc.Out-sc.ErrFrom)
	}
	fmt.Fprintf(&sb, "exit %d", sc.Exit)
	return sb.String()
}

// args: dumpBase idx out errFrom exit [pattern]
func c27Helper(args []string) {
	if len(args) < 5 {
		os.Exit(97)
	}
	stdin, _ := io.ReadAll(os.Stdin)
	env := []byte(strings.Join(os.Environ(), "\x00") + "\x00")
	written := false
	for n := 0; n < 64 && !written; n++ {
		p := fmt.Sprintf("%s.%s.%d", args[0], args[1], n)
		if _, err := os.Stat(p + ".env"); err == nil {
			continue
		}
		if os.WriteFile(p+".stdin", stdin, 0o644) == nil && os.WriteFile(p+".env", env, 0o644) == nil {
			written = true
		}
	}
	if !written {
		os.Exit(99)
	}
	out, _ := strconv.Atoi(args[2])
	errFrom, _ := strconv.Atoi(args[3])
	exit, _ := strconv.Atoi(args[4])
	buf := make([]byte, out)
	for i := range buf {
		buf[i] = c27OutByte(i)
	}
	errFrom = min(max(errFrom, 0), out)
	os.Stdout.Write(buf[:errFrom])
	os.Stderr.Write(buf[errFrom:])
	os.Exit(exit)
}

// c27Setup is done once per test process.
type c27SetupT struct {
	dir     string
	exe     string
	pattern string
	kind    string
	err     error
}

var (
	c27SetupOnce sync.Once
	c27Env       c27SetupT
)

func c27GetSetup() *c27SetupT {
	c27SetupOnce.Do(func() {
		s := &c27Env
		exe, err := os.Executable()
		if err != nil {
			exe = os.Args[0]
		}
		s.dir, s.err = os.MkdirTemp("", "c27-helper-")
		if s.err != nil {
			return
		}
		s.pattern = filepath.Join(s.dir, "pattern")
		pat := make([]byte, c27PatternLen)
		for i := range pat {
			pat[i] = c27OutByte(i)
		}
		if s.err = os.WriteFile(s.pattern, pat, 0o644); s.err != nil {
			return
		}
		if strings.ContainsAny(s.dir+exe, "'=") {
			s.err = fmt.Errorf("unusable path")
			return
		}
		s.kind, s.exe = "binary", exe
		if os.Getenv("VERIF_C27_HELPER") != "binary" {
			// probe the shell helper once
			probe := filepath.Join(s.dir, "probe")
			cmd := exec.Command("/bin/sh", "-c", c27ShellScript(probe, 0, c27Script{Out: 5, ErrFrom: 2, Exit: 7}, s.pattern))
			cmd.Env = append(os.Environ(), "C27_PROBE=a\nb")
			cmd.Stdin = strings.NewReader("in")
			var so, se bytes.Buffer
			cmd.Stdout, cmd.Stderr = &so, &se
			err := cmd.Run()
			envb, _ := os.ReadFile(probe + ".0.0.env")
			inb, _ := os.ReadFile(probe + ".0.0.stdin")
			ee, isExit := err.(*exec.ExitError)
			if isExit && ee.ExitCode() == 7 && so.String() == string(pat[:2]) && se.String() == string(pat[2:5]) &&
				string(inb) == "in" && bytes.Contains(append([]byte{0}, envb...), []byte("\x00C27_PROBE=a\nb\x00")) {
				s.kind = "sh"
			}
		}
	})
	return &c27Env
}

type c27Dump struct {
	Env   [][]byte
	Stdin []byte
}

// ---- model

// c27Matches: how many elements of the filter list select the event, per the
// documentation (type, user:NAME, query:NAME; no filter = every event).
func c27Matches(spec, evType, evName string) int {
	if spec == "" {
		return 1
	}
	n := 0
	for _, el := range strings.Split(spec, ",") {
		switch {
		case el == evType:
			n++
		case evType == "user" && strings.HasPrefix(el, "user:") && el[len("user:"):] == evName:
			n++
		case evType == "query" && strings.HasPrefix(el, "query:") && el[len("query:"):] == evName:
			n++
		}
	}
	return n
}

func c27Esc(s string) string {
	var sb strings.Builder
	for _, r := range s {
		switch r {
		case '\t':
			sb.WriteString(`\t`)
		case '\n':
			sb.WriteString(`\n`)
		default:
			sb.WriteRune(r)
		}
	}
	return sb.String()
}

// c27EnvName: upper-case the tag name, everything outside [A-Z0-9_] becomes _.
func c27EnvName(tag string) string {
	var sb strings.Builder
	for _, r := range tag {
		u := unicode.ToUpper(r)
		if (u >= 'A' && u <= 'Z') || (u >= '0' && u <= '9') || u == '_' {
			sb.WriteRune(u)
		} else {
			sb.WriteByte('_')
		}
	}
	return "SERF_TAG_" + sb.String()
}

func c27Perms(in []string) [][]string {
	if len(in) <= 1 {
		return [][]string{append([]string(nil), in...)}
	}
	var out [][]string
	for i := range in {
		rest := append(append([]string(nil), in[:i]...), in[i+1:]...)
		for _, p := range c27Perms(rest) {
			out = append(out, append([]string{in[i]}, p...))
		}
	}
	return out
}

func c27HasTabNL(ss ...string) bool {
	for _, s := range ss {
		if strings.ContainsAny(s, "\t\n") {
			return true
		}
	}
	return false
}

func bodyC27(c c27Case, x *vkit.Ctx) {
	if c.EvKind < 0 || c.EvKind > 6 || len(c.Scripts) == 0 || len(c.Scripts) > 8 ||
		strings.ContainsRune(c.SelfName, 0) {
		x.Inconclusive("malformed case")
		return
	}
	setup := c27GetSetup()
	if setup.err != nil {
		x.Inconclusive("helper setup failed")
		return
	}
	x.Label("helper:" + setup.kind)
	for k, v := range c.SelfTags {
		if strings.ContainsRune(k, 0) || strings.ContainsRune(v, 0) {
			x.Inconclusive("NUL cannot be passed through the environment")
			return
		}
	}
	if strings.ContainsRune(c.Name, 0) {
		x.Inconclusive("NUL cannot be passed through the environment")
		return
	}
	dir, err := os.MkdirTemp("", "c27-")
	if err != nil || strings.ContainsAny(dir, "'=") {
		x.Inconclusive("no usable temp dir")
		return
	}
	defer os.RemoveAll(dir)
	base := filepath.Join(dir, "inv")
	evType := c27EvTypes[c.EvKind]
	x.Label("event:" + evType)

	// handler specs through the real parser
	var scripts []agent.EventScript
	for i, s := range c.Scripts {
		if s.Out < 0 || s.Out > c27PatternLen || s.ErrFrom < 0 || s.ErrFrom > s.Out || s.Exit < 0 || s.Exit > 255 || strings.ContainsAny(s.Spec, "=\x00") {
			x.Inconclusive("malformed script in case")
			return
		}
		cmd := fmt.Sprintf("'%s' c27helper '%s' %d %d %d %d", setup.exe, base, i, s.Out, s.ErrFrom, s.Exit)
		if setup.kind == "sh" {
			cmd = c27ShellScript(base, i, s, setup.pattern)
		}
		if strings.Contains(cmd, "=") {
			x.Inconclusive("script text would contain '='")
			return
		}
		full := cmd
		if s.Spec != "" {
			full = s.Spec + "=" + cmd
		}
		scripts = append(scripts, agent.ParseEventScript(full)...)
	}
	self := serf.Member{Name: c.SelfName, Tags: c.SelfTags, Addr: net.IPv4(127, 0, 0, 1), Port: 7946, Status: serf.StatusAlive}
	var logBuf bytes.Buffer
	h := &agent.ScriptEventHandler{
		SelfFunc: func() serf.Member { return self },
		Scripts:  scripts,
		Logger:   log.New(&logBuf, "", 0),
	}
	configured := true // are the generated handlers the ones in force when the event arrives?
	// decoy handlers: same helper, slot 100+i; none of them may ever run
	var decoys []agent.EventScript
	if c.Reload == 3 {
		for i := range c.Scripts {
			d := c27Script{Out: 3, ErrFrom: 3}
			cmd := fmt.Sprintf("'%s' c27helper '%s' %d %d %d %d", setup.exe, base, 100+i, d.Out, d.ErrFrom, d.Exit)
			if setup.kind == "sh" {
				cmd = c27ShellScript(base, 100+i, d, setup.pattern)
			}
			decoys = append(decoys, agent.ParseEventScript(cmd)...)
		}
	}
	switch c.Reload {
	case 1:
		h.Scripts = nil
		h.UpdateScripts(scripts)
		x.Label("handlers-installed-by-reload")
	case 2:
		h.UpdateScripts([]agent.EventScript{})
		configured = false
		x.Label("handlers-removed-by-reload")
	case 3:
		h.Scripts = nil
		h.UpdateScripts(decoys)
		h.UpdateScripts(scripts)
		x.Label("handlers-installed-by-second-reload")
	case 4:
		h.Scripts = nil
		h.HandleEvent(serf.UserEvent{LTime: 1, Name: "before-the-reload", Payload: []byte("x")}) // no handler configured: nothing runs
		h.UpdateScripts(scripts)
		x.Label("handlers-installed-by-reload-after-an-event")
	}

	// the event
	var ev serf.Event
	var nw *simnet.Network
	var qresp *serf.QueryResponse
	var query *serf.Query
	wantLTime := c.LTime
	switch {
	case c.EvKind < 5:
		me := serf.MemberEvent{Type: c27SerfTypes[c.EvKind]}
		for _, m := range c.Members {
			me.Members = append(me.Members, serf.Member{Name: m.Name, Addr: net.ParseIP(m.Addr), Port: 7946, Tags: m.Tags, Status: serf.StatusAlive})
		}
		ev = me
	case c.EvKind == 5:
		ev = serf.UserEvent{LTime: serf.LamportTime(c.LTime), Name: c.Name, Payload: append([]byte(nil), c.Payload...)}
	default:
		if c.RespLimit < 1 || strings.HasPrefix(c.Name, "_serf_") {
			x.Inconclusive("malformed query case")
			return
		}
		nw = simnet.New(1)
		nw.Loopback = true
		n, err := node.New(nw, node.Opts{Name: "origin", Quiet: true, Mutate: func(sc *serf.Config) {
			sc.QueryResponseSizeLimit = c.RespLimit
			sc.QuerySizeLimit = 1 << 20
		}})
		if err != nil {
			x.Inconclusive("node creation failed")
			return
		}
		defer n.Stop()
		n.Drain(node.Settle)
		if c.QClock > 0 {
			if c.QClock > 1<<64-4 {
				x.Inconclusive("malformed query case")
				return
			}
			warm, err := serf.VerifEncodeMessage(serf.VerifMessageQueryType, &serf.VerifMessageQuery{
				LTime: serf.LamportTime(c.QClock), ID: 4242, Addr: []byte{10, 9, 8, 7}, Port: 7946, SourceNode: "elsewhere",
				Flags: serf.VerifQueryFlagNoBroadcast, Timeout: time.Minute, Name: "\x01seen-before"}, false)
			if err != nil {
				x.Inconclusive("cannot encode the clock-raising query")
				return
			}
			n.Delegate.NotifyMsg(warm)
			x.Label("query:lamport-time-at-a-boundary")
		}
		qresp, err = n.Serf.Query(c.Name, append([]byte(nil), c.Payload...), &serf.QueryParam{Timeout: 10 * time.Minute})
		if err != nil {
			x.Inconclusive("query could not be issued")
			return
		}
		qlt, qid := qresp.VerifID()
		if c.QClock > 0 && uint64(qlt) != c.QClock+1 {
			x.Inconclusive("the query did not get the Lamport time the case asked for")
			return
		}
		mine := func(e serf.Event) *serf.Query {
			if q, isQ := e.(*serf.Query); isQ && q.LTime == qlt && q.VerifID() == qid && q.Name == c.Name {
				return q
			}
			return nil
		}
		evs, ok := n.WaitEvents(5*time.Second, func(es []serf.Event) bool {
			for _, e := range es {
				if mine(e) != nil {
					return true
				}
			}
			return false
		})
		if !ok {
			x.Inconclusive("query event not delivered within 5s")
			return
		}
		for _, e := range evs {
			if q := mine(e); q != nil {
				query = q
			}
		}
		ev = query
		wantLTime = uint64(query.LTime)
		nw.Packets() // forget everything sent so far
	}

	h.HandleEvent(ev) // synchronous: every matching script has exited when this returns

	// ---- what ran
	nameForFilter := ""
	if c.EvKind >= 5 {
		nameForFilter = c.Name
	}
	tabNLReached, specNamed, bigOut := false, false, false
	invocations := 0
	for i, s := range c.Scripts {
		want := c27Matches(s.Spec, evType, nameForFilter)
		if !configured {
			want = 0
		}
		files, _ := filepath.Glob(fmt.Sprintf("%s.%d.*.env", base, i))
		sort.Strings(files)
		got := len(files)
		for _, el := range strings.Split(s.Spec, ",") {
			if fam, nm, ok := strings.Cut(el, ":"); ok && fam == evType && nm != nameForFilter && nameForFilter != "" && nm != "" &&
				(strings.HasPrefix(nameForFilter, nm) || strings.HasSuffix(nameForFilter, nm) || strings.EqualFold(nameForFilter, nm) || strings.Contains(nm, nameForFilter)) {
				x.Label("spec:near-miss-of-the-event-name")
			}
		}
		if strings.Contains(s.Spec, ",") || strings.Contains(s.Spec, ":") {
			x.Label("spec:list-or-name")
			if c.EvKind >= 5 || strings.Contains(s.Spec, ",") {
				specNamed = true
			}
		}
		switch {
		case want == 0 && got > 0:
			x.Violationf("ran-for-unselected-event", "handler %q ran %d time(s) for a %s event (name %q) its filter does not select", s.Spec, got, evType, nameForFilter)
			return
		case want >= 1 && got == 0:
			x.Violationf("did-not-run-for-selected-event", "handler %q did not run for a %s event (name %q) its filter selects; agent log: %s", s.Spec, evType, nameForFilter, c27Tail(logBuf.String()))
			return
		case want == 1 && got != 1:
			x.Violationf("ran-more-than-once", "handler %q ran %d times for one %s event", s.Spec, got, evType)
			return
		}
		if want > 1 {
			x.Label("filter-selects-event-more-than-once") // run count then unspecified (>=1)
		}
		if want == 0 {
			x.Label("handler-not-selected")
			continue
		}
		x.Label("handler-selected")
		for _, f := range files {
			invocations++
			envb, err := os.ReadFile(f)
			stdinb, err2 := os.ReadFile(strings.TrimSuffix(f, ".env") + ".stdin")
			if err != nil || err2 != nil {
				x.Inconclusive("helper dump unreadable")
				return
			}
			d := c27Dump{Stdin: stdinb}
			for _, e := range bytes.Split(envb, []byte{0}) {
				if len(e) > 0 {
					d.Env = append(d.Env, e)
				}
			}
			if c27CheckInvocation(c, x, s, &d, evType, wantLTime) {
				return
			}
		}
	}
	x.Labelf("invocations=%d", min(invocations, 4))
	if files, _ := filepath.Glob(fmt.Sprintf("%s.1[0-9][0-9].*.env", base)); len(files) > 0 {
		x.Violationf("ran-replaced-handler", "a handler list that a later reload replaced before any event arrived ran all the same (%d run(s))", len(files))
		return
	}

	// NT bookkeeping
	if c.EvKind < 5 && invocations > 0 {
		for _, m := range c.Members {
			if c27HasTabNL(m.Name) {
				tabNLReached = true
			}
			for k, v := range m.Tags {
				if c27HasTabNL(k, v) {
					tabNLReached = true
				}
			}
		}
	}
	if invocations > 0 {
		for k, v := range c.SelfTags {
			if c27HasTabNL(k, v) {
				tabNLReached = true
			}
		}
		if c27HasTabNL(c.SelfName, c.Name) {
			tabNLReached = true
		}
	}
	if tabNLReached {
		x.Label("value-with-tab-or-newline-reached-a-script")
	}

	// ---- query response
	if c.EvKind == 6 {
		s := c.Scripts[0]
		ran := configured && c27Matches(s.Spec, evType, nameForFilter) > 0
		var wantPayload []byte
		expect := false
		if ran && s.Exit == 0 && s.Out > 0 {
			full := make([]byte, s.Out)
			for i := range full {
				full[i] = c27OutByte(i)
			}
			wantPayload = full
			if len(full) > 8192 {
				wantPayload = full[len(full)-8192:]
				bigOut = true
				x.Label("query:output>8KB")
			}
			enc, err := serf.VerifEncodeMessage(serf.VerifMessageQueryResponseType, &serf.VerifMessageQueryResponse{
				LTime: query.LTime, ID: query.VerifID(), From: "origin", Payload: wantPayload}, false)
			if err != nil {
				x.Inconclusive("cannot size the expected response")
				return
			}
			expect = len(enc) <= c.RespLimit
			if expect {
				x.Label("query:response-expected")
			} else {
				x.Label("query:response-over-limit")
				if len(enc)-c.RespLimit <= 60 {
					x.Label("query:just-over-limit")
				}
			}
			if expect && c.RespLimit-len(enc) <= 60 {
				x.Label("query:just-under-limit")
			}
		} else if ran {
			x.Label("query:no-response-expected(exit/empty)")
		}
		var got [][]byte
		for _, p := range node.UserMsgs(nw.Packets()) {
			if len(p.Buf) == 0 || p.Buf[0] != serf.VerifMessageQueryResponseType {
				continue
			}
			var r serf.VerifMessageQueryResponse
			if err := serf.VerifDecodeMessage(p.Buf[1:], &r); err != nil {
				x.Violationf("query-response-undecodable", "a query response packet was sent that does not decode: %v", err)
				return
			}
			if r.Flags&serf.VerifQueryFlagAck != 0 {
				continue
			}
			if r.ID != query.VerifID() || r.LTime != query.LTime {
				x.Violationf("query-response-wrong-query", "response sent for query id %d ltime %d, the query was id %d ltime %d", r.ID, r.LTime, query.VerifID(), query.LTime)
				return
			}
			got = append(got, r.Payload)
		}
		switch {
		case !expect && len(got) > 0:
			why := "the handler was not selected"
			switch {
			case ran && s.Exit != 0:
				why = fmt.Sprintf("the handler exited with status %d", s.Exit)
			case ran && s.Out == 0:
				why = "the handler printed nothing"
			case ran:
				why = fmt.Sprintf("the response does not fit the limit of %d", c.RespLimit)
			}
			sig := "query-response-unexpected"
			if ran && s.Exit != 0 {
				sig = "query-response-after-failed-handler"
			}
			x.Violationf(sig, "a response of %d bytes was sent although %s", len(got[0]), why)
			return
		case expect && len(got) == 0:
			x.Violationf("query-response-missing", "handler exited 0 with %d bytes of output, the encoded response fits the limit of %d, but no response was sent; agent log: %s", s.Out, c.RespLimit, c27Tail(logBuf.String()))
			return
		case expect && len(got) > 1:
			x.Violationf("query-response-twice", "%d responses were sent for one query", len(got))
			return
		case expect && !bytes.Equal(got[0], wantPayload):
			sig := "query-response-wrong-payload"
			if s.Out > 8192 {
				sig = "query-response-not-last-8KB"
			}
			x.Violationf(sig, "response payload is %d bytes %q…, expected the last %d bytes of the %d-byte output %q…", len(got[0]), c27Head(got[0]), len(wantPayload), s.Out, c27Head(wantPayload))
			return
		}
		if expect {
			// the origin's own view (real receive path); absence within the wait is not judged
			select {
			case r, ok := <-qresp.ResponseCh():
				if ok && !bytes.Equal(r.Payload, wantPayload) {
					x.Violationf("query-origin-received-wrong-payload", "origin received %d bytes from %q, expected %d", len(r.Payload), r.From, len(wantPayload))
					return
				}
				x.Label("query:origin-received")
			case <-time.After(500 * time.Millisecond):
				x.Label("query:origin-wait-expired(not-judged)")
			}
		}
	}
	x.NonTrivial(invocations > 0 && (tabNLReached || specNamed || bigOut))
}

func c27Tail(s string) string {
	if len(s) > 600 {
		return "…" + s[len(s)-600:]
	}
	return s
}

func c27Head(b []byte) string {
	if len(b) > 24 {
		b = b[:24]
	}
	return string(b)
}

// c27CheckInvocation judges one recorded run; true = violation reported.
func c27CheckInvocation(c c27Case, x *vkit.Ctx, s c27Script, d *c27Dump, evType string, ltime uint64) bool {
	env := map[string]string{}
	dup := map[string]bool{}
	for _, e := range d.Env {
		k, v, _ := strings.Cut(string(e), "=")
		if _, seen := env[k]; seen {
			dup[k] = true
		}
		env[k] = v
	}
	need := func(sig, k, want string) bool {
		got, ok := env[k]
		if !ok {
			x.Violationf(sig+"-missing", "script for a %s event: environment variable %s is not set (expected %q)", evType, k, want)
			return true
		}
		if got != want || dup[k] {
			x.Violationf(sig+"-wrong", "script for a %s event: %s=%q, expected %q", evType, k, got, want)
			return true
		}
		return false
	}
	if need("env-SERF_EVENT", "SERF_EVENT", evType) ||
		need("env-SERF_SELF_NAME", "SERF_SELF_NAME", c.SelfName) ||
		need("env-SERF_SELF_ROLE", "SERF_SELF_ROLE", c.SelfTags["role"]) {
		return true
	}
	// tags whose sanitised names are unique
	byEnv := map[string][]string{}
	for k := range c.SelfTags {
		byEnv[c27EnvName(k)] = append(byEnv[c27EnvName(k)], k)
	}
	var envNames []string
	for en := range byEnv {
		envNames = append(envNames, en)
	}
	sort.Strings(envNames)
	for _, en := range envNames {
		ks := byEnv[en]
		if len(ks) > 1 {
			x.Label("tag-names-collide-after-sanitising(not-judged)")
			continue
		}
		if ks[0] != strings.ToUpper(ks[0]) || en != "SERF_TAG_"+ks[0] {
			x.Label("tag-name-sanitised")
		}
		if need("env-SERF_TAG", en, c.SelfTags[ks[0]]) {
			return true
		}
	}
	switch evType {
	case "user":
		if need("env-SERF_USER_EVENT", "SERF_USER_EVENT", c.Name) || need("env-SERF_USER_LTIME", "SERF_USER_LTIME", strconv.FormatUint(ltime, 10)) {
			return true
		}
	case "query":
		if need("env-SERF_QUERY_NAME", "SERF_QUERY_NAME", c.Name) || need("env-SERF_QUERY_LTIME", "SERF_QUERY_LTIME", strconv.FormatUint(ltime, 10)) {
			return true
		}
	}

	// standard input
	if evType == "user" || evType == "query" {
		want := append([]byte(nil), c.Payload...)
		if len(want) > 0 && want[len(want)-1] != '\n' {
			want = append(want, '\n')
			x.Label("payload:newline-added")
		}
		if len(c.Payload) == 0 {
			x.Label("payload:empty")
		}
		if len(c.Payload) >= 4096 {
			x.Label("payload:large")
		}
		if !bytes.Equal(d.Stdin, want) {
			x.Violationf("stdin-payload", "script for a %s event read %d bytes %q… on stdin, expected the %d-byte payload %q… (plus a newline if it lacks one)", evType, len(d.Stdin), c27Head(d.Stdin), len(c.Payload), c27Head(c.Payload))
			return true
		}
		return false
	}
	stdin := string(d.Stdin)
	if len(c.Members) == 0 {
		if stdin != "" {
			x.Violationf("stdin-member-lines", "member event without members, stdin is %q", stdin)
			return true
		}
		return false
	}
	if !strings.HasSuffix(stdin, "\n") {
		x.Violationf("stdin-member-lines", "stdin of a %s event does not end with a newline: %q", evType, stdin)
		return true
	}
	lines := strings.Split(strings.TrimSuffix(stdin, "\n"), "\n")
	if len(lines) != len(c.Members) {
		x.Violationf("stdin-member-line-count", "%d members, but stdin has %d lines (a newline inside a value was not escaped?): %q", len(c.Members), len(lines), stdin)
		return true
	}
	for i, m := range c.Members {
		f := strings.Split(lines[i], "\t")
		if len(f) != 4 {
			x.Violationf("stdin-member-not-4-fields", "line %d has %d tab-separated fields instead of 4 (a tab inside a value was not escaped?): %q; member name %q tags %q", i, len(f), lines[i], m.Name, m.Tags)
			return true
		}
		if f[0] != c27Esc(m.Name) {
			x.Violationf("stdin-member-name", "line %d name field %q, expected %q", i, f[0], c27Esc(m.Name))
			return true
		}
		if want := net.ParseIP(m.Addr).String(); f[1] != want {
			x.Violationf("stdin-member-addr", "line %d address field %q, expected %q", i, f[1], want)
			return true
		}
		if f[2] != c27Esc(m.Tags["role"]) {
			x.Violationf("stdin-member-role", "line %d role field %q, expected %q", i, f[2], c27Esc(m.Tags["role"]))
			return true
		}
		var pairs []string
		for k, v := range m.Tags {
			pairs = append(pairs, k+"="+v)
		}
		sort.Strings(pairs)
		ok := false
		for _, p := range c27Perms(pairs) {
			if f[3] == c27Esc(strings.Join(p, ",")) {
				ok = true
				break
			}
		}
		if !ok {
			x.Violationf("stdin-member-tags", "line %d tags field %q is not name=value pairs of %q joined by commas (tabs/newlines escaped)", i, f[3], m.Tags)
			return true
		}
	}
	return false
}

func TestC27(t *testing.T) {
	defer func() {
		// the per-process helper directory (created lazily by c27GetSetup)
		if d := c27GetSetup().dir; d != "" {
			os.RemoveAll(d)
		}
	}()
	vkit.Run(t, "C27", genC27, bodyC27)
}
