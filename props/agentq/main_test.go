//go:build verif

package agentq

import (
	"os"
	"testing"
)

// TestMain: the test binary doubles as the event-handler "script" of C27.
// When invoked as `<binary> c27helper …` (by /bin/sh -c, from the agent's
// real script invocation) it records what it was given and exits; nothing of
// the test framework runs in that mode.
func TestMain(m *testing.M) {
	if len(os.Args) > 1 && os.Args[1] == "c27helper" {
		c27Helper(os.Args[2:])
		return
	}
	os.Exit(m.Run())
}
