//go:build verif

package cluster

import (
	"fmt"
	"sort"
	"testing"
	"time"

	"github.com/hashicorp/serf/serf"
	"pgregory.net/rapid"

	"verif/internal/node"
	"verif/internal/simnet"
	"verif/internal/vkit"
)

// C02 — join/leave intents resolve by Lamport time under any delivery schedule.
//
// 2-4 replicas, each a real serf.Serf on its own capture network: nothing is
// ever delivered by a network; the harness *is* memberlist and the wire. See
// DESIGN.md C02 for the three faithfulness rules the schedules obey.

const (
	oUp = iota
	oLeave
	oCrash
	oForceLeave
	oNotify
	oDeliver
	oPushPull
	// oUpdate: memberlist reports a metadata update of B to observer A (only
	// while A holds B alive at the memberlist level, as memberlist does)
	oUpdate
	numC02Ops
)

var c02OpNames = []string{"up", "leave", "crash", "forceleave", "notify", "deliver", "pushpull", "update"}

type c02Op struct {
	K int `json:"k"`
	A int `json:"a"`
	B int `json:"b,omitempty"`
	I int `json:"i,omitempty"`
}

type c02Case struct {
	N      int     `json:"n"`
	Formed bool    `json:"formed"` // start from a fully formed cluster
	Ops    []c02Op `json:"ops"`
}

func genC02(t *rapid.T) c02Case {
	c := c02Case{N: rapid.IntRange(2, 4).Draw(t, "n"), Formed: rapid.IntRange(0, 3).Draw(t, "formed") != 0}
	n := rapid.IntRange(1, 40).Draw(t, "nops")
	kinds := []int{oUp, oUp, oLeave, oCrash, oForceLeave, oNotify, oNotify, oNotify, oDeliver, oDeliver, oDeliver, oDeliver, oPushPull, oPushPull, oUpdate}
	for i := 0; i < n; i++ {
		c.Ops = append(c.Ops, c02Op{
			K: rapid.SampledFrom(kinds).Draw(t, "k"),
			A: rapid.IntRange(0, 3).Draw(t, "a"),
			B: rapid.IntRange(0, 3).Draw(t, "b"),
			I: rapid.IntRange(0, 63).Draw(t, "i"),
		})
	}
	// Motifs: short lifecycle stories that random op soup rarely spells out. One
	// in three histories gets one spliced in at a random position (everything
	// around it stays random, and the story itself is drawn, not fixed).
	if rapid.IntRange(0, 2).Draw(t, "motif?") == 0 {
		m := rapid.IntRange(0, c.N-1).Draw(t, "motif-member")
		r := rapid.IntRange(0, c.N-1).Draw(t, "motif-observer")
		var story []c02Op
		switch rapid.IntRange(0, 4).Draw(t, "motif") {
		case 0: // goes down, observer is told, comes back (with or without a join intent), leaves, observer hears the leave
			down := rapid.SampledFrom([]int{oCrash, oLeave}).Draw(t, "motif-down")
			intent := rapid.SampledFrom([]int{0, 3}).Draw(t, "motif-intent")
			story = []c02Op{{K: down, A: m}, {K: oNotify, A: r, B: m}, {K: oUp, A: m, B: r, I: intent}, {K: oNotify, A: r, B: m},
				{K: oLeave, A: m}, {K: oDeliver, A: r, B: 3, I: 0}}
		case 1: // force-leave of a member that is down, it returns through a peer, its join overtakes the notification
			story = []c02Op{{K: oCrash, A: m}, {K: oNotify, A: r, B: m}, {K: oForceLeave, A: r, B: m}, {K: oUp, A: m, B: r},
				{K: oDeliver, A: (r + 1) % c.N, B: 3, I: 0}, {K: oNotify, A: (r + 1) % c.N, B: m}, {K: oDeliver, A: (r + 1) % c.N, B: 3, I: 1}}
		case 2: // leave heard by one, state sync to another, the other hears the leave late
			story = []c02Op{{K: oLeave, A: m}, {K: oDeliver, A: r, B: 3, I: 0}, {K: oPushPull, A: r, B: (r + 1) % c.N},
				{K: oDeliver, A: (r + 1) % c.N, B: 3, I: 0}, {K: oNotify, A: r, B: m}}
		case 3: // leave heard by the observer, then a late metadata update of the leaver, then the death notice
			story = []c02Op{{K: oLeave, A: m}, {K: oDeliver, A: r, B: 3, I: 0}, {K: oUpdate, A: r, B: m}, {K: oNotify, A: r, B: m}}
		default: // leave, return, stale leave delivered after the return
			story = []c02Op{{K: oLeave, A: m}, {K: oUp, A: m, B: r}, {K: oNotify, A: r, B: m}, {K: oNotify, A: r, B: m},
				{K: oDeliver, A: r, B: 3, I: 1}, {K: oDeliver, A: r, B: 3, I: 0}}
		}
		at := rapid.IntRange(0, len(c.Ops)).Draw(t, "motif-at")
		c.Ops = append(c.Ops[:at], append(story, c.Ops[at:]...)...)
	}
	return c
}

type lifeEvent struct {
	up bool
}

type replica struct {
	idx  int
	name string
	n    *node.Node
	up   bool
	// notification progress of this observer about every subject: number of
	// lifecycle events of the subject it has been told (or skipped in pairs)
	prog []int
	// last observed status time per member (monotonicity invariant)
	lastLTime map[string]serf.LamportTime
}

type intentRec struct {
	raw   []byte
	leave bool
	node  string
	ltime serf.LamportTime
}

type c02World struct {
	x         *vkit.Ctx
	reps      []*replica
	events    [][]lifeEvent // per subject
	pool      []intentRec
	poolSeen  map[string]bool
	maxJoin   map[string]serf.LamportTime // newest join intent LTime per member
	leaveSent map[string]bool             // a leave/force-leave newer than the latest join exists somewhere
	// claims counts every leave/force-leave ever issued about a member;
	// ownLeave is the raw intent of a member's own graceful Leave if that was the
	// ONLY claim ever made about it (cleared otherwise); ownLeaveSeenBy lists the
	// replica instances (name#life) that listed the member when that intent was
	// handed to them
	claims         map[string]int
	ownLeave       map[string]string
	ownLeaveSeenBy map[string]map[string]bool
	// mergedSince[m]: replicas that took part in a push/pull after m issued its
	// own leave. A push/pull from a replica that already holds m as "leaving"
	// hands the leave's time over as a JOIN intent (the mechanism of finding F1),
	// after which the leave intent itself is stale at the receiver; such a
	// replica is not a witness for the own-leave rule.
	mergedSince map[string]map[string]bool
	mon         *vkit.Monitor
	labels      map[string]int
	// applied: instance|member -> newest intent LTime the harness itself has
	// handed to that instance about that member - by gossip or conveyed by a
	// push/pull, while the member was known there or before (an intent about
	// a member not yet known is buffered, the newest one wins, and becomes the
	// member's status time when memberlist announces it). Independent of the
	// implementation's own bookkeeping.
	applied map[string]serf.LamportTime
	// failed: a violation has been reported from inside a helper; the body
	// stops at the next step boundary
	failed bool
}

func (w *c02World) akey(r *replica, member string) string {
	return fmt.Sprintf("%s#%d|%s", r.name, lives(w.events[r.idx]), member)
}

// lives counts how often a member was started. With restarts an accepted leave
// may refer to an earlier life than the one that ended last (the observer's
// notifications lag), so "left" is only asserted for members that lived once.
func lives(ev []lifeEvent) int {
	n := 0
	for _, e := range ev {
		if e.up {
			n++
		}
	}
	return n
}

// ownLeaveWitnessed: m's final departure was its own graceful Leave, no other
// leave or force-leave was ever issued about it (so no replica can hold a
// status time for it beyond its joins), and the intent was handed to a replica
// instance that is still running and knew the member at that moment. Then the
// intent had to be accepted there and the tombstone spreads: left everywhere.
func ownLeaveWitnessed(w *c02World, m *replica) bool {
	raw, ok := w.ownLeave[m.name]
	if !ok || raw == "" || w.claims[m.name] != 1 {
		return false
	}
	// "newer than its latest join": a node that came back without a snapshot and
	// without a join intent can issue a leave that is NOT newer than a join
	// intent of an earlier life (its clock started over)
	var l serf.VerifMessageLeave
	if serf.VerifDecodeMessage([]byte(raw)[1:], &l) != nil || l.LTime <= w.maxJoin[m.name] {
		return false
	}
	for _, r := range w.reps {
		if r.up && w.ownLeaveSeenBy[m.name][fmt.Sprintf("%s#%d", r.name, lives(w.events[r.idx]))] {
			return true
		}
	}
	return false
}

func rname(i int) string { return fmt.Sprintf("n%d", i) }
func raddr(i int) string { return fmt.Sprintf("127.0.9.%d:7946", i+1) }

func (w *c02World) start(i int) bool {
	r := w.reps[i]
	nw := simnet.New(1)
	nw.SetCapture(false)
	n, err := node.New(nw, node.Opts{Name: r.name, Addr: raddr(i), Quiet: true, NoEventCh: true})
	if err != nil {
		w.x.Inconclusive("create: " + err.Error())
		return false
	}
	r.n, r.up = n, true
	r.lastLTime = map[string]serf.LamportTime{}
	w.events[i] = append(w.events[i], lifeEvent{up: true})
	// a fresh instance knows nothing: it can only ever be told about what is
	// currently alive (memberlist ignores dead state for unknown nodes)
	for m := range w.reps {
		if m == i {
			r.prog[m] = len(w.events[m]) // it knows itself
			continue
		}
		ev := w.events[m]
		if len(ev) > 0 && ev[len(ev)-1].up {
			r.prog[m] = len(ev) - 1
		} else {
			r.prog[m] = len(ev)
		}
	}
	return true
}

func (w *c02World) collect(r *replica) {
	if !r.up {
		return
	}
	intents, _, _ := r.n.Serf.VerifQueued()
	for _, raw := range intents {
		if w.poolSeen[string(raw)] {
			continue
		}
		w.poolSeen[string(raw)] = true
		rec := intentRec{raw: raw}
		switch raw[0] {
		case serf.VerifMessageJoinType:
			var j serf.VerifMessageJoin
			if serf.VerifDecodeMessage(raw[1:], &j) != nil {
				continue
			}
			rec.node, rec.ltime = j.Node, j.LTime
			if j.LTime > w.maxJoin[j.Node] {
				w.maxJoin[j.Node] = j.LTime
			}
		case serf.VerifMessageLeaveType:
			var l serf.VerifMessageLeave
			if serf.VerifDecodeMessage(raw[1:], &l) != nil {
				continue
			}
			rec.node, rec.ltime, rec.leave = l.Node, l.LTime, true
		default:
			continue
		}
		w.pool = append(w.pool, rec)
	}
}

func (w *c02World) collectAll() {
	for _, r := range w.reps {
		w.collect(r)
	}
}

func status(r *replica, name string) (serf.MemberStatus, bool) {
	for _, m := range r.n.Serf.Members() {
		if m.Name == name {
			return m.Status, true
		}
	}
	return serf.StatusNone, false
}

// invariants checks, for every running replica and member, that the recorded
// status time never decreased.
func (w *c02World) invariants(after string) bool {
	if w.failed {
		return false
	}
	for _, r := range w.reps {
		if !r.up {
			continue
		}
		for _, m := range w.reps {
			lt, ok := r.n.Serf.VerifStatusLTime(m.name)
			if !ok {
				continue
			}
			if prev, seen := r.lastLTime[m.name]; seen && lt < prev {
				w.x.Violationf("status-time-decreased", "after %s: replica %s: status time of %s went from %d to %d", after, r.name, m.name, prev, lt)
				return false
			}
			r.lastLTime[m.name] = lt
		}
	}
	return true
}

// waitRefute gives an asynchronous refutation (go broadcastJoin) time to
// land: r received a leave claim about itself newer than its status time.
func (w *c02World) waitRefute(r *replica, claim serf.LamportTime) {
	dl := time.Now().Add(3 * time.Second)
	for time.Now().Before(dl) {
		if lt, ok := r.n.Serf.VerifStatusLTime(r.name); ok && lt > claim {
			return
		}
		time.Sleep(50 * time.Microsecond)
	}
	w.labels["refute-wait-timeout"]++
}

func (w *c02World) notifyOne(r *replica, m int, allowSkip bool, skipBit bool) bool {
	if !r.up || r.idx == m {
		return false
	}
	ev := w.events[m]
	p := r.prog[m]
	if p >= len(ev) {
		return false
	}
	// pairs may be skipped (a blip memberlist never reports), never reordered
	if allowSkip && skipBit && len(ev)-p >= 2 {
		r.prog[m] = p + 2
		w.labels["notify-skip-pair"]++
		return true
	}
	mn := node.MLNode(rname(m), fmt.Sprintf("127.0.9.%d", m+1), 7946, nil, 5, 5)
	if ev[p].up {
		r.n.EventsD.NotifyJoin(mn)
	} else {
		r.n.EventsD.NotifyLeave(mn)
	}
	r.prog[m] = p + 1
	return true
}

// aliveTransfer is the memberlist-level half of a push/pull from a to b that
// is synchronous: b learns of every node a currently believes alive.
func (w *c02World) aliveTransfer(a, b *replica) {
	for m := range w.reps {
		if m == b.idx {
			continue
		}
		pa := a.prog[m]
		if m == a.idx {
			pa = len(w.events[m])
		}
		if pa == 0 || !w.events[m][pa-1].up || b.prog[m] >= pa {
			continue
		}
		// does b currently believe m alive (from an earlier life)? then memberlist
		// only refreshes its record, no notification
		if b.prog[m] > 0 && w.events[m][b.prog[m]-1].up {
			b.prog[m] = pa
			continue
		}
		b.prog[m] = pa - 1
		w.notifyOne(b, m, false, false)
	}
}

func (w *c02World) pushPull(a, b *replica, join bool) {
	if !a.up || !b.up || a == b {
		return
	}
	for _, ms := range w.mergedSince {
		ms[a.name], ms[b.name] = true, true
	}
	// rule 1: both local states are computed before either side merges
	sa := a.n.Delegate.LocalState(join)
	sb := b.n.Delegate.LocalState(join)
	// rule 2: memberlist-level merge immediately before the Serf-level merge
	w.aliveTransfer(a, b)
	w.mergeInto(b, sa, join)
	w.aliveTransfer(b, a)
	w.mergeInto(a, sb, join)
}

func (w *c02World) mergeInto(r *replica, state []byte, join bool) {
	var pp serf.VerifMessagePushPull
	selfClaim := serf.LamportTime(0)
	expectRefute := false
	// A push/pull conveys one artificial intent per member of the sender's view:
	// a leave at status time + 1 for the members on its left list, a join at the
	// status time for the others. The step rule of the statement holds for them
	// as for gossiped intents: one that is not newer than what this instance has
	// already applied (or been handed) must not change the member's status.
	type conveyed struct {
		name   string
		ltime  serf.LamportTime
		leave  bool
		known  bool
		before serf.MemberStatus
		bound  serf.LamportTime
	}
	var conv []conveyed
	if serf.VerifDecodeMessage(state[1:], &pp) == nil {
		left := map[string]bool{}
		for _, name := range pp.LeftMembers {
			left[name] = true
			if name == r.name {
				claim := pp.StatusLTimes[name] + 1
				if lt, ok := r.n.Serf.VerifStatusLTime(r.name); ok && claim > lt && r.n.Serf.State() == serf.SerfAlive {
					expectRefute, selfClaim = true, claim
				}
			}
		}
		var names []string
		for name := range pp.StatusLTimes {
			names = append(names, name)
		}
		sort.Strings(names)
		for _, name := range names {
			cv := conveyed{name: name, ltime: pp.StatusLTimes[name], leave: left[name]}
			if cv.leave {
				cv.ltime++
			}
			cv.before, cv.known = status(r, name)
			cv.bound, _ = r.n.Serf.VerifStatusLTime(name)
			if a := w.applied[w.akey(r, name)]; a > cv.bound {
				cv.bound = a
			}
			conv = append(conv, cv)
		}
	}
	r.n.Delegate.MergeRemoteState(state, join)
	if expectRefute {
		w.labels["refute-via-pushpull"]++
		w.waitRefute(r, selfClaim)
	}
	for _, cv := range conv {
		k := w.akey(r, cv.name)
		if cv.ltime > w.applied[k] {
			w.applied[k] = cv.ltime
		}
		if !cv.known || cv.ltime > cv.bound {
			continue
		}
		after, _ := status(r, cv.name)
		if after != cv.before && !w.failed {
			w.failed = true
			w.x.Violationf("stale-sync-intent-changed-status", "push/pull into %s: the state conveys %s (leave=%v) at Lamport time %d, not newer than the %d already applied there, yet the status changed %v -> %v",
				r.name, cv.name, cv.leave, cv.ltime, cv.bound, cv.before, after)
			return
		}
		w.labels["stale-sync-intent"]++
	}
}

func bodyC02(c c02Case, x *vkit.Ctx) {
	w := &c02World{x: x, poolSeen: map[string]bool{}, maxJoin: map[string]serf.LamportTime{}, leaveSent: map[string]bool{}, labels: map[string]int{},
		applied: map[string]serf.LamportTime{}, claims: map[string]int{}, ownLeave: map[string]string{}, ownLeaveSeenBy: map[string]map[string]bool{}, mergedSince: map[string]map[string]bool{}}
	w.events = make([][]lifeEvent, c.N)
	for i := 0; i < c.N; i++ {
		w.reps = append(w.reps, &replica{idx: i, name: rname(i), prog: make([]int, c.N)})
	}
	defer func() {
		for _, r := range w.reps {
			if r.up {
				r.n.Stop()
			}
		}
	}()
	w.mon = vkit.StartMonitor()
	defer w.mon.Stop()

	up := func(i, via int, intent bool) bool {
		if !w.start(i) {
			return false
		}
		r := w.reps[i]
		// what Serf.Join does: memberlist join (= a push/pull flagged join with a
		// live peer), then the join intent with the clock learned there
		for k := 0; k < c.N; k++ {
			if peer := w.reps[(via+k)%c.N]; peer.up && peer != r {
				w.pushPull(r, peer, true)
				w.labels["join-via-peer"]++
				break
			}
		}
		if !intent {
			// the memberlist-only way back in (the snapshot's automatic re-join, or a
			// peer's reconnect): alive again, but no Serf join intent is issued
			w.labels["rejoin-without-intent"]++
			return true
		}
		if err := r.n.Serf.VerifBroadcastJoin(); err != nil {
			x.Inconclusive("broadcastJoin: " + err.Error())
			return false
		}
		w.collect(r)
		return true
	}
	down := func(r *replica) {
		w.collect(r)
		r.n.Stop()
		r.up = false
		w.events[r.idx] = append(w.events[r.idx], lifeEvent{up: false})
	}

	if !up(0, 0, true) {
		return
	}
	if c.Formed {
		for i := 1; i < c.N; i++ {
			if !up(i, 0, true) {
				return
			}
		}
		for _, r := range w.reps {
			for m := range w.reps {
				for w.notifyOne(r, m, false, false) {
				}
			}
		}
		for _, a := range w.reps {
			for _, b := range w.reps {
				if a.idx < b.idx {
					w.pushPull(a, b, false)
				}
			}
		}
		w.collectAll()
	}
	if !w.invariants("setup") {
		return
	}

	outOfOrder, dupDeliveries := 0, 0
	delivered := map[string]serf.LamportTime{} // replica|node -> max LTime delivered by gossip
	deliveredRaw := map[string]bool{}
	applied := w.applied

	for oi, op := range c.Ops {
		a := w.reps[op.A%c.N]
		b := w.reps[op.B%c.N]
		desc := fmt.Sprintf("op %d %s(a=%s,b=%s,i=%d)", oi, c02OpNames[op.K], a.name, b.name, op.I)
		switch op.K {
		case oUp:
			if a.up {
				continue
			}
			// one restart in four comes back without a join intent (only if a peer is
			// there to re-join through; a lone node always announces itself)
			peerUp := false
			for _, r := range w.reps {
				if r.up && r != a {
					peerUp = true
				}
			}
			if !up(a.idx, op.B, !(peerUp && op.I%4 == 3)) {
				return
			}
			delete(w.ownLeave, a.name)
			w.labels["restart"]++
		case oLeave:
			if !a.up {
				continue
			}
			before, _ := a.n.Serf.VerifStatusLTime(a.name)
			if err := a.n.Serf.Leave(); err != nil {
				x.Inconclusive("leave: " + err.Error())
				return
			}
			_ = before
			poolBefore := len(w.pool)
			w.collect(a)
			w.leaveSent[a.name] = true
			// remember the member's own leave intent if nothing else was ever claimed about it
			if w.claims[a.name] == 0 {
				for _, it := range w.pool[poolBefore:] {
					if it.leave && it.node == a.name {
						w.ownLeave[a.name] = string(it.raw)
						w.ownLeaveSeenBy[a.name] = map[string]bool{}
						w.mergedSince[a.name] = map[string]bool{}
					}
				}
			} else {
				delete(w.ownLeave, a.name)
			}
			w.claims[a.name]++
			down(a)
			w.labels["graceful-leave"]++
		case oCrash:
			if !a.up {
				continue
			}
			// keep at least one replica running so that there is something to compare
			running := 0
			for _, r := range w.reps {
				if r.up {
					running++
				}
			}
			if running <= 1 {
				continue
			}
			down(a)
			w.labels["crash"]++
		case oForceLeave:
			if !a.up || a == b {
				continue
			}
			if _, known := status(a, b.name); !known {
				continue
			}
			_ = a.n.Serf.RemoveFailedNode(b.name)
			w.collect(a)
			w.leaveSent[b.name] = true
			w.claims[b.name]++
			delete(w.ownLeave, b.name)
			if b.up {
				w.labels["force-leave-running"]++
			} else {
				w.labels["force-leave-down"]++
			}
		case oNotify:
			if !w.notifyOne(a, b.idx, true, op.I&1 == 1) {
				continue
			}
		case oDeliver:
			if !a.up || len(w.pool) == 0 {
				continue
			}
			it := w.pool[op.I%len(w.pool)]
			if op.B == 3 {
				// one of the three newest intents (what gossip would carry next)
				it = w.pool[len(w.pool)-1-(op.I%min(3, len(w.pool)))]
			}
			stBefore, known := status(a, it.node)
			ltBefore, _ := a.n.Serf.VerifStatusLTime(it.node)
			key := a.name + "|" + it.node
			if prev, ok := delivered[key]; ok && it.ltime < prev {
				outOfOrder++
			}
			if it.ltime > delivered[key] {
				delivered[key] = it.ltime
			}
			rk := a.name + "|" + string(it.raw)
			if deliveredRaw[rk] {
				dupDeliveries++
			}
			deliveredRaw[rk] = true
			if known && w.ownLeave[it.node] == string(it.raw) {
				// ... and only if this replica has been told of the member's LAST life
				// already: an observer whose notifications lag applies the leave to the
				// life it knows, and the later "up again / down again" notifications
				// then legitimately end in failed
				for mi, mr := range w.reps {
					if mr.name != it.node {
						continue
					}
					ev := w.events[mi]
					lastUp := -1
					for k := len(ev) - 1; k >= 0; k-- {
						if ev[k].up {
							lastUp = k
							break
						}
					}
					if lastUp >= 0 && a.prog[mi] >= lastUp+1 && !w.mergedSince[it.node][a.name] {
						w.ownLeaveSeenBy[it.node][fmt.Sprintf("%s#%d", a.name, lives(w.events[a.idx]))] = true
					}
				}
			}
			refute := it.leave && it.node == a.name && known && it.ltime > ltBefore && a.n.Serf.State() == serf.SerfAlive
			a.n.Delegate.NotifyMsg(it.raw)
			if refute {
				w.labels["refute-via-gossip"]++
				w.waitRefute(a, it.ltime)
			}
			// independent of the implementation's own bookkeeping: the newest intent
			// about this member the harness itself has handed to this instance
			akey := w.akey(a, it.node)
			if known && applied[akey] > ltBefore {
				ltBefore = applied[akey]
			}
			if !known {
				w.labels["intent-for-unknown-member"]++
			}
			if it.ltime > applied[akey] {
				applied[akey] = it.ltime
			}
			if known && it.ltime <= ltBefore {
				stAfter, _ := status(a, it.node)
				if stAfter != stBefore {
					x.Violationf("stale-intent-changed-status", "%s: intent (%s leave=%v LTime %d) is not newer than the status time %d of %s at %s, yet the status changed %v -> %v",
						desc, it.node, it.leave, it.ltime, ltBefore, it.node, a.name, stBefore, stAfter)
					return
				}
				w.labels["stale-intent-delivered"]++
			}
			w.collect(a)
		case oPushPull:
			if !a.up || !b.up || a == b {
				continue
			}
			w.pushPull(a, b, false)
			w.collectAll()
			w.labels["pushpull"]++
		case oUpdate:
			// memberlist reports a changed metadata only for a node it holds alive
			p := a.prog[b.idx]
			if !a.up || a == b || p == 0 || !w.events[b.idx][p-1].up {
				continue
			}
			stBefore, known := status(a, b.name)
			ltBefore, _ := a.n.Serf.VerifStatusLTime(b.name)
			a.n.EventsD.NotifyUpdate(node.MLNode(b.name, fmt.Sprintf("127.0.9.%d", b.idx+1), 7946, nil, 5, 5))
			stAfter, knownAfter := status(a, b.name)
			ltAfter, _ := a.n.Serf.VerifStatusLTime(b.name)
			if known != knownAfter || stBefore != stAfter || ltBefore != ltAfter {
				x.Violationf("metadata-update-changed-status", "%s: a metadata update is no intent, yet %s's record of %s went from %v (known=%v, status time %d) to %v (known=%v, status time %d)",
					desc, a.name, b.name, stBefore, known, ltBefore, stAfter, knownAfter, ltAfter)
				return
			}
			w.labels["metadata-update-"+stBefore.String()]++
		}
		if !w.invariants(desc) {
			return
		}
	}

	// ---- closing phase: every outstanding notification, then state sync
	leaveAccepted := map[string]bool{}
	for _, r := range w.reps {
		if !r.up {
			continue
		}
		for _, m := range w.reps {
			st, ok := status(r, m.name)
			lt, _ := r.n.Serf.VerifStatusLTime(m.name)
			if ok && (st == serf.StatusLeaving || st == serf.StatusLeft) && lt > w.maxJoin[m.name] {
				leaveAccepted[m.name] = true
			}
		}
	}
	for _, r := range w.reps {
		for m := range w.reps {
			for w.notifyOne(r, m, false, false) {
			}
		}
	}
	for round := 0; round < 3; round++ {
		for _, a := range w.reps {
			for _, b := range w.reps {
				if a.idx < b.idx {
					w.pushPull(a, b, false)
				}
			}
		}
		if !w.invariants(fmt.Sprintf("closing round %d", round)) {
			return
		}
	}
	w.collectAll()
	if g := w.mon.MaxGap(); g > 500*time.Millisecond || w.labels["refute-wait-timeout"] > 0 {
		x.Inconclusive("starved")
		return
	}

	// ---- agreement
	lister := 0
	for _, m := range w.reps {
		views := map[serf.MemberStatus][]string{}
		for _, r := range w.reps {
			if !r.up {
				continue
			}
			if st, ok := status(r, m.name); ok {
				views[st] = append(views[st], r.name)
			}
		}
		n := 0
		for _, v := range views {
			n += len(v)
		}
		if n >= 2 {
			lister++
		}
		viewStr := func() string {
			var parts []string
			for st, rs := range views {
				sort.Strings(rs)
				parts = append(parts, fmt.Sprintf("%v@%v", st, rs))
			}
			sort.Strings(parts)
			return fmt.Sprint(parts)
		}
		sig := func(s string) string {
			// known shapes get their own signature
			return s
		}
		if len(views) > 1 {
			// Known shape (see DESIGN.md, finding F1): m is running and says alive,
			// some replica q holds it as leaving because of a leave claim that m
			// itself never refuted (m's own status time is not newer than q's) —
			// push/pull hands q's status time to m as a *join* intent, so m adopts
			// the time without refuting and nothing ever repairs q.
			// (a leave or force-leave must have been issued about m at some point: without any claim nobody can hold m as leaving)
			if m.up && w.claims[m.name] > 0 && len(views[serf.StatusAlive])+len(views[serf.StatusLeaving]) == n && len(views[serf.StatusLeaving]) > 0 {
				own, _ := m.n.Serf.VerifStatusLTime(m.name)
				unrefuted := true
				for _, r := range w.reps {
					if !r.up || r == m {
						continue
					}
					if st, ok := status(r, m.name); ok && st == serf.StatusLeaving {
						if lt, _ := r.n.Serf.VerifStatusLTime(m.name); lt < own {
							unrefuted = false
						}
					}
				}
				if st, ok := status(m, m.name); ok && st == serf.StatusAlive && unrefuted {
					x.Violationf("leave-claim-about-running-member-never-refuted", "member %s is running; %v hold it as leaving because of a leave claim (status time >= %s's own %d) that never made %s refute; state sync does not repair it: %s",
						m.name, views[serf.StatusLeaving], m.name, own, m.name, viewStr())
					if vkit.IsKnown("C02", "leave-claim-about-running-member-never-refuted") {
						x.Excluded()
						continue
					}
					return
				}
			}
			x.Violationf(sig("replicas-disagree"), "after the closing state sync the running replicas disagree on %s (running=%v): %s", m.name, m.up, viewStr())
			return
		}
		for st := range views {
			switch {
			case m.up && st != serf.StatusAlive:
				x.Violationf(sig("running-member-not-alive"), "member %s is running but every running replica that lists it says %v: %s", m.name, st, viewStr())
				return
			case !m.up && leaveAccepted[m.name] && lives(w.events[m.idx]) == 1 && st != serf.StatusLeft:
				x.Violationf(sig("left-member-not-left"), "member %s is down and a leave newer than its latest join (%d) had been accepted by a running replica, but the replicas settle on %v", m.name, w.maxJoin[m.name], st)
				return
			case !m.up && ownLeaveWitnessed(w, m) && st != serf.StatusLeft:
				x.Violationf(sig("own-leave-not-honoured"), "member %s left gracefully (the only leave claim ever made about it, Lamport time newer than any of its joins) and its leave intent was handed to a replica that is still running and listed it, but the replicas settle on %v", m.name, st)
				return
			case !m.up && !w.leaveSent[m.name] && st != serf.StatusFailed:
				x.Violationf(sig("crashed-member-not-failed"), "member %s went down without any leave or force-leave, but the replicas settle on %v", m.name, st)
				return
			}
		}
	}
	for l, n := range w.labels {
		if n > 0 {
			x.Label(l)
		}
	}
	x.Labelf("n=%d", c.N)
	if outOfOrder > 0 {
		x.Label("intent-out-of-ltime-order")
	}
	if dupDeliveries > 0 {
		x.Label("intent-duplicated")
	}
	x.NonTrivial((outOfOrder > 0 || dupDeliveries > 0 || w.labels["pushpull"] > 0) && lister > 0)
}

func TestC02(t *testing.T) { vkit.Run(t, "C02", genC02, bodyC02) }
