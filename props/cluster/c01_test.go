//go:build verif

package cluster

import (
	"fmt"
	"os"
	"path/filepath"
	"sort"
	"strings"
	"sync"
	"sync/atomic"
	"testing"
	"time"

	"github.com/hashicorp/serf/serf"
	"pgregory.net/rapid"

	"verif/internal/node"
	"verif/internal/simnet"
	"verif/internal/vkit"
)

// C01 — membership views converge to the true cluster state after faults heal.
//
// Real serf nodes over real memberlist on the harness network (simnet in
// cluster mode) with millisecond timers. The harness owns the faults
// (partitions, loss, crashes) but not memberlist's timing; see DESIGN.md C01
// for the three guards that keep the check from inventing violations.

const (
	sStart = iota // start (or restart) node A and join through node B
	sLeave        // graceful leave + shutdown
	sCrash        // shutdown without leave
	sPartition    // bipartition by mask V
	sHeal
	sLoss // datagram loss V percent
	sUserEvent
	sWait // V milliseconds
	numScenOps
)

var scenOpNames = []string{"start", "leave", "crash", "partition", "heal", "loss", "userevent", "wait"}

type scenOp struct {
	K int `json:"k"`
	A int `json:"a,omitempty"`
	B int `json:"b,omitempty"`
	V int `json:"v,omitempty"`
}

type c01Case struct {
	N   int      `json:"n"`
	Ops []scenOp `json:"ops"`
	// Snap: every node keeps a snapshot; a restarted node then comes back through
	// the snapshot's automatic re-join (memberlist-level only, no Serf join intent)
	// unless the op says otherwise, and its clocks are restored
	Snap bool `json:"snap,omitempty"`
}

func genC01(t *rapid.T) c01Case {
	c := c01Case{N: rapid.IntRange(3, 5).Draw(t, "n"), Snap: rapid.Bool().Draw(t, "snap")}
	n := rapid.IntRange(4, 14).Draw(t, "nops")
	kinds := []int{sStart, sStart, sLeave, sLeave, sCrash, sCrash, sPartition, sPartition, sHeal, sLoss, sUserEvent, sWait, sWait}
	for i := 0; i < n; i++ {
		op := scenOp{K: rapid.SampledFrom(kinds).Draw(t, "k"), A: rapid.IntRange(0, 4).Draw(t, "a"), B: rapid.IntRange(0, 4).Draw(t, "b")}
		switch op.K {
		case sPartition:
			op.V = rapid.IntRange(1, 30).Draw(t, "mask")
		case sLoss:
			op.V = rapid.SampledFrom([]int{0, 10, 30}).Draw(t, "loss")
		case sWait:
			op.V = rapid.SampledFrom([]int{10, 50, 150, 300, 600}).Draw(t, "ms")
		}
		c.Ops = append(c.Ops, op)
	}
	// One scenario in three has a short story spliced in that random operations
	// rarely spell out (the waits are long enough for failure detection):
	//   0: a node crashes for good, later the network splits and heals - the
	//      survivors have to find each other again although a dead node is
	//      also on their lists;
	//   1: a node is cut off while another one leaves gracefully, then the
	//      network heals - the cut-off node hears of the leave only through
	//      state syncs;
	//   2: a node leaves while datagrams are being lost, then the loss stops.
	if rapid.IntRange(0, 2).Draw(t, "story") == 0 {
		a := rapid.IntRange(0, c.N-1).Draw(t, "story.a")
		b := (a + 1 + rapid.IntRange(0, c.N-2).Draw(t, "story.b")) % c.N
		var story []scenOp
		switch rapid.IntRange(0, 2).Draw(t, "story.kind") {
		case 0:
			story = []scenOp{{K: sCrash, A: a}, {K: sWait, V: 600}, {K: sPartition, V: 1 << uint(b)}, {K: sWait, V: 600}, {K: sWait, V: 300}, {K: sHeal}, {K: sWait, V: 300}}
		case 1:
			story = []scenOp{{K: sPartition, V: 1 << uint(b)}, {K: sWait, V: 50}, {K: sLeave, A: a}, {K: sWait, V: 600}, {K: sHeal}, {K: sWait, V: 300}}
		default:
			story = []scenOp{{K: sLoss, V: 30}, {K: sLeave, A: a}, {K: sWait, V: 300}, {K: sLoss, V: 0}, {K: sWait, V: 150}}
		}
		at := rapid.IntRange(0, len(c.Ops)).Draw(t, "story.at")
		c.Ops = append(append(append([]scenOp{}, c.Ops[:at]...), story...), c.Ops[at:]...)
	}
	return c
}

type depKind int

const (
	depNone depKind = iota
	depLeftConnected
	depCrashed
	depUnconstrained
)

type cnode struct {
	idx     int
	name    string
	n       *node.Node
	running bool
	joined  bool // this instance has successfully joined through a peer (or formed the cluster)
	dep     depKind
	everRan bool
	everLeft bool // some earlier life of this member ended in a graceful leave
	mu      sync.Mutex
	learned map[string]bool // subjects this instance had a member event for
	// life of the subject (its start counter) at the last join event this
	// instance saw for it: an observer that never learned of a member's last
	// life cannot be expected to report how that life ended
	learnedLife map[string]int64
	life        atomic.Int64
	all         []*cnode
	stopEv      chan struct{}
}

func (cn *cnode) watch() {
	// every life gets maps of its own: the watcher of an earlier life may still
	// be draining that life's channel and must not write into this life's maps
	learned, learnedLife := map[string]bool{}, map[string]int64{}
	cn.mu.Lock()
	cn.learned, cn.learnedLife = learned, learnedLife
	cn.mu.Unlock()
	cn.stopEv = make(chan struct{})
	ch := cn.n.Events
	stop := cn.stopEv
	go func() {
		for {
			select {
			case e := <-ch:
				if me, ok := e.(serf.MemberEvent); ok {
					cn.mu.Lock()
					for _, m := range me.Members {
						learned[m.Name] = true
						if me.Type == serf.EventMemberJoin {
							for _, o := range cn.all {
								if o.name == m.Name {
									learnedLife[m.Name] = o.life.Load()
								}
							}
						}
					}
					cn.mu.Unlock()
				}
			case <-stop:
				return
			}
		}
	}()
}

func (cn *cnode) knowsLastLife(sub *cnode) bool {
	cn.mu.Lock()
	defer cn.mu.Unlock()
	return cn.learnedLife[sub.name] == sub.life.Load()
}

func (cn *cnode) hasLearned(name string) bool {
	cn.mu.Lock()
	defer cn.mu.Unlock()
	return cn.learned[name]
}

func views(nodes []*cnode) string {
	var parts []string
	for _, cn := range nodes {
		if !cn.running {
			continue
		}
		var ms []string
		for _, m := range cn.n.Serf.Members() {
			ms = append(ms, m.Name+"="+m.Status.String())
		}
		sort.Strings(ms)
		parts = append(parts, cn.name+"{"+strings.Join(ms, ",")+"}")
	}
	return strings.Join(parts, " ")
}

// wrongViews lists every (observer, subject) whose view contradicts the model.
func wrongViews(nodes []*cnode) []string {
	var bad []string
	for _, obs := range nodes {
		if !obs.running {
			continue
		}
		seen := map[string]serf.MemberStatus{}
		for _, m := range obs.n.Serf.Members() {
			seen[m.Name] = m.Status
		}
		for _, sub := range nodes {
			if !sub.everRan {
				continue
			}
			st, listed := seen[sub.name]
			switch {
			case sub.running:
				if !listed || st != serf.StatusAlive {
					bad = append(bad, fmt.Sprintf("%s sees running %s as %v(listed=%v)", obs.name, sub.name, st, listed))
				}
			case (sub.dep == depLeftConnected || sub.dep == depCrashed) && !obs.knowsLastLife(sub):
				// the observer only knows an earlier life of the subject
				if listed && st != serf.StatusLeft && st != serf.StatusFailed {
					bad = append(bad, fmt.Sprintf("%s sees departed %s (earlier life) as %v", obs.name, sub.name, st))
				}
			case sub.dep == depLeftConnected:
				if (listed && st != serf.StatusLeft) || (!listed && obs.hasLearned(sub.name)) {
					bad = append(bad, fmt.Sprintf("%s sees gracefully departed %s as %v(listed=%v)", obs.name, sub.name, st, listed))
				}
			case sub.dep == depCrashed:
				if (listed && st != serf.StatusFailed) || (!listed && obs.hasLearned(sub.name)) {
					bad = append(bad, fmt.Sprintf("%s sees crashed %s as %v(listed=%v)", obs.name, sub.name, st, listed))
				}
			case sub.dep == depUnconstrained:
				if listed && st != serf.StatusLeft && st != serf.StatusFailed {
					bad = append(bad, fmt.Sprintf("%s sees departed %s as %v", obs.name, sub.name, st))
				}
			}
		}
	}
	return bad
}

// scenResult is what one execution of a scenario reports.
type scenResult struct {
	labels  []string
	nontriv bool
	incon   string
	sig     string
	detail  string
	known   bool
}

func (r *scenResult) Label(l string)             { r.labels = append(r.labels, l) }
func (r *scenResult) Labelf(f string, a ...any)  { r.labels = append(r.labels, fmt.Sprintf(f, a...)) }
func (r *scenResult) NonTrivial(b bool)          { r.nontriv = r.nontriv || b }
func (r *scenResult) Inconclusive(reason string) { r.incon = reason }
func (r *scenResult) Violationf(sig, f string, a ...any) {
	if r.sig == "" {
		r.sig, r.detail = sig, fmt.Sprintf(f, a...)
	}
}

// bodyC01 runs the scenario; a violation candidate is only reported if it
// shows again in at least two of up to five re-runs of the same scenario. Memberlist
// timing is not owned by the harness: on the unchanged tree about one scenario
// in a thousand ends in a wrong-but-stable view that never shows again when the
// very same scenario is replayed (restart races between a node's new memberlist
// incarnation and its peers' record of the old one). Genuine defects of the
// kind this check can see at all re-appear readily.
func bodyC01(c c01Case, x *vkit.Ctx) {
	r := runScenarioC01(c)
	for _, l := range r.labels {
		x.Label(l)
	}
	x.NonTrivial(r.nontriv)
	if r.incon != "" {
		x.Inconclusive(r.incon)
		return
	}
	if r.sig == "" {
		return
	}
	again := 0
	var reruns []string
	for i := 0; i < 5 && again < 2; i++ {
		if i == 4 && again == 0 {
			break // two reproductions can no longer be reached
		}
		rr := runScenarioC01(c)
		switch {
		case rr.sig != "":
			again++
			reruns = append(reruns, rr.sig)
		case rr.incon != "":
			reruns = append(reruns, "inconclusive:"+rr.incon)
		default:
			reruns = append(reruns, "ok")
		}
	}
	if again >= 2 {
		x.Violationf(r.sig, "%s [re-runs of the same scenario: %v]", r.detail, reruns)
		return
	}
	x.Label("unreproduced-candidate:" + r.sig)
	x.Inconclusive("unreproduced-candidate")
}

func runScenarioC01(c c01Case) *scenResult {
	x := &scenResult{}
	scenarioC01(c, x)
	return x
}

func scenarioC01(c c01Case, x *scenResult) {
	nw := simnet.New(int64(len(c.Ops))*31 + int64(c.N))
	nw.Deliver = true
	nw.SetCapture(false)
	mon := vkit.StartMonitor()
	defer mon.Stop()
	const starve = 60 * time.Millisecond

	nodes := make([]*cnode, c.N)
	for i := range nodes {
		nodes[i] = &cnode{idx: i, name: fmt.Sprintf("m%d", i)}
	}
	for _, cn := range nodes {
		cn.all = nodes
	}
	defer func() {
		for _, cn := range nodes {
			if cn.running {
				close(cn.stopEv)
				cn.n.Stop()
			}
		}
	}()
	addr := func(i int) string { return fmt.Sprintf("127.0.7.%d:7946", i+1) }
	var snapDir string
	if c.Snap {
		d, err := os.MkdirTemp("", "verif-c01-")
		if err != nil {
			x.Inconclusive("tempdir: " + err.Error())
			return
		}
		snapDir = d
		defer os.RemoveAll(snapDir)
	}
	start := func(cn *cnode) bool {
		n, err := node.New(nw, node.Opts{Name: cn.name, Addr: addr(cn.idx), EventBuf: 8192, Mutate: func(sc *serf.Config) {
			if snapDir != "" {
				sc.SnapshotPath = filepath.Join(snapDir, cn.name+".snap")
			}
			// memberlist keeps gossiping to a dead node for this long, which by itself
			// re-merges a briefly partitioned cluster; keep it short so that longer
			// partitions can only be healed by Serf's own reconnect logic
			sc.MemberlistConfig.GossipToTheDeadTime = 60 * time.Millisecond
			// frequent state syncs: push/pull merges then land inside the short
			// windows of a leave (intent out, memberlist leave pending) and of a
			// restart, which is where the anti-entropy rules earn their keep
			sc.MemberlistConfig.PushPullInterval = 80 * time.Millisecond
		}})
		if err != nil {
			x.Inconclusive("create: " + err.Error())
			return false
		}
		cn.life.Add(1)
		cn.n, cn.running, cn.everRan, cn.dep, cn.joined = n, true, true, depNone, false
		cn.watch()
		return true
	}
	stop := func(cn *cnode) {
		close(cn.stopEv)
		cn.n.Stop()
		cn.running = false
	}
	firstRunning := func(from int, not *cnode) *cnode {
		for k := 0; k < c.N; k++ {
			if p := nodes[(from+k)%c.N]; p.running && p != not {
				return p
			}
		}
		return nil
	}

	// ---- form the cluster
	for _, cn := range nodes {
		if !start(cn) {
			return
		}
	}
	for _, cn := range nodes[1:] {
		if _, err := cn.n.Serf.Join([]string{nodes[0].n.Tr.Addr()}, false); err != nil {
			x.Inconclusive("initial join: " + err.Error())
			return
		}
	}
	for _, cn := range nodes {
		cn.joined = true
	}
	dl := time.Now().Add(8 * time.Second)
	for len(wrongViews(nodes)) > 0 {
		if time.Now().After(dl) {
			x.Inconclusive("cluster did not form")
			return
		}
		time.Sleep(5 * time.Millisecond)
	}
	mon.MaxGap()

	partitioned, loss := false, 0
	faultOverlapsDeparture, constrained := false, 0
	faultSeen := false
	for _, op := range c.Ops {
		a := nodes[op.A%c.N]
		switch op.K {
		case sStart:
			if a.running {
				continue
			}
			if !start(a) {
				return
			}
			if c.Snap && a.life.Load() > 1 && op.B%2 == 0 {
				// back through the snapshot's automatic re-join only (if that cannot
				// reach anybody, the closing phase treats the node like any other that
				// never joined)
				x.Label("restart-by-snapshot-rejoin")
			} else if p := firstRunning(op.B, a); p != nil {
				// a join attempt that fails (partition, loss) is not a join: like the
				// agent's retry-join, the harness repeats it once the network is healed
				if n, err := a.n.Serf.Join([]string{p.n.Tr.Addr()}, false); err == nil && n > 0 {
					a.joined = true
				} else {
					x.Label("join-failed-under-fault")
				}
			}
			x.Label("restart")
		case sLeave:
			if !a.running {
				continue
			}
			// "left while connected", established conservatively
			connected := !partitioned && loss == 0
			mutual := false
			if connected {
				for _, p := range nodes {
					if p == a || !p.running {
						continue
					}
					pa, ap := false, false
					for _, m := range p.n.Serf.Members() {
						if m.Name == a.name && m.Status == serf.StatusAlive {
							pa = true
						}
					}
					for _, m := range a.n.Serf.Members() {
						if m.Name == p.name && m.Status == serf.StatusAlive {
							ap = true
						}
					}
					if pa && ap {
						mutual = true
						p.mu.Lock()
						p.mu.Unlock()
					}
				}
			}
			mon.MaxGap()
			err := a.n.Serf.Leave()
			a.everLeft = true
			quiet := mon.MaxGap() < starve
			stop(a)
			// only for a member's first life: right after a restart memberlist is
			// still settling the new incarnation against the peers' record of the old
			// one, and which of "left"/"failed" an observer ends with then depends on
			// message timing the harness neither owns nor can observe (seen once in
			// ~1400 scenarios on the unchanged tree, not reproducible from its replay)
			if connected && mutual && err == nil && quiet && a.life.Load() == 1 {
				a.dep = depLeftConnected
			} else {
				a.dep = depUnconstrained
			}
			if faultSeen {
				faultOverlapsDeparture = true
			}
			x.Label("leave")
		case sCrash:
			if !a.running {
				continue
			}
			if firstRunning(0, a) == nil {
				continue // keep one node
			}
			stop(a)
			a.dep = depCrashed
			if faultSeen {
				faultOverlapsDeparture = true
			}
			x.Label("crash")
		case sPartition:
			for i := 0; i < c.N; i++ {
				for j := i + 1; j < c.N; j++ {
					nw.Block(nodes[i].name, nodes[j].name, (op.V>>i)&1 != (op.V>>j)&1)
				}
			}
			partitioned, faultSeen = true, true
			x.Label("partition")
		case sHeal:
			for i := 0; i < c.N; i++ {
				for j := i + 1; j < c.N; j++ {
					nw.Block(nodes[i].name, nodes[j].name, false)
				}
			}
			partitioned = false
		case sLoss:
			nw.SetLoss(op.V)
			loss = op.V
			if op.V > 0 {
				faultSeen = true
				x.Label("loss")
			}
		case sUserEvent:
			if a.running {
				_ = a.n.Serf.UserEvent("e", []byte("x"), false)
			}
		case sWait:
			time.Sleep(time.Duration(op.V) * time.Millisecond)
		}
		time.Sleep(2 * time.Millisecond)
	}
	// a left-while-connected member only stays constrained if a witness of the
	// leave is still running at the end; otherwise nobody can know
	anyOld := false
	for _, cn := range nodes {
		if cn.running {
			anyOld = true
		}
	}
	if !anyOld {
		x.Inconclusive("no node left running")
		return
	}
	for _, cn := range nodes {
		if !cn.running && cn.dep == depLeftConnected {
			witness := false
			for _, o := range nodes {
				if o.running && o.hasLearned(cn.name) {
					for _, m := range o.n.Serf.Members() {
						if m.Name == cn.name {
							witness = true
						}
					}
				}
			}
			if !witness {
				cn.dep = depUnconstrained
			}
		}
		if !cn.running && (cn.dep == depLeftConnected || cn.dep == depCrashed) {
			constrained++
		}
	}

	// ---- heal, quiet, converge
	nw.HealAll()
	for _, cn := range nodes {
		if !cn.running || cn.joined {
			continue
		}
		for try := 0; try < 20 && !cn.joined; try++ {
			if p := firstRunning(cn.idx+1, cn); p != nil {
				if n, err := cn.n.Serf.Join([]string{p.n.Tr.Addr()}, false); err == nil && n > 0 {
					cn.joined = true
					break
				}
			} else {
				break
			}
			time.Sleep(50 * time.Millisecond)
		}
	}
	// Serf can only re-merge groups that still know of each other: it reconnects
	// to members it lists as failed and talks to those it lists as alive. Groups of
	// running nodes with no such link (e.g. a node that re-joined through a peer
	// which then died, while everybody else holds it as left) stay apart until an
	// operator joins them - the harness plays that operator, once.
	{
		parent := map[string]string{}
		var find func(string) string
		find = func(a string) string {
			if parent[a] == a {
				return a
			}
			parent[a] = find(parent[a])
			return parent[a]
		}
		running := map[string]*cnode{}
		for _, cn := range nodes {
			if cn.running {
				parent[cn.name] = cn.name
				running[cn.name] = cn
			}
		}
		for _, cn := range running {
			for _, m := range cn.n.Serf.Members() {
				if _, ok := running[m.Name]; ok && (m.Status == serf.StatusAlive || m.Status == serf.StatusFailed) {
					parent[find(cn.name)] = find(m.Name)
				}
			}
		}
		var first *cnode
		for _, cn := range nodes {
			if !cn.running {
				continue
			}
			if first == nil {
				first = cn
				continue
			}
			if find(cn.name) != find(first.name) {
				for try := 0; try < 20; try++ {
					if n, err := cn.n.Serf.Join([]string{first.n.Tr.Addr()}, false); err == nil && n > 0 {
						parent[find(cn.name)] = find(first.name)
						x.Label("operator-join-of-unlinked-groups")
						break
					}
					time.Sleep(50 * time.Millisecond)
				}
			}
		}
	}
	mon.MaxGap()
	begin := time.Now()
	var okSince, everOK time.Time
	lastViews, lastChange := "", time.Now()
	starvedRecently := time.Time{}
	for {
		if g := mon.MaxGap(); g > starve {
			starvedRecently = time.Now()
		}
		bad := wrongViews(nodes)
		v := views(nodes)
		if v != lastViews {
			lastViews, lastChange = v, time.Now()
		}
		if len(bad) == 0 {
			if okSince.IsZero() {
				okSince = time.Now()
				everOK = okSince
			}
			if time.Since(okSince) >= 300*time.Millisecond {
				break
			}
		} else {
			okSince = time.Time{}
			unchanged := time.Since(lastChange)
			if unchanged >= 6*time.Second && (starvedRecently.IsZero() || time.Since(starvedRecently) >= 6*time.Second) {
				sig := "views-do-not-converge"
				// Known shapes (finding F1 and its tombstone twin F2, see DESIGN.md 7.3):
				//  A: a running member held as "leaving" by a claim it never refuted
				//     (its own status time is not newer than the claimant's);
				//  B: a member that left gracefully in an earlier life, re-joined and then
				//     crashed, settled as "left": a peer that had not yet learned of the
				//     re-join pushed its tombstone (status time + 1) before the member died.
				kindA, kindB, other := 0, 0, 0
				for _, b := range bad {
					switch {
					case strings.Contains(b, "sees running") && strings.Contains(b, "as leaving(listed=true)"):
						kindA++
					case strings.Contains(b, "sees crashed") && strings.Contains(b, "as left(listed=true)"):
						name := strings.Fields(b[strings.Index(b, "sees crashed ")+len("sees crashed "):])[0]
						ok := false
						for _, sub := range nodes {
							if sub.name == name && sub.everLeft && sub.life.Load() >= 2 {
								ok = true
							}
						}
						if ok {
							kindB++
						} else {
							other++
						}
					default:
						other++
					}
				}
				if kindA > 0 && other == 0 {
					for _, obs := range nodes {
						if !obs.running {
							continue
						}
						for _, m := range obs.n.Serf.Members() {
							if m.Status != serf.StatusLeaving {
								continue
							}
							for _, sub := range nodes {
								if sub.name == m.Name && sub.running {
									own, _ := sub.n.Serf.VerifStatusLTime(sub.name)
									held, _ := obs.n.Serf.VerifStatusLTime(sub.name)
									if held < own {
										other++ // the subject did refute: not the known shape
									}
								}
							}
						}
					}
				}
				onlyLeaving := other == 0 && kindA > 0 && kindB == 0
				tombstone := other == 0 && kindB > 0
				switch {
				case tombstone:
					sig = "rejoined-then-crashed-member-settled-left"
				case onlyLeaving:
					// the C02 finding F1 in the wild: a leave claim about a member that is
					// running again which that member never refuted
					sig = "running-member-stuck-leaving"
				case strings.Contains(bad[0], "gracefully departed"):
					sig = "left-member-not-left"
				case strings.Contains(bad[0], "crashed"):
					sig = "crashed-member-not-failed"
				case strings.Contains(bad[0], "running"):
					sig = "running-member-not-alive"
				}
				x.Violationf(sig, "after healing, the views were wrong and unchanged for %v (no starvation): %v; views: %s", unchanged.Round(time.Millisecond), bad, v)
				if os.Getenv("VERIF_C01_DEBUG") != "" {
					for _, cn := range nodes {
						if cn.n != nil {
							fmt.Fprintf(os.Stderr, "===== log of %s (running=%v)\n%s\n", cn.name, cn.running, cn.n.Log.String())
						}
					}
				}
				return
			}
			if time.Since(begin) > 25*time.Second {
				// healed and quiet for 25 s, never once correct, and the scheduler was
				// never starved in that time: the views do not settle at all
				if starvedRecently.IsZero() && everOK.IsZero() {
					sig := "views-never-settle"
					x.Violationf(sig, "25 s after healing (no starvation) the views have never been right and keep changing: %v; views now: %s", bad, v)
					return
				}
				x.Inconclusive("still-changing-or-starved")
				return
			}
		}
		time.Sleep(20 * time.Millisecond)
	}
	x.Labelf("n=%d", c.N)
	x.Labelf("constrained-departed=%d", min(constrained, 3))
	x.Labelf("converged-in<=%dms", (time.Since(begin).Milliseconds()/500+1)*500)
	x.NonTrivial(faultOverlapsDeparture && constrained >= 1)
}

func TestC01(t *testing.T) { vkit.Run(t, "C01", genC01, bodyC01) }
