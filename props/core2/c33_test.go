//go:build verif

package core2

import (
	"bytes"
	"fmt"
	"net"
	"strings"
	"testing"
	"time"

	"github.com/hashicorp/go-msgpack/v2/codec"
	"github.com/hashicorp/serf/serf"
	"pgregory.net/rapid"

	"verif/internal/node"
	"verif/internal/simnet"
	"verif/internal/vkit"
)

// C33 — nothing larger than the configured limits is ever sent.
//
// One quiet node per case with generated UserEventSizeLimit / QuerySizeLimit /
// QueryResponseSizeLimit.  A case is a list of operations (UserEvent, Query,
// Respond) whose sizes are aimed at the boundaries (raw size vs limit, encoded
// size vs limit, the 9 KB cap, msgpack header breakpoints).  After every
// operation the check reads what was really queued / put on the transport.

const c33HardLimit = 9 * 1024

type c33Op struct {
	Kind    int  `json:"k"`  // 0 UserEvent, 1 Query, 2 Respond
	Mode    int  `json:"m"`  // 0 raw=limit+d, 1 encoded=limit+d, 2 raw=9216+d, 3 msgpack breakpoint+d, 4 small, 5 relay-encoded=limit+d (Respond)
	Delta   int  `json:"d"`  // -3..3
	NameLen int  `json:"n"`  // length of the name part
	Size    int  `json:"s"`  // breakpoint selector (mode 3) / size (mode 4)
	CC      bool `json:"cc"` // coalesce flag of the user event
	FNodes  int  `json:"fn"` // node filter entries (Query)
	FTags   int  `json:"ft"` // tag filters (Query)
	Relay   int  `json:"r"`  // relay factor
	Ack     bool `json:"ack"`
}

type c33Case struct {
	UELimit    int     `json:"ue_limit"`
	QLimit     int     `json:"q_limit"`
	RLimit     int     `json:"r_limit"`
	CreateOver int     `json:"create_over"` // >0: first try Create with limit 9216+CreateOver
	Members    int     `json:"members"`     // extra fake alive members (relay targets)
	// Raise > 0: the node is created with UELimit, then the application raises
	// Config.UserEventSizeLimit (the configuration is shared by pointer) to
	// 9216+Raise.  Create's validation no longer protects the hard cap: the
	// 9 KB limit itself has to hold in UserEvent.
	Raise int     `json:"raise,omitempty"`
	Ops   []c33Op `json:"ops"`
	// ClockBase > 0: before the operations the node witnesses a foreign user
	// event and a foreign query at this Lamport time: the time field of what it
	// sends afterwards takes 2, 3, 5 or 9 bytes on the wire instead of 1
	ClockBase uint64 `json:"clock_base,omitempty"`
}

var c33Breakpoints = []int{31, 32, 255, 256, 65535, 65536}

func genC33(t *rapid.T) c33Case {
	var c c33Case
	c.UELimit = rapid.OneOf(rapid.IntRange(1, 64), rapid.IntRange(450, 600), rapid.Just(c33HardLimit),
		rapid.IntRange(c33HardLimit-60, c33HardLimit), rapid.IntRange(1, c33HardLimit)).Draw(t, "ue_limit")
	lim := rapid.OneOf(rapid.IntRange(16, 200), rapid.IntRange(16, 4096), rapid.Just(1024), rapid.IntRange(100, 400))
	c.QLimit = lim.Draw(t, "q_limit")
	c.RLimit = lim.Draw(t, "r_limit")
	if rapid.IntRange(0, 9).Draw(t, "over?") == 0 {
		c.CreateOver = rapid.IntRange(1, 5000).Draw(t, "create_over")
	}
	c.Members = rapid.IntRange(0, 4).Draw(t, "members")
	if rapid.IntRange(0, 5).Draw(t, "raise?") == 0 {
		c.Raise = rapid.SampledFrom([]int{1, 2, 3, 100, 5000, 60000}).Draw(t, "raise")
	}
	c.ClockBase = rapid.SampledFrom([]uint64{0, 0, 126, 200, 254, 70000, 1 << 33, 1 << 62}).Draw(t, "clock_base")
	n := rapid.IntRange(1, 8).Draw(t, "nops")
	for i := 0; i < n; i++ {
		op := c33Op{Kind: rapid.SampledFrom([]int{0, 0, 0, 1, 1, 2, 2}).Draw(t, "kind")}
		if c.Raise > 0 && i < 3 {
			op.Kind = 0
		}
		switch op.Kind {
		case 0:
			op.Mode = rapid.SampledFrom([]int{0, 0, 1, 1, 1, 2, 3, 4}).Draw(t, "mode")
			if c.Raise > 0 {
				op.Mode = rapid.SampledFrom([]int{0, 1, 1, 2, 2, 2}).Draw(t, "mode-raised")
			}
		case 1:
			op.Mode = rapid.SampledFrom([]int{1, 1, 1, 3, 4}).Draw(t, "mode")
		case 2:
			op.Mode = rapid.SampledFrom([]int{1, 1, 5, 5, 3, 4}).Draw(t, "mode")
		}
		op.Delta = rapid.IntRange(-3, 3).Draw(t, "delta")
		op.NameLen = rapid.OneOf(rapid.IntRange(0, 8), rapid.IntRange(0, 40), rapid.SampledFrom([]int{31, 32, 255, 256})).Draw(t, "namelen")
		op.Size = rapid.IntRange(0, 300).Draw(t, "size")
		op.CC = rapid.Bool().Draw(t, "cc")
		op.FNodes = rapid.IntRange(0, 3).Draw(t, "fnodes")
		op.FTags = rapid.IntRange(0, 2).Draw(t, "ftags")
		op.Relay = rapid.SampledFrom([]int{0, 0, 1, 2, 3}).Draw(t, "relay")
		op.Ack = rapid.Bool().Draw(t, "ack")
		c.Ops = append(c.Ops, op)
	}
	return c
}

// splitRelay decodes the header of a relay message and returns the wrapped
// message (the same way the delegate unwraps it).
func splitRelay(buf []byte) (serf.VerifRelayHeader, []byte, error) {
	var hdr serf.VerifRelayHeader
	if len(buf) < 1 || buf[0] != serf.VerifMessageRelayType {
		return hdr, nil, fmt.Errorf("not a relay message")
	}
	var h codec.MsgpackHandle
	r := bytes.NewReader(buf[1:])
	if err := codec.NewDecoder(r, &h).Decode(&hdr); err != nil {
		return hdr, nil, err
	}
	inner := make([]byte, r.Len())
	_, _ = r.Read(inner)
	return hdr, inner, nil
}

func near(a, b int) bool { d := a - b; return d >= -3 && d <= 3 }

// c33PushPullEvents counts the events with this name and payload in the state
// the node would hand to a peer in a push/pull exchange.
func c33PushPullEvents(n *node.Node, name string, payload []byte) int {
	buf := n.Delegate.LocalState(false)
	var pp serf.VerifMessagePushPull
	if len(buf) < 1 || buf[0] != serf.VerifMessagePushPullType || serf.VerifDecodeMessage(buf[1:], &pp) != nil {
		return -1
	}
	k := 0
	for _, slot := range pp.Events {
		if slot == nil {
			continue
		}
		for _, e := range slot.Events {
			if e.Name == name && bytes.Equal(e.Payload, payload) {
				k++
			}
		}
	}
	return k
}

func bodyC33(c c33Case, x *vkit.Ctx) {
	nw := simnet.New(1)
	const self = "c33-self"
	mutate := func(conf *serf.Config) {
		conf.UserEventSizeLimit = c.UELimit
		conf.QuerySizeLimit = c.QLimit
		conf.QueryResponseSizeLimit = c.RLimit
	}
	if c.CreateOver > 0 {
		bad, err := node.New(nw, node.Opts{Name: "c33-over", Quiet: true, Mutate: func(conf *serf.Config) {
			mutate(conf)
			conf.UserEventSizeLimit = c33HardLimit + c.CreateOver
		}})
		x.Label("create-over-9k")
		if err == nil {
			bad.Stop()
			x.Violationf("create-accepts-limit-over-9k", "Create accepted UserEventSizeLimit=%d (> %d)", c33HardLimit+c.CreateOver, c33HardLimit)
			return
		}
	}
	n := mkNode(x, nw, node.Opts{Name: self, Quiet: true, Tags: map[string]string{"role": "web", "dc": "east"}, Mutate: mutate})
	if n == nil {
		return
	}
	defer n.Stop()
	for i := 0; i < c.Members; i++ {
		n.EventsD.NotifyJoin(node.MLNode(fmt.Sprintf("peer%d", i), fmt.Sprintf("10.0.0.%d", i+1), 7946, nil, 5, 5))
	}
	if c.ClockBase > 0 {
		n.Delegate.NotifyMsg(mustEncode(serf.VerifMessageUserEventType, &serf.VerifMessageUserEvent{LTime: serf.LamportTime(c.ClockBase), Name: "c33-clock"}))
		n.Delegate.NotifyMsg(mustEncode(serf.VerifMessageQueryType, foreignQuery(c.ClockBase, 0x7ffe0000, "c33-clock", nil)))
		if _, ok := waitUserEvent(n, "c33-clock", 5*time.Second); !ok {
			x.Inconclusive("the clock-raising event did not arrive")
			return
		}
		n.Drain(node.Settle)
		x.Labelf("clock-base-bytes=%d", len(mustEncode(0, c.ClockBase))-1)
	}
	cfgLimit := c.UELimit
	if c.Raise > 0 {
		cfgLimit = c33HardLimit + min(c.Raise, 1<<24)
		n.Conf.UserEventSizeLimit = cfgLimit
		x.Label("limit-raised-after-create")
	}
	ueLimit := min(cfgLimit, c33HardLimit)
	nontrivial := false
	barrier := 0

	for oi, op := range c.Ops {
		barrier++
		switch op.Kind {
		case 0: // ---------------------------------------------------- UserEvent
			_, evClock, _ := n.Serf.VerifClocks()
			nameLen := op.NameLen
			encLen := func(nl, pl int) int {
				return len(mustEncode(serf.VerifMessageUserEventType, &serf.VerifMessageUserEvent{
					LTime: evClock, Name: strings.Repeat("n", nl), Payload: fillBytes(pl, oi), CC: op.CC}))
			}
			var total int
			switch op.Mode {
			case 0:
				total = cfgLimit + op.Delta
			case 2:
				total = c33HardLimit + op.Delta
			case 3:
				total = c33Breakpoints[op.Size%len(c33Breakpoints)] + op.Delta
			case 4:
				total = op.Size
			default: // 1: aim the encoded size at the limit
				if nameLen > ueLimit {
					nameLen = ueLimit
				}
				total = nameLen + fitLen(ueLimit+op.Delta, func(p int) int { return encLen(nameLen, p) })
			}
			if total < 0 {
				total = 0
			}
			if nameLen > total {
				nameLen = total
			}
			name := strings.Repeat("n", nameLen)
			payload := fillBytes(total-nameLen, oi)
			probe := encLen(nameLen, len(payload))
			if total > 1<<21 {
				total = 1 << 21
			}
			if near(total, cfgLimit) || near(probe, cfgLimit) || near(total, c33HardLimit) || near(probe, c33HardLimit) {
				nontrivial = true
				x.Label("ue-within-3-of-a-limit")
			}

			_, _, qBefore := n.Serf.VerifQueued()
			ppBefore := c33PushPullEvents(n, name, payload)
			err := n.Serf.UserEvent(name, payload, op.CC)
			// barrier: a foreign event injected now arrives after anything the call delivered
			bname := fmt.Sprintf("\x00bar%d", barrier)
			_, evNow, _ := n.Serf.VerifClocks()
			bbuf := mustEncode(serf.VerifMessageUserEventType, &serf.VerifMessageUserEvent{LTime: evNow, Name: bname})
			n.Delegate.NotifyMsg(bbuf)
			before, ok := waitUserEvent(n, bname, 5*time.Second)
			if !ok {
				x.Inconclusive("barrier event not delivered")
				return
			}
			_, _, qAfter := n.Serf.VerifQueued()
			var fresh [][]byte
			for _, e := range newEntries(qBefore, qAfter) {
				if !bytes.Equal(e, bbuf) {
					fresh = append(fresh, e)
				}
			}
			var delivered []serf.UserEvent
			for _, e := range before {
				if u, ok := e.(serf.UserEvent); ok {
					delivered = append(delivered, u)
				}
			}
			if err == nil {
				x.Label("ue-accepted")
				if total > ueLimit {
					x.Violationf("accepted-raw-over-limit", "op %d: UserEvent accepted name+payload=%d bytes, configured limit %d (hard %d)", oi, total, cfgLimit, c33HardLimit)
					return
				}
				for _, e := range fresh {
					if len(e) > ueLimit {
						x.Violationf("accepted-encoded-over-limit", "op %d: UserEvent (name+payload=%d) accepted and queued with %d encoded bytes, configured limit %d (hard %d)", oi, total, len(e), cfgLimit, c33HardLimit)
						return
					}
				}
			} else {
				x.Label("ue-rejected")
				if len(fresh) > 0 {
					x.Violationf("rejected-but-broadcast", "op %d: UserEvent returned %q but %d new entries are queued for broadcast", oi, err, len(fresh))
					return
				}
				if len(delivered) > 0 {
					x.Violationf("rejected-but-delivered", "op %d: UserEvent returned %q but the event (%d bytes name+payload) was delivered locally", oi, err, total)
					return
				}
				// the other way an event leaves a node: the recent-event buffer a
				// push/pull state exchange hands to a peer
				if ppAfter := c33PushPullEvents(n, name, payload); ppAfter > ppBefore {
					x.Violationf("rejected-but-offered-in-push-pull", "op %d: UserEvent returned %q but the event (%d bytes name+payload) is in the state the node hands to a peer in a push/pull exchange", oi, err, total)
					return
				}
			}

		case 1: // -------------------------------------------------------- Query
			_, _, qClock := n.Serf.VerifClocks()
			params := func() *serf.QueryParam {
				p := &serf.QueryParam{RequestAck: op.Ack, RelayFactor: uint8(op.Relay), Timeout: 200 * time.Millisecond}
				if op.FNodes > 0 {
					p.FilterNodes = []string{self}
					for i := 1; i < op.FNodes; i++ {
						p.FilterNodes = append(p.FilterNodes, fmt.Sprintf("other-node-%d", i))
					}
				}
				if op.FTags > 0 {
					p.FilterTags = map[string]string{"role": "w.b"}
					if op.FTags > 1 {
						p.FilterTags["dc"] = "^ea"
					}
				}
				return p
			}
			nameLen := op.NameLen
			// (one query in two carries the prefix of serf's own queries in its name:
			// the limit is a limit on what is sent, whatever it is called)
			internalName := op.CC
			if internalName {
				nameLen = max(nameLen, len(serf.InternalQueryPrefix)+1)
			}
			local := n.Serf.Memberlist().LocalNode()
			encLen := func(nl, pl int) int {
				p := params()
				var filters [][]byte
				if len(p.FilterNodes) > 0 {
					f, _ := serf.VerifEncodeFilter(serf.VerifFilterNodeType, p.FilterNodes)
					filters = append(filters, f)
				}
				for tag, expr := range p.FilterTags {
					f, _ := serf.VerifEncodeFilter(serf.VerifFilterTagType, &serf.VerifFilterTag{Tag: tag, Expr: expr})
					filters = append(filters, f)
				}
				var flags uint32
				if op.Ack {
					flags = serf.VerifQueryFlagAck
				}
				return len(mustEncode(serf.VerifMessageQueryType, &serf.VerifMessageQuery{
					LTime: qClock, ID: 1 << 30, Addr: local.Addr, Port: local.Port, SourceNode: local.Name, Filters: filters,
					Flags: flags, RelayFactor: uint8(op.Relay), Timeout: p.Timeout, Name: strings.Repeat("q", nl), Payload: fillBytes(pl, oi)}))
			}
			var plen int
			switch op.Mode {
			case 3:
				plen = max(0, c33Breakpoints[op.Size%len(c33Breakpoints)]+op.Delta)
				if plen > 70000 {
					plen = 70000
				}
			case 4:
				plen = op.Size
			default:
				plen = fitLen(c.QLimit+op.Delta, func(p int) int { return encLen(nameLen, p) })
			}
			name := strings.Repeat("q", nameLen)
			if internalName {
				name = serf.InternalQueryPrefix + strings.Repeat("q", nameLen-len(serf.InternalQueryPrefix))
				x.Label("query-with-internal-prefix")
			}
			payload := fillBytes(plen, oi)
			if near(encLen(nameLen, plen), c.QLimit) {
				nontrivial = true
				x.Label("query-within-3-of-limit")
			}
			_, qBefore, _ := n.Serf.VerifQueued()
			_, err := n.Serf.Query(name, payload, params())
			_, qAfter, _ := n.Serf.VerifQueued()
			fresh := newEntries(qBefore, qAfter)
			if err == nil {
				x.Label("query-accepted")
			} else {
				x.Label("query-rejected")
			}
			for _, e := range fresh {
				if len(e) > c.QLimit {
					x.Violationf("query-over-limit-sent", "op %d: Query (err=%v) queued %d encoded bytes, QuerySizeLimit %d", oi, err, len(e), c.QLimit)
					return
				}
			}
			if err != nil && len(fresh) > 0 {
				x.Violationf("rejected-query-broadcast", "op %d: Query returned %q but %d new entries are queued", oi, err, len(fresh))
				return
			}

		case 2: // ------------------------------------------------------ Respond
			_, _, qClock := n.Serf.VerifClocks()
			qname := fmt.Sprintf("ask%d", barrier)
			fq := foreignQuery(uint64(qClock), uint32(0x7fff0000+barrier), qname, []byte("?"))
			fq.RelayFactor = uint8(op.Relay)
			n.Delegate.NotifyMsg(mustEncode(serf.VerifMessageQueryType, fq))
			q, _, ok := waitQuery(n, qname, 5*time.Second)
			if !ok {
				x.Inconclusive("injected query not delivered")
				return
			}
			originAddr := net.UDPAddr{IP: net.ParseIP(originIP), Port: originPort}
			direct := func(pl int) int {
				return len(mustEncode(serf.VerifMessageQueryResponseType, &serf.VerifMessageQueryResponse{
					LTime: fq.LTime, ID: fq.ID, From: self, Payload: fillBytes(pl, oi)}))
			}
			relayed := func(pl int) int {
				r := &serf.VerifMessageQueryResponse{LTime: fq.LTime, ID: fq.ID, From: self, Payload: fillBytes(pl, oi)}
				b, _ := serf.VerifEncodeRelayMessage(serf.VerifMessageQueryResponseType, originAddr, originName, &r)
				return len(b)
			}
			var plen int
			switch op.Mode {
			case 3:
				plen = max(0, c33Breakpoints[op.Size%4]+op.Delta)
			case 4:
				plen = op.Size
			case 5:
				plen = fitLen(c.RLimit+op.Delta, relayed)
			default:
				plen = fitLen(c.RLimit+op.Delta, direct)
			}
			if near(direct(plen), c.RLimit) || (op.Relay > 0 && c.Members >= op.Relay && near(relayed(plen), c.RLimit)) {
				nontrivial = true
				x.Label("response-within-3-of-limit")
			}
			nw.Packets()
			err := q.Respond(fillBytes(plen, oi))
			pk := node.UserMsgs(nw.Packets())
			if err == nil {
				x.Label("respond-ok")
			} else {
				x.Label("respond-error")
			}
			nrelay := 0
			for _, p := range pk {
				if len(p.Buf) == 0 {
					continue
				}
				switch p.Buf[0] {
				case serf.VerifMessageQueryResponseType:
					var r serf.VerifMessageQueryResponse
					if serf.VerifDecodeMessage(p.Buf[1:], &r) == nil && r.Flags&serf.VerifQueryFlagAck != 0 {
						continue
					}
					if len(p.Buf) > c.RLimit {
						x.Violationf("response-over-limit-sent", "op %d: response packet of %d bytes sent to %s, QueryResponseSizeLimit %d (Respond err=%v)", oi, len(p.Buf), p.To, c.RLimit, err)
						return
					}
				case serf.VerifMessageRelayType:
					_, inner, derr := splitRelay(p.Buf)
					if derr == nil && len(inner) > 1 {
						var r serf.VerifMessageQueryResponse
						if serf.VerifDecodeMessage(inner[1:], &r) == nil && r.Flags&serf.VerifQueryFlagAck != 0 {
							continue
						}
					}
					nrelay++
					if len(p.Buf) > c.RLimit {
						x.Violationf("relayed-response-over-limit-sent", "op %d: relayed response packet of %d bytes sent to %s, QueryResponseSizeLimit %d (Respond err=%v)", oi, len(p.Buf), p.To, c.RLimit, err)
						return
					}
				}
			}
			if nrelay > 0 {
				x.Label("respond-relayed")
			}
		}
	}
	x.NonTrivial(nontrivial)
}

func TestC33(t *testing.T) { vkit.Run(t, "C33", genC33, bodyC33) }
