//go:build verif

package core2

import (
	"bytes"
	"fmt"
	"io"
	"net"
	"runtime"
	"sort"
	"sync"
	"sync/atomic"
	"testing"
	"time"

	"github.com/hashicorp/go-msgpack/v2/codec"
	"github.com/hashicorp/serf/serf"
	"pgregory.net/rapid"

	"verif/internal/node"
	"verif/internal/simnet"
	"verif/internal/vkit"
)

// C07 — query replies are routed to their query exactly once and never after
// close.
//
// One node on a loopback transport issues 1-3 queries (sequentially or from
// concurrent goroutines) with timeouts of 5-60 ms.  A generated script of
// replies is injected through the memberlist delegate: acks and responses from
// up to 4 fake responders, with matching / foreign ids and times, exact
// duplicates, relay-wrapped copies (unwrapped and re-sent by the node itself),
// early, in a burst across the deadline, and after the streams closed.  Both
// result streams of every query are read to closure by reader goroutines.
// A send on a closed stream or a second close panics: the process exit is part
// of the oracle (crash_oracle).
//
// Replies injected after a query's deadline (QueryResponse.Deadline(), itself
// checked against call time + timeout) must never show up on its streams,
// whether or not the close timer has fired yet.  In some cases the metrics
// sink is slow for the reply counters during the bursts across the deadline:
// a reply that passed the "finished?" test just before the deadline then
// reaches the stream after it was closed.

type c07Query struct {
	Ack       bool `json:"ack"`
	TimeoutMs int  `json:"timeout_ms"`
}

type c07Reply struct {
	Target int  `json:"target"` // query index (mod number of queries)
	Ack    bool `json:"ack"`    // ack or response
	From   int  `json:"from"`   // responder 0..3; 4 = the node's own name, 5 = the empty name
	IDMode int  `json:"idmode"` // 0 this query's (LTime,id); 1 wrong id; 2 wrong LTime; 3 this LTime with another query's id; 4 another query's LTime with this id
	Wrong  int  `json:"wrong,omitempty"` // which wrong value (idmode 1, 2): boundary values included, see wrongID / wrongLTime
	Relay  bool `json:"relay"`  // wrapped in a relay envelope addressed to the node itself
	Copies int  `json:"copies"` // exact duplicates injected back to back (phase 0/2); burst length/8 in phase 1
	Phase  int  `json:"phase"`  // 0 right away, 1 burst of distinct senders across the deadline, 2 after the streams closed
}

type c07Case struct {
	Queries    []c07Query `json:"queries"`
	Concurrent bool       `json:"concurrent"`
	Replies    []c07Reply `json:"replies"`
	// SlowSinkUs > 0: during the bursts across a deadline the metrics sink takes
	// this long for the counters serf bumps between its "query finished?" test
	// and the hand-over to the stream
	SlowSinkUs int `json:"slow_sink_us,omitempty"`
	// Streams: duplicates of a phase-0 reply arrive concurrently, one as a
	// packet and the others as user messages on memberlist stream connections
	// of their own. memberlist hands every stream connection to a goroutine of
	// its own (net.go: handleConn -> readUserMsg -> Delegate.NotifyMsg), so
	// replies that arrive that way are handled concurrently with each other
	// and with the packet handler; serf's own senders use packets, any other
	// speaker of the memberlist protocol may use streams.
	Streams bool `json:"streams,omitempty"`
}

func genC07(t *rapid.T) c07Case {
	var c c07Case
	nq := rapid.IntRange(1, 3).Draw(t, "nq")
	for i := 0; i < nq; i++ {
		c.Queries = append(c.Queries, c07Query{Ack: rapid.Bool().Draw(t, "ack"), TimeoutMs: rapid.IntRange(5, 60).Draw(t, "timeout")})
	}
	c.Concurrent = nq > 1 && rapid.Bool().Draw(t, "concurrent")
	nr := rapid.IntRange(1, 14).Draw(t, "nr")
	for i := 0; i < nr; i++ {
		c.Replies = append(c.Replies, c07Reply{
			Target: rapid.IntRange(0, nq-1).Draw(t, "target"),
			Ack:    rapid.Bool().Draw(t, "isack"),
			From:   rapid.SampledFrom([]int{0, 1, 2, 3, 0, 1, 2, 3, 4, 5}).Draw(t, "from"),
			IDMode: rapid.SampledFrom([]int{0, 0, 0, 0, 1, 1, 2, 3, 4}).Draw(t, "idmode"),
			Wrong:  rapid.IntRange(0, 7).Draw(t, "wrong"),
			Relay:  rapid.IntRange(0, 3).Draw(t, "relay") == 0,
			Copies: rapid.SampledFrom([]int{1, 1, 2, 2, 3}).Draw(t, "copies"),
			Phase:  rapid.SampledFrom([]int{0, 0, 0, 0, 1, 2, 2}).Draw(t, "phase"),
		})
	}
	// motif: one sender talks to one query several times in a row, acks and
	// responses alternating (what a relayed duplicate of each looks like on the
	// wire); per-sender bookkeeping of the two kinds must not disturb each other
	if rapid.IntRange(0, 2).Draw(t, "motif?") == 0 {
		tq := rapid.IntRange(0, nq-1).Draw(t, "motif-target")
		from := rapid.IntRange(0, 5).Draw(t, "motif-from")
		if rapid.IntRange(0, 3).Draw(t, "motif-ackq") > 0 {
			c.Queries[tq].Ack = true
		}
		pattern := rapid.SampledFrom([][]bool{{true, false, true}, {false, true, false}, {true, true, false, false, true}, {false, false, true, false}, {true, false, false, true}}).Draw(t, "motif-pattern")
		var motif []c07Reply
		for _, isAck := range pattern {
			motif = append(motif, c07Reply{Target: tq, Ack: isAck, From: from, Relay: rapid.IntRange(0, 3).Draw(t, "motif-relay") == 0, Copies: 1})
		}
		at := rapid.IntRange(0, len(c.Replies)).Draw(t, "motif-at")
		c.Replies = append(c.Replies[:at:at], append(motif, c.Replies[at:]...)...)
		nr = len(c.Replies)
	}
	if rapid.IntRange(0, 3).Draw(t, "streams?") == 0 {
		c.Streams = true
		// such a case has duplicates that arrive right away, for sure
		k := rapid.IntRange(0, nr-1).Draw(t, "streams-dup")
		c.Replies[k].Phase, c.Replies[k].IDMode = 0, 0
		c.Replies[k].Copies = rapid.IntRange(2, 3).Draw(t, "streams-copies")
	}
	if rapid.IntRange(0, 2).Draw(t, "slow-sink?") == 0 {
		c.SlowSinkUs = rapid.SampledFrom([]int{100, 300}).Draw(t, "slow-sink")
		// such a case gets a burst for sure
		c.Replies[rapid.IntRange(0, nr-1).Draw(t, "slow-sink-burst")].Phase = 1
	}
	return c
}

// wrongID returns an id different from the query's, biased to the values a
// special case in the comparison would single out (0, 1, neighbours, bit flips).
func wrongID(id uint32, which int) uint32 {
	cands := []uint32{id ^ 0x2A5A5A5, 0, 1, id + 1, id - 1, ^id, id ^ 0x80000000, 0xFFFFFFFF}
	for k := 0; k < len(cands); k++ {
		if c := cands[(which+k)%len(cands)]; c != id {
			return c
		}
	}
	return id + 2
}

// wrongLTime returns a Lamport time different from the query's.
func wrongLTime(lt serf.LamportTime, which int) serf.LamportTime {
	cands := []serf.LamportTime{lt + 7, 0, lt + 1, lt - 1, lt + 1<<32, lt ^ (1 << 63), 1<<64 - 2, lt + 512}
	for k := 0; k < len(cands); k++ {
		if c := cands[(which+k)%len(cands)]; c != lt {
			return c
		}
	}
	return lt + 2
}

type c07Obs struct {
	mu         sync.Mutex
	acks       []string
	resps      []serf.NodeResponse
	ackClosed  time.Time
	respClosed time.Time
}

func bodyC07(c c07Case, x *vkit.Ctx) {
	if len(c.Queries) == 0 {
		return
	}
	nw := simnet.New(1)
	nw.Loopback = true
	const self = "c07-self"
	n := mkNode(x, nw, node.Opts{Name: self, Quiet: true})
	if n == nil {
		return
	}
	defer n.Stop()
	nq := len(c.Queries)
	mon := vkit.StartMonitor()
	defer mon.Stop()

	// ---- issue the queries
	resps := make([]*serf.QueryResponse, nq)
	errs := make([]error, nq)
	t0 := make([]time.Time, nq)
	tEnd := make([]time.Time, nq)
	timeouts := make([]time.Duration, nq)
	issue := func(i int) {
		q := c.Queries[i]
		timeouts[i] = time.Duration(min(max(q.TimeoutMs, 1), 500)) * time.Millisecond
		t0[i] = time.Now()
		resps[i], errs[i] = n.Serf.Query(fmt.Sprintf("c07-q%d", i), []byte{byte(i)}, &serf.QueryParam{RequestAck: q.Ack, Timeout: timeouts[i]})
		tEnd[i] = time.Now()
	}
	if c.Concurrent {
		var wg sync.WaitGroup
		start := make(chan struct{})
		for i := 0; i < nq; i++ {
			wg.Add(1)
			go func(i int) { defer wg.Done(); <-start; issue(i) }(i)
		}
		close(start)
		wg.Wait()
		x.Label("concurrent-queries")
	} else {
		for i := 0; i < nq; i++ {
			issue(i)
		}
	}
	type qid struct {
		lt serf.LamportTime
		id uint32
	}
	ids := make([]qid, nq)
	for i := 0; i < nq; i++ {
		if errs[i] != nil {
			x.Inconclusive("Query failed: " + errs[i].Error())
			return
		}
		ids[i].lt, ids[i].id = resps[i].VerifID()
	}
	// the query's deadline is the time of the call plus the timeout (monotonic clock readings on both sides)
	deadlines := make([]time.Time, nq)
	for i := 0; i < nq; i++ {
		deadlines[i] = resps[i].Deadline()
		if deadlines[i].Before(t0[i].Add(timeouts[i])) || deadlines[i].After(tEnd[i].Add(timeouts[i])) {
			x.Violationf("deadline-not-call-time-plus-timeout", "query %d: Deadline() is %v after the call began and %v after it returned, timeout %v", i, deadlines[i].Sub(t0[i]), deadlines[i].Sub(tEnd[i]), timeouts[i])
			return
		}
	}
	for i := 0; i < nq; i++ {
		for j := i + 1; j < nq; j++ {
			if ids[i].lt == ids[j].lt {
				x.Label("queries-share-ltime")
			}
		}
	}

	// ---- readers: drain both streams of every query until closed
	obs := make([]*c07Obs, nq)
	var readers sync.WaitGroup
	for i := 0; i < nq; i++ {
		o := &c07Obs{}
		obs[i] = o
		if (resps[i].AckCh() != nil) != c.Queries[i].Ack {
			x.Violationf("ack-stream-presence", "query %d: RequestAck=%v but AckCh()!=nil is %v", i, c.Queries[i].Ack, resps[i].AckCh() != nil)
			return
		}
		if ch := resps[i].AckCh(); ch != nil {
			readers.Add(1)
			go func() {
				defer readers.Done()
				for a := range ch {
					o.mu.Lock()
					o.acks = append(o.acks, a)
					o.mu.Unlock()
				}
				o.mu.Lock()
				o.ackClosed = time.Now()
				o.mu.Unlock()
			}()
		}
		readers.Add(1)
		go func(ch <-chan serf.NodeResponse) {
			defer readers.Done()
			for r := range ch {
				o.mu.Lock()
				o.resps = append(o.resps, r)
				o.mu.Unlock()
			}
			o.mu.Lock()
			o.respClosed = time.Now()
			o.mu.Unlock()
		}(resps[i].ResponseCh())
	}

	// ---- the reply script
	type sent struct {
		lt      serf.LamportTime
		id      uint32
		ack     bool
		from    string
		payload string
		at      time.Time // taken before the (first) injection
	}
	fromName := func(f int) string {
		switch f % 6 {
		case 4:
			return self
		case 5:
			return ""
		}
		return fmt.Sprintf("r%d", f%6)
	}
	var sentLog []sent
	selfAddr := net.UDPAddr{IP: net.IP(n.Serf.Memberlist().LocalNode().Addr), Port: int(n.Serf.Memberlist().LocalNode().Port)}
	// Every reply reaches the node the way a packet does: through its transport and
	// memberlist's single packet-handling goroutine.  That serialises the script with
	// the node's own loopback ack and with the copies it unwraps from relay envelopes
	// and sends to itself, exactly as in production (a direct NotifyMsg call from this
	// goroutine would run concurrently with those and manufacture a race memberlist
	// never produces).  A panic in the handling (send on a closed stream, second
	// close) therefore kills the process: crash oracle.
	deliver := func(serfMsg []byte) {
		n.Tr.Inject(originIP+fmt.Sprint(":", originPort), append([]byte{8}, serfMsg...)) // 8 = memberlist's user-message type
	}
	streamsUsed, streamFail := 0, ""
	markers := 0
	drained := func() bool {
		// two rounds: whatever the first round's predecessors made the node send to itself is behind the first marker
		for round := 0; round < 2; round++ {
			markers++
			name := fmt.Sprintf("c07-marker-%d", markers)
			_, evClock, _ := n.Serf.VerifClocks()
			deliver(mustEncode(serf.VerifMessageUserEventType, &serf.VerifMessageUserEvent{LTime: evClock, Name: name}))
			if _, ok := waitUserEvent(n, name, 10*time.Second); !ok {
				return false
			}
		}
		return true
	}
	inject := func(ri int, r c07Reply, from string, copies int) {
		tq := r.Target % nq
		other := (tq + 1) % nq
		lt, id := ids[tq].lt, ids[tq].id
		switch r.IDMode {
		case 1:
			id = wrongID(id, r.Wrong)
		case 2:
			lt = wrongLTime(lt, r.Wrong)
		case 3:
			if other != tq {
				id = ids[other].id
			} else {
				id++
			}
		case 4:
			if other != tq {
				lt = ids[other].lt
			} else {
				lt += 100
			}
		}
		m := &serf.VerifMessageQueryResponse{LTime: lt, ID: id, From: from}
		payload := ""
		if r.Ack {
			m.Flags = serf.VerifQueryFlagAck
		} else {
			payload = fmt.Sprintf("reply-%d-from-%s", ri, from)
			m.Payload = []byte(payload)
		}
		var buf []byte
		if r.Relay {
			var err error
			buf, err = serf.VerifEncodeRelayMessage(serf.VerifMessageQueryResponseType, selfAddr, self, &m)
			if err != nil {
				panic(err)
			}
		} else {
			buf = mustEncode(serf.VerifMessageQueryResponseType, m)
		}
		sentLog = append(sentLog, sent{lt, id, r.Ack, from, payload, time.Now()})
		if c.Streams && r.Phase == 0 && copies > 1 {
			// all copies at once: copy 0 as a packet, the others on stream
			// connections of their own; every goroutine of the node lingers after
			// releasing one of serf's mutexes (helpers_test.go: lockYield). A
			// stream handler closes its connection when it is done, which is how
			// the harness knows that the copy has been handled.
			streamsUsed++
			lockYield(1 + (ri+streamsUsed)%2)
			var ready atomic.Int32
			var wg sync.WaitGroup
			failed := make([]string, copies)
			for k := 0; k < copies; k++ {
				wg.Add(1)
				go func(k int) {
					defer wg.Done()
					var cn net.Conn
					if k > 0 {
						var err error
						if cn, err = n.Tr.InjectStream(originIP+fmt.Sprint(":", originPort), 2*time.Second); err != nil {
							failed[k] = "dial: " + err.Error()
							ready.Add(1)
							return
						}
						defer cn.Close()
					}
					ready.Add(1)
					for t0 := time.Now(); ready.Load() < int32(copies) && time.Since(t0) < 500*time.Microsecond; {
					}
					if k == 0 {
						deliver(buf)
						return
					}
					_ = cn.SetDeadline(time.Now().Add(5 * time.Second))
					if _, err := cn.Write(streamUserMsg(buf)); err != nil {
						failed[k] = "write: " + err.Error()
						return
					}
					if _, err := io.Copy(io.Discard, cn); err != nil {
						failed[k] = "wait for the handler: " + err.Error()
					}
				}(k)
			}
			wg.Wait()
			lockYield(0)
			for _, f := range failed {
				if f != "" && streamFail == "" {
					streamFail = f
				}
			}
			return
		}
		for k := 0; k < copies; k++ {
			deliver(buf)
			if r.Phase != 1 {
				// the streams have room for one item (one known member): let the node handle it and the readers take it
				runtime.Gosched()
				time.Sleep(50 * time.Microsecond)
			}
		}
	}
	hasDup, hasLate := false, false
	// phase 0
	for ri, r := range c.Replies {
		if r.Phase == 0 {
			inject(ri, r, fromName(r.From), max(1, min(r.Copies, 3)))
			if r.Copies > 1 {
				hasDup = true
			}
		}
	}
	if streamFail != "" {
		x.Inconclusive("stream delivery: " + streamFail)
		return
	}
	if streamsUsed > 0 {
		x.Label("duplicates-arrive-concurrently-over-streams")
	}
	// phase 1: bursts of distinct senders across each target's deadline, earliest deadline first
	var bursts []int
	for ri, r := range c.Replies {
		if r.Phase == 1 {
			bursts = append(bursts, ri)
		}
	}
	deadline := func(ri int) time.Time { tq := c.Replies[ri].Target % nq; return t0[tq].Add(timeouts[tq]) }
	sort.SliceStable(bursts, func(a, b int) bool { return deadline(bursts[a]).Before(deadline(bursts[b])) })
	for _, ri := range bursts {
		r := c.Replies[ri]
		dl := deadline(ri)
		if d := time.Until(dl) - 1500*time.Microsecond; d > 0 {
			time.Sleep(d)
		}
		for time.Until(dl) > 150*time.Microsecond { // sleep granularity is too coarse for the last stretch
			runtime.Gosched()
		}
		started := time.Now()
		sinkOff := func() {}
		if c.SlowSinkUs > 0 {
			sinkOff = slowMetrics(time.Duration(min(c.SlowSinkUs, 1000))*time.Microsecond, "query_acks", "query_responses")
			x.Label("slow-metrics-sink-during-burst")
		}
		for j := 0; j < 8*max(1, min(r.Copies, 3)) || (time.Now().Before(dl.Add(300*time.Microsecond)) && j < 600); j++ {
			inject(ri, r, fmt.Sprintf("b%d-%d", ri, j), 1)
		}
		sinkOff()
		if started.Before(dl) && time.Now().After(dl) {
			x.Label("burst-straddles-deadline")
			hasLate = true
		}
	}
	// wait for every stream to close
	closed := make(chan struct{})
	go func() { readers.Wait(); close(closed) }()
	var maxTO time.Duration
	for _, d := range timeouts {
		maxTO = max(maxTO, d)
	}
	select {
	case <-closed:
	case <-time.After(maxTO + 3*time.Second):
		if g := mon.MaxGap(); g > 50*time.Millisecond {
			x.Inconclusive("scheduler starvation while waiting for the streams to close")
			return
		}
		x.Violationf("streams-not-closed", "result streams still open %v after the longest timeout (%v)", 3*time.Second, maxTO)
		return
	}
	// phase 2: after close
	for ri, r := range c.Replies {
		if r.Phase == 2 {
			inject(ri, r, fromName(r.From), max(1, min(r.Copies, 3)))
			hasLate = true
			if r.Copies > 1 {
				hasDup = true
			}
		}
	}
	if !drained() { // everything injected (and everything unwrapped from relay envelopes) has been handled
		x.Inconclusive("the node did not work off the injected packets")
		return
	}

	// ---- oracle
	for i := 0; i < nq; i++ {
		o := obs[i]
		o.mu.Lock()
		acks, rs, ackClosed, respClosed := o.acks, o.resps, o.ackClosed, o.respClosed
		o.mu.Unlock()
		seenAck := map[string]bool{}
		for _, a := range acks {
			if seenAck[a] {
				x.Violationf("duplicate-ack", "query %d (LTime %d id %d): ack from %q delivered twice", i, ids[i].lt, ids[i].id, a)
				return
			}
			seenAck[a] = true
			if a == self { // the node acknowledges its own query over loopback
				continue
			}
			ok, intime := false, false
			for _, s := range sentLog {
				if s.ack && s.from == a && s.lt == ids[i].lt && s.id == ids[i].id {
					ok = true
					if !s.at.After(deadlines[i]) {
						intime = true
					}
				}
			}
			if ok && !intime {
				x.Violationf("ack-delivered-after-deadline", "query %d (LTime %d id %d, timeout %v): ack from %q delivered, but every such ack was injected after the query's deadline", i, ids[i].lt, ids[i].id, timeouts[i], a)
				return
			}
			if !ok {
				x.Violationf("foreign-ack-delivered", "query %d (LTime %d id %d): ack from %q delivered, but no ack with this query's time and id was sent by %q", i, ids[i].lt, ids[i].id, a, a)
				return
			}
		}
		seenResp := map[string]bool{}
		for _, r := range rs {
			if seenResp[r.From] {
				x.Violationf("duplicate-response", "query %d (LTime %d id %d): response from %q delivered twice", i, ids[i].lt, ids[i].id, r.From)
				return
			}
			seenResp[r.From] = true
			ok, intime := false, false
			for _, s := range sentLog {
				if !s.ack && s.from == r.From && s.payload == string(r.Payload) && s.lt == ids[i].lt && s.id == ids[i].id {
					ok = true
					if !s.at.After(deadlines[i]) {
						intime = true
					}
				}
			}
			if ok && !intime {
				x.Violationf("response-delivered-after-deadline", "query %d (LTime %d id %d, timeout %v): response %q from %q delivered, but every such reply was injected after the query's deadline", i, ids[i].lt, ids[i].id, timeouts[i], r.Payload, r.From)
				return
			}
			if !ok {
				x.Violationf("foreign-response-delivered", "query %d (LTime %d id %d): response %q from %q delivered, but that reply was not addressed to this query", i, ids[i].lt, ids[i].id, r.Payload, r.From)
				return
			}
		}
		x.Labelf("delivered-acks=%d", min(len(acks), 4))
		x.Labelf("delivered-responses=%d", min(len(rs), 4))
		if !resps[i].Finished() {
			x.Violationf("not-finished-after-close", "query %d: streams are closed but Finished() is false", i)
			return
		}
		for _, oq := range n.Serf.VerifOpenQueries() {
			if oq.LTime == ids[i].lt && oq.ID == ids[i].id {
				x.Violationf("closed-but-still-registered", "query %d (LTime %d id %d): streams are closed but the query is still registered for replies", i, ids[i].lt, ids[i].id)
				return
			}
		}
		// the streams close when the query times out, not before (monotonic clock; sound without a starvation guard)
		for _, ct := range []time.Time{ackClosed, respClosed} {
			if !ct.IsZero() && ct.Sub(t0[i]) < timeouts[i] {
				x.Violationf("closed-early", "query %d: a stream closed %v after the call began, timeout %v", i, ct.Sub(t0[i]), timeouts[i])
				return
			}
			// how much later is not judged: under machine load a single goroutine (the close
			// timer's, or the reader that notices the close) can be tens of milliseconds late
			// while the starvation monitor's ticker sees nothing, so a wall-clock bound would
			// raise false alarms; only the 3 s bound above applies
			if late := ct.Sub(tEnd[i].Add(timeouts[i])); !ct.IsZero() && late > 40*time.Millisecond {
				x.Label("close-observed-40ms-late")
			}
		}
	}
	if hasDup {
		x.Label("duplicate-in-script")
	}
	if hasLate {
		x.Label("reply-after-deadline")
	}
	x.NonTrivial(hasDup && hasLate)
}

func TestC07(t *testing.T) { vkit.Run(t, "C07", genC07, bodyC07) }

// streamUserMsg frames a user message the way memberlist's sendUserMsg does on
// a stream connection: the message type, the msgpack header with the length,
// the message.
func streamUserMsg(msg []byte) []byte {
	var hdr bytes.Buffer
	if err := codec.NewEncoder(&hdr, &codec.MsgpackHandle{}).Encode(struct{ UserMsgLen int }{len(msg)}); err != nil {
		panic(err)
	}
	return append(append([]byte{8}, hdr.Bytes()...), msg...)
}
