//go:build verif

package core2

import (
	"fmt"
	"net"
	"runtime"
	"sync"
	"sync/atomic"
	"time"

	armon "github.com/armon/go-metrics"
	"github.com/hashicorp/serf/serf"

	"verif/internal/node"
	"verif/internal/simnet"
	"verif/internal/vkit"
)

// Shared helpers of the core2 checks (C06-C08, C33-C36).

const (
	originIP   = "10.9.8.7"
	originPort = 4567
	originName = "origin"
)

// mustEncode encodes a serf message through the package's own codec.
func mustEncode(t uint8, msg any) []byte {
	b, err := serf.VerifEncodeMessage(t, msg, false)
	if err != nil {
		panic(fmt.Sprintf("core2: encode: %v", err))
	}
	return b
}

// foreignQuery builds a query message that claims to come from a node the
// harness invented (nothing listens at its address: replies are captured).
func foreignQuery(ltime uint64, id uint32, name string, payload []byte) *serf.VerifMessageQuery {
	return &serf.VerifMessageQuery{
		LTime:      serf.LamportTime(ltime),
		ID:         id,
		Addr:       net.ParseIP(originIP).To4(),
		Port:       originPort,
		SourceNode: originName,
		Timeout:    time.Second,
		Name:       name,
		Payload:    payload,
	}
}

// waitQuery waits until a *serf.Query with the given name shows up on the
// application channel and returns it together with every event that came
// before it. The event pipeline is FIFO (handle* -> internal-query stage ->
// application channel), so once a barrier query injected *after* some action
// has arrived, everything that action put into the pipeline has arrived too.
func waitQuery(n *node.Node, name string, timeout time.Duration) (*serf.Query, []serf.Event, bool) {
	var before []serf.Event
	deadline := time.After(timeout)
	for {
		select {
		case e := <-n.Events:
			if q, ok := e.(*serf.Query); ok && q.Name == name {
				return q, before, true
			}
			before = append(before, e)
		case <-deadline:
			return nil, before, false
		}
	}
}

// waitUserEvent is waitQuery for a user event barrier.
func waitUserEvent(n *node.Node, name string, timeout time.Duration) ([]serf.Event, bool) {
	var before []serf.Event
	deadline := time.After(timeout)
	for {
		select {
		case e := <-n.Events:
			if u, ok := e.(serf.UserEvent); ok && u.Name == name {
				return before, true
			}
			before = append(before, e)
		case <-deadline:
			return before, false
		}
	}
}

// newEntries returns the entries of after that are not in before (multiset
// difference by content).
func newEntries(before, after [][]byte) [][]byte {
	cnt := map[string]int{}
	for _, b := range before {
		cnt[string(b)]++
	}
	var out [][]byte
	for _, a := range after {
		if cnt[string(a)] > 0 {
			cnt[string(a)]--
			continue
		}
		out = append(out, a)
	}
	return out
}

// mkNode creates a node or marks the case inconclusive.
func mkNode(x *vkit.Ctx, nw *simnet.Network, o node.Opts) *node.Node {
	n, err := node.New(nw, o)
	if err != nil {
		x.Inconclusive("node setup failed: " + err.Error())
		return nil
	}
	return n
}

// fillBytes makes a deterministic payload of the given length.
func fillBytes(n, salt int) []byte {
	if n < 0 {
		n = 0
	}
	b := make([]byte, n)
	for i := range b {
		b[i] = byte('a' + (i*7+salt)%26)
	}
	return b
}

// fitLen finds an argument p >= 0 for which enc(p) is as close to target as
// the encoding's length steps allow (enc is monotone with jumps at the
// msgpack header breakpoints).
func fitLen(target int, enc func(p int) int) int {
	p := target - enc(0)
	if p < 0 {
		return 0
	}
	for i := 0; i < 8; i++ {
		d := target - enc(p)
		if d == 0 {
			break
		}
		p += d
		if p < 0 {
			return 0
		}
	}
	return p
}

// slowSink is the process-wide go-metrics sink of the core2 checks.  While a
// delay is set, the counters named in keys take that long to record (a slow
// metrics sink is nothing unusual); this widens, through an extension point
// the code already has, the gap between the statements before and after the
// counter call.  With no delay set it does nothing.
type slowSink struct {
	armon.BlackholeSink
	delayNs atomic.Int64
	mu      sync.Mutex
	keys    map[string]bool
}

func (s *slowSink) IncrCounterWithLabels(key []string, val float32, labels []armon.Label) {
	d := s.delayNs.Load()
	if d == 0 {
		return
	}
	s.mu.Lock()
	hit := false
	for _, k := range key {
		if s.keys[k] {
			hit = true
		}
	}
	s.mu.Unlock()
	if hit {
		time.Sleep(time.Duration(d))
	}
}

var (
	core2Sink     = &slowSink{}
	core2SinkOnce sync.Once
)

// slowMetrics makes the counters with one of the given key elements slow; the
// returned function switches that off again.
func slowMetrics(delay time.Duration, keys ...string) (off func()) {
	core2SinkOnce.Do(func() {
		conf := armon.DefaultConfig("verif")
		conf.EnableHostname = false
		conf.EnableRuntimeMetrics = false
		_, _ = armon.NewGlobal(conf, core2Sink)
	})
	core2Sink.mu.Lock()
	core2Sink.keys = map[string]bool{}
	for _, k := range keys {
		core2Sink.keys[k] = true
	}
	core2Sink.mu.Unlock()
	core2Sink.delayNs.Store(int64(delay))
	return func() { core2Sink.delayNs.Store(0) }
}

// setLockHook installs a function that serf's mutexes call before every
// acquire ("lock", "rlock") and after every release ("unlock", "runlock"); it
// does something only when the package is built with the "locks" overlay (see
// yield_overlay_test.go), which sets lockHookAvailable.
var (
	setLockHook       = func(h func(op string)) {}
	lockHookAvailable = false
)

func linger(d time.Duration) {
	for t0 := time.Now(); time.Since(t0) < d; {
		runtime.Gosched()
	}
}

// lockYield makes every goroutine of the node linger after it released one of
// serf's mutexes: mode 0 not at all, mode 1 for 40us after every release, mode
// 2 for 100us after releasing a read lock. That is where a goroutine that
// checked under one critical section and acts under the next can be
// overtaken. Lingering is something any scheduler may do: it adds schedules
// and cannot make correct code fail.
func lockYield(mode int) {
	switch mode {
	case 1:
		setLockHook(func(op string) {
			if op == "unlock" || op == "runlock" {
				linger(40 * time.Microsecond)
			}
		})
	case 2:
		setLockHook(func(op string) {
			if op == "runlock" {
				linger(100 * time.Microsecond)
			}
		})
	default:
		setLockHook(nil)
	}
}
