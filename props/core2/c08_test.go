//go:build verif

package core2

import (
	"bytes"
	"fmt"
	"net"
	"regexp"
	"strings"
	"testing"
	"time"

	"github.com/hashicorp/serf/serf"
	"pgregory.net/rapid"

	"verif/internal/node"
	"verif/internal/simnet"
	"verif/internal/vkit"
)

// C08 — queries reach exactly the nodes their filters select.
//
// A receiver node with generated name and tags gets generated queries through
// its memberlist delegate: genuine encodings produced by a *sender* node's
// public Query API (on a separate network), and hand-built messageQuery values
// (unknown / undecodable filters, no-broadcast flag, colliding (LTime,id)).
// After every delivery the check looks at the three observable effects:
// application channel, ack packet to the origin, growth of the query queue.
// A third source are the receiver's OWN queries (its public Query API, filters
// that may or may not select the receiver itself): the local copy goes through
// the same rules, and the echo of the own query coming back from the network
// is a repeat.  The receiver's tags may be replaced through SetTags in the
// middle of a case; filters are then judged against the new tags.
//
// Zero-length filters are not generated here (known defect D1, owned by C09).

type c08Filter struct {
	Kind    int    `json:"k"`       // 0 node list, 1 tag regex, 2 node-type + garbage, 3 tag-type + garbage, 4 unknown type byte
	Names   []int  `json:"names"`   // node list: indices into the name pool (relative to the receiver name)
	Tag     int    `json:"tag"`     // index into c08TagNames
	Expr    string `json:"expr"`    // regular expression
	Garbage []byte `json:"garbage"` // bytes after the type byte (kinds 2,3)
	Type    int    `json:"type"`    // type byte for kind 4 (2..255)
}

type c08Query struct {
	Via         int         `json:"via"` // 0 sender's public Query API, 1 hand-built message, 2 the receiver's own public Query API
	LTime       int         `json:"lt"`  // hand-built only
	ID          int         `json:"id"`  // hand-built only (small pool => collisions; 0 and 2^32-1 included)
	Name        int         `json:"name"`
	Payload     string      `json:"payload"`
	Filters     []c08Filter `json:"filters"`
	Ack         bool        `json:"ack"`
	NoBroadcast bool        `json:"nobc"` // hand-built only
	Relay       int         `json:"relay"`
}

type c08Case struct {
	Recv       int               `json:"recv"` // index into c08RecvNames
	Tags       map[string]string `json:"tags"`
	Queries    []c08Query        `json:"queries"`
	Deliveries []int             `json:"deliveries"` // query index (mod len) per delivery; first occurrence = first sight
	// QueryBuf, when non-zero, is the size of the receiver's recent-query buffer
	// (default 512): small values make hand-built Lamport times collide on
	// buffer slots and fall out of the retention window
	QueryBuf int `json:"query_buf,omitempty"`
	// Tags2 / TagsAt: before delivery number TagsAt (>= 1) the receiver's tags are
	// replaced by Tags2 through SetTags (0 = never)
	Tags2  map[string]string `json:"tags2,omitempty"`
	TagsAt int               `json:"tags_at,omitempty"`
}

var (
	c08RecvNames  = []string{"alpha", "node-1", "n", "web.01"}
	c08TagNames   = []string{"role", "dc", "ver", ""}
	c08TagValues  = []string{"", "web", "web1", "db", "WEB", "a.b", "api-web", "x", "ww", "1"}
	c08QueryNames = []string{"deploy", "q", "", "_serf_ping", "_serf_conflict", "_serf_", "_serf_custom", "_serf", "x_serf_ping", "_SERF_ping", "serf_", "_serf_pingx"}
	c08Atoms      = []string{"web", "db", "w", "1", "a", "b", "-", "x", ".", "[a-z]", "[^w]", `\d`, "(web|db)", "(w|x)", "", "api", `\.`, "[0-9]"}
	c08Quants     = []string{"", "", "", "*", "+", "?", "{2}", "{0,1}"}
	c08Invalid    = []string{"(", "[a-", "*", "a{2,1}", `\`, "(?P<", "+", "web)", "[z-a]", `\8`}
)

// name pool seen from a receiver called r: r itself and near misses
func c08NamePool(r string) []string {
	return []string{r, strings.ToUpper(r), r + "x", r[:len(r)-1], "", "other", "x" + r, r + " "}
}

func genC08Expr(t *rapid.T) string {
	if rapid.IntRange(0, 7).Draw(t, "invalid?") == 0 {
		return rapid.SampledFrom(c08Invalid).Draw(t, "invalid")
	}
	var sb strings.Builder
	if rapid.IntRange(0, 3).Draw(t, "^") == 0 {
		sb.WriteString("^")
	}
	n := rapid.IntRange(0, 3).Draw(t, "atoms")
	for i := 0; i < n; i++ {
		sb.WriteString(rapid.SampledFrom(c08Atoms).Draw(t, "atom"))
		sb.WriteString(rapid.SampledFrom(c08Quants).Draw(t, "quant"))
		if i+1 < n && rapid.IntRange(0, 5).Draw(t, "|") == 0 {
			sb.WriteString("|")
		}
	}
	if rapid.IntRange(0, 3).Draw(t, "$") == 0 {
		sb.WriteString("$")
	}
	return sb.String()
}

func genC08(t *rapid.T) c08Case {
	var c c08Case
	c.Recv = rapid.IntRange(0, len(c08RecvNames)-1).Draw(t, "recv")
	c.Tags = map[string]string{}
	for _, tn := range c08TagNames[:3] {
		if rapid.IntRange(0, 2).Draw(t, "has-"+tn) > 0 {
			c.Tags[tn] = rapid.SampledFrom(c08TagValues).Draw(t, "val-"+tn)
		}
	}
	c.QueryBuf = rapid.SampledFrom([]int{0, 0, 0, 0, 4, 8, 1, 3}).Draw(t, "querybuf")
	nq := rapid.IntRange(1, 5).Draw(t, "nq")
	if c.QueryBuf != 0 {
		nq = rapid.IntRange(2, 7).Draw(t, "nq-small-buffer")
	}
	for i := 0; i < nq; i++ {
		q := c08Query{
			Via:     rapid.SampledFrom([]int{0, 1, 1, 1, 2}).Draw(t, "via"),
			LTime:   rapid.IntRange(0, 40).Draw(t, "lt"),
			ID:      rapid.SampledFrom([]int{1, 2, 3, 4, 0, 0, 4294967295}).Draw(t, "id"),
			Name:    rapid.OneOf(rapid.IntRange(0, 1), rapid.IntRange(0, len(c08QueryNames)-1)).Draw(t, "name"),
			Payload: rapid.SampledFrom([]string{"", "p", "alpha", "someone"}).Draw(t, "payload"),
			Ack:     rapid.Bool().Draw(t, "ack"),
			Relay:   rapid.SampledFrom([]int{0, 0, 0, 1, 2}).Draw(t, "relay"),
		}
		if q.Via == 1 {
			q.NoBroadcast = rapid.IntRange(0, 2).Draw(t, "nobc") == 0
		}
		nf := rapid.SampledFrom([]int{0, 1, 1, 2, 2, 3, 4}).Draw(t, "nf")
		usedTags := map[int]bool{}
		haveNodes := false
		for j := 0; j < nf; j++ {
			var f c08Filter
			if q.Via == 0 {
				f.Kind = rapid.SampledFrom([]int{0, 1, 1}).Draw(t, "fkind")
			} else {
				f.Kind = rapid.SampledFrom([]int{0, 0, 1, 1, 1, 1, 2, 3, 4}).Draw(t, "fkind")
			}
			switch f.Kind {
			case 0:
				if q.Via != 1 && haveNodes { // the public API has one node list
					continue
				}
				haveNodes = true
				k := rapid.IntRange(0, 4).Draw(t, "nnames")
				for l := 0; l < k; l++ {
					f.Names = append(f.Names, rapid.SampledFrom([]int{0, 0, 0, 1, 2, 3, 4, 5, 6, 7}).Draw(t, "n"))
				}
			case 1:
				f.Tag = rapid.IntRange(0, len(c08TagNames)-1).Draw(t, "tag")
				if q.Via != 1 && usedTags[f.Tag] { // FilterTags is a map
					continue
				}
				usedTags[f.Tag] = true
				f.Expr = genC08Expr(t)
			case 2, 3:
				f.Garbage = rapid.SliceOfN(rapid.Byte(), 0, 6).Draw(t, "garbage")
			case 4:
				f.Type = rapid.IntRange(2, 255).Draw(t, "ftype")
			}
			q.Filters = append(q.Filters, f)
		}
		c.Queries = append(c.Queries, q)
	}
	nd := rapid.IntRange(nq, nq+4).Draw(t, "nd")
	for i := 0; i < nd; i++ {
		if i < nq {
			c.Deliveries = append(c.Deliveries, i)
		} else {
			c.Deliveries = append(c.Deliveries, rapid.IntRange(0, nq-1).Draw(t, "redeliver"))
		}
	}
	// shuffle lightly: swap some neighbours so that re-deliveries interleave
	for i := 0; i+1 < len(c.Deliveries); i++ {
		if rapid.IntRange(0, 3).Draw(t, "swap") == 0 {
			c.Deliveries[i], c.Deliveries[i+1] = c.Deliveries[i+1], c.Deliveries[i]
		}
	}
	if rapid.IntRange(0, 2).Draw(t, "retag?") == 0 {
		// the receiver's tags are replaced in the middle of the case.  One tag is
		// certain to change its value, and two planted queries filter on exactly
		// that tag with an anchored literal of the old or the new value: one is
		// first seen before the change, one after it.
		c.Tags2 = map[string]string{}
		for _, tn := range c08TagNames[:3] {
			switch rapid.IntRange(0, 3).Draw(t, "retag-"+tn) {
			case 0: // tag removed (or still absent)
			case 1: // unchanged
				if v, ok := c.Tags[tn]; ok {
					c.Tags2[tn] = v
				}
			default:
				c.Tags2[tn] = rapid.SampledFrom(c08TagValues).Draw(t, "val2-"+tn)
			}
		}
		ti := rapid.IntRange(0, 2).Draw(t, "retag-which")
		tn := c08TagNames[ti]
		oldv := c.Tags[tn] // missing = ""
		vi := rapid.IntRange(0, len(c08TagValues)-1).Draw(t, "retag-new")
		newv := c08TagValues[vi]
		if newv == oldv {
			newv = c08TagValues[(vi+1)%len(c08TagValues)]
		}
		if newv == "" && rapid.Bool().Draw(t, "retag-delete") {
			delete(c.Tags2, tn)
		} else {
			c.Tags2[tn] = newv
		}
		planted := func(label string) int {
			lit := oldv
			if rapid.Bool().Draw(t, label+"-new") {
				lit = newv
			}
			c.Queries = append(c.Queries, c08Query{
				Via:     rapid.SampledFrom([]int{1, 1, 2, 0}).Draw(t, label+"-via"),
				LTime:   rapid.IntRange(0, 40).Draw(t, label+"-lt"),
				ID:      rapid.SampledFrom([]int{5, 6, 7}).Draw(t, label+"-id"),
				Name:    rapid.IntRange(0, 1).Draw(t, label+"-name"),
				Payload: "retag",
				Ack:     rapid.Bool().Draw(t, label+"-ack"),
				Filters: []c08Filter{{Kind: 1, Tag: ti, Expr: "^" + regexp.QuoteMeta(lit) + "$"}},
			})
			return len(c.Queries) - 1
		}
		ia, ib := planted("before"), planted("after")
		c.Deliveries = append(append([]int{ia}, c.Deliveries...), ib)
		c.TagsAt = rapid.IntRange(2, len(c.Deliveries)).Draw(t, "tags_at")
	}
	return c
}

var c08RegexOp = regexp.MustCompile(`[.*+?\[\](){}|^$\\]`)

// c08Verdict is the reference evaluation of one wire filter, written from
// the statement: name in the node list / regexp matches the tag value
// (missing = ""), anything invalid or undecodable excludes the node.
func c08Verdict(f []byte, name string, tags map[string]string) (match bool, class string) {
	switch f[0] {
	case serf.VerifFilterNodeType:
		var nodes serf.VerifFilterNode
		if err := serf.VerifDecodeMessage(f[1:], &nodes); err != nil {
			return false, "undecodable"
		}
		for _, nn := range nodes {
			if nn == name {
				return true, "nodes"
			}
		}
		return false, "nodes"
	case serf.VerifFilterTagType:
		var ft serf.VerifFilterTag
		if err := serf.VerifDecodeMessage(f[1:], &ft); err != nil {
			return false, "undecodable"
		}
		re, err := regexp.Compile(ft.Expr)
		if err != nil {
			return false, "invalid-regex"
		}
		cl := "tag-literal"
		if c08RegexOp.MatchString(ft.Expr) {
			cl = "tag-regex"
		}
		return re.MatchString(tags[ft.Tag]), cl
	}
	return false, "unknown-type"
}

func bodyC08(c c08Case, x *vkit.Ctx) {
	recvName := c08RecvNames[c.Recv%len(c08RecvNames)]
	pool := c08NamePool(recvName)
	rnet := simnet.New(1)
	recv := mkNode(x, rnet, node.Opts{Name: recvName, Quiet: true, Tags: c.Tags, Mutate: func(sc *serf.Config) {
		if c.QueryBuf > 0 {
			sc.QueryBuffer = c.QueryBuf
		}
	}})
	if recv == nil {
		return
	}
	defer recv.Stop()

	// ---- build the wire form of every query
	var sender *node.Node
	wires := make([][]byte, len(c.Queries))
	apiParams := func(q c08Query) *serf.QueryParam {
		p := &serf.QueryParam{RequestAck: q.Ack, RelayFactor: uint8(q.Relay), Timeout: 50 * time.Millisecond}
		for _, f := range q.Filters {
			switch f.Kind {
			case 0:
				if p.FilterNodes == nil {
					p.FilterNodes = []string{}
				}
				for _, ni := range f.Names {
					p.FilterNodes = append(p.FilterNodes, pool[ni%len(pool)])
				}
			case 1:
				if p.FilterTags == nil {
					p.FilterTags = map[string]string{}
				}
				p.FilterTags[c08TagNames[f.Tag%len(c08TagNames)]] = f.Expr
			}
		}
		return p
	}
	ownRefused := make([]bool, len(c.Queries))
	for qi, q := range c.Queries {
		qname := c08QueryNames[q.Name%len(c08QueryNames)]
		if q.Via == 2 {
			continue // issued by the receiver itself at its first delivery
		}
		if q.Via == 0 {
			if sender == nil {
				sender = mkNode(x, simnet.New(2), node.Opts{Name: "sender", Quiet: true})
				if sender == nil {
					return
				}
				defer sender.Stop()
			}
			p := apiParams(q)
			_, before, _ := sender.Serf.VerifQueued()
			if _, err := sender.Serf.Query(qname, []byte(q.Payload), p); err != nil {
				x.Label("sender-refused")
				continue
			}
			_, after, _ := sender.Serf.VerifQueued()
			fresh := newEntries(before, after)
			if len(fresh) != 1 {
				x.Inconclusive("sender queue did not grow by one")
				return
			}
			wires[qi] = fresh[0]
			continue
		}
		m := &serf.VerifMessageQuery{
			LTime: serf.LamportTime(q.LTime), ID: uint32(q.ID), Addr: net.ParseIP(originIP).To4(), Port: originPort,
			SourceNode: originName, RelayFactor: uint8(q.Relay), Timeout: time.Second, Name: qname, Payload: []byte(q.Payload),
		}
		if q.Ack {
			m.Flags |= serf.VerifQueryFlagAck
		}
		if q.NoBroadcast {
			m.Flags |= serf.VerifQueryFlagNoBroadcast
		}
		for _, f := range q.Filters {
			var fb []byte
			switch f.Kind {
			case 0:
				names := []string{}
				for _, ni := range f.Names {
					names = append(names, pool[ni%len(pool)])
				}
				fb, _ = serf.VerifEncodeFilter(serf.VerifFilterNodeType, names)
			case 1:
				fb, _ = serf.VerifEncodeFilter(serf.VerifFilterTagType, &serf.VerifFilterTag{Tag: c08TagNames[f.Tag%len(c08TagNames)], Expr: f.Expr})
			case 2:
				fb = append([]byte{serf.VerifFilterNodeType}, f.Garbage...)
			case 3:
				fb = append([]byte{serf.VerifFilterTagType}, f.Garbage...)
			default:
				t := f.Type
				if t < 2 || t > 255 {
					t = 2 + (t&0x7fffffff)%254
				}
				fb, _ = serf.VerifEncodeFilter(uint8(t), []string{recvName})
			}
			if len(fb) == 0 { // never produce the zero-length filter (D1, C09)
				x.Excluded()
				continue
			}
			m.Filters = append(m.Filters, fb)
		}
		wires[qi] = mustEncode(serf.VerifMessageQueryType, m)
	}

	// ---- deliver
	type key struct {
		lt serf.LamportTime
		id uint32
	}
	seen := map[key]bool{}
	nontrivial := false
	tags := c.Tags
	for di, d := range c.Deliveries {
		if c.TagsAt > 0 && di+1 == c.TagsAt { // a nil Tags2 is the empty tag set
			t2 := map[string]string{}
			for k, v := range c.Tags2 {
				t2[k] = v
			}
			if err := recv.Serf.SetTags(t2); err != nil {
				x.Inconclusive("SetTags failed: " + err.Error())
				return
			}
			tags = c.Tags2
			x.Label("tags-replaced-mid-case")
		}
		qi := d % len(c.Queries)
		q := c.Queries[qi]
		own := q.Via == 2 && wires[qi] == nil // the receiver issues this query itself now
		if own && ownRefused[qi] {
			continue
		}
		wire := wires[qi]
		if wire == nil && !own {
			continue
		}
		var qclock serf.LamportTime
		if c.QueryBuf > 0 {
			_, _, qclock = recv.Serf.VerifClocks()
		}

		// ---- the delivery itself
		rnet.Packets()
		_, qBefore, _ := recv.Serf.VerifQueued()
		if own {
			if _, err := recv.Serf.Query(c08QueryNames[q.Name%len(c08QueryNames)], []byte(q.Payload), apiParams(q)); err != nil {
				x.Label("own-query-refused")
				ownRefused[qi] = true
				continue
			}
		} else {
			recv.Delegate.NotifyMsg(wire)
		}
		_, qAfter, _ := recv.Serf.VerifQueued()
		pk := node.UserMsgs(rnet.Packets()) // acks are sent synchronously inside NotifyMsg / Query
		if own {
			fresh := newEntries(qBefore, qAfter)
			if len(fresh) != 1 {
				x.Inconclusive("the receiver's own query did not add exactly one entry to its query queue")
				return
			}
			wire = fresh[0]
			wires[qi] = wire // later deliveries of this query are its echo from the network
			x.Label("own-query")
		}

		// the oracle's view of the query comes from the wire bytes
		var m serf.VerifMessageQuery
		if err := serf.VerifDecodeMessage(wire[1:], &m); err != nil {
			x.Inconclusive("harness produced an undecodable query")
			return
		}
		selected, hits, misses, interesting := true, 0, 0, false
		for _, f := range m.Filters {
			if len(f) == 0 {
				x.Inconclusive("zero-length filter on the wire (excluded input)")
				return
			}
			ok, class := c08Verdict(f, recvName, tags)
			x.Label("filter:" + class)
			if class != "nodes" && class != "tag-literal" {
				interesting = true
			}
			if ok {
				hits++
			} else {
				misses++
				selected = false
			}
		}
		k := key{m.LTime, m.ID}
		first := !seen[k]
		seen[k] = true
		if !own && q.Via == 2 {
			x.Label("own-query-echo")
		}
		if m.ID == 0 || m.ID == 1<<32-1 {
			x.Label("id-boundary-value")
		}
		// retention window of the receiver (matters with a small buffer): a query
		// older than the window may be dropped at first sight; a repeat is never
		// delivered again, inside or outside the window.  An own query carries the
		// clock value itself and is never outside the window.
		tooOld := false
		if c.QueryBuf > 0 && !own {
			after := qclock
			if m.LTime+1 > after {
				after = m.LTime + 1
			}
			n := serf.LamportTime(c.QueryBuf)
			tooOld = after > n && m.LTime < after-n
			if tooOld {
				x.Label("outside-retention-window")
			}
			for o := range seen {
				if o != k && o.lt != m.LTime && o.lt%n == m.LTime%n {
					x.Label("slot-collision")
					break
				}
			}
		}
		ackAsked := m.Flags&serf.VerifQueryFlagAck != 0
		nobc := m.Flags&serf.VerifQueryFlagNoBroadcast != 0
		internal := strings.HasPrefix(m.Name, "_serf_")
		wantApp := selected && first && !internal && !tooOld
		wantAck := selected && first && ackAsked && !tooOld
		wantQueued := first && !nobc && !tooOld
		if interesting && hits > 0 && misses > 0 {
			nontrivial = true
		}
		x.Labelf("selected=%v first=%v", selected, first)
		if internal {
			x.Label("internal-name")
		}
		if nobc {
			x.Label("no-broadcast")
		}

		// barrier query: arrives on the application channel after whatever the delivery produced
		bname := fmt.Sprintf("barrier-%d", di)
		blt := uint64(100 + di)
		if c.QueryBuf > 0 {
			// stay inside the small window: the barrier carries the current clock value
			_, _, now := recv.Serf.VerifClocks()
			blt = uint64(now)
		}
		recv.Delegate.NotifyMsg(mustEncode(serf.VerifMessageQueryType, foreignQuery(blt, uint32(0xF0000000+di), bname, nil)))
		_, before, ok := waitQuery(recv, bname, 5*time.Second)
		if !ok {
			x.Inconclusive("barrier query not delivered")
			return
		}

		if first && tooOld {
			continue // first sight outside the window: the node may drop it; nothing to assert
		}
		// 1. application
		var got []*serf.Query
		for _, e := range before {
			if q, ok := e.(*serf.Query); ok {
				got = append(got, q)
			}
		}
		how := "delivery"
		if own {
			how = "issue by the receiver itself"
		}
		desc := fmt.Sprintf("%s %d of query %d (name %q, LTime %d, id %d, flags %d, %d filters: %d match, %d do not; first=%v) to %q tags %v",
			how, di, qi, m.Name, m.LTime, m.ID, m.Flags, len(m.Filters), hits, misses, first, recvName, tags)
		switch {
		case len(got) > 0 && internal:
			x.Violationf("internal-query-to-application", "%s: the application received a query with the internal prefix", desc)
			return
		case len(got) > 0 && !first:
			x.Violationf("query-delivered-twice", "%s: delivered to the application again", desc)
			return
		case len(got) > 0 && !selected:
			x.Violationf("delivered-though-filtered-out", "%s: delivered to the application", desc)
			return
		case len(got) == 0 && wantApp:
			x.Violationf("not-delivered-though-selected", "%s: not delivered to the application", desc)
			return
		case len(got) > 1:
			x.Violationf("query-delivered-twice", "%s: %d deliveries for one message", desc, len(got))
			return
		}
		if len(got) == 1 {
			g := got[0]
			if g.Name != m.Name || !bytes.Equal(g.Payload, m.Payload) || g.LTime != m.LTime || g.VerifID() != m.ID {
				x.Violationf("delivered-query-differs", "%s: application saw name %q payload %q LTime %d id %d", desc, g.Name, g.Payload, g.LTime, g.VerifID())
				return
			}
		}

		// 2. acknowledgement packets
		acks := 0
		origin := (&net.UDPAddr{IP: net.IP(m.Addr), Port: int(m.Port)}).String()
		for _, p := range pk {
			if len(p.Buf) == 0 || p.Buf[0] != serf.VerifMessageQueryResponseType {
				continue
			}
			var r serf.VerifMessageQueryResponse
			if err := serf.VerifDecodeMessage(p.Buf[1:], &r); err != nil || r.Flags&serf.VerifQueryFlagAck == 0 {
				continue
			}
			acks++
			if r.LTime != m.LTime || r.ID != m.ID || r.From != recvName || p.To != origin {
				x.Violationf("ack-misaddressed", "%s: ack {LTime %d id %d From %q} sent to %s, origin is %s", desc, r.LTime, r.ID, r.From, p.To, origin)
				return
			}
		}
		switch {
		case acks > 0 && !ackAsked:
			x.Violationf("ack-not-requested", "%s: %d ack packet(s) sent although the query did not ask for one", desc, acks)
			return
		case acks > 0 && !selected:
			x.Violationf("ack-though-filtered-out", "%s: %d ack packet(s) sent", desc, acks)
			return
		case acks > 0 && !first:
			x.Violationf("ack-for-repeat", "%s: %d ack packet(s) sent for a query seen before", desc, acks)
			return
		case acks == 0 && wantAck:
			x.Violationf("no-ack-though-selected", "%s: no ack packet sent", desc)
			return
		case acks > 1:
			x.Violationf("ack-sent-twice", "%s: %d ack packets", desc, acks)
			return
		}

		// 3. re-broadcast
		fresh := newEntries(qBefore, qAfter)
		switch {
		case wantQueued && len(fresh) == 0:
			x.Violationf("not-rebroadcast", "%s: first sight without the no-broadcast flag, but the query queue did not grow (selected=%v)", desc, selected)
			return
		case !wantQueued && len(fresh) > 0 && !first:
			x.Violationf("rebroadcast-repeat", "%s: query queue grew by %d for a query seen before", desc, len(fresh))
			return
		case !wantQueued && len(fresh) > 0:
			x.Violationf("rebroadcast-despite-flag", "%s: query queue grew by %d although re-broadcast is disabled", desc, len(fresh))
			return
		case len(fresh) > 1:
			x.Violationf("rebroadcast-twice", "%s: query queue grew by %d", desc, len(fresh))
			return
		case len(fresh) == 1 && !bytes.Equal(fresh[0], wire):
			x.Violationf("rebroadcast-altered", "%s: queued bytes differ from the received message", desc)
			return
		}
	}
	x.NonTrivial(nontrivial)
}

func TestC08(t *testing.T) { vkit.Run(t, "C08", genC08, bodyC08) }
