//go:build verif

package core2

import (
	"fmt"
	"os"
	"path/filepath"
	"runtime"
	"strings"
	"sync"
	"sync/atomic"
	"testing"
	"time"

	"github.com/hashicorp/serf/serf"
	"pgregory.net/rapid"

	"verif/internal/node"
	"verif/internal/simnet"
	"verif/internal/vkit"
)

// C34 — Serf lifecycle state only moves forward.
//
// One node (alone, with an injected alive member, or with a real joined peer
// so that Leave takes the broadcast path), BroadcastTimeout and
// LeavePropagateDelay drawn in 0-40 ms to open the windows inside Leave.  A
// generated program of Join / Leave / Shutdown calls runs in one goroutine per
// call; each call has a trigger (start barrier, "once State() shows X", "after
// call j returned") plus a small delay, which is how the interesting
// interleavings (e.g. Shutdown while Leave waits) are pinned.  State() is
// sampled continuously; all observations go through one mutex, so their order
// is a real-time order.
//
// Configuration and call variants that must not matter: a snapshot file
// (Leave and Shutdown then also talk to the snapshotter), Join with
// ignoreOld, Join with no or two targets.  After the program the harness adds
// a sequential epilogue on the state reached: a further Leave on a node that
// has left (nil, still left, member clock and intent queue untouched: "without
// effect"), a further Shutdown on a node that is shut down (nil, still
// shut down), and a Join, which must be refused without contacting anybody.

type c34Call struct {
	Kind    int `json:"k"`     // 0 Join, 1 Leave, 2 Shutdown
	Trigger int `json:"t"`     // 0 start barrier, 1 State()>=leaving seen, 2 >=left seen, 3 shutdown seen, 4 after call After returned, 5 at the AtRelease-th release of a serf mutex, 6 DelayUs after call After BEGAN (whether or not it has returned)
	After   int `json:"after"` // trigger 4: index of an earlier call (mod own index)
	DelayUs int `json:"delay"` // extra delay after the trigger, microseconds
	// trigger 5: the call is released when, counted from the start of the
	// program, the AtRelease-th Unlock/RUnlock of one of serf's mutexes has
	// happened (whatever goroutine did it); that goroutine then lingers for
	// 150us so that the released call overtakes it right there
	AtRelease int `json:"at_release,omitempty"`
	// Join only: ignoreOld argument, and the number of targets minus one
	// (-1 = empty list, 0 = one target, 1 = two targets)
	IgnoreOld bool `json:"ignore_old,omitempty"`
	Targets   int  `json:"targets,omitempty"`
}

type c34Case struct {
	Peer        int       `json:"peer"` // 0 none, 1 injected alive member, 2 real peer joined before the program
	BroadcastMs int       `json:"broadcast_ms"`
	PropagateMs int       `json:"propagate_ms"`
	Calls       []c34Call `json:"calls"`
	Snap        bool      `json:"snap,omitempty"` // the node keeps a snapshot file
	// HoldMs > 0: the first dial of the program is held this long before it
	// fails (a peer that does not answer): the Join that made it stays inside
	// memberlist for that time
	HoldMs int `json:"hold_ms,omitempty"`
	// SlowShutdownMs > 0: the node's transport takes this long to shut down
	// (a real one waits for its listeners), so a Shutdown call stays inside
	// memberlist for that time
	SlowShutdownMs int `json:"slow_shutdown_ms,omitempty"`
}

func genC34(t *rapid.T) c34Case {
	c := c34Case{
		Peer:        rapid.SampledFrom([]int{0, 1, 1, 2}).Draw(t, "peer"),
		BroadcastMs: rapid.SampledFrom([]int{1, 2, 5, 10, 20, 20, 40}).Draw(t, "broadcast"), // 0 would mean "wait forever" to memberlist.Leave
		PropagateMs: rapid.SampledFrom([]int{0, 0, 1, 5, 10, 20, 40}).Draw(t, "propagate"),
	}
	n := rapid.IntRange(2, 6).Draw(t, "ncalls")
	for i := 0; i < n; i++ {
		call := c34Call{
			Kind:    rapid.SampledFrom([]int{0, 1, 1, 2, 2}).Draw(t, "kind"),
			Trigger: rapid.SampledFrom([]int{0, 0, 1, 1, 2, 3, 4, 4}).Draw(t, "trigger"),
			DelayUs: rapid.SampledFrom([]int{0, 0, 50, 300, 1000, 3000, 8000}).Draw(t, "delay"),
		}
		if i == 0 && call.Trigger == 4 {
			call.Trigger = 0
		}
		if i > 0 {
			call.After = rapid.IntRange(0, i-1).Draw(t, "after")
		}
		if call.Kind == 0 {
			call.IgnoreOld = rapid.Bool().Draw(t, "ignore_old")
			call.Targets = rapid.SampledFrom([]int{0, 0, 0, -1, 1}).Draw(t, "targets")
		}
		c.Calls = append(c.Calls, call)
	}
	// half of the programs start with the shape the property is about: a Leave at the barrier and a
	// Shutdown released as soon as State() shows "leaving" (plus a drawn delay)
	if rapid.Bool().Draw(t, "leave-then-shutdown") {
		c.Calls[0] = c34Call{Kind: 1}
		c.Calls[1] = c34Call{Kind: 2, Trigger: 1, DelayUs: c.Calls[1].DelayUs}
		// ... and in half of those, every further call is released in the same
		// window (several calls queueing up behind the Leave that is in progress)
		if rapid.Bool().Draw(t, "pile-up") {
			for i := 2; i < len(c.Calls); i++ {
				c.Calls[i].Trigger, c.Calls[i].After = 1, 0
			}
		}
	}
	c.Snap = rapid.IntRange(0, 3).Draw(t, "snap") == 0
	// one program in four pins a call to a lock boundary of another: the first
	// call starts at the barrier, the second is released at the K-th release
	// of a serf mutex, and the others do not poll State() (that would move K)
	if rapid.IntRange(0, 3).Draw(t, "at-release") == 0 {
		c.Calls[0] = c34Call{Kind: rapid.SampledFrom([]int{1, 1, 1, 2}).Draw(t, "ar.first")}
		c.Calls[1] = c34Call{Kind: rapid.SampledFrom([]int{2, 2, 1, 0}).Draw(t, "ar.second"), Trigger: 5, AtRelease: rapid.IntRange(1, 16).Draw(t, "ar.k")}
		for i := 2; i < len(c.Calls); i++ {
			switch c.Calls[i].Trigger {
			case 1, 2, 3:
				c.Calls[i].Trigger, c.Calls[i].AtRelease = 5, rapid.IntRange(1, 24).Draw(t, "ar.k2")
			}
		}
	}
	// one program in six: a Join that hangs on a peer that does not answer, a
	// Leave (or Shutdown) called 2 ms after that Join began, and a second Join
	// called 20 ms after the Leave began - while the first Join is still inside
	// memberlist. The second Join was called after a leave had begun.
	if rapid.IntRange(0, 5).Draw(t, "join-hangs") == 0 {
		c.HoldMs = rapid.SampledFrom([]int{60, 90}).Draw(t, "jh.hold")
		c.Calls[0] = c34Call{Kind: 0}
		c.Calls[1] = c34Call{Kind: rapid.SampledFrom([]int{1, 1, 2, 2}).Draw(t, "jh.second"), Trigger: 6, After: 0, DelayUs: 2000}
		if c.Calls[1].Kind == 2 {
			c.SlowShutdownMs = rapid.SampledFrom([]int{0, 40, 40}).Draw(t, "jh.slowshutdown")
		}
		late := c34Call{Kind: 0, Trigger: 6, After: 1, DelayUs: 20000, IgnoreOld: rapid.Bool().Draw(t, "jh.ignore")}
		if len(c.Calls) > 2 {
			c.Calls[2] = late
		} else {
			c.Calls = append(c.Calls, late)
		}
		for i := 3; i < len(c.Calls); i++ {
			if c.Calls[i].Trigger == 5 {
				c.Calls[i].Trigger = 0
			}
		}
	}
	return c
}

type c34Res struct {
	triggered  atomic.Bool // trigger came true (the call is sleeping its delay or running)
	started    bool
	begin, end int64
	seen       int64 // stamp taken after post was observed
	pre, post  serf.SerfState
	beganAt    time.Time // wall clock right before the call
	err        error
	n          int
	panicked   any
}

func bodyC34(c c34Case, x *vkit.Ctx) { runC34(c, x, 0) }

// runC34 runs one program. attempt > 0 is a re-run in a shadow context (see
// the "called after a leave had begun" verdict, which rests on the wall clock).
func runC34(c c34Case, x *vkit.Ctx, attempt int) {
	nw := simnet.New(1)
	nw.Deliver = c.Peer == 2
	nw.ShutdownDelay = time.Duration(min(max(c.SlowShutdownMs, 0), 100)) * time.Millisecond
	var heldDials atomic.Int32
	holdArmed := atomic.Bool{}
	if c.HoldMs > 0 {
		hold := time.Duration(min(c.HoldMs, 200)) * time.Millisecond
		nw.HoldDial = func(d simnet.Dial) error {
			if holdArmed.Load() && heldDials.Add(1) == 1 {
				time.Sleep(hold)
			}
			return nil
		}
	}
	bt := time.Duration(min(max(c.BroadcastMs, 1), 200)) * time.Millisecond
	pd := time.Duration(min(max(c.PropagateMs, 0), 200)) * time.Millisecond
	snapDir := ""
	if c.Snap {
		var err error
		if snapDir, err = os.MkdirTemp("", "c34-snap-"); err != nil {
			x.Inconclusive("no temp dir: " + err.Error())
			return
		}
		defer os.RemoveAll(snapDir)
		x.Label("with-snapshot-file")
	}
	mutate := func(conf *serf.Config) {
		conf.BroadcastTimeout = bt
		conf.LeavePropagateDelay = pd
		if snapDir != "" {
			conf.SnapshotPath = filepath.Join(snapDir, "snapshot")
		}
	}
	n := mkNode(x, nw, node.Opts{Name: "c34-self", Quiet: true, Mutate: mutate})
	if n == nil {
		return
	}
	defer func() {
		// the final Shutdown is one more lifecycle call: if it panics (e.g. because the state went
		// backwards and shutdown runs twice) that is a finding, not a harness crash
		defer func() {
			if r := recover(); r != nil && !x.Failed() && !x.IsInconclusive() {
				x.Violationf("lifecycle-call-panics", "the final Shutdown panicked: %v", r)
			}
		}()
		n.Stop()
	}()
	switch c.Peer {
	case 1:
		n.EventsD.NotifyJoin(node.MLNode("c34-fake", "10.3.4.5", 7946, nil, 5, 5))
	case 2:
		p := mkNode(x, nw, node.Opts{Name: "c34-peer", Quiet: true})
		if p == nil {
			return
		}
		defer p.Stop()
		if k, err := n.Serf.Join([]string{p.Tr.Addr()}, false); err != nil || k != 1 {
			x.Inconclusive(fmt.Sprintf("setup join failed: %d %v", k, err))
			return
		}
		ok := false
		for t0 := time.Now(); time.Since(t0) < 2*time.Second; time.Sleep(200 * time.Microsecond) {
			if len(n.Serf.Members()) == 2 {
				ok = true
				break
			}
		}
		if !ok {
			x.Inconclusive("peer did not appear in the member list")
			return
		}
	}
	nw.Dials()

	// ---- observation log: every State() read goes through obsMu, so the log order is a real-time order
	var obsMu sync.Mutex
	var obsLog []serf.SerfState
	maxSeen := serf.SerfAlive
	observe := func() serf.SerfState {
		obsMu.Lock()
		defer obsMu.Unlock()
		st := n.Serf.State()
		if len(obsLog) == 0 || obsLog[len(obsLog)-1] != st {
			obsLog = append(obsLog, st)
		}
		if st > maxSeen {
			maxSeen = st
		}
		return st
	}
	seenAtLeast := func(s serf.SerfState) bool { obsMu.Lock(); defer obsMu.Unlock(); return maxSeen >= s }

	var stamp atomic.Int64
	res := make([]*c34Res, len(c.Calls))
	done := make([]chan struct{}, len(c.Calls))
	for i := range c.Calls {
		res[i] = &c34Res{}
		done[i] = make(chan struct{})
	}
	giveUp := make(chan struct{}) // closed when waiting calls should stop waiting for their trigger
	began := make([]chan struct{}, len(c.Calls)) // closed right before call i is made
	for i := range began {
		began[i] = make(chan struct{})
	}
	// trigger 5: channels closed by the lock hook at the K-th release
	atRel := map[int64][]chan struct{}{}
	atCh := make([]chan struct{}, len(c.Calls))
	hasAt := false
	for i, call := range c.Calls {
		if call.Trigger == 5 && lockHookAvailable {
			hasAt = true
			atCh[i] = make(chan struct{})
			k := int64(min(max(call.AtRelease, 1), 64))
			atRel[k] = append(atRel[k], atCh[i])
		}
	}
	start := make(chan struct{})
	stopSampler := make(chan struct{})
	samplerDone := make(chan struct{})
	go func() {
		defer close(samplerDone)
		for {
			select {
			case <-stopSampler:
				return
			default:
			}
			if hasAt {
				// State() takes a mutex: polling would move the release count
				time.Sleep(200 * time.Microsecond)
				continue
			}
			observe()
			runtime.Gosched()
			time.Sleep(20 * time.Microsecond)
		}
	}()
	joinTarget := func(i int) string { return fmt.Sprintf("127.0.77.%d:7946", i+1) }
	joinTargets := func(i int, call c34Call) []string {
		switch {
		case call.Targets < 0:
			return []string{}
		case call.Targets > 0:
			return []string{joinTarget(i), joinTarget(i + 100)}
		}
		return []string{joinTarget(i)}
	}

	var wg sync.WaitGroup
	for i, call := range c.Calls {
		wg.Add(1)
		go func(i int, call c34Call) {
			defer wg.Done()
			defer close(done[i])
			r := res[i]
			<-start
			// trigger
			switch call.Trigger {
			case 1, 2, 3:
				want := serf.SerfState(call.Trigger)
				for !seenAtLeast(want) {
					select {
					case <-giveUp:
						return
					default:
					}
					observe()
					runtime.Gosched()
				}
			case 4:
				if i > 0 {
					select {
					case <-done[call.After%i]:
					case <-giveUp:
						return
					}
				}
			case 6:
				if i > 0 {
					select {
					case <-began[call.After%i]:
					case <-giveUp:
						return
					}
				}
			case 5:
				if atCh[i] != nil { // without the locks overlay: like the start barrier
					select {
					case <-atCh[i]:
					case <-giveUp:
						return
					}
				}
			}
			r.triggered.Store(true)
			if d := min(max(call.DelayUs, 0), 20000); d > 0 {
				time.Sleep(time.Duration(d) * time.Microsecond)
			}
			r.pre = observe()
			r.started = true
			r.beganAt = time.Now()
			r.begin = stamp.Add(1)
			close(began[i])
			func() {
				defer func() { r.panicked = recover() }() // the call runs in this goroutine: a panic here is an observation, not a crash
				switch call.Kind {
				case 0:
					r.n, r.err = n.Serf.Join(joinTargets(i, call), call.IgnoreOld)
				case 1:
					r.err = n.Serf.Leave()
				default:
					r.err = n.Serf.Shutdown()
				}
			}()
			r.end = stamp.Add(1)
			r.post = observe()
			r.seen = stamp.Add(1)
		}(i, call)
	}
	mon := vkit.StartMonitor()
	defer mon.Stop()
	// two programs in three run with lingering after lock releases (helpers_test.go:
	// lockYield); programs with an at-release call count the releases instead
	if hasAt {
		var releases atomic.Int64
		setLockHook(func(op string) {
			if op != "unlock" && op != "runlock" {
				return
			}
			if chs := atRel[releases.Add(1)]; chs != nil { // atRel is not written after this point
				for _, ch := range chs {
					close(ch)
				}
				linger(150 * time.Microsecond)
			}
		})
		x.Label("at-release-trigger")
	} else {
		lockYield((len(c.Calls) + c.Peer) % 3)
	}
	defer setLockHook(nil)
	holdArmed.Store(true)
	close(start)
	// calls whose trigger never comes true are released once nothing else is running
	allDone := make(chan struct{})
	go func() { wg.Wait(); close(allDone) }()
	released := false
	watchdog := time.After(20 * time.Second)
	for idle := 0; !released; {
		select {
		case <-allDone:
			released = true
		case <-watchdog:
			x.Inconclusive("the program did not finish within 20 s")
			close(stopSampler)
			return
		case <-time.After(5 * time.Millisecond):
			running := 0
			for i := range c.Calls {
				select {
				case <-done[i]:
				default:
					if res[i].triggered.Load() { // sleeping its delay or inside the call
						running++
					}
				}
			}
			if running == 0 {
				idle++
			} else {
				idle = 0
			}
			if idle >= 4 { // 20 ms with every unfinished call still waiting for a trigger
				close(giveUp)
				<-allDone
				released = true
			}
		}
	}
	observe()
	close(stopSampler)
	<-samplerDone
	dials := nw.Dials()

	// ---- sequential epilogue on the state the program ended in
	type epi struct {
		what       string
		err        error
		panicked   any
		post       serf.SerfState
		clockMoved bool
		queueGrew  int
		dialed     int
	}
	var epilogue []epi
	runEpi := func(what string, f func() error) {
		e := epi{what: what}
		clk0, _, _ := n.Serf.VerifClocks()
		q0, _, _ := n.Serf.VerifQueued()
		func() {
			defer func() { e.panicked = recover() }()
			e.err = f()
		}()
		clk1, _, _ := n.Serf.VerifClocks()
		q1, _, _ := n.Serf.VerifQueued()
		e.clockMoved = clk1 != clk0
		e.queueGrew = len(newEntries(q0, q1))
		for _, d := range nw.Dials() {
			if d.To == "127.0.78.1:7946" { // the epilogue's own join target
				e.dialed++
			}
		}
		e.post = observe()
		epilogue = append(epilogue, e)
	}
	switch final := observe(); final {
	case serf.SerfLeft:
		runEpi("Leave", func() error { return n.Serf.Leave() })
		runEpi("Join", func() error { _, err := n.Serf.Join([]string{"127.0.78.1:7946"}, false); return err })
	case serf.SerfShutdown:
		runEpi("Shutdown", func() error { return n.Serf.Shutdown() })
		runEpi("Join", func() error { _, err := n.Serf.Join([]string{"127.0.78.1:7946"}, true); return err })
	}

	// ---- oracle
	kindName := []string{"Join", "Leave", "Shutdown"}
	describe := func() string {
		var sb strings.Builder
		for i, call := range c.Calls {
			r := res[i]
			if !r.started {
				fmt.Fprintf(&sb, "[%d %s never triggered] ", i, kindName[call.Kind%3])
				continue
			}
			fmt.Fprintf(&sb, "[%d %s stamps %d-%d pre=%v post=%v err=%v] ", i, kindName[call.Kind%3], r.begin, r.end, r.pre, r.post, r.err)
		}
		return sb.String()
	}
	for i, call := range c.Calls {
		if r := res[i]; r.panicked != nil {
			sig := "lifecycle-call-panics"
			if call.Kind%3 == 1 && fmt.Sprint(r.panicked) == "leave after shutdown" {
				sig = "leave-panics-when-shutdown-intervenes"
			}
			x.Violationf(sig, "call %d (%s) panicked: %v; peer mode %d, BroadcastTimeout %v, LeavePropagateDelay %v; calls: %s", i, kindName[call.Kind%3], r.panicked, c.Peer, bt, pd, describe())
			return
		}
	}
	for i := 1; i < len(obsLog); i++ {
		if obsLog[i] < obsLog[i-1] {
			x.Violationf("state-moved-backwards", "observed State() sequence %v: %v after %v; calls: %s", obsLog, obsLog[i], obsLog[i-1], describe())
			return
		}
	}
	for _, e := range epilogue {
		x.Label("epilogue:" + e.what + "-after-" + obsLog[len(obsLog)-1].String())
		switch {
		case e.panicked != nil:
			x.Violationf("lifecycle-call-panics", "after the program (final state reached before: see calls) a further %s panicked: %v; calls: %s", e.what, e.panicked, describe())
			return
		case e.what == "Join" && e.err == nil:
			x.Violationf("join-accepted-after-leave-or-shutdown", "after the program ended in state %v a Join returned no error; calls: %s", e.post, describe())
			return
		case e.what == "Join" && e.dialed > 0:
			x.Violationf("join-contacts-peer-after-leave-or-shutdown", "after the program ended in state %v a Join was refused (%v) but still dialed %d address(es); calls: %s", e.post, e.err, e.dialed, describe())
			return
		case e.what == "Leave" && e.err != nil:
			x.Violationf("leave-after-leave-fails", "after the program ended in state left a further Leave returned %v; calls: %s", e.err, describe())
			return
		case e.what == "Leave" && e.post != serf.SerfLeft:
			x.Violationf("leave-after-leave-changes-state", "after the program ended in state left a further Leave left the state at %v; calls: %s", e.post, describe())
			return
		case e.what == "Leave" && (e.clockMoved || e.queueGrew > 0):
			x.Violationf("leave-after-leave-has-effect", "after the program ended in state left a further Leave returned nil but was not without effect: member clock moved: %v, new entries in the intent queue: %d; calls: %s", e.clockMoved, e.queueGrew, describe())
			return
		case e.what == "Shutdown" && e.err != nil:
			x.Violationf("repeated-shutdown-fails", "after the program ended in state shutdown a further Shutdown returned %v; calls: %s", e.err, describe())
			return
		case e.what == "Shutdown" && e.post != serf.SerfShutdown:
			x.Violationf("not-shutdown-after-shutdown", "after the program ended in state shutdown a further Shutdown left the state at %v; calls: %s", e.post, describe())
			return
		}
	}
	programGap := mon.MaxGap()
	var firstShutdownBegin int64 = 1 << 62
	for i, call := range c.Calls {
		if call.Kind%3 == 2 && res[i].started && res[i].begin < firstShutdownBegin {
			firstShutdownBegin = res[i].begin
		}
	}
	overlap, shutdownInLeave := false, false
	for i, call := range c.Calls {
		r := res[i]
		if !r.started {
			x.Label("call-never-triggered")
			continue
		}
		for j := range c.Calls {
			if q := res[j]; j != i && q.started && q.begin < r.end && r.begin < q.end {
				overlap = true
				if call.Kind%3 == 1 && c.Calls[j].Kind%3 == 2 && q.begin > r.begin {
					shutdownInLeave = true
				}
			}
		}
		switch call.Kind % 3 {
		case 0: // Join
			dialed := false
			for _, d := range dials {
				if d.To == joinTarget(i) || d.To == joinTarget(i+100) {
					dialed = true
				}
			}
			if call.IgnoreOld {
				x.Label("join-ignore-old")
			}
			// a Join called well after a Leave or Shutdown call had begun (trigger 6
			// with a margin of 15 ms or more, measured on the wall clock, and no
			// scheduler stall in the whole program): the first thing either of them
			// does is claim the state, so by then the leave or shutdown has begun
			if call.Trigger == 6 && i > 0 {
				j := call.After % i
				if p := res[j]; c.Calls[j].Kind%3 != 0 && p.started && r.beganAt.Sub(p.beganAt) >= 15*time.Millisecond {
					if programGap > 10*time.Millisecond {
						x.Label("late-join-not-judged:scheduler-stall")
					} else {
						x.Label("join-called-15ms-after-leave-or-shutdown-began")
						// The verdict rests on "15 ms are enough for a call that has begun to
						// claim the state". One goroutine can be held up that long by the
						// operating system while the starvation monitor sees nothing, so a
						// first failure is only a candidate: the program is run twice more,
						// and it counts if it comes out the same way at least once.
						if attempt == 0 && (r.err == nil || dialed) {
							again := 0
							for k := 0; k < 2; k++ {
								sh := x.Shadow()
								runC34(c, sh, 1)
								if sh.HasViolation("join-accepted-after-leave-or-shutdown-began") || sh.HasViolation("join-contacts-peer-after-leave-or-shutdown") {
									again++
								}
							}
							if again == 0 {
								x.Label("late-join-candidate-not-reproduced")
								continue
							}
							x.Labelf("late-join-candidate-reproduced-%d-of-2", again)
						}
						if r.err == nil {
							x.Violationf("join-accepted-after-leave-or-shutdown-began", "call %d: Join was called %v after call %d (%s) had begun and returned no error (n=%d, state read before the call: %v); calls: %s",
								i, r.beganAt.Sub(p.beganAt).Round(time.Millisecond), j, []string{"Join", "Leave", "Shutdown"}[c.Calls[j].Kind%3], r.n, r.pre, describe())
							return
						}
						if dialed {
							x.Violationf("join-contacts-peer-after-leave-or-shutdown", "call %d: Join was called %v after call %d had begun and still dialed %s (err=%v); calls: %s", i, r.beganAt.Sub(p.beganAt).Round(time.Millisecond), j, joinTarget(i), r.err, describe())
							return
						}
					}
				}
			}
			if r.pre != serf.SerfAlive {
				x.Label("join-after-leave-or-shutdown")
				if r.err == nil {
					x.Violationf("join-accepted-after-leave-or-shutdown", "call %d: Join was called after State() had shown %v and returned no error (n=%d); calls: %s", i, r.pre, r.n, describe())
					return
				}
				if dialed {
					x.Violationf("join-contacts-peer-after-leave-or-shutdown", "call %d: Join was called after State() had shown %v and still dialed %s (err=%v); calls: %s", i, r.pre, joinTarget(i), r.err, describe())
					return
				}
			} else if dialed {
				x.Label("join-while-alive-dialed")
			}
		case 1: // Leave
			// a Leave that reports success has left: the state read afterwards is left (or shutdown)
			if r.err == nil && r.post != serf.SerfLeft && r.post != serf.SerfShutdown {
				x.Violationf("leave-succeeds-without-leaving", "call %d: Leave returned nil but State() afterwards is %v; calls: %s", i, r.post, describe())
				return
			}
			for j := range c.Calls {
				p := res[j]
				if j == i || c.Calls[j].Kind%3 != 1 || !p.started || p.err != nil || p.end >= r.begin {
					continue
				}
				// an earlier Leave had completed; no Shutdown began before this call ended
				// AND before its resulting state was read (the read comes after the end
				// stamp; a Shutdown slipping in between legitimately shows "shutdown")
				if firstShutdownBegin > r.seen {
					x.Label("leave-after-completed-leave")
					if r.err != nil {
						x.Violationf("leave-after-leave-fails", "call %d: Leave after the completed Leave (call %d) returned %v; calls: %s", i, j, r.err, describe())
						return
					}
					if r.post != serf.SerfLeft {
						x.Violationf("leave-after-leave-changes-state", "call %d: after a repeated Leave the state is %v, want left; calls: %s", i, r.post, describe())
						return
					}
				}
			}
		case 2: // Shutdown
			if r.err == nil && r.post != serf.SerfShutdown {
				x.Violationf("not-shutdown-after-shutdown", "call %d: Shutdown returned nil but State() is %v; calls: %s", i, r.post, describe())
				return
			}
			for j := range c.Calls {
				p := res[j]
				if j == i || c.Calls[j].Kind%3 != 2 || !p.started || p.err != nil || p.end >= r.begin {
					continue
				}
				x.Label("repeated-shutdown")
				if r.err != nil {
					x.Violationf("repeated-shutdown-fails", "call %d: Shutdown after the completed Shutdown (call %d) returned %v; calls: %s", i, j, r.err, describe())
					return
				}
			}
		}
	}
	if g := max(programGap, mon.MaxGap()); g > 50*time.Millisecond {
		x.Label("starved-run") // no verdict above depends on wall-clock time; informational only
	}
	x.Labelf("final=%v", obsLog[len(obsLog)-1])
	x.Labelf("states-seen=%d", len(obsLog))
	if overlap {
		x.Label("calls-overlap")
	}
	if shutdownInLeave {
		x.Label("shutdown-inside-leave")
	}
	x.NonTrivial(overlap && shutdownInLeave)
}

func TestC34(t *testing.T) { vkit.Run(t, "C34", genC34, bodyC34) }
