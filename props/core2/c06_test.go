//go:build verif

package core2

import (
	"fmt"
	"runtime"
	"sort"
	"strings"
	"sync"
	"sync/atomic"
	"testing"
	"time"

	"github.com/hashicorp/serf/serf"
	"pgregory.net/rapid"

	"verif/internal/node"
	"verif/internal/simnet"
	"verif/internal/vkit"
)

// C06 — locally issued events and queries get unique, causally later Lamport
// times.
//
// One node; G goroutines behind a start barrier each issue a generated list of
// UserEvent / Query calls (distinct payloads), while an injector goroutine
// feeds foreign events and queries with generated Lamport times through the
// memberlist delegate.  Every operation gets begin/end stamps from one atomic
// counter.  The Lamport time of each local event is read from the broadcast
// queue (decoded) and of each local query from its QueryResponse.
//
// The interleaving is chosen by the Go scheduler: a violation is real, but it
// cannot be shrunk and a replay re-runs the same program, not the same
// schedule.

type c06Foreign struct {
	Query bool `json:"q"`    // foreign query (else foreign user event)
	Jump  int  `json:"jump"` // its LTime = previous foreign LTime of that kind + Jump
}

type c06Case struct {
	Workers [][]int      `json:"workers"` // per goroutine: call kinds, 0 = UserEvent, 1 = Query
	Foreign []c06Foreign `json:"foreign"`
}

func genC06(t *rapid.T) c06Case {
	var c c06Case
	g := rapid.IntRange(2, 16).Draw(t, "goroutines")
	mix := rapid.SampledFrom([][]int{{0}, {1}, {0, 1}, {0, 0, 0, 1}, {0, 1, 1, 1}}).Draw(t, "mix")
	for i := 0; i < g; i++ {
		n := rapid.IntRange(5, 40).Draw(t, "calls")
		w := make([]int, n)
		for j := range w {
			w[j] = rapid.SampledFrom(mix).Draw(t, "kind")
		}
		c.Workers = append(c.Workers, w)
	}
	nf := rapid.IntRange(0, 30).Draw(t, "foreign")
	for i := 0; i < nf; i++ {
		c.Foreign = append(c.Foreign, c06Foreign{Query: rapid.Bool().Draw(t, "fq"), Jump: rapid.SampledFrom([]int{0, 1, 1, 2, 3, 5, 20, 100, 400}).Draw(t, "jump")})
	}
	return c
}

type c06Op struct {
	query      bool
	local      bool
	begin, end int64
	ltime      serf.LamportTime
	tag        string
	err        error
}

func bodyC06(c c06Case, x *vkit.Ctx) {
	nw := simnet.New(1)
	n := mkNode(x, nw, node.Opts{Name: "c06-self", Quiet: true, EventBuf: 1 << 15, Mutate: func(conf *serf.Config) {
		conf.EventBuffer = 1 << 14 // nothing issued in one case is ever "too old"
		conf.QueryBuffer = 1 << 14
	}})
	if n == nil {
		return
	}
	defer n.Stop()

	var stamp atomic.Int64
	start := make(chan struct{})
	var wg sync.WaitGroup
	results := make([][]*c06Op, len(c.Workers)+1)
	for g, calls := range c.Workers {
		wg.Add(1)
		go func(g int, calls []int) {
			defer wg.Done()
			ops := make([]*c06Op, 0, len(calls))
			<-start
			for i, k := range calls {
				op := &c06Op{query: k == 1, local: true, tag: fmt.Sprintf("w%d-%d", g, i)}
				if op.query {
					op.begin = stamp.Add(1)
					r, err := n.Serf.Query("c06", []byte(op.tag), &serf.QueryParam{Timeout: 5 * time.Millisecond})
					op.end = stamp.Add(1)
					op.err = err
					if err == nil {
						op.ltime, _ = r.VerifID()
					}
				} else {
					op.begin = stamp.Add(1)
					op.err = n.Serf.UserEvent("c06", []byte(op.tag), false)
					op.end = stamp.Add(1)
				}
				ops = append(ops, op)
			}
			results[g] = ops
		}(g, calls)
	}
	wg.Add(1)
	go func() {
		defer wg.Done()
		var ops []*c06Op
		var evL, qL uint64 = 1, 1
		<-start
		for i, f := range c.Foreign {
			op := &c06Op{query: f.Query, tag: fmt.Sprintf("f%d", i)}
			jump := uint64(min(max(f.Jump, 0), 100000))
			var buf []byte
			if f.Query {
				qL += jump
				op.ltime = serf.LamportTime(qL)
				buf = mustEncode(serf.VerifMessageQueryType, foreignQuery(qL, uint32(0xE0000000+i), "c06-foreign", []byte(op.tag)))
			} else {
				evL += jump
				op.ltime = serf.LamportTime(evL)
				buf = mustEncode(serf.VerifMessageUserEventType, &serf.VerifMessageUserEvent{LTime: serf.LamportTime(evL), Name: "c06-foreign", Payload: []byte(op.tag)})
			}
			op.begin = stamp.Add(1)
			n.Delegate.NotifyMsg(buf)
			op.end = stamp.Add(1)
			ops = append(ops, op)
			runtime.Gosched()
		}
		results[len(c.Workers)] = ops
	}()
	close(start)
	wg.Wait()

	// ---- collect: Lamport times of the local user events from the broadcast queue
	_, _, evq := n.Serf.VerifQueued()
	evTime := map[string][]serf.LamportTime{}
	for _, b := range evq {
		var m serf.VerifMessageUserEvent
		if len(b) < 1 || b[0] != serf.VerifMessageUserEventType || serf.VerifDecodeMessage(b[1:], &m) != nil {
			continue
		}
		if m.Name == "c06" {
			evTime[string(m.Payload)] = append(evTime[string(m.Payload)], m.LTime)
		}
	}
	var all []*c06Op
	for _, ops := range results {
		for _, op := range ops {
			if op.local && op.err != nil {
				x.Inconclusive("a local call failed: " + op.err.Error())
				return
			}
			if op.local && !op.query {
				ts := evTime[op.tag]
				if len(ts) != 1 {
					x.Inconclusive(fmt.Sprintf("user event %s found %d times in the broadcast queue", op.tag, len(ts)))
					return
				}
				op.ltime = ts[0]
			}
			all = append(all, op)
		}
	}

	// ---- oracle
	for _, isQuery := range []bool{false, true} {
		kind := "user event"
		sigShared, sigCausal := "shared-ltime-user-events", "ltime-not-after-processed-event"
		if isQuery {
			kind = "query"
			sigShared, sigCausal = "shared-ltime-queries", "ltime-not-after-processed-query"
		}
		var ops, locals []*c06Op
		for _, op := range all {
			if op.query == isQuery {
				ops = append(ops, op)
				if op.local {
					locals = append(locals, op)
				}
			}
		}
		// (a) uniqueness among locally originated ones
		byTime := map[serf.LamportTime][]string{}
		for _, op := range locals {
			byTime[op.ltime] = append(byTime[op.ltime], op.tag)
		}
		var shared []string
		for lt, tags := range byTime {
			if len(tags) > 1 {
				sort.Strings(tags)
				shared = append(shared, fmt.Sprintf("LTime %d: %s", lt, strings.Join(tags, ",")))
			}
		}
		if len(shared) > 0 {
			sort.Strings(shared)
			more := ""
			if len(shared) > 4 {
				more = fmt.Sprintf(" … and %d more", len(shared)-4)
				shared = shared[:4]
			}
			x.Violationf(sigShared, "%d locally originated %s calls in %d goroutines: Lamport times shared by different calls: %s%s", len(locals), kind, len(c.Workers), strings.Join(shared, "; "), more)
			return
		}
		// (b) causality: later than everything whose processing had completed before the call began
		sort.Slice(ops, func(i, j int) bool { return ops[i].end < ops[j].end })
		overlap := false
		for _, cl := range locals {
			for _, p := range ops {
				if p.end >= cl.begin {
					break
				}
				if cl.ltime <= p.ltime {
					who := "foreign"
					if p.local {
						who = "local"
					}
					x.Violationf(sigCausal, "%s %s got LTime %d, but the %s %s %s with LTime %d had completed before the call began", kind, cl.tag, cl.ltime, who, kind, p.tag, p.ltime)
					return
				}
			}
		}
		for i, a := range locals {
			for _, b := range locals[i+1:] {
				if a.begin < b.end && b.begin < a.end {
					overlap = true
				}
			}
			if overlap {
				break
			}
		}
		if overlap {
			x.Label("overlapping-" + strings.ReplaceAll(kind, " ", "-") + "-calls")
			x.NonTrivial(true)
		}
		x.Labelf("local-%s-calls=%d+", strings.ReplaceAll(kind, " ", "-"), len(locals)/100*100)
	}
}

func TestC06(t *testing.T) { vkit.Run(t, "C06", genC06, bodyC06) }
