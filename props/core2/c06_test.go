//go:build verif

package core2

import (
	"bytes"
	"fmt"
	"runtime"
	"sort"
	"strings"
	"sync"
	"sync/atomic"
	"testing"
	"time"

	"github.com/hashicorp/serf/serf"
	"pgregory.net/rapid"

	"verif/internal/node"
	"verif/internal/simnet"
	"verif/internal/vkit"
)

// C06 — locally issued events and queries get unique, causally later Lamport
// times.
//
// One node; G goroutines behind a start barrier each issue a generated list of
// UserEvent / Query calls (distinct payloads), while an injector goroutine
// feeds foreign events and queries with generated Lamport times through the
// memberlist delegate.  Every operation gets begin/end stamps from one atomic
// counter.  The Lamport time an operation "carries" is observed three ways:
// decoded from the broadcast queue (events and queries), from the query's
// QueryResponse (the key replies are routed by), and from the copy delivered
// to the local application; the oracle holds for every one of these views.
//
// Local calls vary the options that do not matter for the property (coalesce
// flag; ack request, relay factor, filters that do or do not select the node
// itself).  Foreign events and queries arrive by gossip or, for events, in the
// recent-event list of a push/pull state exchange; foreign queries may be
// filtered away from this node or carry the no-rebroadcast flag; foreign
// Lamport times jump by small steps and by 2^31, 2^32, 2^40.
//
// The interleaving is chosen by the Go scheduler: a violation is real, but it
// cannot be shrunk and a replay re-runs the same program, not the same
// schedule.

type c06Foreign struct {
	Query bool `json:"q"`    // foreign query (else foreign user event)
	Jump  int  `json:"jump"` // its LTime = previous foreign LTime of that kind + Jump; -1: the node's own clock of that kind as it reads at that moment (a peer that is exactly level with the node)
	// Form: events: 1 = delivered in the recent-event list of a push/pull state
	// exchange instead of by gossip; queries: 1 = with a node filter that does not
	// select this node, 2 = with the no-rebroadcast flag, 3 = both
	Form int `json:"form,omitempty"`
}

type c06Case struct {
	// per goroutine: call kinds. 0 = UserEvent, 1 = Query, 2 = UserEvent with the
	// coalesce flag, 3 = Query asking for acks, relay factor 1, node filter that
	// does not select the node itself, 4 = Query with node and tag filters that
	// select the node itself, 5 = UserEvent that passes the size test on name +
	// payload but is too large once encoded (the call fails after it has taken
	// its Lamport time), 6 = Query that is too large once encoded
	Workers [][]int      `json:"workers"`
	Foreign []c06Foreign `json:"foreign"`
	// SlowSinkUs > 0: the metrics sink takes this long for the per-event /
	// per-query counters (bumped inside the handlers, after the clock was witnessed)
	SlowSinkUs int `json:"slow_sink_us,omitempty"`
}

func genC06(t *rapid.T) c06Case {
	var c c06Case
	g := rapid.IntRange(2, 16).Draw(t, "goroutines")
	mix := rapid.SampledFrom([][]int{{0}, {1}, {0, 1}, {0, 0, 0, 1}, {0, 1, 1, 1}}).Draw(t, "mix")
	for i := 0; i < g; i++ {
		n := rapid.IntRange(5, 40).Draw(t, "calls")
		w := make([]int, n)
		for j := range w {
			w[j] = rapid.SampledFrom(mix).Draw(t, "kind")
			if rapid.IntRange(0, 3).Draw(t, "variant") == 0 { // same kind of call, other options
				if w[j] == 0 {
					w[j] = 2
				} else {
					w[j] = rapid.SampledFrom([]int{3, 4}).Draw(t, "qvariant")
				}
			}
		}
		c.Workers = append(c.Workers, w)
	}
	nf := rapid.IntRange(0, 30).Draw(t, "foreign")
	for i := 0; i < nf; i++ {
		c.Foreign = append(c.Foreign, c06Foreign{
			Query: rapid.Bool().Draw(t, "fq"),
			Jump:  rapid.SampledFrom([]int{0, 1, 1, 2, 3, 5, 20, 100, 400, 0, 1, 1, 2, 3, 5, 20, 100, 400, 1 << 31, 1 << 32, 1 << 40}).Draw(t, "jump"),
			Form:  rapid.SampledFrom([]int{0, 0, 1, 2, 3}).Draw(t, "form"),
		})
	}
	if rapid.IntRange(0, 5).Draw(t, "slow-sink?") == 0 {
		c.SlowSinkUs = rapid.SampledFrom([]int{20, 100}).Draw(t, "slow-sink")
	}
	// One round in four mixes in calls that fail after they have taken their
	// Lamport time (too large once encoded), next to peers that are exactly level
	// with the node's clock: a failed call must not take anything back that a
	// message processed in the meantime relies on.
	if rapid.IntRange(0, 3).Draw(t, "failing-calls") == 0 {
		for _, w := range c.Workers {
			for j := range w {
				if rapid.IntRange(0, 2).Draw(t, "fail") == 0 {
					if w[j] == 1 || w[j] == 3 || w[j] == 4 {
						w[j] = 6
					} else {
						w[j] = 5
					}
				}
			}
		}
		for i, n := 0, rapid.IntRange(10, 40).Draw(t, "level-peers"); i < n; i++ {
			f := c06Foreign{Query: rapid.Bool().Draw(t, "lq"), Jump: -1}
			at := rapid.IntRange(0, len(c.Foreign)).Draw(t, "lat")
			c.Foreign = append(c.Foreign[:at:at], append([]c06Foreign{f}, c.Foreign[at:]...)...)
		}
	}
	return c
}

type c06Op struct {
	query      bool
	local      bool
	begin, end int64
	ltime      serf.LamportTime // primary view: broadcast queue (events), QueryResponse (queries); foreign: as sent
	wire       *serf.LamportTime // local queries: the time in the queued broadcast
	app        *serf.LamportTime // local calls: the time of the copy delivered to the application, when one was
	tag        string
	err        error
	mustFail   bool // a call that is too large once encoded
}

func bodyC06(c c06Case, x *vkit.Ctx) {
	nw := simnet.New(1)
	n := mkNode(x, nw, node.Opts{Name: "c06-self", Quiet: true, EventBuf: 1 << 15, Tags: map[string]string{"role": "c06"}, Mutate: func(conf *serf.Config) {
		conf.EventBuffer = 1 << 14 // nothing issued in one case is ever "too old"
		conf.QueryBuffer = 1 << 14
	}})
	if n == nil {
		return
	}
	defer n.Stop()
	if c.SlowSinkUs > 0 {
		defer slowMetrics(time.Duration(min(c.SlowSinkUs, 500))*time.Microsecond, "events", "queries")()
		x.Label("slow-metrics-sink")
	}

	// two rounds in three run with lingering after lock releases (helpers_test.go: lockYield)
	lockYield((len(c.Workers) + c.SlowSinkUs) % 3)
	defer lockYield(0)
	var stamp atomic.Int64
	start := make(chan struct{})
	var wg sync.WaitGroup
	results := make([][]*c06Op, len(c.Workers)+1)
	for g, calls := range c.Workers {
		wg.Add(1)
		go func(g int, calls []int) {
			defer wg.Done()
			ops := make([]*c06Op, 0, len(calls))
			<-start
			for i, k := range calls {
				op := &c06Op{query: k == 1 || k == 3 || k == 4 || k == 6, local: true, tag: fmt.Sprintf("w%d-%d", g, i)}
				if k == 5 || k == 6 {
					// too large once encoded: the call must fail (and carries no time)
					op.mustFail = true
					if k == 5 {
						op.begin = stamp.Add(1)
						op.err = n.Serf.UserEvent("c06", bytes.Repeat([]byte{'x'}, n.Conf.UserEventSizeLimit-8), false)
						op.end = stamp.Add(1)
					} else {
						op.begin = stamp.Add(1)
						_, op.err = n.Serf.Query("c06", bytes.Repeat([]byte{'x'}, n.Conf.QuerySizeLimit-4), &serf.QueryParam{Timeout: 5 * time.Millisecond})
						op.end = stamp.Add(1)
					}
					ops = append(ops, op)
					continue
				}
				if op.query {
					p := &serf.QueryParam{Timeout: 5 * time.Millisecond}
					switch k {
					case 3:
						p.RequestAck, p.RelayFactor, p.FilterNodes = true, 1, []string{"someone-else"}
					case 4:
						p.FilterNodes, p.FilterTags = []string{"c06-self", "someone-else"}, map[string]string{"role": "^c0"}
					}
					op.begin = stamp.Add(1)
					r, err := n.Serf.Query("c06", []byte(op.tag), p)
					op.end = stamp.Add(1)
					op.err = err
					if err == nil {
						op.ltime, _ = r.VerifID()
					}
				} else {
					op.begin = stamp.Add(1)
					op.err = n.Serf.UserEvent("c06", []byte(op.tag), k == 2)
					op.end = stamp.Add(1)
				}
				ops = append(ops, op)
			}
			results[g] = ops
		}(g, calls)
	}
	wg.Add(1)
	go func() {
		defer wg.Done()
		var ops []*c06Op
		var evL, qL uint64 = 1, 1
		<-start
		for i, f := range c.Foreign {
			op := &c06Op{query: f.Query, tag: fmt.Sprintf("f%d", i)}
			jump := uint64(min(max(f.Jump, 0), 1<<41))
			var buf []byte
			pushPull := false
			if f.Jump < 0 {
				_, ec, qc := n.Serf.VerifClocks()
				if f.Query {
					qL, jump = max(qL, uint64(qc)), 0
				} else {
					evL, jump = max(evL, uint64(ec)), 0
				}
			}
			if f.Query {
				qL += jump
				op.ltime = serf.LamportTime(qL)
				fq := foreignQuery(qL, uint32(0xE0000000+i), "c06-foreign", []byte(op.tag))
				if f.Form&1 != 0 {
					fb, _ := serf.VerifEncodeFilter(serf.VerifFilterNodeType, []string{"someone-else"})
					fq.Filters = [][]byte{fb}
				}
				if f.Form&2 != 0 {
					fq.Flags |= serf.VerifQueryFlagNoBroadcast
				}
				buf = mustEncode(serf.VerifMessageQueryType, fq)
			} else {
				evL += jump
				op.ltime = serf.LamportTime(evL)
				if pushPull = f.Form&1 != 0; pushPull {
					buf = mustEncode(serf.VerifMessagePushPullType, &serf.VerifMessagePushPull{
						StatusLTimes: map[string]serf.LamportTime{}, LeftMembers: []string{},
						Events: []*serf.VerifUserEvents{nil, {LTime: serf.LamportTime(evL), Events: []serf.VerifUserEvent{{Name: "c06-foreign", Payload: []byte(op.tag)}}}},
					})
				} else {
					buf = mustEncode(serf.VerifMessageUserEventType, &serf.VerifMessageUserEvent{LTime: serf.LamportTime(evL), Name: "c06-foreign", Payload: []byte(op.tag)})
				}
			}
			op.begin = stamp.Add(1)
			if pushPull {
				n.Delegate.MergeRemoteState(buf, false)
			} else {
				n.Delegate.NotifyMsg(buf)
			}
			op.end = stamp.Add(1)
			ops = append(ops, op)
			runtime.Gosched()
		}
		results[len(c.Workers)] = ops
	}()
	close(start)
	wg.Wait()

	// ---- collect: Lamport times carried by the queued broadcasts of the local calls ...
	_, qq, evq := n.Serf.VerifQueued()
	evTime := map[string][]serf.LamportTime{}
	for _, b := range evq {
		var m serf.VerifMessageUserEvent
		if len(b) < 1 || b[0] != serf.VerifMessageUserEventType || serf.VerifDecodeMessage(b[1:], &m) != nil {
			continue
		}
		if m.Name == "c06" {
			evTime[string(m.Payload)] = append(evTime[string(m.Payload)], m.LTime)
		}
	}
	qTime := map[string][]serf.LamportTime{}
	for _, b := range qq {
		var m serf.VerifMessageQuery
		if len(b) < 1 || b[0] != serf.VerifMessageQueryType || serf.VerifDecodeMessage(b[1:], &m) != nil {
			continue
		}
		if m.Name == "c06" {
			qTime[string(m.Payload)] = append(qTime[string(m.Payload)], m.LTime)
		}
	}
	// ... and by the copies handed to the local application (whatever arrived; a
	// copy that is missing or late is not this property's business)
	appEv, appQ := map[string]serf.LamportTime{}, map[string]serf.LamportTime{}
	for _, e := range n.Drain(node.Settle) {
		switch v := e.(type) {
		case serf.UserEvent:
			if v.Name == "c06" {
				appEv[string(v.Payload)] = v.LTime
			}
		case *serf.Query:
			if v.Name == "c06" {
				appQ[string(v.Payload)] = v.LTime
			}
		}
	}
	var all []*c06Op
	failedCalls := 0
	for _, ops := range results {
		for _, op := range ops {
			if op.mustFail {
				if op.err == nil {
					x.Violationf("oversize-call-accepted", "call %s: a message that is too large once encoded was accepted", op.tag)
					return
				}
				failedCalls++
				continue
			}
			if op.local && op.err != nil {
				x.Inconclusive("a local call failed: " + op.err.Error())
				return
			}
			if op.local && !op.query {
				ts := evTime[op.tag]
				if len(ts) != 1 {
					x.Inconclusive(fmt.Sprintf("user event %s found %d times in the broadcast queue", op.tag, len(ts)))
					return
				}
				op.ltime = ts[0]
				if t, ok := appEv[op.tag]; ok {
					op.app = &t
				}
			}
			if op.local && op.query {
				if ts := qTime[op.tag]; len(ts) == 1 {
					op.wire = &ts[0]
				} else {
					x.Inconclusive(fmt.Sprintf("query %s found %d times in the broadcast queue", op.tag, len(ts)))
					return
				}
				if t, ok := appQ[op.tag]; ok {
					op.app = &t
				}
			}
			all = append(all, op)
		}
	}

	// ---- oracle, once per view of "the Lamport time the call's event / query carries"
	views := []struct {
		name string
		time func(op *c06Op) serf.LamportTime
	}{
		{"", func(op *c06Op) serf.LamportTime { return op.ltime }},
		{" (time in the queued broadcast)", func(op *c06Op) serf.LamportTime {
			if op.wire != nil {
				return *op.wire
			}
			return op.ltime
		}},
		{" (time of the copy delivered to the local application)", func(op *c06Op) serf.LamportTime {
			if op.app != nil {
				return *op.app
			}
			return op.ltime
		}},
	}
	for vi, view := range views {
		if vi > 0 {
			differs := false
			for _, op := range all {
				if view.time(op) != op.ltime {
					differs = true
				}
			}
			if !differs {
				continue // same numbers as the primary view: already judged
			}
			x.Label("views-differ")
		}
		for _, isQuery := range []bool{false, true} {
			kind := "user event"
			sigShared, sigCausal := "shared-ltime-user-events", "ltime-not-after-processed-event"
			if isQuery {
				kind = "query"
				sigShared, sigCausal = "shared-ltime-queries", "ltime-not-after-processed-query"
			}
			var ops, locals []*c06Op
			for _, op := range all {
				if op.query == isQuery {
					ops = append(ops, op)
					if op.local {
						locals = append(locals, op)
					}
				}
			}
			// (a) uniqueness among locally originated ones
			byTime := map[serf.LamportTime][]string{}
			for _, op := range locals {
				byTime[view.time(op)] = append(byTime[view.time(op)], op.tag)
			}
			var shared []string
			for lt, tags := range byTime {
				if len(tags) > 1 {
					sort.Strings(tags)
					shared = append(shared, fmt.Sprintf("LTime %d: %s", lt, strings.Join(tags, ",")))
				}
			}
			if len(shared) > 0 {
				sort.Strings(shared)
				more := ""
				if len(shared) > 4 {
					more = fmt.Sprintf(" … and %d more", len(shared)-4)
					shared = shared[:4]
				}
				x.Violationf(sigShared, "%d locally originated %s calls in %d goroutines: Lamport times%s shared by different calls: %s%s", len(locals), kind, len(c.Workers), view.name, strings.Join(shared, "; "), more)
				return
			}
			// (b) causality: later than everything whose processing had completed before the call began
			sort.Slice(ops, func(i, j int) bool { return ops[i].end < ops[j].end })
			for _, cl := range locals {
				for _, p := range ops {
					if p.end >= cl.begin {
						break
					}
					if view.time(cl) <= view.time(p) {
						who := "foreign"
						if p.local {
							who = "local"
						}
						x.Violationf(sigCausal, "%s %s got LTime %d%s, but the %s %s %s with LTime %d had completed before the call began", kind, cl.tag, view.time(cl), view.name, who, kind, p.tag, view.time(p))
						return
					}
				}
			}
			if vi > 0 {
				continue
			}
			overlap := false
			for i, a := range locals {
				for _, b := range locals[i+1:] {
					if a.begin < b.end && b.begin < a.end {
						overlap = true
					}
				}
				if overlap {
					break
				}
			}
			if overlap {
				x.Label("overlapping-" + strings.ReplaceAll(kind, " ", "-") + "-calls")
				x.NonTrivial(true)
			}
			x.Labelf("local-%s-calls=%d+", strings.ReplaceAll(kind, " ", "-"), len(locals)/100*100)
		}
	}
	if failedCalls > 0 {
		x.Label("calls-that-fail-after-taking-their-time")
	}
}

func TestC06(t *testing.T) { vkit.Run(t, "C06", genC06, bodyC06) }
