//go:build verif

package core2

import (
	"bytes"
	"fmt"
	"net"
	"testing"
	"time"

	"github.com/hashicorp/serf/serf"
	"pgregory.net/rapid"

	"verif/internal/node"
	"verif/internal/simnet"
	"verif/internal/vkit"
)

// C35 — query reply relays go to distinct eligible peers.
//
// Part A (selection): the real kRandomMembers on generated member lists
// (duplicate names, every status, protocol max 2-5) with the production
// exclusion predicate; any output must be a valid selection.
// Part B (end to end): a node whose member table was built by injection
// answers (ack and Respond) an injected query with relay factor k; the
// captured packets must be one direct reply plus at most k relay envelopes to
// distinct, alive, relay-capable members other than the node itself.

type c35Member struct {
	Name   int `json:"n"`  // index into a small name pool (=> duplicates)
	IP     int `json:"ip"` // 1..4
	Port   int `json:"p"`  // 0..1
	Status int `json:"s"`  // 0 alive 1 leaving 2 failed 3 left 4 none(part A only)
	PMax   int `json:"v"`  // 2..5
}

type c35Case struct {
	List  []c35Member `json:"list"`  // part A
	Self  int         `json:"self"`  // part A: name index of "self"
	K     int         `json:"k"`     // part A
	Table []c35Member `json:"table"` // part B: later entries with the same name are dropped
	Relay int         `json:"relay"` // part B: relay factor of the query (0..255: the wire field is one byte)
	Ack   bool        `json:"ack"`   // part B: query requests an ack
	// Origin: form of the origin address the query carries: 0 IPv4 in 4 bytes,
	// 1 the same IPv4 address in 16 bytes, 2 an IPv6 address
	Origin int `json:"origin,omitempty"`
}

var c35Status = []serf.MemberStatus{serf.StatusAlive, serf.StatusLeaving, serf.StatusFailed, serf.StatusLeft, serf.StatusNone}

func genC35(t *rapid.T) c35Case {
	var c c35Case
	gm := func(names, statuses int) c35Member {
		return c35Member{
			Name:   rapid.IntRange(0, names-1).Draw(t, "name"),
			IP:     rapid.IntRange(1, 4).Draw(t, "ip"),
			Port:   rapid.IntRange(0, 1).Draw(t, "port"),
			Status: rapid.SampledFrom([]int{0, 0, 0, 0, 0, 1, 2, 3, 4}[:5+statuses]).Draw(t, "status"),
			PMax:   rapid.SampledFrom([]int{5, 5, 5, 5, 5, 5, 4, 4, 3, 2}).Draw(t, "pmax"),
		}
	}
	n := rapid.IntRange(0, 12).Draw(t, "n")
	for i := 0; i < n; i++ {
		c.List = append(c.List, gm(8, 4))
	}
	c.Self = rapid.IntRange(0, 7).Draw(t, "self")
	c.K = rapid.OneOf(rapid.IntRange(0, 12), rapid.IntRange(1, 4), rapid.SampledFrom([]int{254, 255, 256})).Draw(t, "k")
	nt := rapid.OneOf(rapid.IntRange(0, 9), rapid.IntRange(4, 9)).Draw(t, "nt")
	for i := 0; i < nt; i++ {
		c.Table = append(c.Table, gm(9, 3))
	}
	c.Relay = rapid.OneOf(rapid.IntRange(0, 10), rapid.IntRange(1, 4), rapid.IntRange(1, 3), rapid.SampledFrom([]int{255, 254, 128, 127})).Draw(t, "relay")
	c.Ack = rapid.Bool().Draw(t, "ack")
	c.Origin = rapid.SampledFrom([]int{0, 0, 1, 2}).Draw(t, "origin")
	return c
}

func c35Addr(m c35Member) (string, uint16) {
	return fmt.Sprintf("10.1.0.%d", m.IP), uint16(7946 + m.Port)
}

func bodyC35(c c35Case, x *vkit.Ctx) {
	// ------------------------------------------------------------ part A
	selfA := fmt.Sprintf("m%d", c.Self)
	var list []serf.Member
	names := map[string]int{}
	eligibleNames := map[string]bool{}
	ineligible := 0
	for _, m := range c.List {
		ip, port := c35Addr(m)
		sm := serf.Member{Name: fmt.Sprintf("m%d", m.Name), Addr: net.ParseIP(ip), Port: port,
			Status: c35Status[m.Status%len(c35Status)], ProtocolMax: uint8(m.PMax)}
		list = append(list, sm)
		names[sm.Name]++
		if sm.Status == serf.StatusAlive && sm.ProtocolMax >= 5 && sm.Name != selfA {
			eligibleNames[sm.Name] = true
		} else {
			ineligible++
		}
	}
	dups := 0
	for _, k := range names {
		if k > 1 {
			dups++
		}
	}
	exclude := func(m serf.Member) bool { return m.Status != serf.StatusAlive || m.ProtocolMax < 5 || m.Name == selfA }
	for rep := 0; rep < 4; rep++ {
		out := serf.VerifKRandomMembers(c.K, list, exclude)
		if len(out) > c.K {
			x.Violationf("selection-more-than-k", "kRandomMembers(k=%d) returned %d members", c.K, len(out))
			return
		}
		seen := map[string]bool{}
		for _, m := range out {
			if seen[m.Name] {
				x.Violationf("selection-duplicate-name", "kRandomMembers(k=%d) returned member %q twice (list %v)", c.K, m.Name, c.List)
				return
			}
			seen[m.Name] = true
			if m.Status != serf.StatusAlive || m.ProtocolMax < 5 || m.Name == selfA {
				x.Violationf("selection-ineligible", "kRandomMembers returned %q status %v protocol max %d (self %q)", m.Name, m.Status, m.ProtocolMax, selfA)
				return
			}
			found := false
			for _, l := range list {
				if l.Name == m.Name && l.Addr.Equal(m.Addr) && l.Port == m.Port && l.Status == m.Status && l.ProtocolMax == m.ProtocolMax {
					found = true
				}
			}
			if !found {
				x.Violationf("selection-not-from-list", "kRandomMembers returned %+v which is not in the list", m)
				return
			}
		}
		x.Labelf("A:selected=%d", min(len(out), 4))
	}
	ntA := ineligible > 0 && dups > 0 && c.K > 0 && c.K < len(eligibleNames)
	if ntA {
		x.Label("A:nontrivial")
	}

	// ------------------------------------------------------------ part B
	nw := simnet.New(1)
	const self = "c35-self"
	n := mkNode(x, nw, node.Opts{Name: self, Quiet: true})
	if n == nil {
		return
	}
	defer n.Stop()
	type tm struct {
		name, ip string
		port     uint16
		eligible bool
	}
	table := map[string]*tm{}
	nIneligible, nEligible := 0, 0
	for i, m := range c.Table {
		name := fmt.Sprintf("m%d", m.Name)
		if table[name] != nil {
			continue
		}
		ip, port := c35Addr(m)
		ml := node.MLNode(name, ip, port, nil, uint8(m.PMax), 5)
		n.EventsD.NotifyJoin(ml)
		st := m.Status % 4
		if st == 1 || st == 3 { // leaving / left: a leave intent newer than anything the member has
			n.Delegate.NotifyMsg(mustEncode(serf.VerifMessageLeaveType, &serf.VerifMessageLeave{LTime: serf.LamportTime(100 + i), Node: name}))
		}
		if st == 2 || st == 3 { // failed / left: memberlist reports the node gone
			n.EventsD.NotifyLeave(ml)
		}
		e := st == 0 && m.PMax >= 5
		table[name] = &tm{name, ip, port, e}
		if e {
			nEligible++
		} else {
			nIneligible++
		}
	}
	known := len(table) + 1 // members the node knows, itself included
	// cross-check the construction (not the property): statuses as intended
	for _, m := range n.Serf.Members() {
		if t := table[m.Name]; t != nil && (m.Status == serf.StatusAlive && m.ProtocolMax >= 5) != t.eligible {
			x.Inconclusive("member table construction did not produce the intended statuses")
			return
		}
	}
	if len(n.Serf.Members()) != known {
		x.Inconclusive("member table size differs from the construction")
		return
	}

	relay := min(max(c.Relay, 0), 255)
	fq := foreignQuery(5, 77, "c35-q", []byte("?"))
	fq.RelayFactor = uint8(relay)
	if c.Ack {
		fq.Flags |= serf.VerifQueryFlagAck
	}
	origin := originIP + fmt.Sprint(":", originPort) // written out, not derived through the code's formatting
	switch c.Origin {
	case 1:
		fq.Addr = net.ParseIP(originIP).To16()
		x.Label("B:origin-ipv4-in-16-bytes")
	case 2:
		fq.Addr = net.ParseIP("fd00::9:8:7")
		origin = fmt.Sprint("[fd00::9:8:7]:", originPort)
		x.Label("B:origin-ipv6")
	}
	nw.Packets()
	n.Delegate.NotifyMsg(mustEncode(serf.VerifMessageQueryType, fq))
	ackPk := node.UserMsgs(nw.Packets())
	q, _, ok := waitQuery(n, "c35-q", 5*time.Second)
	if !ok {
		x.Inconclusive("injected query not delivered")
		return
	}
	nw.Packets()
	respPayload := []byte("the-answer")
	if err := q.Respond(respPayload); err != nil {
		x.Inconclusive("Respond failed: " + err.Error())
		return
	}
	respPk := node.UserMsgs(nw.Packets())

	checkReply := func(kind string, pk []simnet.Packet, wantAck bool, payload []byte) bool {
		direct := 0
		relayTo := map[string]bool{}
		matches := func(r *serf.VerifMessageQueryResponse) bool {
			return r.LTime == fq.LTime && r.ID == fq.ID && r.From == self && (r.Flags&serf.VerifQueryFlagAck != 0) == wantAck && bytes.Equal(r.Payload, payload)
		}
		for _, p := range pk {
			if len(p.Buf) == 0 {
				continue
			}
			switch p.Buf[0] {
			case serf.VerifMessageQueryResponseType:
				var r serf.VerifMessageQueryResponse
				if err := serf.VerifDecodeMessage(p.Buf[1:], &r); err != nil || !matches(&r) {
					x.Violationf("reply-content", "%s: unexpected direct reply packet to %s: %+v (err %v)", kind, p.To, r, err)
					return false
				}
				if p.To != origin {
					x.Violationf("direct-reply-not-to-origin", "%s: direct reply sent to %s (%s), origin is %s", kind, p.To, p.ToName, origin)
					return false
				}
				direct++
			case serf.VerifMessageRelayType:
				hdr, inner, err := splitRelay(p.Buf)
				if err != nil || len(inner) < 1 || inner[0] != serf.VerifMessageQueryResponseType {
					x.Violationf("relay-envelope-malformed", "%s: relay packet to %s cannot be unwrapped: %v", kind, p.To, err)
					return false
				}
				var r serf.VerifMessageQueryResponse
				if err := serf.VerifDecodeMessage(inner[1:], &r); err != nil || !matches(&r) {
					x.Violationf("reply-content", "%s: relay packet to %s wraps an unexpected reply %+v (err %v)", kind, p.To, r, err)
					return false
				}
				if hdr.DestAddr.String() != origin || hdr.DestName != originName {
					x.Violationf("relay-envelope-destination", "%s: relay envelope names %s (%q) as destination, origin is %s (%q)", kind, hdr.DestAddr.String(), hdr.DestName, origin, originName)
					return false
				}
				if p.ToName == self || p.To == n.Tr.Addr() {
					x.Violationf("relay-through-self", "%s: relay packet sent to the node itself (%s %s)", kind, p.ToName, p.To)
					return false
				}
				t := table[p.ToName]
				if t == nil || p.To != fmt.Sprintf("%s:%d", t.ip, t.port) {
					x.Violationf("relay-to-unknown-member", "%s: relay packet sent to %s (%s) which is not a known member", kind, p.ToName, p.To)
					return false
				}
				if !t.eligible {
					x.Violationf("relay-through-ineligible-member", "%s: relay packet sent through %s which is not alive or does not support relaying (table %v)", kind, p.ToName, c.Table)
					return false
				}
				if relayTo[p.ToName] {
					x.Violationf("relay-through-same-member-twice", "%s: two relay packets through %s", kind, p.ToName)
					return false
				}
				relayTo[p.ToName] = true
			}
		}
		if direct != 1 {
			x.Violationf("direct-reply-count", "%s: %d direct reply packets to the origin, want exactly 1", kind, direct)
			return false
		}
		if len(relayTo) > relay {
			x.Violationf("more-than-k-relays", "%s: %d relay packets, relay factor %d", kind, len(relayTo), relay)
			return false
		}
		if known < relay+1 && len(relayTo) > 0 {
			x.Violationf("relay-in-tiny-cluster", "%s: %d relay packets although only %d members are known (relay factor %d)", kind, len(relayTo), known, relay)
			return false
		}
		x.Labelf("B:%s-relays=%d", kind, min(len(relayTo), 4))
		return true
	}
	if c.Ack {
		if !checkReply("ack", ackPk, true, nil) {
			return
		}
	} else {
		for _, p := range ackPk {
			if len(p.Buf) > 0 && (p.Buf[0] == serf.VerifMessageQueryResponseType || p.Buf[0] == serf.VerifMessageRelayType) {
				x.Violationf("reply-without-request", "a reply packet was sent on delivery of a query that did not ask for an ack")
				return
			}
		}
	}
	if !checkReply("response", respPk, false, respPayload) {
		return
	}
	switch {
	case relay == 0:
		x.Label("B:relay-factor-0")
	case relay >= 254 && nEligible > 0:
		x.Label("B:relay-factor-at-byte-limit")
	case known < relay+1:
		x.Label("B:too-few-members")
	case nEligible == 0:
		x.Label("B:no-eligible-member")
	default:
		x.Label("B:relay-possible")
	}
	ntB := nIneligible > 0 && relay > 0 && relay < nEligible && known >= relay+1
	if ntB {
		x.Label("B:nontrivial")
	}
	x.NonTrivial(ntA || ntB)
}

func TestC35(t *testing.T) { vkit.Run(t, "C35", genC35, bodyC35) }
