//go:build verif

package core2

import (
	"fmt"
	"net"
	"runtime"
	"strings"
	"testing"
	"time"

	"github.com/hashicorp/memberlist"
	"github.com/hashicorp/serf/serf"
	"pgregory.net/rapid"

	"verif/internal/node"
	"verif/internal/simnet"
	"verif/internal/vkit"
)

// C36 — name conflicts are settled by a strict majority of valid replies.
//
// One node with conflict resolution on and a query timeout of 40-100 ms.  The
// check calls the node's conflict delegate (existing = the node itself), finds
// the conflict query through VerifOpenQueries and injects a generated multiset
// of replies through the memberlist delegate before the deadline.  After the
// query closed the node must be shut down iff own votes are not a strict
// majority of the valid replies (first reply per sender, malformed ignored).
//
// Replies are hand-encoded member records (every address / port form,
// malformed variants) or genuine ones: what a real responder node's conflict
// handler answers when it is asked about the name (it knows the name at a
// drawn address, or does not know it at all).
//
// The verdict never depends on the node announcing its decision: the log line
// only shortens the wait.  A resolver that stays silent is judged by State()
// once the query has closed and a grace period without scheduler starvation
// has passed.

type c36Reply struct {
	From    int    `json:"from"`    // sender index (small pool => repeated senders); 10 = the node's own name, 11 = empty name
	Kind    int    `json:"kind"`    // 0 valid member, 1 wrong type byte, 2 garbage behind the right type byte, 3 empty payload, 4 encoded nil member, 5 genuine: answered by a real responder node, 6 valid record that leaves address and port out (names nobody's address), 7 a complete record cut short by 1-3 bytes (malformed)
	Addr    int    `json:"addr"`    // 0 own, 1 own in the other byte form (4 vs 16 bytes), 2 other IP, 3 no address
	Port    int    `json:"port"`    // 0 own, 1 own+1, 2 zero, 3 own-1
	Garbage []byte `json:"garbage"` // kind 2
	Type    int    `json:"type"`    // kind 1: the wrong type byte
}

type c36Case struct {
	Mult    int        `json:"mult"` // QueryTimeoutMult; timeout = 5ms * Mult
	Replies []c36Reply `json:"replies"`
}

func genC36(t *rapid.T) c36Case {
	c := c36Case{Mult: rapid.IntRange(8, 20).Draw(t, "mult")}
	n := rapid.IntRange(0, 9).Draw(t, "n")
	ownBias := rapid.SampledFrom([][]int{{0, 0, 1, 2}, {0, 1, 2, 2, 3}, {0, 0, 0, 1, 2}}).Draw(t, "bias")
	for i := 0; i < n; i++ {
		r := c36Reply{
			From: rapid.OneOf(rapid.Just(i), rapid.IntRange(0, 11)).Draw(t, "from"),
			Kind: rapid.SampledFrom([]int{0, 0, 0, 0, 0, 5, 5, 1, 2, 3, 4, 6, 6, 7}).Draw(t, "kind"),
			Addr: rapid.SampledFrom(ownBias).Draw(t, "addr"),
			Port: rapid.SampledFrom([]int{0, 0, 0, 0, 0, 0, 1, 2, 3}).Draw(t, "port"),
		}
		switch r.Kind {
		case 1:
			r.Type = rapid.SampledFrom([]int{0, 1, 3, 4, 5, 7, 8, 9, 200}).Draw(t, "type")
		case 2:
			r.Garbage = rapid.SliceOfN(rapid.Byte(), 1, 5).Draw(t, "garbage")
		}
		c.Replies = append(c.Replies, r)
	}
	return c
}

func bodyC36(c c36Case, x *vkit.Ctx) {
	nw := simnet.New(1)
	const self = "c36-self"
	mult := min(max(c.Mult, 4), 40)
	n := mkNode(x, nw, node.Opts{Name: self, Quiet: true, Mutate: func(conf *serf.Config) {
		conf.EnableNameConflictResolution = true
		conf.MemberlistConfig.GossipInterval = 5 * time.Millisecond // only used for the default query timeout: the node has no peers to gossip to
		conf.QueryTimeoutMult = mult
	}})
	if n == nil {
		return
	}
	defer n.Stop()
	timeout := n.Serf.DefaultQueryTimeout()
	if timeout != time.Duration(mult)*5*time.Millisecond {
		x.Inconclusive("unexpected default query timeout")
		return
	}
	local := n.Serf.Memberlist().LocalNode()
	ownIP := net.IP(local.Addr)
	otherIP := net.ParseIP("10.66.0.1").To4()

	// ---- build the replies and the reference count
	type built struct {
		from    string
		payload []byte
	}
	// genuine replies: a real responder node that has the name in its member
	// table at the drawn address (or, for "no address", one that never heard
	// of the name) is asked the conflict question and its answer's payload is
	// what the voter sends
	var knowing, ignorant *node.Node
	var rnet *simnet.Network
	askSeq := 0
	genuine := func(ip net.IP, port uint16) ([]byte, bool) {
		if rnet == nil {
			rnet = simnet.New(2)
		}
		r := &ignorant
		rname := "c36-ignorant"
		if ip != nil {
			r, rname = &knowing, "c36-knowing"
		}
		if *r == nil {
			if *r = mkNode(x, rnet, node.Opts{Name: rname, Quiet: true}); *r == nil {
				return nil, false
			}
		}
		if ip != nil {
			(*r).EventsD.NotifyJoin(&memberlist.Node{Name: self, Addr: ip, Port: port, PMin: 1, PMax: 5, PCur: 2, DMin: 2, DMax: 5, DCur: 5})
		}
		askSeq++
		ask := foreignQuery(uint64(askSeq), uint32(0x36000000+askSeq), "_serf_conflict", []byte(self))
		rnet.Packets()
		(*r).Delegate.NotifyMsg(mustEncode(serf.VerifMessageQueryType, ask))
		for t1 := time.Now(); time.Since(t1) < 2*time.Second; time.Sleep(100 * time.Microsecond) {
			for _, p := range node.UserMsgs(rnet.Packets()) {
				var resp serf.VerifMessageQueryResponse
				if len(p.Buf) > 1 && p.Buf[0] == serf.VerifMessageQueryResponseType && serf.VerifDecodeMessage(p.Buf[1:], &resp) == nil &&
					resp.Flags&serf.VerifQueryFlagAck == 0 && resp.ID == ask.ID && p.From == rname {
					return resp.Payload, true
				}
			}
		}
		x.Inconclusive("the responder node did not answer the conflict question")
		return nil, false
	}
	defer func() {
		for _, r := range []*node.Node{knowing, ignorant} {
			if r != nil {
				r.Stop()
			}
		}
	}()
	var msgs []built
	counted := map[string]bool{}
	valid, own, malformed, repeated, genuineN := 0, 0, 0, 0, 0
	for _, r := range c.Replies {
		from := fmt.Sprintf("voter-%d", r.From)
		switch r.From {
		case 10:
			from = self
		case 11:
			from = ""
		}
		var payload []byte
		m := serf.Member{Name: self, Port: local.Port, Status: serf.StatusAlive}
		switch r.Addr {
		case 0:
			m.Addr = ownIP
		case 1:
			// the same address in the other byte form (4-byte vs 16-byte): an equal IP
			if v4 := ownIP.To4(); v4 != nil && len(ownIP) == net.IPv6len {
				m.Addr = v4
			} else {
				m.Addr = ownIP.To16()
			}
		case 2:
			m.Addr = otherIP
		}
		switch r.Port {
		case 1:
			m.Port = local.Port + 1
		case 2:
			m.Port = 0
		case 3:
			m.Port = local.Port - 1
		}
		switch r.Kind {
		case 0:
			payload = mustEncode(serf.VerifMessageConflictResponseType, &m)
		case 1:
			payload = mustEncode(uint8(r.Type), &m)
		case 2:
			payload = append([]byte{serf.VerifMessageConflictResponseType}, r.Garbage...)
		case 3:
			payload = []byte{}
		case 6:
			// a well-formed record with fewer fields: it names the node, but no
			// address and no port (every reply is judged on what IT says)
			payload = mustEncode(serf.VerifMessageConflictResponseType, &struct{ Name string }{self})
		case 7:
			full := mustEncode(serf.VerifMessageConflictResponseType, &m)
			payload = full[:len(full)-1-len(r.Garbage)%3]
		case 5:
			var ok bool
			if payload, ok = genuine(m.Addr, m.Port); !ok {
				return
			}
			genuineN++
		default:
			var nilMember *serf.Member
			payload = mustEncode(serf.VerifMessageConflictResponseType, nilMember)
		}
		msgs = append(msgs, built{from, payload})
		if counted[from] { // serf keeps one reply per sender: the first
			repeated++
			continue
		}
		counted[from] = true
		if r.Kind == 5 {
			// reference for a genuine reply: what the responder believes, i.e. what it
			// was told (a responder answers with "the address we believe that node is
			// at, if any"); not read back from the payload it produced
			valid++
			if m.Addr != nil && m.Addr.Equal(ownIP) && m.Port == local.Port {
				own++
			}
			continue
		}
		// reference: is it a well-formed conflict reply, and whom does it name?
		var dec serf.Member
		if len(payload) < 1 || payload[0] != serf.VerifMessageConflictResponseType || serf.VerifDecodeMessage(payload[1:], &dec) != nil {
			malformed++
			continue
		}
		valid++
		if dec.Addr != nil && dec.Addr.Equal(ownIP) && dec.Port == local.Port {
			own++
		}
	}
	wantShutdown := 2*own <= valid // own votes are not a strict majority
	x.Labelf("valid=%d", min(valid, 6))
	x.Labelf("2*own-valid=%d", max(min(2*own-valid, 3), -3))
	if malformed > 0 {
		x.Label("malformed-present")
	}
	if repeated > 0 {
		x.Label("repeated-sender")
	}
	if genuineN > 0 {
		x.Label("genuine-reply-present")
	}

	// ---- run the resolution
	mon := vkit.StartMonitor()
	defer mon.Stop()
	t0 := time.Now()
	other := node.MLNode(self, "10.66.0.1", 7946, nil, 5, 5)
	n.Serf.VerifConflictDelegate().NotifyConflict(local, other)
	var open []serf.VerifOpenQuery
	for time.Since(t0) < time.Second {
		if open = n.Serf.VerifOpenQueries(); len(open) > 0 {
			break
		}
		time.Sleep(100 * time.Microsecond)
	}
	if len(open) != 1 {
		x.Inconclusive("conflict query did not open")
		return
	}
	for _, m := range msgs {
		n.Delegate.NotifyMsg(mustEncode(serf.VerifMessageQueryResponseType, &serf.VerifMessageQueryResponse{
			LTime: open[0].LTime, ID: open[0].ID, From: m.from, Payload: m.payload}))
		// the response channel has room for one reply (one known member): let the resolver take it
		// (yielding spin: timer sleeps are too coarse on a loaded machine)
		for t1 := time.Now(); time.Since(t1) < 200*time.Microsecond; {
			runtime.Gosched()
		}
	}
	if time.Since(t0) > timeout-3*time.Millisecond {
		x.Inconclusive("replies could not be injected before the query deadline")
		return
	}
	// ---- wait for the decision.  The query closes at its timeout (that ends the
	// vote); the resolver then either returns or shuts the node down.  A log line
	// announcing the decision shortens the wait, but is not required.
	for time.Since(t0) < timeout+5*time.Second && len(n.Serf.VerifOpenQueries()) > 0 {
		time.Sleep(200 * time.Microsecond)
	}
	if len(n.Serf.VerifOpenQueries()) > 0 {
		x.Inconclusive("the conflict query did not close")
		return
	}
	mon.MaxGap()
	closedAt := time.Now()
	const grace = 400 * time.Millisecond
	decided := "silent"
	for time.Since(closedAt) < grace {
		l := n.Log.String()
		if strings.Contains(l, "majority in name conflict resolution") {
			decided = "majority"
			break
		}
		if strings.Contains(l, "minority in name conflict resolution") {
			decided = "minority"
			break
		}
		if n.Serf.State() == serf.SerfShutdown {
			break
		}
		time.Sleep(200 * time.Microsecond)
	}
	logText := n.Log.String()
	if strings.Contains(logText, "Failed to deliver query response") {
		x.Inconclusive("a reply was dropped because the response channel was full")
		return
	}
	switch decided {
	case "minority":
		for t1 := time.Now(); time.Since(t1) < 3*time.Second && n.Serf.State() != serf.SerfShutdown; {
			time.Sleep(200 * time.Microsecond)
		}
	case "majority":
		time.Sleep(2 * time.Millisecond) // a shutdown that followed the announcement would be under way by now
	}
	x.Label("decision:" + decided)
	isShutdown := n.Serf.State() == serf.SerfShutdown
	// verdicts that rest on a wait: "not (yet) shut down" after an announced
	// minority or after a silent resolver's grace period
	if g := mon.MaxGap(); decided != "majority" && !isShutdown && g > 50*time.Millisecond {
		x.Inconclusive("scheduler starvation while waiting for the shutdown")
		return
	}
	tail := logText
	if i := strings.LastIndex(tail, "name conflict resolution"); i >= 0 {
		tail = tail[max(0, i-40):]
	} else if len(tail) > 300 {
		tail = tail[len(tail)-300:]
	}
	switch {
	case wantShutdown && !isShutdown:
		x.Violationf("survived-without-majority", "%d valid replies (first per sender), %d name the node's own address:port, %d malformed ignored: no strict majority, yet state is %v (decision announced: %s); log: %s", valid, own, malformed, n.Serf.State(), decided, strings.TrimSpace(tail))
		return
	case !wantShutdown && isShutdown:
		x.Violationf("shutdown-despite-majority", "%d valid replies (first per sender), %d name the node's own address:port, %d malformed ignored: strict majority, yet the node shut down (decision announced: %s); log: %s", valid, own, malformed, decided, strings.TrimSpace(tail))
		return
	}
	d := 2*own - valid
	x.NonTrivial(valid >= 2 && d >= -2 && d <= 2 && malformed > 0)
}

func TestC36(t *testing.T) { vkit.Run(t, "C36", genC36, bodyC36) }
