//go:build verif

package core2

import (
	"fmt"
	"net"
	"runtime"
	"strings"
	"testing"
	"time"

	"github.com/hashicorp/serf/serf"
	"pgregory.net/rapid"

	"verif/internal/node"
	"verif/internal/simnet"
	"verif/internal/vkit"
)

// C36 — name conflicts are settled by a strict majority of valid replies.
//
// One node with conflict resolution on and a query timeout of 40-100 ms.  The
// check calls the node's conflict delegate (existing = the node itself), finds
// the conflict query through VerifOpenQueries and injects a generated multiset
// of replies through the memberlist delegate before the deadline.  After the
// query closed the node must be shut down iff own votes are not a strict
// majority of the valid replies (first reply per sender, malformed ignored).

type c36Reply struct {
	From    int    `json:"from"`    // sender index (small pool => repeated senders)
	Kind    int    `json:"kind"`    // 0 valid member, 1 wrong type byte, 2 garbage behind the right type byte, 3 empty payload, 4 encoded nil member
	Addr    int    `json:"addr"`    // 0 own, 1 own in the other byte form (4 vs 16 bytes), 2 other IP, 3 no address
	Port    int    `json:"port"`    // 0 own, 1 other
	Garbage []byte `json:"garbage"` // kind 2
	Type    int    `json:"type"`    // kind 1: the wrong type byte
}

type c36Case struct {
	Mult    int        `json:"mult"` // QueryTimeoutMult; timeout = 5ms * Mult
	Replies []c36Reply `json:"replies"`
}

func genC36(t *rapid.T) c36Case {
	c := c36Case{Mult: rapid.IntRange(8, 20).Draw(t, "mult")}
	n := rapid.IntRange(0, 9).Draw(t, "n")
	ownBias := rapid.SampledFrom([][]int{{0, 0, 1, 2}, {0, 1, 2, 2, 3}, {0, 0, 0, 1, 2}}).Draw(t, "bias")
	for i := 0; i < n; i++ {
		r := c36Reply{
			From: rapid.OneOf(rapid.Just(i), rapid.IntRange(0, 9)).Draw(t, "from"),
			Kind: rapid.SampledFrom([]int{0, 0, 0, 0, 0, 0, 1, 2, 3, 4}).Draw(t, "kind"),
			Addr: rapid.SampledFrom(ownBias).Draw(t, "addr"),
			Port: rapid.SampledFrom([]int{0, 0, 0, 0, 1}).Draw(t, "port"),
		}
		switch r.Kind {
		case 1:
			r.Type = rapid.SampledFrom([]int{0, 1, 3, 4, 5, 7, 8, 9, 200}).Draw(t, "type")
		case 2:
			r.Garbage = rapid.SliceOfN(rapid.Byte(), 1, 5).Draw(t, "garbage")
		}
		c.Replies = append(c.Replies, r)
	}
	return c
}

func bodyC36(c c36Case, x *vkit.Ctx) {
	nw := simnet.New(1)
	const self = "c36-self"
	mult := min(max(c.Mult, 4), 40)
	n := mkNode(x, nw, node.Opts{Name: self, Quiet: true, Mutate: func(conf *serf.Config) {
		conf.EnableNameConflictResolution = true
		conf.MemberlistConfig.GossipInterval = 5 * time.Millisecond // only used for the default query timeout: the node has no peers to gossip to
		conf.QueryTimeoutMult = mult
	}})
	if n == nil {
		return
	}
	defer n.Stop()
	timeout := n.Serf.DefaultQueryTimeout()
	if timeout != time.Duration(mult)*5*time.Millisecond {
		x.Inconclusive("unexpected default query timeout")
		return
	}
	local := n.Serf.Memberlist().LocalNode()
	ownIP := net.IP(local.Addr)
	otherIP := net.ParseIP("10.66.0.1").To4()

	// ---- build the replies and the reference count
	type built struct {
		from    string
		payload []byte
	}
	var msgs []built
	counted := map[string]bool{}
	valid, own, malformed, repeated := 0, 0, 0, 0
	for _, r := range c.Replies {
		from := fmt.Sprintf("voter-%d", r.From)
		var payload []byte
		m := serf.Member{Name: self, Port: local.Port, Status: serf.StatusAlive}
		switch r.Addr {
		case 0:
			m.Addr = ownIP
		case 1:
			// the same address in the other byte form (4-byte vs 16-byte): an equal IP
			if v4 := ownIP.To4(); v4 != nil && len(ownIP) == net.IPv6len {
				m.Addr = v4
			} else {
				m.Addr = ownIP.To16()
			}
		case 2:
			m.Addr = otherIP
		}
		if r.Port != 0 {
			m.Port = local.Port + 1
		}
		switch r.Kind {
		case 0:
			payload = mustEncode(serf.VerifMessageConflictResponseType, &m)
		case 1:
			payload = mustEncode(uint8(r.Type), &m)
		case 2:
			payload = append([]byte{serf.VerifMessageConflictResponseType}, r.Garbage...)
		case 3:
			payload = []byte{}
		default:
			var nilMember *serf.Member
			payload = mustEncode(serf.VerifMessageConflictResponseType, nilMember)
		}
		msgs = append(msgs, built{from, payload})
		if counted[from] { // serf keeps one reply per sender: the first
			repeated++
			continue
		}
		counted[from] = true
		// reference: is it a well-formed conflict reply, and whom does it name?
		var dec serf.Member
		if len(payload) < 1 || payload[0] != serf.VerifMessageConflictResponseType || serf.VerifDecodeMessage(payload[1:], &dec) != nil {
			malformed++
			continue
		}
		valid++
		if dec.Addr != nil && dec.Addr.Equal(ownIP) && dec.Port == local.Port {
			own++
		}
	}
	wantShutdown := 2*own <= valid // own votes are not a strict majority
	x.Labelf("valid=%d", min(valid, 6))
	x.Labelf("2*own-valid=%d", max(min(2*own-valid, 3), -3))
	if malformed > 0 {
		x.Label("malformed-present")
	}
	if repeated > 0 {
		x.Label("repeated-sender")
	}

	// ---- run the resolution
	mon := vkit.StartMonitor()
	defer mon.Stop()
	t0 := time.Now()
	other := node.MLNode(self, "10.66.0.1", 7946, nil, 5, 5)
	n.Serf.VerifConflictDelegate().NotifyConflict(local, other)
	var open []serf.VerifOpenQuery
	for time.Since(t0) < time.Second {
		if open = n.Serf.VerifOpenQueries(); len(open) > 0 {
			break
		}
		time.Sleep(100 * time.Microsecond)
	}
	if len(open) != 1 {
		x.Inconclusive("conflict query did not open")
		return
	}
	for _, m := range msgs {
		n.Delegate.NotifyMsg(mustEncode(serf.VerifMessageQueryResponseType, &serf.VerifMessageQueryResponse{
			LTime: open[0].LTime, ID: open[0].ID, From: m.from, Payload: m.payload}))
		// the response channel has room for one reply (one known member): let the resolver take it
		// (yielding spin: timer sleeps are too coarse on a loaded machine)
		for t1 := time.Now(); time.Since(t1) < 200*time.Microsecond; {
			runtime.Gosched()
		}
	}
	if time.Since(t0) > timeout-3*time.Millisecond {
		x.Inconclusive("replies could not be injected before the query deadline")
		return
	}
	// ---- wait for the decision (log line = synchronisation only)
	decided := ""
	for time.Since(t0) < timeout+5*time.Second {
		l := n.Log.String()
		if strings.Contains(l, "majority in name conflict resolution") {
			decided = "majority"
			break
		}
		if strings.Contains(l, "minority in name conflict resolution") {
			decided = "minority"
			break
		}
		time.Sleep(time.Millisecond)
	}
	logText := n.Log.String()
	if strings.Contains(logText, "Failed to deliver query response") {
		x.Inconclusive("a reply was dropped because the response channel was full")
		return
	}
	if decided == "" {
		x.Inconclusive("resolution did not announce a decision")
		return
	}
	if decided == "minority" {
		for t1 := time.Now(); time.Since(t1) < 3*time.Second && n.Serf.State() != serf.SerfShutdown; {
			time.Sleep(200 * time.Microsecond)
		}
	}
	isShutdown := n.Serf.State() == serf.SerfShutdown
	// the only verdict that rests on a wait is "announced minority but not (yet) shut down"
	if g := mon.MaxGap(); decided == "minority" && !isShutdown && g > 50*time.Millisecond {
		x.Inconclusive("scheduler starvation while waiting for the announced shutdown")
		return
	}
	tail := logText
	if i := strings.LastIndex(tail, "name conflict resolution"); i >= 0 {
		tail = tail[max(0, i-40):]
	}
	switch {
	case wantShutdown && !isShutdown:
		x.Violationf("survived-without-majority", "%d valid replies (first per sender), %d name the node's own address:port, %d malformed ignored: no strict majority, yet state is %v; log: %s", valid, own, malformed, n.Serf.State(), strings.TrimSpace(tail))
		return
	case !wantShutdown && isShutdown:
		x.Violationf("shutdown-despite-majority", "%d valid replies (first per sender), %d name the node's own address:port, %d malformed ignored: strict majority, yet the node shut down; log: %s", valid, own, malformed, strings.TrimSpace(tail))
		return
	}
	d := 2*own - valid
	x.NonTrivial(valid >= 2 && d >= -2 && d <= 2 && malformed > 0)
}

func TestC36(t *testing.T) { vkit.Run(t, "C36", genC36, bodyC36) }
