//go:build verif

package core

import (
	"fmt"
	"runtime"
	"strings"
	"testing"
	"time"

	"github.com/hashicorp/serf/serf"
	"pgregory.net/rapid"

	"verif/internal/node"
	"verif/internal/simnet"
	"verif/internal/vkit"
)

// C03 — a running member never reports itself departed and refutes newer
// claims with a join whose Lamport time is strictly greater than the claim.
//
// One quiet node ("self") that never calls Leave.  Steps send leave /
// force-leave (prune on/off) claims about self by gossip, inside a push/pull
// (LeftMembers lists self) and through the local RemoveFailedNode[Prune](self),
// with Lamport times resolved at run time around self's status time and the
// member clock, interleaved with the node's own joins, user events, queries
// and intents about another member.  A burst step delivers several claims
// back to back without waiting for the refutation goroutines in between.

type c03LT struct {
	Mode int    `json:"m"` // 0 self status time + Rel, 1 member clock + Rel, 2 absolute
	Rel  int    `json:"r,omitempty"`
	Abs  uint64 `json:"a,omitempty"`
}

type c03Step struct {
	Kind   int     `json:"k"` // 0 gossip leave(self) 1 push/pull LeftMembers∋self 2 local RemoveFailedNode(self) 3 own join 4 local user event 5 local query 6 other member 7 gossip join(self) 8 burst of gossip leaves(self)
	LT     c03LT   `json:"lt"`
	Prune  bool    `json:"prune,omitempty"`
	PPLT   c03LT   `json:"pplt"`            // LTime field of the push/pull
	Sub    int     `json:"sub,omitempty"`   // kind 6: 0 NotifyJoin 1 NotifyLeave 2 leave intent 3 join intent; kind 1: layout of the left list (0 self, 1 ghost+self, 2 self twice, 3 other+self+ghost, the others with status times of their own)
	Burst  []c03LT `json:"burst,omitempty"` // kind 8
	Prunes []bool  `json:"prunes,omitempty"`
}

type c03Case struct {
	Steps []c03Step `json:"steps"`
}

func genC03LT(t *rapid.T) c03LT {
	switch rapid.SampledFrom([]int{0, 0, 0, 1, 1, 2}).Draw(t, "ltmode") {
	case 0:
		return c03LT{Mode: 0, Rel: rapid.IntRange(-2, 5).Draw(t, "rel")}
	case 1:
		return c03LT{Mode: 1, Rel: rapid.IntRange(-2, 5).Draw(t, "rel")}
	}
	return c03LT{Mode: 2, Abs: rapid.SampledFrom([]uint64{0, 1, 1000, 1 << 32, 1<<32 + 1, 1 << 63, 1<<63 + 7, maxLT - 1, maxLT - 1, maxLT}).Draw(t, "abs")}
}

func genC03(t *rapid.T) c03Case {
	var c c03Case
	n := rapid.IntRange(3, 24).Draw(t, "steps")
	for i := 0; i < n; i++ {
		st := c03Step{Kind: rapid.SampledFrom([]int{0, 0, 0, 0, 1, 1, 1, 2, 2, 3, 4, 5, 6, 6, 7, 8, 8}).Draw(t, "kind")}
		switch st.Kind {
		case 0, 7:
			st.LT = genC03LT(t)
			st.Prune = rapid.Bool().Draw(t, "prune")
		case 1:
			st.LT = genC03LT(t)
			st.PPLT = genC03LT(t)
			st.Prune = rapid.Bool().Draw(t, "joinflag")
			st.Sub = rapid.IntRange(0, 3).Draw(t, "layout")
		case 2:
			st.Prune = rapid.Bool().Draw(t, "prune")
		case 6:
			st.Sub = rapid.IntRange(0, 3).Draw(t, "sub")
			st.LT = genC03LT(t)
			st.Prune = rapid.Bool().Draw(t, "prune")
		case 8:
			for k := rapid.IntRange(2, 4).Draw(t, "burst"); k > 0; k-- {
				st.Burst = append(st.Burst, genC03LT(t))
				st.Prunes = append(st.Prunes, rapid.Bool().Draw(t, "prune"))
			}
		}
		c.Steps = append(c.Steps, st)
	}
	return c
}

func bodyC03(c c03Case, x *vkit.Ctx) {
	const self, other = "self", "other"
	nw := simnet.New(1)
	n, err := node.New(nw, node.Opts{Name: self, Quiet: true})
	if err != nil {
		x.Inconclusive("node setup: " + err.Error())
		return
	}
	defer n.Stop()
	mon := vkit.StartMonitor()
	defer mon.Stop()
	n.Drain(node.Settle)

	resolve := func(l c03LT) uint64 {
		var b uint64
		switch l.Mode {
		case 0:
			s, _ := n.Serf.VerifStatusLTime(self)
			b = uint64(s)
		case 1:
			m, _, _ := n.Serf.VerifClocks()
			b = uint64(m)
		default:
			return min(l.Abs, maxLT)
		}
		if l.Rel < 0 {
			if b < uint64(-l.Rel) {
				return 0
			}
			return b - uint64(-l.Rel)
		}
		return satAdd(b, uint64(l.Rel))
	}
	// selfJoins lists the Lamport times of the queued join intents about self.
	selfJoins := func() []uint64 {
		intents, _, _ := n.Serf.VerifQueued()
		var out []uint64
		for _, b := range intents {
			if len(b) == 0 || b[0] != serf.VerifMessageJoinType {
				continue
			}
			var j serf.VerifMessageJoin
			if serf.VerifDecodeMessage(b[1:], &j) == nil && j.Node == self {
				out = append(out, uint64(j.LTime))
			}
		}
		return out
	}
	statusLT := func() uint64 { s, _ := n.Serf.VerifStatusLTime(self); return uint64(s) }
	// latestJoin is the harness's own notion of "the member's own latest join":
	// the newest join intent about self the node has put on its broadcast queue
	// (its own joins, its refutations, and joins about itself that it adopted
	// from gossip and passed on; the queue never drains in this harness), 0 for
	// a node that has not sent any. It is NOT the status time the node keeps.
	latestJoin := func() uint64 {
		var mx uint64
		for _, j := range selfJoins() {
			mx = max(mx, j)
		}
		return mx
	}
	// advertisedLeft: would the node list itself as departed in a state sync?
	advertisedLeft := func(si int, what string) bool {
		buf := n.Delegate.LocalState(false)
		if len(buf) < 1 || buf[0] != serf.VerifMessagePushPullType {
			return false
		}
		var pp serf.VerifMessagePushPull
		if serf.VerifDecodeMessage(buf[1:], &pp) != nil {
			return false
		}
		for _, name := range pp.LeftMembers {
			if name == self {
				x.Violationf("self-advertised-as-left", "step %d (%s): the node's push/pull state lists the node itself among the left members", si, what)
				return true
			}
		}
		return false
	}
	// aliveCheck: self must be listed, alive.
	aliveCheck := func(si int, what string) bool {
		found := 0
		for _, m := range n.Serf.Members() {
			if m.Name == self {
				found++
				if m.Status != serf.StatusAlive {
					x.Violationf("self-not-alive", "step %d (%s): Members() lists self as %v", si, what, m.Status)
					return false
				}
			}
		}
		if found != 1 {
			x.Violationf("self-missing-from-members", "step %d (%s): self appears %d times in Members()", si, what, found)
			return false
		}
		if st := n.Serf.LocalMember().Status; st != serf.StatusAlive {
			x.Violationf("self-not-alive", "step %d (%s): LocalMember().Status = %v", si, what, st)
			return false
		}
		if advertisedLeft(si, what) {
			return false
		}
		return true
	}
	// awaitRefutation waits for a queued join(self) newer than claim (strict)
	// or at least claim (!strict), and for the recorded status time to follow.
	awaitRefutation := func(si int, what string, claim uint64, strict bool) bool {
		ok := func() bool {
			s := statusLT()
			if s < claim || (strict && s == claim) {
				return false
			}
			for _, j := range selfJoins() {
				if j > claim || (!strict && j == claim) {
					return true
				}
			}
			return false
		}
		deadline := time.Now().Add(waitCap)
		spins := 0
		for !ok() {
			if time.Now().After(deadline) {
				// (a stall that ended just now looks the same: look once more)
				if time.Sleep(25 * time.Millisecond); ok() {
					x.Inconclusive("refutation arrived right after the cap")
					return false
				}
				missing(x, mon, "claim-not-refuted",
					"step %d (%s): claim about self at Lamport time %d (strict=%v) was newer than self's status time, but after %v the queued self joins are %v and the status time is %d",
					si, what, claim, strict, waitCap, selfJoins(), statusLT())
				return false
			}
			spin(&spins)
		}
		return true
	}

	refuteLogs := func() int { return strings.Count(n.Log.String(), "Refuting an older leave intent") }
	tainted := false
	// syncQueued counts the joins about self that were queued synchronously by a
	// step (own join, adopted gossip join). The node announces every refutation
	// in its log before starting the goroutine that queues it; settled waits, at
	// the end of a step, until all of them have arrived, so that no refutation
	// is in flight when the next step reads the latest join (one push/pull can
	// start two). If the log cannot account for the joins seen, later claims
	// are judged non-strictly (tainted), as for bursts.
	syncQueued := 0
	settled := func() bool {
		deadline, spins := time.Now().Add(waitCap), 0
		for {
			have, due := len(selfJoins()), syncQueued+refuteLogs()
			if have > due {
				tainted = true
			}
			if have >= due {
				return true
			}
			if time.Now().After(deadline) {
				x.Inconclusive("a refutation announced in the log has not queued its join")
				return false
			}
			spin(&spins)
		}
	}
	refuted, stale, viaPP, viaLocal, viaGossip, withPrune, bursts, top, extraJoin := 0, 0, 0, 0, 0, 0, 0, 0, 0
	otherUp := false
	for si, st := range c.Steps {
		before := latestJoin()
		joinsBefore := len(selfJoins())
		claim, isClaim, what := uint64(0), false, ""
		switch st.Kind {
		case 0:
			claim, isClaim, what = resolve(st.LT), true, fmt.Sprintf("gossip leave prune=%v", st.Prune)
			n.Delegate.NotifyMsg(encLeave(claim, self, st.Prune))
			viaGossip++
		case 1:
			claim = max(resolve(st.LT), 1)
			isClaim, what = true, "push/pull lists self as left"
			pp := &serf.VerifMessagePushPull{
				LTime:        serf.LamportTime(resolve(st.PPLT)),
				StatusLTimes: map[string]serf.LamportTime{self: serf.LamportTime(claim - 1)},
				LeftMembers:  []string{self},
			}
			switch st.Sub % 4 {
			case 1:
				pp.LeftMembers = []string{"ghost", self}
				pp.StatusLTimes["ghost"] = serf.LamportTime(claim)
			case 2:
				pp.LeftMembers = []string{self, self}
			case 3:
				pp.LeftMembers = []string{other, self, "ghost"}
				pp.StatusLTimes[other] = serf.LamportTime(satAdd(claim, 3))
			}
			n.Delegate.MergeRemoteState(encPushPull(pp), st.Prune)
			viaPP++
		case 2:
			m, _, _ := n.Serf.VerifClocks()
			if uint64(m) > maxLT {
				x.Label("local-force-leave-skipped-clock-at-top")
				continue
			}
			claim, isClaim, what = uint64(m), true, fmt.Sprintf("local RemoveFailedNode prune=%v", st.Prune)
			if st.Prune {
				_ = n.Serf.RemoveFailedNodePrune(self)
			} else {
				_ = n.Serf.RemoveFailedNode(self)
			}
			viaLocal++
		case 3:
			what = "own join"
			m, _, _ := n.Serf.VerifClocks()
			if uint64(m) > maxLT {
				continue
			}
			if err := n.Serf.VerifBroadcastJoin(); err != nil {
				x.Violationf("own-join-error", "step %d: %v", si, err)
				return
			}
			syncQueued++
		case 4:
			what = "user event"
			_, e, _ := n.Serf.VerifClocks()
			if uint64(e) > maxLT {
				continue
			}
			_ = n.Serf.UserEvent("ev", []byte{byte(si)}, false)
		case 5:
			what = "query"
			_, _, q := n.Serf.VerifClocks()
			if uint64(q) > maxLT {
				continue
			}
			_, _ = n.Serf.Query("q", nil, &serf.QueryParam{Timeout: 2 * time.Millisecond})
		case 6:
			what = fmt.Sprintf("other member sub=%d", st.Sub)
			switch st.Sub {
			case 0:
				if !otherUp {
					n.EventsD.NotifyJoin(node.MLNode(other, "127.0.9.8", 7946, nil, 5, 5))
					otherUp = true
				}
			case 1:
				if otherUp {
					n.EventsD.NotifyLeave(node.MLNode(other, "127.0.9.8", 7946, nil, 5, 5))
					otherUp = false
				}
			case 2:
				n.Delegate.NotifyMsg(encLeave(resolve(st.LT), other, st.Prune))
			case 3:
				n.Delegate.NotifyMsg(encJoin(resolve(st.LT), other))
			}
		case 7:
			what = "gossip join about self"
			jt := resolve(st.LT)
			if jt > statusLT() {
				syncQueued++ // adopted and passed on (bookkeeping only, no verdict depends on it alone)
			}
			n.Delegate.NotifyMsg(encJoin(jt, self))
		case 8:
			what = "burst"
			// Resolve every time first (the in-flight refutations of this
			// burst move the clock), then deliver back to back.
			var vals []uint64
			for _, l := range st.Burst {
				vals = append(vals, resolve(l))
			}
			r0 := refuteLogs()
			var mx, first uint64
			newer := false
			for i, v := range vals {
				pr := i < len(st.Prunes) && st.Prunes[i]
				n.Delegate.NotifyMsg(encLeave(v, self, pr))
				if v > before {
					if !newer {
						first = v
					}
					newer = true
					mx = max(mx, v)
				}
			}
			bursts++
			if !aliveCheck(si, what) {
				return
			}
			if newer {
				refuted++
				if !awaitRefutation(si, what, mx, false) {
					return
				}
				// The first claim of the burst that is newer than the latest join
				// met no refutation in flight: its answer has to be strictly newer.
				if !awaitRefutation(si, what+" (first newer claim)", first, !tainted) {
					return
				}
				// How many refutation goroutines the burst started depends on
				// the schedule. The node logs each one before starting it;
				// wait until as many new self joins are queued, so that no
				// refutation is still in flight when the next step reads the
				// status time. Without that evidence later claims are judged
				// non-strictly.
				spawned := refuteLogs() - r0
				if spawned <= 0 {
					tainted = true
				} else {
					deadline := time.Now().Add(waitCap)
					spins := 0
					for len(selfJoins()) < joinsBefore+spawned {
						if time.Now().After(deadline) {
							x.Inconclusive("burst refutations still in flight")
							return
						}
						spin(&spins)
					}
				}
			}
			if !aliveCheck(si, what+" (after wait)") {
				return
			}
			poll(n, func(serf.Event) {})
			if !settled() {
				return
			}
			continue
		}
		if !aliveCheck(si, what) {
			return
		}
		if isClaim {
			if st.Prune {
				withPrune++
			}
			if claim >= maxLT-1 {
				top++
			}
			if claim > before {
				refuted++
				if !awaitRefutation(si, what, claim, !tainted) {
					return
				}
			} else {
				// Not newer than self's latest join: the statement asks for
				// nothing but staying alive (checked above and below).
				stale++
				for i := 0; i < 20; i++ {
					runtime.Gosched()
				}
				if len(selfJoins()) != joinsBefore {
					extraJoin++
				}
			}
			if !aliveCheck(si, what+" (after wait)") {
				return
			}
		}
		poll(n, func(serf.Event) {})
		if !settled() {
			return
		}
	}
	x.Labelf("refutations=%s", bucket(refuted, 0, 1, 3, 6))
	if stale > 0 {
		x.Label("stale-claim")
	}
	if extraJoin > 0 {
		x.Label("stale-claim-answered-with-join")
	}
	if viaPP > 0 {
		x.Label("claim-via-pushpull")
	}
	if viaLocal > 0 {
		x.Label("claim-via-local-force-leave")
	}
	if viaGossip > 0 {
		x.Label("claim-via-gossip")
	}
	if withPrune > 0 {
		x.Label("claim-with-prune")
	}
	if bursts > 0 {
		x.Label("burst")
	}
	if tainted {
		x.Label("burst-sync-unavailable")
	}
	if top > 0 {
		x.Label("claim-near-2^64")
	}
	x.NonTrivial(refuted > 0)
}

func TestC03(t *testing.T) { vkit.Run(t, "C03", genC03, bodyC03) }
