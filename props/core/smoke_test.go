//go:build verif

package core

import (
	"testing"
	"time"

	"github.com/hashicorp/serf/serf"

	"verif/internal/node"
	"verif/internal/simnet"
)

func TestSmokeNode(t *testing.T) {
	nw := simnet.New(1)
	nw.Loopback = true
	t0 := time.Now()
	n, err := node.New(nw, node.Opts{Name: "a", Quiet: true})
	if err != nil {
		t.Fatal(err)
	}
	defer n.Stop()
	t.Logf("create took %v", time.Since(t0))
	ev := n.Drain(node.Settle)
	t.Logf("initial events: %v", ev)
	msg, _ := serf.VerifEncodeMessage(serf.VerifMessageUserEventType, &serf.VerifMessageUserEvent{LTime: 5, Name: "x", Payload: []byte("p")}, false)
	n.Delegate.NotifyMsg(msg)
	ev = n.Drain(node.Settle)
	if len(ev) != 1 {
		t.Fatalf("events: %v", ev)
	}
	_, _, evq := n.Serf.VerifQueued()
	if len(evq) != 1 {
		t.Fatalf("queued %d", len(evq))
	}
	_, _, evq = n.Serf.VerifQueued()
	if len(evq) != 1 {
		t.Fatalf("queued after 2nd read %d", len(evq))
	}
	// query with ack → packet to self
	r, err := n.Serf.Query("q", nil, &serf.QueryParam{RequestAck: true, Timeout: 20 * time.Millisecond})
	if err != nil {
		t.Fatal(err)
	}
	for a := range r.AckCh() {
		t.Logf("ack from %s", a)
	}
	pk := node.UserMsgs(nw.Packets())
	t.Logf("packets: %d first=%v", len(pk), pk)
}

func TestSmokeCluster(t *testing.T) {
	nw := simnet.New(1)
	nw.Deliver = true
	nw.SetCapture(false)
	var ns []*node.Node
	for _, name := range []string{"a", "b", "c"} {
		n, err := node.New(nw, node.Opts{Name: name})
		if err != nil {
			t.Fatal(err)
		}
		defer n.Stop()
		ns = append(ns, n)
	}
	t0 := time.Now()
	for _, n := range ns[1:] {
		if _, err := n.Serf.Join([]string{ns[0].Tr.Addr()}, false); err != nil {
			t.Fatal(err)
		}
	}
	for time.Since(t0) < 5*time.Second {
		ok := true
		for _, n := range ns {
			if len(n.Serf.Members()) != 3 {
				ok = false
			}
		}
		if ok {
			break
		}
		time.Sleep(5 * time.Millisecond)
	}
	t.Logf("converged in %v", time.Since(t0))
	ns[2].Stop()
	t0 = time.Now()
	for time.Since(t0) < 5*time.Second {
		ok := true
		for _, n := range ns[:2] {
			for _, m := range n.Serf.Members() {
				if m.Name == "c" && m.Status != serf.StatusFailed {
					ok = false
				}
			}
		}
		if ok {
			break
		}
		time.Sleep(5 * time.Millisecond)
	}
	t.Logf("failure detected in %v", time.Since(t0))
	for _, n := range ns[:2] {
		t.Logf("%s: %v", n.Name, n.Serf.Members())
	}
}
