//go:build verif

package core

import (
	"bytes"
	"bufio"
	"errors"
	"os"
	"path/filepath"
	"strconv"
	"strings"
	"testing"
	"time"

	"github.com/hashicorp/serf/serf"
	"pgregory.net/rapid"

	"verif/internal/node"
	"verif/internal/simnet"
	"verif/internal/vkit"
)

// C14 — a node restarted from its snapshot (no graceful leave in between)
// never delivers a user event or query whose Lamport time is at or below the
// newest one recorded in the snapshot before the restart.
//
// A case is 2-3 incarnations of one node on one snapshot file.  Each
// incarnation receives user events (gossip, push/pull, join-flagged
// push/pull, local) and queries (gossip, local); then it is shut down without
// leaving.  Before the next incarnation starts the harness parses the
// snapshot file itself and takes the recorded maxima; the items of the next
// incarnation are placed relative to those maxima (-3…+3, ±buffer) or absolute.

type c14Item struct {
	// 0 event gossip 1 query gossip 2 event push/pull 3 event join-flagged push/pull 4 local event 5 local query
	// 6 join-flagged push/pull that arrives while a Join(ignoreOld) is in flight (announces event time lt, carries an event at lt-1)
	// 7 / 8 a flood of user events / queries at consecutive new times, long enough to make the snapshotter compact its file
	Kind int    `json:"k"`
	Mode int    `json:"m"` // 0 absolute Abs, 1 recorded maximum of its kind + Rel
	Abs  uint64 `json:"a,omitempty"`
	Rel  int    `json:"r,omitempty"`
	Name int    `json:"n,omitempty"`
	ID   uint32 `json:"id,omitempty"`
	// floods only: stop at the very message whose clock line makes the
	// snapshotter compact its file, and end the incarnation there (nothing
	// recorded after the compaction that could make up for what it lost)
	Stop bool `json:"stop,omitempty"`
}

type c14Case struct {
	N      int         `json:"N"` // EventBuffer = QueryBuffer
	Phases [][]c14Item `json:"phases"`
	// Cut[p] > 0: the life p ends in a crash that loses the end of the file: the
	// snapshot is cut back into its last line (the buffered writer hands the OS
	// chunks that do not end at line boundaries), by 1 + (Cut[p]-1) mod (length
	// of that line) bytes. What the file then holds in complete lines is what
	// was recorded before the restart.
	Cut []int `json:"cut,omitempty"`
}

func genC14(t *rapid.T) c14Case {
	c := c14Case{N: rapid.SampledFrom([]int{1, 2, 4, 4, 64, 512}).Draw(t, "N")}
	base := rapid.SampledFrom([]uint64{0, 0, 3, 1000, 1 << 32, 1 << 63, maxLT - 300}).Draw(t, "base")
	np := rapid.IntRange(2, 3).Draw(t, "phases")
	for p := 0; p < np; p++ {
		var items []c14Item
		ni := rapid.IntRange(2, 12).Draw(t, "items")
		for i := 0; i < ni; i++ {
			it := c14Item{Kind: rapid.SampledFrom([]int{0, 0, 0, 1, 1, 1, 2, 3, 4, 5, 6}).Draw(t, "kind"),
				Name: rapid.IntRange(0, 2).Draw(t, "name"), ID: uint32(rapid.IntRange(1, 3).Draw(t, "id"))}
			if p == 0 || rapid.IntRange(0, 4).Draw(t, "abs") == 0 {
				it.Mode = 0
				it.Abs = satAdd(base, uint64(rapid.IntRange(0, 12).Draw(t, "off")))
			} else {
				it.Mode = 1
				it.Rel = rapid.SampledFrom([]int{-3, -2, -1, -1, 0, 0, 0, 1, 1, 1, 2, 3, -c.N, c.N, c.N + 1}).Draw(t, "rel")
			}
			items = append(items, it)
		}
		// A middle incarnation may push the snapshot file through a compaction
		// (a flood of one kind; what the file said about the OTHER kind has to
		// survive it and still bind the incarnation after it).
		if p > 0 && p < np-1 && rapid.IntRange(0, 3).Draw(t, "flood") == 0 {
			fl := c14Item{Kind: 7 + rapid.IntRange(0, 1).Draw(t, "floodkind"), Stop: rapid.Bool().Draw(t, "floodstop")}
			at := rapid.IntRange(0, len(items)).Draw(t, "floodat")
			items = append(items[:at], append([]c14Item{fl}, items[at:]...)...)
		}
		c.Phases = append(c.Phases, items)
		c.Cut = append(c.Cut, rapid.SampledFrom([]int{0, 0, 0, 1, 2, 3, 5, 9}).Draw(t, "cut"))
	}
	// after a flood that stops at the compacting message the next incarnation
	// starts with the newest message of that flood again (recorded maximum + 0)
	for p := 0; p+1 < len(c.Phases); p++ {
		for _, it := range c.Phases[p] {
			if (it.Kind == 7 || it.Kind == 8) && it.Stop {
				again := c14Item{Kind: it.Kind - 7, Mode: 1, Rel: 0, Name: 0, ID: 77}
				c.Phases[p+1] = append([]c14Item{again}, c.Phases[p+1]...)
			}
		}
	}
	return c
}

// c14Recorded parses the snapshot independently of the code under test.
func c14Recorded(path string) (ev, q uint64, hasEv, hasQ bool, err error) {
	data, err := os.ReadFile(path)
	if err != nil {
		return 0, 0, false, false, err
	}
	// only lines that are complete count: what follows the last newline is the
	// beginning of a line a crash cut short, not a record
	if i := bytes.LastIndexByte(data, '\n'); i >= 0 {
		data = data[:i+1]
	} else {
		data = nil
	}
	sc := bufio.NewScanner(bytes.NewReader(data))
	sc.Buffer(make([]byte, 0, 64*1024), 1<<20)
	for sc.Scan() {
		line := sc.Text()
		switch {
		case line == "leave":
			ev, q, hasEv, hasQ = 0, 0, false, false
		case strings.HasPrefix(line, "event-clock: "):
			if v, e := strconv.ParseUint(line[len("event-clock: "):], 10, 64); e == nil {
				ev, hasEv = max(ev, v), true
			}
		case strings.HasPrefix(line, "query-clock: "):
			if v, e := strconv.ParseUint(line[len("query-clock: "):], 10, 64); e == nil {
				q, hasQ = max(q, v), true
			}
		}
	}
	return ev, q, hasEv, hasQ, sc.Err()
}

type c14Key struct {
	query bool
	lt    uint64
	name  string
	id    uint32
}

func bodyC14(c c14Case, x *vkit.Ctx) {
	if c.N < 1 || len(c.Phases) == 0 {
		x.Inconclusive("bad case")
		return
	}
	N := uint64(c.N)
	dir, err := os.MkdirTemp(fastTempRoot(), "c14-")
	if err != nil {
		x.Inconclusive("tempdir: " + err.Error())
		return
	}
	defer os.RemoveAll(dir)
	snap := filepath.Join(dir, "snap")
	mon := vkit.StartMonitor()
	defer mon.Stop()

	var evMax, qMax uint64
	hasEv, hasQ := false, false
	ntEq, ntPlus1, oldSent, newSent, complete := false, false, 0, 0, true
	floods, compactions, wentBack, lostRecord := 0, 0, false, false
	crashCuts := 0
	var phaseMaxDelivered [2]uint64

	for pi, items := range c.Phases {
		nw := simnet.New(1)
		parked := make(chan struct{}, 16)
		release := make(chan struct{})
		nw.HoldDial = func(d simnet.Dial) error {
			parked <- struct{}{}
			<-release
			return errors.New("dial failed by harness")
		}
		defer close(release)
		fileAtStart, _ := os.ReadFile(snap)
		n, err := node.New(nw, node.Opts{Name: "n0", Quiet: true, Mutate: func(cf *serf.Config) {
			cf.SnapshotPath = snap
			cf.EventBuffer, cf.QueryBuffer = c.N, c.N
		}})
		if err != nil {
			x.Inconclusive("node setup: " + err.Error())
			return
		}
		stopped := false
		stop := func() {
			if !stopped {
				stopped = true
				n.Stop()
			}
		}
		defer stop()

		// The restart cut-offs of the model (positive oracle): just above the
		// newest time the snapshot held, i.e. the first time that is NOT "at or
		// below" it; Lamport times of real messages start at 1. An ignore-old
		// join raises the event cut-off to the event time its peer announces.
		cutE, cutQ := uint64(1), uint64(1)
		if hasEv {
			cutE = evMax + min(1, ^uint64(0)-evMax) // no wrap
		}
		if hasQ {
			cutQ = qMax + min(1, ^uint64(0)-qMax)
		}
		floodsBefore, floodSeen := floods, 0
		must := map[c14Key]bool{}
		delivered := map[c14Key]int{}
		bad := false
		phaseMaxDelivered = [2]uint64{}
		absorb := func(e serf.Event) {
			var k c14Key
			switch ev := e.(type) {
			case serf.UserEvent:
				if ev.Name == "flood" {
					floodSeen++
				}
				k = c14Key{false, uint64(ev.LTime), ev.Name, 0}
				phaseMaxDelivered[0] = max(phaseMaxDelivered[0], k.lt)
			case *serf.Query:
				if ev.Name == "flood" {
					floodSeen++
				}
				k = c14Key{true, uint64(ev.LTime), "", ev.VerifID()} // a query is identified by (time, id)
				phaseMaxDelivered[1] = max(phaseMaxDelivered[1], k.lt)
			default:
				return
			}
			delivered[k]++
			if bad || pi == 0 {
				return
			}
			if !k.query && hasEv && k.lt <= evMax {
				bad = true
				x.Violationf("old-user-event-delivered-after-restart",
					"incarnation %d: user event %q at Lamport time %d delivered although the snapshot had recorded event time %d before the restart", pi+1, k.name, k.lt, evMax)
			}
			if k.query && hasQ && k.lt <= qMax {
				bad = true
				x.Violationf("old-query-delivered-after-restart",
					"incarnation %d: query (id %d) at Lamport time %d delivered although the snapshot had recorded query time %d before the restart", pi+1, k.id, k.lt, qMax)
			}
		}
		settle(n, node.Settle, absorb)

		for ii, it := range items {
			_, ecl, qcl := n.Serf.VerifClocks()
			isQuery := it.Kind == 1 || it.Kind == 5
			// resolve the Lamport time
			lt := min(it.Abs, maxLT)
			if it.Mode == 1 {
				b := evMax
				if isQuery {
					b = qMax
				}
				if it.Rel < 0 {
					if b < uint64(-it.Rel) {
						lt = 0
					} else {
						lt = b - uint64(-it.Rel)
					}
				} else {
					lt = satAdd(b, uint64(it.Rel))
				}
			}
			name := c05Names[it.Name%len(c05Names)]
			var k c14Key
			var clock, cutoff uint64
			if it.Kind == 6 {
				// A Join(ignoreOld) is parked on a dial the harness holds; meanwhile a
				// join-flagged push/pull from a peer that is BEHIND (or at) the recorded
				// maximum arrives. Whatever it does to the cut-off, the old items that
				// follow must still be refused (judged by the existing rule); the event
				// it carries sits below the announced time and is never owed.
				done := make(chan struct{})
				go func() {
					defer close(done)
					_, _ = n.Serf.Join([]string{"127.0.9.9:7946"}, true)
				}()
				select {
				case <-parked:
				case <-time.After(waitCap):
					x.Inconclusive("join did not reach the dial")
					release <- struct{}{}
					<-done
					return
				}
				pp := &serf.VerifMessagePushPull{EventLTime: serf.LamportTime(lt)}
				if lt > 0 {
					pp.Events = []*serf.VerifUserEvents{{LTime: serf.LamportTime(lt - 1), Events: []serf.VerifUserEvent{{Name: name}}}}
				}
				n.Delegate.MergeRemoteState(encPushPull(pp), true)
				release <- struct{}{}
				<-done
				cutE = max(cutE, lt)
				x.Label("join-ignore-old-with-lagging-peer")
				poll(n, absorb)
				if bad {
					return
				}
				continue
			}
			if it.Kind == 7 || it.Kind == 8 {
				// Enough lines of one kind to exceed the snapshotter's size limit
				// (128 KiB), at consecutive times above everything seen so far. The
				// reader keeps up and the snapshotter's backlog is kept short, so
				// nothing is dropped on the way to the file.
				clk := uint64(ecl)
				line := "event-clock: "
				if it.Kind == 8 {
					clk, line = uint64(qcl), "query-clock: "
				}
				count := uint64(128*1024/(len(line)+len(strconv.FormatUint(clk, 10))+1) + 64)
				if clk > maxLT-count-8 {
					x.Label("flood-skipped-clock-near-top")
					continue
				}
				// Pace on what the application has received: between the node's
				// handlers and the application the pipeline has stages that drop
				// instead of blocking when 1024 events are in flight.
				sn := n.Serf.VerifSnapshotter()
				seen0 := floodSeen
				caughtUp := func(slack uint64, sent uint64) bool {
					return waitUntil(n, waitCap, absorb, func() bool { return bad || uint64(floodSeen-seen0)+slack >= sent })
				}
				fileID := func() os.FileInfo { fi, _ := os.Stat(snap); return fi }
				file0 := fileID()
				stoppedAtCompaction := false
				for i := uint64(0); i < count && !bad; i++ {
					if it.Kind == 7 {
						n.Delegate.NotifyMsg(encUserEvent(clk+i, "flood", nil))
					} else {
						n.Delegate.NotifyMsg(encQuery(clk+i, 77, "flood", 0))
					}
					if it.Stop && i+400 >= count && sn != nil && file0 != nil {
						// close to the size limit: one message at a time, and after each
						// (received by the application, taken by the snapshotter, a moment
						// for the append) look whether the file has been replaced
						if !caughtUp(0, i+1) {
							x.Inconclusive("flood: the application channel fell behind")
							return
						}
						spins, deadline := 0, time.Now().Add(waitCap)
						for sn.VerifBacklog() > 0 && time.Now().Before(deadline) {
							spin(&spins)
						}
						time.Sleep(300 * time.Microsecond)
						if fi := fileID(); fi != nil && !os.SameFile(file0, fi) {
							stoppedAtCompaction = true
							count = i + 1
							break
						}
						continue
					}
					if i%128 == 127 {
						if !caughtUp(128, i+1) {
							x.Inconclusive("flood: the application channel fell behind")
							return
						}
						spins, deadline := 0, time.Now().Add(waitCap)
						for sn != nil && sn.VerifBacklog() > 256 && time.Now().Before(deadline) {
							spin(&spins)
						}
					}
				}
				if !bad && !caughtUp(0, count) {
					x.Inconclusive("flood: not everything reached the application")
					return
				}
				if bad {
					return
				}
				floods++
				if stoppedAtCompaction {
					x.Label("flood-stopped-at-the-compacting-message")
					break
				}
				continue
			}
			switch it.Kind {
			case 0, 2, 3:
				k = c14Key{false, lt, name, 0}
				clock, cutoff = uint64(ecl), cutE
			case 1:
				k = c14Key{true, lt, "", it.ID}
				clock, cutoff = uint64(qcl), cutQ
			case 4:
				if uint64(ecl) > maxLT {
					continue
				}
				lt = uint64(ecl)
				k = c14Key{false, lt, name, 0}
				clock, cutoff = uint64(ecl), cutE
			case 5:
				if uint64(qcl) > maxLT {
					continue
				}
				lt = uint64(qcl)
				clock, cutoff = uint64(qcl), cutQ
			}
			if pi > 0 {
				mx, has := evMax, hasEv
				if isQuery {
					mx, has = qMax, hasQ
				}
				if has && lt == mx {
					ntEq = true
				}
				if has && mx < maxLT && lt == mx+1 {
					ntPlus1 = true
				}
				if has && lt <= mx {
					oldSent++
				} else {
					newSent++
				}
			}
			var localQ *serf.QueryResponse
			switch it.Kind {
			case 0:
				n.Delegate.NotifyMsg(encUserEvent(lt, name, nil))
			case 1:
				n.Delegate.NotifyMsg(encQuery(lt, it.ID, name, 0))
			case 2, 3:
				pp := &serf.VerifMessagePushPull{
					EventLTime: serf.LamportTime(satAdd(lt, 1)),
					Events:     []*serf.VerifUserEvents{nil, {LTime: serf.LamportTime(lt), Events: []serf.VerifUserEvent{{Name: name}}}},
				}
				n.Delegate.MergeRemoteState(encPushPull(pp), it.Kind == 3)
			case 4:
				if err := n.Serf.UserEvent(name, nil, false); err != nil {
					x.Inconclusive("local UserEvent: " + err.Error())
					return
				}
			case 5:
				localQ, err = n.Serf.Query(name, nil, &serf.QueryParam{Timeout: 2 * time.Millisecond})
				if err != nil {
					x.Inconclusive("local Query: " + err.Error())
					return
				}
				_, id := localQ.VerifID()
				k = c14Key{true, lt, "", id}
			}
			// model: must this item be delivered? (first time in this incarnation,
			// at/after the node's cut-off, inside the window)
			clk := clock
			if lt >= clk {
				clk = lt + 1
			}
			inWindow := clk <= N || lt >= clk-N
			if !must[k] && delivered[k] == 0 && inWindow && lt >= cutoff {
				must[k] = true
			}
			ok := waitUntil(n, waitCap, absorb, func() bool {
				if bad {
					return true
				}
				for k := range must {
					if delivered[k] == 0 {
						return false
					}
				}
				return true
			})
			if bad {
				return
			}
			if !ok {
				sig := "new-user-event-not-delivered"
				if isQuery {
					sig = "new-query-not-delivered"
				}
				if pi > 0 {
					sig += "-after-restart"
				}
				missing(x, mon, sig, "incarnation %d item %d (kind %d): Lamport time %d (clock %d, cut-off %d, buffer %d; recorded maxima event %d/%v query %d/%v) arrived for the first time inside the window and at/after the cut-off but was not delivered",
					pi+1, ii, it.Kind, lt, clock, cutoff, c.N, evMax, hasEv, qMax, hasQ)
				return
			}
			poll(n, absorb)
			if bad {
				return
			}
		}
		settle(n, 3*time.Millisecond, absorb)
		if bad {
			return
		}
		// let the snapshotter take what is in flight, then stop without leaving
		drained := false
		if sn := n.Serf.VerifSnapshotter(); sn != nil {
			spins, deadline := 0, time.Now().Add(waitCap)
			for sn.VerifBacklog() > 0 && time.Now().Before(deadline) {
				spin(&spins)
			}
			drained = sn.VerifBacklog() == 0
		}
		stop()
		// (only a life that appended to the file it found, with no compaction: a
		// compaction writes and syncs a whole new file before it renames it, so a
		// crash cannot cut the tail off a compacted file)
		if pi < len(c.Cut) && c.Cut[pi] > 0 && floods == floodsBefore {
			if data, err := os.ReadFile(snap); err == nil && len(data) > 1 && data[len(data)-1] == '\n' && bytes.HasPrefix(data, fileAtStart) {
				lastLine := len(data) - 1 - bytes.LastIndexByte(data[:len(data)-1], '\n') // length of the last line with its newline
				if len(data)-lastLine < len(fileAtStart) {
					lastLine = 0 // the last line is not one this life wrote
				}
				k := 0
				if lastLine > 0 {
					k = 1 + (c.Cut[pi]-1)%lastLine
				}
				if k == 0 {
					goto nocut
				}
				if err := os.WriteFile(snap, data[:len(data)-k], 0o644); err != nil {
					x.Inconclusive("cutting the snapshot: " + err.Error())
					return
				}
				drained = false // the tail was lost: what was received is not all on record
				crashCuts++
			}
		}
	nocut:
		if floods > floodsBefore {
			if fi, err := os.Stat(snap); err == nil && fi.Size() < 100*1024 {
				compactions++
			}
		}
		ev, q, he, hq, err := c14Recorded(snap)
		if err != nil {
			x.Inconclusive("snapshot unreadable: " + err.Error())
			return
		}
		// The reference is the newest time the harness has SEEN recorded in the
		// file before this restart. There is no leave in these histories, so on a
		// file that only ever gains clock lines (or is compacted faithfully) that
		// is what the file says now; a record that an earlier reading showed and
		// this one lacks was still "recorded in the snapshot before the restart".
		if (he && ev < evMax) || (hasEv && !he) || (hq && q < qMax) || (hasQ && !hq) {
			wentBack = true
		}
		// What the application received in this life went through the snapshot
		// stage first, which offers every event to the recorder before it hands it
		// on; the recorder's queue (2048) never held more than a few hundred (the
		// floods are paced on it) and was empty before the stop, and the stop
		// waits for the recorder. So the newest event and query time received
		// (times start at 1) were recorded in the snapshot before this restart,
		// whether or not the file still says so: they bind the next life as well.
		if drained {
			if d := phaseMaxDelivered[0]; d > 0 && (!he || ev < d) {
				ev, he, lostRecord = d, true, true
			}
			if d := phaseMaxDelivered[1]; d > 0 && (!hq || q < d) {
				q, hq, lostRecord = d, true, true
			}
		}
		if he {
			evMax, hasEv = max(evMax, ev), true
		}
		if hq {
			qMax, hasQ = max(qMax, q), true
		}
		if (phaseMaxDelivered[0] > evMax) || (phaseMaxDelivered[1] > qMax) {
			complete = false
		}
	}
	x.Labelf("N=%d", c.N)
	x.Labelf("incarnations=%d", len(c.Phases))
	x.Labelf("old-items-after-restart=%s", bucket(oldSent, 0, 2, 5))
	x.Labelf("new-items-after-restart=%s", bucket(newSent, 0, 2, 5))
	if ntEq {
		x.Label("item-at-recorded-maximum")
	}
	if ntPlus1 {
		x.Label("item-at-recorded-maximum+1")
	}
	if !complete {
		x.Label("snapshot-behind-deliveries")
	}
	if wentBack {
		x.Label("recorded-maximum-went-back")
	}
	if lostRecord {
		x.Label("file-lacks-a-time-that-was-recorded")
	}
	if crashCuts > 0 {
		x.Label("life-ended-in-a-crash-that-cut-the-last-line")
	}
	if floods > 0 {
		x.Label("flood")
	}
	if compactions > 0 {
		x.Label("flood-forced-compaction")
	}
	if !hasEv {
		x.Label("no-event-clock-recorded")
	}
	if !hasQ {
		x.Label("no-query-clock-recorded")
	}
	x.NonTrivial(ntEq && ntPlus1)
}

func TestC14(t *testing.T) { vkit.Run(t, "C14", genC14, bodyC14) }
