//go:build verif

package core

import (
	"fmt"
	"os"
	"runtime"
	"sync"
	"sync/atomic"
	"time"

	"github.com/hashicorp/serf/serf"

	"verif/internal/node"
	"verif/internal/vkit"
)

// Shared helpers of the core checks (C03, C04, C05, C14, C15, C16).

const (
	maxLT = ^uint64(0) - 1 // 2^64-2: 2^64-1 is excluded everywhere (finding D6 of C19)

	// waitCap is how long an *expected* event / broadcast may take before its
	// absence counts; starveGap is the scheduling gap above which the wait is
	// not trusted and the case is dropped as inconclusive.
	waitCap   = 2 * time.Second
	starveGap = 200 * time.Millisecond
)

// satAdd adds with saturation at maxLT.
func satAdd(a, b uint64) uint64 {
	if a > maxLT || b > maxLT-a {
		return maxLT
	}
	return a + b
}

func encUserEvent(lt uint64, name string, payload []byte) []byte {
	b, err := serf.VerifEncodeMessage(serf.VerifMessageUserEventType,
		&serf.VerifMessageUserEvent{LTime: serf.LamportTime(lt), Name: name, Payload: payload}, false)
	if err != nil {
		panic(err)
	}
	return b
}

func encQuery(lt uint64, id uint32, name string, flags uint32) []byte {
	b, err := serf.VerifEncodeMessage(serf.VerifMessageQueryType, &serf.VerifMessageQuery{
		LTime: serf.LamportTime(lt), ID: id, Addr: []byte{127, 0, 9, 9}, Port: 7946, SourceNode: "origin",
		Flags: flags, Timeout: time.Second, Name: name, Payload: []byte("q"),
	}, false)
	if err != nil {
		panic(err)
	}
	return b
}

func encJoin(lt uint64, nodeName string) []byte {
	b, err := serf.VerifEncodeMessage(serf.VerifMessageJoinType,
		&serf.VerifMessageJoin{LTime: serf.LamportTime(lt), Node: nodeName}, false)
	if err != nil {
		panic(err)
	}
	return b
}

func encLeave(lt uint64, nodeName string, prune bool) []byte {
	b, err := serf.VerifEncodeMessage(serf.VerifMessageLeaveType,
		&serf.VerifMessageLeave{LTime: serf.LamportTime(lt), Node: nodeName, Prune: prune}, false)
	if err != nil {
		panic(err)
	}
	return b
}

func encPushPull(pp *serf.VerifMessagePushPull) []byte {
	if pp.StatusLTimes == nil {
		pp.StatusLTimes = map[string]serf.LamportTime{}
	}
	b, err := serf.VerifEncodeMessage(serf.VerifMessagePushPullType, pp, false)
	if err != nil {
		panic(err)
	}
	return b
}

// poll takes every event that is buffered right now, without waiting.
func poll(n *node.Node, f func(serf.Event)) {
	for {
		select {
		case e := <-n.Events:
			f(e)
		default:
			return
		}
	}
}

// waitUntil feeds events to f until done() holds or the cap passes.
func waitUntil(n *node.Node, cap time.Duration, f func(serf.Event), done func() bool) bool {
	if done() {
		return true
	}
	t := time.NewTimer(cap)
	defer t.Stop()
	for {
		select {
		case e := <-n.Events:
			f(e)
			if done() {
				return true
			}
		case <-t.C:
			return done()
		}
	}
}

// settle feeds events to f until the channel stayed empty for d.
func settle(n *node.Node, d time.Duration, f func(serf.Event)) {
	for _, e := range n.Drain(d) {
		f(e)
	}
}

// missing decides what a missing expected effect means: a violation only when
// the scheduler was demonstrably healthy during the wait.
func missing(x *vkit.Ctx, mon *vkit.Monitor, sig, f string, a ...any) {
	// A stall of the whole process (the box is shared, and a VM can be paused)
	// makes the waiting goroutine see its deadline pass the moment it resumes,
	// possibly before the monitor goroutine has run again and recorded the gap:
	// let the monitor take a few ticks before asking it.
	time.Sleep(25 * time.Millisecond)
	if g := mon.MaxGap(); g > starveGap {
		x.Inconclusive(fmt.Sprintf("starved (%s)", sig))
		return
	}
	x.Violationf(sig, f, a...)
}

func bucket(n int, edges ...int) string {
	for _, e := range edges {
		if n <= e {
			return fmt.Sprintf("<=%d", e)
		}
	}
	return fmt.Sprintf(">%d", edges[len(edges)-1])
}

// spin is the body of a polling loop: yield for the first few thousand rounds
// (the awaited goroutine usually needs microseconds; time.Sleep costs >1 ms
// here), then back off to real sleeps.
func spin(i *int) {
	*i++
	if *i < 3000 {
		runtime.Gosched()
		return
	}
	time.Sleep(200 * time.Microsecond)
}

// fastTempRoot prefers a memory file system for per-case snapshot files: the
// snapshotter fsyncs on shutdown, which costs tens of milliseconds on a loaded
// disk and nothing on tmpfs (durability is not what these checks are about).
func fastTempRoot() string {
	if st, err := os.Stat("/dev/shm"); err == nil && st.IsDir() {
		if d, err := os.MkdirTemp("/dev/shm", "probe-"); err == nil {
			os.Remove(d)
			return "/dev/shm"
		}
	}
	return ""
}

// volley runs f(0..k-1) on k goroutines that leave a spin barrier together
// (within nanoseconds when k processors are free; after 200 µs at the latest),
// and waits for all of them. It is how a step hands the node several inputs
// "at the same time", as memberlist's packet and stream handlers do.
// lockYield, when the package is built with the "locks" overlay (see
// yield_overlay_test.go), makes every goroutine of the node linger after it
// released one of serf's mutexes: mode 0 not at all, mode 1 for 40us after
// every release, mode 2 for 100us after releasing a read lock. That is the
// point where a goroutine that checked under one critical section and acts
// under the next can be overtaken; lingering is something any scheduler may
// do, so it adds schedules and cannot make correct code fail.
var lockYield = func(mode int) {}

// volleySeq makes successive volleys of one case use different yield modes;
// bodies reset it from the case so that a replay takes the same modes.
var volleySeq int

func volleyReset(salt int) { volleySeq = salt }

func volley(k int, f func(i int)) {
	mode := volleySeq % 3
	volleySeq++
	lockYield(mode)
	defer lockYield(0)
	var ready atomic.Int32
	var wg sync.WaitGroup
	wg.Add(k)
	for i := 0; i < k; i++ {
		i := i
		go func() {
			defer wg.Done()
			ready.Add(1)
			for t0 := time.Now(); ready.Load() < int32(k) && time.Since(t0) < 200*time.Microsecond; {
			}
			f(i)
		}()
	}
	wg.Wait()
}
