//go:build verif

package core

import (
	"errors"
	"fmt"
	"testing"
	"time"

	"github.com/hashicorp/serf/serf"
	"pgregory.net/rapid"

	"verif/internal/node"
	"verif/internal/simnet"
	"verif/internal/vkit"
)

// C05 — each user event reaches the application at most once per node, and a
// first-time event inside the recent-event window and not below the cut-off
// is delivered.
//
// One quiet node with EventBuffer = N.  Steps deliver user events by gossip
// (NotifyMsg), inside a push/pull (MergeRemoteState, with and without the
// join flag), by local origination (UserEvent) and inside a join-flagged
// push/pull that arrives while a Join(ignoreOld=true) is parked on a dial the
// harness holds open (the only way the join cut-off moves).
//
// Reference model (written from the statement): the set of delivered triples
// (LTime, name, payload); the event clock and the cut-off are *read* from the
// node before each step (they are parameters of the statement, not its
// subject).  (a) no triple is delivered twice, ever.  (b) a triple not yet
// delivered that arrives with LTime >= cutoff and (clock' <= N or LTime >=
// clock'-N), clock' = max(clock, LTime+1), must be delivered.  (c) after an
// ignore-old join whose push/pull announced event time E, no event with LTime
// < E is delivered (Join's documentation).

type c05Ev struct {
	LT   uint64 `json:"lt"`
	Name int    `json:"n"`
	Pay  int    `json:"p"`
}

type c05Slot struct {
	Nil bool    `json:"nil,omitempty"`
	LT  uint64  `json:"lt"`
	Evs []c05Ev `json:"evs"` // LT of the entries is ignored (slot LT is used)
}

type c05Step struct {
	// 0 gossip, 1 push/pull, 2 push/pull with join flag, 3 local UserEvent,
	// 4 join-flagged push/pull during Join(ignoreOld=true),
	// 5 join-flagged push/pull during Join(ignoreOld=false) (nothing is to be ignored),
	// 6 the same event delivered concurrently: twice by gossip and once inside a push/pull
	Kind  int       `json:"k"`
	Ev    c05Ev     `json:"ev"`
	Slots []c05Slot `json:"slots,omitempty"`
	ELT   uint64    `json:"elt,omitempty"` // EventLTime of the push/pull
}

type c05Case struct {
	N     int       `json:"N"`
	Steps []c05Step `json:"steps"`
}

// Pools (shared with C04/C14). New entries are appended so that indices in
// older replay files keep their meaning. The names include the empty string,
// a name that extends another one and names with separator characters; the
// payloads include BOTH representations of "no payload" (nil and empty: the
// same event by the statement's identity) and a payload that extends another.
var c05Names = []string{"deploy", "restart", "e2", "e3", "", "deploy:2", "deploy restart"}
var c05Pays = [][]byte{nil, []byte("x"), []byte("yy"), {}, []byte("xy")}

func genC05(t *rapid.T) c05Case {
	N := rapid.SampledFrom([]int{1, 2, 3, 4, 8, 64, 512}).Draw(t, "N")
	n64 := uint64(N)
	base := rapid.SampledFrom([]uint64{0, 0, 1, 7, 1 << 32, 1 << 63, ^uint64(0) - 600, ^uint64(0) - 40}).Draw(t, "base")
	nNames := rapid.SampledFrom([]int{2, 2, 3, 4, 5, 7}).Draw(t, "names")
	nPays := rapid.SampledFrom([]int{2, 3, 4, 4, 5}).Draw(t, "pays")
	gclock := uint64(1)
	var prev []c05Ev
	drawEv := func() c05Ev {
		e := c05Ev{Name: rapid.IntRange(0, nNames-1).Draw(t, "name"), Pay: rapid.IntRange(0, nPays-1).Draw(t, "pay")}
		mode := rapid.SampledFrom([]int{0, 0, 1, 1, 1, 2, 2, 3, 3}).Draw(t, "mode")
		if len(prev) == 0 && (mode == 1 || mode == 3) {
			mode = 0
		}
		switch mode {
		case 0: // anywhere in three buffer lengths above the base
			e.LT = satAdd(base, uint64(rapid.IntRange(0, 3*N).Draw(t, "off")))
		case 1: // explicit slot collision with an earlier event
			p := prev[rapid.IntRange(0, len(prev)-1).Draw(t, "prev")]
			k := uint64(rapid.IntRange(1, 2).Draw(t, "k")) * n64
			if rapid.Bool().Draw(t, "down") && p.LT >= k {
				e.LT = p.LT - k
			} else {
				e.LT = satAdd(p.LT, k)
			}
			if rapid.IntRange(0, 2).Draw(t, "same") > 0 {
				e.Name, e.Pay = p.Name, p.Pay
			}
		case 2: // around the lower edge of the window
			d := uint64(rapid.IntRange(0, 4).Draw(t, "d"))
			if gclock > n64+2 {
				e.LT = satAdd(gclock-n64-2, d)
			} else {
				e.LT = satAdd(0, uint64(rapid.IntRange(0, int(gclock)+2).Draw(t, "lo")))
			}
		case 3: // same time as an earlier event: exact duplicate or a sibling
			p := prev[rapid.IntRange(0, len(prev)-1).Draw(t, "prev")]
			e.LT = p.LT
			switch rapid.IntRange(0, 3).Draw(t, "sib") {
			case 0:
				e.Name = p.Name // same name, drawn payload
			case 1:
				e.Pay = p.Pay
			default:
				e.Name, e.Pay = p.Name, p.Pay
			}
		}
		prev = append(prev, e)
		if e.LT >= gclock {
			gclock = e.LT + 1
		}
		return e
	}
	var c c05Case
	c.N = N
	ns := rapid.IntRange(3, 28).Draw(t, "steps")
	for i := 0; i < ns; i++ {
		st := c05Step{Kind: rapid.SampledFrom([]int{0, 0, 0, 0, 0, 1, 1, 2, 3, 4, 4, 5, 6}).Draw(t, "kind")}
		switch st.Kind {
		case 0, 6:
			st.Ev = drawEv()
		case 3:
			st.Ev = c05Ev{Name: rapid.IntRange(0, nNames-1).Draw(t, "name"), Pay: rapid.IntRange(0, nPays-1).Draw(t, "pay")}
			if gclock < maxLT {
				gclock++
			}
		default:
			nsl := rapid.IntRange(1, 4).Draw(t, "slots")
			var hi, lo uint64 = 0, ^uint64(0)
			for j := 0; j < nsl; j++ {
				if rapid.IntRange(0, 4).Draw(t, "nil") == 0 {
					st.Slots = append(st.Slots, c05Slot{Nil: true})
					continue
				}
				first := drawEv()
				sl := c05Slot{LT: first.LT, Evs: []c05Ev{first}}
				for k := rapid.IntRange(0, 2).Draw(t, "more"); k > 0; k-- {
					e := c05Ev{LT: first.LT, Name: rapid.IntRange(0, nNames-1).Draw(t, "name"), Pay: rapid.IntRange(0, nPays-1).Draw(t, "pay")}
					prev = append(prev, e)
					sl.Evs = append(sl.Evs, e)
				}
				st.Slots = append(st.Slots, sl)
				hi, lo = max(hi, sl.LT), min(lo, sl.LT)
			}
			switch rapid.IntRange(0, 3).Draw(t, "elt") {
			case 0:
				st.ELT = 0
			case 1: // the sender's clock: one past its newest event
				st.ELT = satAdd(hi, 1)
			case 2: // cuts through the carried events
				if lo <= hi {
					st.ELT = lo + (hi-lo)/2 + uint64(rapid.IntRange(0, 1).Draw(t, "mid"))
				}
			case 3:
				st.ELT = min(gclock, maxLT)
			}
			if st.ELT > maxLT {
				st.ELT = maxLT
			}
			if st.ELT > gclock {
				gclock = st.ELT
			}
		}
		c.Steps = append(c.Steps, st)
	}
	return c
}

type c05Key struct {
	lt   uint64
	name string
	pay  string
}

func (k c05Key) String() string { return fmt.Sprintf("(%d,%s,%q)", k.lt, k.name, k.pay) }

func c05KeyOf(lt uint64, e c05Ev) c05Key {
	return c05Key{lt, c05Names[e.Name%len(c05Names)], string(c05Pays[e.Pay%len(c05Pays)])}
}

// c05Bytes is the payload as it is handed to the node: the pool entry itself,
// so that nil and empty stay different representations of the same payload.
func c05Bytes(e c05Ev) []byte { return c05Pays[e.Pay%len(c05Pays)] }

func bodyC05(c c05Case, x *vkit.Ctx) {
	volleyReset(len(c.Steps))
	if c.N < 1 {
		x.Inconclusive("bad case: N<1")
		return
	}
	N := uint64(c.N)
	nw := simnet.New(1)
	parked := make(chan struct{}, 16)
	release := make(chan struct{})
	nw.HoldDial = func(d simnet.Dial) error {
		parked <- struct{}{}
		<-release
		return errors.New("dial failed by harness")
	}
	n, err := node.New(nw, node.Opts{Name: "n0", Quiet: true, Mutate: func(cf *serf.Config) { cf.EventBuffer = c.N }})
	if err != nil {
		x.Inconclusive("node setup: " + err.Error())
		return
	}
	defer n.Stop()
	defer close(release)
	mon := vkit.StartMonitor()
	defer mon.Stop()

	injected := map[c05Key]bool{}
	must := map[c05Key]bool{}     // model: triples that must have been delivered by now
	delivered := map[c05Key]int{} // observed deliveries
	var order []c05Key            // observed delivery order (diagnostics)
	path := map[c05Key]int{}      // bit 1 gossip/local, bit 2 push/pull
	var ignoreBelow uint64        // largest E of an ignore-old join so far
	bad := false
	absorb := func(e serf.Event) {
		ue, ok := e.(serf.UserEvent)
		if !ok {
			return
		}
		k := c05Key{uint64(ue.LTime), ue.Name, string(ue.Payload)}
		delivered[k]++
		order = append(order, k)
		if bad {
			return
		}
		switch {
		case !injected[k]:
			bad = true
			x.Violationf("spurious-user-event", "delivered %v which was never sent to the node", k)
		case delivered[k] > 1:
			bad = true
			x.Violationf("user-event-delivered-twice", "N=%d: %v delivered %d times; delivery order %v", c.N, k, delivered[k], order)
		case k.lt < ignoreBelow:
			bad = true
			x.Violationf("delivered-below-join-cutoff", "%v delivered although an ignore-old join announced event time %d", k, ignoreBelow)
		}
	}
	settle(n, node.Settle, absorb) // the node's own member-join

	// classification
	collDelivered, crossDup, edgeReject, belowCut, dupSamePath, readmitShape := 0, 0, 0, 0, 0, 0
	slotLT := map[uint64]uint64{} // model of "which time sits in slot i" among delivered ones (labels only)
	overwritten := map[uint64]bool{}

	// offer is the model's reaction to one arriving triple.
	offer := func(k c05Key, mclock *uint64, cutoff uint64, via int) {
		injected[k] = true
		if k.lt >= *mclock {
			*mclock = k.lt + 1
		}
		seenBefore := must[k] || delivered[k] > 0
		if seenBefore {
			if path[k]&via == 0 {
				crossDup++
			} else {
				dupSamePath++
			}
			if overwritten[k.lt] {
				readmitShape++
			}
		}
		path[k] |= via
		inWindow := *mclock <= N || k.lt >= *mclock-N
		if !inWindow {
			edgeReject++
		}
		if k.lt < cutoff {
			belowCut++
		}
		if seenBefore || !inWindow || k.lt < cutoff {
			return
		}
		must[k] = true
		if old, ok := slotLT[k.lt%N]; ok && old != k.lt {
			collDelivered++
			overwritten[old] = true
		}
		slotLT[k.lt%N] = k.lt
	}

	for si, st := range c.Steps {
		_, ec, _ := n.Serf.VerifClocks()
		mclock := uint64(ec)
		// The cut-off used by the model is the harness's own: the node has no
		// snapshot, so the only thing that raises it is an ignore-old join, and the
		// documented meaning of that is "events sent before the join are ignored",
		// i.e. everything below the event time E the peer announced (the first
		// event fired after the join carries exactly E and must be delivered).
		cutoff := ignoreBelow
		nodeCut := uint64(n.Serf.VerifEventMinTime())
		switch st.Kind {
		case 0:
			k := c05KeyOf(st.Ev.LT, st.Ev)
			if k.lt > maxLT {
				x.Excluded()
				continue
			}
			offer(k, &mclock, cutoff, 1)
			n.Delegate.NotifyMsg(encUserEvent(k.lt, k.name, c05Bytes(st.Ev)))
			x.Label("step:gossip")
		case 6:
			// The same event arrives three times at once: two gossip packets and a
			// push/pull (which announces no clock of its own) handled by three
			// goroutines, as memberlist's packet and stream handlers do.
			k := c05KeyOf(st.Ev.LT, st.Ev)
			if k.lt > maxLT {
				x.Excluded()
				continue
			}
			offer(k, &mclock, cutoff, 1)
			offer(k, &mclock, cutoff, 1)
			offer(k, &mclock, cutoff, 2)
			msg := encUserEvent(k.lt, k.name, c05Bytes(st.Ev))
			ppb := encPushPull(&serf.VerifMessagePushPull{Events: []*serf.VerifUserEvents{
				{LTime: serf.LamportTime(k.lt), Events: []serf.VerifUserEvent{{Name: k.name, Payload: c05Bytes(st.Ev)}}}}})
			msg2 := append([]byte(nil), msg...)
			volley(3, func(i int) {
				switch i {
				case 0:
					n.Delegate.NotifyMsg(msg)
				case 1:
					n.Delegate.NotifyMsg(msg2)
				default:
					n.Delegate.MergeRemoteState(ppb, false)
				}
			})
			x.Label("step:concurrent-duplicates")
		case 3:
			if mclock >= maxLT {
				x.Label("step:local-skipped-clock-at-top")
				continue
			}
			k := c05KeyOf(mclock, st.Ev)
			offer(k, &mclock, cutoff, 1)
			if err := n.Serf.UserEvent(k.name, c05Bytes(st.Ev), false); err != nil {
				x.Violationf("local-user-event-error", "step %d: UserEvent: %v", si, err)
				return
			}
			x.Label("step:local")
		case 1, 2, 4, 5:
			elt := min(st.ELT, maxLT)
			pp := &serf.VerifMessagePushPull{EventLTime: serf.LamportTime(elt)}
			for _, sl := range st.Slots {
				if sl.Nil {
					pp.Events = append(pp.Events, nil)
					continue
				}
				ue := &serf.VerifUserEvents{LTime: serf.LamportTime(min(sl.LT, maxLT))}
				for _, e := range sl.Evs {
					k := c05KeyOf(uint64(ue.LTime), e)
					ue.Events = append(ue.Events, serf.VerifUserEvent{Name: k.name, Payload: c05Bytes(e)})
				}
				pp.Events = append(pp.Events, ue)
			}
			buf := encPushPull(pp)
			if st.Kind == 4 || st.Kind == 5 {
				// park a Join on the held dial, merge, then fail the dial
				ignoreOld := st.Kind == 4
				done := make(chan struct{})
				go func() {
					defer close(done)
					_, _ = n.Serf.Join([]string{"127.0.9.9:7946"}, ignoreOld)
				}()
				select {
				case <-parked:
				case <-time.After(waitCap):
					x.Inconclusive("join did not reach the dial")
					release <- struct{}{}
					<-done
					return
				}
				n.Delegate.MergeRemoteState(buf, true)
				release <- struct{}{}
				<-done
				newCut := uint64(n.Serf.VerifEventMinTime())
				if newCut < nodeCut {
					x.Violationf("cutoff-decreased", "step %d: event cut-off went from %d to %d", si, nodeCut, newCut)
					return
				}
				if ignoreOld {
					if elt > ignoreBelow {
						ignoreBelow = elt
					}
					cutoff = ignoreBelow
					x.Label("step:pushpull-during-ignore-old-join")
				} else {
					// Join(ignoreOld=false): "user messages sent prior to the join"
					// are NOT to be ignored, so the cut-off of the model stays.
					x.Label("step:pushpull-during-plain-join")
				}
			} else {
				n.Delegate.MergeRemoteState(buf, st.Kind == 2)
				x.Label("step:pushpull")
			}
			if elt > 0 && elt-1 >= mclock {
				mclock = elt
			}
			for _, ue := range pp.Events {
				if ue == nil {
					continue
				}
				for _, e := range ue.Events {
					offer(c05Key{uint64(ue.LTime), e.Name, string(e.Payload)}, &mclock, cutoff, 2)
				}
			}
		}
		ok := waitUntil(n, waitCap, absorb, func() bool {
			if bad {
				return true
			}
			for k := range must {
				if delivered[k] == 0 {
					return false
				}
			}
			return true
		})
		if bad {
			return
		}
		if !ok {
			var miss []c05Key
			for k := range must {
				if delivered[k] == 0 {
					miss = append(miss, k)
				}
			}
			_, ecNow, _ := n.Serf.VerifClocks()
			missing(x, mon, "first-time-event-not-delivered",
				"step %d (kind %d), N=%d, event clock %d, cut-off %d: %v arrived for the first time inside the window and at/after the cut-off but was not delivered",
				si, st.Kind, c.N, uint64(ecNow), cutoff, miss)
			return
		}
		poll(n, absorb)
		if bad {
			return
		}
	}
	settle(n, 5*time.Millisecond, absorb)
	if bad {
		return
	}
	if g := mon.MaxGap(); g > starveGap {
		x.Label("starved-but-complete")
	}

	x.Labelf("N=%d", c.N)
	x.Labelf("delivered=%s", bucket(len(order), 0, 2, 5, 10, 20))
	if collDelivered > 0 {
		x.Label("slot-collision-both-delivered")
	}
	if crossDup > 0 {
		x.Label("duplicate-by-other-path")
	}
	if dupSamePath > 0 {
		x.Label("duplicate-same-path")
	}
	if readmitShape > 0 {
		x.Label("duplicate-after-slot-overwrite")
	}
	if edgeReject > 0 {
		x.Label("outside-window")
	}
	if belowCut > 0 {
		x.Label("below-cutoff")
	}
	if ignoreBelow > 0 {
		x.Label("join-cutoff-raised")
	}
	x.NonTrivial(collDelivered > 0 || crossDup > 0)
}

func TestC05(t *testing.T) { vkit.Run(t, "C05", genC05, bodyC05) }
