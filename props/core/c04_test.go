//go:build verif

package core

import (
	"fmt"
	"sort"
	"strings"
	"testing"
	"time"

	"github.com/hashicorp/serf/serf"
	"pgregory.net/rapid"

	"verif/internal/node"
	"verif/internal/simnet"
	"verif/internal/vkit"
)

// C04 — gossip of intents, user events and queries dies out: a node queues a
// re-broadcast of any given message at most once while the message is within
// its retention, and state-sync merges never queue re-broadcasts.
//
// One quiet node whose broadcast queues never drain (huge RetransmitMult).
// The case is a pool of 3-10 messages (join intent, leave intent with/without
// prune, user event, query) about self, three members, and a name the node
// never hears of from memberlist, with small Lamport times so that exact and
// near duplicates abound; the steps inject pool messages by gossip (again and
// again), play memberlist join/leave notifications for the members, and merge
// push/pull states that carry the same information.  After every step the
// three queues are read and compared with the previous reading.

type c04Msg struct {
	Kind  int    `json:"k"` // 0 join intent 1 leave intent 2 user event 3 query
	M     int    `json:"m"` // 0 self, 1..3 members, 4 never-known name
	LT    uint64 `json:"lt"`
	Prune bool   `json:"prune,omitempty"`
	Name  int    `json:"n,omitempty"`
	Pay   int    `json:"p,omitempty"`
	CC    bool   `json:"cc,omitempty"`
	ID    uint32 `json:"id,omitempty"`
	Flags int    `json:"f,omitempty"` // query: 0 none 1 ack 2 no-broadcast
	// query: 0 no filter, 1 node list without this node, 2 node list with it,
	// 3 tag pattern that does not match, 4 undecodable filter (a node the
	// filters exclude still has to remember and re-broadcast the query once)
	Filter int `json:"flt,omitempty"`
}

type c04Step struct {
	// 0 gossip pool[I], 1 NotifyJoin member I, 2 NotifyLeave member I, 3 push/pull built from pool[Sel...],
	// 4 pool[I] handed to the node by three goroutines at once (memberlist handles packets concurrently)
	Kind int   `json:"k"`
	I    int   `json:"i"`
	Sel  []int `json:"sel,omitempty"`
	Join bool  `json:"join,omitempty"`
}

type c04Case struct {
	Buf   int       `json:"buf"` // EventBuffer (and QueryBuffer unless QBuf is set)
	// QBuf, when non-zero, is a QueryBuffer size of its own: the two are
	// independent settings, and each kind's window is its own buffer's size
	QBuf int `json:"qbuf,omitempty"`
	Msgs  []c04Msg  `json:"msgs"`
	Steps []c04Step `json:"steps"`
}

var c04Member = []string{"n0", "m1", "m2", "m3", "ghost"}

func genC04(t *rapid.T) c04Case {
	c := c04Case{Buf: rapid.SampledFrom([]int{1, 2, 4, 4, 16, 512}).Draw(t, "buf")}
	if rapid.IntRange(0, 2).Draw(t, "own-qbuf") == 0 {
		c.QBuf = rapid.SampledFrom([]int{1, 2, 2, 4, 16, 512}).Draw(t, "qbuf")
	}
	np := rapid.IntRange(3, 10).Draw(t, "pool")
	ltGen := rapid.OneOf(rapid.Uint64Range(0, 6), rapid.Uint64Range(0, 6), rapid.Uint64Range(0, 6), rapid.SampledFrom([]uint64{40, 1 << 40, maxLT - 5}))
	for i := 0; i < np; i++ {
		m := c04Msg{Kind: rapid.SampledFrom([]int{0, 0, 1, 1, 1, 2, 2, 3, 3}).Draw(t, "kind"), LT: ltGen.Draw(t, "lt")}
		if i > 0 && rapid.IntRange(0, 3).Draw(t, "near") == 0 {
			// near duplicate of an earlier pool entry: one field changed
			m = c.Msgs[rapid.IntRange(0, i-1).Draw(t, "of")]
			switch rapid.IntRange(0, 3).Draw(t, "field") {
			case 0:
				m.LT = ltGen.Draw(t, "lt")
			case 1:
				m.Prune, m.CC = !m.Prune, !m.CC
				m.Flags = (m.Flags + 1) % 3
			case 2:
				m.Pay = (m.Pay + 1) % 3
			case 3:
				m.Kind = map[int]int{0: 1, 1: 0, 2: 2, 3: 3}[m.Kind]
			}
		} else {
			switch m.Kind {
			case 0, 1:
				m.M = rapid.SampledFrom([]int{0, 0, 1, 1, 2, 2, 3, 4}).Draw(t, "member")
				m.Prune = m.Kind == 1 && rapid.IntRange(0, 1).Draw(t, "prune") == 0
			case 2:
				m.Name, m.Pay, m.CC = rapid.IntRange(0, 1).Draw(t, "name"), rapid.IntRange(0, 2).Draw(t, "pay"), rapid.Bool().Draw(t, "cc")
			case 3:
				m.Name, m.ID, m.Flags = rapid.IntRange(0, 1).Draw(t, "name"), uint32(rapid.IntRange(1, 3).Draw(t, "id")), rapid.SampledFrom([]int{0, 0, 1, 2}).Draw(t, "flags")
				m.Filter = rapid.SampledFrom([]int{0, 0, 1, 1, 2, 3, 4}).Draw(t, "filter")
			}
		}
		c.Msgs = append(c.Msgs, m)
	}
	ns := rapid.IntRange(4, 40).Draw(t, "steps")
	for i := 0; i < ns; i++ {
		st := c04Step{Kind: rapid.SampledFrom([]int{0, 0, 0, 0, 0, 0, 1, 1, 2, 3, 3, 4, 5}).Draw(t, "step")}
		switch st.Kind {
		case 0, 4:
			st.I = rapid.IntRange(0, np-1).Draw(t, "i")
		case 1, 2:
			st.I = rapid.IntRange(1, 3).Draw(t, "member")
		case 3:
			st.Sel = rapid.SliceOfN(rapid.IntRange(0, np-1), 1, 5).Draw(t, "sel")
			st.Join = rapid.Bool().Draw(t, "join")
		}
		c.Steps = append(c.Steps, st)
	}
	// One case in four spells out what the intent-expiry step (5) needs: two
	// intents with growing times about a member the node never gets to know,
	// some steps apart, then the expiry pass.
	if rapid.IntRange(0, 3).Draw(t, "expiry-motif") == 0 {
		lt := rapid.Uint64Range(1, 5).Draw(t, "expiry-lt")
		k1, k2 := rapid.IntRange(0, 1).Draw(t, "expiry-k1"), rapid.IntRange(0, 1).Draw(t, "expiry-k2")
		c.Msgs = append(c.Msgs, c04Msg{Kind: k1, M: 4, LT: lt}, c04Msg{Kind: k2, M: 4, LT: lt + 1 + rapid.Uint64Range(0, 2).Draw(t, "expiry-gap")})
		i1, i2 := len(c.Msgs)-2, len(c.Msgs)-1
		at := rapid.IntRange(0, len(c.Steps)).Draw(t, "expiry-at")
		motif := []c04Step{{Kind: 0, I: i1}, {Kind: 0, I: i2}, {Kind: 5}}
		c.Steps = append(append(append([]c04Step{}, c.Steps[:at]...), motif...), c.Steps[at:]...)
	}
	return c
}

// c04Norm is the identity now. (It used to keep join intents about self out of
// the pool, because a refutation the node originates may be byte-equal to such
// a message; the body now tells originations from re-broadcasts by waiting, at
// the end of every step, until every refutation the node has announced in its
// log has reached the queue.)
func c04Norm(m c04Msg) c04Msg { return m }

func c04Encode(m c04Msg) []byte {
	m = c04Norm(m)
	lt := min(m.LT, maxLT)
	name := c04Member[m.M%len(c04Member)]
	switch m.Kind {
	case 0:
		return encJoin(lt, name)
	case 1:
		return encLeave(lt, name, m.Prune)
	case 2:
		b, err := serf.VerifEncodeMessage(serf.VerifMessageUserEventType, &serf.VerifMessageUserEvent{
			LTime: serf.LamportTime(lt), Name: c05Names[m.Name%len(c05Names)], Payload: c05Pays[m.Pay%len(c05Pays)], CC: m.CC}, false)
		if err != nil {
			panic(err)
		}
		return b
	default:
		var fl uint32
		switch m.Flags {
		case 1:
			fl = serf.VerifQueryFlagAck
		case 2:
			fl = serf.VerifQueryFlagNoBroadcast
		}
		var filters [][]byte
		switch m.Filter {
		case 1:
			f, _ := serf.VerifEncodeFilter(serf.VerifFilterNodeType, []string{"somebody-else", "another"})
			filters = [][]byte{f}
		case 2:
			f, _ := serf.VerifEncodeFilter(serf.VerifFilterNodeType, []string{"somebody-else", c04Member[0]})
			filters = [][]byte{f}
		case 3:
			f, _ := serf.VerifEncodeFilter(serf.VerifFilterTagType, &serf.VerifFilterTag{Tag: "role", Expr: "^never-matches$"})
			filters = [][]byte{f}
		case 4:
			filters = [][]byte{{serf.VerifFilterNodeType, 0xc1, 0xff}}
		}
		b, err := serf.VerifEncodeMessage(serf.VerifMessageQueryType, &serf.VerifMessageQuery{
			LTime: serf.LamportTime(lt), ID: m.ID, Addr: []byte{127, 0, 9, 9}, Port: 7946, SourceNode: "origin",
			Filters: filters, Flags: fl, Timeout: time.Second, Name: c05Names[m.Name%len(c05Names)], Payload: []byte("q"),
		}, false)
		if err != nil {
			panic(err)
		}
		return b
	}
}

var c04KindName = []string{"join-intent", "leave-intent", "user-event", "query"}

func bodyC04(c c04Case, x *vkit.Ctx) {
	volleyReset(len(c.Steps))
	if c.Buf < 1 || len(c.Msgs) == 0 {
		x.Inconclusive("bad case")
		return
	}
	nw := simnet.New(1)
	n, err := node.New(nw, node.Opts{Name: c04Member[0], Quiet: true, Mutate: func(cf *serf.Config) {
		cf.EventBuffer, cf.QueryBuffer = c.Buf, c.Buf
		if c.QBuf > 0 {
			cf.QueryBuffer = c.QBuf
		}
	}})
	if err != nil {
		x.Inconclusive("node setup: " + err.Error())
		return
	}
	defer n.Stop()
	n.Drain(node.Settle)
	drop := func(serf.Event) {}

	readQueues := func() map[string]int {
		a, b, d := n.Serf.VerifQueued()
		out := map[string]int{}
		for _, q := range [][][]byte{a, b, d} {
			for _, e := range q {
				out[string(e)]++
			}
		}
		return out
	}
	// The node announces every refutation in its log before it starts the
	// goroutine that queues the refuting join; counting those lines tells how
	// many originated self joins are due.
	refuteLogs := func() int { return strings.Count(n.Log.String(), "Refuting an older leave intent") }
	isSelfJoin := func(e string) bool {
		if len(e) == 0 || e[0] != serf.VerifMessageJoinType {
			return false
		}
		var j serf.VerifMessageJoin
		return serf.VerifDecodeMessage([]byte(e[1:]), &j) == nil && j.Node == c04Member[0]
	}
	memberSet := func() map[string]bool {
		out := map[string]bool{}
		for _, m := range n.Serf.Members() {
			out[m.Name] = true
		}
		return out
	}

	// model: how often each byte string was re-broadcast within its retention
	rebro := map[string]int{}
	aboutMember := map[string]string{} // intent bytes -> member name
	lamport := map[string]uint64{}     // event/query bytes -> time
	kindOf := map[string]int{}
	for _, m := range c.Msgs {
		m = c04Norm(m)
		b := string(c04Encode(m))
		kindOf[b] = m.Kind
		if m.Kind <= 1 {
			aboutMember[b] = c04Member[m.M%len(c04Member)]
		} else {
			lamport[b] = min(m.LT, maxLT)
		}
	}
	// Buffered intents about members the node does not know expire
	// RecentIntentTimeout after the node took them. For every such member the
	// harness keeps when the entry was created (after the first accepted
	// intent) and the interval in which the newest accepted intent was taken.
	type intentAge struct {
		firstA       time.Time // after the delivery that created the entry
		lastB, lastA time.Time // around the delivery of the newest accepted intent
		lastMsg      string
	}
	ages := map[string]*intentAge{}
	everKnown, notJudged := map[string]bool{}, map[string]bool{}
	var tb, ta time.Time
	expiryReaps, expiryJudged := 0, 0
	intentT := n.Conf.RecentIntentTimeout
	mlUp := map[int]bool{}
	prevQ := readQueues()
	prevMembers := memberSet()
	redelivered, redeliveredAfterRebro, merges, erased, refutes := 0, 0, 0, 0, 0
	selfJoinRebro, selfJoinInjected, concurrent := 0, 0, 0
	// unloggedOrigination: a self join appeared that is neither a re-broadcast
	// nor announced in the log; from then on additions of self joins cannot be
	// attributed and are not judged (never on the tree as it is).
	unloggedOrigination := false
	seenInput := map[string]bool{}
	rebroKinds := map[int]bool{}

	for si, st := range c.Steps {
		// retention of events/queries: once the clock has moved a full buffer
		// past a message it is outside the window the statement speaks of
		// ... and a message that is outside of it is not passed on at all (a member
		// that re-broadcast what it no longer remembers, every time it hears it,
		// is exactly how a finite set of messages gets gossiped forever). The
		// clocks only move forward, so outside before the step is outside in it.
		_, ec, qc := n.Serf.VerifClocks()
		outside := map[string]bool{}
		for b, lt := range lamport {
			clk, size := uint64(ec), uint64(c.Buf)
			if kindOf[b] == 3 {
				clk = uint64(qc)
				if c.QBuf > 0 {
					size = uint64(c.QBuf)
				}
			}
			if clk > size && lt < clk-size {
				rebro[b] = 0
				outside[b] = true
			}
		}
		injected, what := "", ""
		switch st.Kind {
		case 0:
			m := c04Norm(c.Msgs[st.I%len(c.Msgs)])
			b := c04Encode(m)
			injected = string(b)
			what = fmt.Sprintf("gossip %s %+v", c04KindName[m.Kind], m)
			if seenInput[injected] {
				redelivered++
				if rebro[injected] > 0 {
					redeliveredAfterRebro++
				}
			}
			seenInput[injected] = true
			if isSelfJoin(injected) {
				selfJoinInjected++
			}
			tb = time.Now()
			n.Delegate.NotifyMsg(b)
			ta = time.Now()
		case 5:
			// Expiry pass of the intent buffer at an instant of the harness'
			// choosing: after the entry about X was created (+T) but well before
			// its newest intent is T old. The entry must survive, so a duplicate of
			// that newest intent - delivered right after the pass - is still
			// remembered and must not be re-broadcast. Entries about other members
			// that are surely T old at that instant are forgotten; where the
			// harness' own time readings cannot tell, the member is not judged.
			var xs []string
			for name, a := range ages {
				if a.firstA.Before(a.lastB) && !everKnown[name] {
					xs = append(xs, name)
				}
			}
			if len(xs) == 0 || intentT <= 0 {
				continue
			}
			sort.Strings(xs)
			xname := xs[st.I%len(xs)]
			ax := ages[xname]
			now := ax.firstA.Add(intentT).Add(ax.lastB.Sub(ax.firstA) / 2)
			n.Serf.VerifReap(now)
			expiryReaps++
			for name, a := range ages {
				switch {
				case !a.lastA.Add(intentT).After(now): // surely expired
					for b, mn := range aboutMember {
						if mn == name {
							rebro[b] = 0
						}
					}
					delete(ages, name)
				case a.lastB.Add(intentT).After(now): // surely retained
				default:
					everKnown[name], notJudged[name] = true, true // cannot tell: not judged from here on
					delete(ages, name)
				}
			}
			// entries about members the harness has no time readings for (taken
			// through a push/pull or concurrently, or buffered again after an
			// erasure) may or may not have survived: their messages get the benefit
			// of the doubt (one more re-broadcast each is not judged)
			known := memberSet()
			for b, mn := range aboutMember {
				if mn != "" && !known[mn] && ages[mn] == nil {
					rebro[b] = 0
				}
			}
			if ages[xname] == nil {
				continue
			}
			injected = ax.lastMsg
			what = fmt.Sprintf("intent expiry pass at +%v, then the newest intent about %s again", now.Sub(ax.lastA), xname)
			redelivered++
			expiryJudged++
			tb = time.Now()
			n.Delegate.NotifyMsg([]byte(injected))
			ta = time.Now()
		case 4:
			m := c04Norm(c.Msgs[st.I%len(c.Msgs)])
			b := c04Encode(m)
			injected = string(b)
			what = fmt.Sprintf("3x concurrent gossip %s %+v", c04KindName[m.Kind], m)
			if seenInput[injected] {
				redelivered++
				if rebro[injected] > 0 {
					redeliveredAfterRebro++
				}
			}
			redelivered += 2
			seenInput[injected] = true
			if isSelfJoin(injected) {
				selfJoinInjected++
			}
			concurrent++
			copies := [][]byte{append([]byte(nil), b...), append([]byte(nil), b...), append([]byte(nil), b...)}
			volley(3, func(i int) { n.Delegate.NotifyMsg(copies[i]) })
		case 1, 2:
			mi := 1 + (st.I+2)%3
			name := c04Member[mi]
			if st.Kind == 1 {
				if mlUp[mi] {
					continue
				}
				mlUp[mi] = true
				what = "NotifyJoin " + name
				n.EventsD.NotifyJoin(node.MLNode(name, fmt.Sprintf("127.0.8.%d", mi), 7946, nil, 5, 5))
			} else {
				if !mlUp[mi] {
					continue
				}
				mlUp[mi] = false
				what = "NotifyLeave " + name
				n.EventsD.NotifyLeave(node.MLNode(name, fmt.Sprintf("127.0.8.%d", mi), 7946, nil, 5, 5))
			}
		case 3:
			pp := &serf.VerifMessagePushPull{StatusLTimes: map[string]serf.LamportTime{}}
			left := map[string]bool{}
			slots := map[uint64]*serf.VerifUserEvents{}
			var hi uint64
			for _, i := range st.Sel {
				m := c04Norm(c.Msgs[i%len(c.Msgs)])
				lt := min(m.LT, maxLT)
				name := c04Member[m.M%len(c04Member)]
				switch m.Kind {
				case 0:
					if !left[name] {
						pp.StatusLTimes[name] = serf.LamportTime(lt)
					}
					hi = max(hi, lt)
				case 1:
					// a left-list entry makes the receiver derive a leave at status time + 1
					left[name] = true
					if lt > 0 {
						pp.StatusLTimes[name] = serf.LamportTime(lt - 1)
					} else {
						pp.StatusLTimes[name] = 0
					}
					hi = max(hi, lt)
				case 2:
					sl := slots[lt]
					if sl == nil {
						sl = &serf.VerifUserEvents{LTime: serf.LamportTime(lt)}
						slots[lt] = sl
						pp.Events = append(pp.Events, sl)
					}
					sl.Events = append(sl.Events, serf.VerifUserEvent{Name: c05Names[m.Name%len(c05Names)], Payload: c05Pays[m.Pay%len(c05Pays)]})
					pp.EventLTime = max(pp.EventLTime, serf.LamportTime(satAdd(lt, 1)))
				case 3:
					pp.QueryLTime = max(pp.QueryLTime, serf.LamportTime(satAdd(lt, 1)))
				}
			}
			for name := range left {
				pp.LeftMembers = append(pp.LeftMembers, name)
			}
			sort.Strings(pp.LeftMembers)
			pp.LTime = serf.LamportTime(satAdd(hi, 1))
			what = fmt.Sprintf("push/pull join=%v left=%v status=%v events=%d", st.Join, pp.LeftMembers, pp.StatusLTimes, len(pp.Events))
			merges++
			n.Delegate.MergeRemoteState(encPushPull(pp), st.Join)
		}
		poll(n, drop)

		// Wait until every refutation announced so far has queued its join: then
		// no origination is in flight when the next step starts, and whatever a
		// step that injects a join about self adds to the queue is a re-broadcast.
		var q map[string]int
		deadline, spins := time.Now().Add(waitCap), 0
		for {
			q = readQueues()
			queued := 0
			for e, cnt := range q {
				if isSelfJoin(e) {
					queued += cnt
				}
			}
			inj := 0
			if isSelfJoin(injected) {
				inj = max(q[injected]-prevQ[injected], 0)
			}
			orig, due := queued-selfJoinRebro-inj, refuteLogs()
			if orig > due {
				unloggedOrigination = true
			}
			if orig >= due {
				break
			}
			if time.Now().After(deadline) {
				x.Inconclusive("a refutation announced in the log has not queued its join")
				return
			}
			spin(&spins)
		}
		erasedInStep := map[string]bool{}
		for e, cnt := range q {
			added := cnt - prevQ[e]
			if added <= 0 {
				continue
			}
			if notJudged[aboutMember[e]] {
				continue
			}
			if isSelfJoin(e) && (e != injected || unloggedOrigination) {
				refutes += added // an origination (refutation of a claim about self)
				continue
			}
			if isSelfJoin(e) {
				selfJoinRebro += added
			}
			switch {
			case st.Kind == 3:
				x.Violationf("merge-queued-rebroadcast", "step %d (%s): the state-sync merge queued %d broadcast(s) %x", si, what, added, e)
				return
			case e != injected:
				x.Violationf("foreign-broadcast-queued", "step %d (%s): %d new queue entr(ies) %x that are neither the received message nor a join about self", si, what, added, e)
				return
			case st.Kind == 4 && added == 2 && rebro[e] == 0 && aboutMember[e] != "" && prevMembers[aboutMember[e]] && !memberSet()[aboutMember[e]]:
				// Concurrent copies of a leave with prune: the first one erases the
				// member, and for the forgotten member the next copy starts a new
				// retention (see the assumptions) and is re-broadcast once more.
				erasedInStep[e] = true
			case outside[e]:
				x.Violationf(c04KindName[kindOf[e]]+"-rebroadcast-outside-window",
					"step %d (%s): a message older than the retention window (time %d; clocks event %d query %d, buffers %d/%d) was queued for re-broadcast",
					si, what, lamport[e], ec, qc, c.Buf, map[bool]int{true: c.QBuf, false: c.Buf}[c.QBuf > 0])
				return
			case added > 1 || rebro[e] > 0:
				x.Violationf(c04KindName[kindOf[e]]+"-rebroadcast-again",
					"step %d (%s): the same message was queued for re-broadcast again (%d time(s) before, %d now; %d copies in the queues) while still retained",
					si, what, rebro[e], added, cnt)
				return
			}
			rebro[e] += added
			rebroKinds[kindOf[e]] = true
			// an intent about a member the node does not know was taken into the
			// buffer (that is why it was passed on): its age counts from this step
			if name := aboutMember[e]; name != "" && e == injected && !prevMembers[name] && !everKnown[name] {
				if st.Kind == 0 || st.Kind == 5 {
					a := ages[name]
					if a == nil {
						a = &intentAge{firstA: ta}
						ages[name] = a
					}
					a.lastB, a.lastA, a.lastMsg = tb, ta, e
				} else {
					everKnown[name] = true // taken concurrently: no usable time reading
					delete(ages, name)
				}
			}
		}
		for e, cnt := range prevQ {
			if q[e] < cnt {
				// cannot happen with the harness' retransmit limit; do not judge on a drained queue
				x.Inconclusive("broadcast queue drained")
				return
			}
		}
		prevQ = q
		for name := range memberSet() {
			if !everKnown[name] {
				everKnown[name] = true
				delete(ages, name)
			}
		}
		// a member the node has erased (prune) is forgotten: its intents start a new retention
		ms := memberSet()
		for name := range prevMembers {
			if !ms[name] {
				erased++
				for b, mn := range aboutMember {
					if mn == name {
						rebro[b] = 0
					}
				}
			}
		}
		prevMembers = ms
	}
	x.Labelf("buf=%d", c.Buf)
	if c.QBuf > 0 && c.QBuf != c.Buf {
		x.Label("query-buffer-of-its-own")
	}
	x.Labelf("redelivered=%s", bucket(redelivered, 0, 2, 5, 10))
	if redeliveredAfterRebro > 0 {
		x.Label("redelivered-after-rebroadcast")
	}
	for k := range rebroKinds {
		x.Label("rebroadcast:" + c04KindName[k])
	}
	if merges > 0 {
		x.Label("merge")
	}
	if erased > 0 {
		x.Label("member-erased-by-prune")
	}
	if refutes > 0 {
		x.Label("self-refutation")
	}
	if selfJoinInjected > 0 {
		x.Label("join-intent-about-self-by-gossip")
	}
	if selfJoinRebro > 0 {
		x.Label("rebroadcast:join-intent-about-self")
	}
	if expiryReaps > 0 {
		x.Label("intent-expiry-pass")
	}
	if expiryJudged > 0 {
		x.Label("newest-intent-redelivered-after-expiry-pass")
	}
	if concurrent > 0 {
		x.Label("concurrent-duplicates")
	}
	if unloggedOrigination {
		x.Label("unlogged-self-join-origination")
	}
	x.NonTrivial(redeliveredAfterRebro > 0)
}

func TestC04(t *testing.T) { vkit.Run(t, "C04", genC04, bodyC04) }
