//go:build verif

package core

import (
	"fmt"
	"sort"
	"testing"
	"time"

	"github.com/hashicorp/memberlist"
	"github.com/hashicorp/serf/serf"
	"pgregory.net/rapid"

	"verif/internal/node"
	"verif/internal/simnet"
	"verif/internal/vkit"
)

// C15 — the failed/left counters always equal the numbers of members listed
// as failed/left, names are unique, reaping removes exactly the failed members
// past the reconnect timeout and the left members past the tombstone timeout
// (each as adjusted by the per-member override) with exactly one reap event
// each, and a pruned member disappears.
//
// One quiet node; the harness plays memberlist (join/leave/update
// notifications, alternating per member as memberlist does) and the wire
// (join/leave intents with Lamport times around the member's status time,
// prune on/off), uses the local RemoveFailedNode[Prune], and triggers the reap
// passes with an explicit time `now = real now + D`, D an odd number of half
// hours, while every timeout is a whole number of hours: the few milliseconds
// of real time a case takes never decide an outcome.
//
// The oracle is stated on observed state (Members(), Stats(), reap events),
// not on a re-implementation of the status machine.

type c15Step struct {
	// 0 NotifyJoin 1 NotifyLeave 2 NotifyUpdate 3 join intent 4 leave intent 5 local RemoveFailedNode 6 reap
	// 7 reap exactly one nanosecond before (Rel<0) / at the very instant (Rel==0) / one nanosecond after (Rel>0) the timeout of the M-th failed-or-left member runs out
	// 8 push/pull: member M at its status time + Rel, on the left list if Prune is set; member Tag as a plain status time
	Kind  int  `json:"k"`
	M     int  `json:"m"`
	Rel   int  `json:"r,omitempty"`
	Prune bool `json:"prune,omitempty"`
	D     int  `json:"d,omitempty"` // reap: now = real now + D half-hours (made odd)
	Tag   int  `json:"t,omitempty"`
}

type c15Case struct {
	Members  int       `json:"members"`
	R        int       `json:"R"`              // reconnect timeout, hours
	T        int       `json:"T"`              // tombstone timeout, hours
	Override []int     `json:"override"`       // per member, hours; 0 = no override; -1 = half of whatever timeout applies; -2 = a timeout of zero ("forget at once")
	Real     bool      `json:"real,omitempty"` // the node's own reaper goroutine does the reaping (see bodyC15Real)
	Steps    []c15Step `json:"steps"`
}

func genC15(t *rapid.T) c15Case {
	c := c15Case{
		Members: rapid.IntRange(3, 6).Draw(t, "members"),
		R:       rapid.SampledFrom([]int{4, 4, 10, 10, 30}).Draw(t, "R"), // 30: reconnect timeout above the tombstone timeout
		T:       rapid.SampledFrom([]int{2, 10, 10, 24, 24}).Draw(t, "T"),
	}
	c.Real = rapid.IntRange(0, 4).Draw(t, "real") == 0
	hours := []int{0, 40, c.R, c.R, c.T, c.T}
	for i := 0; i < c.Members; i++ {
		o := rapid.SampledFrom([]int{0, 0, 0, 2, 6, 16, 30, -1, -2}).Draw(t, "override")
		c.Override = append(c.Override, o)
		if o > 0 {
			hours = append(hours, o)
		}
		if o < 0 {
			hours = append(hours, c.R/2, c.T/2)
		}
	}
	// usually start with everybody joined, so that failures and departures
	// accumulate before the first reap pass
	if rapid.IntRange(0, 3).Draw(t, "prefix") > 0 {
		for i := 0; i < c.Members; i++ {
			c.Steps = append(c.Steps, c15Step{Kind: 0, M: i})
		}
	}
	n := rapid.IntRange(6, 45).Draw(t, "steps")
	for i := 0; i < n; i++ {
		st := c15Step{Kind: rapid.SampledFrom([]int{0, 0, 1, 1, 1, 1, 1, 2, 3, 3, 4, 4, 4, 4, 5, 5, 6, 6, 6, 7, 7, 8}).Draw(t, "kind"),
			M: rapid.IntRange(0, c.Members-1).Draw(t, "m")}
		switch st.Kind {
		case 7:
			st.Rel = rapid.SampledFrom([]int{-1, 0, 0, 1}).Draw(t, "side")
		case 8:
			st.Rel = rapid.SampledFrom([]int{-1, 0, 1, 1, 2}).Draw(t, "rel")
			st.Prune = rapid.Bool().Draw(t, "left")
			st.Tag = rapid.IntRange(0, c.Members-1).Draw(t, "m2")
		case 2:
			st.Tag = rapid.IntRange(0, 3).Draw(t, "tag")
		case 3, 4:
			st.Rel = rapid.SampledFrom([]int{-1, 0, 1, 1, 1, 2, 3}).Draw(t, "rel")
			st.Prune = st.Kind == 4 && rapid.IntRange(0, 5).Draw(t, "prune") == 0
		case 5:
			st.Prune = rapid.IntRange(0, 2).Draw(t, "prune") == 0
		case 6:
			h := rapid.SampledFrom(hours).Draw(t, "h")
			st.D = 2*h + rapid.SampledFrom([]int{-1, 1}).Draw(t, "side")
			if st.D < 1 {
				st.D = 1
			}
		}
		c.Steps = append(c.Steps, st)
	}
	return c
}

// c15Override: a fixed per-member timeout, or (negative entry) half of the
// timeout that would apply otherwise (so the value handed to the override
// matters: reconnect timeout for a failed member, tombstone for a left one).
type c15Override map[string]time.Duration

func (o c15Override) ReconnectTimeout(m *serf.Member, timeout time.Duration) time.Duration {
	return o.of(m.Name, timeout)
}

func (o c15Override) of(name string, timeout time.Duration) time.Duration {
	if d, ok := o[name]; ok {
		if d < 0 {
			return timeout / 2
		}
		return d
	}
	return timeout
}

// Member names that are prefixes / case variants of each other or contain
// separator characters: whatever finds a member by name has to match the
// whole name, exactly.
var c15Names = []string{"m0", "m0:1", "M0", "m0/x", "m 0", "m00"}

func c15Name(i int) string {
	if i >= 0 && i < len(c15Names) {
		return c15Names[i]
	}
	return fmt.Sprintf("m%d", i)
}

func bodyC15(c c15Case, x *vkit.Ctx) {
	if c.Members < 1 || c.R < 1 || c.T < 1 {
		x.Inconclusive("bad case")
		return
	}
	if c.Real {
		bodyC15Real(c, x)
		return
	}
	const self = "self"
	ov := c15Override{}
	for i := 0; i < c.Members && i < len(c.Override); i++ {
		if c.Override[i] > 0 {
			ov[c15Name(i)] = time.Duration(c.Override[i]) * time.Hour
		} else if c.Override[i] == -2 {
			ov[c15Name(i)] = 0 // the override's answer is a timeout like any other, zero included
		} else if c.Override[i] < 0 {
			ov[c15Name(i)] = -1
		}
	}
	nw := simnet.New(1)
	n, err := node.New(nw, node.Opts{Name: self, Quiet: true, Mutate: func(cf *serf.Config) {
		cf.ReconnectTimeout = time.Duration(c.R) * time.Hour
		cf.TombstoneTimeout = time.Duration(c.T) * time.Hour
		cf.ReconnectTimeoutOverride = ov
	}})
	if err != nil {
		x.Inconclusive("node setup: " + err.Error())
		return
	}
	defer n.Stop()
	mon := vkit.StartMonitor()
	defer mon.Stop()
	t0 := time.Now()

	// pending[name] = removals of name from the member list for which no reap
	// event has been seen yet; an event that finds nothing pending is surplus.
	pending := map[string]int{}
	everGone := map[string]bool{}
	surplus := ""
	absorb := func(e serf.Event) {
		if me, ok := e.(serf.MemberEvent); ok && me.Type == serf.EventMemberReap {
			for _, m := range me.Members {
				if pending[m.Name] > 0 {
					pending[m.Name]--
				} else if surplus == "" {
					surplus = m.Name
				}
			}
		}
	}
	settle(n, node.Settle, absorb)

	view := func() map[string]serf.MemberStatus {
		out := map[string]serf.MemberStatus{}
		for _, m := range n.Serf.Members() {
			out[m.Name] = m.Status
		}
		return out
	}
	// invariants after every step
	invariants := func(si int, what string) bool {
		ms := n.Serf.Members()
		seen := map[string]bool{}
		nf, nl := 0, 0
		for _, m := range ms {
			if seen[m.Name] {
				x.Violationf("duplicate-member-name", "step %d (%s): %q listed twice in Members()", si, what, m.Name)
				return false
			}
			seen[m.Name] = true
			switch m.Status {
			case serf.StatusFailed:
				nf++
			case serf.StatusLeft:
				nl++
			}
		}
		st := n.Serf.Stats()
		if st["failed"] != fmt.Sprint(nf) {
			fl, _ := n.Serf.VerifFailedLeftNames()
			x.Violationf("failed-count-mismatch", "step %d (%s): Stats failed=%s but Members() lists %d failed (failed list %v; members %v)", si, what, st["failed"], nf, fl, view())
			return false
		}
		if st["left"] != fmt.Sprint(nl) {
			_, ll := n.Serf.VerifFailedLeftNames()
			x.Violationf("left-count-mismatch", "step %d (%s): Stats left=%s but Members() lists %d left (left list %v; members %v)", si, what, st["left"], nl, ll, view())
			return false
		}
		if st["members"] != fmt.Sprint(len(ms)) {
			x.Violationf("members-count-mismatch", "step %d (%s): Stats members=%s but Members() has %d entries", si, what, st["members"], len(ms))
			return false
		}
		return true
	}

	mlUp := map[int]bool{}
	meta := func(tag int) []byte { return n.Serf.VerifEncodeTags(map[string]string{"t": fmt.Sprint(tag)}) }
	pick := func(start int, want bool) (int, bool) {
		for k := 0; k < c.Members; k++ {
			i := (start + k) % c.Members
			if mlUp[i] == want {
				return i, true
			}
		}
		return 0, false
	}
	tags := map[int]int{}
	ntMixedReap, forcedLeftOfFailed, ntRejoinAfterForce := false, map[string]bool{}, false
	reaps, prunes, reapRemoved, maxFailed, maxLeft := 0, 0, 0, 0, 0
	boundaryReaps, pushpulls := 0, 0

	for si, st := range c.Steps {
		before := view()
		what := ""
		expectGone := map[string]bool{} // must be gone afterwards
		mustReapEvent := map[string]bool{}
		switch st.Kind {
		case 0:
			i, ok := pick(st.M, false)
			if !ok {
				continue
			}
			mlUp[i] = true
			what = "NotifyJoin " + c15Name(i)
			if forcedLeftOfFailed[c15Name(i)] && before[c15Name(i)] == serf.StatusLeft {
				ntRejoinAfterForce = true
			}
			n.EventsD.NotifyJoin(node.MLNode(c15Name(i), fmt.Sprintf("127.0.7.%d", i+1), 7946, meta(tags[i]), 5, 5))
		case 1:
			i, ok := pick(st.M, true)
			if !ok {
				continue
			}
			mlUp[i] = false
			what = "NotifyLeave " + c15Name(i)
			n.EventsD.NotifyLeave(node.MLNode(c15Name(i), fmt.Sprintf("127.0.7.%d", i+1), 7946, meta(tags[i]), 5, 5))
		case 2:
			i, ok := pick(st.M, true)
			if !ok {
				continue
			}
			tags[i] = st.Tag
			what = "NotifyUpdate " + c15Name(i)
			n.EventsD.NotifyUpdate(node.MLNode(c15Name(i), fmt.Sprintf("127.0.7.%d", i+1), 7946, meta(tags[i]), 5, 5))
		case 3, 4:
			name := c15Name(st.M % c.Members)
			var base uint64
			if s, ok := n.Serf.VerifStatusLTime(name); ok {
				base = uint64(s)
			} else if _, lt, ok := n.Serf.VerifRecentIntent(name); ok {
				base = uint64(lt)
			} else {
				mc, _, _ := n.Serf.VerifClocks()
				base = uint64(mc)
			}
			lt := base
			if st.Rel < 0 {
				if lt > 0 {
					lt--
				}
			} else {
				lt = satAdd(lt, uint64(st.Rel))
			}
			if st.Kind == 3 {
				what = fmt.Sprintf("join intent %s@%d", name, lt)
				n.Delegate.NotifyMsg(encJoin(lt, name))
				break
			}
			what = fmt.Sprintf("leave intent %s@%d prune=%v", name, lt, st.Prune)
			s, known := n.Serf.VerifStatusLTime(name)
			accepted := known && lt > uint64(s)
			if accepted && before[name] == serf.StatusFailed {
				forcedLeftOfFailed[name] = true
			}
			if st.Prune {
				if accepted {
					expectGone[name] = true
					prunes++
				}
			}
			n.Delegate.NotifyMsg(encLeave(lt, name, st.Prune))
		case 5:
			name := c15Name(st.M % c.Members)
			what = fmt.Sprintf("local RemoveFailedNode %s prune=%v", name, st.Prune)
			mc, _, _ := n.Serf.VerifClocks()
			s, known := n.Serf.VerifStatusLTime(name)
			accepted := known && uint64(mc) > uint64(s)
			if accepted && before[name] == serf.StatusFailed {
				forcedLeftOfFailed[name] = true
			}
			if st.Prune {
				if accepted {
					expectGone[name] = true
					prunes++
				}
				_ = n.Serf.RemoveFailedNodePrune(name)
			} else {
				_ = n.Serf.RemoveFailedNode(name)
			}
		case 6:
			d := st.D
			if d%2 == 0 {
				d++
			}
			if d < 1 {
				d = 1
			}
			if time.Since(t0) > 10*time.Minute {
				x.Inconclusive("case ran for more than ten minutes")
				return
			}
			ahead := time.Duration(d) * 30 * time.Minute
			what = fmt.Sprintf("reap at now+%v", ahead)
			expF, keepF, expL, keepL := 0, 0, 0, 0
			for name, status := range before {
				var timeout time.Duration
				switch status {
				case serf.StatusFailed:
					timeout = time.Duration(c.R) * time.Hour
				case serf.StatusLeft:
					timeout = time.Duration(c.T) * time.Hour
				default:
					continue
				}
				timeout = ov.of(name, timeout)
				// the member became failed/left during this case, i.e. between
				// t0 and now; ahead and timeout differ by at least 30 minutes
				expired := ahead > timeout
				if expired {
					expectGone[name] = true
					mustReapEvent[name] = true
				}
				switch {
				case status == serf.StatusFailed && expired:
					expF++
				case status == serf.StatusFailed:
					keepF++
				case expired:
					expL++
				default:
					keepL++
				}
			}
			if (expF > 0 && keepF > 0) || (expL > 0 && keepL > 0) {
				ntMixedReap = true
			}
			reaps++
			reapRemoved += len(expectGone)
			n.Serf.VerifReap(time.Now().Add(ahead))
		case 7:
			// The exact boundary: the pass runs one nanosecond before or after the
			// timeout of one failed/left member runs out, counted from the instant
			// the node recorded for it; every other entry is judged against its own
			// recorded instant as exactly.
			type entry struct {
				name    string
				since   time.Time
				timeout time.Duration
			}
			var entries []entry
			odd := false
			for name, status := range before {
				var timeout time.Duration
				switch status {
				case serf.StatusFailed:
					timeout = time.Duration(c.R) * time.Hour
				case serf.StatusLeft:
					timeout = time.Duration(c.T) * time.Hour
				default:
					continue
				}
				since, ok := n.Serf.VerifLeaveTime(name)
				if !ok || since.Before(t0) || since.After(time.Now()) {
					odd = true // not an instant of this case: nothing to measure from
				}
				entries = append(entries, entry{name, since, ov.of(name, timeout)})
			}
			if len(entries) == 0 || odd {
				if odd {
					x.Label("boundary-reap-skipped-odd-leave-time")
				}
				continue
			}
			sort.Slice(entries, func(i, j int) bool { return entries[i].name < entries[j].name })
			tg := entries[st.M%len(entries)]
			delta := time.Nanosecond
			if st.Rel < 0 {
				delta = -time.Nanosecond
			} else if st.Rel == 0 {
				delta = 0 // exactly up is not yet "past" the timeout: the member stays
			}
			now := tg.since.Add(tg.timeout + delta)
			what = fmt.Sprintf("reap %v relative to the end of %s's timeout (%v)", delta, tg.name, tg.timeout)
			expN, keepN := 0, 0
			for _, e := range entries {
				if now.Sub(e.since) > e.timeout {
					expectGone[e.name] = true
					mustReapEvent[e.name] = true
					expN++
				} else {
					keepN++
				}
			}
			if expN > 0 && keepN > 0 {
				ntMixedReap = true
			}
			boundaryReaps++
			reaps++
			reapRemoved += len(expectGone)
			n.Serf.VerifReap(now)
		case 8:
			pp := &serf.VerifMessagePushPull{StatusLTimes: map[string]serf.LamportTime{}}
			name := c15Name(st.M % c.Members)
			var base uint64
			if s, ok := n.Serf.VerifStatusLTime(name); ok {
				base = uint64(s)
			} else if _, lt, ok := n.Serf.VerifRecentIntent(name); ok {
				base = uint64(lt)
			}
			lt := base
			if st.Rel < 0 {
				if lt > 0 {
					lt--
				}
			} else {
				lt = satAdd(lt, uint64(st.Rel))
			}
			if st.Prune {
				// on the left list: the receiver derives a leave at status time + 1
				pp.LeftMembers = []string{name}
				s, known := n.Serf.VerifStatusLTime(name)
				if known && satAdd(lt, 1) > uint64(s) && before[name] == serf.StatusFailed {
					forcedLeftOfFailed[name] = true
				}
			}
			pp.StatusLTimes[name] = serf.LamportTime(lt)
			if other := c15Name(st.Tag % c.Members); other != name {
				if s, ok := n.Serf.VerifStatusLTime(other); ok {
					pp.StatusLTimes[other] = s + 1
				}
			}
			mc, _, _ := n.Serf.VerifClocks()
			pp.LTime = mc
			what = fmt.Sprintf("push/pull status=%v left=%v", pp.StatusLTimes, pp.LeftMembers)
			pushpulls++
			n.Delegate.MergeRemoteState(encPushPull(pp), false)
		}
		isReap := st.Kind == 6 || st.Kind == 7

		after := view()
		// who disappeared?
		var gone []string
		for name := range before {
			if _, ok := after[name]; !ok {
				gone = append(gone, name)
			}
		}
		sort.Strings(gone)
		for _, name := range gone {
			if name == self {
				x.Violationf("self-removed", "step %d (%s): the node removed itself from its member list", si, what)
				return
			}
			if isReap && !expectGone[name] {
				x.Violationf("reaped-before-timeout", "step %d (%s): %s (%v, override %v, R=%dh T=%dh) was reaped although its timeout had not passed", si, what, name, before[name], ov[name], c.R, c.T)
				return
			}
		}
		var exp []string
		for name := range expectGone {
			exp = append(exp, name)
		}
		sort.Strings(exp)
		for _, name := range exp {
			if _, still := after[name]; still {
				if isReap {
					x.Violationf("not-reaped-after-timeout", "step %d (%s): %s (%v, override %v, R=%dh T=%dh) is past its timeout but still listed (%v)", si, what, name, before[name], ov[name], c.R, c.T, after[name])
				} else {
					x.Violationf("pruned-member-still-listed", "step %d (%s): %s was %v before an accepted force-leave with prune and is still listed as %v", si, what, name, before[name], after[name])
				}
				return
			}
		}
		if !invariants(si, what) {
			return
		}
		// reap events: exactly one for every reaped member, none for anyone
		// else. A pruned member's event is waited for but not demanded.
		for _, name := range gone {
			pending[name]++
			everGone[name] = true
		}
		ok := waitUntil(n, waitCap, absorb, func() bool {
			if surplus != "" {
				return true
			}
			for _, name := range gone {
				if pending[name] > 0 {
					return false
				}
			}
			return true
		})
		if !ok && surplus == "" {
			for _, name := range gone {
				if pending[name] > 0 && mustReapEvent[name] {
					missing(x, mon, "reap-event-missing", "step %d (%s): %s was reaped but no reap event arrived within %v", si, what, name, waitCap)
					return
				}
			}
		}
		if isReap || len(gone) > 0 {
			settle(n, time.Millisecond, absorb)
		} else {
			poll(n, absorb)
		}
		if surplus != "" {
			if everGone[surplus] {
				x.Violationf("duplicate-reap-event", "step %d (%s): a second reap event for %s (one removal, more than one event)", si, what, surplus)
			} else {
				x.Violationf("reap-event-without-removal", "step %d (%s): reap event for %s, which was never removed from the member list (status now %v)", si, what, surplus, after[surplus])
			}
			return
		}
		nf, nl := 0, 0
		for _, s := range after {
			if s == serf.StatusFailed {
				nf++
			}
			if s == serf.StatusLeft {
				nl++
			}
		}
		maxFailed, maxLeft = max(maxFailed, nf), max(maxLeft, nl)
	}
	x.Labelf("reaps=%s", bucket(reaps, 0, 1, 3))
	x.Labelf("reap-removed=%s", bucket(reapRemoved, 0, 1, 3))
	x.Labelf("max-failed=%d", min(maxFailed, 4))
	x.Labelf("max-left=%d", min(maxLeft, 4))
	if prunes > 0 {
		x.Label("accepted-prune")
	}
	if boundaryReaps > 0 {
		x.Label("reap-at-exact-boundary")
	}
	if pushpulls > 0 {
		x.Label("push/pull")
	}
	x.Labelf("R%sT", map[bool]string{true: ">", false: "<="}[c.R > c.T])
	if ntMixedReap {
		x.Label("reap-with-expired-and-unexpired-in-one-list")
	}
	if len(forcedLeftOfFailed) > 0 {
		x.Label("force-leave-on-failed-member")
	}
	if ntRejoinAfterForce {
		x.Label("rejoin-after-force-leave-of-failed")
	}
	x.NonTrivial(ntMixedReap || ntRejoinAfterForce)
}

// bodyC15Real: the same histories, but the node's own handleReap goroutine
// (ReapInterval 2 ms) does the reaping with the real clock. Timeouts are
// either "tiny" (1 ns: R=4, T=10, overrides <= 6 h) or long (the given hours),
// so "past the timeout" is again never decided by real milliseconds. This
// mode exists because VerifReap repeats the three lines of handleReap that
// choose which timeout goes with which list; here those lines themselves run.
// Judged: the counters (read race-free), long-timeout failed/left members are
// never removed unless the step acted on them, tiny-timeout ones disappear
// (2 s cap, starvation-guarded). Reap events are not judged in this mode.
func bodyC15Real(c c15Case, x *vkit.Ctx) {
	const self = "self"
	dur := func(h int, tinyUpTo int) time.Duration {
		if h <= tinyUpTo {
			return time.Nanosecond
		}
		return time.Duration(h) * time.Hour
	}
	R, T := dur(c.R, 4), dur(c.T, 10)
	ov := c15Override{}
	for i := 0; i < c.Members && i < len(c.Override); i++ {
		if c.Override[i] > 0 {
			ov[c15Name(i)] = dur(c.Override[i], 6)
		} else if c.Override[i] < 0 {
			ov[c15Name(i)] = -1 // half: tiny stays tiny (0), long stays long
		}
	}
	timeoutOf := func(name string, st serf.MemberStatus) (time.Duration, bool) {
		var d time.Duration
		switch st {
		case serf.StatusFailed:
			d = R
		case serf.StatusLeft:
			d = T
		default:
			return 0, false
		}
		return ov.of(name, d), true
	}
	nw := simnet.New(1)
	n, err := node.New(nw, node.Opts{Name: self, Quiet: true, Mutate: func(cf *serf.Config) {
		cf.ReconnectTimeout, cf.TombstoneTimeout = R, T
		cf.ReconnectTimeoutOverride = ov
		cf.ReapInterval = 2 * time.Millisecond
	}})
	if err != nil {
		x.Inconclusive("node setup: " + err.Error())
		return
	}
	defer n.Stop()
	mon := vkit.StartMonitor()
	defer mon.Stop()
	drop := func(serf.Event) {}

	view := func() map[string]serf.MemberStatus {
		out := map[string]serf.MemberStatus{}
		for _, m := range n.Serf.Members() {
			out[m.Name] = m.Status
		}
		return out
	}
	same := func(a, b map[string]serf.MemberStatus) bool {
		if len(a) != len(b) {
			return false
		}
		for k, v := range a {
			if w, ok := b[k]; !ok || w != v {
				return false
			}
		}
		return true
	}
	// counters, read between two identical member lists (the reaper runs concurrently)
	counters := func(si int, what string) bool {
		for try := 0; try < 20; try++ {
			a := view()
			st := n.Serf.Stats()
			if !same(a, view()) {
				continue
			}
			nf, nl := 0, 0
			for _, s := range a {
				if s == serf.StatusFailed {
					nf++
				}
				if s == serf.StatusLeft {
					nl++
				}
			}
			if st["failed"] != fmt.Sprint(nf) {
				x.Violationf("failed-count-mismatch", "step %d (%s, own reaper): Stats failed=%s but Members() lists %d failed (%v)", si, what, st["failed"], nf, a)
				return false
			}
			if st["left"] != fmt.Sprint(nl) {
				x.Violationf("left-count-mismatch", "step %d (%s, own reaper): Stats left=%s but Members() lists %d left (%v)", si, what, st["left"], nl, a)
				return false
			}
			return true
		}
		return true // never got a quiet reading; nothing to say
	}
	kept, reapedTiny := 0, 0
	judge := func(si int, what string, last, cur map[string]serf.MemberStatus, acted string) bool {
		for name, st := range last {
			if _, still := cur[name]; still || name == acted {
				continue
			}
			if name == self {
				x.Violationf("self-removed", "step %d (%s, own reaper): the node removed itself", si, what)
				return false
			}
			if d, ok := timeoutOf(name, st); ok {
				if d > time.Nanosecond {
					x.Violationf("reaped-before-timeout", "step %d (%s, own reaper): %s was %v with a timeout of %v (R=%v T=%v override %v) and has been removed", si, what, name, st, d, R, T, ov[name])
					return false
				}
				reapedTiny++
			}
		}
		return true
	}
	waitGone := func(si int, what string) bool {
		deadline := time.Now().Add(waitCap)
		spins := 0
		for {
			var due []string
			long := 0
			for name, st := range view() {
				if d, ok := timeoutOf(name, st); ok {
					if d <= time.Nanosecond {
						due = append(due, fmt.Sprintf("%s(%v)", name, st))
					} else {
						long++
					}
				}
			}
			if len(due) == 0 {
				kept += long
				return true
			}
			if time.Now().After(deadline) {
				sort.Strings(due)
				missing(x, mon, "not-reaped-after-timeout", "step %d (%s, own reaper every 2ms): %v have a 1ns timeout (R=%v T=%v override %v) and are still listed after %v", si, what, due, R, T, ov, waitCap)
				return false
			}
			spin(&spins)
		}
	}

	mlUp := map[int]bool{}
	tags := map[int]int{}
	meta := func(tag int) []byte { return n.Serf.VerifEncodeTags(map[string]string{"t": fmt.Sprint(tag)}) }
	pick := func(start int, want bool) (int, bool) {
		for k := 0; k < c.Members; k++ {
			i := (start + k) % c.Members
			if mlUp[i] == want {
				return i, true
			}
		}
		return 0, false
	}
	last := view()
	waits := 0
	for si, st := range c.Steps {
		cur := view()
		if !judge(si, "between steps", last, cur, "") {
			return
		}
		last = cur
		what, acted := "", ""
		switch st.Kind {
		case 0, 1, 2:
			i, ok := pick(st.M, st.Kind != 0)
			if !ok {
				continue
			}
			acted = c15Name(i)
			mn := func() *memberlist.Node {
				return node.MLNode(acted, fmt.Sprintf("127.0.7.%d", i+1), 7946, meta(tags[i]), 5, 5)
			}
			switch st.Kind {
			case 0:
				mlUp[i], what = true, "NotifyJoin "+acted
				n.EventsD.NotifyJoin(mn())
			case 1:
				mlUp[i], what = false, "NotifyLeave "+acted
				n.EventsD.NotifyLeave(mn())
			case 2:
				tags[i] = st.Tag
				what = "NotifyUpdate " + acted
				n.EventsD.NotifyUpdate(mn())
			}
		case 3, 4:
			acted = c15Name(st.M % c.Members)
			var base uint64
			if s, ok := n.Serf.VerifStatusLTime(acted); ok {
				base = uint64(s)
			} else {
				mc, _, _ := n.Serf.VerifClocks()
				base = uint64(mc)
			}
			lt := satAdd(base, uint64(max(st.Rel, 0)))
			if st.Kind == 3 {
				what = fmt.Sprintf("join intent %s@%d", acted, lt)
				n.Delegate.NotifyMsg(encJoin(lt, acted))
			} else {
				what = fmt.Sprintf("leave intent %s@%d prune=%v", acted, lt, st.Prune)
				n.Delegate.NotifyMsg(encLeave(lt, acted, st.Prune))
			}
		case 5:
			acted = c15Name(st.M % c.Members)
			what = fmt.Sprintf("local RemoveFailedNode %s prune=%v", acted, st.Prune)
			if st.Prune {
				_ = n.Serf.RemoveFailedNodePrune(acted)
			} else {
				_ = n.Serf.RemoveFailedNode(acted)
			}
		case 8:
			acted = c15Name(st.M % c.Members)
			pp := &serf.VerifMessagePushPull{StatusLTimes: map[string]serf.LamportTime{}}
			var base uint64
			if s, ok := n.Serf.VerifStatusLTime(acted); ok {
				base = uint64(s)
			}
			pp.StatusLTimes[acted] = serf.LamportTime(satAdd(base, uint64(max(st.Rel, 0))))
			if st.Prune {
				pp.LeftMembers = []string{acted}
			}
			what = fmt.Sprintf("push/pull status=%v left=%v", pp.StatusLTimes, pp.LeftMembers)
			n.Delegate.MergeRemoteState(encPushPull(pp), false)
		case 6, 7:
			what = "wait for the reaper"
			waits++
			if !waitGone(si, what) {
				return
			}
		}
		cur = view()
		if !judge(si, what, last, cur, acted) {
			return
		}
		last = cur
		if !counters(si, what) {
			return
		}
		poll(n, drop)
	}
	if !waitGone(len(c.Steps), "end of history") {
		return
	}
	cur := view()
	if !judge(len(c.Steps), "end of history", last, cur, "") {
		return
	}
	x.Label("own-reaper")
	x.Labelf("own-reaper:R-tiny=%v,T-tiny=%v", R == time.Nanosecond, T == time.Nanosecond)
	if reapedTiny > 0 {
		x.Label("own-reaper:reaped")
	}
	if kept > 0 {
		x.Label("own-reaper:kept-long-timeout-entry")
	}
	x.NonTrivial(reapedTiny > 0 && kept > 0)
}

func TestC15(t *testing.T) { vkit.Run(t, "C15", genC15, bodyC15) }
