//go:build verif

package core

import (
	"bytes"
	"fmt"
	armon "github.com/armon/go-metrics"
	"os"
	"path/filepath"
	"sort"
	"strings"
	"sync"
	"sync/atomic"
	"testing"
	"time"

	"github.com/hashicorp/serf/serf"
	"pgregory.net/rapid"

	"verif/internal/node"
	"verif/internal/simnet"
	"verif/internal/vkit"
)

// C16 — the member events an application receives for any one member form an
// in-order subsequence of that member's status changes at the node, through
// every stage of the event pipeline (snapshot, internal-query filter,
// coalescing); when nothing was dropped the last event received for each
// member matches its current status.
//
// Two nodes get the same inputs: the *piped* node is configured with a
// generated subset of {snapshot, member coalescing, user coalescing}, the
// *twin* is bare.  The harness plays memberlist and the wire (bursts for one
// member, intents, prune, reap, user events and queries as cross traffic,
// pauses that let coalescing timers fire, a reader that drains eagerly or
// lazily).  Every step is synchronous, so Members() sampled after each step
// gives each member's exact sequence of (presence, status, tags); it is mapped
// to event kinds by the documented meaning of the event types only.  A "pair"
// step runs two operations on one member concurrently (a memberlist
// notification against an intent or a reap, as in a real node); the order of
// its status changes is then unknown, and from there on only the last-event
// rule is applied to that member.

type c16Step struct {
	Kind  int  `json:"k"` // 0 NotifyJoin 1 NotifyLeave 2 NotifyUpdate 3 join intent 4 leave intent 5 cross traffic 6 reap everything 7 pause 8 reader drains 9 concurrent pair 10 flood (see genC16) 11 reader drains until the pipeline is silent
	M     int  `json:"m"`
	Same  bool `json:"same,omitempty"` // act on the member of the previous member step
	Rel   int  `json:"r,omitempty"`
	Prune bool `json:"prune,omitempty"`
	Ms    int  `json:"ms,omitempty"`   // pause, milliseconds
	Pair  int  `json:"pair,omitempty"` // 0 ml toggle ‖ leave intent, 1 ml toggle ‖ join intent, 2 ml toggle ‖ reap, 3 ml toggle ‖ leave intent with prune
}

type c16Case struct {
	Members   int  `json:"members"`
	Snap      bool `json:"snap"`
	Coalesce  int  `json:"coalesce"`  // member coalescing period in ms, 0 = off
	Quiescent int  `json:"quiescent"` // ms, 1..Coalesce
	UserCoal  bool `json:"usercoal"`
	Eager     bool `json:"eager"` // reader polls after every step
	// SmallCh > 0: the application hands Serf an event channel of this capacity
	// (instead of a roomy one), so a lagging reader makes the pipeline block on
	// it; nothing may be reordered or dropped while it does
	SmallCh int       `json:"small_ch,omitempty"`
	Steps   []c16Step `json:"steps"`
}

// slowSink is a go-metrics sink that, while on, takes a little while for the
// member counters Serf bumps between a handler's bookkeeping and its event
// send (a slow metrics sink is nothing unusual either; the counters are
// emitted before the handler logs, and the logger serialises its callers).
type slowSink struct {
	armon.BlackholeSink
	on atomic.Bool
}

func (s *slowSink) IncrCounterWithLabels(key []string, val float32, labels []armon.Label) {
	if s.on.Load() {
		for _, k := range key {
			if k == "member" {
				time.Sleep(300 * time.Microsecond)
				return
			}
		}
	}
}

var (
	c16Sink     = &slowSink{}
	c16SinkOnce sync.Once
)

func installC16Sink() {
	c16SinkOnce.Do(func() {
		conf := armon.DefaultConfig("verif")
		conf.EnableHostname = false
		conf.EnableRuntimeMetrics = false
		_, _ = armon.NewGlobal(conf, c16Sink)
	})
}

// slowLog is the node's log writer. While on, lines announcing a member event
// take a little while to write (a slow log sink is nothing unusual).
type slowLog struct {
	on atomic.Bool
}

func (l *slowLog) Write(p []byte) (int, error) {
	if l.on.Load() && bytes.Contains(p, []byte("EventMember")) {
		time.Sleep(300 * time.Microsecond)
	}
	return len(p), nil
}

func genC16(t *rapid.T) c16Case {
	c := c16Case{
		Members:  rapid.IntRange(1, 4).Draw(t, "members"),
		Snap:     rapid.Bool().Draw(t, "snap"),
		UserCoal: rapid.Bool().Draw(t, "usercoal"),
		Eager:    rapid.IntRange(0, 2).Draw(t, "eager") == 0,
	}
	c.SmallCh = rapid.SampledFrom([]int{0, 0, 1, 2, 8}).Draw(t, "smallch")
	if rapid.IntRange(0, 2).Draw(t, "coal") > 0 {
		c.Coalesce = rapid.IntRange(1, 5).Draw(t, "period")
		c.Quiescent = rapid.IntRange(1, c.Coalesce).Draw(t, "quiescent")
	}
	n := rapid.IntRange(6, 40).Draw(t, "steps")
	for i := 0; i < n; i++ {
		st := c16Step{
			Kind: rapid.SampledFrom([]int{0, 0, 0, 0, 1, 1, 1, 1, 2, 2, 3, 4, 4, 4, 5, 5, 6, 7, 7, 8, 9}).Draw(t, "kind"),
			M:    rapid.IntRange(0, c.Members-1).Draw(t, "m"),
			Same: rapid.IntRange(0, 2).Draw(t, "same") > 0,
		}
		switch st.Kind {
		case 3, 4:
			st.Rel = rapid.SampledFrom([]int{0, 1, 1, 1, 2}).Draw(t, "rel")
			st.Prune = st.Kind == 4 && rapid.IntRange(0, 4).Draw(t, "prune") == 0
		case 7:
			st.Ms = rapid.SampledFrom([]int{1, 1, 2, 4, 8}).Draw(t, "ms")
		case 9:
			st.Pair = rapid.IntRange(0, 3).Draw(t, "pair")
		}
		c.Steps = append(c.Steps, st)
	}
	// One coalescing case in three spells out a flush train: the same member
	// changes 3-6 times with a pause longer than the coalescing period after
	// each change (so every change is flushed on its own), into an application
	// channel of 1-2 slots that nobody reads until the end - every flush after
	// the first finds the consumer's channel full.
	if c.Coalesce > 0 && rapid.IntRange(0, 2).Draw(t, "flush-train") == 0 {
		c.SmallCh, c.Eager, c.UserCoal = rapid.SampledFrom([]int{1, 1, 2}).Draw(t, "train.ch"), false, false
		m := rapid.IntRange(0, c.Members-1).Draw(t, "train.m")
		at := rapid.IntRange(0, len(c.Steps)).Draw(t, "train.at")
		var train []c16Step
		for i, k := 0, rapid.IntRange(3, 6).Draw(t, "train.n"); i < k; i++ {
			train = append(train, c16Step{Kind: i % 2, M: m, Same: i > 0}, c16Step{Kind: 7, Ms: 2*c.Coalesce + 3})
		}
		c.Steps = append(append(append([]c16Step{}, c.Steps[:at]...), train...), c.Steps[at:]...)
	}
	// One case in eight lets the pipeline overflow: snapshot stage on, a small
	// application channel, a reader that does not read, and (step 10) more tag
	// updates of one member than the stages between the snapshot stage and the
	// application can hold (1024 + the channel). What does not fit is dropped
	// there - that is the design - but what does arrive must still arrive in
	// order, also after the reader has caught up (step 11) and further updates
	// follow. For the piped node of such a case only the order is judged.
	if rapid.IntRange(0, 7).Draw(t, "overflow") == 0 {
		c.Snap, c.Coalesce, c.Quiescent, c.Eager = true, 0, 0, false
		c.SmallCh = rapid.SampledFrom([]int{2, 8}).Draw(t, "overflow.ch")
		at := rapid.IntRange(0, len(c.Steps)).Draw(t, "overflow.at")
		m := rapid.IntRange(0, c.Members-1).Draw(t, "overflow.m")
		tail := []c16Step{{Kind: 0, M: m}, {Kind: 10, M: m, Same: true}, {Kind: 11}}
		for i, k := 0, rapid.IntRange(2, 6).Draw(t, "overflow.more"); i < k; i++ {
			tail = append(tail, c16Step{Kind: 2, M: m, Same: true})
			if rapid.IntRange(0, 2).Draw(t, "overflow.drain") == 0 {
				tail = append(tail, c16Step{Kind: 11})
			}
		}
		c.Steps = append(append(append([]c16Step{}, c.Steps[:at]...), tail...), c.Steps[at:]...)
	}
	return c
}

// event kinds as the application sees them
const (
	c16Join = iota
	c16Leave
	c16Failed
	c16Update
	c16Reap
)

var c16KindName = []string{"join", "leave", "failed", "update", "reap"}

type c16Exp struct {
	kind     int
	optional bool
	// tag is the member's "t" tag as the event has to show it (the member as it
	// is right after the change; for a reap, as it was last listed). Update
	// events all have the same kind: the tag is what tells them apart, so a
	// stale or overtaken update is visible as well.
	tag string
}

type c16Snap struct {
	present bool
	status  serf.MemberStatus
	tag     string
	addr    string
}

// c16Transition maps one observed change of a member to the events the
// documented meaning of the event types asks for; ok=false: a change this
// table does not know (never judged).
func c16Transition(a, b c16Snap) (evs []c16Exp, ok bool) {
	switch {
	case !a.present && !b.present:
		return nil, true
	case !a.present && b.present:
		return []c16Exp{{c16Join, false, b.tag}}, true
	case a.present && !b.present:
		if a.status == serf.StatusFailed {
			// a force-leave with prune on a failed member: it leaves, then is erased
			return []c16Exp{{c16Leave, true, a.tag}, {c16Reap, false, a.tag}}, true
		}
		return []c16Exp{{c16Reap, false, a.tag}}, true
	}
	if a.status == b.status {
		if a.tag != b.tag || a.addr != b.addr {
			return []c16Exp{{c16Update, false, b.tag}}, true
		}
		return nil, true
	}
	if a.tag != b.tag || a.addr != b.addr {
		return nil, false
	}
	switch {
	case b.status == serf.StatusAlive && (a.status == serf.StatusFailed || a.status == serf.StatusLeft):
		return []c16Exp{{c16Join, false, b.tag}}, true
	case a.status == serf.StatusAlive && b.status == serf.StatusFailed:
		return []c16Exp{{c16Failed, false, b.tag}}, true
	case b.status == serf.StatusLeft && (a.status == serf.StatusLeaving || a.status == serf.StatusFailed):
		return []c16Exp{{c16Leave, false, b.tag}}, true
	case (a.status == serf.StatusAlive && b.status == serf.StatusLeaving) || (a.status == serf.StatusLeaving && b.status == serf.StatusAlive):
		return nil, true
	}
	return nil, false
}

// c16Agrees: does the last event received for a member fit its current state?
func c16Agrees(last int, s c16Snap) bool {
	if !s.present {
		return last == c16Reap
	}
	switch s.status {
	case serf.StatusAlive, serf.StatusLeaving:
		return last == c16Join || last == c16Update
	case serf.StatusFailed:
		return last == c16Failed
	case serf.StatusLeft:
		return last == c16Leave
	}
	return true
}

// c16Subseq: is got (kinds and the tags the events showed) an in-order
// subsequence of exp?
func c16Subseq(got []int, tags []string, exp []c16Exp) bool {
	j := 0
	for i, g := range got {
		for j < len(exp) && (exp[j].kind != g || (i < len(tags) && exp[j].tag != tags[i])) {
			j++
		}
		if j == len(exp) {
			return false
		}
		j++
	}
	return true
}

// c16Complete: does got equal exp, optional entries skippable?
func c16Complete(got []int, tags []string, exp []c16Exp) bool {
	j := 0
	for _, e := range exp {
		if j < len(got) && got[j] == e.kind && (j >= len(tags) || tags[j] == e.tag) {
			j++
			continue
		}
		if !e.optional {
			return false
		}
	}
	return j == len(got)
}

func c16Seq(exp []c16Exp) string {
	s := "["
	for i, e := range exp {
		if i > 0 {
			s += " "
		}
		s += c16KindName[e.kind] + "(t=" + e.tag + ")"
		if e.optional {
			s += "?"
		}
	}
	return s + "]"
}

func c16Got(got []int, tags ...string) string {
	s := "["
	for i, g := range got {
		if i > 0 {
			s += " "
		}
		s += c16KindName[g]
		if i < len(tags) {
			s += "(t=" + tags[i] + ")"
		}
	}
	return s + "]"
}

type c16Node struct {
	slow      *slowLog
	label     string
	n         *node.Node
	coalesced bool
	last      map[string]c16Snap
	exp       map[string][]c16Exp
	got       map[string][]int
	gotTag    map[string][]string // the "t" tag each received event showed for the member
	tainted   map[string]string // member -> why its exact sequence is unknown
	bogus     string
	raw       []string // every member event as received, in order (diagnostics)
	// lossy: the harness made the pipeline overflow (step 10), so events were
	// dropped by design; only the order of what arrives is judged
	lossy bool
}

func (d *c16Node) view() map[string]c16Snap {
	out := map[string]c16Snap{}
	for _, m := range d.n.Serf.Members() {
		out[m.Name] = c16Snap{true, m.Status, m.Tags["t"], fmt.Sprintf("%s:%d", m.Addr, m.Port)}
	}
	return out
}

// observe samples Members() and extends every member's expected sequence.
func (d *c16Node) observe(why string) {
	cur := d.view()
	names := map[string]bool{}
	for k := range cur {
		names[k] = true
	}
	for k := range d.last {
		names[k] = true
	}
	for name := range names {
		evs, ok := c16Transition(d.last[name], cur[name])
		if !ok && d.tainted[name] == "" {
			d.tainted[name] = fmt.Sprintf("unmapped change %+v -> %+v at %s", d.last[name], cur[name], why)
		}
		d.exp[name] = append(d.exp[name], evs...)
	}
	d.last = cur
}

func (d *c16Node) absorb(e serf.Event) {
	me, ok := e.(serf.MemberEvent)
	if !ok {
		return
	}
	k := -1
	switch me.Type {
	case serf.EventMemberJoin:
		k = c16Join
	case serf.EventMemberLeave:
		k = c16Leave
	case serf.EventMemberFailed:
		k = c16Failed
	case serf.EventMemberUpdate:
		k = c16Update
	case serf.EventMemberReap:
		k = c16Reap
	default:
		d.bogus = fmt.Sprintf("member event of unknown type %v", me.Type)
		return
	}
	r := c16KindName[k] + ":"
	for _, m := range me.Members {
		d.got[m.Name] = append(d.got[m.Name], k)
		d.gotTag[m.Name] = append(d.gotTag[m.Name], m.Tags["t"])
		r += m.Name + "(t=" + m.Tags["t"] + ") "
	}
	d.raw = append(d.raw, r)
}

func bodyC16(c c16Case, x *vkit.Ctx) {
	installC16Sink()
	if c.Members < 1 {
		x.Inconclusive("bad case")
		return
	}
	const self = "self"
	mon := vkit.StartMonitor()
	defer mon.Stop()
	var dir string
	if c.Snap {
		d, err := os.MkdirTemp(fastTempRoot(), "c16-")
		if err != nil {
			x.Inconclusive("tempdir: " + err.Error())
			return
		}
		dir = d
		defer os.RemoveAll(dir)
	}
	mk := func(label string, piped bool) *c16Node {
		nw := simnet.New(1)
		evbuf := 0
		if piped {
			evbuf = c.SmallCh
		}
		sl := &slowLog{}
		n, err := node.New(nw, node.Opts{Name: self, Quiet: true, EventBuf: evbuf, LogTo: sl, Mutate: func(cf *serf.Config) {
			if !piped {
				return
			}
			if c.Snap {
				cf.SnapshotPath = filepath.Join(dir, "snap")
			}
			if c.Coalesce > 0 {
				cf.CoalescePeriod = time.Duration(c.Coalesce) * time.Millisecond
				cf.QuiescentPeriod = time.Duration(max(1, min(c.Quiescent, c.Coalesce))) * time.Millisecond
			}
			if c.UserCoal {
				cf.UserCoalescePeriod = 2 * time.Millisecond
				cf.UserQuiescentPeriod = time.Millisecond
			}
		}})
		if err != nil {
			return nil
		}
		return &c16Node{label: label, n: n, slow: sl, coalesced: piped && c.Coalesce > 0,
			last: map[string]c16Snap{}, exp: map[string][]c16Exp{}, got: map[string][]int{}, gotTag: map[string][]string{}, tainted: map[string]string{}}
	}
	piped := mk("piped", true)
	if piped == nil {
		x.Inconclusive("node setup")
		return
	}
	defer piped.n.Stop()
	twin := mk("twin", false)
	if twin == nil {
		x.Inconclusive("node setup")
		return
	}
	defer twin.n.Stop()
	nodes := []*c16Node{piped, twin}
	for _, d := range nodes {
		d.observe("start")
	}

	mlUp := map[int]bool{}
	tags := map[int]int{}
	name := func(i int) string { return fmt.Sprintf("m%d", i) }
	pick := func(st c16Step, lastM int, want bool) (int, bool) {
		if st.Same && lastM >= 0 && mlUp[lastM] == want {
			return lastM, true
		}
		for k := 0; k < c.Members; k++ {
			i := (st.M + k) % c.Members
			if mlUp[i] == want {
				return i, true
			}
		}
		return 0, false
	}
	target := func(st c16Step, lastM int) int {
		if st.Same && lastM >= 0 {
			return lastM
		}
		return st.M % c.Members
	}
	notify := func(d *c16Node, kind, i int) {
		mn := node.MLNode(name(i), fmt.Sprintf("127.0.6.%d", i+1), 7946, d.n.Serf.VerifEncodeTags(map[string]string{"t": fmt.Sprint(tags[i])}), 5, 5)
		switch kind {
		case 0:
			d.n.EventsD.NotifyJoin(mn)
		case 1:
			d.n.EventsD.NotifyLeave(mn)
		case 2:
			d.n.EventsD.NotifyUpdate(mn)
		}
	}
	intentLT := func(i, rel int) uint64 {
		// resolved on the piped node; both nodes have seen the same inputs
		var base uint64
		if s, ok := piped.n.Serf.VerifStatusLTime(name(i)); ok {
			base = uint64(s)
		} else if _, lt, ok := piped.n.Serf.VerifRecentIntent(name(i)); ok {
			base = uint64(lt)
		} else {
			mc, _, _ := piped.n.Serf.VerifClocks()
			base = uint64(mc)
		}
		return satAdd(base, uint64(max(rel, 0)))
	}
	farFuture := func() time.Time { return time.Now().Add(1000 * time.Hour) }

	lastM := -1
	sinceDrain := map[string]int{} // event-producing changes per member since the reader last caught up (piped node)
	burst3, pairs, traffic := false, 0, uint64(0)
	countNew := func(before map[string]int) {
		for m, e := range piped.exp {
			if d := len(e) - before[m]; d > 0 {
				sinceDrain[m] += d
				if sinceDrain[m] >= 3 {
					burst3 = true
				}
			}
		}
	}
	for si, st := range c.Steps {
		expLen := map[string]int{}
		for m, e := range piped.exp {
			expLen[m] = len(e)
		}
		why := fmt.Sprintf("step %d", si)
		switch st.Kind {
		case 0, 1, 2:
			want := st.Kind != 0 // leave/update need an up member, join a down one
			i, ok := pick(st, lastM, want)
			if !ok {
				continue
			}
			lastM = i
			if st.Kind == 0 {
				mlUp[i] = true
			} else if st.Kind == 1 {
				mlUp[i] = false
			} else {
				tags[i]++
			}
			for _, d := range nodes {
				notify(d, st.Kind, i)
			}
		case 3, 4:
			i := target(st, lastM)
			lastM = i
			lt := intentLT(i, st.Rel)
			var msg []byte
			if st.Kind == 3 {
				msg = encJoin(lt, name(i))
			} else {
				msg = encLeave(lt, name(i), st.Prune)
			}
			for _, d := range nodes {
				d.n.Delegate.NotifyMsg(msg)
			}
		case 5:
			traffic++
			var msg []byte
			if traffic%3 == 0 {
				msg = encQuery(traffic, uint32(traffic), "q", 0)
			} else {
				msg = encUserEvent(traffic, c05Names[int(traffic)%2], nil)
			}
			for _, d := range nodes {
				d.n.Delegate.NotifyMsg(msg)
			}
		case 6:
			for _, d := range nodes {
				d.n.Serf.VerifReap(farFuture())
			}
		case 7:
			time.Sleep(time.Duration(max(1, min(st.Ms, 20))) * time.Millisecond)
			if piped.coalesced {
				sinceDrain = map[string]int{} // the quantum has (most likely) been flushed
			}
		case 8:
			for _, d := range nodes {
				poll(d.n, d.absorb)
			}
			sinceDrain = map[string]int{}
		case 11:
			for _, d := range nodes {
				settle(d.n, 2*time.Millisecond, d.absorb)
			}
			sinceDrain = map[string]int{}
		case 10:
			if !c.Snap || c.SmallCh <= 0 || c.SmallCh > 64 || c.Coalesce > 0 || piped.lossy {
				continue
			}
			i, ok := pick(st, lastM, true)
			if !ok {
				continue
			}
			lastM = i
			// the twin's reader keeps up (its handlers would block on a full
			// channel); the piped node's does not read at all
			for k := 0; k < 1024+c.SmallCh+96; k++ {
				tags[i]++
				for _, d := range nodes {
					notify(d, 2, i)
					d.observe(why)
				}
				poll(twin.n, twin.absorb)
			}
			piped.lossy = true
		case 9:
			i := target(st, lastM)
			lastM = i
			pairs++
			mlKind := 0
			if mlUp[i] {
				mlKind = 1
			}
			mlUp[i] = !mlUp[i]
			lt := intentLT(i, 1)
			for _, d := range nodes {
				d := d
				var other func()
				switch st.Pair % 4 {
				case 0:
					other = func() { d.n.Delegate.NotifyMsg(encLeave(lt, name(i), false)) }
				case 1:
					other = func() { d.n.Delegate.NotifyMsg(encJoin(lt, name(i))) }
				case 2:
					other = func() { d.n.Serf.VerifReap(farFuture()) }
				default:
					other = func() { d.n.Delegate.NotifyMsg(encLeave(lt, name(i), true)) }
				}
				// Widen whatever window there is between a handler's bookkeeping and its
				// event send: every member handler logs its event in between, and during
				// the pair the node's log writer is slow. With the send under the member
				// lock this changes nothing; a send outside of it gets overtaken.
				d.slow.on.Store(true)
				c16Sink.on.Store(true)
				// ... and, in two pairs of three, every goroutine of the node lingers
				// after releasing one of serf's mutexes (helpers_test.go: lockYield)
				lockYield((si + st.Pair) % 3)
				start := make(chan struct{})
				var wg sync.WaitGroup
				wg.Add(2)
				go func() { defer wg.Done(); <-start; notify(d, mlKind, i) }()
				go func() { defer wg.Done(); <-start; other() }()
				close(start)
				wg.Wait()
				lockYield(0)
				d.slow.on.Store(false)
				c16Sink.on.Store(false)
				if d.tainted[name(i)] == "" {
					d.tainted[name(i)] = fmt.Sprintf("concurrent pair at step %d", si)
				}
				// (a racing reap treats every other member the same whichever
				// side wins, so only this member's order is unknown)
			}
		}
		for _, d := range nodes {
			d.observe(why)
		}
		countNew(expLen)
		if c.Eager {
			for _, d := range nodes {
				poll(d.n, d.absorb)
			}
			if !piped.coalesced {
				sinceDrain = map[string]int{} // neither a lagging reader nor a quantum to share
			}
		}
	}

	// ---- quiescence: everything that is due must arrive (2 s cap, starvation-guarded)
	final := map[*c16Node]map[string]c16Snap{}
	for _, d := range nodes {
		final[d] = d.view()
	}
	due := func(d *c16Node) (string, bool) {
		// every member with status changes OR received events (a member that
		// joined and was erased inside one concurrent pair was never observed,
		// yet its events arrive)
		var names []string
		for m := range d.exp {
			names = append(names, m)
		}
		for m := range d.got {
			if _, ok := d.exp[m]; !ok {
				names = append(names, m)
			}
		}
		sort.Strings(names)
		for _, m := range names {
			if m == self || d.lossy {
				continue
			}
			exp, got := d.exp[m], d.got[m]
			if d.tainted[m] == "" && !d.coalesced {
				mand := 0
				for _, e := range exp {
					if !e.optional {
						mand++
					}
				}
				if len(got) < mand {
					return fmt.Sprintf("%s: member %s: received %s of expected %s", d.label, m, c16Got(got), c16Seq(exp)), false
				}
			}
			if len(exp) == 0 && len(got) == 0 {
				continue
			}
			if len(got) == 0 {
				if d.tainted[m] != "" && !final[d][m].present {
					continue // raced into never having been listed
				}
				return fmt.Sprintf("%s: member %s: nothing received yet, expected %s", d.label, m, c16Seq(exp)), false
			}
			if !c16Agrees(got[len(got)-1], final[d][m]) {
				return fmt.Sprintf("%s: member %s is %+v but the last event received is %q (received %s, status changes %s)",
					d.label, m, final[d][m], c16KindName[got[len(got)-1]], c16Got(got), c16Seq(exp)), false
			}
			if tg := d.gotTag[m]; (!d.coalesced || got[len(got)-1] == c16Update) && final[d][m].present && tg[len(tg)-1] != final[d][m].tag {
				return fmt.Sprintf("%s: member %s is %+v but the last event received shows tag t=%q (received %s, status changes %s)",
					d.label, m, final[d][m], tg[len(tg)-1], c16Got(got, tg...), c16Seq(exp)), false
			}
		}
		return "", true
	}
	// Read until the pipeline has been silent for a while (longer than a
	// coalescing quantum) *and* what has been read is consistent; the verdicts
	// below are computed on exactly that reading, nothing is read afterwards.
	// (Judging right after the first consistent prefix and then reading on
	// would compare a half-read stream with the final status.)
	for _, d := range nodes {
		idle := time.Millisecond
		if d.coalesced {
			idle = 3*time.Millisecond + 2*time.Duration(c.Coalesce)*time.Millisecond
		}
		deadline := time.Now().Add(waitCap)
		for {
			settle(d.n, idle, d.absorb)
			msg, ok := due(d)
			if ok {
				break
			}
			if time.Now().After(deadline) {
				sig := "last-member-event-disagrees-with-status"
				if strings.Contains(msg, "of expected") || strings.Contains(msg, "nothing received") {
					sig = "member-event-never-delivered"
				}
				missing(x, mon, sig, "after %v: %s (config snap=%v coalesce=%dms/%dms usercoal=%v; events as received %q)", waitCap, msg, c.Snap, c.Coalesce, c.Quiescent, c.UserCoal, d.raw)
				if os.Getenv("C16_DEBUG") != "" {
					fmt.Println(d.n.Log.String())
				}
				return
			}
		}
	}

	// ---- verdicts
	for _, d := range nodes {
		if d.bogus != "" {
			x.Violationf("unknown-member-event", "%s: %s", d.label, d.bogus)
			return
		}
		var names []string
		for m := range d.got {
			names = append(names, m)
		}
		for m := range d.exp {
			if _, ok := d.got[m]; !ok {
				names = append(names, m)
			}
		}
		sort.Strings(names)
		for _, m := range names {
			if m == self {
				continue
			}
			exp, got := d.exp[m], d.got[m]
			if d.lossy {
				// the overflow dropped events, possibly the last ones: order only
				if d.tainted[m] == "" && !c16Subseq(got, d.gotTag[m], exp) {
					x.Violationf("member-events-out-of-order-after-overflow", "%s: member %s: received (last 12 of %d) %s is not an in-order subsequence of its %d status changes (app channel %d)",
						d.label, m, len(got), c16Got(got[max(0, len(got)-12):], d.gotTag[m][max(0, len(got)-12):]...), len(exp), c.SmallCh)
					return
				}
				continue
			}
			if len(got) > 0 && !c16Agrees(got[len(got)-1], final[d][m]) {
				x.Violationf("last-member-event-disagrees-with-status", "%s: member %s is %+v but the last event received is %q (received %s, status changes %s; tainted=%q; events as received %q)",
					d.label, m, final[d][m], c16KindName[got[len(got)-1]], c16Got(got), c16Seq(exp), d.tainted[m], d.raw)
				if os.Getenv("C16_DEBUG") != "" {
					fmt.Println(d.n.Log.String())
				}
				return
			}
			// Nothing is dropped on a node without coalescing: the last event also
			// shows the member as it is now (every tag change has its own event).
			// With member coalescing the same holds when the last event is an
			// update: the coalescer never holds back the newest event of a quantum
			// that follows an update (it only suppresses a repeat of the kind it
			// reported last, and never an update).
			if tg := d.gotTag[m]; (!d.coalesced || (len(got) > 0 && got[len(got)-1] == c16Update)) && len(got) > 0 && final[d][m].present && tg[len(tg)-1] != final[d][m].tag {
				x.Violationf("last-member-event-shows-stale-tags", "%s: member %s is %+v but the last event received (%q) shows tag t=%q (received %s, status changes %s; events as received %q)",
					d.label, m, final[d][m], c16KindName[got[len(got)-1]], tg[len(tg)-1], c16Got(got, tg...), c16Seq(exp), d.raw)
				return
			}
			if d.tainted[m] != "" {
				continue
			}
			if !c16Subseq(got, d.gotTag[m], exp) {
				sig := "member-events-out-of-order"
				if c16Subseq(got, nil, exp) {
					sig = "member-event-shows-stale-or-overtaken-state"
				}
				x.Violationf(sig, "%s: member %s: received %s is not an in-order subsequence of its status changes %s (config snap=%v coalesce=%dms usercoal=%v)",
					d.label, m, c16Got(got, d.gotTag[m]...), c16Seq(exp), c.Snap, c.Coalesce, c.UserCoal)
				return
			}
			if !d.coalesced && !c16Complete(got, d.gotTag[m], exp) {
				x.Violationf("member-events-incomplete", "%s: member %s: nothing was dropped or coalesced, yet received %s differs from its status changes %s",
					d.label, m, c16Got(got, d.gotTag[m]...), c16Seq(exp))
				return
			}
		}
	}
	// differential: the piped node's per-member output is a subsequence of the twin's
	for m, got := range piped.got {
		if m == self || piped.tainted[m] != "" || twin.tainted[m] != "" {
			continue
		}
		var tw []c16Exp
		for i, k := range twin.got[m] {
			tw = append(tw, c16Exp{k, false, twin.gotTag[m][i]})
		}
		if !c16Subseq(got, piped.gotTag[m], tw) {
			x.Violationf("piped-output-not-subsequence-of-bare-output", "member %s: piped node delivered %s, bare twin delivered %s", m, c16Got(got), c16Got(twin.got[m]))
			return
		}
	}

	x.Labelf("snap=%v", c.Snap)
	x.Labelf("member-coalescing=%v", c.Coalesce > 0)
	x.Labelf("user-coalescing=%v", c.UserCoal)
	x.Labelf("eager-reader=%v", c.Eager)
	x.Labelf("app-channel-capacity=%d", c.SmallCh)
	if pairs > 0 {
		x.Label("concurrent-pair")
	}
	if piped.lossy {
		x.Label("pipeline-overflow")
	}
	if burst3 {
		x.Label(">=3-changes-of-one-member-while-reader-lags")
	}
	nEv, suppressed := 0, false
	for m, e := range piped.exp {
		nEv += len(e)
		if piped.coalesced && len(piped.got[m]) < len(e) {
			suppressed = true
		}
	}
	x.Labelf("status-changes=%s", bucket(nEv, 0, 3, 8, 15))
	if suppressed {
		x.Label("coalescer-dropped-intermediate-events")
	}
	for _, d := range nodes {
		for _, why := range d.tainted {
			if strings.HasPrefix(why, "unmapped") {
				x.Label("unmapped-change")
			}
		}
	}
	x.NonTrivial(burst3)
}

func TestC16(t *testing.T) { vkit.Run(t, "C16", genC16, bodyC16) }
