//go:build verif && verifoverlay

package core

import (
	"runtime"
	"time"

	"github.com/hashicorp/serf/serf"
)

// Built with the "locks" overlay of /verif/overlaygen: serf's mutexes call a
// hook before acquiring and after releasing.
func init() {
	linger := func(d time.Duration) {
		for t0 := time.Now(); time.Since(t0) < d; {
			runtime.Gosched()
		}
	}
	lockYield = func(mode int) {
		switch mode {
		case 1:
			serf.VerifSetLockHook(func(op string) {
				if op == "unlock" || op == "runlock" {
					linger(40 * time.Microsecond)
				}
			})
		case 2:
			serf.VerifSetLockHook(func(op string) {
				if op == "runlock" {
					linger(100 * time.Microsecond)
				}
			})
		default:
			serf.VerifSetLockHook(nil)
		}
	}
}
