//go:build verif && verifoverlay

package snap

import (
	"fmt"
	"regexp"
	"strings"
	"testing"
	"time"

	"github.com/hashicorp/serf/serf"
	"pgregory.net/rapid"

	"verif/internal/node"
	"verif/internal/simnet"
	"verif/internal/vkit"
)

// C10 — restart from a snapshot restores the rejoin set and clocks exactly.

var plainName = regexp.MustCompile(`^[A-Za-z0-9.-]+$`)

func genC10(t *rapid.T) snapCase {
	c := snapCase{
		MinCompact: rapid.SampledFrom([]int{0, 64, 200, 1000, 128 * 1024}).Draw(t, "mincompact"),
		RealFS:     rapid.IntRange(0, 5).Draw(t, "fs") == 0,
	}
	c.SerfLayer = rapid.IntRange(0, 3).Draw(t, "serf-layer") == 0
	c.Names = genNames(t, rapid.IntRange(0, 30).Draw(t, "allow-newline") == 0)
	// the restarted node of the Serf layer may itself be one of the recorded
	// members (it is: a node records its own join); 0 = a name of its own
	c.SelfIdx = rapid.IntRange(0, 5).Draw(t, "self")
	weights := map[int]int{opJoin: 6, opLeave: 2, opFailed: 2, opUpdate: 1, opReap: 1, opUser: 2,
		opQuery: 2, opWitness: 2, opTick: 1, opAdvance: 1, opReopen: 1}
	c.Ops = genOps(t, 60, weights)
	// several events queued in front of the snapshot goroutine at once
	if rapid.IntRange(0, 2).Draw(t, "bursts") == 0 {
		for i := range c.Ops {
			if c.Ops[i].K <= opQuery && rapid.IntRange(0, 2).Draw(t, "nw") != 0 {
				c.Ops[i].NW = true
			}
		}
	}
	// an earlier life that ended in a graceful leave: the history proper is the
	// life (lives) AFTER it, which starts from nobody (rejoin-after-leave off) or
	// from the set known at that leave (on) and contains no graceful leave itself.
	// No user events or queries in the earlier life: what a leave does to their
	// recorded times is not stated anywhere.
	if rapid.IntRange(0, 5).Draw(t, "earlier-life") == 0 {
		c.Rejoin = rapid.Bool().Draw(t, "rejoin")
		pw := map[int]int{opJoin: 6, opLeave: 1, opFailed: 1, opWitness: 1, opTick: 1, opAdvance: 1}
		pro := genOps(t, 8, pw)
		post := genOps(t, 4, map[int]int{opJoin: 3, opFailed: 1, opWitness: 1, opTick: 1})
		ops := append(append(pro, hOp{K: opGracefulLeave}), post...)
		ops = append(ops, hOp{K: opReopen})
		c.Ops = append(ops, c.Ops...)
		c.EarlierLife = true
	}
	return c
}

func hasNewlineName(c *snapCase) bool {
	for _, n := range c.Names {
		if strings.Contains(n, "\n") {
			return true
		}
	}
	return false
}

// runHistory executes the case and returns the state recovered by a restart.
func runHistory(c *snapCase, x *vkit.Ctx, label bool) (*snapRun, recovered, bool) {
	r, err := newSnapRun(c)
	if err != nil {
		x.Inconclusive("setup: " + err.Error())
		return nil, recovered{}, false
	}
	if err := r.openSnap(); err != nil {
		r.cleanup()
		x.Inconclusive("open: " + err.Error())
		return nil, recovered{}, false
	}
	removals, unusual := 0, false
	for _, op := range c.Ops {
		if !r.apply(op) {
			x.Violationf("event-not-forwarded", "step %d (%s): event was not forwarded on the output channel", r.step, opNames[op.K])
			r.cleanup()
			return nil, recovered{}, false
		}
		if r.problem != "" {
			x.Inconclusive(r.problem)
			r.cleanup()
			return nil, recovered{}, false
		}
		if op.K == opLeave || op.K == opFailed {
			removals++
		}
		if label {
			x.Label("op:" + opNames[op.K])
		}
	}
	if !r.settle() {
		x.Violationf("event-not-forwarded", "an event handed over without waiting was not forwarded on the output channel")
		r.cleanup()
		return nil, recovered{}, false
	}
	r.closeSnap()
	r.noteClock()
	if err := r.openSnap(); err != nil {
		x.Violationf("reopen-failed", "reopening the snapshot failed: %v", err)
		r.cleanup()
		return nil, recovered{}, false
	}
	rec := readSnapshotter(r.snap)
	for _, n := range c.Names {
		if !plainName.MatchString(n) {
			unusual = true
		}
	}
	if r.fs != nil {
		for _, o := range r.fs.log {
			if o.Kind == "rename" {
				r.compactions++
			}
		}
	}
	if label {
		x.Labelf("compactions=%d", min(r.compactions, 4))
		if c.RealFS {
			x.Label("fs=real")
		} else {
			x.Label("fs=mem")
		}
		if c.EarlierLife {
			x.Labelf("earlier-life-left:rejoin=%v", c.Rejoin)
		}
		shared := map[string]int{}
		for _, a := range r.alive {
			shared[a]++
		}
		for _, n := range shared {
			if n > 1 {
				x.Label("final:two-names-one-address")
				break
			}
		}
		x.NonTrivial(r.compactions >= 1 && removals >= 1 && unusual)
	}
	return r, rec, true
}

func compareState(x *vkit.Ctx, what string, rec recovered, alive map[string]string, clock, ev, q uint64, nl bool) bool {
	sig := func(s string) string {
		if nl {
			return "name-with-newline"
		}
		return s
	}
	if aliveKey(rec.Alive) != aliveKey(alive) {
		x.Violationf(sig("rejoin-set-differs"), "%s: recovered rejoin set %s, model %s", what, aliveKey(rec.Alive), aliveKey(alive))
		return false
	}
	if rec.Clock != clock || rec.Event != ev || rec.Query != q {
		x.Violationf(sig("clocks-differ"), "%s: recovered clocks (member %d, event %d, query %d), model (%d, %d, %d)",
			what, rec.Clock, rec.Event, rec.Query, clock, ev, q)
		return false
	}
	return true
}

// serfLayer starts a real Serf node on the snapshot the history left behind
// (same in-memory file system) and observes, through the capture transport,
// whom it tries to re-join, and through Stats() what its clocks restored to.
func serfLayer(r *snapRun, x *vkit.Ctx, checkClocks bool) bool {
	r.closeSnap()
	nw := simnet.New(1)
	self := "restarted-self"
	if k := r.c.SelfIdx; k > 0 {
		if n := r.c.Names[(k-1)%len(r.c.Names)]; n != "" && len(n) <= 128 && !strings.ContainsAny(n, "\n/") {
			self = n
		}
	}
	n, err := node.New(nw, node.Opts{Name: self, Quiet: true, Mutate: func(sc *serf.Config) {
		sc.SnapshotPath = r.path
		sc.RejoinAfterLeave = r.c.Rejoin
	}})
	if err != nil {
		x.Violationf("serf-create-on-snapshot-failed", "serf.Create on the snapshot failed: %v", err)
		return false
	}
	defer n.Stop()
	want := map[string]string{}
	for name, addr := range r.alive {
		if name != self {
			want[name] = addr
		}
	}
	if _, ok := r.alive[self]; ok {
		x.Label("serf-layer:self-among-recorded")
	}
	got := map[string]string{}
	collect := func() {
		for _, d := range nw.Dials() {
			got[d.ToName] = d.To
		}
	}
	// the rejoin pass announces its end in the log (every dial fails here: nobody
	// is listening), so "no further dial will come" need not be guessed
	finished := true
	if len(r.alive) > 0 {
		mon := vkit.StartMonitor()
		dl := time.Now().Add(5 * time.Second)
		for {
			lg := n.Log.String()
			if strings.Contains(lg, "Failed to re-join any previously known node") || strings.Contains(lg, "Re-joined to previously known node") {
				break
			}
			if time.Now().After(dl) {
				// no rejoin pass in 5 s: the node found nobody to re-join in its
				// snapshot (the comparison below says so), unless the process was starved
				finished = false
				break
			}
			collect()
			time.Sleep(200 * time.Microsecond)
		}
		gap := mon.MaxGap()
		mon.Stop()
		if !finished && gap > time.Second {
			x.Inconclusive("serf-layer: starved while waiting for the rejoin pass")
			return false
		}
	} else {
		// nobody to re-join: no rejoin pass is expected and nothing announces its
		// absence; give a pass that should not exist 30 ms to show itself
		dl := time.Now().Add(30 * time.Millisecond)
		for time.Now().Before(dl) {
			collect()
			if len(got) > 0 || strings.Contains(n.Log.String(), "Attempting re-join") {
				time.Sleep(2 * time.Millisecond)
				break
			}
			time.Sleep(500 * time.Microsecond)
		}
	}
	collect()
	if aliveKey(got) != aliveKey(want) {
		sig := "rejoin-dials-differ"
		for name := range want {
			if _, ok := got[name]; !ok && strings.Contains(name, "/") {
				// "name/addr" is how Serf hands the member to memberlist.Join, which
				// splits at the first slash
				sig = "name-with-slash-not-rejoined"
			}
		}
		x.Violationf(sig, "a node %q restarted on the snapshot (rejoin_after_leave=%v) dialled %s, the model's last known alive members (without itself) are %s (rejoin pass seen to finish: %v)", self, r.c.Rejoin, aliveKey(got), aliveKey(want), finished)
		return false
	}
	if !checkClocks {
		x.Label("serf-layer")
		if err := r.openSnap(); err != nil {
			x.Inconclusive("reopen after serf layer: " + err.Error())
			return false
		}
		return true
	}
	st := n.Serf.Stats()
	var mt, et, qt uint64
	fmt.Sscan(st["member_time"], &mt)
	fmt.Sscan(st["event_time"], &et)
	fmt.Sscan(st["query_time"], &qt)
	if mt < uint64(r.lc.Time()) || et < r.maxEvent+1 || qt < r.maxQuery+1 {
		x.Violationf("serf-clocks-not-restored", "restarted node clocks (member %d, event %d, query %d) are not past the recorded values (%d, %d, %d)",
			mt, et, qt, uint64(r.lc.Time())-1, r.maxEvent, r.maxQuery)
		return false
	}
	// "exactly the last recorded clock values": a node that has talked to nobody
	// and issued nothing since its restart stands at the recorded value + 1 (what
	// witnessing the recorded value gives), not anywhere beyond
	if mt != uint64(r.lc.Time()) || et != r.maxEvent+1 || qt != r.maxQuery+1 {
		x.Violationf("serf-clocks-beyond-recorded", "restarted node clocks (member %d, event %d, query %d): the recorded values are (%d, %d, %d), witnessing them gives (%d, %d, %d)",
			mt, et, qt, uint64(r.lc.Time())-1, r.maxEvent, r.maxQuery, uint64(r.lc.Time()), r.maxEvent+1, r.maxQuery+1)
		return false
	}
	x.Label("serf-layer")
	// re-open for the callers that expect an open snapshotter
	if err := r.openSnap(); err != nil {
		x.Inconclusive("reopen after serf layer: " + err.Error())
		return false
	}
	return true
}

func bodyC10(c snapCase, x *vkit.Ctx) {
	nl := hasNewlineName(&c)
	if nl {
		x.Label("name-with-newline")
		if vkit.IsKnown("C10", "name-with-newline") {
			// still run it: the driver reports it as a known finding, other signatures stay live
		}
	}
	r, rec, ok := runHistory(&c, x, true)
	if !ok {
		return
	}
	defer r.cleanup()
	if !compareState(x, "after restart", rec, r.alive, uint64(r.lc.Time())-1, r.maxEvent, r.maxQuery, nl) {
		return
	}
	// Serf-level layer (a quarter of the cases): a node created on this snapshot
	// tries to re-join exactly the recorded members and restores its clocks
	if c.SerfLayer && !c.RealFS && !nl {
		if !serfLayer(r, x, true) {
			return
		}
	}
	// metamorphic twin: the same history without any compaction restores the same state
	if c.MinCompact < 128*1024 && !c.RealFS {
		r.cleanup()
		twin := c
		twin.MinCompact = 1 << 30
		r2, rec2, ok := runHistory(&twin, x, false)
		if !ok {
			return
		}
		defer r2.cleanup()
		if fmt.Sprint(aliveKey(rec.Alive), rec.Clock, rec.Event, rec.Query) != fmt.Sprint(aliveKey(rec2.Alive), rec2.Clock, rec2.Event, rec2.Query) {
			sig := "compacted-vs-uncompacted"
			if nl {
				sig = "name-with-newline"
			}
			x.Violationf(sig, "compacting run recovered %s/%d/%d/%d, never-compacting twin %s/%d/%d/%d",
				aliveKey(rec.Alive), rec.Clock, rec.Event, rec.Query, aliveKey(rec2.Alive), rec2.Clock, rec2.Event, rec2.Query)
		}
	}
}

func TestC10(t *testing.T) { vkit.Run(t, "C10", genC10, bodyC10) }
