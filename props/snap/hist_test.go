//go:build verif && verifoverlay

package snap

import (
	"fmt"
	"io"
	"log"
	"net"
	"os"
	"path/filepath"
	"runtime"
	"sort"
	"strings"
	"time"

	"github.com/hashicorp/serf/serf"
	"pgregory.net/rapid"
)

// ---- generated histories -------------------------------------------------

const (
	opJoin = iota
	opLeave
	opFailed
	opUpdate
	opReap
	opUser
	opQuery
	opWitness
	opTick
	opAdvance
	opGracefulLeave // Snapshotter.Leave()
	opReopen        // clean shutdown + NewSnapshotter on the same file
	numOpKinds
)

var opNames = []string{"join", "leave", "failed", "update", "reap", "user", "query", "witness", "tick", "advance", "gleave", "reopen"}

type hOp struct {
	K int    `json:"k"`
	M int    `json:"m,omitempty"` // member index into Names
	A int    `json:"a,omitempty"` // address variant
	V uint64 `json:"v,omitempty"` // Lamport time / witness value / milliseconds
	// NW (event-sending ops): hand the event over and go on without waiting for
	// it to be processed; the next waiting op (or settle) waits for all of them.
	// The events still arrive in order (channels are FIFO), so the model is the
	// same; what changes is that several events are queued in front of the
	// snapshot goroutine at once.
	NW bool `json:"nw,omitempty"`
}

type snapCase struct {
	MinCompact int      `json:"min_compact"`
	Rejoin     bool     `json:"rejoin_after_leave"`
	Names      []string `json:"names"`
	Ops        []hOp    `json:"ops"`
	TornPct    int      `json:"torn_pct,omitempty"`
	// Legacy (C11): the file the first life finds already holds lines that
	// replay skips - a "coordinate:" record as older versions wrote it (1), and
	// also a line of an unknown kind (2). They carry no state, and they stay in
	// the file until the first compaction.
	Legacy int `json:"legacy,omitempty"`
	RealFS     bool     `json:"real_fs,omitempty"`
	SerfLayer  bool     `json:"serf_layer,omitempty"`
	// StallLeave: the graceful leave is issued while the snapshot goroutine is
	// stuck in a slow write, and the owned clock moves on by StallMs meanwhile
	StallLeave bool `json:"stall_leave,omitempty"`
	StallMs    int  `json:"stall_ms,omitempty"`
	// Picks (C11): further crash images to continue from, as indices modulo the
	// number of images (torn ones included)
	Picks []int `json:"picks,omitempty"`
	// UnpacedEnd (C13): the history ends in a burst of events handed over without
	// waiting, and the shutdown follows at once
	UnpacedEnd bool `json:"unpaced_end,omitempty"`
	// NoTail (C12): no fixed epilogue of changes after the history
	NoTail bool `json:"no_tail,omitempty"`
	// SelfIdx (C10 Serf layer): 0 = the restarted node has a name of its own,
	// k>0 = it is Names[(k-1)%len] (if that is usable as a node name)
	SelfIdx int `json:"self_idx,omitempty"`
	// EarlierLife: Ops starts with a life that ends in a graceful leave
	EarlierLife bool `json:"earlier_life,omitempty"`
	// Ops2: what the node goes on to do after it was restarted from a crash
	// image (C11's "crash, restart, carry on, restart again" phase)
	Ops2 []hOp `json:"ops2,omitempty"`
}

var hostileNames = []string{
	"a", "node-1", "with space", " leading", "trailing ", "two  spaces", "", "alive: x", "not-alive: y",
	"clock: 7", "leave", "# comment", "ünï-cødé-节点", "tab\there", "x 10.0.0.1:80", "coordinate: z",
	"event-clock: 9", "a:b", "[::1]:80", "a ", " a", "A", "a a", "alive:", "alive: ", "not-alive: a", "query-clock: 1",
	"leave ", " leave", "a 10.9.9.9:7946", "10.9.9.9:7946", "a=b", "#", "a\r",
}

func genNames(t *rapid.T, allowNewline bool) []string {
	n := rapid.IntRange(1, 5).Draw(t, "nnames")
	seen := map[string]bool{}
	var out []string
	for len(out) < n {
		var s string
		switch rapid.IntRange(0, 9).Draw(t, "nameclass") {
		case 0, 1, 2, 3:
			s = rapid.SampledFrom(hostileNames).Draw(t, "hostile")
		case 4:
			s = rapid.StringMatching(`[a-z]{1,3}( [a-z]{1,3}){0,2}`).Draw(t, "spaced")
		case 5:
			s = rapid.StringN(1, 8, 24).Draw(t, "anystr")
		case 6:
			if rapid.IntRange(0, 3).Draw(t, "verylong") == 0 {
				// as long as a name can be and still fit a gossip packet
				s = rapid.StringMatching(`[a-z]{1,4}( [a-z]{1,4})?`).Draw(t, "vl-head") + strings.Repeat("x", rapid.IntRange(250, 1200).Draw(t, "vl-len"))
			} else {
				s = string(make([]byte, 0)) + rapid.StringMatching(`[A-Za-z0-9.-]{100,128}`).Draw(t, "long")
			}
		default:
			s = rapid.StringMatching(`[a-z0-9-]{1,8}`).Draw(t, "plain")
		}
		if !allowNewline {
			b := []byte(s)
			for i, c := range b {
				if c == '\n' {
					b[i] = '_'
				}
			}
			s = string(b)
		}
		if seen[s] {
			continue
		}
		seen[s] = true
		out = append(out, s)
	}
	return out
}

var ltimePool = []uint64{0, 1, 2, 3, 5, 8, 100, 1 << 32, 1<<32 + 1, 1 << 63, 1<<63 + 1, 1<<64 - 3, 1<<64 - 2}

func genLTime(t *rapid.T) uint64 {
	if rapid.IntRange(0, 3).Draw(t, "ltclass") == 0 {
		return rapid.SampledFrom(ltimePool).Draw(t, "ltpool")
	}
	return rapid.Uint64Range(0, 60).Draw(t, "ltsmall")
}

// genOps draws a history. kinds lists the allowed op kinds with weights.
func genOps(t *rapid.T, maxLen int, weights map[int]int) []hOp {
	var kinds []int
	for k := 0; k < numOpKinds; k++ {
		for i := 0; i < weights[k]; i++ {
			kinds = append(kinds, k)
		}
	}
	n := rapid.IntRange(1, maxLen).Draw(t, "nops")
	ops := make([]hOp, 0, n)
	for i := 0; i < n; i++ {
		k := rapid.SampledFrom(kinds).Draw(t, "kind")
		op := hOp{K: k}
		switch k {
		case opJoin:
			op.M = rapid.IntRange(0, 7).Draw(t, "m")
			op.A = rapid.IntRange(0, numAddrVariants-1).Draw(t, "a")
		case opLeave, opFailed, opUpdate, opReap:
			op.M = rapid.IntRange(0, 7).Draw(t, "m")
		case opUser, opQuery, opWitness:
			op.V = genLTime(t)
		case opAdvance:
			op.V = rapid.SampledFrom([]uint64{1, 100, 499, 501, 2000, 31000}).Draw(t, "ms")
		}
		ops = append(ops, op)
	}
	return ops
}

const numAddrVariants = 9

// addrFor gives the address a member joins from, and the "host:port" string the
// harness expects a restart to dial (written out here, not produced by the code
// under test's formatting). Variants 0-5 are per member; 6-8 are SHARED by all
// members (two names at one address: a node that came back under a new name
// before the old one was declared failed) in both representations of an IPv4
// address and as IPv6.
func addrFor(member, variant int) (net.IP, uint16, string) {
	switch variant % numAddrVariants {
	case 0:
		return net.IPv4(10, 0, byte(member), 1), 7946, fmt.Sprintf("10.0.%d.1:7946", byte(member))
	case 1:
		return net.IPv4(10, 0, byte(member), 2), 7946, fmt.Sprintf("10.0.%d.2:7946", byte(member))
	case 2:
		return net.IPv4(192, 168, byte(member), 77), 1, fmt.Sprintf("192.168.%d.77:1", byte(member))
	case 3:
		return net.ParseIP(fmt.Sprintf("fe80::%x", member+1)), 65535, fmt.Sprintf("[fe80::%x]:65535", member+1)
	case 4:
		return net.ParseIP("::1"), uint16(8000 + member), fmt.Sprintf("[::1]:%d", 8000+member)
	case 5:
		return net.IPv4(127, 0, 0, 1).To4(), 0, "127.0.0.1:0"
	case 6:
		return net.IPv4(10, 9, 9, 9), 7946, "10.9.9.9:7946" // 16-byte form
	case 7:
		return net.IPv4(10, 9, 9, 9).To4(), 7946, "10.9.9.9:7946" // 4-byte form, same address
	default:
		return net.ParseIP("2001:db8::9"), 7946, "[2001:db8::9]:7946"
	}
}

// ---- reference model -----------------------------------------------------

type mstate struct {
	Alive map[string]string // name -> "ip:port"
	Clock uint64            // last recorded member clock (clock.Time()-1)
	Event uint64
	Query uint64
}

func (m mstate) clone() mstate {
	c := m
	c.Alive = make(map[string]string, len(m.Alive))
	for k, v := range m.Alive {
		c.Alive[k] = v
	}
	return c
}

func aliveKey(a map[string]string) string {
	var ks []string
	for k, v := range a {
		ks = append(ks, fmt.Sprintf("%q=%s", k, v))
	}
	sort.Strings(ks)
	return fmt.Sprint(ks)
}

// ---- running a history against the real Snapshotter ----------------------

type snapRun struct {
	c       *snapCase
	fs      *memFS
	clk     *fakeClock
	lc      *serf.LamportClock
	path    string
	tmpdir  string
	in      chan<- serf.Event
	out     chan serf.Event
	shut    chan struct{}
	snap    *serf.Snapshotter
	logger  *log.Logger
	open    bool
	left    bool // graceful leave issued in the current generation
	problem string
	pending int // events handed over with NW and not yet seen on the out channel

	// model
	alive       map[string]string
	maxEvent    uint64
	maxQuery    uint64
	memberHist  []string // aliveKey after each member event (index 0 = initial)
	eventHist   map[uint64]bool
	queryHist   map[uint64]bool
	clockHist   map[uint64]bool
	lastEvtStep map[string]int // member -> step index of its last join/leave/failed
	step        int
	compactions int
	sentMember  int
	// history step at which each clock last moved (C12 judges what moved after the fault)
	clockAdvStep, eventAdvStep, queryAdvStep int
	aliveAtLeave map[string]string
	leaveSeen    bool
}

func newSnapRun(c *snapCase) (*snapRun, error) {
	r := &snapRun{c: c, clk: newFakeClock(), lc: &serf.LamportClock{}, alive: map[string]string{},
		eventHist: map[uint64]bool{0: true}, queryHist: map[uint64]bool{0: true}, clockHist: map[uint64]bool{0: true},
		lastEvtStep: map[string]int{}}
	r.lc.Increment() // Serf guarantees clock >= 1
	r.logger = log.New(io.Discard, "", 0)
	r.memberHist = []string{aliveKey(r.alive)}
	if c.RealFS {
		d, err := os.MkdirTemp("", "verif-snap-")
		if err != nil {
			return nil, err
		}
		r.tmpdir = d
		r.path = filepath.Join(d, "snapshot")
		serf.VerifSetFS(nil)
	} else {
		r.fs = newMemFS()
		r.path = "/snap/snapshot"
		serf.VerifSetFS(r.fs)
	}
	serf.VerifSetClock(r.clk)
	return r, nil
}

func (r *snapRun) cleanup() {
	if r.open {
		r.closeSnap()
	}
	serf.VerifSetFS(nil)
	serf.VerifSetClock(nil)
	if r.tmpdir != "" {
		os.RemoveAll(r.tmpdir)
	}
}

func (r *snapRun) openSnap() error {
	r.out = make(chan serf.Event, 8192)
	r.shut = make(chan struct{})
	in, snap, err := serf.NewSnapshotter(r.path, r.c.MinCompact, r.c.Rejoin, r.logger, r.lc, r.out, r.shut)
	if err != nil {
		return err
	}
	r.in, r.snap, r.open, r.left = in, snap, true, false
	return nil
}

func (r *snapRun) closeSnap() {
	close(r.shut)
	r.snap.Wait()
	r.open = false
}

const syncTimeout = 20 * time.Second

// barrier returns once the stream goroutine has finished everything handed to
// it so far: two sends on the unbuffered tick channel.
func (r *snapRun) barrier() bool {
	for i := 0; i < 2; i++ {
		select {
		case r.clk.tick <- r.clk.Now():
		case <-time.After(syncTimeout):
			r.problem = "barrier-timeout"
			return false
		}
	}
	return true
}

func (r *snapRun) waitBacklog() bool {
	dl := time.Now().Add(syncTimeout)
	for r.snap.VerifBacklog() != 0 {
		if time.Now().After(dl) {
			r.problem = "backlog-timeout"
			return false
		}
		runtime.Gosched()
	}
	return true
}

// send delivers one event and waits until it (and every event handed over
// before it without waiting) has been forwarded and processed.
// forwarded=false means the tee did not forward an event in time.
func (r *snapRun) send(e serf.Event) (forwarded bool) {
	r.in <- e
	r.pending++
	return r.settle()
}

// sendNoWait hands the event over and returns.
func (r *snapRun) sendNoWait(e serf.Event) {
	r.in <- e
	r.pending++
}

// settle waits until everything handed over so far has been forwarded and
// processed by the snapshot goroutine.
func (r *snapRun) settle() (forwarded bool) {
	for r.pending > 0 {
		select {
		case <-r.out:
			r.pending--
		case <-time.After(syncTimeout):
			return false
		}
	}
	if !r.waitBacklog() {
		return true
	}
	r.barrier()
	return true
}

func (r *snapRun) deliver(e serf.Event, nowait bool) bool {
	if nowait {
		r.sendNoWait(e)
		return true
	}
	return r.send(e)
}

func (r *snapRun) memberName(op hOp) string { return r.c.Names[op.M%len(r.c.Names)] }

// apply runs one history op against the snapshotter and the model. It returns
// false if the event was not forwarded on the out channel.
func (r *snapRun) apply(op hOp) bool {
	r.step++
	if r.fs != nil {
		r.fs.mu.Lock()
		r.fs.curStepHint(r.step)
		r.fs.mu.Unlock()
	}
	recording := !r.left
	switch op.K {
	case opJoin:
		name := r.memberName(op)
		ip, port, want := addrFor(op.M%len(r.c.Names), op.A)
		ok := r.deliver(serf.MemberEvent{Type: serf.EventMemberJoin, Members: []serf.Member{{Name: name, Addr: ip, Port: port, Status: serf.StatusAlive}}}, op.NW)
		if recording {
			r.alive[name] = want
			r.memberHist = append(r.memberHist, aliveKey(r.alive))
			r.lastEvtStep[name] = r.step
			r.noteClock()
		}
		return ok
	case opLeave, opFailed:
		name := r.memberName(op)
		typ := serf.EventMemberLeave
		if op.K == opFailed {
			typ = serf.EventMemberFailed
		}
		ok := r.deliver(serf.MemberEvent{Type: typ, Members: []serf.Member{{Name: name}}}, op.NW)
		if recording {
			delete(r.alive, name)
			r.memberHist = append(r.memberHist, aliveKey(r.alive))
			r.lastEvtStep[name] = r.step
			r.noteClock()
		}
		return ok
	case opUpdate, opReap:
		name := r.memberName(op)
		if op.K == opReap {
			if _, isAlive := r.alive[name]; isAlive {
				// Serf only reaps failed/left members; keep the history realistic
				ok := r.deliver(serf.MemberEvent{Type: serf.EventMemberUpdate, Members: []serf.Member{{Name: name}}}, op.NW)
				if recording {
					r.noteClock()
				}
				return ok
			}
		}
		typ := serf.EventMemberUpdate
		if op.K == opReap {
			typ = serf.EventMemberReap
		}
		ok := r.deliver(serf.MemberEvent{Type: typ, Members: []serf.Member{{Name: name}}}, op.NW)
		if recording {
			r.noteClock()
		}
		return ok
	case opUser:
		ok := r.deliver(serf.UserEvent{LTime: serf.LamportTime(op.V), Name: "ev", Payload: []byte("p")}, op.NW)
		if recording && op.V > r.maxEvent {
			r.maxEvent = op.V
			r.eventHist[op.V] = true
			r.eventAdvStep = r.step
		}
		if recording {
			r.noteClock()
		}
		return ok
	case opQuery:
		ok := r.deliver(&serf.Query{LTime: serf.LamportTime(op.V), Name: "q"}, op.NW)
		if recording && op.V > r.maxQuery {
			r.maxQuery = op.V
			r.queryHist[op.V] = true
			r.queryAdvStep = r.step
		}
		if recording {
			r.noteClock()
		}
		return ok
	case opWitness:
		before := r.lc.Time()
		r.lc.Witness(serf.LamportTime(op.V))
		if r.lc.Time() != before {
			r.clockAdvStep = r.step
		}
	case opTick:
		if !r.settle() {
			return false
		}
		r.barrier()
		r.noteClock()
	case opAdvance:
		r.clk.Advance(time.Duration(op.V) * time.Millisecond)
	case opGracefulLeave:
		// "the moment of the leave" is well defined: everything before it has been processed
		if !r.settle() {
			return false
		}
		if r.left {
			// a second Leave() in the same life: nothing more to forget, nothing to
			// bring back; it has to return (the snapshot goroutine is running)
			done := make(chan struct{})
			go func() { defer close(done); r.snap.Leave() }()
			select {
			case <-done:
			case <-time.After(syncTimeout):
				r.problem = "second Leave() did not return"
			}
			r.barrier()
			return true
		}
		r.aliveAtLeave = map[string]string{}
		for k, v := range r.alive {
			r.aliveAtLeave[k] = v
		}
		r.leaveSeen = true
		if r.c.StallLeave && r.fs != nil {
			r.stalledLeave()
		} else {
			r.snap.Leave()
		}
		r.left = true
		r.barrier()
		r.noteClock()
	case opReopen:
		if !r.settle() {
			return false
		}
		wasLeft := r.left
		r.closeSnap()
		r.noteClock()
		if wasLeft {
			// the life that ends here left gracefully: the next life starts from
			// nobody (rejoin-after-leave off) or from the set known at the leave
			r.alive = map[string]string{}
			if r.c.Rejoin {
				for k, v := range r.aliveAtLeave {
					r.alive[k] = v
				}
			}
			r.memberHist = append(r.memberHist, aliveKey(r.alive))
		}
		if err := r.openSnap(); err != nil {
			r.problem = "reopen: " + err.Error()
		}
	}
	return true
}

// stalledLeave issues the leave while the stream goroutine is stuck in a slow
// write of an earlier event, and lets the owned clock run on meanwhile. Leave()
// has to wait for the goroutine however long that takes: the leave is issued,
// so it has to be remembered.
func (r *snapRun) stalledLeave() {
	// make the next append flush (the 500 ms rule), so that it reaches the disk
	r.clk.Advance(600 * time.Millisecond)
	reached, release := armStall()
	defer release()
	ev := serf.UserEvent{LTime: serf.LamportTime(r.maxEvent + 1), Name: "before-leave", Payload: []byte("p")}
	r.maxEvent++
	r.eventHist[r.maxEvent] = true
	r.in <- ev
	select {
	case <-r.out:
	case <-time.After(syncTimeout):
		r.problem = "stall: event not forwarded"
		return
	}
	select {
	case <-reached:
	case <-time.After(2 * time.Second):
		// the append did not reach the disk (e.g. it went into a compaction
		// first): no stall this time, plain leave
		release()
		r.waitBacklog()
		r.barrier()
		r.snap.Leave()
		return
	}
	done := make(chan struct{})
	go func() { defer close(done); r.snap.Leave() }()
	time.Sleep(2 * time.Millisecond) // let Leave() park
	ms := r.c.StallMs
	if ms <= 0 {
		ms = 300
	}
	r.clk.Advance(time.Duration(ms) * time.Millisecond)
	time.Sleep(time.Millisecond)
	release()
	select {
	case <-done:
	case <-time.After(syncTimeout):
		r.problem = "stall: Leave did not return"
	}
}

// noteClock records a value the snapshot may legitimately hold as member
// clock: whatever clock.Time()-1 is at a moment updateClock may run.
func (r *snapRun) noteClock() {
	r.clockHist[uint64(r.lc.Time())-1] = true
}

func (fs *memFS) curStepHint(step int) { fs.curStep = step }

// recovered reads what a restart would see.
type recovered struct {
	Alive map[string]string
	Clock uint64
	Event uint64
	Query uint64
}

func readSnapshotter(s *serf.Snapshotter) recovered {
	rec := recovered{Alive: map[string]string{}}
	for _, p := range s.AliveNodes() {
		rec.Alive[p.Name] = p.Addr
	}
	rec.Clock = uint64(s.LastClock())
	rec.Event = uint64(s.LastEventClock())
	rec.Query = uint64(s.LastQueryClock())
	return rec
}

// restoreFrom starts a fresh Snapshotter (as a restarted node would) on the
// given file system content and reports what it recovered.
func restoreFrom(files map[string]string, path string, rejoin bool) (recovered, error) {
	rec, _, err := restoreTwice(files, path, rejoin, false)
	return rec, err
}

// restoreTwice restarts on the given content, shuts that node down again
// without anything having happened, and (twice=true) restarts once more on what
// it left behind: second is what that second restart recovers.
func restoreTwice(files map[string]string, path string, rejoin bool, twice bool) (first, second recovered, err error) {
	fs := newMemFS()
	fs.load(files)
	serf.VerifSetFS(fs)
	defer serf.VerifSetFS(nil)
	for i := 0; i < 2; i++ {
		shut := make(chan struct{})
		var lc serf.LamportClock
		lc.Increment()
		_, s, err := serf.NewSnapshotter(path, 1<<30, rejoin, log.New(io.Discard, "", 0), &lc, nil, shut)
		if err != nil {
			return first, second, err
		}
		rec := readSnapshotter(s)
		close(shut)
		s.Wait()
		if i == 0 {
			first, second = rec, rec
			if !twice {
				break
			}
			// a restart is a function of the files: if this one left them as they
			// were, the next one finds the same
			now := fs.snapshotFilesLocked()
			same := len(now) == len(files)
			for p, c := range files {
				if nc, ok := now[p]; !ok || nc != c {
					same = false
					break
				}
			}
			if same {
				break
			}
		} else {
			second = rec
		}
	}
	return first, second, nil
}
