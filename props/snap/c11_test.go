//go:build verif && verifoverlay

package snap

import (
	"fmt"
	"testing"

	"github.com/hashicorp/serf/serf"
	"pgregory.net/rapid"

	"verif/internal/vkit"
)

// C11 — a crash at any point never loses snapshot state already written.
//
// One run of a generated history on the logging in-memory file system yields a
// crash image after every mutation (create/truncate, write — plus one torn
// variant per write —, remove, rename). Every image is restored with the real
// NewSnapshotter. Oracle (component-wise, see DESIGN.md C11):
//   - the recovered rejoin set equals the model's set after some prefix of the
//     member events sent so far, and over successive crash points that prefix
//     index never has to go backwards;
//   - each recovered clock is a value the model says could have been recorded
//     by then, and over successive crash points it never decreases;
//   - after the clean shutdown the recovered state equals the final model.

func genC11(t *rapid.T) snapCase {
	c := snapCase{
		MinCompact: rapid.SampledFrom([]int{0, 0, 64, 200, 400, 1000}).Draw(t, "mincompact"),
		TornPct:    rapid.SampledFrom([]int{0, 1, 30, 50, 80, 99}).Draw(t, "torn"),
	}
	c.Names = genNames(t, false)
	c.Ops = genOps(t, 40, map[int]int{opJoin: 6, opLeave: 2, opFailed: 2, opUpdate: 1, opReap: 1, opUser: 2,
		opQuery: 2, opWitness: 2, opTick: 1, opAdvance: 2, opReopen: 1})
	if rapid.IntRange(0, 5).Draw(t, "bulk") == 0 {
		// a burst: many member events with long names and no flush in between, so
		// that the buffered writer spills 4096-byte chunks that end mid-line
		c.MinCompact = rapid.SampledFrom([]int{2000, 6000, 128 * 1024}).Draw(t, "bulk-mincompact")
		c.Names = nil
		for i := 0; i < 5; i++ {
			c.Names = append(c.Names, fmt.Sprintf("n%d-", i)+rapid.StringMatching(`[a-z]{90,120}`).Draw(t, "longname"))
		}
		c.Ops = genOps(t, 40, map[int]int{opJoin: 8, opLeave: 2, opFailed: 2, opUser: 1, opWitness: 1})
		for len(c.Ops) < 34 {
			c.Ops = append(c.Ops, hOp{K: opJoin, M: len(c.Ops) % 5, A: len(c.Ops) % 3})
		}
	}
	for i := 0; i < 3; i++ {
		c.Picks = append(c.Picks, rapid.IntRange(0, 9999).Draw(t, "pick"))
	}
	c.Ops2 = genOps(t, 14, map[int]int{opJoin: 4, opLeave: 3, opFailed: 3, opUser: 2, opQuery: 2, opWitness: 2, opTick: 1, opAdvance: 1})
	c.Legacy = rapid.SampledFrom([]int{0, 0, 1, 2}).Draw(t, "legacy")
	if c.Legacy > 0 && c.MinCompact < 400 {
		c.MinCompact = 1000 // give the skipped lines a while before the first compaction rewrites the file
	}
	return c
}

func bodyC11(c snapCase, x *vkit.Ctx) {
	c.RealFS = false
	r, err := newSnapRun(&c)
	if err != nil {
		x.Inconclusive("setup: " + err.Error())
		return
	}
	defer r.cleanup()
	if c.Legacy > 0 {
		legacy := "coordinate: {\"Vec\":[0.01,0.02,0,0,0,0,0,0],\"Error\":1.5,\"Adjustment\":0,\"Height\":1e-05}\n"
		if c.Legacy > 1 {
			legacy += "some-future-record: 42\n"
		}
		r.fs.load(map[string]string{r.path: legacy})
		x.Label("file-starts-with-lines-replay-skips")
	}
	r.fs.capture = true
	r.fs.tornPct = c.TornPct
	r.fs.armed = true
	if err := r.openSnap(); err != nil {
		x.Inconclusive("open: " + err.Error())
		return
	}
	// member events sent up to and including each step
	memberEventsByStep := []int{0}
	nMember := 0
	for _, op := range c.Ops {
		if !r.apply(op) {
			x.Violationf("event-not-forwarded", "step %d: event not forwarded", r.step)
			return
		}
		if r.problem != "" {
			x.Inconclusive(r.problem)
			return
		}
		if op.K == opJoin || op.K == opLeave || op.K == opFailed {
			nMember++
		}
		memberEventsByStep = append(memberEventsByStep, nMember)
	}
	r.step++
	r.fs.mu.Lock()
	r.fs.curStep = r.step
	r.fs.mu.Unlock()
	memberEventsByStep = append(memberEventsByStep, nMember)
	r.closeSnap()
	r.noteClock()
	r.fs.mu.Lock()
	images := r.fs.images
	oplog := r.fs.log
	r.fs.armed = false
	r.fs.mu.Unlock()
	final := r.fs.snapshotFilesLocked()

	inCompaction := func(opIdx int) bool {
		// between the creation of <path>.compact and the reopen that follows the rename
		for i := opIdx; i >= 0; i-- {
			o := oplog[i]
			if o.Kind == "open" && o.Path == r.path+".compact" {
				return true
			}
			if o.Kind == "open" && o.Path == r.path {
				return false
			}
		}
		return false
	}

	prevIdx := 0
	var prevClock, prevEvent, prevQuery uint64
	prevDesc := "start"
	nt := 0
	for k, img := range images {
		rec, rec2nd, err := restoreTwice(img.Files, r.path, false, true)
		desc := fmt.Sprintf("crash point %d/%d (after op %s%s, history step %d)", k, len(images), oplog[img.AfterOp], map[bool]string{true: " TORN", false: ""}[img.Torn], img.Step)
		if err != nil {
			x.Violationf("restart-fails", "%s: restart from the crash image fails: %v (files %v)", desc, err, img.Files)
			return
		}
		// the node restarted from the image, learnt nothing and was shut down: the
		// next restart must find what this one found (a restart must not itself
		// lose recovered state, e.g. while tidying up what the crash left)
		if aliveKey(rec2nd.Alive) != aliveKey(rec.Alive) || rec2nd.Clock != rec.Clock || rec2nd.Event != rec.Event || rec2nd.Query != rec.Query {
			x.Violationf("second-restart-recovers-something-else", "%s: the restart from the crash image recovers %s/%d/%d/%d; that node is shut down with nothing learnt, and the restart after it recovers %s/%d/%d/%d; files at crash: %q",
				desc, aliveKey(rec.Alive), rec.Clock, rec.Event, rec.Query, aliveKey(rec2nd.Alive), rec2nd.Clock, rec2nd.Event, rec2nd.Query, img.Files)
			return
		}
		// rejoin set: smallest prefix index >= prevIdx whose model state matches
		key := aliveKey(rec.Alive)
		limit := nMember
		if img.Step < len(memberEventsByStep) {
			limit = memberEventsByStep[img.Step]
		}
		found := -1
		for i := prevIdx; i <= limit && i < len(r.memberHist); i++ {
			if r.memberHist[i] == key {
				found = i
				break
			}
		}
		if found < 0 {
			// distinguish "lost" from "never a model state"
			everMatched := false
			for i := 0; i < len(r.memberHist); i++ {
				if r.memberHist[i] == key {
					everMatched = true
				}
			}
			sig := "rejoin-set-not-a-model-state"
			if everMatched {
				sig = "rejoin-set-went-backwards"
			}
			if len(rec.Alive) == 0 && len(img.Files) <= 1 {
				if _, has := img.Files[r.path]; !has {
					sig = "no-snapshot-after-crash"
				}
			}
			x.Violationf(sig, "%s: recovered rejoin set %s; the previous crash point (%s) already recovered the model state after %d member events (%s), allowed now: states %d..%d; files at crash: %q",
				desc, key, prevDesc, prevIdx, r.memberHist[prevIdx], prevIdx, limit, img.Files)
			return
		}
		if rec.Clock < prevClock || rec.Event < prevEvent || rec.Query < prevQuery {
			sig := "clock-went-backwards"
			if _, has := img.Files[r.path]; !has {
				sig = "no-snapshot-after-crash"
			}
			x.Violationf(sig, "%s: recovered clocks (%d,%d,%d) are below what the previous crash point (%s) recovered (%d,%d,%d); files at crash: %q",
				desc, rec.Clock, rec.Event, rec.Query, prevDesc, prevClock, prevEvent, prevQuery, img.Files)
			return
		}
		if !r.clockHist[rec.Clock] || !r.eventHist[rec.Event] || !r.queryHist[rec.Query] {
			x.Violationf("clock-never-recorded", "%s: recovered clocks (%d,%d,%d) contain a value the history never recorded (member clocks %v, event %v, query %v); files %q", desc, rec.Clock, rec.Event, rec.Query, r.clockHist, r.eventHist, r.queryHist, img.Files)
			return
		}
		prevIdx, prevClock, prevEvent, prevQuery, prevDesc = found, rec.Clock, rec.Event, rec.Query, desc
		if (inCompaction(img.AfterOp) || img.Torn) && (found > 0 || rec.Clock > 0) {
			nt++
		}
	}
	// ---- crash, restart, carry on, restart again: whatever a crash left on disk
	// (a half-written <path>.compact in particular) must not leak into the
	// snapshot the restarted node goes on to maintain. Up to four crash images
	// (whole writes only: a process crash does not tear a write) are continued
	// with the second history and then restarted cleanly.
	picked := 0
	for k := len(images) - 1; k >= 0 && picked < 4; k-- {
		img := images[k]
		if img.Torn {
			continue
		}
		_, hasTmp := img.Files[r.path+".compact"]
		if !hasTmp && picked >= 2 {
			continue
		}
		picked++
		if !continueFrom(&c, img, r.path, x, fmt.Sprintf("crash point %d/%d (after op %s)", k, len(images), oplog[img.AfterOp])) {
			return
		}
	}

	// ... and from drawn crash points anywhere in the history, torn writes included
	// (a partial last line is what the restart has to cope with there)
	seenPick := map[int]bool{}
	for _, p := range c.Picks {
		if len(images) == 0 {
			break
		}
		k := p % len(images)
		if seenPick[k] {
			continue
		}
		seenPick[k] = true
		img := images[k]
		if img.Torn {
			x.Label("continue:from-torn-write")
		}
		if !continueFrom(&c, img, r.path, x, fmt.Sprintf("crash point %d/%d (after op %s%s)", k, len(images), oplog[img.AfterOp], map[bool]string{true: " TORN", false: ""}[img.Torn])) {
			return
		}
	}

	// clean end
	rec, err := restoreFrom(final, r.path, false)
	if err != nil {
		x.Violationf("restart-fails", "restart after clean shutdown fails: %v", err)
		return
	}
	if !compareState(x, "after clean shutdown", rec, r.alive, uint64(r.lc.Time())-1, r.maxEvent, r.maxQuery, false) {
		return
	}
	comp := 0
	for _, o := range oplog {
		if o.Kind == "rename" {
			comp++
		}
	}
	x.Labelf("compactions=%d", min(comp, 4))
	x.Labelf("crashpoints=%d", len(images)/25*25)
	x.Labelf("torn_pct=%d", c.TornPct)
	x.NonTrivial(nt > 0)
	x.Sample(map[string]any{"case": c, "crash_points": len(images), "nontrivial_points": nt, "fs_ops": len(oplog)})
	cpMu.Lock()
	cpTotal += len(images)
	cpMu.Unlock()
}

// continueFrom restarts a node on a crash image, lets it run the second
// history and restarts it cleanly; the final state must be the one recovered
// from the image plus everything the second history did.
func continueFrom(c *snapCase, img crashImage, path string, x *vkit.Ctx, desc string) bool {
	cc := *c
	cc.Ops = c.Ops2
	r, err := newSnapRun(&cc)
	if err != nil {
		x.Inconclusive("setup: " + err.Error())
		return false
	}
	defer r.cleanup()
	// if the on-disk file ends in a partial line (a bufio spill boundary), what
	// is appended next is glued to it: that is a separate matter (see DESIGN.md),
	// not what this phase is after
	partial := false
	if data := img.Files[path]; len(data) > 0 && data[len(data)-1] != '\n' {
		partial = true
		x.Label("continue:file-ends-in-partial-line")
	}
	r.fs.load(img.Files)
	if err := r.openSnap(); err != nil {
		x.Violationf("restart-fails", "%s: restart from the crash image fails: %v", desc, err)
		return false
	}
	rec := readSnapshotter(r.snap)
	r.alive = map[string]string{}
	for k, v := range rec.Alive {
		r.alive[k] = v
	}
	r.maxEvent, r.maxQuery = rec.Event, rec.Query
	r.lc.Witness(serf.LamportTime(rec.Clock)) // as Serf does with the restored clock
	for _, op := range cc.Ops {
		if !r.apply(op) {
			x.Violationf("event-not-forwarded", "%s, continuing: event not forwarded", desc)
			return false
		}
		if r.problem != "" {
			x.Inconclusive(r.problem)
			return false
		}
	}
	r.closeSnap()
	if err := r.openSnap(); err != nil {
		x.Violationf("reopen-failed", "%s, continued and shut down: reopening fails: %v", desc, err)
		return false
	}
	got := readSnapshotter(r.snap)
	sig := "state-wrong-after-crash-restart-continue"
	if partial {
		sig = "partial-last-line-glued-to-next-append"
	}
	if aliveKey(got.Alive) != aliveKey(r.alive) || got.Clock != uint64(r.lc.Time())-1 || got.Event != r.maxEvent || got.Query != r.maxQuery {
		x.Violationf(sig, "%s: the node restarted from that crash image (recovering %s/%d/%d/%d), ran on and was restarted cleanly; it now recovers %s/%d/%d/%d, the model says %s/%d/%d/%d; files at the crash: %q",
			desc, aliveKey(rec.Alive), rec.Clock, rec.Event, rec.Query, aliveKey(got.Alive), got.Clock, got.Event, got.Query,
			aliveKey(r.alive), uint64(r.lc.Time())-1, r.maxEvent, r.maxQuery, img.Files)
		return false
	}
	x.Label("continue:checked")
	return true
}

func TestC11(t *testing.T) { vkit.Run(t, "C11", genC11, bodyC11) }
