//go:build verif && verifoverlay

package snap

import (
	"testing"

	"pgregory.net/rapid"

	"verif/internal/vkit"
)

// C13 — a graceful leave is remembered across restarts.

func genC13(t *rapid.T) snapCase {
	c := snapCase{
		MinCompact: rapid.SampledFrom([]int{0, 64, 200, 1000, 128 * 1024}).Draw(t, "mincompact"),
		Rejoin:     rapid.Bool().Draw(t, "rejoin"),
		RealFS:     rapid.IntRange(0, 7).Draw(t, "fs") == 0,
	}
	c.Names = genNames(t, false)
	before := genOps(t, 30, map[int]int{opJoin: 6, opLeave: 2, opFailed: 2, opUpdate: 1, opReap: 1, opUser: 2,
		opQuery: 2, opWitness: 2, opTick: 1, opAdvance: 1})
	after := genOps(t, 25, map[int]int{opJoin: 5, opLeave: 2, opFailed: 2, opUpdate: 1, opUser: 2,
		opQuery: 2, opWitness: 3, opTick: 3, opAdvance: 1})
	c.Ops = append(append(before, hOp{K: opGracefulLeave}), after...)
	return c
}

func bodyC13(c snapCase, x *vkit.Ctx) {
	r, err := newSnapRun(&c)
	if err != nil {
		x.Inconclusive("setup: " + err.Error())
		return
	}
	defer r.cleanup()
	if err := r.openSnap(); err != nil {
		x.Inconclusive("open: " + err.Error())
		return
	}
	renamesAtLeave, memberAfter := -1, 0
	for _, op := range c.Ops {
		if op.K == opGracefulLeave && r.fs != nil {
			renamesAtLeave = r.fs.countKind("rename")
		}
		if r.left && (op.K == opJoin || op.K == opLeave || op.K == opFailed) {
			memberAfter++
		}
		if !r.apply(op) {
			x.Violationf("event-not-forwarded", "step %d: event not forwarded after/before leave", r.step)
			return
		}
		if r.problem != "" {
			x.Inconclusive(r.problem)
			return
		}
	}
	r.closeSnap()
	if err := r.openSnap(); err != nil {
		x.Violationf("reopen-failed", "reopen after leave failed: %v", err)
		return
	}
	rec := readSnapshotter(r.snap)
	want := map[string]string{}
	if c.Rejoin {
		want = r.aliveAtLeave
	}
	if aliveKey(rec.Alive) != aliveKey(want) {
		sig := "rejoins-after-leave"
		if c.Rejoin {
			sig = "rejoin-set-not-the-one-at-leave"
		}
		x.Violationf(sig, "rejoin_after_leave=%v: restart recovered rejoin set %s, expected %s (set at the moment of the leave: %s)",
			c.Rejoin, aliveKey(rec.Alive), aliveKey(want), aliveKey(r.aliveAtLeave))
		return
	}
	compAfter := 0
	if r.fs != nil && renamesAtLeave >= 0 {
		compAfter = r.fs.countKind("rename") - renamesAtLeave
	}
	x.Labelf("rejoin=%v", c.Rejoin)
	x.Labelf("compactions_after_leave=%d", min(compAfter, 3))
	x.Labelf("member_events_after_leave=%d", min(memberAfter, 3))
	x.Labelf("alive_at_leave=%d", min(len(r.aliveAtLeave), 3))
	x.NonTrivial(memberAfter >= 1 && compAfter >= 1 && len(r.aliveAtLeave) > 0)
}

func TestC13(t *testing.T) { vkit.Run(t, "C13", genC13, bodyC13) }
