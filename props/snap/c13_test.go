//go:build verif && verifoverlay

package snap

import (
	"fmt"
	"net"
	"runtime"
	"strings"
	"testing"
	"time"

	"github.com/hashicorp/memberlist"
	"github.com/hashicorp/serf/serf"
	"pgregory.net/rapid"

	"verif/internal/node"
	"verif/internal/simnet"
	"verif/internal/vkit"
)

// C13 — a graceful leave is remembered across restarts.

func genC13(t *rapid.T) snapCase {
	c := snapCase{
		MinCompact: rapid.SampledFrom([]int{0, 64, 200, 1000, 128 * 1024}).Draw(t, "mincompact"),
		Rejoin:     rapid.Bool().Draw(t, "rejoin"),
		RealFS:     rapid.IntRange(0, 7).Draw(t, "fs") == 0,
	}
	c.SerfLayer = rapid.IntRange(0, 4).Draw(t, "serf-layer") == 0
	if rapid.IntRange(0, 4).Draw(t, "stall-leave") == 0 {
		c.StallLeave = true
		c.StallMs = rapid.SampledFrom([]int{1, 100, 249, 251, 300, 1000, 31000}).Draw(t, "stall-ms")
	}
	c.Names = genNames(t, false)
	before := genOps(t, 30, map[int]int{opJoin: 6, opLeave: 2, opFailed: 2, opUpdate: 1, opReap: 1, opUser: 2,
		opQuery: 2, opWitness: 2, opTick: 1, opAdvance: 1})
	// (a second Leave() in the same life may be among the later ops)
	after := genOps(t, 25, map[int]int{opJoin: 5, opLeave: 2, opFailed: 2, opUpdate: 1, opUser: 2,
		opQuery: 2, opWitness: 3, opTick: 3, opAdvance: 1, opGracefulLeave: 1})
	c.Ops = append(append(before, hOp{K: opGracefulLeave}), after...)
	// events still on their way through the snapshotter when the node shuts down:
	// a burst handed over without waiting, immediately followed by the shutdown.
	// Whether the snapshot goroutine meets them in its main loop, in its shutdown
	// drain or not at all, they come after the leave and must not matter.
	if rapid.IntRange(0, 2).Draw(t, "burst-into-shutdown") == 0 {
		burst := genOps(t, 8, map[int]int{opJoin: 5, opFailed: 1, opLeave: 1, opUser: 1, opQuery: 1})
		for i := range burst {
			burst[i].NW = true
		}
		c.Ops = append(c.Ops, burst...)
		c.UnpacedEnd = true
	}
	return c
}

// serfLeave drives the same property through a real node: members join (by
// memberlist notification), the node leaves gracefully through Serf.Leave and
// shuts down; a restart from its snapshot must not re-join anybody unless
// rejoin-after-leave is set.
func serfLeave(c *snapCase, x *vkit.Ctx) {
	fs := newMemFS()
	clk := newFakeClock()
	serf.VerifSetFS(fs)
	serf.VerifSetClock(clk)
	defer serf.VerifSetFS(nil)
	defer serf.VerifSetClock(nil)
	nw := simnet.New(1)
	const path = "/snap/serf-snapshot"
	n, err := node.New(nw, node.Opts{Name: "leaver", Quiet: true, Mutate: func(sc *serf.Config) {
		sc.SnapshotPath = path
		sc.RejoinAfterLeave = c.Rejoin
	}})
	if err != nil {
		x.Inconclusive("create: " + err.Error())
		return
	}
	alive := map[string]string{}
	k := 0
	expectEvents := 1 // the node's own join
	for _, op := range c.Ops {
		if op.K == opGracefulLeave {
			break
		}
		if op.K != opJoin && op.K != opFailed {
			continue
		}
		name := c.Names[op.M%len(c.Names)]
		if name == "leaver" || strings.ContainsAny(name, "\n") {
			continue
		}
		ip, port, wantAddr := addrFor(op.M%len(c.Names), op.A)
		mn := &memberlist.Node{Name: name, Addr: ip, Port: port, PMin: 1, PMax: 5, PCur: 2, DMin: 2, DMax: 5, DCur: 5}
		if op.K == opJoin {
			n.EventsD.NotifyJoin(mn)
			alive[name] = wantAddr
			expectEvents++
		} else {
			if _, isAlive := alive[name]; isAlive {
				expectEvents++ // alive -> failed produces an event; anything else does not
			}
			n.EventsD.NotifyLeave(mn)
			delete(alive, name)
		}
		k++
	}
	// An event reaches the application channel only after the snapshotter's tee
	// has handed it to the snapshot stream, so once all of them have arrived
	// here none is still in flight in front of the snapshotter.
	if got, ok := n.WaitEvents(20*time.Second, func(ev []serf.Event) bool { return len(ev) >= expectEvents }); !ok {
		x.Inconclusive(fmt.Sprintf("serf-layer: %d of %d member events arrived", len(got), expectEvents))
		n.Stop()
		return
	}
	// let the snapshotter take in what was sent before the leave
	dl := time.Now().Add(10 * time.Second)
	for n.Serf.VerifSnapshotter().VerifBacklog() != 0 && time.Now().Before(dl) {
		runtime.Gosched()
	}
	// ... and finish processing it: two sends on the owned (unbuffered) tick
	// channel prove the stream goroutine is back in its select
	for i := 0; i < 2; i++ {
		select {
		case clk.tick <- clk.Now():
		case <-time.After(20 * time.Second):
			x.Inconclusive("serf-layer-barrier-timeout")
			n.Stop()
			return
		}
	}
	if err := n.Serf.Leave(); err != nil {
		x.Inconclusive("leave: " + err.Error())
		n.Stop()
		return
	}
	// events after the leave must not matter
	n.EventsD.NotifyJoin(&memberlist.Node{Name: "late-joiner", Addr: net.IPv4(10, 9, 9, 9), Port: 7946, PMin: 1, PMax: 5, PCur: 2, DMin: 2, DMax: 5, DCur: 5})
	n.Stop()
	rec, err := restoreFrom(fs.snapshotFilesLocked(), path, c.Rejoin)
	if err != nil {
		x.Violationf("reopen-failed", "serf layer: reopening the snapshot failed: %v", err)
		return
	}
	want := map[string]string{}
	if c.Rejoin {
		want = alive
		want["leaver"] = n.Tr.Addr()
	}
	if aliveKey(rec.Alive) != aliveKey(want) {
		x.Violationf("serf-leave-not-remembered", "serf layer, rejoin_after_leave=%v: a node that called Serf.Leave() and shut down would re-join %s on restart, expected %s",
			c.Rejoin, aliveKey(rec.Alive), aliveKey(want))
		return
	}
	x.Label("serf-layer")
	x.Labelf("serf-layer-alive-at-leave=%d", min(len(alive), 3))
}

func bodyC13(c snapCase, x *vkit.Ctx) {
	if c.SerfLayer {
		serfLeave(&c, x)
		if x.Failed() || x.IsInconclusive() {
			return
		}
	}
	r, err := newSnapRun(&c)
	if err != nil {
		x.Inconclusive("setup: " + err.Error())
		return
	}
	defer r.cleanup()
	if err := r.openSnap(); err != nil {
		x.Inconclusive("open: " + err.Error())
		return
	}
	renamesAtLeave, memberAfter := -1, 0
	for _, op := range c.Ops {
		if op.K == opGracefulLeave && r.fs != nil {
			renamesAtLeave = r.fs.countKind("rename")
		}
		if r.left && (op.K == opJoin || op.K == opLeave || op.K == opFailed) {
			memberAfter++
		}
		if !r.apply(op) {
			x.Violationf("event-not-forwarded", "step %d: event not forwarded after/before leave", r.step)
			return
		}
		if r.problem != "" {
			x.Inconclusive(r.problem)
			return
		}
	}
	if !c.UnpacedEnd && !r.settle() {
		x.Violationf("event-not-forwarded", "an event handed over without waiting was not forwarded")
		return
	}
	r.closeSnap()
	r.pending = 0
	if err := r.openSnap(); err != nil {
		x.Violationf("reopen-failed", "reopen after leave failed: %v", err)
		return
	}
	rec := readSnapshotter(r.snap)
	want := map[string]string{}
	if c.Rejoin {
		want = r.aliveAtLeave
	}
	if aliveKey(rec.Alive) != aliveKey(want) {
		sig := "rejoins-after-leave"
		if c.Rejoin {
			sig = "rejoin-set-not-the-one-at-leave"
		}
		x.Violationf(sig, "rejoin_after_leave=%v: restart recovered rejoin set %s, expected %s (set at the moment of the leave: %s)",
			c.Rejoin, aliveKey(rec.Alive), aliveKey(want), aliveKey(r.aliveAtLeave))
		return
	}
	// "remembered across restarts": the restarted node shuts down again having
	// learnt nothing; the restart after that one is in the same position
	r.closeSnap()
	if err := r.openSnap(); err != nil {
		x.Violationf("reopen-failed", "second reopen after leave failed: %v", err)
		return
	}
	if rec2 := readSnapshotter(r.snap); aliveKey(rec2.Alive) != aliveKey(want) {
		x.Violationf("leave-not-remembered-at-second-restart", "rejoin_after_leave=%v: the first restart after the leave recovered %s (as expected); a second restart, with nothing learnt in between, recovers %s",
			c.Rejoin, aliveKey(rec.Alive), aliveKey(rec2.Alive))
		return
	}
	// the same through a real node: serf.Create on that snapshot (with the same
	// rejoin-after-leave setting in its configuration) dials exactly that set
	slash := false
	for name := range want {
		if strings.Contains(name, "/") {
			// handleRejoin hands "name/addr" to memberlist.Join, which splits at the
			// first slash: that is C10's known finding name-with-slash-not-rejoined,
			// not a matter of remembering the leave
			slash = true
		}
	}
	if c.SerfLayer && !c.RealFS && slash {
		x.Label("serf-layer-restart:skipped(name-with-slash, known under C10)")
	}
	if c.SerfLayer && !c.RealFS && !slash {
		r.alive = map[string]string{}
		for k, v := range want {
			r.alive[k] = v
		}
		if !serfLayer(r, x, false) {
			return
		}
		x.Label("serf-layer-restart")
	}
	compAfter := 0
	if r.fs != nil && renamesAtLeave >= 0 {
		compAfter = r.fs.countKind("rename") - renamesAtLeave
	}
	x.Labelf("rejoin=%v", c.Rejoin)
	if c.StallLeave && !c.RealFS {
		x.Label("leave-during-slow-write")
	}
	if c.UnpacedEnd {
		x.Label("burst-into-shutdown")
	}
	x.Labelf("compactions_after_leave=%d", min(compAfter, 3))
	x.Labelf("member_events_after_leave=%d", min(memberAfter, 3))
	x.Labelf("alive_at_leave=%d", min(len(r.aliveAtLeave), 3))
	x.NonTrivial(memberAfter >= 1 && compAfter >= 1 && len(r.aliveAtLeave) > 0)
}

func TestC13(t *testing.T) { vkit.Run(t, "C13", genC13, bodyC13) }
