//go:build verif && verifoverlay

package snap

import (
	"errors"
	"fmt"
	"io"
	"os"
	"sort"
	"sync"
	"time"

	"github.com/hashicorp/serf/serf"
)

// memFS is the harness file system behind the generated snapshot.go overlay:
// it logs every operation, can fail exactly one of them, and captures a crash
// image (path -> bytes) after every mutation. Semantics are POSIX-like:
// handles keep working on their inode after remove/rename; O_APPEND writes go
// to the end; a Write hands its bytes to "the OS" immediately (process-crash
// semantics: what was written survives, what sits in a bufio.Writer does not).
type memFS struct {
	mu     sync.Mutex
	files  map[string]*inode
	log    []opRec
	armed  bool // count ops / inject faults / capture images only while armed
	opN    int  // fallible ops seen while armed
	failAt int  // op index to fail (-1 none)
	// for a failing write: apply this many bytes (capped below len) first
	failPartial int
	failed      *opRec
	failedStep  int // history step that was running when the injected fault hit
	images      []crashImage
	capture     bool
	tornPct     int
	curStep     int
}

type inode struct{ data []byte }

type opRec struct {
	N    int    `json:"n"`
	Kind string `json:"kind"`
	Path string `json:"path"`
	Len  int    `json:"len,omitempty"`
	Err  bool   `json:"err,omitempty"`
}

type crashImage struct {
	AfterOp int               // index into log of the mutation this image follows
	Kind    string            // kind of that op
	Torn    bool              // image of a partially applied write
	Step    int               // history step that was running
	Files   map[string]string // path -> content
}

func newMemFS() *memFS { return &memFS{files: map[string]*inode{}, failAt: -1} }

// stall support: the next Write blocks (a slow disk) until the harness lets go.
type fsStall struct {
	mu      sync.Mutex
	armed   bool
	reached chan struct{}
	release chan struct{}
}

var theStall fsStall

func armStall() (reached <-chan struct{}, release func()) {
	theStall.mu.Lock()
	defer theStall.mu.Unlock()
	theStall.armed = true
	theStall.reached = make(chan struct{})
	theStall.release = make(chan struct{})
	rel := theStall.release
	var once sync.Once
	return theStall.reached, func() { once.Do(func() { close(rel) }) }
}

func maybeStall() {
	theStall.mu.Lock()
	if !theStall.armed {
		theStall.mu.Unlock()
		return
	}
	theStall.armed = false
	reached, release := theStall.reached, theStall.release
	theStall.mu.Unlock()
	close(reached)
	<-release
}

func (fs *memFS) snapshotFiles() map[string]string {
	m := make(map[string]string, len(fs.files))
	for p, ino := range fs.files {
		m[p] = string(ino.data)
	}
	return m
}

// load replaces the file system content (used to restore from a crash image).
func (fs *memFS) load(files map[string]string) {
	fs.mu.Lock()
	defer fs.mu.Unlock()
	fs.files = map[string]*inode{}
	for p, c := range files {
		fs.files[p] = &inode{data: []byte(c)}
	}
}

func (fs *memFS) content(path string) (string, bool) {
	fs.mu.Lock()
	defer fs.mu.Unlock()
	ino, ok := fs.files[path]
	if !ok {
		return "", false
	}
	return string(ino.data), true
}

func (fs *memFS) paths() []string {
	fs.mu.Lock()
	defer fs.mu.Unlock()
	var out []string
	for p := range fs.files {
		out = append(out, p)
	}
	sort.Strings(out)
	return out
}

var errInjected = errors.New("memfs: injected I/O error")

// begin registers an op; it returns an error if this op is the one to fail.
// Callers hold fs.mu.
func (fs *memFS) begin(kind, path string, n int) (rec *opRec, fail bool) {
	fs.log = append(fs.log, opRec{N: len(fs.log), Kind: kind, Path: path, Len: n})
	rec = &fs.log[len(fs.log)-1]
	if !fs.armed {
		return rec, false
	}
	idx := fs.opN
	fs.opN++
	if idx == fs.failAt {
		rec.Err = true
		cp := *rec
		fs.failed = &cp
		fs.failedStep = fs.curStep
		return rec, true
	}
	return rec, false
}

func (fs *memFS) mutated(rec *opRec, torn bool) {
	if !fs.capture || !fs.armed {
		return
	}
	fs.images = append(fs.images, crashImage{AfterOp: rec.N, Kind: rec.Kind, Torn: torn, Step: fs.curStep, Files: fs.snapshotFiles()})
}

func (fs *memFS) OpenFile(name string, flag int, perm os.FileMode) (*serf.VerifFile, error) {
	fs.mu.Lock()
	defer fs.mu.Unlock()
	rec, fail := fs.begin("open", name, 0)
	if fail {
		return nil, &os.PathError{Op: "open", Path: name, Err: errInjected}
	}
	ino, ok := fs.files[name]
	changed := false
	if !ok {
		if flag&os.O_CREATE == 0 {
			return nil, &os.PathError{Op: "open", Path: name, Err: os.ErrNotExist}
		}
		ino = &inode{}
		fs.files[name] = ino
		changed = true
	} else if flag&os.O_TRUNC != 0 && len(ino.data) > 0 {
		ino.data = nil
		changed = true
	}
	if changed {
		fs.mutated(rec, false)
	}
	return &serf.VerifFile{Impl: &memFile{fs: fs, ino: ino, path: name, app: flag&os.O_APPEND != 0}}, nil
}

func (fs *memFS) Remove(name string) error {
	fs.mu.Lock()
	defer fs.mu.Unlock()
	rec, fail := fs.begin("remove", name, 0)
	if fail {
		return &os.PathError{Op: "remove", Path: name, Err: errInjected}
	}
	if _, ok := fs.files[name]; !ok {
		return &os.PathError{Op: "remove", Path: name, Err: os.ErrNotExist}
	}
	delete(fs.files, name)
	fs.mutated(rec, false)
	return nil
}

func (fs *memFS) Rename(o, n string) error {
	fs.mu.Lock()
	defer fs.mu.Unlock()
	rec, fail := fs.begin("rename", o+"->"+n, 0)
	if fail {
		return &os.LinkError{Op: "rename", Old: o, New: n, Err: errInjected}
	}
	ino, ok := fs.files[o]
	if !ok {
		return &os.LinkError{Op: "rename", Old: o, New: n, Err: os.ErrNotExist}
	}
	delete(fs.files, o)
	fs.files[n] = ino
	fs.mutated(rec, false)
	return nil
}

func (fs *memFS) Stat(name string) (os.FileInfo, error) {
	fs.mu.Lock()
	defer fs.mu.Unlock()
	if _, fail := fs.begin("stat", name, 0); fail {
		return nil, &os.PathError{Op: "stat", Path: name, Err: errInjected}
	}
	ino, ok := fs.files[name]
	if !ok {
		return nil, &os.PathError{Op: "stat", Path: name, Err: os.ErrNotExist}
	}
	return memInfo{name: name, size: int64(len(ino.data))}, nil
}

func (fs *memFS) Truncate(name string, size int64) error {
	fs.mu.Lock()
	defer fs.mu.Unlock()
	rec, fail := fs.begin("truncate", name, int(size))
	if fail {
		return &os.PathError{Op: "truncate", Path: name, Err: errInjected}
	}
	ino, ok := fs.files[name]
	if !ok {
		return &os.PathError{Op: "truncate", Path: name, Err: os.ErrNotExist}
	}
	ino.resize(size)
	fs.mutated(rec, false)
	return nil
}

func (ino *inode) resize(size int64) {
	if size <= int64(len(ino.data)) {
		ino.data = ino.data[:size]
		return
	}
	nd := make([]byte, size)
	copy(nd, ino.data)
	ino.data = nd
}

func (f *memFile) Truncate(size int64) error {
	f.fs.mu.Lock()
	defer f.fs.mu.Unlock()
	if f.closed {
		return os.ErrClosed
	}
	rec, fail := f.fs.begin("truncate", f.path, int(size))
	if fail {
		return &os.PathError{Op: "truncate", Path: f.path, Err: errInjected}
	}
	f.ino.resize(size)
	f.fs.mutated(rec, false)
	return nil
}

func (f *memFile) Name() string { return f.path }

type memFile struct {
	fs     *memFS
	ino    *inode
	path   string
	pos    int64
	app    bool
	closed bool
}

func (f *memFile) Read(p []byte) (int, error) {
	f.fs.mu.Lock()
	defer f.fs.mu.Unlock()
	if f.closed {
		return 0, os.ErrClosed
	}
	if _, fail := f.fs.begin("read", f.path, len(p)); fail {
		return 0, &os.PathError{Op: "read", Path: f.path, Err: errInjected}
	}
	if f.pos >= int64(len(f.ino.data)) {
		return 0, io.EOF
	}
	n := copy(p, f.ino.data[f.pos:])
	f.pos += int64(n)
	return n, nil
}

func (f *memFile) Write(p []byte) (int, error) {
	maybeStall()
	f.fs.mu.Lock()
	defer f.fs.mu.Unlock()
	if f.closed {
		return 0, os.ErrClosed
	}
	rec, fail := f.fs.begin("write", f.path, len(p))
	apply := func(b []byte) {
		if f.app {
			f.ino.data = append(f.ino.data, b...)
			f.pos = int64(len(f.ino.data))
			return
		}
		end := f.pos + int64(len(b))
		if end > int64(len(f.ino.data)) {
			nd := make([]byte, end)
			copy(nd, f.ino.data)
			f.ino.data = nd
		}
		copy(f.ino.data[f.pos:], b)
		f.pos = end
	}
	if fail {
		k := f.fs.failPartial
		if f.fs.tornPct > 0 {
			k = len(p) * f.fs.tornPct / 100
		}
		if k >= len(p) {
			k = len(p) - 1
		}
		if k < 0 {
			k = 0
		}
		if k > 0 {
			apply(p[:k])
			f.fs.mutated(rec, true)
		}
		return k, &os.PathError{Op: "write", Path: f.path, Err: errInjected}
	}
	if len(p) == 0 {
		return 0, nil
	}
	// torn variant for crash enumeration: a prefix of this write reached the OS
	if f.fs.capture && f.fs.armed && f.fs.tornPct > 0 && len(p) > 1 {
		k := len(p) * f.fs.tornPct / 100
		if k <= 0 {
			k = 1
		}
		if k < len(p) {
			save := append([]byte(nil), f.ino.data...)
			spos := f.pos
			apply(p[:k])
			f.fs.mutated(rec, true)
			f.ino.data = save
			f.pos = spos
		}
	}
	apply(p)
	f.fs.mutated(rec, false)
	return len(p), nil
}

func (f *memFile) Seek(off int64, whence int) (int64, error) {
	f.fs.mu.Lock()
	defer f.fs.mu.Unlock()
	if f.closed {
		return 0, os.ErrClosed
	}
	if _, fail := f.fs.begin("seek", f.path, 0); fail {
		return 0, &os.PathError{Op: "seek", Path: f.path, Err: errInjected}
	}
	switch whence {
	case io.SeekStart:
		f.pos = off
	case io.SeekCurrent:
		f.pos += off
	case io.SeekEnd:
		f.pos = int64(len(f.ino.data)) + off
	}
	return f.pos, nil
}

func (f *memFile) Sync() error {
	f.fs.mu.Lock()
	defer f.fs.mu.Unlock()
	if f.closed {
		return os.ErrClosed
	}
	if _, fail := f.fs.begin("sync", f.path, 0); fail {
		return &os.PathError{Op: "sync", Path: f.path, Err: errInjected}
	}
	return nil
}

func (f *memFile) Close() error {
	f.fs.mu.Lock()
	defer f.fs.mu.Unlock()
	if f.closed {
		return os.ErrClosed
	}
	_, fail := f.fs.begin("close", f.path, 0)
	f.closed = true // like close(2): the descriptor is gone even when it reports an error
	if fail {
		return &os.PathError{Op: "close", Path: f.path, Err: errInjected}
	}
	return nil
}

type memInfo struct {
	name string
	size int64
}

func (i memInfo) Name() string       { return i.name }
func (i memInfo) Size() int64        { return i.size }
func (i memInfo) Mode() os.FileMode  { return 0o644 }
func (i memInfo) ModTime() time.Time { return time.Time{} }
func (i memInfo) IsDir() bool        { return false }
func (i memInfo) Sys() any           { return nil }

func (f *memFile) Stat() (os.FileInfo, error) {
	f.fs.mu.Lock()
	defer f.fs.mu.Unlock()
	if f.closed {
		return nil, os.ErrClosed
	}
	if _, fail := f.fs.begin("stat", f.path, 0); fail {
		return nil, &os.PathError{Op: "stat", Path: f.path, Err: errInjected}
	}
	return memInfo{name: f.path, size: int64(len(f.ino.data))}, nil
}

// fakeClock is the harness clock behind snapshot.go's time calls.
type fakeClock struct {
	mu     sync.Mutex
	now    time.Time
	tick   chan time.Time // unbuffered: a completed send proves the stream goroutine was in its select
	timers []fakeTimer    // pending After() timers: they fire when the owned clock is advanced past them
}

type fakeTimer struct {
	at time.Time
	ch chan time.Time
}

func newFakeClock() *fakeClock {
	return &fakeClock{now: time.Unix(1_700_000_000, 0), tick: make(chan time.Time)}
}

func (c *fakeClock) Now() time.Time {
	c.mu.Lock()
	defer c.mu.Unlock()
	return c.now
}
func (c *fakeClock) Since(t time.Time) time.Duration { return c.Now().Sub(t) }
func (c *fakeClock) Advance(d time.Duration) {
	c.mu.Lock()
	c.now = c.now.Add(d)
	var keep []fakeTimer
	for _, t := range c.timers {
		if !t.at.After(c.now) {
			t.ch <- c.now // buffered 1
		} else {
			keep = append(keep, t)
		}
	}
	c.timers = keep
	c.mu.Unlock()
}
func (c *fakeClock) NewTicker(time.Duration) *serf.VerifTicker {
	return serf.VerifNewTicker(c.tick, func() {})
}
func (c *fakeClock) After(d time.Duration) <-chan time.Time {
	c.mu.Lock()
	defer c.mu.Unlock()
	ch := make(chan time.Time, 1)
	if d <= 0 {
		ch <- c.now
		return ch
	}
	c.timers = append(c.timers, fakeTimer{at: c.now.Add(d), ch: ch})
	return ch
}

func (r opRec) String() string { return fmt.Sprintf("#%d %s %s len=%d err=%v", r.N, r.Kind, r.Path, r.Len, r.Err) }

func (fs *memFS) snapshotFilesLocked() map[string]string {
	fs.mu.Lock()
	defer fs.mu.Unlock()
	return fs.snapshotFiles()
}

var (
	cpMu    sync.Mutex
	cpTotal int
)

func (fs *memFS) countKind(kind string) int {
	fs.mu.Lock()
	defer fs.mu.Unlock()
	n := 0
	for _, o := range fs.log {
		if o.Kind == kind && !o.Err {
			n++
		}
	}
	return n
}
