//go:build verif && verifoverlay

package snap

import (
	"fmt"
	"testing"

	"pgregory.net/rapid"

	"verif/internal/vkit"
)

// C12 — snapshot I/O failures never crash the node and recording resumes.
//
// For a generated history the fault-free run tells how many fallible
// file-system operations n it performs once the snapshotter is running; then
// EVERY k < n is one sub-case: operation k fails once (writes: with 0 or some
// bytes applied), everything after succeeds. After the history the harness
// applies further membership and clock changes right away (the owned clock is
// not advanced), shuts down cleanly and restarts.
// Oracle: the process survives (crash oracle of the driver), every event is
// still forwarded, and the restart reflects every change made after the fault
// window: the members touched afterwards have the model's aliveness and the
// three clocks (all advanced afterwards) have the model's final values.

const tailMember = "zz-after-fault"

func genC12(t *rapid.T) snapCase {
	c := snapCase{
		MinCompact: rapid.SampledFrom([]int{0, 0, 64, 200, 400, 1000}).Draw(t, "mincompact"),
		TornPct:    rapid.SampledFrom([]int{0, 0, 40, 90}).Draw(t, "partial"), // bytes of a failing write that still reach the file (%)
	}
	c.Names = genNames(t, false)
	c.Ops = genOps(t, 25, map[int]int{opJoin: 6, opLeave: 2, opFailed: 2, opUpdate: 1, opReap: 1, opUser: 2,
		opQuery: 2, opWitness: 2, opTick: 1, opAdvance: 2})
	// NoTail: no fixed epilogue of changes after the history. The fixed epilogue
	// starts with a member join and contains clock ticks, each of which by itself
	// gives the snapshotter a fresh occasion to notice the damage and repair the
	// whole file; without it, what the rest of the generated history does after
	// the fault (possibly only user events, or only a clock witness picked up at
	// shutdown) is all there is.
	c.NoTail = rapid.Bool().Draw(t, "no-tail")
	// one-kind endings: after some point the history makes only one kind of
	// change (only user events and queries with rising times; only clock
	// witnesses and ticks; only member events), so that for the faults near that
	// point "the later changes" are of that one kind and nothing else comes to
	// the rescue
	if cls := rapid.IntRange(0, 4).Draw(t, "ending"); cls >= 1 && cls <= 3 {
		var hi uint64 = 60
		for _, op := range c.Ops {
			if (op.K == opUser || op.K == opQuery || op.K == opWitness) && op.V > hi && op.V < 1<<62 {
				hi = op.V
			}
		}
		n := rapid.IntRange(1, 5).Draw(t, "ending-len")
		if rapid.Bool().Draw(t, "ending-after-advance") {
			c.Ops = append(c.Ops, hOp{K: opAdvance, V: 501})
		}
		for i := 0; i < n; i++ {
			hi += uint64(rapid.IntRange(1, 3).Draw(t, "rise"))
			switch cls {
			case 1:
				c.Ops = append(c.Ops, hOp{K: rapid.SampledFrom([]int{opUser, opQuery}).Draw(t, "uq"), V: hi})
			case 2:
				c.Ops = append(c.Ops, hOp{K: rapid.SampledFrom([]int{opWitness, opWitness, opTick}).Draw(t, "wt"), V: hi})
			case 3:
				c.Ops = append(c.Ops, hOp{K: rapid.SampledFrom([]int{opJoin, opJoin, opFailed, opLeave}).Draw(t, "mem"),
					M: rapid.IntRange(0, 7).Draw(t, "m"), A: rapid.IntRange(0, numAddrVariants-1).Draw(t, "a")})
			}
		}
	}
	return c
}

type c12Result struct {
	ops       int
	failed    *opRec
	inCompact bool
	// history steps (incl. epilogue) that came after the step the fault hit
	judgedAfter int
}

// runC12 runs the history with operation failAt failing (-1: none). It
// returns false if a violation or an inconclusive condition was recorded.
func runC12(c *snapCase, failAt int, x *vkit.Ctx) (c12Result, bool) {
	var res c12Result
	cc := *c
	cc.Names = append(append([]string{}, c.Names...), tailMember)
	r, err := newSnapRun(&cc)
	if err != nil {
		x.Inconclusive("setup: " + err.Error())
		return res, false
	}
	defer r.cleanup()
	if err := r.openSnap(); err != nil {
		x.Inconclusive("open: " + err.Error())
		return res, false
	}
	r.fs.mu.Lock()
	r.fs.armed = true
	r.fs.failAt = failAt
	r.fs.tornPct = c.TornPct
	r.fs.mu.Unlock()
	desc := func() string {
		if r.fs.failed != nil {
			return fmt.Sprintf("fault at fs op %d (%s)", failAt, *r.fs.failed)
		}
		return fmt.Sprintf("fault index %d (not reached yet)", failAt)
	}
	for _, op := range c.Ops {
		op.M = op.M % len(c.Names) // never the tail member
		if !r.apply(op) {
			x.Violationf("event-not-forwarded", "%s: step %d (%s): event not forwarded on the output channel", desc(), r.step, opNames[op.K])
			return res, false
		}
		if r.problem != "" {
			x.Inconclusive(r.problem)
			return res, false
		}
	}
	r.fs.mu.Lock()
	res.ops = r.fs.opN
	r.fs.armed = false // the fault window is over: no further injection
	if r.fs.failed != nil {
		f := *r.fs.failed
		res.failed = &f
		// was the failing op part of a compaction? (.compact involved, or a rename/remove, or the reopen after the rename)
		for i := f.N; i >= 0 && i > f.N-40; i-- {
			o := r.fs.log[i]
			if o.Kind == "open" && o.Path == r.path+".compact" {
				res.inCompact = true
				break
			}
			if o.Kind == "open" && o.Path == r.path && i != f.N {
				break
			}
		}
	}
	r.fs.mu.Unlock()
	if failAt >= 0 && res.failed == nil {
		return res, true // index beyond this run's operations
	}

	// --- after the fault has cleared: let the recovery interval pass, then change things
	failStep := r.step // without a fault: nothing to judge but the tail
	if res.failed != nil {
		failStep = r.fs.failedStep
	}
	// No waiting: with a single transient fault the snapshotter's own recovery
	// (the compaction tryAppend attempts on the first failing append) succeeds at
	// once, so the very next changes have to be recorded; the 30 s interval only
	// spaces out *repeated* recovery attempts. The owned clock is therefore NOT
	// advanced here (an earlier version of this check advanced it by 31 s first
	// and so forgave a recovery gate that was wrongly closed).
	tail := []hOp{
		{K: opJoin, M: len(cc.Names) - 1, A: 2},
		{K: opWitness, V: uint64(r.lc.Time()) + 5},
		{K: opUser, V: r.maxEvent + 3},
		{K: opQuery, V: r.maxQuery + 4},
		{K: opTick},
		{K: opLeave, M: 0},
		{K: opJoin, M: 0, A: 1},
		{K: opUser, V: r.maxEvent + 7},
		{K: opTick},
	}
	if c.NoTail {
		tail = nil
	}
	for _, op := range tail {
		if !r.apply(op) {
			x.Violationf("event-not-forwarded", "%s: tail step %d (%s): event not forwarded", desc(), r.step, opNames[op.K])
			return res, false
		}
		if r.problem != "" {
			x.Inconclusive(r.problem)
			return res, false
		}
	}
	r.closeSnap()
	if err := r.openSnap(); err != nil {
		x.Violationf("restart-fails-after-fault", "%s: restart after the fault window fails: %v", desc(), err)
		return res, false
	}
	rec := readSnapshotter(r.snap)
	// "Once the fault has cleared, later membership and clock changes are recorded
	// again": the fault is one operation failing once, it has cleared when the
	// history step it hit is over. Every change made in a LATER step (the rest of
	// the generated history and the epilogue) has to show after the restart.
	for name, st := range r.lastEvtStep {
		if st <= failStep {
			continue
		}
		wantAddr, wantAlive := r.alive[name]
		gotAddr, gotAlive := rec.Alive[name]
		if wantAlive != gotAlive || wantAddr != gotAddr {
			x.Violationf("change-after-fault-not-recorded", "%s in history step %d: member %q changed after that, in step %d (alive=%v %s), but the restart sees alive=%v %s; files: %q",
				desc(), failStep, name, st, wantAlive, wantAddr, gotAlive, gotAddr, r.fs.snapshotFilesLocked())
			return res, false
		}
	}
	type clk struct {
		what      string
		adv       int
		want, got uint64
	}
	for _, k := range []clk{
		{"member clock", r.clockAdvStep, uint64(r.lc.Time()) - 1, rec.Clock},
		{"event clock", r.eventAdvStep, r.maxEvent, rec.Event},
		{"query clock", r.queryAdvStep, r.maxQuery, rec.Query},
	} {
		if k.adv > failStep && k.got != k.want {
			x.Violationf("clock-after-fault-not-recorded", "%s in history step %d: the %s last advanced after that, in step %d, to %d, but the restart sees %d; files: %q",
				desc(), failStep, k.what, k.adv, k.want, k.got, r.fs.snapshotFilesLocked())
			return res, false
		}
	}
	if !c.NoTail && (rec.Clock != uint64(r.lc.Time())-1 || rec.Event != r.maxEvent || rec.Query != r.maxQuery) {
		x.Violationf("clock-after-fault-not-recorded", "%s: clocks advanced after the fault window to (%d,%d,%d) but the restart sees (%d,%d,%d); files: %q",
			desc(), uint64(r.lc.Time())-1, r.maxEvent, r.maxQuery, rec.Clock, rec.Event, rec.Query, r.fs.snapshotFilesLocked())
		return res, false
	}
	if res.failed != nil {
		res.judgedAfter = r.step - failStep
	}
	return res, true
}

func bodyC12(c snapCase, x *vkit.Ctx) {
	base, ok := runC12(&c, -1, x)
	if !ok {
		return
	}
	nt := 0
	kinds := map[string]int{}
	for k := 0; k < base.ops; k++ {
		cc := c
		res, ok := runC12(&cc, k, x)
		if !ok {
			return
		}
		if res.failed != nil {
			kinds[res.failed.Kind]++
			if res.inCompact {
				nt++
				kinds["in-compaction"]++
			}
			if c.NoTail {
				switch {
				case res.judgedAfter == 0:
					kinds["no-tail:nothing-after"]++
				case res.judgedAfter <= 3:
					kinds["no-tail:1-3-steps-after"]++
				default:
					kinds["no-tail:4+-steps-after"]++
				}
			}
		}
	}
	for k, n := range kinds {
		for i := 0; i < n; i++ {
			x.Label("fault:" + k)
		}
	}
	x.NonTrivial(nt > 0)
	x.Sample(map[string]any{"case": c, "fault_points_enumerated": base.ops, "faults_inside_compaction": nt})
}

func TestC12(t *testing.T) {
	vkit.Run(t, "C12", genC12, func(c snapCase, x *vkit.Ctx) {
		// a failing write applies failPartial bytes first
		bodyC12(c, x)
	})
}
