//go:build verif

package pure

import (
	"fmt"
	"reflect"
	"runtime"
	"sort"
	"sync"
	"testing"
	"time"

	"github.com/hashicorp/serf/serf"
	"pgregory.net/rapid"

	"verif/internal/vkit"
)

// C18 — user event coalescing keeps exactly the newest events per name.
//
// A case is a sequence of steps: a user event (name, Lamport time, coalesce
// flag), a member event, a query, or a flush point.  Two layers run on every
// case:
//
//	direct: the real userEventCoalescer is driven with Handle/Coalesce/Flush
//	        exactly as coalesceLoop does, every flush is compared with a
//	        reference model written from the statement;
//	loop:   the real coalesceLoop (serf.VerifCoalescedEventCh) runs one
//	        instance per quantum on ONE shared real coalescer (so carry-over
//	        between quanta goes through the real Flush); a thin recording
//	        wrapper around the real coalescer notes len(outCh) at every Handle
//	        and at Flush entry, which decides "pass-through events are not held
//	        back" from ordering alone, without any timing assumption;
//	small:  the same loop against an output channel of capacity 0-2 with a
//	        lazy consumer: a full output channel must not make the loop lose,
//	        reorder or defer anything.
//
// Lamport times are a small range shifted to a boundary of the 64-bit clock in
// some cases; names include "", case variants and a trailing space.
//
// Most events carry their step index as payload, so identity, order and
// "unchanged" are all decidable; some share one of two payloads, so that tied
// events with byte-equal payloads occur too (compared as values, in order).

type c18Step struct {
	Kind     int  `json:"k"` // 0 user event, 1 member event, 2 query, 3 flush
	Name     int  `json:"n"`
	LTime    int  `json:"lt"`
	Coalesce bool `json:"c"`
	// Pay > 0: the payload is one of two shared values instead of the step
	// index, so that distinct events with byte-equal payloads occur (events are
	// then compared as values, in order and with multiplicity); 3: nil payload,
	// 4: empty non-nil payload ("unchanged" includes that difference)
	Pay int `json:"p,omitempty"`
}

type c18Case struct {
	Steps []c18Step `json:"steps"`
	// Base is added to every Lamport time: the small range of the steps then
	// straddles a boundary of the 64-bit clock (2^31, 2^32, 2^63, the maximum)
	Base uint64 `json:"base,omitempty"`
	// NameSet 1: the names are "", "a", "A", "a " instead of ev0..ev3
	NameSet int `json:"nameset,omitempty"`
	// Small > 0: a third layer runs the real loop with an output channel of
	// capacity Small-1 and a consumer that yields Lazy times between two reads,
	// so that the loop finds its output channel full
	Small int `json:"small,omitempty"`
	Lazy  int `json:"lazy,omitempty"`
}

var c18Bases = []uint64{0, 0, 0, 1<<31 - 3, 1<<32 - 3, 1<<63 - 3, 1<<64 - 7}

var c18Names = [][]string{{"ev0", "ev1", "ev2", "ev3"}, {"", "a", "A", "a "}}

func genC18(t *rapid.T) c18Case {
	n := rapid.IntRange(1, 40).Draw(t, "n")
	names := rapid.IntRange(2, 4).Draw(t, "names")
	maxLT := rapid.SampledFrom([]int{1, 2, 3, 3, 6}).Draw(t, "maxlt")
	var c c18Case
	c.Base = rapid.SampledFrom(c18Bases).Draw(t, "base")
	c.NameSet = rapid.SampledFrom([]int{0, 0, 1}).Draw(t, "nameset")
	c.Small = rapid.SampledFrom([]int{0, 1, 2, 3}).Draw(t, "small")
	if c.Small > 0 {
		c.Lazy = rapid.SampledFrom([]int{0, 1, 4}).Draw(t, "lazy")
	}
	for i := 0; i < n; i++ {
		k := rapid.SampledFrom([]int{0, 0, 0, 0, 0, 0, 0, 1, 2, 3, 3}).Draw(t, "kind")
		st := c18Step{Kind: k}
		if k != 3 {
			st.Name = rapid.IntRange(0, names-1).Draw(t, "name")
			st.LTime = rapid.IntRange(0, maxLT).Draw(t, "lt")
		}
		if k == 0 {
			st.Coalesce = rapid.IntRange(0, 5).Draw(t, "co") != 0
			st.Pay = rapid.SampledFrom([]int{0, 0, 0, 1, 1, 2, 0, 3, 4}).Draw(t, "pay")
		}
		c.Steps = append(c.Steps, st)
	}
	c.Steps = append(c.Steps, c18Step{Kind: 3})
	return c
}

func c18Event(c c18Case, i int, st c18Step) serf.Event {
	pl := []byte(fmt.Sprintf("%04d", i))
	switch {
	case st.Pay == 3:
		pl = nil
	case st.Pay == 4:
		pl = []byte{}
	case st.Pay > 0:
		pl = []byte(fmt.Sprintf("shared-%d", st.Pay))
	}
	name := fmt.Sprintf("ev%d", st.Name)
	if set := c18Names[c.NameSet]; st.Name >= 0 && st.Name < len(set) {
		name = set[st.Name]
	}
	lt := serf.LamportTime(c.Base + uint64(st.LTime))
	switch st.Kind {
	case 0:
		return serf.UserEvent{LTime: lt, Name: name, Payload: pl, Coalesce: st.Coalesce}
	case 1:
		return serf.MemberEvent{Type: serf.EventMemberJoin, Members: []serf.Member{{Name: name, Tags: map[string]string{"i": fmt.Sprint(i)}}}}
	default:
		// same names as the user events on purpose: a query must not be
		// mistaken for a user event of that name
		return &serf.Query{LTime: lt, Name: name, Payload: pl}
	}
}

// c18Quantum is the reference model of one quantum.
type c18Quantum struct {
	coalescable map[string][]serf.Event // per name, arrival order
	pass        []serf.Event            // pass-through events, arrival order
}

func newC18Quantum() *c18Quantum { return &c18Quantum{coalescable: map[string][]serf.Event{}} }

// want: per name the sub-sequence with maximal LTime, arrival order.
func (q *c18Quantum) want() (map[string][]serf.Event, bool) {
	out := map[string][]serf.Event{}
	nt := false
	for name, evs := range q.coalescable {
		var mx serf.LamportTime
		for _, e := range evs {
			if lt := e.(serf.UserEvent).LTime; lt > mx {
				mx = lt
			}
		}
		older := 0
		for _, e := range evs {
			if e.(serf.UserEvent).LTime == mx {
				out[name] = append(out[name], e)
			} else {
				older++
			}
		}
		if len(out[name]) >= 2 && older >= 1 {
			nt = true
		}
	}
	return out, nt
}

// c18CompareFlush compares one flush output with the model. Order between
// names is not specified (and not checked); order within a name is.
func c18CompareFlush(x *vkit.Ctx, layer string, fl int, got []serf.Event, want map[string][]serf.Event) bool {
	gotBy := map[string][]serf.Event{}
	for _, e := range got {
		ue, ok := e.(serf.UserEvent)
		if !ok {
			x.Violationf(layer+"-flush-non-user", "flush #%d emitted a %T", fl, e)
			return false
		}
		gotBy[ue.Name] = append(gotBy[ue.Name], e)
	}
	names := map[string]bool{}
	for n := range gotBy {
		names[n] = true
	}
	for n := range want {
		names[n] = true
	}
	var ns []string
	for n := range names {
		ns = append(ns, n)
	}
	sort.Strings(ns)
	for _, n := range ns {
		g, w := gotBy[n], want[n]
		if reflect.DeepEqual(g, w) {
			continue
		}
		sig := "flush-differs"
		switch {
		case len(w) == 0:
			sig = "carried-over-or-spurious"
		case len(g) == 0:
			sig = "name-missing"
		case len(g) < len(w):
			sig = "tie-dropped"
		case len(g) > len(w):
			sig = "older-or-duplicate-emitted"
		}
		x.Violationf(layer+"-"+sig, "flush #%d name %s: got %s, want %s", fl, n, c18Show(g), c18Show(w))
		return false
	}
	return true
}

func c18Show(evs []serf.Event) string {
	s := "["
	for i, e := range evs {
		if i > 0 {
			s += " "
		}
		switch v := e.(type) {
		case serf.UserEvent:
			s += fmt.Sprintf("%s@%d#%s/c=%v", v.Name, v.LTime, v.Payload, v.Coalesce)
		default:
			s += fmt.Sprintf("%T", e)
		}
	}
	return s + "]"
}

// c18Rec wraps the real coalescer for the loop layer: pure delegation plus
// observations taken on the loop's own goroutine.
type c18Rec struct {
	inner serf.VerifCoalescer
	out   chan serf.Event

	mu          sync.Mutex
	lenAtHandle []int // len(out) when the k-th Handle call was made
	lenAtFlush  int
	handled     chan struct{}
	flushed     chan struct{}
}

func (r *c18Rec) Handle(e serf.Event) bool {
	r.mu.Lock()
	r.lenAtHandle = append(r.lenAtHandle, len(r.out))
	r.mu.Unlock()
	ok := r.inner.Handle(e)
	r.handled <- struct{}{}
	return ok
}
func (r *c18Rec) Coalesce(e serf.Event) { r.inner.Coalesce(e) }
func (r *c18Rec) Flush(out chan<- serf.Event) {
	r.mu.Lock()
	r.lenAtFlush = len(r.out)
	r.mu.Unlock()
	r.inner.Flush(out)
	r.flushed <- struct{}{}
}

func bodyC18(c c18Case, x *vkit.Ctx) {
	if c.NameSet < 0 || c.NameSet >= len(c18Names) || c.Small < 0 || c.Small > 64 || c.Lazy < 0 || c.Lazy > 64 {
		x.Inconclusive("malformed case")
		return
	}
	for _, st := range c.Steps {
		if st.LTime < 0 || uint64(st.LTime) > ^uint64(0)-c.Base {
			x.Inconclusive("malformed case: Lamport time out of range")
			return
		}
	}
	// ---------- split into quanta, build events once (shared by both layers)
	type quantum struct {
		evs   []serf.Event
		model *c18Quantum
	}
	var quanta []quantum
	cur := quantum{model: newC18Quantum()}
	nUser, nPassUser, nOther := 0, 0, 0
	sameNameMixed := false
	seenCo, seenNon := map[string]bool{}, map[string]bool{}
	for i, st := range c.Steps {
		if st.Kind == 3 {
			quanta = append(quanta, cur)
			cur = quantum{model: newC18Quantum()}
			continue
		}
		e := c18Event(c, i, st)
		cur.evs = append(cur.evs, e)
		if ue, ok := e.(serf.UserEvent); ok && ue.Coalesce {
			cur.model.coalescable[ue.Name] = append(cur.model.coalescable[ue.Name], e)
			nUser++
			seenCo[ue.Name] = true
		} else {
			cur.model.pass = append(cur.model.pass, e)
			if ok {
				nPassUser++
				seenNon[ue.Name] = true
			} else {
				nOther++
			}
		}
	}
	for n := range seenCo {
		if seenNon[n] {
			sameNameMixed = true
		}
	}

	// ---------- layer 1: direct drive of the real coalescer
	co := serf.VerifNewUserCoalescer()
	nt, ties, dropped, emptyFlush := false, false, false, 0
	for qi, q := range quanta {
		for _, e := range q.evs {
			handled := co.Handle(e)
			ue, isUser := e.(serf.UserEvent)
			wantHandled := isUser && ue.Coalesce
			if handled != wantHandled {
				if handled {
					x.Violationf("direct-held-back", "quantum %d: Handle accepted %s which must pass through", qi, c18Show([]serf.Event{e}))
				} else {
					x.Violationf("direct-not-coalesced", "quantum %d: Handle refused coalescable %s", qi, c18Show([]serf.Event{e}))
				}
				return
			}
			if handled {
				co.Coalesce(e)
			}
		}
		out := make(chan serf.Event, len(c.Steps)+1)
		co.Flush(out)
		close(out)
		var got []serf.Event
		for e := range out {
			got = append(got, e)
		}
		want, qnt := q.model.want()
		if qnt {
			nt = true
		}
		for n, w := range want {
			if len(w) >= 2 {
				ties = true
			}
			if len(w) < len(q.model.coalescable[n]) {
				dropped = true
			}
		}
		if len(want) == 0 {
			emptyFlush++
		}
		if !c18CompareFlush(x, "direct", qi+1, got, want) {
			return
		}
	}

	// ---------- layer 2: the real loop, one instance per quantum, shared coalescer
	shared := serf.VerifNewUserCoalescer()
	for qi, q := range quanta {
		out := make(chan serf.Event, len(c.Steps)+4)
		rec := &c18Rec{inner: shared, out: out, handled: make(chan struct{}, len(q.evs)+1), flushed: make(chan struct{}, 4)}
		shutdown := make(chan struct{})
		in := serf.VerifCoalescedEventCh(out, shutdown, time.Hour, time.Hour, rec)
		for _, e := range q.evs {
			in <- e
		}
		// wait until the loop has taken every event (closing shutdownCh
		// earlier would let select drop the tail, which is legitimate)
		deadline := time.After(20 * time.Second)
		for range q.evs {
			select {
			case <-rec.handled:
			case <-deadline:
				close(shutdown)
				x.Inconclusive("loop did not consume the events in 20s")
				return
			}
		}
		close(shutdown)
		select {
		case <-rec.flushed:
		case <-deadline:
			x.Inconclusive("loop did not flush on shutdown in 20s")
			return
		}
		var all []serf.Event
	drain:
		for {
			select {
			case e := <-out:
				all = append(all, e)
			default:
				break drain
			}
		}
		rec.mu.Lock()
		lens, lenFlush := rec.lenAtHandle, rec.lenAtFlush
		rec.mu.Unlock()
		// not held back: when the loop asks about event k, every earlier
		// pass-through event is already on the output; at flush entry all are
		passBefore := 0
		for k, e := range q.evs {
			if k < len(lens) && lens[k] != passBefore {
				x.Violationf("loop-passthrough-held-back", "quantum %d: when event %d was taken, %d events were on the output, %d pass-through events had been taken before it", qi, k, lens[k], passBefore)
				return
			}
			if ue, ok := e.(serf.UserEvent); !(ok && ue.Coalesce) {
				passBefore++
			}
		}
		if lenFlush != len(q.model.pass) {
			x.Violationf("loop-passthrough-held-back", "quantum %d: at flush entry %d events were on the output, want the %d pass-through events", qi, lenFlush, len(q.model.pass))
			return
		}
		if len(all) < lenFlush {
			x.Violationf("loop-output-lost", "quantum %d: %d events on the output after flush, %d before", qi, len(all), lenFlush)
			return
		}
		passGot, flushGot := all[:lenFlush], all[lenFlush:]
		if len(passGot) != len(q.model.pass) {
			x.Violationf("loop-passthrough-count", "quantum %d: %d pass-through events, want %d", qi, len(passGot), len(q.model.pass))
			return
		}
		for i := range passGot {
			same := reflect.DeepEqual(passGot[i], q.model.pass[i])
			if pq, ok := q.model.pass[i].(*serf.Query); ok {
				same = passGot[i] == serf.Event(pq) // the very same query object
			}
			if !same {
				x.Violationf("loop-passthrough-changed", "quantum %d: pass-through event %d is %#v, want %#v", qi, i, passGot[i], q.model.pass[i])
				return
			}
		}
		want, _ := q.model.want()
		if !c18CompareFlush(x, "loop", qi+1, flushGot, want) {
			return
		}
	}

	// ---------- layer 3: the real loop against a small output channel
	// The loop must neither lose, reorder nor defer anything when its output
	// channel is full: pass-through events come out in arrival order, all of
	// them before the quantum's flush output. Everything the loop goroutine
	// sent has been received (or sits in the channel) once Flush returned, so
	// the final drain is exact on a loop that sends from its own goroutine.
	if c.Small > 0 {
		shared3 := serf.VerifNewUserCoalescer()
		for qi, q := range quanta {
			out := make(chan serf.Event, c.Small-1)
			rec := &c18Rec{inner: shared3, out: out, handled: make(chan struct{}, len(q.evs)+1), flushed: make(chan struct{}, 4)}
			shutdown := make(chan struct{})
			stop := make(chan struct{})
			done := make(chan []serf.Event, 1)
			go func() {
				var got []serf.Event
				for {
					select {
					case e := <-out:
						got = append(got, e)
						for i := 0; i < c.Lazy; i++ {
							runtime.Gosched()
						}
					case <-stop:
						for {
							select {
							case e := <-out:
								got = append(got, e)
							default:
								done <- got
								return
							}
						}
					}
				}
			}()
			in := serf.VerifCoalescedEventCh(out, shutdown, time.Hour, time.Hour, rec)
			for _, e := range q.evs {
				in <- e
			}
			deadline := time.After(20 * time.Second)
			starved := false
			for range q.evs {
				select {
				case <-rec.handled:
				case <-deadline:
					starved = true
				}
			}
			close(shutdown)
			if !starved {
				select {
				case <-rec.flushed:
				case <-deadline:
					starved = true
				}
			}
			close(stop)
			all := <-done
			if starved {
				go func() { // keep reading so that a blocked loop can end
					for range out {
					}
				}()
				x.Inconclusive("small-channel loop did not finish in 20s")
				return
			}
			want, _ := q.model.want()
			nFlush := 0
			for _, w := range want {
				nFlush += len(w)
			}
			if len(all) != len(q.model.pass)+nFlush {
				x.Violationf("smallch-output-count", "quantum %d (output channel capacity %d): %d events came out by the time Flush had returned, want %d pass-through + %d flushed", qi, c.Small-1, len(all), len(q.model.pass), nFlush)
				return
			}
			passGot, flushGot := all[:len(q.model.pass)], all[len(q.model.pass):]
			for i := range passGot {
				same := reflect.DeepEqual(passGot[i], q.model.pass[i])
				if pq, ok := q.model.pass[i].(*serf.Query); ok {
					same = passGot[i] == serf.Event(pq)
				}
				if !same {
					x.Violationf("smallch-passthrough-order", "quantum %d (output channel capacity %d): output position %d is %#v, want pass-through event %#v (pass-through events keep their order and precede the flush)", qi, c.Small-1, i, passGot[i], q.model.pass[i])
					return
				}
			}
			if !c18CompareFlush(x, "smallch", qi+1, flushGot, want) {
				return
			}
		}
		x.Labelf("small-output-channel=%d", c.Small-1)
	}

	x.Labelf("quanta=%d", min(len(quanta), 6))
	if c.Base != 0 {
		x.Label("lamport-times-at-a-64-bit-boundary")
	}
	if c.NameSet != 0 {
		x.Label("names:empty/case/trailing-space")
	}
	if ties {
		x.Label("ties-at-max")
	}
	if dropped {
		x.Label("older-dropped")
	}
	if nt {
		x.Label("ties+older-same-quantum")
	}
	if emptyFlush > 0 && len(quanta) > emptyFlush {
		x.Label("empty-and-nonempty-quanta")
	}
	if nPassUser > 0 {
		x.Label("non-coalesce-user-event")
	}
	if sameNameMixed {
		x.Label("same-name-coalesce-and-not")
	}
	if nOther > 0 {
		x.Label("member-or-query")
	}
	if nUser == 0 {
		x.Label("no-coalescable-event")
	}
	x.NonTrivial(nt)
}

func TestC18(t *testing.T) { vkit.Run(t, "C18", genC18, bodyC18) }
