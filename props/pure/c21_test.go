//go:build verif

package pure

import (
	"math"
	"math/big"
	"testing"
	"time"

	"github.com/hashicorp/serf/coordinate"
	"pgregory.net/rapid"

	"verif/internal/vkit"
)

// C21 — round-trip time estimates follow the documented formula.
//
// A case is a pair of valid coordinates. The reference is the formula of
// docs/internals/coordinates.html.markdown evaluated in 256-bit big floats:
//
//	d = |Δvec| + h1 + h2 ;  result = d + a1 + a2 if that is > 0, else d
//
// compared in nanoseconds with tolerance 2 ns + 1e-12 relative. The guard
// `adjusted > 0` is a discontinuity: when the exact adjusted value is within
// rounding distance of zero (1 ns + 1e-12 of the operand magnitudes) float64
// may legitimately take either branch, so both are accepted there (label
// "guard-ambiguous"); symmetry is asserted everywhere, the branch has to be
// the same in both directions.
//
// For pairs of dimension >= 1 the same estimate is also asked through a
// coordinate.Client placed at one point (SetCoordinate, Client.DistanceTo).

type c21Coord struct {
	Vec    []float64 `json:"vec"`
	Height float64   `json:"h"`
	Adj    float64   `json:"adj"`
	Err    float64   `json:"err"`
}

type c21Case struct {
	A c21Coord `json:"a"`
	B c21Coord `json:"b"`
}

// c21Mag draws 0 or a log-uniform magnitude in [1e-9, 1e4].
func c21Mag(t *rapid.T, label string) float64 {
	switch rapid.IntRange(0, 9).Draw(t, label+"cls") {
	case 0:
		return 0
	case 1:
		return 1e4
	}
	e := rapid.Float64Range(-9, 4).Draw(t, label+"exp")
	return math.Min(math.Pow(10, e), 1e4)
}

func c21Signed(t *rapid.T, label string) float64 {
	m := c21Mag(t, label)
	if rapid.Bool().Draw(t, label+"neg") {
		return -m
	}
	return m
}

func c21FloatDist(a, b c21Coord) float64 {
	s := 0.0
	for i := range a.Vec {
		if i < len(b.Vec) {
			d := a.Vec[i] - b.Vec[i]
			s += d * d
		}
	}
	return math.Sqrt(s) + a.Height + b.Height
}

func genC21(t *rapid.T) c21Case {
	dim := rapid.SampledFrom([]int{1, 2, 3, 4, 5, 6, 7, 8, 9, 10, 11, 12, 13, 14, 15, 16, 0}).Draw(t, "dim")
	dimB := dim
	shape := rapid.IntRange(0, 19).Draw(t, "shape") // 0,1 mismatched dims; 2,3 equal points; 4 near points
	if shape <= 1 {
		dimB = rapid.IntRange(0, 16).Draw(t, "dimB")
		if dimB == dim {
			dimB = dim + 1
		}
	}
	var c c21Case
	// a per-case scale makes "all small" and "all large" pairs common, the
	// per-component draw makes mixed magnitudes common
	mixed := rapid.Bool().Draw(t, "mixed")
	scale := math.Pow(10, rapid.Float64Range(-9, 4).Draw(t, "scale"))
	comp := func(label string) float64 {
		if mixed {
			return c21Signed(t, label)
		}
		v := scale * rapid.Float64Range(-1, 1).Draw(t, label+"u")
		return math.Max(-1e4, math.Min(1e4, v))
	}
	for i := 0; i < dim; i++ {
		c.A.Vec = append(c.A.Vec, comp("a"))
	}
	for i := 0; i < dimB; i++ {
		switch {
		case (shape == 2 || shape == 3) && i < dim:
			c.B.Vec = append(c.B.Vec, c.A.Vec[i])
		case shape == 4 && i < dim:
			c.B.Vec = append(c.B.Vec, math.Max(-1e4, math.Min(1e4, c.A.Vec[i]+c21Signed(t, "near")*1e-9)))
		default:
			c.B.Vec = append(c.B.Vec, comp("b"))
		}
	}
	if c.A.Vec == nil {
		c.A.Vec = []float64{}
	}
	if c.B.Vec == nil {
		c.B.Vec = []float64{}
	}
	c.A.Height, c.B.Height = c21Mag(t, "ha"), c21Mag(t, "hb")
	c.A.Err = rapid.Float64Range(-10, 10).Draw(t, "ea")
	c.B.Err = rapid.Float64Range(-10, 10).Draw(t, "eb")
	adj := func(label string) float64 {
		switch rapid.IntRange(0, 5).Draw(t, label+"cls") {
		case 0:
			return 0
		case 1: // far below anything the distance can offset: only the guard matters
			return -math.Pow(10, rapid.Float64Range(4, 300).Draw(t, label+"big"))
		default:
			return c21Signed(t, label)
		}
	}
	c.A.Adj, c.B.Adj = adj("aa"), adj("ab")
	// guard-tuned class: a1 + a2 ≈ −d·f with f around 1 (f == 1 exactly is the cancellation point)
	if dimB == dim && rapid.IntRange(0, 2).Draw(t, "tune") == 0 {
		d := c21FloatDist(c.A, c.B)
		f := rapid.SampledFrom([]float64{1, 1, 0.9, 1.1, 0.99, 1.01, 1 - 1e-9, 1 + 1e-9, 1 - 1e-15, 1 + 1e-15, 0.5, 2}).Draw(t, "f")
		if rapid.Bool().Draw(t, "fcont") {
			f = rapid.Float64Range(0.85, 1.15).Draw(t, "fc")
		}
		other := c21Signed(t, "tuneother")
		if rapid.Bool().Draw(t, "tuneside") {
			c.A.Adj, c.B.Adj = -d*f-other, other
		} else {
			c.B.Adj, c.A.Adj = -d*f-other, other
		}
		if c.A.Adj > 1e4 {
			c.A.Adj = 1e4
		}
		if c.B.Adj > 1e4 {
			c.B.Adj = 1e4
		}
	}
	return c
}

func (c c21Coord) real() *coordinate.Coordinate {
	return &coordinate.Coordinate{Vec: append([]float64{}, c.Vec...), Error: c.Err, Adjustment: c.Adj, Height: c.Height}
}

const c21Prec = 256

func c21bf(f float64) *big.Float { return new(big.Float).SetPrec(c21Prec).SetFloat64(f) }

// c21Ref returns d and d+a1+a2 in seconds (exact up to 256-bit rounding).
func c21Ref(a, b c21Coord) (d, adjusted *big.Float) {
	sum := new(big.Float).SetPrec(c21Prec)
	for i := range a.Vec {
		df := new(big.Float).SetPrec(c21Prec).Sub(c21bf(a.Vec[i]), c21bf(b.Vec[i]))
		sum.Add(sum, df.Mul(df, df))
	}
	d = new(big.Float).SetPrec(c21Prec).Sqrt(sum)
	d.Add(d, c21bf(a.Height))
	d.Add(d, c21bf(b.Height))
	adjusted = new(big.Float).SetPrec(c21Prec).Add(d, c21bf(a.Adj))
	adjusted.Add(adjusted, c21bf(b.Adj))
	return
}

// c21Dist calls the real DistanceTo; a panic is returned as its value.
func c21Dist(a, b *coordinate.Coordinate) (d time.Duration, panicked any) {
	defer func() { panicked = recover() }()
	return a.DistanceTo(b), nil
}

func c21Within(gotNs int64, wantSec *big.Float) bool {
	wantNs, _ := new(big.Float).SetPrec(c21Prec).Mul(wantSec, c21bf(1e9)).Float64()
	// 2 ns cover the truncation to whole nanoseconds and every float64 rounding
	// in the domain (the largest value, 1e5 s = 1e14 ns, has an ulp of 0.016 ns;
	// the rounding of a 16-term sum of squares, its root and four additions
	// stays below 0.3 ns); the relative term is head-room, not an excuse
	return math.Abs(float64(gotNs)-wantNs) <= 2+1e-12*math.Abs(wantNs)
}

func bodyC21(c c21Case, x *vkit.Ctx) {
	// domain guard (replay files are hand-editable): valid, non-negative heights, realistic magnitudes
	for _, co := range []c21Coord{c.A, c.B} {
		ok := co.Height >= 0 && co.Height <= 1e4 && co.Adj <= 1e4 && !math.IsNaN(co.Adj) && !math.IsInf(co.Adj, 0) && !math.IsNaN(co.Err) && !math.IsInf(co.Err, 0)
		for _, v := range co.Vec {
			if !(math.Abs(v) <= 1e4) {
				ok = false
			}
		}
		if !ok {
			x.Inconclusive("case outside the stated domain")
			return
		}
	}
	a, b := c.A.real(), c.B.real()
	ab, pab := c21Dist(a, b)
	ba, pba := c21Dist(b, a)

	if len(c.A.Vec) != len(c.B.Vec) {
		x.Label("mismatched-dimensions")
		for _, p := range []any{pab, pba} {
			if p == nil {
				x.Violationf("mismatch-compared", "dimensions %d vs %d: DistanceTo returned a number (%v / %v) instead of a dimensionality error", len(c.A.Vec), len(c.B.Vec), ab, ba)
				return
			}
			if _, ok := p.(coordinate.DimensionalityConflictError); !ok {
				x.Violationf("mismatch-wrong-error", "dimensions %d vs %d: panic value %T (%v), want DimensionalityConflictError", len(c.A.Vec), len(c.B.Vec), p, p)
				return
			}
		}
		if a.IsCompatibleWith(b) || b.IsCompatibleWith(a) {
			x.Violationf("mismatch-compatible", "dimensions %d vs %d reported compatible", len(c.A.Vec), len(c.B.Vec))
		}
		return
	}
	if pab != nil || pba != nil {
		x.Violationf("panic-on-valid-pair", "DistanceTo panicked on equal dimensions: %v / %v", pab, pba)
		return
	}

	d, adjusted := c21Ref(c.A, c.B)
	df, _ := d.Float64()
	adjf, _ := adjusted.Float64()
	opMag := df + math.Abs(c.A.Adj) + math.Abs(c.B.Adj)
	ambiguous := math.Abs(adjf) <= 1e-9+1e-12*opMag
	if ambiguous {
		// Near the guard's zero point the branch may legitimately depend on
		// rounding - but only if rounding can play a part at all. When every
		// float64 evaluation order of "distance + adjustments" (with the float64
		// distance the exact one rounds to) lands on the same side of the guard as
		// the exact value, no rounding excuse exists: e.g. adjustments that cancel
		// a representable distance exactly give exactly 0, which is not positive,
		// so the raw distance is the documented answer.
		a1, a2 := c.A.Adj, c.B.Adj
		evals := []float64{(df + a1) + a2, (df + a2) + a1, df + (a1 + a2)}
		same := true
		for _, e := range evals {
			if (e > 0) != (adjusted.Sign() > 0) {
				same = false
			}
		}
		dExact := new(big.Float).SetPrec(256).SetFloat64(df)
		// ... and only claimed where the distance itself is computed without any
		// rounding in every reasonable implementation: coinciding points (the
		// Euclidean term is exactly 0) whose height sum is representable.
		samePoint := true
		for i := range c.A.Vec {
			if c.A.Vec[i] != c.B.Vec[i] {
				samePoint = false
			}
		}
		if same && samePoint && dExact.Cmp(d) == 0 {
			ambiguous = false
			x.Label("guard-exact-no-rounding")
		}
	}
	want := d
	if adjusted.Sign() > 0 {
		want = adjusted
	}

	// the same estimate asked through a Client that sits at a (and at b):
	// Client.DistanceTo "returns the estimated RTT from the client's coordinate
	// to other"
	ests := []time.Duration{ab, ba}
	dirs := []string{"a→b", "b→a"}
	if len(c.A.Vec) >= 1 {
		cfg := coordinate.DefaultConfig()
		cfg.Dimensionality = uint(len(c.A.Vec))
		for i, pair := range [][2]*coordinate.Coordinate{{a, b}, {b, a}} {
			cl, err := coordinate.NewClient(cfg)
			if err != nil {
				x.Inconclusive("coordinate client could not be created")
				return
			}
			if err := cl.SetCoordinate(pair[0]); err != nil {
				x.Violationf("client-rejects-valid-coordinate", "SetCoordinate(%+v) on a client of dimensionality %d: %v", *pair[0], len(c.A.Vec), err)
				return
			}
			ests = append(ests, cl.DistanceTo(pair[1]))
			dirs = append(dirs, []string{"client at a→b", "client at b→a"}[i])
		}
		x.Label("client-path")
	}

	for i, got := range ests {
		dir := dirs[i]
		if got < 0 {
			x.Violationf("negative-estimate", "%s: estimate %v is negative (d=%.12g s, d+a1+a2=%.12g s)", dir, got, df, adjf)
			return
		}
		ok := c21Within(int64(got), want)
		if !ok && ambiguous {
			ok = c21Within(int64(got), d) || c21Within(int64(got), adjusted)
		}
		if !ok {
			sig := "formula-mismatch"
			if adjusted.Sign() <= 0 {
				sig = "guard-branch-mismatch"
			}
			wf, _ := want.Float64()
			x.Violationf(sig, "%s: estimate %d ns, documented formula gives %.6f ns (d=%.15g s, a1=%g, a2=%g, d+a1+a2=%.15g s)", dir, int64(got), wf*1e9, df, c.A.Adj, c.B.Adj, adjf)
			return
		}
	}
	// symmetry is asserted everywhere, also next to the adjustment guard: which
	// branch the guard takes may depend on rounding there, but it has to be the
	// same branch in both directions
	if diff := int64(ab) - int64(ba); diff > 1 || diff < -1 {
		sig := "asymmetric"
		if ambiguous {
			sig = "asymmetric-at-adjustment-guard"
		}
		x.Violationf(sig, "dist(a,b)=%d ns, dist(b,a)=%d ns (d=%.17g s, a1=%g, a2=%g)", int64(ab), int64(ba), df, c.A.Adj, c.B.Adj)
		return
	}

	// labels / non-triviality
	guardDecides := df > 0 && math.Abs(adjf) <= 0.1*df
	minMag, maxMag := math.Inf(1), 0.0
	for _, v := range append(append([]float64{c.A.Height, c.B.Height}, c.A.Vec...), c.B.Vec...) {
		if m := math.Abs(v); m > 0 {
			minMag, maxMag = math.Min(minMag, m), math.Max(maxMag, m)
		}
	}
	wide := maxMag > 0 && maxMag/minMag > 1e6
	if ambiguous {
		x.Label("guard-ambiguous")
		if int64(ab)-int64(ba) > 1 || int64(ba)-int64(ab) > 1 {
			x.Label("guard-ambiguous-asymmetric-result")
		}
	}
	if guardDecides {
		x.Label("guard-within-10pct")
	}
	if wide {
		x.Label("magnitudes-span>1e6")
	}
	switch {
	case adjusted.Sign() <= 0 && (c.A.Adj != 0 || c.B.Adj != 0):
		x.Label("guard-suppresses-adjustment")
	case c.A.Adj != 0 || c.B.Adj != 0:
		x.Label("adjustment-applied")
	default:
		x.Label("no-adjustment")
	}
	if d.Sign() == 0 {
		x.Label("zero-distance")
	}
	eq := true
	for i := range c.A.Vec {
		if c.A.Vec[i] != c.B.Vec[i] {
			eq = false
		}
	}
	if eq {
		x.Label("equal-points")
	}
	x.Labelf("dim=%s", map[bool]string{true: "1-4", false: "5-16"}[len(c.A.Vec) <= 4])
	x.NonTrivial(guardDecides || wide)
}

func TestC21(t *testing.T) { vkit.Run(t, "C21", genC21, bodyC21) }
