//go:build verif

//go:debug randseednop=0

package pure

import (
	"bytes"
	"fmt"
	"math"
	"math/rand"
	"runtime"
	"strconv"
	"testing"
	"time"

	"github.com/hashicorp/go-msgpack/v2/codec"
	"github.com/hashicorp/memberlist"
	"github.com/hashicorp/serf/coordinate"
	"pgregory.net/rapid"

	"verif/internal/node"
	"verif/internal/simnet"
	"verif/internal/vkit"
)

// C20 — the network coordinate stays valid whatever peers report.
//
// A case is a client configuration (dimensionality, adjustment window,
// latency filter size, and the bounds the statement names - minimum height,
// maximum error - plus the gravity constant, each at its default or at another
// value; the Vivaldi gains CE/CC at their defaults) and a sequence of
// observations (peer coordinate with adversarial floats, round-trip time,
// peer name) and ForgetNode calls.
//
// Layer 1 (coordinate.Client): invariants after every call; a rejected
// observation returns an error and leaves coordinate and stats bit-identical;
// "subsequent behaviour unchanged" is decided against a twin client that runs
// the same sequence without the rejected calls. coordinate.Client draws from
// the process-global math/rand when two points coincide, so every run is
// preceded by rand.Seed (made effective by the go:debug line above) and every
// run is executed twice: if a run is not reproducible (something else consumed
// the global source) the case is inconclusive, never a violation.
//
// Layer 2 (only for dimensionality 8 = what a Serf node uses): the same
// observations through a real node's ping delegate as encoded ack payloads
// (plus wrong versions, empty and truncated payloads); the cached peer
// coordinate may change only on an observation that is acceptable, and then
// equals what was sent.

// c20F is a float64 that survives JSON (NaN/Inf as strings, finite values in
// shortest round-trip form).
type c20F float64

func (f c20F) MarshalJSON() ([]byte, error) {
	v := float64(f)
	switch {
	case math.IsNaN(v):
		return []byte(`"NaN"`), nil
	case math.IsInf(v, 1):
		return []byte(`"+Inf"`), nil
	case math.IsInf(v, -1):
		return []byte(`"-Inf"`), nil
	}
	return []byte(strconv.FormatFloat(v, 'g', -1, 64)), nil
}

func (f *c20F) UnmarshalJSON(b []byte) error {
	s := string(b)
	if len(s) >= 2 && s[0] == '"' {
		s = s[1 : len(s)-1]
	}
	v, err := strconv.ParseFloat(s, 64)
	if err != nil {
		return err
	}
	*f = c20F(v)
	return nil
}

type c20Obs struct {
	Forget bool   `json:"forget,omitempty"`
	Node   int    `json:"node"`
	Vec    []c20F `json:"vec,omitempty"`
	Err    c20F   `json:"err"`
	Adj    c20F   `json:"adj"`
	Height c20F   `json:"h"`
	RTT    int64  `json:"rtt"`
	// layer 2 only
	Ver   int `json:"ver"`   // ping version byte (1 = current)
	Trunc int `json:"trunc"` // <0: whole payload; else keep Trunc % len(payload) bytes
}

type c20Case struct {
	Dim    int      `json:"dim"`
	AdjWin int      `json:"adjwin"`
	Filter int      `json:"filter"`
	Obs    []c20Obs `json:"obs"`
	// the bounds the statement speaks of are configuration, not constants:
	// index into c20HeightMins / c20ErrorMaxs / c20Rhos (0 = the default)
	HMin int `json:"hmin,omitempty"`
	EMax int `json:"emax,omitempty"`
	Rho  int `json:"rho,omitempty"`
}

var (
	c20HeightMins = []float64{10.0e-6, 1.0e-3, 0.25, 0}
	c20ErrorMaxs  = []float64{1.5, 0.5, 4.0}
	c20Rhos       = []float64{150.0, 1.0}
)

var (
	c20Weird = []float64{1e300, -1e300, math.MaxFloat64, -math.MaxFloat64, 1e154, 1e160, -1e160}
	c20Bad   = []float64{math.NaN(), math.Inf(1), math.Inf(-1)}
	c20Tiny  = []float64{5e-324, -5e-324, 1e-310, 2.2250738585072014e-308, 0, math.Copysign(0, -1)}
)

func c20Small(t *rapid.T, l string) float64 {
	if rapid.IntRange(0, 7).Draw(t, l+"z") == 0 {
		return rapid.SampledFrom(c20Tiny).Draw(t, l+"tiny")
	}
	m := math.Pow(10, rapid.Float64Range(-7, 1.3).Draw(t, l+"e"))
	if rapid.Bool().Draw(t, l+"s") {
		m = -m
	}
	return m
}

func genC20(t *rapid.T) c20Case {
	c := c20Case{
		Dim:    rapid.SampledFrom([]int{8, 8, 8, 1, 2, 3, 4, 5, 8, 16}).Draw(t, "dim"),
		AdjWin: rapid.SampledFrom([]int{0, 1, 20}).Draw(t, "adjwin"),
		Filter: rapid.SampledFrom([]int{1, 3, 2, 5}).Draw(t, "filter"),
		HMin:   rapid.SampledFrom([]int{0, 0, 1, 2, 3}).Draw(t, "hmin"),
		EMax:   rapid.SampledFrom([]int{0, 0, 1, 2}).Draw(t, "emax"),
		Rho:    rapid.SampledFrom([]int{0, 0, 0, 1}).Draw(t, "rho"),
	}
	n := rapid.IntRange(1, 40).Draw(t, "n")
	if rapid.IntRange(0, 9).Draw(t, "long") == 0 {
		n = rapid.IntRange(40, 200).Draw(t, "nlong")
	}
	names := rapid.IntRange(1, 4).Draw(t, "names")
	for i := 0; i < n; i++ {
		o := c20Obs{Node: rapid.IntRange(0, names-1).Draw(t, "node"), Ver: 1, Trunc: -1}
		if rapid.IntRange(0, 24).Draw(t, "forget") == 0 {
			o.Forget = true
			c.Obs = append(c.Obs, o)
			continue
		}
		profile := rapid.SampledFrom([]string{"clean", "clean", "clean", "clean", "clean", "clean", "origin", "huge", "huge", "badfloat", "badfloat", "wrongdim", "negative"}).Draw(t, "profile")
		dim := c.Dim
		if profile == "wrongdim" {
			dim = rapid.IntRange(0, 17).Draw(t, "wdim")
		}
		for j := 0; j < dim; j++ {
			v := 0.0
			if profile != "origin" {
				v = c20Small(t, "v")
			}
			o.Vec = append(o.Vec, c20F(v))
		}
		o.Err = c20F(math.Abs(c20Small(t, "err")))
		o.Adj = c20F(c20Small(t, "adj") * 0.01)
		o.Height = c20F(math.Abs(c20Small(t, "h")) * 0.01)
		// which field gets the special value: 0..dim-1 = Vec[i], dim = Err, dim+1 = Adj, dim+2 = Height
		put := func(v float64) {
			k := rapid.IntRange(0, dim+2).Draw(t, "field")
			switch {
			case k < dim:
				o.Vec[k] = c20F(v)
			case k == dim:
				o.Err = c20F(v)
			case k == dim+1:
				o.Adj = c20F(v)
			default:
				o.Height = c20F(v)
			}
		}
		switch profile {
		case "huge":
			for k := rapid.IntRange(1, 3).Draw(t, "nhuge"); k > 0; k-- {
				put(rapid.SampledFrom(c20Weird).Draw(t, "weird"))
			}
		case "badfloat":
			put(rapid.SampledFrom(c20Bad).Draw(t, "bad"))
		case "negative":
			if rapid.Bool().Draw(t, "negerr") {
				o.Err = -o.Err - 0.1
			} else {
				o.Height = -o.Height - 0.01
			}
		}
		o.RTT = int64(math.Pow(10, rapid.Float64Range(3, 9.5).Draw(t, "rtte"))) // 1 µs .. ~3 s
		switch rapid.IntRange(0, 19).Draw(t, "rttcls") {
		case 0:
			o.RTT = rapid.SampledFrom([]int64{-1, -int64(time.Second), math.MinInt64}).Draw(t, "rttneg")
		case 1:
			o.RTT = rapid.SampledFrom([]int64{int64(10*time.Second) + 1, int64(11 * time.Second), math.MaxInt64}).Draw(t, "rttbig")
		case 2:
			o.RTT = rapid.SampledFrom([]int64{0, 1, int64(10 * time.Second), int64(10*time.Second) - 1}).Draw(t, "rttedge")
		}
		switch rapid.IntRange(0, 19).Draw(t, "wire") {
		case 0:
			o.Ver = rapid.SampledFrom([]int{0, 2, 255}).Draw(t, "ver")
		case 1:
			o.Trunc = rapid.IntRange(0, 400).Draw(t, "trunc")
		}
		c.Obs = append(c.Obs, o)
	}
	return c
}

func (o c20Obs) coord() *coordinate.Coordinate {
	co := &coordinate.Coordinate{Error: float64(o.Err), Adjustment: float64(o.Adj), Height: float64(o.Height), Vec: make([]float64, len(o.Vec))}
	for i, v := range o.Vec {
		co.Vec[i] = float64(v)
	}
	return co
}

func c20Finite(f float64) bool { return !math.IsNaN(f) && !math.IsInf(f, 0) }

// c20Acceptable is the statement's notion of an observation that may be
// accepted: valid coordinate of the configured dimension, 0 <= rtt <= 10 s.
func (o c20Obs) acceptable(dim int) (coordOK, rttOK bool) {
	coordOK = len(o.Vec) == dim && c20Finite(float64(o.Err)) && c20Finite(float64(o.Adj)) && c20Finite(float64(o.Height))
	for _, v := range o.Vec {
		if !c20Finite(float64(v)) {
			coordOK = false
		}
	}
	rttOK = o.RTT >= 0 && o.RTT <= int64(10*time.Second)
	return
}

func c20Bits(c *coordinate.Coordinate) string {
	if c == nil {
		return "<nil>"
	}
	s := fmt.Sprintf("%d|%x|%x|%x", len(c.Vec), math.Float64bits(c.Error), math.Float64bits(c.Adjustment), math.Float64bits(c.Height))
	for _, v := range c.Vec {
		s += fmt.Sprintf("|%x", math.Float64bits(v))
	}
	return s
}

func c20Show(c *coordinate.Coordinate) string {
	if c == nil {
		return "<nil>"
	}
	return fmt.Sprintf("{Vec:%v Error:%v Adjustment:%v Height:%v}", c.Vec, c.Error, c.Adjustment, c.Height)
}

func c20Config(c c20Case) *coordinate.Config {
	cfg := coordinate.DefaultConfig()
	cfg.Dimensionality = uint(c.Dim)
	cfg.AdjustmentWindowSize = uint(c.AdjWin)
	cfg.LatencyFilterSize = uint(c.Filter)
	cfg.HeightMin = c20HeightMins[c.HMin]
	cfg.VivaldiErrorMax = c20ErrorMaxs[c.EMax]
	cfg.GravityRho = c20Rhos[c.Rho]
	return cfg
}

// c20Step is what one executed call left behind.
type c20Step struct {
	idx    int
	errNil bool
	after  string // bit image of GetCoordinate() after the call
	resets int
}

// c20Run executes the sequence on a fresh client. With skip != nil the calls
// at those indices are left out (the twin). check, when non-nil, is invoked
// after every Update with the state around the call.
const c20Seed = 0x5eed

// c20Stream maps the i-th value of the seeded stream to i, so that one draw
// after a run tells how many values the run consumed from the global source.
var c20Stream = func() map[int64]int {
	m := map[int64]int{}
	r := rand.New(rand.NewSource(c20Seed))
	for i := 0; i < 1<<16; i++ {
		m[r.Int63()] = i
	}
	return m
}()

// c20Consumed draws once from the global source and returns how many values
// had been consumed since rand.Seed(c20Seed); -1 if that cannot be told.
func c20Consumed() int {
	if k, ok := c20Stream[rand.Int63()]; ok {
		return k
	}
	return -1
}

func c20Run(c c20Case, skip map[int]bool, check func(i int, o c20Obs, before, after, ret *coordinate.Coordinate, sb, sa coordinate.ClientStats, err error) bool) (tr []c20Step, ok bool) {
	rand.Seed(c20Seed)
	cl, err := coordinate.NewClient(c20Config(c))
	if err != nil {
		return nil, false
	}
	defer func() {
		// last entry: consumption of the global random source by this run
		tr = append(tr, c20Step{idx: -1, resets: c20Consumed()})
	}()
	for i, o := range c.Obs {
		if skip[i] {
			continue
		}
		name := fmt.Sprintf("peer%d", o.Node)
		if o.Forget {
			cl.ForgetNode(name)
			tr = append(tr, c20Step{idx: i, errNil: true, after: c20Bits(cl.GetCoordinate()), resets: cl.Stats().Resets})
			continue
		}
		before, sb := cl.GetCoordinate(), cl.Stats()
		ret, err := cl.Update(name, o.coord(), time.Duration(o.RTT))
		after, sa := cl.GetCoordinate(), cl.Stats()
		tr = append(tr, c20Step{idx: i, errNil: err == nil, after: c20Bits(after), resets: sa.Resets})
		if check != nil && !check(i, o, before, after, ret, sb, sa, err) {
			return tr, false
		}
	}
	return tr, true
}

func c20Same(a, b []c20Step) (int, bool) {
	if len(a) != len(b) {
		return min(len(a), len(b)), false
	}
	for i := range a {
		if a[i] != b[i] {
			return i, false
		}
	}
	return 0, true
}

func bodyC20(c c20Case, x *vkit.Ctx) {
	if c.Dim < 1 || c.Filter < 1 || c.AdjWin < 0 || c.HMin < 0 || c.HMin >= len(c20HeightMins) ||
		c.EMax < 0 || c.EMax >= len(c20ErrorMaxs) || c.Rho < 0 || c.Rho >= len(c20Rhos) {
		x.Inconclusive("invalid client configuration in case file")
		return
	}
	cfg := c20Config(c)
	accepted, rejected, resets, negErrPeers, hugePeers := 0, 0, 0, 0, 0
	validRejected := 0
	skip := map[int]bool{}
	errorClaim := true // every accepted peer since the last reset had Error >= 0
	lastResets := 0

	trA, ok := c20Run(c, nil, func(i int, o c20Obs, before, after, ret *coordinate.Coordinate, sb, sa coordinate.ClientStats, err error) bool {
		coordOK, rttOK := o.acceptable(c.Dim)
		if !coordOK || !rttOK {
			skip[i] = true
			rejected++
			what := "invalid-coordinate"
			if coordOK {
				what = "rtt-out-of-range"
			} else if len(o.Vec) != c.Dim {
				what = "wrong-dimension"
			}
			if err == nil {
				x.Violationf(what+"-accepted", "obs %d: Update(%s, rtt=%v) returned no error", i, c20Show(o.coord()), time.Duration(o.RTT))
				return false
			}
			if c20Bits(before) != c20Bits(after) || sb != sa {
				x.Violationf(what+"-changed-state", "obs %d: rejected observation changed the client: %s -> %s, stats %+v -> %+v", i, c20Show(before), c20Show(after), sb, sa)
				return false
			}
		} else if err != nil {
			// not promised by the statement; must at least be a clean rejection
			validRejected++
			skip[i] = true
			if c20Bits(before) != c20Bits(after) || sb != sa {
				x.Violationf("rejection-changed-state", "obs %d: Update returned %v but changed the client", i, err)
				return false
			}
		} else {
			accepted++
			if float64(o.Err) < 0 {
				errorClaim = false
				negErrPeers++
			}
			for _, v := range append([]c20F{o.Err, o.Adj, o.Height}, o.Vec...) {
				if math.Abs(float64(v)) >= 1e150 {
					hugePeers++
					break
				}
			}
			if c20Bits(ret) != c20Bits(after) {
				x.Violationf("returned-not-current", "obs %d: Update returned %s but GetCoordinate is %s", i, c20Show(ret), c20Show(after))
				return false
			}
		}
		if sa.Resets > lastResets {
			resets += sa.Resets - lastResets
			lastResets = sa.Resets
			errorClaim = true // the coordinate is a fresh one again
		}
		// invariants after every call
		if len(after.Vec) != c.Dim {
			x.Violationf("dimension-changed", "obs %d: coordinate has %d dimensions, configured %d", i, len(after.Vec), c.Dim)
			return false
		}
		if !after.IsValid() || !c20Finite(after.Error) || !c20Finite(after.Adjustment) || !c20Finite(after.Height) {
			x.Violationf("non-finite-coordinate", "obs %d (peer %s rtt %v): local coordinate %s", i, c20Show(o.coord()), time.Duration(o.RTT), c20Show(after))
			return false
		}
		for _, v := range after.Vec {
			if !c20Finite(v) {
				x.Violationf("non-finite-coordinate", "obs %d: local coordinate %s", i, c20Show(after))
				return false
			}
		}
		if after.Height < cfg.HeightMin {
			x.Violationf("height-below-min", "obs %d (peer %s rtt %v): height %g < HeightMin %g", i, c20Show(o.coord()), time.Duration(o.RTT), after.Height, cfg.HeightMin)
			return false
		}
		if errorClaim && !(after.Error >= 0 && after.Error <= cfg.VivaldiErrorMax) {
			x.Violationf("error-out-of-bounds", "obs %d (peer %s rtt %v): error %g outside [0, %g] although every accepted peer reported a non-negative error", i, c20Show(o.coord()), time.Duration(o.RTT), after.Error, cfg.VivaldiErrorMax)
			return false
		}
		return true
	})
	if !ok {
		if !x.Failed() {
			x.Inconclusive("client could not be created")
		}
		return
	}

	// ---- twin: same sequence without the rejected calls
	trA2, _ := c20Run(c, nil, nil)
	trB, _ := c20Run(c, skip, nil)
	trB2, _ := c20Run(c, skip, nil)
	if _, same := c20Same(trA, trA2); !same {
		x.Inconclusive("run not reproducible (global math/rand disturbed or rand.Seed ineffective)")
		return
	}
	if _, same := c20Same(trB, trB2); !same {
		x.Inconclusive("run not reproducible (global math/rand disturbed or rand.Seed ineffective)")
		return
	}
	// every run ends with the number of values it took from the global
	// source; rejected calls take none, so all four runs must agree. A
	// difference means something else drew from the source during a run
	// (shifting the stream the client saw): not judgeable.
	kA, kA2, kB, kB2 := trA[len(trA)-1].resets, trA2[len(trA2)-1].resets, trB[len(trB)-1].resets, trB2[len(trB2)-1].resets
	if kA < 0 || kA != kA2 || kA != kB || kA != kB2 {
		x.Inconclusive("global math/rand consumption differs between runs (disturbed)")
		return
	}
	var trAacc []c20Step
	for _, s := range trA {
		if !skip[s.idx] { // (keeps the trailing consumption entry, idx -1)
			trAacc = append(trAacc, s)
		}
	}
	if at, same := c20Same(trAacc, trB); !same {
		idx, da, db := -1, "", ""
		if at < len(trB) && at < len(trAacc) {
			idx, da, db = trB[at].idx, fmt.Sprintf("%+v", trAacc[at]), fmt.Sprintf("%+v", trB[at])
		}
		x.Violationf("rejected-call-changed-later-behaviour", "from obs %d on, the client that saw the %d rejected calls behaves differently from a twin that never saw them (hidden state touched by a rejected call): with %s, twin %s; random values consumed %d/%d", idx, len(skip), da, db, kA, kB)
		return
	}

	// ---- layer 2: through a node's ping delegate
	l2 := c.Dim == 8
	l2cached, l2rej := 0, 0
	if l2 {
		if !c20Layer2(c, x, &l2cached, &l2rej) {
			return
		}
	}

	x.Labelf("dim=%d", c.Dim)
	x.Labelf("adjwin=%d,filter=%d", c.AdjWin, c.Filter)
	x.Labelf("heightmin=%g,errormax=%g,rho=%g", cfg.HeightMin, cfg.VivaldiErrorMax, cfg.GravityRho)
	if accepted > 0 {
		x.Label("has-accepted")
	}
	if rejected > 0 {
		x.Label("has-rejected")
	}
	if accepted > 0 && rejected > 0 {
		x.Label("mixed-accept-reject")
	}
	if resets > 0 {
		x.Label("reset")
	}
	if negErrPeers > 0 {
		x.Label("negative-peer-error-accepted")
	}
	if hugePeers > 0 {
		x.Label("huge-finite-peer-accepted")
	}
	if validRejected > 0 {
		x.Label("acceptable-observation-rejected")
	}
	if l2 {
		x.Label("ping-delegate-layer")
		if l2cached > 0 && l2rej > 0 {
			x.Label("delegate-mixed-cached-and-rejected")
		}
	}
	x.Labelf("len=%s", map[bool]string{true: "1-40", false: "41-200"}[len(c.Obs) <= 40])
	x.NonTrivial((accepted > 0 && rejected > 0) || resets > 0)
}

func c20Payload(o c20Obs) []byte {
	var buf bytes.Buffer
	buf.WriteByte(byte(o.Ver))
	enc := codec.NewEncoder(&buf, &codec.MsgpackHandle{})
	if err := enc.Encode(o.coord()); err != nil {
		return nil
	}
	p := buf.Bytes()
	if o.Trunc >= 0 {
		p = p[:o.Trunc%len(p)] // always a strict prefix
	}
	return p
}

func c20Layer2(c c20Case, x *vkit.Ctx, cached, rej *int) bool {
	// memberlist's timer goroutines draw a random stagger from the global
	// math/rand when they start; they must all be gone before the next case's
	// twin runs, so wait for the goroutine count to fall back to where it was
	baseline := runtime.NumGoroutine()
	nw := simnet.New(1)
	n, err := node.New(nw, node.Opts{Name: "a", Quiet: true})
	if err != nil {
		x.Inconclusive("node could not be created: " + err.Error())
		return false
	}
	defer func() {
		n.Stop()
		for dl := time.Now().Add(2 * time.Second); runtime.NumGoroutine() > baseline && time.Now().Before(dl); {
			time.Sleep(50 * time.Microsecond)
		}
		if runtime.NumGoroutine() > baseline {
			x.Label("node-goroutines-lingered")
		}
	}()
	pd := n.Serf.VerifPingDelegate()
	for i, o := range c.Obs {
		if o.Forget {
			continue
		}
		name := fmt.Sprintf("peer%d", o.Node)
		payload := c20Payload(o)
		if payload == nil && o.Trunc < 0 {
			x.Inconclusive("payload could not be encoded")
			return false
		}
		coordOK, rttOK := o.acceptable(8)
		acceptable := coordOK && rttOK && o.Ver == 1 && o.Trunc < 0
		cb, okb := n.Serf.GetCachedCoordinate(name)
		cbBits := c20Bits(cb)
		selfB, _ := n.Serf.GetCoordinate()
		selfCacheB, _ := n.Serf.GetCachedCoordinate("a")
		selfCacheBBits := c20Bits(selfCacheB)
		pd.NotifyPingComplete(&memberlist.Node{Name: name}, time.Duration(o.RTT), payload)
		ca, oka := n.Serf.GetCachedCoordinate(name)
		selfA, _ := n.Serf.GetCoordinate()
		selfCacheA, _ := n.Serf.GetCachedCoordinate("a")
		unchanged := okb == oka && cbBits == c20Bits(ca) && c20Bits(selfB) == c20Bits(selfA) && selfCacheBBits == c20Bits(selfCacheA)
		if !acceptable {
			*rej++
			if !unchanged {
				why := "invalid-observation"
				switch {
				case o.Ver != 1:
					why = "wrong-version"
				case o.Trunc >= 0:
					why = "truncated-payload"
				case !rttOK && coordOK:
					why = "rtt-out-of-range"
				}
				x.Violationf("delegate-"+why+"-cached", "obs %d (%s, ver %d, trunc %d, rtt %v): cache for %s went %s -> %s, own coordinate %s -> %s", i, c20Show(o.coord()), o.Ver, o.Trunc, time.Duration(o.RTT), name, c20Show(cb), c20Show(ca), c20Show(selfB), c20Show(selfA))
				return false
			}
			continue
		}
		if unchanged && (cbBits != c20Bits(o.coord()) || !okb) {
			// acceptance of an acceptable observation is not promised; a clean
			// rejection is tolerated (never seen on the real code)
			x.Label("delegate-acceptable-not-cached")
			continue
		}
		if !oka || c20Bits(ca) != c20Bits(o.coord()) {
			x.Violationf("delegate-cache-differs-from-sent", "obs %d: sent %s, cache for %s holds %s", i, c20Show(o.coord()), name, c20Show(ca))
			return false
		}
		if !selfA.IsValid() || len(selfA.Vec) != 8 {
			x.Violationf("delegate-own-coordinate-invalid", "obs %d: own coordinate %s", i, c20Show(selfA))
			return false
		}
		*cached++
	}
	return true
}

func TestC20(t *testing.T) { vkit.Run(t, "C20", genC20, bodyC20) }
