//go:build verif

package pure

import (
	"fmt"
	"sort"
	"testing"
	"time"

	"github.com/hashicorp/serf/serf"
	"pgregory.net/rapid"

	"verif/internal/vkit"
)

// C17 — member event coalescing reports only the latest new state.
//
// A case is a sequence of steps; step kind 0..4 = member event of that kind
// for member M (tag payload P), kind 5 = flush.  The real coalescer
// (memberEventCoalescer, through the package's own coalescer interface) is
// driven with Handle/Coalesce/Flush exactly as coalesceLoop does.

type c17Step struct {
	Kind   int `json:"k"` // 0 join 1 leave 2 failed 3 update 4 reap 5 flush
	Member int `json:"m"`
	Tag    int `json:"t"`
	// More: further members carried by the same event (a MemberEvent may list
	// several members; the same member may even appear twice, the last entry
	// is the latest)
	More []int `json:"more,omitempty"`
}

type c17Case struct {
	Steps []c17Step `json:"steps"`
	// Loop: run the same steps through the real coalesceLoop (timers, channels)
	// instead of calling Handle/Coalesce/Flush directly; a flush step is then a
	// pause. Quantum boundaries are the timers' business there, so only the
	// claims that hold for ANY cut are judged.
	Loop bool `json:"loop,omitempty"`
}

var c17Kinds = []serf.EventType{serf.EventMemberJoin, serf.EventMemberLeave, serf.EventMemberFailed, serf.EventMemberUpdate, serf.EventMemberReap}

func genC17(t *rapid.T) c17Case {
	n := rapid.IntRange(1, 40).Draw(t, "n")
	nm := rapid.IntRange(1, 4).Draw(t, "members")
	var c c17Case
	for i := 0; i < n; i++ {
		k := rapid.SampledFrom([]int{0, 1, 2, 3, 3, 4, 5, 5}).Draw(t, "kind")
		st := c17Step{Kind: k, Member: rapid.IntRange(0, nm-1).Draw(t, "m"), Tag: rapid.IntRange(0, 3).Draw(t, "tag")}
		if k < 5 && rapid.IntRange(0, 4).Draw(t, "multi") == 0 {
			st.More = rapid.SliceOfN(rapid.IntRange(0, nm-1), 1, 3).Draw(t, "more")
		}
		c.Steps = append(c.Steps, st)
	}
	c.Steps = append(c.Steps, c17Step{Kind: 5})
	c.Loop = rapid.IntRange(0, 23).Draw(t, "loop") == 0
	return c
}

func c17Name(m int) string { return fmt.Sprintf("node%d", m) }

// bodyC17Loop drives the real loop. Judged (valid for every way the timers cut
// the stream into quanta): everything reported was received; a member is not
// reported more often than it had events; once the stream is quiet the kind
// last reported for each member equals the kind of its latest event; events the
// coalescer does not handle pass through unchanged, once, in order.
func bodyC17Loop(c c17Case, x *vkit.Ctx) {
	out := make(chan serf.Event, 4096)
	shutdown := make(chan struct{})
	in := serf.VerifCoalescedEventCh(out, shutdown, 3*time.Millisecond, time.Millisecond, serf.VerifNewMemberCoalescer())
	defer close(shutdown)
	type rec struct {
		kind serf.EventType
		tag  string
	}
	received := map[string]map[rec]bool{}
	count := map[string]int{}
	latest := map[string]serf.EventType{}
	var passSent []string
	for si, st := range c.Steps {
		if st.Kind == 5 {
			time.Sleep(6 * time.Millisecond)
			// a user event in between: must pass straight through
			name := fmt.Sprintf("pass-%d", si)
			passSent = append(passSent, name)
			in <- serf.UserEvent{Name: name, LTime: serf.LamportTime(si)}
			continue
		}
		ev := serf.MemberEvent{Type: c17Kinds[st.Kind]}
		for j, m := range append([]int{st.Member}, st.More...) {
			tag := fmt.Sprint(st.Tag + 10*j)
			ev.Members = append(ev.Members, serf.Member{Name: c17Name(m), Tags: map[string]string{"t": tag}})
			if received[c17Name(m)] == nil {
				received[c17Name(m)] = map[rec]bool{}
			}
			received[c17Name(m)][rec{ev.Type, tag}] = true
			count[c17Name(m)]++
			latest[c17Name(m)] = ev.Type
		}
		in <- ev
	}
	// collect until quiet
	lastRep := map[string]serf.EventType{}
	reports := map[string]int{}
	var passGot []string
	quiet := time.NewTimer(60 * time.Millisecond)
	defer quiet.Stop()
	for done := false; !done; {
		select {
		case e := <-out:
			switch v := e.(type) {
			case serf.MemberEvent:
				for _, m := range v.Members {
					if !received[m.Name][rec{v.Type, m.Tags["t"]}] {
						x.Violationf("loop-reported-never-received", "loop: member %s reported with %v/tag %s, which was never received", m.Name, v.Type, m.Tags["t"])
						return
					}
					lastRep[m.Name] = v.Type
					reports[m.Name]++
				}
			case serf.UserEvent:
				passGot = append(passGot, v.Name)
			}
			if !quiet.Stop() {
				select {
				case <-quiet.C:
				default:
				}
			}
			quiet.Reset(60 * time.Millisecond)
		case <-quiet.C:
			done = true
		}
	}
	for m, k := range latest {
		if reports[m] > count[m] {
			x.Violationf("loop-reported-too-often", "loop: member %s had %d events but was reported %d times", m, count[m], reports[m])
			return
		}
		if got, ok := lastRep[m]; !ok || got != k {
			x.Violationf("loop-app-kind-differs", "loop: stream quiet, member %s: the application last saw %v (reported=%v), its latest event is %v", m, got, ok, k)
			return
		}
	}
	if fmt.Sprint(passGot) != fmt.Sprint(passSent) {
		x.Violationf("loop-passthrough", "loop: pass-through events sent %v, received %v", passSent, passGot)
		return
	}
	x.Label("real-coalesce-loop")
	x.NonTrivial(len(latest) > 0 && len(passSent) > 1)
}

func bodyC17(c c17Case, x *vkit.Ctx) {
	if c.Loop {
		bodyC17Loop(c, x)
		return
	}
	co := serf.VerifNewMemberCoalescer()
	type pend struct {
		kind serf.EventType
		tag  int
	}
	pending := map[string]pend{}       // model: latest event since previous flush
	lastReported := map[string]serf.EventType{} // model: kind last reported
	lastSeenByApp := map[string]serf.EventType{}
	latestKind := map[string]serf.EventType{} // kind of the latest event ever received
	flushes, suppressed, d5shape := 0, 0, false
	multi := 0
	updatedEarlier := map[string]bool{} // member had an update reported in an earlier quantum
	for si, st := range c.Steps {
		if st.Kind < 5 {
			ev := serf.MemberEvent{Type: c17Kinds[st.Kind]}
			for j, m := range append([]int{st.Member}, st.More...) {
				// every entry gets its own tag value so that "the latest" is decidable
				ev.Members = append(ev.Members, serf.Member{Name: c17Name(m), Tags: map[string]string{"t": fmt.Sprint(st.Tag + 10*j)}})
			}
			if !co.Handle(ev) {
				x.Violationf("handle-refused", "step %d: coalescer refused member event kind %v", si, ev.Type)
				return
			}
			co.Coalesce(ev)
			for j, m := range append([]int{st.Member}, st.More...) {
				pending[c17Name(m)] = pend{ev.Type, st.Tag + 10*j}
				latestKind[c17Name(m)] = ev.Type
			}
			if len(st.More) > 0 {
				multi++
			}
			continue
		}
		// flush
		flushes++
		out := make(chan serf.Event, 64)
		co.Flush(out)
		close(out)
		got := map[string]pend{}
		for e := range out {
			me, ok := e.(serf.MemberEvent)
			if !ok {
				x.Violationf("flush-non-member", "step %d: flush emitted %T", si, e)
				return
			}
			for _, m := range me.Members {
				if _, dup := got[m.Name]; dup {
					x.Violationf("member-twice-in-flush", "step %d: member %s reported twice in one flush", si, m.Name)
					return
				}
				var tag int
				fmt.Sscan(m.Tags["t"], &tag)
				got[m.Name] = pend{me.Type, tag}
			}
		}
		want := map[string]pend{}
		for name, p := range pending {
			if last, ok := lastReported[name]; ok && last == p.kind && p.kind != serf.EventMemberUpdate {
				suppressed++
				continue
			}
			want[name] = p
		}
		// the D5 shape: an earlier quantum reported an update for a member
		// that has no event in this (non-empty) quantum
		if len(pending) > 0 {
			for name := range updatedEarlier {
				if _, has := pending[name]; !has {
					d5shape = true
				}
			}
		}
		names := map[string]bool{}
		for n := range got {
			names[n] = true
		}
		for n := range want {
			names[n] = true
		}
		var ns []string
		for n := range names {
			ns = append(ns, n)
		}
		sort.Strings(ns)
		for _, n := range ns {
			g, gok := got[n]
			w, wok := want[n]
			switch {
			case gok && !wok:
				if _, had := pending[n]; !had {
					x.Violationf("stale-report", "step %d (flush #%d): member %s reported (%v) although it had no new event since the previous flush", si, flushes, n, g.kind)
				} else {
					x.Violationf("unsuppressed-same-kind", "step %d: member %s reported %v again although same kind as last report", si, n, g.kind)
				}
				return
			case !gok && wok:
				x.Violationf("missing-report", "step %d: member %s should be reported with %v, was not", si, n, w.kind)
				return
			case g != w:
				x.Violationf("not-latest", "step %d: member %s reported %v/tag%d, latest is %v/tag%d", si, n, g.kind, g.tag, w.kind, w.tag)
				return
			}
		}
		for n, g := range got {
			lastReported[n] = g.kind
			lastSeenByApp[n] = g.kind
			if g.kind == serf.EventMemberUpdate {
				updatedEarlier[n] = true
			} else {
				delete(updatedEarlier, n)
			}
		}
		pending = map[string]pend{}
		// "the kind the application last saw for each member always equals the kind of the latest event"
		for n, k := range latestKind {
			if lastSeenByApp[n] != k {
				x.Violationf("app-kind-differs", "after flush #%d: member %s: application last saw %v, latest event kind %v", flushes, n, lastSeenByApp[n], k)
				return
			}
			if hk, ok := serf.VerifMemberCoalescerLastKind(co, n); !ok || hk != k {
				x.Violationf("lastkind-state", "after flush #%d: member %s: coalescer lastEvents=%v,%v latest %v", flushes, n, hk, ok, k)
				return
			}
		}
	}
	x.Labelf("flushes=%d", min(flushes, 5))
	if suppressed > 0 {
		x.Label("same-kind-suppression")
	}
	if d5shape {
		x.Label("update-then-silent-quantum")
	}
	if multi > 0 {
		x.Label("multi-member-event")
	}
	x.NonTrivial(flushes >= 2 && (d5shape || suppressed > 0))
}

func TestC17(t *testing.T) { vkit.Run(t, "C17", genC17, bodyC17) }
