//go:build verif

package pure

import (
	"fmt"
	"sort"
	"testing"

	"github.com/hashicorp/serf/serf"
	"pgregory.net/rapid"

	"verif/internal/vkit"
)

// C17 — member event coalescing reports only the latest new state.
//
// A case is a sequence of steps; step kind 0..4 = member event of that kind
// for member M (tag payload P), kind 5 = flush.  The real coalescer
// (memberEventCoalescer, through the package's own coalescer interface) is
// driven with Handle/Coalesce/Flush exactly as coalesceLoop does.

type c17Step struct {
	Kind   int `json:"k"` // 0 join 1 leave 2 failed 3 update 4 reap 5 flush
	Member int `json:"m"`
	Tag    int `json:"t"`
}

type c17Case struct {
	Steps []c17Step `json:"steps"`
}

var c17Kinds = []serf.EventType{serf.EventMemberJoin, serf.EventMemberLeave, serf.EventMemberFailed, serf.EventMemberUpdate, serf.EventMemberReap}

func genC17(t *rapid.T) c17Case {
	n := rapid.IntRange(1, 40).Draw(t, "n")
	nm := rapid.IntRange(1, 4).Draw(t, "members")
	var c c17Case
	for i := 0; i < n; i++ {
		k := rapid.SampledFrom([]int{0, 1, 2, 3, 3, 4, 5, 5}).Draw(t, "kind")
		c.Steps = append(c.Steps, c17Step{Kind: k, Member: rapid.IntRange(0, nm-1).Draw(t, "m"), Tag: rapid.IntRange(0, 3).Draw(t, "tag")})
	}
	c.Steps = append(c.Steps, c17Step{Kind: 5})
	return c
}

func c17Name(m int) string { return fmt.Sprintf("node%d", m) }

func bodyC17(c c17Case, x *vkit.Ctx) {
	co := serf.VerifNewMemberCoalescer()
	type pend struct {
		kind serf.EventType
		tag  int
	}
	pending := map[string]pend{}       // model: latest event since previous flush
	lastReported := map[string]serf.EventType{} // model: kind last reported
	lastSeenByApp := map[string]serf.EventType{}
	latestKind := map[string]serf.EventType{} // kind of the latest event ever received
	flushes, suppressed, d5shape := 0, 0, false
	updatedEarlier := map[string]bool{} // member had an update reported in an earlier quantum
	for si, st := range c.Steps {
		if st.Kind < 5 {
			name := c17Name(st.Member)
			ev := serf.MemberEvent{Type: c17Kinds[st.Kind], Members: []serf.Member{{Name: name, Tags: map[string]string{"t": fmt.Sprint(st.Tag)}}}}
			if !co.Handle(ev) {
				x.Violationf("handle-refused", "step %d: coalescer refused member event kind %v", si, ev.Type)
				return
			}
			co.Coalesce(ev)
			pending[name] = pend{ev.Type, st.Tag}
			latestKind[name] = ev.Type
			continue
		}
		// flush
		flushes++
		out := make(chan serf.Event, 64)
		co.Flush(out)
		close(out)
		got := map[string]pend{}
		for e := range out {
			me, ok := e.(serf.MemberEvent)
			if !ok {
				x.Violationf("flush-non-member", "step %d: flush emitted %T", si, e)
				return
			}
			for _, m := range me.Members {
				if _, dup := got[m.Name]; dup {
					x.Violationf("member-twice-in-flush", "step %d: member %s reported twice in one flush", si, m.Name)
					return
				}
				var tag int
				fmt.Sscan(m.Tags["t"], &tag)
				got[m.Name] = pend{me.Type, tag}
			}
		}
		want := map[string]pend{}
		for name, p := range pending {
			if last, ok := lastReported[name]; ok && last == p.kind && p.kind != serf.EventMemberUpdate {
				suppressed++
				continue
			}
			want[name] = p
		}
		// the D5 shape: an earlier quantum reported an update for a member
		// that has no event in this (non-empty) quantum
		if len(pending) > 0 {
			for name := range updatedEarlier {
				if _, has := pending[name]; !has {
					d5shape = true
				}
			}
		}
		names := map[string]bool{}
		for n := range got {
			names[n] = true
		}
		for n := range want {
			names[n] = true
		}
		var ns []string
		for n := range names {
			ns = append(ns, n)
		}
		sort.Strings(ns)
		for _, n := range ns {
			g, gok := got[n]
			w, wok := want[n]
			switch {
			case gok && !wok:
				if _, had := pending[n]; !had {
					x.Violationf("stale-report", "step %d (flush #%d): member %s reported (%v) although it had no new event since the previous flush", si, flushes, n, g.kind)
				} else {
					x.Violationf("unsuppressed-same-kind", "step %d: member %s reported %v again although same kind as last report", si, n, g.kind)
				}
				return
			case !gok && wok:
				x.Violationf("missing-report", "step %d: member %s should be reported with %v, was not", si, n, w.kind)
				return
			case g != w:
				x.Violationf("not-latest", "step %d: member %s reported %v/tag%d, latest is %v/tag%d", si, n, g.kind, g.tag, w.kind, w.tag)
				return
			}
		}
		for n, g := range got {
			lastReported[n] = g.kind
			lastSeenByApp[n] = g.kind
			if g.kind == serf.EventMemberUpdate {
				updatedEarlier[n] = true
			} else {
				delete(updatedEarlier, n)
			}
		}
		pending = map[string]pend{}
		// "the kind the application last saw for each member always equals the kind of the latest event"
		for n, k := range latestKind {
			if lastSeenByApp[n] != k {
				x.Violationf("app-kind-differs", "after flush #%d: member %s: application last saw %v, latest event kind %v", flushes, n, lastSeenByApp[n], k)
				return
			}
			if hk, ok := serf.VerifMemberCoalescerLastKind(co, n); !ok || hk != k {
				x.Violationf("lastkind-state", "after flush #%d: member %s: coalescer lastEvents=%v,%v latest %v", flushes, n, hk, ok, k)
				return
			}
		}
	}
	x.Labelf("flushes=%d", min(flushes, 5))
	if suppressed > 0 {
		x.Label("same-kind-suppression")
	}
	if d5shape {
		x.Label("update-then-silent-quantum")
	}
	x.NonTrivial(flushes >= 2 && (d5shape || suppressed > 0))
}

func TestC17(t *testing.T) { vkit.Run(t, "C17", genC17, bodyC17) }
