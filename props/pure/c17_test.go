//go:build verif

package pure

import (
	"fmt"
	"net"
	"reflect"
	"sort"
	"testing"
	"time"

	"github.com/hashicorp/serf/serf"
	"pgregory.net/rapid"

	"verif/internal/vkit"
)

// C17 — member event coalescing reports only the latest new state.
//
// A case is a sequence of steps; step kind 0..4 = member event of that kind
// for member M (tag payload P), kind 5 = flush.  The real coalescer
// (memberEventCoalescer, through the package's own coalescer interface) is
// driven with Handle/Coalesce/Flush exactly as coalesceLoop does.

type c17Step struct {
	Kind   int `json:"k"` // 0 join 1 leave 2 failed 3 update 4 reap 5 flush
	Member int `json:"m"`
	Tag    int `json:"t"`
	// More: further members carried by the same event (a MemberEvent may list
	// several members; the same member may even appear twice, the last entry
	// is the latest)
	More []int `json:"more,omitempty"`
	// Var selects the rest of the member record carried by the event (address
	// in either byte form or none, port, status, protocol numbers): the same
	// member may arrive with another address, different members with the same.
	Var int `json:"v,omitempty"`
}

type c17Case struct {
	Steps []c17Step `json:"steps"`
	// Loop: run the same steps through the real coalesceLoop (timers, channels)
	// instead of calling Handle/Coalesce/Flush directly; a flush step is then a
	// pause. Quantum boundaries are the timers' business there, so only the
	// claims that hold for ANY cut are judged.
	Loop bool `json:"loop,omitempty"`
	// Names: the member names of this case (index = Member); empty = node0..3.
	Names []string `json:"names,omitempty"`
	// SmallOut: 0 = every flush goes to a roomy channel; n>0 = to a channel of
	// capacity n-1 that a consumer goroutine drains while Flush runs (as the
	// event pipeline behind coalesceLoop does).
	SmallOut int `json:"small_out,omitempty"`
}

var c17Kinds = []serf.EventType{serf.EventMemberJoin, serf.EventMemberLeave, serf.EventMemberFailed, serf.EventMemberUpdate, serf.EventMemberReap}

// names that are easy to confuse, contain the separators used elsewhere in
// serf, or are empty: each is a member of its own
var c17OddNames = []string{"", " ", "a", "A", "a ", " a", "a:b", "a/b", "a=b", "a.b", "node1", "node10", "Node1", "node1\x00", "n\u00f6de"}

func genC17(t *rapid.T) c17Case {
	n := rapid.IntRange(1, 40).Draw(t, "n")
	nm := rapid.IntRange(1, 4).Draw(t, "members")
	var c c17Case
	if rapid.IntRange(0, 2).Draw(t, "oddNames") == 0 {
		perm := rapid.Permutation(c17OddNames).Draw(t, "names")
		c.Names = append([]string(nil), perm[:nm]...)
	}
	for i := 0; i < n; i++ {
		k := rapid.SampledFrom([]int{0, 1, 2, 3, 3, 4, 5, 5}).Draw(t, "kind")
		st := c17Step{Kind: k, Member: rapid.IntRange(0, nm-1).Draw(t, "m"), Tag: rapid.IntRange(0, 3).Draw(t, "tag")}
		if k < 5 && rapid.IntRange(0, 4).Draw(t, "multi") == 0 {
			st.More = rapid.SliceOfN(rapid.IntRange(0, nm-1), 1, 3).Draw(t, "more")
		}
		if k < 5 && rapid.IntRange(0, 1).Draw(t, "varied") == 0 {
			st.Var = rapid.IntRange(0, 34).Draw(t, "var")
		}
		c.Steps = append(c.Steps, st)
	}
	c.Steps = append(c.Steps, c17Step{Kind: 5})
	c.Loop = rapid.IntRange(0, 23).Draw(t, "loop") == 0
	if rapid.IntRange(0, 3).Draw(t, "smallOut") == 0 {
		c.SmallOut = rapid.IntRange(1, 3).Draw(t, "outCap")
	}
	return c
}

func (c *c17Case) name(m int) string {
	if m < len(c.Names) {
		return c.Names[m]
	}
	return fmt.Sprintf("node%d", m)
}

// event builds the member event of step si. Every entry is unique (tag "s" is
// its serial number), so "the latest event received for the member" names
// exactly one record.
func (c *c17Case) event(si int) serf.MemberEvent {
	st := c.Steps[si]
	ev := serf.MemberEvent{Type: c17Kinds[st.Kind]}
	for j, m := range append([]int{st.Member}, st.More...) {
		v := st.Var + j
		mem := serf.Member{
			Name: c.name(m),
			// every entry gets its own tag value so that "the latest" is decidable
			Tags:        map[string]string{"t": fmt.Sprint(st.Tag + 10*j), "s": fmt.Sprint(si*10 + j)},
			Port:        uint16(7946 + v%3),
			Status:      serf.MemberStatus(v % 5),
			ProtocolCur: uint8(v % 6),
			DelegateCur: uint8(v % 4),
		}
		switch v % 5 {
		case 1:
			mem.Addr = net.IP{10, 0, 0, 1} // shared by every member that draws it
		case 2:
			mem.Addr = net.IPv4(10, 0, 0, 1) // the same address in its 16-byte form
		case 3:
			mem.Addr = net.IP{10, 0, 0, byte(10 + m)}
		case 4:
			mem.Addr = net.ParseIP(fmt.Sprintf("fd00::%d", m+1))
		}
		ev.Members = append(ev.Members, mem)
	}
	return ev
}

// bodyC17Loop drives the real loop. Judged (valid for every way the timers cut
// the stream into quanta): everything reported was received; a member is not
// reported more often than it had events; once the stream is quiet the kind
// last reported for each member equals the kind of its latest event; events the
// coalescer does not handle pass through unchanged, once, in order.
func bodyC17Loop(c c17Case, x *vkit.Ctx) {
	out := make(chan serf.Event, 4096)
	shutdown := make(chan struct{})
	in := serf.VerifCoalescedEventCh(out, shutdown, 3*time.Millisecond, time.Millisecond, serf.VerifNewMemberCoalescer())
	defer close(shutdown)
	type rec struct {
		kind   serf.EventType
		serial string
	}
	received := map[string]map[rec]serf.Member{}
	count := map[string]int{}
	latest := map[string]serf.EventType{}
	var passSent []string
	for si, st := range c.Steps {
		if st.Kind == 5 {
			time.Sleep(6 * time.Millisecond)
			// a user event in between: must pass straight through
			name := fmt.Sprintf("pass-%d", si)
			passSent = append(passSent, name)
			in <- serf.UserEvent{Name: name, LTime: serf.LamportTime(si)}
			continue
		}
		ev := c.event(si)
		for _, mem := range c.event(si).Members { // a copy of its own for the oracle
			if received[mem.Name] == nil {
				received[mem.Name] = map[rec]serf.Member{}
			}
			received[mem.Name][rec{ev.Type, mem.Tags["s"]}] = mem
			count[mem.Name]++
			latest[mem.Name] = ev.Type
		}
		in <- ev
	}
	// No timer decides when the stream is "quiet" (an earlier version waited
	// for 60 ms of silence and raised false alarms on a loaded machine). The
	// loop is one goroutine that handles its input in order, so two markers
	// delimit the output exactly: a member event for a name of its own (never
	// reported before, so it is never suppressed) is sent last; the flush that
	// reports it reports everything that was pending. Once that report is
	// seen a pass-through event is sent; the loop emits it only after that
	// flush has returned, so when it arrives every report of the flush has
	// been received (the channel is FIFO).
	const sentinel = "\x00c17-sentinel"
	const finalPass = "pass-final"
	mon := vkit.StartMonitor()
	defer mon.Stop()
	in <- serf.MemberEvent{Type: serf.EventMemberJoin, Members: []serf.Member{{Name: sentinel}}}
	lastRep := map[string]serf.EventType{}
	reports := map[string]int{}
	var passGot []string
	deadline := time.NewTimer(10 * time.Second)
	defer deadline.Stop()
	sawSentinel := false
	for done := false; !done; {
		select {
		case e := <-out:
			switch v := e.(type) {
			case serf.MemberEvent:
				for _, m := range v.Members {
					if m.Name == sentinel {
						if sawSentinel {
							x.Violationf("loop-reported-too-often", "loop: the closing marker member had 1 event but was reported twice")
							return
						}
						sawSentinel = true
						in <- serf.UserEvent{Name: finalPass}
						continue
					}
					if sent, ok := received[m.Name][rec{v.Type, m.Tags["s"]}]; !ok || !reflect.DeepEqual(sent, m) {
						x.Violationf("loop-reported-never-received", "loop: member %q reported with %v and record %+v, which was never received", m.Name, v.Type, m)
						return
					}
					lastRep[m.Name] = v.Type
					reports[m.Name]++
				}
			case serf.UserEvent:
				if v.Name == finalPass {
					done = true
					break
				}
				passGot = append(passGot, v.Name)
			}
		case <-deadline.C:
			if g := mon.MaxGap(); g > time.Second {
				x.Inconclusive("loop-starved")
				return
			}
			x.Violationf("loop-report-missing", "loop: 10 s after the last event (no scheduler stall) the closing marker member reported=%v, the pass-through event sent after it has not arrived", sawSentinel)
			return
		}
	}
	for m, k := range latest {
		if reports[m] > count[m] {
			x.Violationf("loop-reported-too-often", "loop: member %q had %d events but was reported %d times", m, count[m], reports[m])
			return
		}
		if got, ok := lastRep[m]; !ok || got != k {
			x.Violationf("loop-app-kind-differs", "loop: every pending event flushed, member %q: the application last saw %v (reported=%v), its latest event is %v", m, got, ok, k)
			return
		}
	}
	if fmt.Sprint(passGot) != fmt.Sprint(passSent) {
		x.Violationf("loop-passthrough", "loop: pass-through events sent %v, received %v", passSent, passGot)
		return
	}
	x.Label("real-coalesce-loop")
	x.NonTrivial(len(latest) > 0 && len(passSent) > 1)
}

func bodyC17(c c17Case, x *vkit.Ctx) {
	if c.Loop {
		bodyC17Loop(c, x)
		return
	}
	co := serf.VerifNewMemberCoalescer()
	type pend struct {
		kind serf.EventType
		mem  serf.Member // the whole record carried by the event
	}
	same := func(a, b pend) bool { return a.kind == b.kind && reflect.DeepEqual(a.mem, b.mem) }
	pending := map[string]pend{}                // model: latest event since previous flush
	lastReported := map[string]serf.EventType{} // model: kind last reported
	lastSeenByApp := map[string]serf.EventType{}
	latestKind := map[string]serf.EventType{} // kind of the latest event ever received
	flushes, suppressed, d5shape := 0, 0, false
	multi, readdressed := 0, 0
	lastAddr := map[string]string{}
	updatedEarlier := map[string]bool{} // member had an update reported in an earlier quantum
	for si, st := range c.Steps {
		if st.Kind < 5 {
			ev := c.event(si)
			if !co.Handle(ev) {
				x.Violationf("handle-refused", "step %d: coalescer refused member event kind %v", si, ev.Type)
				return
			}
			co.Coalesce(ev)
			for _, mem := range c.event(si).Members { // the oracle's own copy
				pending[mem.Name] = pend{ev.Type, mem}
				latestKind[mem.Name] = ev.Type
				if a, ok := lastAddr[mem.Name]; ok && a != mem.Addr.String() {
					readdressed++
				}
				lastAddr[mem.Name] = mem.Addr.String()
			}
			if len(st.More) > 0 {
				multi++
			}
			continue
		}
		// flush
		flushes++
		var events []serf.Event
		if c.SmallOut == 0 {
			out := make(chan serf.Event, 64)
			co.Flush(out)
			close(out)
			for e := range out {
				events = append(events, e)
			}
		} else {
			// a channel that fills: Flush must still hand over every report
			// before it returns (coalesceLoop flushes into the application's
			// event pipeline, whose capacity is whatever the application chose)
			out := make(chan serf.Event, c.SmallOut-1)
			done := make(chan struct{})
			go func() {
				defer close(done)
				for e := range out {
					events = append(events, e)
				}
			}()
			co.Flush(out)
			close(out)
			<-done
		}
		got := map[string]pend{}
		for _, e := range events {
			me, ok := e.(serf.MemberEvent)
			if !ok {
				x.Violationf("flush-non-member", "step %d: flush emitted %T", si, e)
				return
			}
			for _, m := range me.Members {
				if _, dup := got[m.Name]; dup {
					x.Violationf("member-twice-in-flush", "step %d: member %q reported twice in one flush", si, m.Name)
					return
				}
				got[m.Name] = pend{me.Type, m}
			}
		}
		want := map[string]pend{}
		for name, p := range pending {
			if last, ok := lastReported[name]; ok && last == p.kind && p.kind != serf.EventMemberUpdate {
				suppressed++
				continue
			}
			want[name] = p
		}
		// the D5 shape: an earlier quantum reported an update for a member
		// that has no event in this (non-empty) quantum
		if len(pending) > 0 {
			for name := range updatedEarlier {
				if _, has := pending[name]; !has {
					d5shape = true
				}
			}
		}
		names := map[string]bool{}
		for n := range got {
			names[n] = true
		}
		for n := range want {
			names[n] = true
		}
		var ns []string
		for n := range names {
			ns = append(ns, n)
		}
		sort.Strings(ns)
		for _, n := range ns {
			g, gok := got[n]
			w, wok := want[n]
			switch {
			case gok && !wok:
				if _, had := pending[n]; !had {
					x.Violationf("stale-report", "step %d (flush #%d): member %q reported (%v) although it had no new event since the previous flush", si, flushes, n, g.kind)
				} else {
					x.Violationf("unsuppressed-same-kind", "step %d: member %q reported %v again although same kind as last report", si, n, g.kind)
				}
				return
			case !gok && wok:
				x.Violationf("missing-report", "step %d: member %q should be reported with %v, was not", si, n, w.kind)
				return
			case !same(g, w):
				if g.kind == w.kind && g.mem.Tags["s"] == w.mem.Tags["s"] {
					x.Violationf("record-differs", "step %d: member %q reported with the latest event's kind %v but the record %+v, the event carried %+v", si, n, g.kind, g.mem, w.mem)
				} else {
					x.Violationf("not-latest", "step %d: member %q reported %v/tag%s (event #%s), latest is %v/tag%s (event #%s)", si, n, g.kind, g.mem.Tags["t"], g.mem.Tags["s"], w.kind, w.mem.Tags["t"], w.mem.Tags["s"])
				}
				return
			}
		}
		for n, g := range got {
			lastReported[n] = g.kind
			lastSeenByApp[n] = g.kind
			if g.kind == serf.EventMemberUpdate {
				updatedEarlier[n] = true
			} else {
				delete(updatedEarlier, n)
			}
		}
		pending = map[string]pend{}
		// "the kind the application last saw for each member always equals the kind of the latest event"
		for n, k := range latestKind {
			if lastSeenByApp[n] != k {
				x.Violationf("app-kind-differs", "after flush #%d: member %q: application last saw %v, latest event kind %v", flushes, n, lastSeenByApp[n], k)
				return
			}
			if hk, ok := serf.VerifMemberCoalescerLastKind(co, n); !ok || hk != k {
				x.Violationf("lastkind-state", "after flush #%d: member %q: coalescer lastEvents=%v,%v latest %v", flushes, n, hk, ok, k)
				return
			}
		}
	}
	x.Labelf("flushes=%d", min(flushes, 5))
	if suppressed > 0 {
		x.Label("same-kind-suppression")
	}
	if d5shape {
		x.Label("update-then-silent-quantum")
	}
	if multi > 0 {
		x.Label("multi-member-event")
	}
	if len(c.Names) > 0 {
		x.Label("odd-names")
	}
	if readdressed > 0 {
		x.Label("member-changed-address")
	}
	if c.SmallOut > 0 {
		x.Labelf("flush-into-channel-cap=%d", c.SmallOut-1)
	}
	x.NonTrivial(flushes >= 2 && (d5shape || suppressed > 0))
}

func TestC17(t *testing.T) { vkit.Run(t, "C17", genC17, bodyC17) }
