//go:build verif && verifoverlay

package clientp

import "github.com/hashicorp/serf/client"

// Built with the "clientlocks" overlay of /verif/overlaygen: the client's
// mutexes call a hook before acquiring and after releasing.
func init() { setLockHook = client.VerifSetLockHook }
