//go:build verif

package clientp

import (
	"fmt"
	"net"
	"os"
	"sync/atomic"
)

// loopbackListen listens on a loopback address of its own (127.x.y.z:0, a
// different one every time). Every listener on 127.0.0.1 shares one space of
// ephemeral ports with all the client sockets lingering in TIME_WAIT there;
// in long runs that space ran out ("bind: address already in use").
var loopbackSeq atomic.Uint32

func loopbackListen() (net.Listener, error) {
	k := loopbackSeq.Add(1)
	pid := uint32(os.Getpid())
	addr := fmt.Sprintf("127.%d.%d.%d:0", 16+pid%200, (k/250)%250, 1+k%250)
	ln, err := net.Listen("tcp", addr)
	if err != nil {
		return net.Listen("tcp", "127.0.0.1:0")
	}
	return ln, nil
}
