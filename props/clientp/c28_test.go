//go:build verif

package clientp

import (
	"bufio"
	"bytes"
	"fmt"
	"io"
	"log"
	"net"
	"runtime"
	"sync/atomic"
	"testing"
	"time"

	"github.com/hashicorp/go-msgpack/v2/codec"
	"github.com/hashicorp/logutils"
	"github.com/hashicorp/serf/client"
	"pgregory.net/rapid"

	"verif/internal/vkit"
)

// C28 — the RPC client never panics and closes subscriber channels once.
//
// The harness owns both ends: a fake agent on loopback TCP (it answers the
// handshake, accepts stream / monitor / query / stop / members requests and
// writes response headers and record bodies as separate TCP writes where the
// script says so) and the real client.RPCClient, on which the script issues
// Stop / Close / new requests. A split record is: agent writes the record
// header; the harness waits until the client's reader goroutine is inside the
// subscription's Handle and blocked on the network (seen in the goroutine dump:
// the handler was looked up and the reader is parked in the body decode); the
// scripted action runs (for Stop the harness waits until the stop request
// reaches the agent, i.e. the local deregistration is over); the agent writes
// the body; only then does the agent answer whatever request is outstanding
// (an agent never interleaves a response into a record).
//
// Two more ways a client ends: a subscription request that the agent has read
// but not answered when Close / the hang-up comes (the waiting call and Close
// both see the handler), and Close from several goroutines at once, also while
// the agent hangs up (free-running; every case ends with such a concurrent
// Close if the script left the client open).
//
// Panics of client code are NOT recovered: "send on closed channel" or
// "close of closed channel" in the reader goroutine kills the process and the
// driver (crash_oracle) reports the case that was running.

type c28Op struct {
	K       string `json:"k"`               // stream | monitor | query | rec | burst | stop | members | close | hangup | openx | closerace
	Sub     int    `json:"sub,omitempty"`   // subscription index (mod number of subscriptions)
	Split   bool   `json:"split,omitempty"` // rec: header and body as separate writes
	Mid     string `json:"mid,omitempty"`   // rec+split: "", stop, stop-other, close, hangup, stream, monitor, query, members
	Sub2    int    `json:"sub2,omitempty"`  // stop-other target
	Typ     int    `json:"typ,omitempty"`   // record flavour; for a query: 0 ack, 1 response, 2 done
	Cap     int    `json:"cap,omitempty"`   // subscriber channel capacity (open ops)
	InitErr bool   `json:"initerr,omitempty"`
	NoAck   bool   `json:"noack,omitempty"` // query without an ack channel
	N       int    `json:"n,omitempty"`     // burst: number of records
	With    string `json:"with,omitempty"`  // burst: concurrent client action: stop | close; openx: close | hangup
	// openx: a stream/monitor/query request (kind in Mid) that the agent has read
	// but not answered when the client is closed (With: close) or the agent hangs
	// up (With: hangup). closerace: N concurrent Close calls released together,
	// with With == "hangup" the agent closes the connection at the same moment.
}

type c28Case struct {
	Ops []c28Op `json:"ops"`
}

func genC28(t *rapid.T) c28Case {
	var c c28Case
	open := func() c28Op {
		return c28Op{
			K:       rapid.SampledFrom([]string{"stream", "stream", "stream", "monitor", "monitor", "query"}).Draw(t, "open"),
			Cap:     rapid.SampledFrom([]int{0, 1, 1, 4, 16}).Draw(t, "cap"),
			InitErr: rapid.IntRange(0, 14).Draw(t, "initerr") == 0,
			NoAck:   rapid.IntRange(0, 3).Draw(t, "noack") == 0,
		}
	}
	c.Ops = append(c.Ops, open())
	c.Ops[0].InitErr = false
	n := rapid.IntRange(1, 12).Draw(t, "n")
	for i := 0; i < n; i++ {
		k := rapid.SampledFrom([]string{"open", "rec", "rec", "rec", "rec", "rec", "burst", "stop", "members", "close", "hangup", "openx", "closerace"}).Draw(t, "k")
		if (k == "close" || k == "hangup" || k == "openx" || k == "closerace") && rapid.IntRange(0, 2).Draw(t, "lateclose") != 0 {
			k = "rec" // closing early makes the rest of the script trivial
		}
		switch k {
		case "open":
			c.Ops = append(c.Ops, open())
		case "rec":
			op := c28Op{K: "rec", Sub: rapid.IntRange(0, 3).Draw(t, "sub"), Typ: rapid.IntRange(0, 2).Draw(t, "typ")}
			if op.Typ == 2 && rapid.Bool().Draw(t, "notdone") {
				op.Typ = 0
			}
			op.Split = rapid.IntRange(0, 3).Draw(t, "split") != 0
			if op.Split {
				op.Mid = rapid.SampledFrom([]string{"", "stop", "stop", "stop", "stop", "stop-other", "close", "hangup", "stream", "monitor", "query", "members"}).Draw(t, "mid")
				if op.Mid == "stop-other" {
					op.Sub2 = rapid.IntRange(0, 3).Draw(t, "sub2")
				}
				if op.Mid == "stream" || op.Mid == "monitor" || op.Mid == "query" {
					op.Cap = rapid.SampledFrom([]int{0, 1, 4}).Draw(t, "midcap")
				}
			}
			c.Ops = append(c.Ops, op)
		case "burst":
			c.Ops = append(c.Ops, c28Op{K: "burst", Sub: rapid.IntRange(0, 3).Draw(t, "sub"), N: rapid.IntRange(1, 20).Draw(t, "bn"),
				With: rapid.SampledFrom([]string{"stop", "stop", "stop", "close"}).Draw(t, "with")})
		case "stop":
			c.Ops = append(c.Ops, c28Op{K: "stop", Sub: rapid.IntRange(0, 3).Draw(t, "sub")})
		case "openx":
			c.Ops = append(c.Ops, c28Op{K: "openx",
				Mid:   rapid.SampledFrom([]string{"stream", "monitor", "query"}).Draw(t, "xkind"),
				Cap:   rapid.SampledFrom([]int{0, 1, 4}).Draw(t, "xcap"),
				NoAck: rapid.Bool().Draw(t, "xnoack"),
				With:  rapid.SampledFrom([]string{"close", "close", "hangup"}).Draw(t, "xwith")})
		case "closerace":
			c.Ops = append(c.Ops, c28Op{K: "closerace", N: rapid.IntRange(2, 4).Draw(t, "closers"),
				With: rapid.SampledFrom([]string{"", "hangup", "hangup"}).Draw(t, "rwith")})
		default:
			c.Ops = append(c.Ops, c28Op{K: k})
		}
	}
	return c
}

// ---- wire structs (same field names as the unexported ones of package client)

type c28ReqHeader struct {
	Command string
	Seq     uint64
}

type c28RespHeader struct {
	Seq   uint64
	Error string
}

type c28Req struct {
	cmd  string
	seq  uint64
	body map[string]any
}

var c28NoBody = map[string]bool{"members": true, "leave": true, "stats": true, "list-keys": true}

func c28Handle() *codec.MsgpackHandle {
	return &codec.MsgpackHandle{WriteExt: true}
}

func c28Enc(v any) []byte {
	var buf bytes.Buffer
	if err := codec.NewEncoder(&buf, c28Handle()).Encode(v); err != nil {
		panic("harness: cannot encode: " + err.Error())
	}
	return buf.Bytes()
}

// ---- subscriptions

type c28Sub struct {
	kind   string
	seq    uint64
	handle client.StreamHandle
	evCh   chan map[string]any
	logCh  chan string
	ackCh  chan string
	respCh chan client.NodeResponse
	initOK bool
	reg    bool // model: the client still has a handler registered for seq
	done   bool // query: done record sent
	sent   int
}

type c28Call struct {
	handle client.StreamHandle
	err    error
}

type c28Pending struct {
	what string // stop | stream | monitor | query | members
	res  chan c28Call
	req  c28Req
	sub  *c28Sub // for open kinds
}

type c28H struct {
	x      *vkit.Ctx
	ln     net.Listener
	srv    net.Conn
	reqs   chan c28Req
	cl     *client.RPCClient
	subs   []*c28Sub
	closed bool
	// evidence
	midSameSeq  int
	parkMissed  int
	nPostClose  int
	splitRecs   int
	unsplit     int
	bursts      int
	recsToGone  int
	hungUp      bool
	openX       int
	closeRaces  int
	midKinds    map[string]int
	inconReason string
}

const c28Wait = 10 * time.Second

func (h *c28H) incon(reason string) bool {
	if h.inconReason == "" {
		h.inconReason = reason
	}
	return false
}

func (h *c28H) agentRead(conn net.Conn) {
	dec := codec.NewDecoder(bufio.NewReader(conn), c28Handle())
	for {
		var hd c28ReqHeader
		if err := dec.Decode(&hd); err != nil {
			return
		}
		r := c28Req{cmd: hd.Command, seq: hd.Seq}
		if !c28NoBody[hd.Command] {
			if err := dec.Decode(&r.body); err != nil {
				return
			}
		}
		h.reqs <- r
	}
}

func (h *c28H) expect(cmd string) (c28Req, bool) {
	select {
	case r := <-h.reqs:
		if r.cmd != cmd {
			return r, h.incon(fmt.Sprintf("agent expected a %s request, got %s", cmd, r.cmd))
		}
		return r, true
	case <-time.After(c28Wait):
		return c28Req{}, h.incon("agent did not receive the " + cmd + " request in time")
	}
}

// write sends bytes to the client; errors are expected once the client has
// closed the connection and are ignored.
func (h *c28H) write(b []byte) {
	_ = h.srv.SetWriteDeadline(time.Now().Add(c28Wait))
	_, _ = h.srv.Write(b)
}

func (h *c28H) respond(seq uint64, errStr string, body any) {
	b := c28Enc(&c28RespHeader{Seq: seq, Error: errStr})
	if body != nil {
		b = append(b, c28Enc(body)...)
	}
	h.write(b)
}

func (h *c28H) join(ch chan c28Call, what string) (c28Call, bool) {
	select {
	case r := <-ch:
		return r, true
	case <-time.After(c28Wait):
		return c28Call{}, h.incon("client call did not return in time: " + what)
	}
}

var c28StackBuf = make([]byte, 1<<18)

// c28Stacks dumps all goroutines (only ever called from the orchestrating goroutine).
func c28Stacks() []byte {
	return c28StackBuf[:runtime.Stack(c28StackBuf, true)]
}

// waitParked waits until the reader goroutine is inside a subscription
// handler's Handle (the handler has been looked up) and parked in the body
// decode, as seen in the goroutine dump.
func (h *c28H) waitParked() bool {
	deadline := time.Now().Add(2 * time.Second)
	for time.Now().Before(deadline) {
		// the goroutine that is inside a handler's Handle AND blocked on the
		// network: only a record whose body has not been written can do that
		for _, g := range bytes.Split(c28Stacks(), []byte("\n\n")) {
			if !bytes.Contains(g, []byte("Handler).Handle(")) {
				continue
			}
			if nl := bytes.IndexByte(g, '\n'); nl > 0 && bytes.Contains(g[:nl], []byte("IO wait")) {
				return true
			}
		}
		time.Sleep(50 * time.Microsecond)
	}
	return false
}

func (h *c28H) waitNoReader() bool {
	deadline := time.Now().Add(c28Wait)
	for time.Now().Before(deadline) {
		if !bytes.Contains(c28Stacks(), []byte("client.(*RPCClient).listen")) {
			return true
		}
		time.Sleep(100 * time.Microsecond)
	}
	return false
}

func (h *c28H) newSub(op c28Op, kind string) *c28Sub {
	s := &c28Sub{kind: kind}
	switch kind {
	case "stream":
		s.evCh = make(chan map[string]any, op.Cap)
	case "monitor":
		s.logCh = make(chan string, op.Cap)
	default:
		if !op.NoAck {
			s.ackCh = make(chan string, op.Cap)
		}
		s.respCh = make(chan client.NodeResponse, op.Cap)
	}
	return s
}

func (h *c28H) callOpen(s *c28Sub) chan c28Call {
	res := make(chan c28Call, 1)
	go func() {
		var r c28Call
		switch s.kind {
		case "stream":
			r.handle, r.err = h.cl.Stream("*", s.evCh)
		case "monitor":
			r.handle, r.err = h.cl.Monitor(logutils.LogLevel("DEBUG"), s.logCh)
		default:
			p := &client.QueryParam{Name: "q", RequestAck: s.ackCh != nil, RespCh: s.respCh}
			if s.ackCh != nil {
				p.AckCh = s.ackCh
			}
			r.err = h.cl.Query(p)
		}
		res <- r
	}()
	return res
}

// startReq issues a client request in its own goroutine and waits until the
// agent has read it. The response is sent by finishReq.
func (h *c28H) startReq(what string, op c28Op, target *c28Sub) (*c28Pending, bool) {
	p := &c28Pending{what: what, res: make(chan c28Call, 1)}
	switch what {
	case "stop":
		hd := target.handle
		go func() { p.res <- c28Call{err: h.cl.Stop(hd)} }()
		target.reg = false // Stop deregisters locally before it sends anything
	case "members":
		go func() { _, err := h.cl.Members(); p.res <- c28Call{err: err} }()
	default:
		p.sub = h.newSub(op, what)
		p.res = h.callOpen(p.sub)
	}
	var ok bool
	p.req, ok = h.expect(what)
	return p, ok
}

func (h *c28H) finishReq(p *c28Pending, initErr bool) bool {
	switch p.what {
	case "stop":
		h.respond(p.req.seq, "", nil)
	case "members":
		h.respond(p.req.seq, "", map[string]any{"Members": []any{}})
	default:
		e := ""
		if initErr {
			e = "Invalid event filter"
		}
		h.respond(p.req.seq, e, nil)
	}
	r, ok := h.join(p.res, p.what)
	if !ok {
		return false
	}
	if p.sub != nil {
		p.sub.seq, p.sub.handle = p.req.seq, r.handle
		if p.sub.kind == "query" {
			p.sub.handle = client.StreamHandle(p.req.seq)
		}
		p.sub.initOK = !initErr
		p.sub.reg = true // also after an init error: the handler stays until Close
		h.subs = append(h.subs, p.sub)
		if initErr != (r.err != nil) {
			return h.incon(fmt.Sprintf("open %s: init error %v but call returned %v", p.sub.kind, initErr, r.err))
		}
	} else if r.err != nil {
		return h.incon(fmt.Sprintf("%s returned %v on an open client", p.what, r.err))
	}
	return true
}

func (h *c28H) record(s *c28Sub, typ int) (hdr, body []byte) {
	s.sent++
	hdr = c28Enc(&c28RespHeader{Seq: s.seq})
	switch s.kind {
	case "stream":
		switch typ {
		case 0:
			body = c28Enc(map[string]any{"Event": "user", "LTime": uint64(s.sent), "Name": "deploy", "Payload": []byte(fmt.Sprintf("p%d", s.sent)), "Coalesce": true})
		case 1:
			body = c28Enc(map[string]any{"Event": "member-join", "Members": []any{map[string]any{"Name": fmt.Sprintf("n%d", s.sent), "Status": "alive"}}})
		default:
			body = c28Enc(map[string]any{"Event": "query", "ID": uint64(s.sent), "LTime": uint64(s.sent), "Name": "q", "Payload": []byte{}})
		}
	case "monitor":
		body = c28Enc(map[string]any{"Log": fmt.Sprintf("2026/01/01 [INFO] line %d", s.sent)})
	default:
		t := []string{"ack", "response", "done"}[typ%3]
		body = c28Enc(map[string]any{"Type": t, "From": fmt.Sprintf("n%d", s.sent), "Payload": []byte("r")})
	}
	return
}

func (h *c28H) markClosed() {
	h.closed = true
	for _, s := range h.subs {
		s.reg = false
	}
}

func (h *c28H) hangup() bool {
	_ = h.srv.Close()
	h.hungUp = true
	deadline := time.Now().Add(c28Wait)
	for !h.cl.IsClosed() {
		if time.Now().After(deadline) {
			h.x.Violationf("no-close-after-hangup", "the agent closed the connection; 10 s later the client is still not closed")
			return false
		}
		time.Sleep(100 * time.Microsecond)
	}
	h.markClosed()
	return true
}

// postClose: a request on a closed client must return an error, and a
// subscriber channel handed to it must end up closed.
func (h *c28H) postClose(what string, op c28Op) bool {
	h.nPostClose++
	res := make(chan c28Call, 1)
	var sub *c28Sub
	switch what {
	case "stop":
		var hd client.StreamHandle
		if len(h.subs) > 0 {
			hd = h.subs[op.Sub%len(h.subs)].handle
		}
		go func() { res <- c28Call{err: h.cl.Stop(hd)} }()
	case "members":
		go func() { _, err := h.cl.Members(); res <- c28Call{err: err} }()
	default:
		sub = h.newSub(op, what)
		res = h.callOpen(sub)
	}
	select {
	case r := <-res:
		if r.err == nil {
			h.x.Violationf("request-after-close-succeeds", "%s on a closed client returned no error", what)
			return false
		}
	case <-time.After(c28Wait):
		h.x.Violationf("request-after-close-hangs", "%s on a closed client did not return within %v", what, c28Wait)
		return false
	}
	if sub != nil {
		// never registered with the agent; its channels must be closed all the same
		sub.seq = 0
		h.subs = append(h.subs, sub)
	}
	return true
}

func c28Drain[T any](ch chan T, wait time.Duration) (n int, closed bool) {
	if ch == nil {
		return 0, true
	}
	t := time.NewTimer(wait)
	defer t.Stop()
	for {
		select {
		case _, ok := <-ch:
			if !ok {
				return n, true
			}
			n++
		case <-t.C:
			return n, false
		}
	}
}

// closeRace calls Close from n goroutines released together (they spin on a
// flag, so those that are on a processor start within nanoseconds of each
// other); with hangup the agent closes the connection at the same moment, so
// the client's reader goroutine closes the client as well.
func (h *c28H) closeRace(n int, hangup bool) bool {
	h.closeRaces++
	n = min(max(n, 2), 8)
	// every subscription the client still has registered is stopped at the same
	// moment by a goroutine of its own: Stop and Close both take the handler out
	// of the dispatch table and clean it up (the Stop's request may fail on the
	// closing connection; the call just has to come back)
	var stops []client.StreamHandle
	for _, sub := range h.subs {
		if sub.reg && sub.initOK && len(stops) < 3 {
			stops = append(stops, sub.handle)
			sub.reg = false
		}
	}
	total := n + len(stops)
	var ready, goFlag atomic.Int64
	done := make(chan struct{}, total)
	for i := 0; i < total; i++ {
		i := i
		go func() {
			ready.Add(1)
			for spin := 0; goFlag.Load() == 0; spin++ {
				if spin > 1<<14 {
					runtime.Gosched()
				}
			}
			if i < n {
				_ = h.cl.Close()
			} else {
				_ = h.cl.Stop(stops[i-n])
			}
			done <- struct{}{}
		}()
	}
	n = total
	for ready.Load() < int64(n) {
		runtime.Gosched()
	}
	if hangup {
		_ = h.srv.Close()
		h.hungUp = true
	}
	goFlag.Store(1)
	for i := 0; i < n; i++ {
		select {
		case <-done:
		case <-time.After(c28Wait):
			return h.incon("concurrent Close did not return in time")
		}
	}
	return true
}

func (h *c28H) run(c c28Case) bool {
	x := h.x
	for oi, op := range c.Ops {
		if x.Failed() || h.inconReason != "" {
			return false
		}
		kind := op.K
		if h.closed {
			switch kind {
			case "stream", "monitor", "query", "stop", "members":
				if !h.postClose(kind, op) {
					return false
				}
			case "openx":
				if !h.postClose(op.Mid, op) {
					return false
				}
			case "close", "closerace":
				if err := h.cl.Close(); err != nil {
					x.Violationf("second-close-error", "op %d: Close on a closed client returned %v", oi, err)
					return false
				}
			}
			continue
		}
		switch kind {
		case "stream", "monitor", "query":
			p, ok := h.startReq(kind, op, nil)
			if !ok || !h.finishReq(p, op.InitErr) {
				return false
			}
		case "members":
			p, ok := h.startReq("members", op, nil)
			if !ok || !h.finishReq(p, false) {
				return false
			}
		case "stop":
			if len(h.subs) == 0 {
				continue
			}
			s := h.subs[op.Sub%len(h.subs)]
			if s.kind == "query" {
				continue // a query has no handle
			}
			p, ok := h.startReq("stop", op, s)
			if !ok || !h.finishReq(p, false) {
				return false
			}
		case "close":
			_ = h.cl.Close()
			h.markClosed()
		case "hangup":
			if !h.hangup() {
				return false
			}
		case "openx":
			// a subscription request the agent has read but not answered when the
			// connection ends: the waiting call and Close both see the handler
			if op.Mid != "stream" && op.Mid != "monitor" && op.Mid != "query" {
				return h.incon("malformed openx op")
			}
			h.openX++
			sub := h.newSub(op, op.Mid)
			res := h.callOpen(sub)
			if _, ok := h.expect(op.Mid); !ok {
				return false
			}
			if op.With == "hangup" {
				if !h.hangup() {
					return false
				}
			} else {
				_ = h.cl.Close()
				h.markClosed()
			}
			if _, ok := h.join(res, "open interrupted by "+op.With); !ok {
				return false
			}
			// never acknowledged; its channels must be closed (once) all the same
			sub.seq = 0
			h.subs = append(h.subs, sub)
		case "closerace":
			// Close from several goroutines at once, optionally while the agent
			// hangs up (the reader goroutine then closes the client as well)
			if !h.closeRace(op.N, op.With == "hangup") {
				return false
			}
			h.markClosed()
		case "burst":
			if len(h.subs) == 0 {
				continue
			}
			s := h.subs[op.Sub%len(h.subs)]
			if !s.initOK || s.done {
				continue
			}
			h.bursts++
			var buf []byte
			for i := 0; i < max(1, op.N); i++ {
				hd, bd := h.record(s, i%2)
				buf = append(buf, append(hd, bd...)...)
			}
			if op.With == "close" || s.kind == "query" {
				done := make(chan struct{})
				go func() { _ = h.cl.Close(); close(done) }()
				h.write(buf)
				select {
				case <-done:
				case <-time.After(c28Wait):
					return h.incon("Close did not return in time")
				}
				h.markClosed()
				continue
			}
			// free-running: Stop races with the records
			res := make(chan c28Call, 1)
			hd := s.handle
			go func() { res <- c28Call{err: h.cl.Stop(hd)} }()
			h.write(buf)
			s.reg = false
			rq, ok := h.expect("stop")
			if !ok {
				return false
			}
			h.respond(rq.seq, "", nil)
			if _, ok := h.join(res, "stop (burst)"); !ok {
				return false
			}
		case "rec":
			if len(h.subs) == 0 {
				continue
			}
			s := h.subs[op.Sub%len(h.subs)]
			if !s.initOK || s.done || s.seq == 0 {
				continue
			}
			typ := op.Typ
			hdr, body := h.record(s, typ)
			isDone := s.kind == "query" && typ%3 == 2
			if !s.reg {
				h.recsToGone++
			}
			if !op.Split {
				h.unsplit++
				h.write(append(hdr, body...))
				if isDone {
					s.done, s.reg = true, false
				}
				continue
			}
			h.splitRecs++
			h.write(hdr)
			parked := false
			if s.reg {
				parked = h.waitParked()
				if !parked {
					h.parkMissed++
				}
			}
			mid := op.Mid
			if mid == "stop" && s.kind == "query" {
				mid = "close" // a query has no handle; Close is what ends it early
			}
			var other *c28Sub
			if mid == "stop-other" {
				other = h.subs[op.Sub2%len(h.subs)]
				if other.kind == "query" || other == s {
					mid = ""
				}
			}
			h.midKinds[mid]++
			var pend *c28Pending
			ok := true
			switch mid {
			case "stop":
				wasReg := s.reg
				pend, ok = h.startReq("stop", op, s)
				if ok && wasReg && parked {
					h.midSameSeq++
				}
			case "stop-other":
				pend, ok = h.startReq("stop", op, other)
			case "close":
				wasReg := s.reg
				_ = h.cl.Close()
				h.markClosed()
				if wasReg && parked {
					h.midSameSeq++
				}
			case "hangup":
				if !h.hangup() {
					return false
				}
			case "stream", "monitor", "query", "members":
				pend, ok = h.startReq(mid, op, nil)
			}
			if !ok {
				return false
			}
			h.write(body)
			if isDone && !h.closed {
				s.done, s.reg = true, false
			}
			if pend != nil && !h.finishReq(pend, false) {
				return false
			}
		}
	}
	return !x.Failed() && h.inconReason == ""
}

func bodyC28(c c28Case, x *vkit.Ctx) {
	h := &c28H{x: x, reqs: make(chan c28Req, 64), midKinds: map[string]int{}}
	ln, err := loopbackListen()
	if err != nil {
		x.Inconclusive("cannot listen on loopback: " + err.Error())
		return
	}
	h.ln = ln
	defer ln.Close()

	// connect: ClientFromConfig blocks in the handshake, which the agent answers
	type mk struct {
		cl  *client.RPCClient
		err error
	}
	mkCh := make(chan mk, 1)
	go func() {
		cl, err := client.ClientFromConfig(&client.Config{Addr: ln.Addr().String(), Timeout: c28Wait})
		mkCh <- mk{cl, err}
	}()
	_ = ln.(*net.TCPListener).SetDeadline(time.Now().Add(c28Wait))
	srv, err := ln.Accept()
	if err != nil {
		x.Inconclusive("accept failed: " + err.Error())
		return
	}
	h.srv = srv
	defer srv.Close()
	go h.agentRead(srv)
	hs, ok := h.expect("handshake")
	if !ok {
		x.Inconclusive(h.inconReason)
		return
	}
	h.respond(hs.seq, "", nil)
	var m mk
	select {
	case m = <-mkCh:
	case <-time.After(c28Wait):
		x.Inconclusive("client construction did not finish")
		return
	}
	if m.err != nil {
		x.Inconclusive("client construction failed: " + m.err.Error())
		return
	}
	h.cl = m.cl

	// two scripts in three run with the client's goroutines lingering after
	// they release one of the client's mutexes (see lockYield below)
	lockYield(len(c.Ops) % 3)
	defer lockYield(0)
	okRun := h.run(c)

	// ---- wind down: Close (idempotent; from three goroutines at once if the
	// script left the client open), then the end-state obligations
	if !h.closed && okRun {
		h.closeRace(4, false)
	}
	_ = h.cl.Close()
	h.markClosed()
	if okRun {
		for _, k := range []string{"stream", "monitor", "query", "members", "stop"} {
			if !h.postClose(k, c28Op{Cap: 1}) {
				break
			}
		}
	}
	if !x.Failed() {
		for i, s := range h.subs {
			for name, closed := range map[string]bool{
				"event":    func() bool { _, c := c28Drain(s.evCh, c28Wait); return c }(),
				"log":      func() bool { _, c := c28Drain(s.logCh, c28Wait); return c }(),
				"ack":      func() bool { _, c := c28Drain(s.ackCh, c28Wait); return c }(),
				"response": func() bool { _, c := c28Drain(s.respCh, c28Wait); return c }(),
			} {
				if !closed && !x.Failed() {
					x.Violationf("channel-never-closed", "subscription %d (%s, seq %d): %s channel still open %v after Close", i, s.kind, s.seq, name, c28Wait)
				}
			}
		}
	}
	_ = srv.Close()
	if !h.waitNoReader() && !x.Failed() {
		x.Inconclusive("the client's reader goroutine did not exit after Close")
		return
	}
	if x.Failed() {
		return
	}
	if h.inconReason != "" {
		x.Inconclusive(h.inconReason)
		return
	}

	for k, n := range h.midKinds {
		if k == "" {
			k = "none"
		}
		if n > 0 {
			x.Label("mid=" + k)
		}
	}
	if h.midSameSeq > 0 {
		x.Label("stop-or-close-between-header-and-body-same-seq")
	}
	if h.parkMissed > 0 {
		x.Label("park-unconfirmed")
	}
	if h.splitRecs > 0 {
		x.Label("split-record")
	}
	if h.unsplit > 0 {
		x.Label("unsplit-record")
	}
	if h.bursts > 0 {
		x.Label("burst-vs-stop/close")
	}
	if h.recsToGone > 0 {
		x.Label("record-for-deregistered-seq")
	}
	if h.hungUp {
		x.Label("agent-hangup")
	}
	if h.openX > 0 {
		x.Label("open-unanswered-at-close")
	}
	if h.closeRaces > 0 {
		x.Label("concurrent-close")
	}
	kinds := map[string]bool{}
	for _, s := range h.subs {
		if s.seq != 0 {
			kinds[s.kind] = true
		}
		if s.done {
			x.Label("query-done")
		}
		if !s.initOK && s.seq != 0 {
			x.Label("init-error")
		}
	}
	for k := range kinds {
		x.Label("sub=" + k)
	}
	x.NonTrivial(h.midSameSeq > 0)
}

func TestC28(t *testing.T) {
	log.SetOutput(io.Discard) // the client logs dropped records through the std logger
	vkit.Run(t, "C28", genC28, bodyC28)
}

// setLockHook installs a function that the client's mutexes call before every
// acquire ("lock", "rlock") and after every release ("unlock", "runlock"); it
// does something only when the package is built with the "clientlocks"
// overlay of /verif/overlaygen (see yield_overlay_test.go).
var setLockHook = func(h func(op string)) {}

func linger(d time.Duration) {
	for t0 := time.Now(); time.Since(t0) < d; {
		runtime.Gosched()
	}
}

// lockYield makes every goroutine of the client linger after it released one
// of the client's mutexes: mode 0 not at all, mode 1 for 40us after every
// release, mode 2 for 100us after releasing a read lock. That is where a
// goroutine that tested under one critical section and acts under the next
// (or outside of any) can be overtaken. Lingering is something any scheduler
// may do: it adds schedules and cannot make correct code fail.
func lockYield(mode int) {
	switch mode {
	case 1:
		setLockHook(func(op string) {
			if op == "unlock" || op == "runlock" {
				linger(40 * time.Microsecond)
			}
		})
	case 2:
		setLockHook(func(op string) {
			if op == "runlock" {
				linger(100 * time.Microsecond)
			}
		})
	default:
		setLockHook(nil)
	}
}
