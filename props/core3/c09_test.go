//go:build verif

package core3

import (
	"bytes"
	"fmt"
	"net"
	"os"
	"path/filepath"
	"runtime"
	"sort"
	"strings"
	"sync/atomic"
	"testing"
	"time"

	"github.com/hashicorp/go-msgpack/v2/codec"
	"github.com/hashicorp/memberlist"
	"github.com/hashicorp/serf/coordinate"
	"github.com/hashicorp/serf/serf"
	"pgregory.net/rapid"

	"verif/internal/node"
	"verif/internal/simnet"
	"verif/internal/vkit"
)

// C09 — no network input crashes a node.
//
// A case is a node configuration plus a batch of 1..16 hostile inputs, each
// naming the memberlist-facing entry point it is delivered to. The inputs are
// fully materialised (bytes) in the case, so the current-case file written by
// vkit before the body runs reproduces a crash on its own.
//
// Oracle: the process survives (crash_oracle in checks.d/C09.json: a panic in
// any goroutine kills the test binary and the driver reports the current
// case), and after every input the node still serves: a canary user event is
// delivered to the application and Members() lists the node itself alive.
//
// The harness plays "the wire" synchronously: packets the node addresses to
// itself (acks, replies, relays to its own address) are fed back through
// NotifyMsg by the harness instead of through memberlist's packet goroutines,
// and after every input the harness waits until the goroutines serf started
// for it (internal query handlers, refutes) have finished, so that an
// asynchronous panic lands inside the case that caused it.

const (
	c09Self     = "self"
	c09SelfAddr = "127.0.0.2:7946"
)

var c09SelfIP = []byte{127, 0, 0, 2}

type c09Node struct {
	Name  []byte `json:"name"`
	Addr  []byte `json:"addr"`
	Port  uint16 `json:"port"`
	Meta  []byte `json:"meta"`
	State int    `json:"state"`
	V     [6]int `json:"v"`
}

type c09In struct {
	E       string    `json:"e"`           // entry point
	D       string    `json:"d"`           // generator class (label only)
	B       []byte    `json:"b,omitempty"` // message / remote state / ping payload
	Join    bool      `json:"join,omitempty"`
	RTT     int64     `json:"rtt,omitempty"`
	N       *c09Node  `json:"n,omitempty"`
	N2      *c09Node  `json:"n2,omitempty"`
	Nodes   []c09Node `json:"nodes,omitempty"`
	From    []byte    `json:"from,omitempty"`
	Flags   uint32    `json:"flags,omitempty"`
	Replies [][]byte  `json:"replies,omitempty"`
}

type c09Case struct {
	Encrypt   bool    `json:"encrypt"`
	Members   int     `json:"members"`
	OpenQuery bool    `json:"open_query"`
	OpenNoAck bool    `json:"open_query_no_ack,omitempty"` // the open query did not ask for acks (its ack stream and bookkeeping do not exist)
	MergeErr  bool    `json:"merge_err"`
	Resolve   bool    `json:"resolve"`
	RespLimit int     `json:"resp_limit"`
	In        []c09In `json:"in"`

	// Configuration the node may run with besides the defaults (zero values =
	// the defaults, so older cases keep their meaning):
	PV         int  `json:"pv,omitempty"`          // protocol version 2..5 (0 = library default)
	NoCoord    bool `json:"no_coord,omitempty"`    // network coordinates disabled (memberlist then has no ping delegate: ping inputs are skipped)
	Snapshot   bool `json:"snapshot,omitempty"`    // a snapshot file is kept: every member event, user event and query also passes the snapshotter
	Coalesce   bool `json:"coalesce,omitempty"`    // member and user event coalescing on (1 ms windows)
	Buffers    int  `json:"buffers,omitempty"`     // size of the recent-event and recent-query buffers (0 = default 512)
	ValidNames bool `json:"valid_names,omitempty"` // node name validation on
	KeyFile    int  `json:"key_file,omitempty"`    // with Encrypt: 0 keyring file; 1 keyring but no file; 2 keyring file in a directory that does not exist
	CloseAt    int  `json:"close_at,omitempty"`    // the application closes the open query before input CloseAt-1 (0 = never)
	// Lanes: the inputs are not delivered one after another but the way
	// memberlist's goroutines deliver them: gossip messages in order from the
	// packet goroutine, membership notifications in order from the state
	// machine, probe acks in order from the prober, and every state sync from a
	// stream goroutine of its own - all at the same time.
	Lanes bool `json:"lanes,omitempty"`
	// MsgLanes > 1 (lanes mode): the gossip messages arrive on that many
	// goroutines at once, every one of them delivering the whole list in order
	// - one is memberlist's packet handler, the others are stream connections
	// (memberlist runs a goroutine per connection and hands user messages
	// received there to the same delegate), i.e. every message arrives 2-3
	// times, concurrently, as duplicates from several peers do. In two of
	// three such cases every goroutine of the node lingers after releasing one
	// of serf's mutexes (helpers: lockYield).
	MsgLanes int `json:"msg_lanes,omitempty"`
}

// ---- gate for confirmed, unfixed crash classes ---------------------------------
//
// VERIF_C09_GATE="D1,D2" keeps the generators from producing the input classes
// of the confirmed defects so that the search continues behind them:
//
//	D1  a query carrying a zero-length filter
//	D2  an install-key / use-key / remove-key query with an empty payload
//
// Committed replays (replays/C09) are not affected by the gate.

func c09Gated(class string) bool {
	for _, g := range strings.Split(os.Getenv("VERIF_C09_GATE"), ",") {
		if strings.TrimSpace(g) == class {
			return true
		}
	}
	return false
}

var c09KeyQueries = map[string]bool{"_serf_install-key": true, "_serf_use-key": true, "_serf_remove-key": true}

// c09Classify tells whether a gossip message (possibly inside relay
// envelopes) belongs to crash class D1 / D2.
func c09Classify(buf []byte, depth int) (d1, d2 bool) {
	if len(buf) == 0 || depth > 8 {
		return
	}
	switch buf[0] {
	case serf.VerifMessageQueryType:
		var q serf.VerifMessageQuery
		if serf.VerifDecodeMessage(buf[1:], &q) != nil {
			return
		}
		for _, f := range q.Filters {
			if len(f) == 0 {
				d1 = true
			}
		}
		if c09KeyQueries[q.Name] && len(q.Payload) == 0 {
			d2 = true
		}
	case serf.VerifMessageRelayType:
		rd := bytes.NewReader(buf[1:])
		var h serf.VerifRelayHeader
		if codec.NewDecoder(rd, &codec.MsgpackHandle{}).Decode(&h) != nil {
			return
		}
		rest := make([]byte, rd.Len())
		_, _ = rd.Read(rest)
		return c09Classify(rest, depth+1)
	}
	return
}

func c09IsGated(buf []byte) bool {
	d1, d2 := c09Classify(buf, 0)
	return d1 && c09Gated("D1") || d2 && c09Gated("D2")
}

// ---- generator -------------------------------------------------------------------

type c09Clk struct{ member, event, query uint64 }

// lt draws a Lamport time that is usually close to the (modelled) clock so
// that later inputs of a batch are not discarded as "too old".
func (c *c09Clk) lt(t *rapid.T, cur *uint64, label string) uint64 {
	var v uint64
	switch k := rapid.IntRange(0, 9).Draw(t, label+".rel"); {
	case k < 6:
		v = *cur + uint64(rapid.IntRange(0, 3).Draw(t, label+".d"))
	case k == 6:
		d := uint64(rapid.IntRange(0, 2000).Draw(t, label+".old"))
		if d > *cur {
			d = *cur
		}
		v = *cur - d
	default:
		v = genU64(t, label, true)
	}
	// model of Witness(v)
	if v >= *cur {
		*cur = v + 1 // wraps to 0 at 2^64-1, like the implementation
	}
	return v
}

var c09Names = []string{c09Self, "m0", "m1", "m2", "m3", "ghost", "", c09Self, "m0", "m1", "ghost", "a:b", "a/b", "a b", "a\nb", "alive: x", "_serf_ping", "self ", "Self", "m0\x00"}

func genC09Name(t *rapid.T, label string) []byte {
	switch rapid.IntRange(0, 9).Draw(t, label+".k") {
	case 0:
		return bytes.Repeat([]byte{'n'}, rapid.IntRange(100, 400).Draw(t, label+".long"))
	case 1:
		return rapid.SliceOfN(rapid.Byte(), 0, 20).Draw(t, label+".raw")
	default:
		return []byte(rapid.SampledFrom(c09Names).Draw(t, label+".n"))
	}
}

func genC09IP(t *rapid.T, label string) []byte {
	switch rapid.IntRange(0, 9).Draw(t, label+".k") {
	case 0:
		return nil
	case 1:
		return []byte{}
	case 2:
		return rapid.SliceOfN(rapid.Byte(), 1, 20).Draw(t, label+".odd")
	case 3:
		return rapid.SliceOfN(rapid.Byte(), 16, 16).Draw(t, label+".v6")
	case 4:
		return []byte{10, 0, 0, byte(rapid.IntRange(1, 5).Draw(t, label+".m"))}
	default:
		return append([]byte{}, c09SelfIP...)
	}
}

func c09Key(n int, fill byte) []byte { return bytes.Repeat([]byte{fill}, n) }

func genC09KeyPayload(t *rapid.T) ([]byte, string) {
	keyLen := rapid.SampledFrom([]int{16, 24, 32, 16, 32, 0, 1, 15, 17, 33, 1000}).Draw(t, "keylen")
	fill := byte(rapid.IntRange(1, 4).Draw(t, "keyfill"))
	valid, _ := serf.VerifEncodeMessage(serf.VerifMessageKeyRequestType, serf.VerifKeyRequest{Key: c09Key(keyLen, fill)}, false)
	k := rapid.IntRange(0, 11).Draw(t, "keypayload.k")
	if k <= 1 && c09Gated("D2") {
		k = 2
	}
	switch k {
	case 0:
		return nil, "payload-nil"
	case 1:
		return []byte{}, "payload-empty"
	case 2:
		return []byte{serf.VerifMessageKeyRequestType}, "payload-type-only"
	case 3:
		return append([]byte{rapid.Byte().Draw(t, "wrongtype")}, valid[1:]...), "payload-wrong-type"
	case 4:
		return valid[:rapid.IntRange(1, len(valid)-1).Draw(t, "trunc")], "payload-truncated"
	case 5:
		return append([]byte{serf.VerifMessageKeyRequestType}, rapid.SliceOfN(rapid.Byte(), 1, 40).Draw(t, "garbage")...), "payload-garbage"
	case 6:
		var body any
		switch rapid.IntRange(0, 4).Draw(t, "wrongfield") {
		case 0:
			body = map[string]any{"Key": 5}
		case 1:
			body = map[string]any{"Key": nil}
		case 2:
			body = map[string]any{"Key": []any{1, "x"}}
		case 3:
			body = []any{"Key"}
		default:
			body = map[string]any{"Key": map[string]any{"a": 1}}
		}
		b, _ := mpEnc(body)
		return append([]byte{serf.VerifMessageKeyRequestType}, b...), "payload-wrong-field-type"
	default:
		return valid, fmt.Sprintf("payload-key%d", keyLen)
	}
}

func genC09Filter(t *rapid.T) []byte {
	k := rapid.IntRange(0, 13).Draw(t, "filter.k")
	if k <= 1 && c09Gated("D1") {
		k = 2
	}
	enc := func(ft uint8, v any) []byte {
		b, _ := serf.VerifEncodeFilter(ft, v)
		return b
	}
	switch k {
	case 0:
		return []byte{}
	case 1:
		return nil
	case 2:
		return []byte{rapid.SampledFrom([]byte{0, 1, 2, 7, 255}).Draw(t, "filter.type")}
	case 3:
		return enc(serf.VerifFilterNodeType, []string{"m0", "ghost"})
	case 4:
		return enc(serf.VerifFilterTagType, &serf.VerifFilterTag{Tag: "role", Expr: rapid.SampledFrom([]string{"(", "a{1000}{1000}", "[", "\\", "(?P<x", "^(db$"}).Draw(t, "badre")})
	case 5:
		return enc(serf.VerifFilterTagType, &serf.VerifFilterTag{Tag: rapid.SampledFrom([]string{"role", "dc", "nope", ""}).Draw(t, "ftag"),
			Expr: rapid.SampledFrom([]string{"web", ".*", "^db$", "", "w.b", "(a*)*b"}).Draw(t, "fexpr")})
	case 6:
		b := enc(serf.VerifFilterNodeType, []string{c09Self, "m0"})
		return b[:rapid.IntRange(1, len(b)-1).Draw(t, "filter.trunc")]
	case 7:
		return append([]byte{rapid.SampledFrom([]byte{0, 1}).Draw(t, "filter.gt")}, rapid.SliceOfN(rapid.Byte(), 1, 30).Draw(t, "filter.garbage")...)
	case 8:
		b, _ := mpEnc(rapid.SampledFrom([]any{map[string]any{"a": 1}, 5, "str", []any{1, 2}, nil, []any{nil, "self"}}).Draw(t, "filter.wrong"))
		return append([]byte{rapid.SampledFrom([]byte{0, 1}).Draw(t, "filter.wt")}, b...)
	case 9:
		n := rapid.IntRange(50, 400).Draw(t, "filter.many")
		names := make([]string, n)
		for i := range names {
			names[i] = fmt.Sprintf("node-%d", i)
		}
		names[n/2] = c09Self
		return enc(serf.VerifFilterNodeType, names)
	default:
		return enc(serf.VerifFilterNodeType, []string{c09Self, "m1"})
	}
}

var c09QueryNames = []string{"q", "q", "", "_serf_ping", "_serf_conflict", "_serf_install-key", "_serf_use-key", "_serf_remove-key",
	"_serf_list-keys", "_serf_install-key", "_serf_use-key", "_serf_remove-key", "_serf_", "_serf_nope", "_serf", "_serf_conflict"}

// ---- announced-but-absent bytes ------------------------------------------------
//
// Gate class AMP (found by this check, fixed in /repo as D18; see replays/C09/amp-*.json): a message
// that carries one extra element - an ext32 of the msgpack timestamp type
// whose header announces far more bytes than the message has. A decoder that
// reads from a stream allocates the announced size before it notices that the
// bytes are not there; with an announcement of 4 GiB the process dies with
// "fatal error: out of memory" wherever 4 GiB cannot be had. The probe
// announces 128 MiB only, which every host of this harness can afford, and
// the oracle watches what the node allocates (c09AmpLimit).

const (
	c09AmpAnnounce = 128 << 20
	c09AmpLimit    = 64 << 20
)

// c09Amp appends the extra element to a fixmap-encoded body that starts at
// b[at] (serf's messages, the relay header and the probe coordinate are all
// fixmaps); ok is false when the body is not a fixmap with room for one more.
func c09Amp(b []byte, at int) ([]byte, bool) {
	if len(b) <= at || b[at]&0xf0 != 0x80 || b[at] == 0x8f {
		return b, false
	}
	out := append([]byte{}, b...)
	out[at]++
	ext := []byte{0xa1, 'x', 0xc9, byte(c09AmpAnnounce >> 24), byte(c09AmpAnnounce >> 16 & 0xff), byte(c09AmpAnnounce >> 8 & 0xff), byte(c09AmpAnnounce & 0xff), 0xff}
	return append(out, ext...), true
}

func genC09Query(t *rapid.T, clk *c09Clk) ([]byte, string) {
	q := serf.VerifMessageQuery{
		LTime:       serf.LamportTime(clk.lt(t, &clk.query, "q.lt")),
		ID:          rapid.Uint32().Draw(t, "q.id"),
		Addr:        genC09IP(t, "q.addr"),
		Port:        rapid.SampledFrom([]uint16{7946, 7946, 7946, 0, 1, 65535}).Draw(t, "q.port"),
		SourceNode:  string(genC09Name(t, "q.src")),
		Flags:       rapid.SampledFrom([]uint32{0, 1, 1, 2, 3, 0xffffffff}).Draw(t, "q.flags"),
		RelayFactor: rapid.SampledFrom([]uint8{0, 0, 1, 2, 5, 255}).Draw(t, "q.rf"),
		Timeout:     time.Duration(rapid.SampledFrom([]int64{1e9, 1e9, 1e9, 36e11, 1e6, 0, -1, -1e9, 1<<63 - 1, -1 << 63}).Draw(t, "q.timeout")),
		Name:        rapid.SampledFrom(c09QueryNames).Draw(t, "q.name"),
	}
	d := "query:user"
	switch {
	case c09KeyQueries[q.Name]:
		var pd string
		q.Payload, pd = genC09KeyPayload(t)
		d = "query:" + q.Name[6:] + ":" + pd
	case q.Name == "_serf_conflict":
		q.Payload = genC09Name(t, "q.conflictnode")
		d = "query:conflict"
	case strings.HasPrefix(q.Name, "_serf_"):
		q.Payload = genBlob(t, "q.payload", 300)
		d = "query:" + q.Name[6:]
	default:
		q.Payload = genBlob(t, "q.payload", 1500)
	}
	switch nf := rapid.SampledFrom([]int{0, 0, 0, 1, 1, 2, 4}).Draw(t, "q.nfilters"); nf {
	case 0:
		if rapid.Bool().Draw(t, "q.filters.empty") {
			q.Filters = [][]byte{}
		}
	default:
		for i := 0; i < nf; i++ {
			q.Filters = append(q.Filters, genC09Filter(t))
		}
		d += "+filters"
	}
	b, _ := serf.VerifEncodeMessage(serf.VerifMessageQueryType, &q, rapid.Bool().Draw(t, "q.newtime"))
	return b, d
}

func genC09PushPull(t *rapid.T, clk *c09Clk) []byte {
	pp := serf.VerifMessagePushPull{
		LTime:      serf.LamportTime(clk.lt(t, &clk.member, "pp.lt")),
		EventLTime: serf.LamportTime(clk.lt(t, &clk.event, "pp.elt")),
		QueryLTime: serf.LamportTime(clk.lt(t, &clk.query, "pp.qlt")),
	}
	if rapid.IntRange(0, 4).Draw(t, "pp.map") > 0 {
		pp.StatusLTimes = map[string]serf.LamportTime{}
		for i, n := 0, rapid.IntRange(0, 6).Draw(t, "pp.nmap"); i < n; i++ {
			pp.StatusLTimes[string(genC09Name(t, "pp.name"))] = serf.LamportTime(genU64(t, "pp.slt", true))
		}
	}
	if rapid.IntRange(0, 3).Draw(t, "pp.left") > 0 {
		pp.LeftMembers = []string{}
		for i, n := 0, rapid.IntRange(0, 4).Draw(t, "pp.nleft"); i < n; i++ {
			pp.LeftMembers = append(pp.LeftMembers, string(genC09Name(t, "pp.leftname")))
		}
	}
	if rapid.IntRange(0, 3).Draw(t, "pp.events") > 0 {
		pp.Events = []*serf.VerifUserEvents{}
		for i, n := 0, rapid.IntRange(0, 6).Draw(t, "pp.nev"); i < n; i++ {
			if rapid.IntRange(0, 3).Draw(t, "pp.evnil") == 0 {
				pp.Events = append(pp.Events, nil)
				continue
			}
			ue := &serf.VerifUserEvents{LTime: serf.LamportTime(clk.lt(t, &clk.event, "pp.evlt"))}
			for j, k := 0, rapid.IntRange(0, 3).Draw(t, "pp.nue"); j < k; j++ {
				ue.Events = append(ue.Events, serf.VerifUserEvent{Name: string(genStrBytes(t, "pp.uename", 40)), Payload: genBlob(t, "pp.uepayload", 600)})
			}
			pp.Events = append(pp.Events, ue)
		}
	}
	b, _ := serf.VerifEncodeMessage(serf.VerifMessagePushPullType, &pp, false)
	return b
}

// genC09Mutate applies 1..3 byte-level mutations.
func genC09Mutate(t *rapid.T, b []byte) []byte {
	b = append([]byte{}, b...)
	for i, n := 0, rapid.IntRange(1, 3).Draw(t, "mut.n"); i < n && len(b) > 1; i++ {
		pos := rapid.IntRange(1, len(b)-1).Draw(t, "mut.pos")
		switch rapid.IntRange(0, 5).Draw(t, "mut.op") {
		case 0:
			b = b[:pos]
		case 1:
			b[pos] = rapid.Byte().Draw(t, "mut.byte")
		case 2:
			ins := rapid.SliceOfN(rapid.Byte(), 1, 8).Draw(t, "mut.ins")
			b = append(b[:pos], append(ins, b[pos:]...)...)
		case 3:
			// a container/string header announcing a huge length
			hdr := rapid.SampledFrom([][]byte{{0xdd, 0xff, 0xff, 0xff, 0xff}, {0xdf, 0xff, 0xff, 0xff, 0xff}, {0xdb, 0xff, 0xff, 0xff, 0xff},
				{0xdc, 0xff, 0xff}, {0xde, 0xff, 0xff}, {0xda, 0xff, 0xff}, {0xdb, 0x7f, 0xff, 0xff, 0xff}, {0xc1}, {0xc0}}).Draw(t, "mut.hdr")
			b = append(b[:pos], append(append([]byte{}, hdr...), b[pos:]...)...)
		case 4:
			b = append(b, rapid.SliceOfN(rapid.Byte(), 1, 16).Draw(t, "mut.app")...)
		default:
			b[pos] ^= 1 << uint(rapid.IntRange(0, 7).Draw(t, "mut.bit"))
		}
	}
	return b
}

// genC09Msg draws one gossip message for NotifyMsg.
func genC09Msg(t *rapid.T, clk *c09Clk, depth int) ([]byte, string) {
	kinds := []string{"query", "query", "query", "query", "query", "query", "event", "event", "join", "leave", "resp", "relay", "relay", "relay", "pushpull", "unknown", "raw", "raw", "empty", "query", "event", "query"}
	if depth >= 3 {
		kinds = kinds[:11]
	}
	kind := rapid.SampledFrom(kinds).Draw(t, "msg.kind")
	var b []byte
	d := kind
	switch kind {
	case "query":
		b, d = genC09Query(t, clk)
	case "event":
		b, _ = serf.VerifEncodeMessage(serf.VerifMessageUserEventType, &serf.VerifMessageUserEvent{
			LTime: serf.LamportTime(clk.lt(t, &clk.event, "ev.lt")), Name: string(genStrBytes(t, "ev.name", 600)),
			Payload: genBlob(t, "ev.payload", 3000), CC: rapid.Bool().Draw(t, "ev.cc")}, false)
	case "join":
		b, _ = serf.VerifEncodeMessage(serf.VerifMessageJoinType, &serf.VerifMessageJoin{
			LTime: serf.LamportTime(clk.lt(t, &clk.member, "join.lt")), Node: string(genC09Name(t, "join.node"))}, false)
	case "leave":
		b, _ = serf.VerifEncodeMessage(serf.VerifMessageLeaveType, &serf.VerifMessageLeave{
			LTime: serf.LamportTime(clk.lt(t, &clk.member, "leave.lt")), Node: string(genC09Name(t, "leave.node")), Prune: rapid.Bool().Draw(t, "leave.prune")}, false)
	case "resp":
		b, _ = serf.VerifEncodeMessage(serf.VerifMessageQueryResponseType, &serf.VerifMessageQueryResponse{
			LTime: serf.LamportTime(genU64(t, "resp.lt", true)), ID: rapid.Uint32().Draw(t, "resp.id"), From: string(genC09Name(t, "resp.from")),
			Flags: rapid.SampledFrom([]uint32{0, 1, 2, 0xffffffff}).Draw(t, "resp.flags"), Payload: genBlob(t, "resp.payload", 1500)}, false)
	case "relay":
		inner, id := genC09Msg(t, clk, depth+1)
		hdr := serf.VerifRelayHeader{DestName: string(genC09Name(t, "relay.name"))}
		switch rapid.IntRange(0, 5).Draw(t, "relay.dest") {
		case 0, 1, 2:
			hdr.DestAddr = net.UDPAddr{IP: net.IP(c09SelfIP), Port: 7946}
			d = "relay-to-self(" + id + ")"
		case 3:
			hdr.DestAddr = net.UDPAddr{IP: net.IP{10, 0, 0, 1}, Port: 7946}
			d = "relay-to-other"
		default:
			hdr.DestAddr = net.UDPAddr{IP: net.IP(genC09IP(t, "relay.ip")), Port: rapid.SampledFrom([]int{0, -1, 7946, 65536, 1 << 40}).Draw(t, "relay.port"),
				Zone: rapid.SampledFrom([]string{"", "eth0", "%", "]:1"}).Draw(t, "relay.zone")}
			d = "relay-odd-dest"
		}
		var hb []byte
		if rapid.IntRange(0, 7).Draw(t, "relay.badhdr") == 0 {
			hb, _ = mpEnc(rapid.SampledFrom([]any{5, "x", []any{}, map[string]any{"DestAddr": 5}, map[string]any{"DestAddr": map[string]any{"IP": "notbytes", "Port": "x"}}, nil}).Draw(t, "relay.hdrval"))
			d = "relay-bad-header"
		} else {
			hb, _ = mpEnc(hdr)
			if !c09Gated("AMP") && rapid.IntRange(0, 24).Draw(t, "relay.amp") == 0 {
				if ab, ok := c09Amp(hb, 0); ok {
					hb, d = ab, "amp:relay-header"
				}
			}
		}
		b = append([]byte{serf.VerifMessageRelayType}, hb...)
		b = append(b, inner...)
	case "pushpull":
		b = genC09PushPull(t, clk)
	case "unknown":
		b = append([]byte{byte(rapid.IntRange(6, 255).Draw(t, "unknown.type"))}, rapid.SliceOfN(rapid.Byte(), 0, 30).Draw(t, "unknown.body")...)
	case "raw":
		b = rapid.SliceOfN(rapid.Byte(), 1, 200).Draw(t, "raw")
		b[0] %= 10
	case "empty":
		b = []byte{}
	}
	if len(b) > 1 && kind != "raw" && rapid.IntRange(0, 3).Draw(t, "msg.mutate") == 0 {
		b = genC09Mutate(t, b)
		d = "mutated:" + kind
	}
	if kind != "relay" && kind != "raw" && kind != "empty" && kind != "unknown" && !c09Gated("AMP") && rapid.IntRange(0, 24).Draw(t, "msg.amp") == 0 {
		if ab, ok := c09Amp(b, 1); ok {
			b, d = ab, "amp:"+kind
		}
	}
	if c09IsGated(b) {
		return []byte{serf.VerifMessageQueryType}, "gated"
	}
	return b, d
}

func genC09Meta(t *rapid.T) []byte {
	tags := map[string]string{"role": "web"}
	valid, _ := mpEnc(tags)
	valid = append([]byte{serf.VerifTagMagicByte}, valid...)
	switch rapid.IntRange(0, 8).Draw(t, "meta.k") {
	case 0:
		return nil
	case 1:
		return []byte{serf.VerifTagMagicByte}
	case 2:
		return append([]byte{serf.VerifTagMagicByte}, rapid.SliceOfN(rapid.Byte(), 1, 600).Draw(t, "meta.garbage")...)
	case 3:
		return genC09Mutate(t, valid)
	case 4:
		b, _ := mpEnc(rapid.SampledFrom([]any{5, "x", []any{1}, map[string]any{"role": 5}, map[string]any{"role": nil}, map[any]any{5: "x"}, nil}).Draw(t, "meta.wrong"))
		return append([]byte{serf.VerifTagMagicByte}, b...)
	case 5:
		return rapid.SliceOfN(rapid.Byte(), 1, 600).Draw(t, "meta.role")
	case 6:
		m := map[string]string{}
		for i, n := 0, rapid.IntRange(0, 40).Draw(t, "meta.n"); i < n; i++ {
			m[genUTF8(t, "meta.key", 30)] = genUTF8(t, "meta.val", 30)
		}
		b, _ := mpEnc(m)
		return append([]byte{serf.VerifTagMagicByte}, b...)
	default:
		return valid
	}
}

func genC09Node(t *rapid.T, label string, allowSelf bool) *c09Node {
	n := &c09Node{Name: genC09Name(t, label+".name"), Addr: genC09IP(t, label+".addr"),
		Port: rapid.SampledFrom([]uint16{7946, 7946, 0, 65535}).Draw(t, label+".port"), Meta: genC09Meta(t),
		State: rapid.SampledFrom([]int{0, 0, 1, 2, 3, 9}).Draw(t, label+".state")}
	if !allowSelf && string(n.Name) == c09Self {
		n.Name = []byte("m0")
	}
	for i := range n.V {
		n.V[i] = rapid.SampledFrom([]int{0, 1, 2, 4, 5, 5, 255}).Draw(t, label+".v")
	}
	return n
}

func genC09Ping(t *rapid.T) []byte {
	sane := rapid.Bool().Draw(t, "ping.sane")
	f := func(l string) float64 {
		if sane {
			return rapid.SampledFrom([]float64{0, 1e-3, 0.5, -0.2, 0.01}).Draw(t, l)
		}
		return rapid.SampledFrom([]float64{0, 1e-3, -1, 1e300, -1e300, nan(), inf(1), inf(-1), 5e-324}).Draw(t, l)
	}
	c := coordinate.Coordinate{Error: f("ping.err"), Adjustment: f("ping.adj"), Height: f("ping.h")}
	if rapid.IntRange(0, 4).Draw(t, "ping.vecnil") > 0 {
		c.Vec = []float64{}
		for i, n := 0, rapid.SampledFrom([]int{8, 8, 8, 0, 1, 7, 9, 100}).Draw(t, "ping.dim"); i < n; i++ {
			c.Vec = append(c.Vec, f("ping.vec"))
		}
	}
	body, _ := mpEnc(&c)
	ver := rapid.SampledFrom([]byte{1, 1, 1, 1, 0, 2, 255}).Draw(t, "ping.ver")
	switch rapid.IntRange(0, 7).Draw(t, "ping.k") {
	case 0:
		return nil
	case 1:
		return []byte{ver}
	case 2:
		return genC09Mutate(t, append([]byte{ver}, body...))
	case 3:
		b, _ := mpEnc(rapid.SampledFrom([]any{5, "x", []any{1}, map[string]any{"Vec": "x"}, map[string]any{"Vec": []any{"a", nil}}, nil}).Draw(t, "ping.wrong"))
		return append([]byte{ver}, b...)
	default:
		return append([]byte{ver}, body...)
	}
}

func genC09In(t *rapid.T, clk *c09Clk, c *c09Case) c09In {
	e := rapid.SampledFrom([]string{"msg", "msg", "msg", "msg", "msg", "msg", "msg", "msg", "msg", "msg", "msg",
		"merge", "merge", "ping", "ping", "join", "update", "leave", "nmerge", "nalive", "conflict", "resp"}).Draw(t, "entry")
	in := c09In{E: e, D: e}
	switch e {
	case "msg":
		in.B, in.D = genC09Msg(t, clk, 0)
	case "merge":
		in.Join = rapid.Bool().Draw(t, "merge.join")
		switch rapid.IntRange(0, 7).Draw(t, "merge.k") {
		case 0:
			in.B, in.D = nil, "merge:empty"
		case 1:
			in.B, in.D = genC09Mutate(t, genC09PushPull(t, clk)), "merge:mutated"
		case 2:
			in.B = genC09PushPull(t, clk)
			in.B[0] = rapid.Byte().Draw(t, "merge.type")
			in.D = "merge:wrong-type"
		case 3:
			b, _ := mpEnc(rapid.SampledFrom([]any{5, "x", []any{1}, map[string]any{"StatusLTimes": []any{1}}, map[string]any{"Events": []any{5, nil, "x"}},
				map[string]any{"Events": []any{map[string]any{"LTime": "x", "Events": 5}}}, map[string]any{"LeftMembers": map[string]any{"a": 1}}, nil}).Draw(t, "merge.wrong"))
			in.B, in.D = append([]byte{serf.VerifMessagePushPullType}, b...), "merge:wrong-field-types"
		default:
			in.B, in.D = genC09PushPull(t, clk), "merge:valid-shape"
			if !c09Gated("AMP") && rapid.IntRange(0, 11).Draw(t, "merge.amp") == 0 {
				if ab, ok := c09Amp(in.B, 1); ok {
					in.B, in.D = ab, "merge:amp"
				}
			}
		}
	case "ping":
		in.B = genC09Ping(t)
		if !c09Gated("AMP") && rapid.IntRange(0, 11).Draw(t, "ping.amp") == 0 {
			if ab, ok := c09Amp(in.B, 1); ok {
				in.B, in.D = ab, "ping:amp"
			}
		}
		in.N = genC09Node(t, "ping.node", true)
		in.RTT = rapid.SampledFrom([]int64{1e6, 1e6, 1e3, 0, -1, 11e9, 1<<63 - 1, -1 << 63}).Draw(t, "ping.rtt")
	case "join", "update", "leave":
		in.N = genC09Node(t, e+".node", false)
	case "nalive":
		in.N = genC09Node(t, "nalive.node", true)
	case "nmerge":
		for i, n := 0, rapid.IntRange(0, 5).Draw(t, "nmerge.n"); i < n; i++ {
			in.Nodes = append(in.Nodes, *genC09Node(t, "nmerge.node", true))
		}
	case "conflict":
		in.N = genC09Node(t, "conflict.existing", true)
		if rapid.Bool().Draw(t, "conflict.self") {
			in.N.Name = []byte(c09Self)
			in.D = "conflict:self"
		}
		in.N2 = genC09Node(t, "conflict.other", true)
		for i, n := 0, rapid.IntRange(0, 4).Draw(t, "conflict.nreplies"); i < n; i++ {
			in.Replies = append(in.Replies, genC09ConflictReply(t))
		}
	case "resp":
		in.From = genC09Name(t, "resp.from")
		in.Flags = rapid.SampledFrom([]uint32{0, 0, 1, 3, 0xffffffff}).Draw(t, "resp.flags")
		in.B = genBlob(t, "resp.payload", 2000)
	}
	return in
}

func genC09ConflictReply(t *rapid.T) []byte {
	m := serf.Member{Name: string(genC09Name(t, "cr.name")), Addr: net.IP(genC09IP(t, "cr.addr")), Port: rapid.SampledFrom([]uint16{7946, 7946, 7946, 0, 1}).Draw(t, "cr.port")}
	valid, _ := serf.VerifEncodeMessage(serf.VerifMessageConflictResponseType, &m, false)
	switch rapid.IntRange(0, 6).Draw(t, "cr.k") {
	case 0:
		return nil
	case 1:
		return []byte{serf.VerifMessageConflictResponseType}
	case 2:
		return genC09Mutate(t, valid)
	case 3:
		b, _ := mpEnc(rapid.SampledFrom([]any{nil, 5, "x", map[string]any{"Addr": 5, "Tags": "x"}, map[string]any{"Tags": map[string]any{"a": 1}}}).Draw(t, "cr.wrong"))
		return append([]byte{serf.VerifMessageConflictResponseType}, b...)
	case 4:
		return append([]byte{rapid.Byte().Draw(t, "cr.type")}, valid[1:]...)
	default:
		return valid
	}
}

func genC09(t *rapid.T) c09Case {
	c := c09Case{
		Encrypt:   rapid.IntRange(0, 3).Draw(t, "encrypt") > 0,
		Members:   rapid.IntRange(0, 4).Draw(t, "members"),
		OpenQuery: rapid.Bool().Draw(t, "open_query"),
		OpenNoAck: rapid.Bool().Draw(t, "open_query_no_ack"),
		MergeErr:  rapid.IntRange(0, 3).Draw(t, "merge_err") == 0,
		Resolve:   rapid.IntRange(0, 3).Draw(t, "resolve") == 0,
		RespLimit: rapid.SampledFrom([]int{1024, 1024, 0, 1, 60, 200}).Draw(t, "resp_limit"),
	}
	// half of the cases leave the remaining configuration at its defaults
	if rapid.Bool().Draw(t, "odd_config") {
		c.PV = rapid.SampledFrom([]int{0, 2, 3, 4, 5}).Draw(t, "pv")
		c.NoCoord = rapid.IntRange(0, 3).Draw(t, "no_coord") == 0
		c.Snapshot = rapid.IntRange(0, 2).Draw(t, "snapshot") == 0
		c.Coalesce = rapid.IntRange(0, 2).Draw(t, "coalesce") == 0
		c.Buffers = rapid.SampledFrom([]int{0, 1, 2, 4, 16}).Draw(t, "buffers")
		c.ValidNames = rapid.IntRange(0, 2).Draw(t, "valid_names") == 0
		c.KeyFile = rapid.SampledFrom([]int{0, 0, 1, 2}).Draw(t, "key_file")
	}
	c.Lanes = rapid.IntRange(0, 7).Draw(t, "lanes") == 0
	if c.Lanes {
		c.MsgLanes = rapid.SampledFrom([]int{1, 2, 2, 3}).Draw(t, "msg-lanes")
	}
	clk := &c09Clk{}
	n := rapid.IntRange(1, 16).Draw(t, "n")
	if c.OpenQuery && rapid.IntRange(0, 3).Draw(t, "close") == 0 {
		c.CloseAt = 1 + rapid.IntRange(0, n-1).Draw(t, "close_at")
	}
	for i := 0; i < n; i++ {
		in := genC09In(t, clk, &c)
		c.In = append(c.In, in)
		if c.Resolve && in.D == "conflict:self" {
			break // the node may shut itself down after the vote: the batch ends here
		}
	}
	return c
}

// ---- harness -----------------------------------------------------------------------

type c09Merge struct{ fail atomic.Bool }

func (m *c09Merge) NotifyMerge(ms []*serf.Member) error {
	n := 0
	for _, mm := range ms {
		n += len(mm.Tags["role"]) + len(mm.Addr.String()) + len(mm.Name)
	}
	if m.fail.Load() {
		return fmt.Errorf("merge refused (%d)", n)
	}
	return nil
}

type c09H struct {
	n      *node.Node
	nw     *simnet.Network
	lb     *logBuf
	seq    int
	open   *serf.QueryResponse
	dir    string
	fx     map[string]bool // effects observed since the last take
	selfDn bool            // the node shut itself down after losing a name conflict vote (by design)
	// lingering: a handler goroutine of an earlier input outlived its settle
	// step; what it does later cannot be told apart from the effect of the
	// current input, so the "malformed input changes nothing" oracle is off
	lingering bool
}

func c09MLNode(c *c09Node) *memberlist.Node {
	u := func(i int) uint8 { return uint8(c.V[i]) }
	return &memberlist.Node{Name: string(c.Name), Addr: net.IP(c.Addr), Port: c.Port, Meta: c.Meta, State: memberlist.NodeStateType(c.State),
		PMin: u(0), PMax: u(1), PCur: u(2), DMin: u(3), DMax: u(4), DCur: u(5)}
}

func newC09H(c *c09Case) (*c09H, error) {
	h := &c09H{lb: &logBuf{}, fx: map[string]bool{}}
	h.nw = simnet.New(1)
	if c.Encrypt || c.Snapshot {
		d, err := os.MkdirTemp("", "c09")
		if err != nil {
			return nil, err
		}
		h.dir = d
	}
	var err error
	md := &c09Merge{}
	h.n, err = node.New(h.nw, node.Opts{Name: c09Self, Addr: c09SelfAddr, Quiet: true, Tags: map[string]string{"role": "web", "dc": "east"}, LogTo: h.lb,
		Mutate: func(conf *serf.Config) {
			conf.Merge = md // refuses only once the node itself is up
			conf.EnableNameConflictResolution = c.Resolve
			conf.QueryResponseSizeLimit = c.RespLimit
			if c.Resolve {
				// the conflict query lasts GossipInterval*QueryTimeoutMult; memberlist
				// has nobody to gossip to, so a short interval changes nothing else
				conf.MemberlistConfig.GossipInterval = 10 * time.Millisecond
				conf.QueryTimeoutMult = 1
			}
			if c.Encrypt {
				kr, _ := memberlist.NewKeyring([][]byte{c09Key(16, 1), c09Key(32, 2)}, c09Key(16, 1))
				conf.MemberlistConfig.Keyring = kr
				conf.MemberlistConfig.GossipVerifyIncoming = false
				conf.MemberlistConfig.GossipVerifyOutgoing = false
				switch c.KeyFile {
				case 1:
				case 2:
					conf.KeyringFile = filepath.Join(h.dir, "no-such-dir", "keyring.json")
				default:
					conf.KeyringFile = filepath.Join(h.dir, "keyring.json")
				}
			}
			if c.PV >= 2 && c.PV <= 5 {
				conf.ProtocolVersion = uint8(c.PV)
			}
			conf.DisableCoordinates = c.NoCoord
			if c.Snapshot {
				conf.SnapshotPath = filepath.Join(h.dir, "snapshot")
			}
			if c.Coalesce {
				conf.CoalescePeriod, conf.QuiescentPeriod = time.Millisecond, time.Millisecond
				conf.UserCoalescePeriod, conf.UserQuiescentPeriod = time.Millisecond, time.Millisecond
			}
			if c.Buffers > 0 {
				conf.EventBuffer, conf.QueryBuffer = c.Buffers, c.Buffers
			}
			conf.ValidateNodeNames = c.ValidNames
		}})
	if err != nil {
		h.cleanup()
		return nil, err
	}
	md.fail.Store(c.MergeErr)
	for i := 0; i < c.Members; i++ {
		meta, _ := mpEnc(map[string]string{"role": "db"})
		h.n.EventsD.NotifyJoin(node.MLNode(fmt.Sprintf("m%d", i), fmt.Sprintf("10.0.0.%d", i+1), 7946, append([]byte{serf.VerifTagMagicByte}, meta...), 5, 5))
	}
	if c.OpenQuery {
		h.open, _ = h.n.Serf.Query("harness-open", []byte("x"), &serf.QueryParam{RequestAck: !c.OpenNoAck, Timeout: time.Hour})
	}
	h.n.Drain(node.Settle)
	// the event pipeline is first-in first-out: once a canary has come out,
	// everything the setup caused (member joins, the open query delivered to
	// the local application) has come out too
	if !h.canary() {
		h.cleanup()
		return nil, fmt.Errorf("setup: canary not delivered")
	}
	h.fx = map[string]bool{}
	h.nw.Packets()
	h.lb.Take()
	return h, nil
}

func (h *c09H) cleanup() {
	if h.n != nil {
		h.n.Stop()
	}
	if h.dir != "" {
		os.RemoveAll(h.dir)
	}
}

// onWire runs f in a goroutine of its own, as memberlist calls its delegates
// from its own goroutines: a panic in there is not recoverable by the test
// framework and kills the process (which is what the crash oracle observes).
func onWire(f func()) {
	done := make(chan struct{})
	go func() {
		defer close(done)
		f()
	}()
	<-done
}

// inject delivers one input to its entry point, exactly as memberlist would.
func (h *c09H) inject(in *c09In) { onWire(func() { h.inject1(in) }) }

func (h *c09H) inject1(in *c09In) {
	s := h.n.Serf
	switch in.E {
	case "msg":
		h.n.Delegate.NotifyMsg(in.B)
	case "merge":
		h.n.Delegate.MergeRemoteState(in.B, in.Join)
	case "ping":
		if in.N != nil && !h.n.Conf.DisableCoordinates {
			s.VerifPingDelegate().NotifyPingComplete(c09MLNode(in.N), time.Duration(in.RTT), in.B)
		}
	case "join":
		if in.N != nil && string(in.N.Name) != c09Self {
			h.n.EventsD.NotifyJoin(c09MLNode(in.N))
		}
	case "update":
		if in.N != nil && string(in.N.Name) != c09Self {
			h.n.EventsD.NotifyUpdate(c09MLNode(in.N))
		}
	case "leave":
		if in.N != nil && string(in.N.Name) != c09Self {
			h.n.EventsD.NotifyLeave(c09MLNode(in.N))
		}
	case "nalive":
		if in.N != nil {
			_ = s.VerifMergeDelegate().NotifyAlive(c09MLNode(in.N))
		}
	case "nmerge":
		var ns []*memberlist.Node
		for i := range in.Nodes {
			ns = append(ns, c09MLNode(&in.Nodes[i]))
		}
		_ = s.VerifMergeDelegate().NotifyMerge(ns)
	case "conflict":
		if in.N == nil || in.N2 == nil {
			return
		}
		before := map[serf.VerifOpenQuery]bool{}
		for _, q := range s.VerifOpenQueries() {
			before[q] = true
		}
		s.VerifConflictDelegate().NotifyConflict(c09MLNode(in.N), c09MLNode(in.N2))
		if string(in.N.Name) != c09Self || !h.n.Conf.EnableNameConflictResolution {
			return
		}
		// the resolution goroutine opens a conflict query; answer it
		var cq *serf.VerifOpenQuery
		for dl := time.Now().Add(500 * time.Millisecond); cq == nil && time.Now().Before(dl); {
			for _, q := range s.VerifOpenQueries() {
				if !before[q] {
					q := q
					cq = &q
				}
			}
			if cq == nil {
				time.Sleep(100 * time.Microsecond)
			}
		}
		if cq == nil {
			return
		}
		h.fx["conflict-query-opened"] = true
		for i, p := range in.Replies {
			b, _ := serf.VerifEncodeMessage(serf.VerifMessageQueryResponseType, &serf.VerifMessageQueryResponse{LTime: cq.LTime, ID: cq.ID, From: fmt.Sprintf("r%d", i), Payload: p}, false)
			h.n.Delegate.NotifyMsg(b)
		}
		// the vote is counted when the query times out (10 ms)
		for dl := time.Now().Add(2 * time.Second); time.Now().Before(dl); {
			still := false
			for _, q := range s.VerifOpenQueries() {
				if q == *cq {
					still = true
				}
			}
			if !still {
				break
			}
			time.Sleep(500 * time.Microsecond)
		}
		waitSerfWork(2 * time.Second)
		if s.State() == serf.SerfShutdown {
			h.selfDn = true
		}
	case "resp":
		r := serf.VerifMessageQueryResponse{From: string(in.From), Flags: in.Flags, Payload: in.B}
		if h.open != nil {
			r.LTime, r.ID = h.open.VerifID()
		}
		b, _ := serf.VerifEncodeMessage(serf.VerifMessageQueryResponseType, &r, false)
		h.n.Delegate.NotifyMsg(b)
	}
}

// canary injects a fresh user event and waits until the application sees it.
func (h *c09H) canary() bool {
	h.seq++
	name := fmt.Sprintf("canary-%d", h.seq)
	_, evt, _ := h.n.Serf.VerifClocks()
	// a node restored from (or keeping) a snapshot ignores events below the
	// recorded floor; after an input with Lamport time 2^64-1 wrapped the clock
	// to 0 (known finding of C19) the clock can be below that floor
	if mt := h.n.Serf.VerifEventMinTime(); evt < mt {
		evt = mt
	}
	msg, _ := serf.VerifEncodeMessage(serf.VerifMessageUserEventType, &serf.VerifMessageUserEvent{LTime: evt, Name: name}, false)
	h.n.Delegate.NotifyMsg(msg)
	deadline := time.After(10 * time.Second)
	for {
		select {
		case e := <-h.n.Events:
			switch ev := e.(type) {
			case serf.UserEvent:
				if ev.Name == name {
					return true
				}
				h.fx["user-event-delivered"] = true
			case *serf.Query:
				h.fx["query-delivered"] = true
				_ = ev.Respond([]byte("harness-reply"))
			case serf.MemberEvent:
				h.fx["member-event:"+ev.Type.String()] = true
			}
		case <-deadline:
			return false
		}
	}
}

// settle waits until everything the last input set in motion has finished:
// the application pipeline is drained (canary), serf's handler goroutines are
// gone, and packets the node sent to itself have been fed back.
func (h *c09H) settle() (ok bool, why string) {
	for round := 0; round < 10; round++ {
		if !h.canary() {
			return false, "canary user event not delivered within 10s"
		}
		if !waitSerfWork(5 * time.Second) {
			h.fx["handler-goroutines-lingering"] = true
			h.lingering = true
		}
		fed := 0
		for _, p := range node.UserMsgs(h.nw.Packets()) {
			h.fx["packet-sent"] = true
			if len(p.Buf) > 0 && p.Buf[0] == serf.VerifMessageQueryResponseType {
				var r serf.VerifMessageQueryResponse
				if serf.VerifDecodeMessage(p.Buf[1:], &r) == nil && len(r.Payload) > 0 {
					switch r.Payload[0] {
					case serf.VerifMessageKeyResponseType:
						h.fx["key-reply-sent"] = true
					case serf.VerifMessageConflictResponseType:
						h.fx["conflict-reply-sent"] = true
					}
				}
			} else if len(p.Buf) > 0 && p.Buf[0] == serf.VerifMessageRelayType {
				h.fx["relay-sent"] = true
			}
			if p.To == c09SelfAddr && fed < 64 {
				h.fx["looped-back"] = true
				onWire(func() { h.n.Delegate.NotifyMsg(p.Buf) })
				fed++
			}
		}
		if fed == 0 {
			break
		}
	}
	alive := false
	for _, m := range h.n.Serf.Members() {
		if m.Name == c09Self && m.Status == serf.StatusAlive {
			alive = true
		}
	}
	if !alive {
		return false, fmt.Sprintf("Members() does not list the node itself alive: %v", h.n.Serf.Members())
	}
	return true, ""
}

var c09RejectMarks = []string{"Error decoding", "unknown type", "bad type prefix", "Remote state is zero bytes", "Failed to decode remote state",
	"Unsupported ping version", "Failed to decode coordinate"}

// reached tells from the node's log whether the input got past the first
// decoding step of its entry point.
func c09Reached(in *c09In, log string) bool {
	switch in.E {
	case "msg", "merge", "ping":
		if len(in.B) == 0 {
			return false
		}
		for _, m := range c09RejectMarks {
			if strings.Contains(log, m) {
				return false
			}
		}
		return true
	}
	return true
}

// c09Labels turns the generator class of an input into a few coarse labels.
func c09Labels(in *c09In) []string {
	d := in.D
	var out []string
	depth := 0
	for strings.HasPrefix(d, "relay-to-self(") {
		d = strings.TrimSuffix(strings.TrimPrefix(d, "relay-to-self("), ")")
		depth++
	}
	if depth > 0 {
		out = append(out, fmt.Sprintf("msg/relay-to-self:depth%d", depth))
	}
	if strings.HasSuffix(d, "+filters") {
		d = strings.TrimSuffix(d, "+filters")
		out = append(out, "msg/query-with-filters")
	}
	for _, k := range []string{"install-key", "use-key", "remove-key"} {
		if strings.HasPrefix(d, "query:"+k+":") {
			out = append(out, "msg/query:"+k)
			d = "query:key:" + strings.TrimPrefix(d, "query:"+k+":")
		}
	}
	if len(d) > 50 {
		d = d[:50]
	}
	if in.E == "msg" {
		return append(out, "msg/"+d)
	}
	if d == in.E {
		return append(out, in.E)
	}
	return append(out, in.E+"/"+d)
}

// c09Malformed tells, independently of what the node logs, whether an input is
// one its entry point has to ignore as a whole: a gossip message of a type
// NotifyMsg does not take, or whose body (or relay header) does not decode; a
// state sync of the wrong type or that does not decode; a probe ack of another
// version or whose coordinate does not decode.
func c09Malformed(in *c09In, noCoord bool) (bool, string) {
	dec := func(out any) bool { return serf.VerifDecodeMessage(in.B[1:], out) != nil }
	switch in.E {
	case "msg":
		if len(in.B) == 0 {
			return true, "empty"
		}
		switch in.B[0] {
		case serf.VerifMessageLeaveType:
			return dec(&serf.VerifMessageLeave{}), "undecodable-leave"
		case serf.VerifMessageJoinType:
			return dec(&serf.VerifMessageJoin{}), "undecodable-join"
		case serf.VerifMessageUserEventType:
			return dec(&serf.VerifMessageUserEvent{}), "undecodable-event"
		case serf.VerifMessageQueryType:
			return dec(&serf.VerifMessageQuery{}), "undecodable-query"
		case serf.VerifMessageQueryResponseType:
			return dec(&serf.VerifMessageQueryResponse{}), "undecodable-response"
		case serf.VerifMessageRelayType:
			var h serf.VerifRelayHeader
			return codec.NewDecoder(bytes.NewReader(in.B[1:]), &codec.MsgpackHandle{}).Decode(&h) != nil, "undecodable-relay-header"
		default:
			return true, "type-not-gossip"
		}
	case "merge":
		if len(in.B) == 0 || in.B[0] != serf.VerifMessagePushPullType {
			return true, "not-a-state-sync"
		}
		return dec(&serf.VerifMessagePushPull{}), "undecodable-state-sync"
	case "ping":
		if noCoord || len(in.B) == 0 {
			return false, ""
		}
		if in.B[0] != serf.PingVersion {
			return true, "ping-version"
		}
		var c coordinate.Coordinate
		return codec.NewDecoder(bytes.NewReader(in.B[1:]), &codec.MsgpackHandle{}).Decode(&c) != nil, "undecodable-coordinate"
	}
	return false, ""
}

// c09State is what a node's bookkeeping looks like from outside: clocks,
// member table, queue depths, own coordinate.
func c09State(s *serf.Serf) string {
	m, e, q := s.VerifClocks()
	st := s.Stats()
	var ms []string
	for _, mm := range s.Members() {
		ms = append(ms, fmt.Sprintf("%q/%v/%v:%d/%v", mm.Name, mm.Status, mm.Addr, mm.Port, mm.Tags))
	}
	sort.Strings(ms)
	coord, _ := s.GetCoordinate()
	return fmt.Sprintf("clocks %d/%d/%d members %s failed %s left %s queues %s/%s/%s table %v coord %v", m, e, q,
		st["members"], st["failed"], st["left"], st["intent_queue"], st["event_queue"], st["query_queue"], ms, coord)
}

func bodyC09(c c09Case, x *vkit.Ctx) {
	h, err := newC09H(&c)
	if err != nil {
		x.Inconclusive("create: " + err.Error())
		return
	}
	defer h.cleanup()
	for _, l := range c09ConfigLabels(&c) {
		x.Label(l)
	}
	if c.Lanes {
		bodyC09Lanes(&c, h, x)
		return
	}
	reached := 0
	for i := range c.In {
		in := &c.In[i]
		if c.CloseAt == i+1 && h.open != nil {
			// the application is done with its query; replies keep arriving
			h.open.Close()
			x.Label("open-query-closed-by-application")
		}
		coordBefore, _ := h.n.Serf.GetCoordinate()
		malformed, mclass := c09Malformed(in, c.NoCoord)
		malformed = malformed && !h.lingering
		var stateBefore string
		if malformed {
			stateBefore = c09State(h.n.Serf)
		}
		allocBefore := c09TotalAlloc()
		h.inject(in)
		if grown := c09TotalAlloc() - allocBefore; grown > c09AmpLimit && len(in.B) < 1<<20 {
			// the input announced bytes it does not carry and the node allocated them
			// on its word; the same input announcing 4 GiB ends the process with
			// "fatal error: out of memory" on any host that cannot spare 4 GiB
			if vkit.IsKnown("C09", "allocates-announced-size:"+in.E) {
				x.Excluded()
			} else {
				x.Violationf("allocates-announced-size:"+in.E, "input %d (%s/%s, %d bytes: %s) made the node allocate %d MiB", i, in.E, in.D, len(in.B), hexShort(in.B), grown>>20)
				return
			}
		}
		if malformed {
			// "malformed input is ignored": nothing of it may reach the node's
			// bookkeeping (the entry points reject it before any handler runs, so
			// this can be read off at once) ...
			if stateAfter := c09State(h.n.Serf); stateAfter != stateBefore {
				x.Violationf("malformed-input-applied:"+mclass, "input %d (%s/%s, %s) is malformed (%s) yet changed the node's state\n before: %s\n after:  %s", i, in.E, in.D, hexShort(in.B), mclass, stateBefore, stateAfter)
				return
			}
			x.Label("malformed-ignored:" + mclass)
		}
		if in.E == "ping" && len(in.B) > 0 && in.B[0] != serf.PingVersion && !c.NoCoord {
			// "malformed input is ignored": a probe ack of an unsupported version
			// must not move the node's coordinate
			coordAfter, _ := h.n.Serf.GetCoordinate()
			if fmt.Sprintf("%v", coordBefore) != fmt.Sprintf("%v", coordAfter) {
				x.Violationf("unsupported-ping-version-applied", "input %d: ping payload with version %d changed the coordinate from %v to %v", i, in.B[0], coordBefore, coordAfter)
				return
			}
			x.Label("ping/unsupported-version-ignored")
		}
		if h.selfDn {
			x.Label("node-shut-down-after-lost-conflict-vote")
			break
		}
		ok, why := h.settle()
		log := h.lb.Take()
		if !ok {
			if h.n.Serf.State() == serf.SerfShutdown {
				x.Label("node-shut-down-after-lost-conflict-vote")
				break
			}
			x.Violationf("node-stopped-serving:"+in.E, "after input %d (%s/%s, %s): %s\nlog: %s", i, in.E, in.D, hexShort(in.B), why, tailStr(log, 1500))
			return
		}
		if malformed && !c.Coalesce {
			// ... or the application (without coalescing the event pipeline is
			// first-in first-out: everything earlier inputs caused came out before
			// the previous canary)
			for f := range h.fx {
				if f == "user-event-delivered" || f == "query-delivered" || strings.HasPrefix(f, "member-event:") {
					x.Violationf("malformed-input-delivered:"+mclass, "input %d (%s/%s, %s) is malformed (%s) yet the application received something: %s\nlog: %s", i, in.E, in.D, hexShort(in.B), mclass, f, tailStr(log, 800))
					return
				}
			}
		}
		for _, l := range c09Labels(in) {
			x.Label(l)
		}
		if c09Reached(in, log) {
			reached++
			x.Label("reached-handler:" + in.E)
		} else {
			x.Label("rejected-at-decode:" + in.E)
		}
		for f := range h.fx {
			x.Label("effect:" + f)
		}
		h.fx = map[string]bool{}
	}
	x.NonTrivial(reached > 0)
}

func c09TotalAlloc() uint64 {
	var ms runtime.MemStats
	runtime.ReadMemStats(&ms)
	return ms.TotalAlloc
}

func c09ConfigLabels(c *c09Case) []string {
	var out []string
	if c.PV != 0 {
		out = append(out, fmt.Sprintf("config:pv%d", c.PV))
	}
	for name, on := range map[string]bool{"no-coordinates": c.NoCoord, "snapshot": c.Snapshot, "coalescing": c.Coalesce, "validate-names": c.ValidNames,
		"keyring-without-file": c.Encrypt && c.KeyFile == 1, "keyring-file-unwritable": c.Encrypt && c.KeyFile == 2, "small-buffers": c.Buffers > 0, "lanes": c.Lanes} {
		if on {
			out = append(out, "config:"+name)
		}
	}
	return out
}

// bodyC09Lanes delivers the batch the way memberlist's goroutines would, all
// lanes at once: gossip messages (and replies to the open query) in order
// from one goroutine, membership notifications in order from another, probe
// acks in order from a third, and every state sync (with the merge
// notification that precedes it) from a goroutine of its own. Name-conflict
// inputs are left out (they end in a vote and possibly a shutdown). The
// oracle is the same: the process survives and the node keeps serving.
func bodyC09Lanes(c *c09Case, h *c09H, x *vkit.Ctx) {
	var msgs, events, pings []*c09In
	var syncs [][]*c09In
	var pendingMerge []*c09In
	decodable := 0
	for i := range c.In {
		in := &c.In[i]
		switch in.E {
		case "msg", "resp":
			msgs = append(msgs, in)
		case "join", "update", "leave", "nalive":
			events = append(events, in)
		case "ping":
			pings = append(pings, in)
		case "nmerge":
			pendingMerge = append(pendingMerge, in)
		case "merge":
			syncs = append(syncs, append(pendingMerge, in))
			pendingMerge = nil
		default:
			continue
		}
		if (in.E == "msg" || in.E == "merge" || in.E == "ping" && !c.NoCoord) && len(in.B) > 0 {
			decodable++
		}
	}
	if len(pendingMerge) > 0 {
		syncs = append(syncs, pendingMerge)
	}
	lanes := [][]*c09In{msgs, events, pings}
	for k := 1; k < min(c.MsgLanes, 3); k++ {
		lanes = append(lanes, msgs)
	}
	lanes = append(lanes, syncs...)
	if c.MsgLanes > 1 {
		lockYield((len(c.In) + c.MsgLanes) % 3)
		defer lockYield(0)
		x.Labelf("lanes:gossip-on-%d-goroutines", min(c.MsgLanes, 3))
	}
	start := make(chan struct{})
	done := make(chan struct{}, len(lanes))
	busy := 0
	for _, lane := range lanes {
		if len(lane) == 0 {
			continue
		}
		busy++
		lane := lane
		go func() { // a panic in here kills the process, as it would inside memberlist
			defer func() { done <- struct{}{} }()
			<-start
			for _, in := range lane {
				h.inject1(in)
			}
		}()
	}
	allocBefore := c09TotalAlloc()
	close(start)
	for i := 0; i < busy; i++ {
		<-done
	}
	if grown := c09TotalAlloc() - allocBefore; grown > c09AmpLimit {
		if vkit.IsKnown("C09", "allocates-announced-size:lanes") {
			x.Excluded()
		} else {
			x.Violationf("allocates-announced-size:lanes", "%d inputs on %d lanes made the node allocate %d MiB", len(c.In), busy, grown>>20)
			return
		}
	}
	x.Labelf("lanes:busy=%d", busy)
	ok, why := h.settle()
	log := h.lb.Take()
	if !ok {
		x.Violationf("node-stopped-serving:lanes", "after %d inputs delivered on %d concurrent lanes: %s\nlog: %s", len(c.In), busy, why, tailStr(log, 1500))
		return
	}
	rejected := 0
	for _, m := range c09RejectMarks {
		rejected += strings.Count(log, m)
	}
	for i := range c.In {
		for _, l := range c09Labels(&c.In[i]) {
			x.Label(l)
		}
	}
	for f := range h.fx {
		x.Label("effect:" + f)
	}
	x.NonTrivial(busy >= 2 && (rejected < decodable || len(events) > 0))
}

func TestC09(t *testing.T) { vkit.Run(t, "C09", genC09, bodyC09) }

func nan() float64 { var z float64; return z / z }
func inf(s int) float64 {
	var z float64
	return float64(s) / z
}

// ---- native fuzz targets ---------------------------------------------------------------
//
//	go test -tags verif -run '^$' -fuzz '^FuzzNotifyMsg$' -fuzztime 60s ./props/core3
//
// Every iteration runs on a fresh node (encryption keyring present, two fake
// members, one open query) and ends with the same settle/canary step as the
// rapid check, so a crash in a handler goroutine is attributed to its input.

func c09FuzzOne(t *testing.T, in c09In) {
	if in.E == "msg" && c09IsGated(in.B) {
		t.Skip("gated crash class")
	}
	c := c09Case{Encrypt: true, Members: 2, OpenQuery: true, RespLimit: 1024, In: []c09In{in}}
	h, err := newC09H(&c)
	if err != nil {
		t.Skip(err)
	}
	defer h.cleanup()
	h.inject(&in)
	if ok, why := h.settle(); !ok {
		t.Fatalf("node stopped serving after %s input %x: %s", in.E, in.B, why)
	}
}

func c09Seeds() (msgs [][]byte, pushpulls [][]byte) {
	enc := func(t uint8, v any) []byte { b, _ := serf.VerifEncodeMessage(t, v, false); return b }
	filt := func(t uint8, v any) []byte { b, _ := serf.VerifEncodeFilter(t, v); return b }
	keyreq := enc(serf.VerifMessageKeyRequestType, serf.VerifKeyRequest{Key: c09Key(16, 3)})
	q := func(name string, payload []byte, filters [][]byte, flags uint32, rf uint8) []byte {
		return enc(serf.VerifMessageQueryType, &serf.VerifMessageQuery{LTime: 2, ID: 7, Addr: c09SelfIP, Port: 7946, SourceNode: c09Self,
			Filters: filters, Flags: flags, RelayFactor: rf, Timeout: time.Second, Name: name, Payload: payload})
	}
	msgs = [][]byte{
		enc(serf.VerifMessageLeaveType, &serf.VerifMessageLeave{LTime: 3, Node: "m0", Prune: true}),
		enc(serf.VerifMessageJoinType, &serf.VerifMessageJoin{LTime: 3, Node: "m1"}),
		enc(serf.VerifMessageUserEventType, &serf.VerifMessageUserEvent{LTime: 1, Name: "deploy", Payload: []byte("v1"), CC: true}),
		enc(serf.VerifMessageQueryResponseType, &serf.VerifMessageQueryResponse{LTime: 1, ID: 1, From: "m0", Flags: 1, Payload: []byte("r")}),
		q("q", []byte("p"), nil, 1, 1),
		q("q", nil, [][]byte{filt(serf.VerifFilterNodeType, []string{c09Self}), filt(serf.VerifFilterTagType, &serf.VerifFilterTag{Tag: "role", Expr: "w.b"})}, 0, 0),
		q("_serf_ping", nil, nil, 1, 0),
		q("_serf_conflict", []byte("m0"), nil, 0, 0),
		q("_serf_install-key", keyreq, nil, 0, 0),
		q("_serf_use-key", keyreq, nil, 0, 0),
		q("_serf_remove-key", keyreq, nil, 0, 0),
		q("_serf_list-keys", nil, nil, 0, 2),
	}
	hb, _ := mpEnc(serf.VerifRelayHeader{DestAddr: net.UDPAddr{IP: net.IP(c09SelfIP), Port: 7946}, DestName: c09Self})
	msgs = append(msgs, append(append([]byte{serf.VerifMessageRelayType}, hb...), msgs[4]...))
	pushpulls = [][]byte{
		enc(serf.VerifMessagePushPullType, &serf.VerifMessagePushPull{LTime: 5, StatusLTimes: map[string]serf.LamportTime{"m0": 2, c09Self: 1, "ghost": 9},
			LeftMembers: []string{"m0", "nobody"}, EventLTime: 4, QueryLTime: 3,
			Events: []*serf.VerifUserEvents{nil, {LTime: 2, Events: []serf.VerifUserEvent{{Name: "e", Payload: []byte("p")}}}}}),
		enc(serf.VerifMessagePushPullType, &serf.VerifMessagePushPull{}),
	}
	return
}

func FuzzNotifyMsg(f *testing.F) {
	msgs, pp := c09Seeds()
	for _, m := range append(msgs, pp...) {
		f.Add(m)
	}
	f.Fuzz(func(t *testing.T, data []byte) { c09FuzzOne(t, c09In{E: "msg", B: data}) })
}

func FuzzMergeRemoteState(f *testing.F) {
	_, pp := c09Seeds()
	for _, m := range pp {
		f.Add(m, false)
		f.Add(m, true)
	}
	f.Fuzz(func(t *testing.T, data []byte, join bool) { c09FuzzOne(t, c09In{E: "merge", B: data, Join: join}) })
}

func FuzzPing(f *testing.F) {
	body, _ := mpEnc(&coordinate.Coordinate{Vec: make([]float64, 8), Error: 1.5, Height: 1e-5})
	f.Add(append([]byte{1}, body...), int64(time.Millisecond), "m0")
	f.Add([]byte{1}, int64(0), "ghost")
	f.Add(append([]byte{2}, body...), int64(-1), c09Self)
	f.Fuzz(func(t *testing.T, payload []byte, rtt int64, name string) {
		c09FuzzOne(t, c09In{E: "ping", B: payload, RTT: rtt, N: &c09Node{Name: []byte(name), Addr: []byte{10, 0, 0, 1}, Port: 7946}})
	})
}

func FuzzMeta(f *testing.F) {
	tags, _ := mpEnc(map[string]string{"role": "web", "dc": "east"})
	f.Add(append([]byte{serf.VerifTagMagicByte}, tags...), "m0", uint8(0))
	f.Add([]byte("plain-role"), "new", uint8(0))
	f.Add([]byte{serf.VerifTagMagicByte}, "m1", uint8(1))
	f.Add(append([]byte{serf.VerifTagMagicByte}, tags...), "peer", uint8(2))
	f.Fuzz(func(t *testing.T, meta []byte, name string, how uint8) {
		if name == c09Self {
			return
		}
		nd := &c09Node{Name: []byte(name), Addr: []byte{10, 0, 0, 9}, Port: 7946, Meta: meta, V: [6]int{1, 5, 2, 2, 5, 5}}
		switch how % 4 {
		case 0:
			c09FuzzOne(t, c09In{E: "join", N: nd})
		case 1:
			c09FuzzOne(t, c09In{E: "update", N: nd})
		case 2:
			c09FuzzOne(t, c09In{E: "nalive", N: nd})
		default:
			c09FuzzOne(t, c09In{E: "nmerge", Nodes: []c09Node{*nd, *nd}})
		}
	})
}
