//go:build verif

package core3

import (
	"bytes"
	"encoding/base64"
	"encoding/json"
	"fmt"
	"io"
	"os"
	"path/filepath"
	"sort"
	"testing"
	"time"

	"github.com/hashicorp/memberlist"
	"github.com/hashicorp/serf/cmd/serf/command/agent"
	"github.com/hashicorp/serf/serf"
	"pgregory.net/rapid"

	"verif/internal/node"
	"verif/internal/simnet"
	"verif/internal/vkit"
)

// C22 — keyring changes are persisted and reload exactly.
//
// A node with an encryption keyring and a keyring file receives a sequence of
// internal install-key / use-key / remove-key queries as gossip from a peer,
// one at a time (the reply packet is awaited before the next request). After
// every request: the reply agrees with a reference keyring model, the live
// keyring equals the model, and the file — loaded through the agent's own
// loader — gives exactly the model's key set with the same primary key; a
// rejected request leaves keyring and file bytes untouched.

type c22Op struct {
	Op   int `json:"op"`   // 0 install 1 use 2 remove
	Key  int `json:"key"`  // index into c22Pool
	Body int `json:"body"` // 0 well-formed; 1 truncated; 2 garbage; 3 msgpack of the wrong shape; 4 empty payload
	Cut  int `json:"cut"`  // truncation point / garbage selector
	// Via: 0 = the request arrives as gossip from a peer; 1 = the operator asks
	// this very node (KeyManager API): the node handles its own query and its
	// reply comes back over the loopback (well-formed bodies only).
	Via int `json:"via,omitempty"`
}

type c22Case struct {
	Init []int   `json:"init"` // indexes of the initial keys (first = primary); valid keys only
	Ops  []c22Op `json:"ops"`
}

const c22Valid = 10

// c22Pool: ten valid keys followed by invalid ones. The valid keys are chosen
// so that "equal" has to mean byte-for-byte equal over the whole key: keys
// that extend one another (16/24/32 bytes of 0x11), a key that differs from
// another in its last byte only, the all-zero key, and keys whose base64 text
// uses '+', '/' and padding (the file stores base64 text). Among the invalid
// ones are proper prefixes / extensions of an installed valid key.
var c22Pool = func() [][]byte {
	rep := func(b byte, n int) []byte { return bytes.Repeat([]byte{b}, n) }
	last := rep(0x11, 16)
	last[15] = 0x12
	plus := bytes.Repeat([]byte{0xfb, 0xef, 0xbe}, 11)[:32] // base64 "++++…"
	p := [][]byte{
		rep(0x11, 16), rep(0x22, 16), rep(0x33, 24), rep(0x11, 24), rep(0x55, 32),
		rep(0x11, 32), rep(0x00, 16), plus, last, rep(0xff, 24),
	}
	for _, n := range []int{0, 1, 8, 15, 17, 31, 33, 64} {
		p = append(p, rep(0xEE, n))
	}
	// invalid lengths that share all their bytes with valid keys of the pool
	for _, n := range []int{15, 17, 23, 25, 31, 33} {
		p = append(p, rep(0x11, n))
	}
	return p
}()

var c22Names = []string{"install-key", "use-key", "remove-key"}

func genC22(t *rapid.T) c22Case {
	var c c22Case
	ninit := rapid.IntRange(1, 3).Draw(t, "ninit")
	seen := map[int]bool{}
	for len(c.Init) < ninit {
		k := rapid.IntRange(0, c22Valid-1).Draw(t, "init")
		if !seen[k] {
			seen[k] = true
			c.Init = append(c.Init, k)
		}
	}
	// a generator-side copy of the ring steers use/remove towards present keys
	gm := &c22Model{}
	for _, i := range c.Init {
		gm.keys = append(gm.keys, c22Pool[i])
	}
	n := rapid.IntRange(1, 24).Draw(t, "n")
	for i := 0; i < n; i++ {
		op := c22Op{Op: rapid.IntRange(0, 2).Draw(t, "op")}
		switch k := rapid.IntRange(0, 9).Draw(t, "keyclass"); {
		case k < 2:
			op.Key = rapid.IntRange(c22Valid, len(c22Pool)-1).Draw(t, "badkey")
		case k < 6 && op.Op != 0:
			pick := gm.keys[rapid.IntRange(0, len(gm.keys)-1).Draw(t, "present")]
			for j := 0; j < c22Valid; j++ {
				if bytes.Equal(c22Pool[j], pick) {
					op.Key = j
				}
			}
		default:
			op.Key = rapid.IntRange(0, c22Valid-1).Draw(t, "key")
		}
		if rapid.IntRange(0, 7).Draw(t, "malformed") == 0 {
			op.Body = rapid.IntRange(1, 4).Draw(t, "body")
			op.Cut = rapid.IntRange(0, 40).Draw(t, "cut")
		} else {
			gm.apply(op.Op, c22Pool[op.Key])
			if rapid.IntRange(0, 3).Draw(t, "via") == 0 {
				op.Via = 1
			}
		}
		c.Ops = append(c.Ops, op)
	}
	return c
}

// c22Model is the reference keyring: primary first, install idempotent and
// size-checked, use needs presence, remove refuses the primary and is a no-op
// success for an absent key (memberlist Keyring semantics).
type c22Model struct{ keys [][]byte }

func (m *c22Model) has(k []byte) int {
	for i, x := range m.keys {
		if bytes.Equal(x, k) {
			return i
		}
	}
	return -1
}

func (m *c22Model) apply(op int, k []byte) (accepted bool) {
	switch op {
	case 0:
		if n := len(k); n != 16 && n != 24 && n != 32 {
			return false
		}
		if m.has(k) < 0 {
			m.keys = append(m.keys, append([]byte{}, k...))
		}
		return true
	case 1:
		i := m.has(k)
		if i < 0 {
			return false
		}
		nk := [][]byte{m.keys[i]}
		for j, x := range m.keys {
			if j != i {
				nk = append(nk, x)
			}
		}
		m.keys = nk
		return true
	default:
		if bytes.Equal(k, m.keys[0]) {
			return false
		}
		if i := m.has(k); i >= 0 {
			m.keys = append(append([][]byte{}, m.keys[:i]...), m.keys[i+1:]...)
		}
		return true
	}
}

func c22Set(keys [][]byte) []string {
	var s []string
	for _, k := range keys {
		s = append(s, base64.StdEncoding.EncodeToString(k))
	}
	sort.Strings(s)
	return s
}

func c22SameRing(a, b [][]byte) bool {
	if len(a) == 0 || len(b) == 0 {
		return len(a) == len(b)
	}
	return bytes.Equal(a[0], b[0]) && fmt.Sprint(c22Set(a)) == fmt.Sprint(c22Set(b))
}

// c22Load loads a keyring file the way an agent does at start.
func c22Load(path string) ([][]byte, error) {
	sc := serf.DefaultConfig()
	if _, err := agent.Create(&agent.Config{KeyringFile: path}, sc, io.Discard); err != nil {
		return nil, err
	}
	if sc.MemberlistConfig.Keyring == nil {
		return nil, fmt.Errorf("loader left no keyring")
	}
	return sc.MemberlistConfig.Keyring.GetKeys(), nil
}

func c22Payload(op c22Op) []byte {
	valid, _ := serf.VerifEncodeMessage(serf.VerifMessageKeyRequestType, serf.VerifKeyRequest{Key: c22Pool[op.Key%len(c22Pool)]}, false)
	switch op.Body {
	case 1:
		cut := 1 + op.Cut%(len(valid)-1)
		return valid[:cut]
	case 2:
		g := []byte{serf.VerifMessageKeyRequestType}
		for i := 0; i < 1+op.Cut%20; i++ {
			g = append(g, byte(0xc1+i*op.Cut))
		}
		return g
	case 3:
		shapes := []any{map[string]any{"Key": 5}, map[string]any{"Nope": []byte("x")}, []any{1, 2}, "str", nil, map[string]any{}}
		b, _ := mpEnc(shapes[op.Cut%len(shapes)])
		return append([]byte{serf.VerifMessageKeyRequestType}, b...)
	case 4:
		return nil
	}
	return valid
}

// c22Send delivers one key query as gossip from a peer and returns the
// node's reply.
func c22Send(n *node.Node, nw *simnet.Network, seq int, name string, payload []byte) (*serf.VerifNodeKeyResponse, string) {
	nw.Packets()
	q := serf.VerifMessageQuery{LTime: serf.LamportTime(seq), ID: uint32(1000 + seq), Addr: []byte{10, 9, 9, 9}, Port: 7946, SourceNode: "peer",
		Timeout: time.Minute, Name: "_serf_" + name, Payload: payload}
	msg, _ := serf.VerifEncodeMessage(serf.VerifMessageQueryType, &q, false)
	n.Delegate.NotifyMsg(msg)
	deadline := time.Now().Add(10 * time.Second)
	for time.Now().Before(deadline) {
		for _, p := range node.UserMsgs(nw.Packets()) {
			if len(p.Buf) == 0 || p.Buf[0] != serf.VerifMessageQueryResponseType {
				continue
			}
			var r serf.VerifMessageQueryResponse
			if serf.VerifDecodeMessage(p.Buf[1:], &r) != nil || r.ID != q.ID || r.Flags&serf.VerifQueryFlagAck != 0 {
				continue
			}
			if p.To != "10.9.9.9:7946" {
				return nil, "reply sent to " + p.To
			}
			if len(r.Payload) < 1 || r.Payload[0] != serf.VerifMessageKeyResponseType {
				return nil, "reply payload is not a key response: " + hexShort(r.Payload)
			}
			var kr serf.VerifNodeKeyResponse
			if err := serf.VerifDecodeMessage(r.Payload[1:], &kr); err != nil {
				return nil, "reply undecodable: " + err.Error()
			}
			return &kr, ""
		}
		time.Sleep(100 * time.Microsecond)
	}
	return nil, "timeout"
}

// c22Local asks the node itself through the public KeyManager API. The node
// is the only member, so the operation returns as soon as its own reply has
// come back over the loopback. The result is folded into the shape of a
// single node's reply: accepted iff the operation reports no failure.
func c22Local(n *node.Node, op int, key []byte) (*serf.VerifNodeKeyResponse, string) {
	type res struct {
		r   *serf.KeyResponse
		err error
	}
	done := make(chan res, 1)
	k64 := base64.StdEncoding.EncodeToString(key)
	go func() {
		km := n.Serf.KeyManager()
		var r *serf.KeyResponse
		var err error
		switch op {
		case 0:
			r, err = km.InstallKey(k64)
		case 1:
			r, err = km.UseKey(k64)
		default:
			r, err = km.RemoveKey(k64)
		}
		done <- res{r, err}
	}()
	select {
	case out := <-done:
		if out.r == nil {
			return nil, fmt.Sprintf("KeyManager returned no response (err=%v)", out.err)
		}
		if out.r.NumResp == 0 {
			return nil, "timeout"
		}
		if out.r.NumNodes != 1 || out.r.NumResp != 1 || out.r.NumErr > 1 || (out.r.NumErr != 0) != (out.err != nil) {
			return nil, fmt.Sprintf("KeyManager on a one-node cluster: NumNodes=%d NumResp=%d NumErr=%d err=%v", out.r.NumNodes, out.r.NumResp, out.r.NumErr, out.err)
		}
		return &serf.VerifNodeKeyResponse{Result: out.err == nil, Message: out.r.Messages[n.Name]}, ""
	case <-time.After(10 * time.Second):
		return nil, "timeout"
	}
}

func bodyC22(c c22Case, x *vkit.Ctx) {
	if len(c.Init) == 0 {
		x.Inconclusive("malformed case")
		return
	}
	dir, err := os.MkdirTemp("", "c22")
	if err != nil {
		x.Inconclusive("tempdir")
		return
	}
	defer os.RemoveAll(dir)
	path := filepath.Join(dir, "keyring.json")
	model := &c22Model{}
	var initEnc []string
	for _, i := range c.Init {
		k := c22Pool[i%c22Valid]
		if model.has(k) < 0 {
			model.keys = append(model.keys, k)
			initEnc = append(initEnc, base64.StdEncoding.EncodeToString(k))
		}
	}
	// the operator's keyring file; the node starts from what the agent loader reads
	fb, _ := json.MarshalIndent(initEnc, "", "  ")
	if err := os.WriteFile(path, fb, 0o600); err != nil {
		x.Inconclusive("write keyring")
		return
	}
	loaded, err := c22Load(path)
	if err != nil || !c22SameRing(loaded, model.keys) {
		x.Violationf("initial-load", "agent loader on the operator's file: err=%v keys=%v want %v", err, c22Set(loaded), c22Set(model.keys))
		return
	}
	nw := simnet.New(1)
	nw.Loopback = true // the node's replies to its own queries (Via=1) reach it
	n, err := node.New(nw, node.Opts{Name: "kn", Quiet: true, Mutate: func(conf *serf.Config) {
		kr, _ := memberlist.NewKeyring(loaded, loaded[0])
		conf.MemberlistConfig.Keyring = kr
		conf.MemberlistConfig.GossipVerifyIncoming = false
		conf.MemberlistConfig.GossipVerifyOutgoing = false
		conf.KeyringFile = path
		// a key operation issued at this node lasts GossipInterval*QueryTimeoutMult
		// at most (it returns earlier, once the only member has replied); there is
		// nobody to gossip to, so the interval changes nothing else
		conf.MemberlistConfig.GossipInterval = 8 * time.Second
		conf.QueryTimeoutMult = 1
	}})
	if err != nil {
		x.Inconclusive("create: " + err.Error())
		return
	}
	defer n.Stop()
	ring := n.Conf.MemberlistConfig.Keyring

	rejected, useNonFirstOK, useThenRemove, malformed := 0, false, false, 0
	for i, op := range c.Ops {
		payload := c22Payload(op)
		name := c22Names[op.Op%3]
		// what does the request say (independent read of the body)?
		var req wKeyReq
		wellFormed := len(payload) >= 1 && mpDec(payload[1:], &req) == nil
		before := append([][]byte{}, ring.GetKeys()...)
		fileBefore, _ := os.ReadFile(path)
		wasNonFirst := wellFormed && model.has(req.Key) > 0

		want := false
		if wellFormed {
			want = model.apply(op.Op%3, req.Key)
		} else {
			malformed++
		}
		mon := vkit.StartMonitor()
		var reply *serf.VerifNodeKeyResponse
		var why string
		if op.Via == 1 && op.Body == 0 {
			reply, why = c22Local(n, op.Op%3, req.Key)
			x.Label("via:local-keymanager")
		} else {
			reply, why = c22Send(n, nw, 2*i+1, name, payload)
			x.Label("via:gossip-from-peer")
		}
		gap := mon.MaxGap()
		mon.Stop()
		if reply == nil {
			switch {
			case why != "timeout":
				x.Violationf("bad-reply", "op %d (%s key#%d body%d via%d): %s", i, name, op.Key, op.Body, op.Via, why)
			case gap > 500*time.Millisecond || !waitSerfWork(time.Second):
				x.Inconclusive("no reply within 10s (starved)")
			default:
				// every key handler documents that it replies, with the error if the
				// request failed; ten undisturbed seconds without a handler running
				// and without a reply is a request neither granted nor rejected
				x.Violationf("no-reply:"+name, "op %d (%s key#%d len %d body%d via%d): the node never replied (ring before: %v)", i, name, op.Key, len(req.Key), op.Body, op.Via, c22Set(before))
			}
			return
		}
		if reply.Result != want {
			x.Violationf("reply-vs-model:"+name, "op %d (%s key#%d len %d body%d): node replied Result=%v %q, model says accepted=%v (ring before: %v)",
				i, name, op.Key, len(req.Key), op.Body, reply.Result, reply.Message, want, c22Set(before))
			return
		}
		after := ring.GetKeys()
		if !c22SameRing(after, model.keys) {
			x.Violationf("keyring-vs-model:"+name, "op %d (%s key#%d): live keyring primary %s set %v, model primary %s set %v", i, name, op.Key,
				base64.StdEncoding.EncodeToString(after[0]), c22Set(after), base64.StdEncoding.EncodeToString(model.keys[0]), c22Set(model.keys))
			return
		}
		fileAfter, _ := os.ReadFile(path)
		if !reply.Result {
			rejected++
			if !c22SameRing(before, after) || len(before) != len(after) {
				x.Violationf("rejected-changed-keyring:"+name, "op %d: rejected %s changed the keyring from %v to %v", i, name, c22Set(before), c22Set(after))
				return
			}
			if !bytes.Equal(fileBefore, fileAfter) {
				x.Violationf("rejected-changed-file:"+name, "op %d: rejected %s changed the keyring file", i, name)
				return
			}
		}
		fl, err := c22Load(path)
		if err != nil {
			x.Violationf("reload-error:"+name, "op %d (%s): keyring file does not load: %v\nfile: %s", i, name, err, fileAfter)
			return
		}
		if !c22SameRing(fl, model.keys) {
			x.Violationf("reload-differs:"+name, "op %d (%s key#%d, accepted=%v): file reloads to primary %s set %v; node has primary %s set %v", i, name, op.Key, reply.Result,
				base64.StdEncoding.EncodeToString(fl[0]), c22Set(fl), base64.StdEncoding.EncodeToString(model.keys[0]), c22Set(model.keys))
			return
		}
		if reply.Result {
			if op.Op%3 == 1 && wasNonFirst {
				useNonFirstOK = true
			}
			if op.Op%3 == 2 && useNonFirstOK {
				useThenRemove = true
			}
		}
		x.Labelf("%s:%s", name, map[bool]string{true: "accepted", false: "rejected"}[reply.Result])
	}
	if useNonFirstOK {
		x.Label("use-key-of-non-first")
	}
	if malformed > 0 {
		x.Label("malformed-body")
	}
	x.Labelf("final-ring-size=%d", len(model.keys))
	x.NonTrivial(useThenRemove && rejected >= 1)
}

func TestC22(t *testing.T) { vkit.Run(t, "C22", genC22, bodyC22) }
