//go:build verif

package core3

import (
	"bytes"
	"encoding/base64"
	"fmt"
	"strings"
	"testing"
	"time"

	"github.com/hashicorp/memberlist"
	"github.com/hashicorp/serf/serf"
	"pgregory.net/rapid"

	"verif/internal/node"
	"verif/internal/simnet"
	"verif/internal/vkit"
)

// C23 — cluster key operations aggregate replies faithfully and replies fit.
//
// Three case kinds:
//
//	agg    a generated multiset of per-node replies is run through the real
//	       aggregation loop (hook VerifStreamKeyResp) and compared with a model
//	api    the public KeyManager API (ListKeys / InstallKey / UseKey / RemoveKey)
//	       on a real node whose memberlist knows 0..4 further members (injected
//	       memberlist alive messages); the harness answers the open query with
//	       the generated replies; result fields and "error iff some node failed
//	       or fewer replied than are members" are checked
//	trunc  a node with 1..120 keys and a response size limit in [60,4096]
//	       receives _serf_list-keys from a peer; the captured reply is checked
//	       for size, prefix, and the truncation message

type c23Reply struct {
	// Kind: 0 ok; 1 ok+message; 2 failed+message; 3 wrong type byte (TB); 4 garbage
	// body (Raw; may be empty: the type byte alone); 5 empty payload; 6 list;
	// 7 failed list; 8 a valid list reply cut short (Cut); 9 well-formed msgpack of
	// another shape behind the right type byte (Cut selects it)
	Kind    int    `json:"kind"`
	Msg     string `json:"msg"`
	Keys    []int  `json:"keys"`
	Primary int    `json:"primary"` // -1 = none
	Raw     []byte `json:"raw"`
	TB      int    `json:"tb"` // kind 3: the type byte
	Cut     int    `json:"cut,omitempty"`
}

type c23Case struct {
	Part     string     `json:"part"`
	NumNodes int        `json:"num_nodes"` // agg: the NumNodes handed to the loop
	Fake     int        `json:"fake"`      // api: further members known to memberlist
	// api: members that joined and have left since (a leave intent, then
	// memberlist's notice that the node is gone): they stay in serf's member
	// table as tombstones, memberlist no longer counts them, and nobody can
	// expect them to reply
	Departed int `json:"departed,omitempty"`
	Op       int        `json:"op"`        // api: 0 list 1 install 2 use 3 remove
	Replies  []c23Reply `json:"replies"`
	NKeys    int        `json:"nkeys"` // trunc
	Limit    int        `json:"limit"` // trunc
	// trunc: what else goes into the size of the reply (defaults: "lister", 1, 4242)
	Name  string `json:"name,omitempty"`
	LTime uint64 `json:"ltime,omitempty"`
	ID    uint32 `json:"id,omitempty"`
	// api: relay factor handed to the ...WithOptions variant (0 = the plain call)
	Relay int `json:"relay,omitempty"`
}

func c23KeyName(i int) string { return base64.StdEncoding.EncodeToString(c23Key(i)) }

func c23Key(i int) []byte {
	n := []int{16, 24, 32}[i%3]
	k := bytes.Repeat([]byte{byte(i%251 + 1)}, n)
	k[0], k[1] = byte(i>>8), byte(i)
	return k
}

func genC23Replies(t *rapid.T, n int) []c23Reply {
	var out []c23Reply
	for i := 0; i < n; i++ {
		r := c23Reply{Kind: rapid.SampledFrom([]int{0, 0, 1, 2, 2, 3, 4, 5, 6, 6, 6, 7, 8, 9}).Draw(t, "kind"), Primary: -1}
		switch r.Kind {
		case 1, 2, 7:
			r.Msg = rapid.SampledFrom([]string{"", "boom", "requested key is not in the keyring", "x"}).Draw(t, "msg")
		}
		if r.Kind == 6 && rapid.IntRange(0, 2).Draw(t, "note") == 0 {
			// a successful listing that also has something to say: what a node
			// sends when it had to truncate its key list
			r.Msg = rapid.SampledFrom([]string{"truncated key list response, showing first 2 of 5 keys", "x"}).Draw(t, "notemsg")
		}
		if r.Kind == 2 && rapid.IntRange(0, 3).Draw(t, "emptymsg") > 0 && r.Msg == "" {
			r.Msg = "failed"
		}
		if r.Kind == 3 {
			// every other type byte: the neighbours of the key-response type, the
			// key-request type, 0 and the far end
			r.TB = int(rapid.SampledFrom([]uint8{serf.VerifMessageQueryResponseType, 0, serf.VerifMessageKeyRequestType, serf.VerifMessageKeyResponseType - 1,
				serf.VerifMessageKeyResponseType + 1, serf.VerifMessageRelayType, 255, 128}).Draw(t, "tb"))
		}
		if r.Kind == 8 || r.Kind == 9 {
			r.Cut = rapid.IntRange(0, 200).Draw(t, "cut")
		}
		if r.Kind >= 6 && r.Kind <= 8 || r.Kind == 3 {
			nk := rapid.IntRange(0, 5).Draw(t, "nkeys")
			for j := 0; j < nk; j++ {
				r.Keys = append(r.Keys, rapid.IntRange(0, 5).Draw(t, "key"))
			}
			r.Primary = rapid.IntRange(-1, 5).Draw(t, "primary")
		}
		if r.Kind == 4 {
			r.Raw = rapid.SliceOfN(rapid.Byte(), 0, 30).Draw(t, "raw")
		}
		out = append(out, r)
	}
	return out
}

func genC23(t *rapid.T) c23Case {
	part := rapid.SampledFrom([]string{"agg", "agg", "agg", "agg", "agg", "agg", "agg", "agg", "trunc", "trunc", "trunc", "trunc", "trunc", "api", "api"}).Draw(t, "part")
	c := c23Case{Part: part}
	switch part {
	case "agg":
		n := rapid.IntRange(0, 12).Draw(t, "n")
		c.Replies = genC23Replies(t, n)
		switch rapid.IntRange(0, 6).Draw(t, "numnodes.k") {
		case 0:
			c.NumNodes = max(1, n-rapid.IntRange(1, 3).Draw(t, "fewer"))
		case 1, 2:
			c.NumNodes = n + rapid.IntRange(1, 4).Draw(t, "more")
		default:
			c.NumNodes = max(1, n)
		}
	case "api":
		c.Fake = rapid.IntRange(0, 4).Draw(t, "fake")
		c.Departed = rapid.SampledFrom([]int{0, 0, 1, 2}).Draw(t, "departed")
		c.Op = rapid.IntRange(0, 3).Draw(t, "op")
		c.Relay = rapid.SampledFrom([]int{0, 0, 1, 3, 255}).Draw(t, "relay")
		nn := c.Fake + 1
		var n int
		switch rapid.IntRange(0, 5).Draw(t, "nreplies.k") {
		case 0, 1:
			n = rapid.IntRange(0, nn-1).Draw(t, "fewer")
		case 2:
			n = nn + 1
		default:
			n = nn
		}
		c.Replies = genC23Replies(t, n)
		// steer half of the full-house cases to "everybody succeeded"
		if n == nn && rapid.Bool().Draw(t, "allok") {
			for i := range c.Replies {
				if k := c.Replies[i].Kind; k != 0 && k != 6 {
					c.Replies[i] = c23Reply{Kind: 0, Primary: -1}
				}
			}
		}
	case "trunc":
		c.Name = rapid.SampledFrom([]string{"", "", "n", "lister-with-a-rather-long-node-name.dc1.example.org", string(bytes.Repeat([]byte{'x'}, 128))}).Draw(t, "name")
		c.LTime = rapid.SampledFrom([]uint64{0, 0, 127, 128, 1 << 16, 1 << 32, 1 << 63}).Draw(t, "ltime")
		c.ID = rapid.SampledFrom([]uint32{0, 0, 1, 127, 128, 65536, 0xffffffff}).Draw(t, "id")
		c.NKeys = rapid.SampledFrom([]int{1, 2, 3, 5, 10, 20, 40, 41, 60, 120, 30, 80, rapid.IntRange(1, 120).Draw(t, "nkeys.any")}).Draw(t, "nkeys")
		c.Limit = rapid.SampledFrom([]int{1024, 1024, 200, 300, 400, 600, 4096, rapid.IntRange(60, 4096).Draw(t, "limit.any"), rapid.IntRange(160, 1500).Draw(t, "limit.mid"), rapid.IntRange(60, 200).Draw(t, "limit.small")}).Draw(t, "limit")
		// half of the cases sit exactly on a boundary: the limit is the size of the
		// reply that shows k keys (computed with the msgpack library, see
		// c23ReplySize), one byte less, or one byte more
		if rapid.Bool().Draw(t, "limit.boundary") {
			k := rapid.SampledFrom([]int{0, 1, 1, 1, 2, 3, c.NKeys - 1, c.NKeys, c.NKeys, rapid.IntRange(0, c.NKeys).Draw(t, "limit.k.any")}).Draw(t, "limit.k")
			k = max(0, min(k, c.NKeys))
			c.Limit = max(1, c23ReplySize(c, k)+rapid.SampledFrom([]int{-1, 0, 0, 1}).Draw(t, "limit.delta"))
		}
	}
	return c
}

// c23Hdr gives the node name and the query identity of a trunc case.
func c23Hdr(c c23Case) (name string, ltime uint64, id uint32) {
	name, ltime, id = c.Name, c.LTime, c.ID
	if name == "" {
		name = "lister"
	}
	if ltime == 0 {
		ltime = 1
	}
	if id == 0 {
		id = 4242
	}
	return
}

// c23ReplySize is the size on the wire of the list-keys reply of a trunc case
// that shows the first k of its keys, encoded with the msgpack library
// directly (keys are held in the order given: the primary is the first).
func c23ReplySize(c c23Case, k int) int {
	name, ltime, id := c23Hdr(c)
	kr := wKeyResp{Result: true, PrimaryKey: c23KeyName(0)}
	for i := 0; i < k; i++ {
		kr.Keys = append(kr.Keys, c23KeyName(i))
	}
	if k < c.NKeys {
		kr.Message = fmt.Sprintf("truncated key list response, showing first %d of %d keys", k, c.NKeys)
	}
	ib, _ := mpEnc(kr)
	ob, _ := mpEnc(wResp{LTime: ltime, ID: id, From: name, Payload: append([]byte{serf.VerifMessageKeyResponseType}, ib...)})
	return 1 + len(ob)
}

// ---- model of the aggregation ------------------------------------------------------

type c23Agg struct {
	NumResp, NumErr int
	Keys, Primary   map[string]int
	KeyNodes        map[string]int // replies that list the key at least once
	FailMsg         map[string]string // From -> message of decodable failed replies
	undecodable     int
	failed          int
}

func c23Payload(r c23Reply) []byte {
	body := wKeyResp{Message: r.Msg}
	for _, k := range r.Keys {
		body.Keys = append(body.Keys, c23KeyName(k))
	}
	if r.Primary >= 0 {
		body.PrimaryKey = c23KeyName(r.Primary)
	}
	switch r.Kind {
	case 0, 1, 6:
		body.Result = true
	case 2, 7:
		body.Result = false
	case 3:
		body.Result = true
		b, _ := mpEnc(body)
		tb := uint8(r.TB)
		if tb == serf.VerifMessageKeyResponseType {
			tb = serf.VerifMessageQueryResponseType
		}
		return append([]byte{tb}, b...) // wrong type byte
	case 4:
		return append([]byte{serf.VerifMessageKeyResponseType}, r.Raw...)
	case 5:
		return nil
	case 8:
		body.Result = true
		b, _ := mpEnc(body)
		if len(b) > 1 {
			b = b[:1+r.Cut%(len(b)-1)]
		}
		return append([]byte{serf.VerifMessageKeyResponseType}, b...)
	case 9:
		shapes := []any{map[string]any{}, nil, []any{true, "m"}, "str", 7, map[string]any{"Result": "yes"}, map[string]any{"Result": true, "Keys": "notalist"},
			map[string]any{"Result": true, "Keys": []any{1, 2}}, map[string]any{"Result": true, "Extra": 1, "Message": "m"}, map[string]any{"Result": 1},
			map[string]any{"Result": true, "PrimaryKey": []byte("x")}, map[string]any{"result": true}, map[any]any{1: true}}
		b, _ := mpEnc(shapes[r.Cut%len(shapes)])
		return append([]byte{serf.VerifMessageKeyResponseType}, b...)
	}
	b, _ := mpEnc(body)
	return append([]byte{serf.VerifMessageKeyResponseType}, b...)
}

// c23Model folds the first `consume` replies, written from the statement:
// failures are the failed and the undecodable replies; key counts come from
// the decodable ones.
func c23Model(payloads [][]byte, froms []string, numNodes int) c23Agg {
	a := c23Agg{Keys: map[string]int{}, KeyNodes: map[string]int{}, Primary: map[string]int{}, FailMsg: map[string]string{}}
	for i, p := range payloads {
		a.NumResp++
		var kr wKeyResp
		switch {
		case len(p) < 1 || p[0] != serf.VerifMessageKeyResponseType:
			a.NumErr++
			a.undecodable++
		case mpDec(p[1:], &kr) != nil:
			a.NumErr++
			a.undecodable++
		default:
			if !kr.Result {
				a.NumErr++
				a.failed++
				a.FailMsg[froms[i]] = kr.Message
			}
			once := map[string]bool{}
			for _, k := range kr.Keys {
				a.Keys[k]++
				if !once[k] {
					once[k] = true
					a.KeyNodes[k]++
				}
			}
			if kr.PrimaryKey != "" {
				a.Primary[kr.PrimaryKey]++
			}
		}
		if a.NumResp == numNodes {
			break
		}
	}
	return a
}

func c23Compare(x *vkit.Ctx, what string, got *serf.KeyResponse, want c23Agg, numNodes int) bool {
	if got == nil {
		x.Violationf("nil-response:"+what, "no KeyResponse returned")
		return false
	}
	if got.NumNodes != numNodes {
		x.Violationf("numnodes:"+what, "NumNodes=%d, want %d", got.NumNodes, numNodes)
		return false
	}
	if got.NumResp != want.NumResp {
		x.Violationf("numresp:"+what, "NumResp=%d, want %d (NumNodes %d)", got.NumResp, want.NumResp, numNodes)
		return false
	}
	if got.NumErr != want.NumErr {
		x.Violationf("numerr:"+what, "NumErr=%d, want %d (%d failed + %d undecodable)", got.NumErr, want.NumErr, want.failed, want.undecodable)
		return false
	}
	// "how many nodes hold each key": a reply that lists a key twice (no real
	// node does) may be counted once (nodes) or per mention, nothing else
	keysOK := len(got.Keys) == len(want.Keys)
	for k, n := range got.Keys {
		if n < want.KeyNodes[k] || n > want.Keys[k] {
			keysOK = false
		}
	}
	if !keysOK {
		x.Violationf("keys:"+what, "Keys=%v, want %v (per node: %v)", got.Keys, want.Keys, want.KeyNodes)
		return false
	}
	gp := map[string]int{}
	for k, v := range got.PrimaryKeys {
		if k != "" {
			gp[k] = v
		}
	}
	if !eqLoose(gp, want.Primary) {
		x.Violationf("primarykeys:"+what, "PrimaryKeys=%v, want %v", got.PrimaryKeys, want.Primary)
		return false
	}
	for from, m := range want.FailMsg {
		if got.Messages[from] != m {
			x.Violationf("messages:"+what, "Messages[%s]=%q, want the node's failure message %q", from, got.Messages[from], m)
			return false
		}
	}
	return true
}

func c23LabelReplies(x *vkit.Ctx, a c23Agg, n, numNodes int) {
	if a.undecodable > 0 {
		x.Label("has-undecodable")
	}
	if a.failed > 0 {
		x.Label("has-failed")
	}
	switch {
	case n < numNodes:
		x.Label("fewer-replies-than-nodes")
	case n > numNodes:
		x.Label("more-replies-than-nodes")
	default:
		x.Label("replies==nodes")
	}
	if len(a.Keys) > 0 {
		x.Label("has-key-lists")
	}
}

func bodyC23Agg(c c23Case, x *vkit.Ctx) {
	nw := simnet.New(1)
	n, err := node.New(nw, node.Opts{Name: "agg", Quiet: true})
	if err != nil {
		x.Inconclusive("create: " + err.Error())
		return
	}
	defer n.Stop()
	var payloads [][]byte
	var froms []string
	var in []serf.NodeResponse
	for i, r := range c.Replies {
		p := c23Payload(r)
		payloads = append(payloads, p)
		froms = append(froms, fmt.Sprintf("n%d", i))
		in = append(in, serf.NodeResponse{From: froms[i], Payload: p})
	}
	want := c23Model(payloads, froms, c.NumNodes)
	got := n.Serf.VerifStreamKeyResp(c.NumNodes, in)
	x.Label("part:agg")
	c23LabelReplies(x, want, len(c.Replies), c.NumNodes)
	if !c23Compare(x, "agg", got, want, c.NumNodes) {
		return
	}
	x.NonTrivial(want.undecodable > 0 && want.failed > 0)
}

// mlDead is memberlist's dead message (wire names); From == Node means the
// node announced its own departure.
type mlDead struct {
	Incarnation uint32
	Node        string
	From        string
}

// mlAlive is memberlist's alive message (wire names).
type mlAlive struct {
	Incarnation uint32
	Node        string
	Addr        []byte
	Port        uint16
	Meta        []byte
	Vsn         []uint8
}

func bodyC23API(c c23Case, x *vkit.Ctx) {
	const gossip, mult = 25 * time.Millisecond, 4 // key queries last gossip*mult = 100 ms
	nw := simnet.New(1)
	nw.SetCapture(false)
	n, err := node.New(nw, node.Opts{Name: "asker", Quiet: true, Mutate: func(conf *serf.Config) {
		kr, _ := memberlist.NewKeyring([][]byte{c23Key(0), c23Key(1)}, c23Key(0))
		conf.MemberlistConfig.Keyring = kr
		conf.MemberlistConfig.GossipVerifyIncoming = false
		conf.MemberlistConfig.GossipVerifyOutgoing = false
		conf.MemberlistConfig.GossipInterval = gossip
		conf.QueryTimeoutMult = mult
	}})
	if err != nil {
		x.Inconclusive("create: " + err.Error())
		return
	}
	defer n.Stop()
	// further members, as memberlist learns them from the network
	for i := 0; i < c.Fake; i++ {
		b, _ := mpEnc(mlAlive{Incarnation: 1, Node: fmt.Sprintf("peer%d", i), Addr: []byte{10, 1, 0, byte(i + 1)}, Port: 7946, Vsn: []uint8{1, 5, 2, 2, 5, 4}})
		n.Tr.Inject("10.1.0.1:7946", append([]byte{4}, b...))
	}
	numNodes := c.Fake + 1
	for dl := time.Now().Add(5 * time.Second); n.Serf.Memberlist().NumMembers() != numNodes; {
		if time.Now().After(dl) {
			x.Inconclusive("memberlist did not take the injected members")
			return
		}
		time.Sleep(200 * time.Microsecond)
	}
	// ... and members that have left since: they came, announced their leave, and
	// memberlist reported them gone. serf keeps them (status left) for the
	// tombstone timeout; memberlist's member count is back to numNodes.
	for i := 0; i < c.Departed; i++ {
		name := fmt.Sprintf("gone%d", i)
		b, _ := mpEnc(mlAlive{Incarnation: 1, Node: name, Addr: []byte{10, 1, 1, byte(i + 1)}, Port: 7946, Vsn: []uint8{1, 5, 2, 2, 5, 4}})
		n.Tr.Inject("10.1.0.1:7946", append([]byte{4}, b...))
		known := func() bool {
			for _, m := range n.Serf.Members() {
				if m.Name == name {
					return true
				}
			}
			return false
		}
		for dl := time.Now().Add(5 * time.Second); !known(); time.Sleep(200 * time.Microsecond) {
			if time.Now().After(dl) {
				x.Inconclusive("memberlist did not take the member that is to leave")
				return
			}
		}
		lv, _ := serf.VerifEncodeMessage(serf.VerifMessageLeaveType, &serf.VerifMessageLeave{LTime: 1000 + serf.LamportTime(i), Node: name}, false)
		n.Delegate.NotifyMsg(lv)
		d, _ := mpEnc(mlDead{Incarnation: 1, Node: name, From: name})
		n.Tr.Inject("10.1.0.1:7946", append([]byte{5}, d...))
	}
	if c.Departed > 0 {
		left := func() int {
			k := 0
			for _, m := range n.Serf.Members() {
				if m.Status == serf.StatusLeft {
					k++
				}
			}
			return k
		}
		for dl := time.Now().Add(5 * time.Second); n.Serf.Memberlist().NumMembers() != numNodes || left() != c.Departed; time.Sleep(200 * time.Microsecond) {
			if time.Now().After(dl) {
				x.Inconclusive("the departures did not settle")
				return
			}
		}
		x.Labelf("api:departed-members=%d", c.Departed)
	}
	km := n.Serf.KeyManager()
	type res struct {
		r   *serf.KeyResponse
		err error
	}
	done := make(chan res, 1)
	key := base64.StdEncoding.EncodeToString(c23Key(1))
	start := time.Now()
	go func() {
		var r *serf.KeyResponse
		var err error
		opts := &serf.KeyRequestOptions{RelayFactor: uint8(c.Relay)}
		switch {
		case c.Relay > 0 && c.Op%4 == 0:
			r, err = km.ListKeysWithOptions(opts)
		case c.Relay > 0 && c.Op%4 == 1:
			r, err = km.InstallKeyWithOptions(base64.StdEncoding.EncodeToString(c23Key(2)), opts)
		case c.Relay > 0 && c.Op%4 == 2:
			r, err = km.UseKeyWithOptions(key, opts)
		case c.Relay > 0:
			r, err = km.RemoveKeyWithOptions(key, opts)
		case c.Op%4 == 0:
			r, err = km.ListKeys()
		case c.Op%4 == 1:
			r, err = km.InstallKey(base64.StdEncoding.EncodeToString(c23Key(2)))
		case c.Op%4 == 2:
			r, err = km.UseKey(key)
		default:
			r, err = km.RemoveKey(key)
		}
		done <- res{r, err}
	}()
	var oq []serf.VerifOpenQuery
	for dl := time.Now().Add(5 * time.Second); len(oq) == 0; {
		oq = n.Serf.VerifOpenQueries()
		if len(oq) == 0 {
			if time.Now().After(dl) {
				x.Inconclusive("key query never opened")
				return
			}
			time.Sleep(50 * time.Microsecond)
		}
	}
	var payloads [][]byte
	var froms []string
	for i, r := range c.Replies {
		p := c23Payload(r)
		payloads = append(payloads, p)
		froms = append(froms, fmt.Sprintf("peer%d", i))
		msg, _ := serf.VerifEncodeMessage(serf.VerifMessageQueryResponseType, &serf.VerifMessageQueryResponse{LTime: oq[0].LTime, ID: oq[0].ID, From: froms[i], Payload: p}, false)
		n.Delegate.NotifyMsg(msg)
	}
	if time.Since(start) > gossip*mult/2 {
		x.Inconclusive("starved: replies not injected within half the query timeout")
		return
	}
	var out res
	select {
	case out = <-done:
	case <-time.After(10 * time.Second):
		x.Inconclusive("key operation did not return within 10s")
		return
	}
	want := c23Model(payloads, froms, numNodes)
	x.Label("part:api")
	x.Labelf("api:op%d", c.Op%4)
	x.Labelf("api:nodes=%d", numNodes)
	if c.Relay > 0 {
		x.Label("api:with-relay-option")
	}
	c23LabelReplies(x, want, len(c.Replies), numNodes)
	if !c23Compare(x, "api", out.r, want, numNodes) {
		return
	}
	wantErr := want.NumErr > 0 || want.NumResp < numNodes
	if (out.err != nil) != wantErr {
		x.Violationf(fmt.Sprintf("error-iff:got=%v", out.err != nil), "key operation returned err=%v; %d of %d nodes replied, %d failed/undecodable", out.err, want.NumResp, numNodes, want.NumErr)
		return
	}
	if wantErr {
		x.Label("api:error-returned")
	} else {
		x.Label("api:success")
	}
	x.NonTrivial(want.undecodable > 0 && want.failed > 0 || !wantErr && numNodes > 1)
}

func bodyC23Trunc(c c23Case, x *vkit.Ctx) {
	if c.NKeys < 1 || c.Limit < 1 {
		x.Inconclusive("malformed case")
		return
	}
	var keys [][]byte
	for i := 0; i < c.NKeys; i++ {
		keys = append(keys, c23Key(i))
	}
	name, ltime, id := c23Hdr(c)
	nw := simnet.New(1)
	n, err := node.New(nw, node.Opts{Name: name, Quiet: true, Mutate: func(conf *serf.Config) {
		kr, _ := memberlist.NewKeyring(keys, keys[0])
		conf.MemberlistConfig.Keyring = kr
		conf.MemberlistConfig.GossipVerifyIncoming = false
		conf.MemberlistConfig.GossipVerifyOutgoing = false
		conf.QueryResponseSizeLimit = c.Limit
	}})
	if err != nil {
		x.Inconclusive("create: " + err.Error())
		return
	}
	defer n.Stop()
	ring := n.Conf.MemberlistConfig.Keyring.GetKeys()
	var ringNames []string
	for _, k := range ring {
		ringNames = append(ringNames, base64.StdEncoding.EncodeToString(k))
	}
	N := len(ringNames)
	nw.Packets()
	q := serf.VerifMessageQuery{LTime: serf.LamportTime(ltime), ID: id, Addr: []byte{10, 9, 9, 9}, Port: 7946, SourceNode: "peer", Timeout: time.Minute, Name: "_serf_list-keys"}
	msg, _ := serf.VerifEncodeMessage(serf.VerifMessageQueryType, &q, false)
	n.Delegate.NotifyMsg(msg)

	// does a reply with one key and the truncation message fit? (independent encoding)
	oneKey := wKeyResp{Result: true, Keys: ringNames[:1], PrimaryKey: ringNames[0]}
	if N > 1 {
		oneKey.Message = fmt.Sprintf("truncated key list response, showing first %d of %d keys", 1, N)
	}
	ib, _ := mpEnc(oneKey)
	ob, _ := mpEnc(wResp{LTime: ltime, ID: id, From: name, Payload: append([]byte{serf.VerifMessageKeyResponseType}, ib...)})
	oneFits := 1+len(ob) <= c.Limit

	var reply []byte
	gaveUp := false
	for dl := time.Now().Add(10 * time.Second); reply == nil && !gaveUp; {
		for _, p := range node.UserMsgs(nw.Packets()) {
			if len(p.Buf) > 0 && p.Buf[0] == serf.VerifMessageQueryResponseType && p.To == "10.9.9.9:7946" {
				reply = p.Buf
			}
		}
		if reply == nil && strings.Contains(n.Log.String(), "[ERR] serf:") { // the handler gave up (logged) without replying
			gaveUp = true
		}
		if reply == nil && !gaveUp {
			if time.Now().After(dl) {
				x.Inconclusive("neither a reply nor a give-up within 10s")
				return
			}
			time.Sleep(100 * time.Microsecond)
		}
	}
	x.Label("part:trunc")
	for k := 0; k <= N; k++ {
		if d := c.Limit - c23ReplySize(c, k); d >= -1 && d <= 1 {
			x.Labelf("trunc:limit=size(k)%+d", d)
			if k == 1 {
				x.Labelf("trunc:limit=size(one-key)%+d", d)
			}
			break
		}
	}
	if reply == nil {
		x.Label("trunc:no-reply")
		if oneFits {
			x.Violationf("no-reply-though-one-key-fits", "%d keys, limit %d: a reply with one key and the truncation message is %d bytes, yet the node sent nothing", N, c.Limit, 1+len(ob))
		}
		return
	}
	if len(reply) > c.Limit {
		x.Violationf("reply-exceeds-limit", "%d keys, limit %d: reply is %d bytes", N, c.Limit, len(reply))
		return
	}
	var r wResp
	var kr wKeyResp
	if mpDec(reply[1:], &r) != nil || len(r.Payload) < 1 || r.Payload[0] != serf.VerifMessageKeyResponseType || mpDec(r.Payload[1:], &kr) != nil {
		x.Violationf("reply-undecodable", "reply %s", hexShort(reply))
		return
	}
	if r.ID != id || r.LTime != ltime || r.From != name {
		x.Violationf("reply-header", "reply header %+v", r)
		return
	}
	if !kr.Result || kr.PrimaryKey != ringNames[0] {
		x.Violationf("reply-content", "Result=%v PrimaryKey=%q want true/%q", kr.Result, kr.PrimaryKey, ringNames[0])
		return
	}
	if len(kr.Keys) > N || !eqLoose(kr.Keys, ringNames[:len(kr.Keys)]) {
		x.Violationf("not-a-prefix", "listed keys are not a prefix of the ring: %v vs %v", kr.Keys, ringNames)
		return
	}
	if len(kr.Keys) < N {
		x.Label("trunc:truncated")
		wantMsg := fmt.Sprintf("truncated key list response, showing first %d of %d keys", len(kr.Keys), N)
		if kr.Message != wantMsg {
			x.Violationf("truncation-message", "reply lists %d of %d keys but says %q", len(kr.Keys), N, kr.Message)
			return
		}
		if len(kr.Keys) == 0 {
			x.Label("trunc:zero-keys-shown")
		}
	} else {
		x.Label("trunc:complete")
	}
	x.NonTrivial(len(kr.Keys) < N)
}

func bodyC23(c c23Case, x *vkit.Ctx) {
	switch c.Part {
	case "agg":
		bodyC23Agg(c, x)
	case "api":
		bodyC23API(c, x)
	case "trunc":
		bodyC23Trunc(c, x)
	default:
		x.Inconclusive("malformed case")
	}
}

func TestC23(t *testing.T) { vkit.Run(t, "C23", genC23, bodyC23) }
