//go:build verif && verifoverlay

package core3

import "github.com/hashicorp/serf/serf"

// Built with the "locks" overlay of /verif/overlaygen: serf's mutexes call a
// hook before acquiring and after releasing.
func init() {
	setLockHook = serf.VerifSetLockHook
	lockHookAvailable = true
}
