//go:build verif

package core3

import (
	"bytes"
	"fmt"
	"reflect"
	"runtime"
	"sync"
	"time"
	"unicode/utf8"

	"github.com/hashicorp/go-msgpack/v2/codec"
	"pgregory.net/rapid"
)

// ---- log capture -----------------------------------------------------------

// logBuf is a goroutine-safe log sink whose content can be taken (and cleared).
type logBuf struct {
	mu sync.Mutex
	b  bytes.Buffer
}

func (l *logBuf) Write(p []byte) (int, error) {
	l.mu.Lock()
	defer l.mu.Unlock()
	if l.b.Len() > 4<<20 {
		l.b.Reset()
	}
	return l.b.Write(p)
}

func (l *logBuf) Take() string {
	l.mu.Lock()
	defer l.mu.Unlock()
	s := l.b.String()
	l.b.Reset()
	return s
}

// ---- msgpack through the codec library directly (not through serf) ---------

func mpEnc(v any) ([]byte, error) {
	var out []byte
	h := codec.MsgpackHandle{}
	err := codec.NewEncoderBytes(&out, &h).Encode(v)
	return out, err
}

func mpDec(b []byte, out any) error {
	h := codec.MsgpackHandle{}
	return codec.NewDecoderBytes(b, &h).Decode(out)
}

// ---- loose equality: nil ≅ empty for slices and maps ------------------------

func eqLoose(a, b any) bool { return eqLooseV(reflect.ValueOf(a), reflect.ValueOf(b)) }

func eqLooseV(a, b reflect.Value) bool {
	if !a.IsValid() || !b.IsValid() {
		return a.IsValid() == b.IsValid()
	}
	if a.Type() != b.Type() {
		return false
	}
	switch a.Kind() {
	case reflect.Slice:
		if a.Len() != b.Len() {
			return false
		}
		for i := 0; i < a.Len(); i++ {
			if !eqLooseV(a.Index(i), b.Index(i)) {
				return false
			}
		}
		return true
	case reflect.Array:
		for i := 0; i < a.Len(); i++ {
			if !eqLooseV(a.Index(i), b.Index(i)) {
				return false
			}
		}
		return true
	case reflect.Map:
		if a.Len() != b.Len() {
			return false
		}
		it := a.MapRange()
		for it.Next() {
			bv := b.MapIndex(it.Key())
			if !bv.IsValid() || !eqLooseV(it.Value(), bv) {
				return false
			}
		}
		return true
	case reflect.Ptr, reflect.Interface:
		if a.IsNil() || b.IsNil() {
			return a.IsNil() == b.IsNil()
		}
		return eqLooseV(a.Elem(), b.Elem())
	case reflect.Struct:
		for i := 0; i < a.NumField(); i++ {
			if !eqLooseV(a.Field(i), b.Field(i)) {
				return false
			}
		}
		return true
	default:
		return a.Interface() == b.Interface()
	}
}

// ---- generators --------------------------------------------------------------

const maxU64 = ^uint64(0)

// genU64 draws an adversarial uint64. allowMax controls whether 2^64-1 may be
// produced (never for Lamport times outside C09: Witness(2^64-1) wraps, a
// known finding of C19).
func genU64(t *rapid.T, label string, allowMax bool) uint64 {
	k := rapid.IntRange(0, 9).Draw(t, label+".k")
	var v uint64
	switch k {
	case 0:
		v = 0
	case 1:
		v = 1
	case 2:
		v = uint64(rapid.IntRange(0, 2000).Draw(t, label+".small"))
	case 3:
		v = 1 << 32
	case 4:
		v = 1<<63 - 1
	case 5:
		v = 1 << 63
	case 6:
		v = maxU64 - 1
	case 7:
		v = maxU64
	default:
		v = rapid.Uint64().Draw(t, label+".any")
	}
	if v == maxU64 && !allowMax {
		v = maxU64 - 1
	}
	return v
}

// genUTF8 draws a valid UTF-8 string of at most maxLen bytes.
func genUTF8(t *rapid.T, label string, maxLen int) string {
	k := rapid.IntRange(0, 5).Draw(t, label+".k")
	var s string
	switch k {
	case 0:
		s = ""
	case 1:
		s = rapid.StringMatching(`[a-z0-9\-\.]{1,12}`).Draw(t, label+".id")
	case 2:
		s = rapid.StringN(0, min(40, maxLen), maxLen).Draw(t, label+".u")
	case 3:
		n := rapid.IntRange(0, maxLen).Draw(t, label+".n")
		s = string(bytes.Repeat([]byte{'x'}, n))
	default:
		s = rapid.StringN(0, min(12, maxLen), maxLen).Draw(t, label+".s")
	}
	if len(s) > maxLen {
		s = s[:maxLen]
		for !utf8.ValidString(s) {
			s = s[:len(s)-1]
		}
	}
	if !utf8.ValidString(s) {
		s = "r"
	}
	return s
}

// genStrBytes draws the bytes of a string field: mostly valid UTF-8, sometimes
// arbitrary bytes.
func genStrBytes(t *rapid.T, label string, maxLen int) []byte {
	if rapid.IntRange(0, 5).Draw(t, label+".raw") == 0 {
		return rapid.SliceOfN(rapid.Byte(), 0, min(maxLen, 40)).Draw(t, label+".bytes")
	}
	return []byte(genUTF8(t, label, maxLen))
}

// genBlob draws a payload-like byte slice: nil, empty or 1..maxLen bytes.
func genBlob(t *rapid.T, label string, maxLen int) []byte {
	switch rapid.IntRange(0, 6).Draw(t, label+".k") {
	case 0:
		return nil
	case 1:
		return []byte{}
	case 2:
		n := rapid.IntRange(1, maxLen).Draw(t, label+".n")
		b := make([]byte, n)
		fill := rapid.Byte().Draw(t, label+".fill")
		for i := range b {
			b[i] = fill + byte(i)
		}
		return b
	default:
		return rapid.SliceOfN(rapid.Byte(), 1, min(maxLen, 64)).Draw(t, label+".b")
	}
}

// ---- goroutine quiescence ---------------------------------------------------

// serfWorkMarks are the entry functions of the short-lived goroutines serf
// starts in reaction to network input (internal query handlers, refutes, name
// conflict resolution).
var serfWorkMarks = [][]byte{
	[]byte("serf.(*serfQueries).handle"),
	[]byte("serf.(*Serf).broadcastJoin"),
	[]byte("serf.(*Serf).resolveNodeConflict"),
	[]byte("serf.(*Serf).handleNodeConflict"),
	// goroutines that were created but have not run yet show the compiler's
	// wrapper of the go statement and a "created by" line naming the function
	// that spawned them (these callers run synchronously under the harness, so
	// by the time we wait, any mention of them is a spawned goroutine)
	[]byte("serf.(*serfQueries).stream.gowrap"),
	[]byte("serf.(*Serf).handleNodeLeaveIntent"),
}

func serfWorkRunning() bool {
	buf := make([]byte, 1<<17)
	for {
		n := runtime.Stack(buf, true)
		if n < len(buf) {
			buf = buf[:n]
			break
		}
		buf = make([]byte, 2*len(buf))
	}
	for _, m := range serfWorkMarks {
		if bytes.Contains(buf, m) {
			return true
		}
	}
	return false
}

// waitSerfWork waits until no goroutine of the process is inside one of
// serf's input-triggered background functions.
func waitSerfWork(timeout time.Duration) bool {
	deadline := time.Now().Add(timeout)
	for i := 0; ; i++ {
		if !serfWorkRunning() {
			return true
		}
		if time.Now().After(deadline) {
			return false
		}
		if i < 20 {
			runtime.Gosched()
		} else {
			time.Sleep(200 * time.Microsecond)
		}
	}
}

func hexShort(b []byte) string {
	if len(b) > 48 {
		return fmt.Sprintf("%x…(%d bytes)", b[:48], len(b))
	}
	return fmt.Sprintf("%x", b)
}
