//go:build verif

package core3

import (
	"bytes"
	"fmt"
	"net"
	"testing"
	"time"

	"github.com/hashicorp/go-msgpack/v2/codec"
	"github.com/hashicorp/memberlist"
	"github.com/hashicorp/serf/serf"
	"pgregory.net/rapid"

	"verif/internal/node"
	"verif/internal/simnet"
	"verif/internal/vkit"
)

// C32 — tags and gossip messages survive encoding unchanged.
//
// A case is one of four kinds:
//
//	msg    one message struct with adversarial field values: serf-encode ->
//	       serf-decode, serf-encode -> harness mirror decode (wire field names
//	       written down here, independent of serf's struct definitions), and
//	       mirror-encode -> serf-decode must all give the same value (nil ≅ empty)
//	tags   a tag map encoded by a node at protocol 2..5 and decoded by a node at
//	       another protocol version
//	relay  a relay envelope injected into a node; the packet the transport sees
//	       must carry exactly the wrapped bytes to exactly the wrapped address
//	limit  a tag map whose encoded size is at/near the 512-byte metadata limit,
//	       offered through Create or SetTags; accept/reject is compared with the
//	       size computed by the msgpack library directly

type c32KV struct {
	K string `json:"k"`
	V string `json:"v"`
}

type c32UE struct {
	N []byte `json:"n"`
	P []byte `json:"p"`
}

type c32UEs struct {
	L   uint64  `json:"l"`
	Evs []c32UE `json:"evs"`
}

type c32MapE struct {
	K []byte `json:"k"`
	V uint64 `json:"v"`
}

type c32Msg struct {
	T       string    `json:"t"`
	NewTime bool      `json:"newtime"`
	L1      uint64    `json:"l1"`
	L2      uint64    `json:"l2"`
	L3      uint64    `json:"l3"`
	ID      uint32    `json:"id"`
	Flags   uint32    `json:"flags"`
	Port    uint16    `json:"port"`
	RF      uint8     `json:"rf"`
	Timeout int64     `json:"timeout"`
	B       bool      `json:"b"`
	S1      []byte    `json:"s1"`
	S2      []byte    `json:"s2"`
	S3      []byte    `json:"s3"`
	P       []byte    `json:"p"`
	Addr    []byte    `json:"addr"`
	Zone    string    `json:"zone"`
	Filters [][]byte  `json:"filters"`
	Strs    [][]byte  `json:"strs"`
	Map     []c32MapE `json:"map"`
	Events  []*c32UEs `json:"events"`
	Tags    []c32KV   `json:"tags"`
	U8      [6]int    `json:"u8"`
	Status  int       `json:"status"`
}

type c32Tags struct {
	PVEnc int     `json:"pv_enc"`
	PVDec int     `json:"pv_dec"`
	Tags  []c32KV `json:"tags"`
	// Prev: tags the same member advertised before (the decoding node learns
	// them at the member's join and the new ones through a metadata update)
	Prev []c32KV `json:"prev,omitempty"`
	// How the decoding node comes by the new set: 0 join with Prev, then a
	// metadata update; 1 first sight (join carrying the new set); 2 join with
	// Prev, the member fails, and re-joins carrying the new set; 3 as 0, with
	// the update notified twice
	How int `json:"how,omitempty"`
}

type c32Relay struct {
	L        uint64 `json:"l"`
	ID       uint32 `json:"id"`
	From     []byte `json:"from"`
	Flags    uint32 `json:"flags"`
	P        []byte `json:"p"`
	IP       []byte `json:"ip"`
	Port     uint16 `json:"port"`
	Zone     string `json:"zone"`
	DestName []byte `json:"dest_name"`
	Raw      bool   `json:"raw"` // envelope built by the harness around RawInner
	RawInner []byte `json:"raw_inner"`
	// E2E > 0: the whole journey of a relayed reply. A node that knows E2E+3
	// further members answers (payload P) a query from IP:Port/DestName that asks
	// for E2E relays; every envelope it sends is handed to a relaying node, and
	// what that node forwards must be, byte for byte, the reply the origin also
	// got directly, addressed to the origin.
	E2E int `json:"e2e,omitempty"`
}

type c32Limit struct {
	PV        int     `json:"pv"`
	Tags      []c32KV `json:"tags"`
	ViaCreate bool    `json:"via_create"`
}

type c32Case struct {
	Kind  string    `json:"kind"`
	Msg   *c32Msg   `json:"msg,omitempty"`
	Tags  *c32Tags  `json:"tags,omitempty"`
	Relay *c32Relay `json:"relay,omitempty"`
	Limit *c32Limit `json:"limit,omitempty"`
	Seq   *c32Seq   `json:"seq,omitempty"`
}

// c32Seq (kind "seq"): several user events and queries arrive at one real node
// by gossip, one after another. What the node hands to the application for
// each of them, and what it would carry to a joining node in a state sync,
// must equal what was sent - and must still do so after the later messages
// have been decoded (a decoded value that shares memory with a buffer that is
// decoded into again changes after the fact).
type c32Seq struct {
	Items []c32SeqItem `json:"items"`
}
type c32SeqItem struct {
	Query   bool   `json:"query,omitempty"`
	Name    string `json:"name"`
	Payload []byte `json:"payload"`
}

// ---- wire mirrors: what another implementation reading the wire expects ----

type wJoin struct {
	LTime uint64
	Node  string
}
type wLeave struct {
	LTime uint64
	Node  string
	Prune bool
}
type wUE struct {
	Name    string
	Payload []byte
}
type wUEs struct {
	LTime  uint64
	Events []wUE
}
type wPushPull struct {
	LTime        uint64
	StatusLTimes map[string]uint64
	LeftMembers  []string
	EventLTime   uint64
	Events       []*wUEs
	QueryLTime   uint64
}
type wUserEvent struct {
	LTime   uint64
	Name    string
	Payload []byte
	CC      bool
}
type wQuery struct {
	LTime       uint64
	ID          uint32
	Addr        []byte
	Port        uint16
	SourceNode  string
	Filters     [][]byte
	Flags       uint32
	RelayFactor uint8
	Timeout     int64
	Name        string
	Payload     []byte
}
type wResp struct {
	LTime   uint64
	ID      uint32
	From    string
	Flags   uint32
	Payload []byte
}
type wKeyReq struct{ Key []byte }
type wKeyResp struct {
	Result     bool
	Message    string
	Keys       []string
	PrimaryKey string
}
type wUDPAddr struct {
	IP   []byte
	Port int
	Zone string
}
type wRelayHeader struct {
	DestAddr wUDPAddr
	DestName string
}
type wFilterTag struct {
	Tag  string
	Expr string
}
type wMember struct {
	Name        string
	Addr        []byte
	Port        uint16
	Tags        map[string]string
	Status      int
	ProtocolMin uint8
	ProtocolMax uint8
	ProtocolCur uint8
	DelegateMin uint8
	DelegateMax uint8
	DelegateCur uint8
}

var c32MsgKinds = []string{"join", "leave", "pushpull", "event", "query", "resp", "keyreq", "keyresp", "relayhdr", "fnode", "ftag", "member"}

// ---- generator ---------------------------------------------------------------

func genC32KVs(t *rapid.T, label string, maxN, maxLen int) []c32KV {
	n := rapid.IntRange(0, maxN).Draw(t, label+".n")
	seen := map[string]bool{}
	var out []c32KV
	for i := 0; i < n; i++ {
		var k string
		switch rapid.IntRange(0, 7).Draw(t, label+".kk") {
		case 0:
			k = "role"
		case 1:
			k = fmt.Sprintf("k%d", i)
		case 2:
			k = genC32Special(t, label+".skey", maxLen)
		default:
			k = genUTF8(t, label+".key", maxLen)
		}
		if seen[k] {
			continue
		}
		seen[k] = true
		v := genUTF8(t, label+".val", maxLen)
		if rapid.IntRange(0, 4).Draw(t, label+".sv") == 0 {
			v = genC32Special(t, label+".sval", maxLen)
		}
		out = append(out, c32KV{K: k, V: v})
	}
	return out
}

// c32Specials: strings a tag codec (or anything that flattens tags to text on
// the way) could trip over: separators, the empty string, near-duplicates of
// other keys, control characters, and lengths at which the msgpack string
// header changes size (31/32, 255/256).
var c32Specials = []string{"", " ", "=", ",", ":", "/", "a=b", "a=b=c", "k=", "=v", "a,b", "a:b", "a/b", "a b", " a", "a ", "a\nb", "a\x00b", "\x00", "\t",
	"role", "Role", "ROLE", "role ", "role=", "rol", "k1", "k01", "\"", "'", "\\", "%s", "é", "\u00ff", "\ufeff", "tag-with-a-long-name.example.org/zone"}

func genC32Special(t *rapid.T, label string, maxLen int) string {
	var v string
	if rapid.IntRange(0, 3).Draw(t, label+".len") == 0 {
		n := rapid.SampledFrom([]int{31, 32, 33, 255, 256, 257}).Draw(t, label+".n")
		v = string(bytes.Repeat([]byte{'b'}, n))
	} else {
		v = rapid.SampledFrom(c32Specials).Draw(t, label+".s")
	}
	if len(v) > maxLen {
		v = v[:maxLen]
	}
	return v
}

func genC32Msg(t *rapid.T) *c32Msg {
	m := &c32Msg{T: rapid.SampledFrom(c32MsgKinds).Draw(t, "t")}
	m.NewTime = rapid.Bool().Draw(t, "newtime")
	m.L1 = genU64(t, "l1", false)
	m.L2 = genU64(t, "l2", false)
	m.L3 = genU64(t, "l3", false)
	m.ID = rapid.Uint32().Draw(t, "id")
	m.Flags = rapid.SampledFrom([]uint32{0, 1, 2, 3, 0xffffffff, 0x80000000}).Draw(t, "flags")
	m.Port = rapid.Uint16().Draw(t, "port")
	m.RF = rapid.SampledFrom([]uint8{0, 1, 5, 127, 128, 255}).Draw(t, "rf")
	m.Timeout = rapid.SampledFrom([]int64{0, 1, -1, 1e9, -1e9, 1<<63 - 1, -1 << 63, 1 << 31}).Draw(t, "timeout")
	m.B = rapid.Bool().Draw(t, "b")
	m.S1 = genStrBytes(t, "s1", 300)
	m.S2 = genStrBytes(t, "s2", 70000)
	m.S3 = genStrBytes(t, "s3", 40)
	m.P = genBlob(t, "p", 70000)
	switch rapid.IntRange(0, 4).Draw(t, "addr.k") {
	case 0:
		m.Addr = nil
	case 1:
		m.Addr = []byte{}
	case 2:
		m.Addr = rapid.SliceOfN(rapid.Byte(), 4, 4).Draw(t, "addr4")
	case 3:
		m.Addr = rapid.SliceOfN(rapid.Byte(), 16, 16).Draw(t, "addr16")
	default:
		m.Addr = rapid.SliceOfN(rapid.Byte(), 1, 20).Draw(t, "addrN")
	}
	m.Zone = rapid.SampledFrom([]string{"", "", "eth0", "é"}).Draw(t, "zone")
	switch m.T {
	case "query":
		switch rapid.IntRange(0, 3).Draw(t, "filters.k") {
		case 0:
			m.Filters = nil
		case 1:
			m.Filters = [][]byte{}
		default:
			n := rapid.IntRange(1, 5).Draw(t, "filters.n")
			for i := 0; i < n; i++ {
				m.Filters = append(m.Filters, genBlob(t, "filter", 300))
			}
		}
	case "pushpull", "keyresp", "fnode":
		switch rapid.IntRange(0, 3).Draw(t, "strs.k") {
		case 0:
			m.Strs = nil
		case 1:
			m.Strs = [][]byte{}
		default:
			n := rapid.IntRange(1, 20).Draw(t, "strs.n")
			for i := 0; i < n; i++ {
				m.Strs = append(m.Strs, genStrBytes(t, "str", 60))
			}
		}
	}
	if m.T == "pushpull" {
		switch rapid.IntRange(0, 3).Draw(t, "map.k") {
		case 0:
			m.Map = nil
		case 1:
			m.Map = []c32MapE{}
		default:
			n := rapid.IntRange(1, 20).Draw(t, "map.n")
			seen := map[string]bool{}
			for i := 0; i < n; i++ {
				k := genStrBytes(t, "mapk", 40)
				if seen[string(k)] {
					continue
				}
				seen[string(k)] = true
				m.Map = append(m.Map, c32MapE{K: k, V: genU64(t, "mapv", false)})
			}
		}
		switch rapid.IntRange(0, 3).Draw(t, "events.k") {
		case 0:
			m.Events = nil
		case 1:
			m.Events = []*c32UEs{}
		default:
			n := rapid.IntRange(1, 8).Draw(t, "events.n")
			for i := 0; i < n; i++ {
				if rapid.IntRange(0, 3).Draw(t, "ev.nil") == 0 {
					m.Events = append(m.Events, nil)
					continue
				}
				ue := &c32UEs{L: genU64(t, "ev.l", false)}
				switch rapid.IntRange(0, 3).Draw(t, "ev.k") {
				case 0:
					ue.Evs = nil
				case 1:
					ue.Evs = []c32UE{}
				default:
					k := rapid.IntRange(1, 4).Draw(t, "ev.n")
					for j := 0; j < k; j++ {
						ue.Evs = append(ue.Evs, c32UE{N: genStrBytes(t, "ev.name", 40), P: genBlob(t, "ev.p", 600)})
					}
				}
				m.Events = append(m.Events, ue)
			}
		}
	}
	if m.T == "member" {
		if rapid.IntRange(0, 3).Draw(t, "tags.nil") > 0 {
			m.Tags = genC32KVs(t, "mtags", 8, 60)
			if m.Tags == nil {
				m.Tags = []c32KV{}
			}
		}
		for i := range m.U8 {
			m.U8[i] = rapid.SampledFrom([]int{0, 1, 2, 5, 127, 128, 255}).Draw(t, "u8")
		}
		m.Status = rapid.SampledFrom([]int{0, 1, 2, 3, 4, 5, -1, 1 << 40}).Draw(t, "status")
	}
	return m
}

// c32TagsSize is the size of the metadata a node at protocol pv would
// advertise for the tag map, computed with the msgpack library directly.
func c32TagsSize(pv int, tags []c32KV) int {
	m := map[string]string{}
	for _, kv := range tags {
		m[kv.K] = kv.V
	}
	if pv < 3 {
		return len(m["role"])
	}
	b, err := mpEnc(m)
	if err != nil {
		panic(err)
	}
	return 1 + len(b)
}

func genC32Limit(t *rapid.T) *c32Limit {
	l := &c32Limit{PV: rapid.SampledFrom([]int{2, 3, 4, 5, 5}).Draw(t, "pv"), ViaCreate: rapid.Bool().Draw(t, "create")}
	l.Tags = genC32KVs(t, "ltags", 30, 24)
	// steer the encoded size to the neighbourhood of the limit by resizing one value
	var target int
	switch rapid.IntRange(0, 9).Draw(t, "target.k") {
	case 0:
		target = rapid.IntRange(0, 400).Draw(t, "target.low")
	case 1:
		target = rapid.IntRange(530, 900).Draw(t, "target.high")
	default:
		target = memberlist.MetaMaxSize + rapid.IntRange(-9, 9).Draw(t, "target.near")
	}
	padKey := "pad"
	if l.PV < 3 {
		padKey = "role"
	}
	idx := -1
	for i, kv := range l.Tags {
		if kv.K == padKey {
			idx = i
		}
	}
	if idx < 0 {
		l.Tags = append(l.Tags, c32KV{K: padKey})
		idx = len(l.Tags) - 1
	}
	l.Tags[idx].V = ""
	// grow the pad value until the size reaches the target (the raw header of
	// the value grows from 1 to 3 bytes at 32, so iterate)
	for i := 0; i < 4; i++ {
		cur := c32TagsSize(l.PV, l.Tags)
		d := target - cur
		if d == 0 {
			break
		}
		n := len(l.Tags[idx].V) + d
		if n < 0 {
			n = 0
		}
		l.Tags[idx].V = string(bytes.Repeat([]byte{'p'}, n))
	}
	return l
}

func genC32(t *rapid.T) c32Case {
	kind := rapid.SampledFrom([]string{"msg", "msg", "msg", "msg", "msg", "msg", "tags", "tags", "relay", "limit", "seq"}).Draw(t, "kind")
	c := c32Case{Kind: kind}
	switch kind {
	case "seq":
		c.Seq = &c32Seq{}
		// payload lengths mostly fall (a later payload fits into an earlier one's buffer)
		ln := rapid.IntRange(4, 64).Draw(t, "seq.len")
		for i, n := 0, rapid.IntRange(2, 6).Draw(t, "seq.n"); i < n; i++ {
			it := c32SeqItem{Query: rapid.IntRange(0, 3).Draw(t, "seq.q") == 0, Name: rapid.SampledFrom([]string{"deploy", "d", "restart", "e"}).Draw(t, "seq.name")}
			it.Payload = make([]byte, ln)
			fill := byte('A' + i)
			for k := range it.Payload {
				it.Payload[k] = fill
			}
			c.Seq.Items = append(c.Seq.Items, it)
			switch rapid.IntRange(0, 3).Draw(t, "seq.next") {
			case 0:
				ln = rapid.IntRange(0, 64).Draw(t, "seq.len2")
			case 1:
			default:
				ln = max(0, ln-rapid.IntRange(0, 8).Draw(t, "seq.shrink"))
			}
		}
	case "msg":
		c.Msg = genC32Msg(t)
	case "tags":
		c.Tags = &c32Tags{
			PVEnc: rapid.IntRange(2, 5).Draw(t, "pv_enc"),
			PVDec: rapid.IntRange(2, 5).Draw(t, "pv_dec"),
			Tags:  genC32KVs(t, "tags", rapid.SampledFrom([]int{30, 30, 8, 3}).Draw(t, "tags.max"), rapid.SampledFrom([]int{200, 40, 40, 300}).Draw(t, "tags.maxlen")),
			How:   rapid.SampledFrom([]int{0, 0, 1, 2, 3}).Draw(t, "how"),
		}
		if rapid.Bool().Draw(t, "has-prev") {
			c.Tags.Prev = genC32KVs(t, "prev", 6, 20)
			// often overlapping with the new set: same keys with other values, plus keys the new set drops
			for i, kv := range c.Tags.Tags {
				if i < 3 && rapid.Bool().Draw(t, "overlap") {
					c.Tags.Prev = append(c.Tags.Prev, c32KV{K: kv.K, V: "old"})
				}
			}
		}
	case "relay":
		r := &c32Relay{
			L:        genU64(t, "l", false),
			ID:       rapid.Uint32().Draw(t, "id"),
			From:     genStrBytes(t, "from", 60),
			Flags:    rapid.SampledFrom([]uint32{0, 1, 2, 0xffffffff}).Draw(t, "flags"),
			P:        genBlob(t, "p", 1200),
			Port:     rapid.Uint16().Draw(t, "port"),
			DestName: genStrBytes(t, "dest", 60),
		}
		switch rapid.IntRange(0, 4).Draw(t, "ipform") {
		case 0, 1:
			r.IP = rapid.SliceOfN(rapid.Byte(), 16, 16).Draw(t, "ip16")
			r.Zone = rapid.SampledFrom([]string{"", "", "", "eth0"}).Draw(t, "zone")
		case 2:
			// an IPv4 address in its 16-byte form
			r.IP = append([]byte{0, 0, 0, 0, 0, 0, 0, 0, 0, 0, 0xff, 0xff}, rapid.SliceOfN(rapid.Byte(), 4, 4).Draw(t, "ip4in16")...)
		default:
			r.IP = rapid.SliceOfN(rapid.Byte(), 4, 4).Draw(t, "ip4")
		}
		switch rapid.IntRange(0, 5).Draw(t, "raw") {
		case 0:
			r.Raw = true
			r.RawInner = rapid.SliceOfN(rapid.Byte(), 0, 200).Draw(t, "inner")
		case 1:
			r.Raw = true
			r.RawInner = genBlob(t, "inner.big", 5000)
		case 2, 3:
			r.E2E = rapid.IntRange(1, 3).Draw(t, "e2e")
			r.Zone = ""
			if len(r.P) > 700 {
				r.P = r.P[:700] // the relayed reply has to fit the default response size limit
			}
		}
		c.Relay = r
	case "limit":
		c.Limit = genC32Limit(t)
	}
	return c
}

// ---- body --------------------------------------------------------------------

type c32Spec struct {
	typ        uint8
	filter     bool // encoded through VerifEncodeFilter
	s, w       any
	sNew, wNew func() any
	containers []int
	ltimes     []uint64
}

func c32Strs(bs [][]byte) []string {
	if bs == nil {
		return nil
	}
	out := make([]string, len(bs))
	for i, b := range bs {
		out[i] = string(b)
	}
	return out
}

func c32Build(m *c32Msg) c32Spec {
	LT := func(v uint64) serf.LamportTime { return serf.LamportTime(v) }
	switch m.T {
	case "join":
		return c32Spec{typ: serf.VerifMessageJoinType,
			s: &serf.VerifMessageJoin{LTime: LT(m.L1), Node: string(m.S1)}, sNew: func() any { return &serf.VerifMessageJoin{} },
			w: &wJoin{m.L1, string(m.S1)}, wNew: func() any { return &wJoin{} }, ltimes: []uint64{m.L1}}
	case "leave":
		return c32Spec{typ: serf.VerifMessageLeaveType,
			s: &serf.VerifMessageLeave{LTime: LT(m.L1), Node: string(m.S1), Prune: m.B}, sNew: func() any { return &serf.VerifMessageLeave{} },
			w: &wLeave{m.L1, string(m.S1), m.B}, wNew: func() any { return &wLeave{} }, ltimes: []uint64{m.L1}}
	case "event":
		return c32Spec{typ: serf.VerifMessageUserEventType,
			s: &serf.VerifMessageUserEvent{LTime: LT(m.L1), Name: string(m.S1), Payload: m.P, CC: m.B}, sNew: func() any { return &serf.VerifMessageUserEvent{} },
			w: &wUserEvent{m.L1, string(m.S1), m.P, m.B}, wNew: func() any { return &wUserEvent{} },
			containers: []int{len(m.P)}, ltimes: []uint64{m.L1}}
	case "query":
		return c32Spec{typ: serf.VerifMessageQueryType,
			s: &serf.VerifMessageQuery{LTime: LT(m.L1), ID: m.ID, Addr: m.Addr, Port: m.Port, SourceNode: string(m.S3), Filters: m.Filters,
				Flags: m.Flags, RelayFactor: m.RF, Timeout: timeDuration(m.Timeout), Name: string(m.S1), Payload: m.P},
			sNew: func() any { return &serf.VerifMessageQuery{} },
			w: &wQuery{LTime: m.L1, ID: m.ID, Addr: m.Addr, Port: m.Port, SourceNode: string(m.S3), Filters: m.Filters,
				Flags: m.Flags, RelayFactor: m.RF, Timeout: m.Timeout, Name: string(m.S1), Payload: m.P},
			wNew:       func() any { return &wQuery{} },
			containers: []int{len(m.P), len(m.Addr), len(m.Filters)}, ltimes: []uint64{m.L1}}
	case "resp":
		return c32Spec{typ: serf.VerifMessageQueryResponseType,
			s: &serf.VerifMessageQueryResponse{LTime: LT(m.L1), ID: m.ID, From: string(m.S1), Flags: m.Flags, Payload: m.P}, sNew: func() any { return &serf.VerifMessageQueryResponse{} },
			w: &wResp{m.L1, m.ID, string(m.S1), m.Flags, m.P}, wNew: func() any { return &wResp{} },
			containers: []int{len(m.P)}, ltimes: []uint64{m.L1}}
	case "keyreq":
		return c32Spec{typ: serf.VerifMessageKeyRequestType,
			s: &serf.VerifKeyRequest{Key: m.P}, sNew: func() any { return &serf.VerifKeyRequest{} },
			w: &wKeyReq{m.P}, wNew: func() any { return &wKeyReq{} }, containers: []int{len(m.P)}}
	case "keyresp":
		return c32Spec{typ: serf.VerifMessageKeyResponseType,
			s: &serf.VerifNodeKeyResponse{Result: m.B, Message: string(m.S2), Keys: c32Strs(m.Strs), PrimaryKey: string(m.S1)}, sNew: func() any { return &serf.VerifNodeKeyResponse{} },
			w: &wKeyResp{m.B, string(m.S2), c32Strs(m.Strs), string(m.S1)}, wNew: func() any { return &wKeyResp{} },
			containers: []int{len(m.Strs)}}
	case "fnode":
		sv := serf.VerifFilterNode(c32Strs(m.Strs))
		wv := c32Strs(m.Strs)
		return c32Spec{typ: serf.VerifFilterNodeType, filter: true,
			s: &sv, sNew: func() any { return &serf.VerifFilterNode{} },
			w: &wv, wNew: func() any { return &[]string{} }, containers: []int{len(m.Strs)}}
	case "ftag":
		return c32Spec{typ: serf.VerifFilterTagType, filter: true,
			s: &serf.VerifFilterTag{Tag: string(m.S1), Expr: string(m.S2)}, sNew: func() any { return &serf.VerifFilterTag{} },
			w: &wFilterTag{string(m.S1), string(m.S2)}, wNew: func() any { return &wFilterTag{} }}
	case "member":
		var tags map[string]string
		if m.Tags != nil {
			tags = map[string]string{}
			for _, kv := range m.Tags {
				tags[kv.K] = kv.V
			}
		}
		u := func(i int) uint8 { return uint8(m.U8[i]) }
		return c32Spec{typ: serf.VerifMessageConflictResponseType,
			s: &serf.Member{Name: string(m.S1), Addr: net.IP(m.Addr), Port: m.Port, Tags: tags, Status: serf.MemberStatus(m.Status),
				ProtocolMin: u(0), ProtocolMax: u(1), ProtocolCur: u(2), DelegateMin: u(3), DelegateMax: u(4), DelegateCur: u(5)},
			sNew: func() any { return &serf.Member{} },
			w: &wMember{Name: string(m.S1), Addr: m.Addr, Port: m.Port, Tags: tags, Status: m.Status,
				ProtocolMin: u(0), ProtocolMax: u(1), ProtocolCur: u(2), DelegateMin: u(3), DelegateMax: u(4), DelegateCur: u(5)},
			wNew:       func() any { return &wMember{} },
			containers: []int{len(m.Addr), len(tags)}}
	case "pushpull":
		var sm map[string]serf.LamportTime
		var wm map[string]uint64
		lt := []uint64{m.L1, m.L2, m.L3}
		if m.Map != nil {
			sm, wm = map[string]serf.LamportTime{}, map[string]uint64{}
			for _, e := range m.Map {
				sm[string(e.K)] = LT(e.V)
				wm[string(e.K)] = e.V
				lt = append(lt, e.V)
			}
		}
		var se []*serf.VerifUserEvents
		var we []*wUEs
		cont := []int{len(m.Map), len(m.Strs), len(m.Events)}
		if m.Events != nil {
			se, we = []*serf.VerifUserEvents{}, []*wUEs{}
			for _, e := range m.Events {
				if e == nil {
					se = append(se, nil)
					we = append(we, nil)
					continue
				}
				s1 := &serf.VerifUserEvents{LTime: LT(e.L)}
				w1 := &wUEs{LTime: e.L}
				lt = append(lt, e.L)
				cont = append(cont, len(e.Evs))
				if e.Evs != nil {
					s1.Events, w1.Events = []serf.VerifUserEvent{}, []wUE{}
					for _, x := range e.Evs {
						s1.Events = append(s1.Events, serf.VerifUserEvent{Name: string(x.N), Payload: x.P})
						w1.Events = append(w1.Events, wUE{string(x.N), x.P})
						cont = append(cont, len(x.P))
					}
				}
				se = append(se, s1)
				we = append(we, w1)
			}
		}
		return c32Spec{typ: serf.VerifMessagePushPullType,
			s:    &serf.VerifMessagePushPull{LTime: LT(m.L1), StatusLTimes: sm, LeftMembers: c32Strs(m.Strs), EventLTime: LT(m.L2), Events: se, QueryLTime: LT(m.L3)},
			sNew: func() any { return &serf.VerifMessagePushPull{} },
			w:    &wPushPull{LTime: m.L1, StatusLTimes: wm, LeftMembers: c32Strs(m.Strs), EventLTime: m.L2, Events: we, QueryLTime: m.L3},
			wNew: func() any { return &wPushPull{} }, containers: cont, ltimes: lt}
	}
	return c32Spec{}
}

func bodyC32Msg(m *c32Msg, x *vkit.Ctx) {
	x.Label("msg:" + m.T)
	if m.T == "relayhdr" {
		bodyC32RelayHdr(m, x)
		return
	}
	sp := c32Build(m)
	if sp.s == nil {
		x.Inconclusive("unknown message kind " + m.T)
		return
	}
	var enc []byte
	var err error
	if sp.filter {
		enc, err = serf.VerifEncodeFilter(sp.typ, sp.s)
	} else {
		enc, err = serf.VerifEncodeMessage(sp.typ, sp.s, m.NewTime)
	}
	if err != nil {
		x.Violationf("encode-error:"+m.T, "encoding %s failed: %v", m.T, err)
		return
	}
	if len(enc) == 0 || enc[0] != sp.typ {
		x.Violationf("type-byte:"+m.T, "first byte of encoded %s is %v, want %d", m.T, enc[:min(1, len(enc))], sp.typ)
		return
	}
	// 1. serf -> serf
	back := sp.sNew()
	if err := serf.VerifDecodeMessage(enc[1:], back); err != nil {
		x.Violationf("decode-error:"+m.T, "serf cannot decode its own %s: %v (bytes %s)", m.T, err, hexShort(enc))
		return
	}
	if !eqLoose(sp.s, back) {
		x.Violationf("roundtrip:"+m.T, "%s changed in serf encode->decode:\n sent %+v\n got  %+v", m.T, sp.s, back)
		return
	}
	// 2. serf -> independent reader of the wire format
	wback := sp.wNew()
	if err := mpDec(enc[1:], wback); err != nil {
		x.Violationf("wire-decode-error:"+m.T, "a plain msgpack reader cannot decode serf's %s: %v", m.T, err)
		return
	}
	if !eqLoose(sp.w, wback) {
		x.Violationf("wire-fields:"+m.T, "%s on the wire does not carry the documented fields:\n want %+v\n got  %+v", m.T, sp.w, wback)
		return
	}
	// 3. independent writer -> serf
	wenc, err := mpEnc(sp.w)
	if err != nil {
		x.Inconclusive("harness encoder failed: " + err.Error())
		return
	}
	back2 := sp.sNew()
	if err := serf.VerifDecodeMessage(wenc, back2); err != nil {
		x.Violationf("foreign-decode-error:"+m.T, "serf cannot decode a %s written by a plain msgpack writer: %v", m.T, err)
		return
	}
	if !eqLoose(sp.s, back2) {
		x.Violationf("foreign-roundtrip:"+m.T, "%s written by a plain msgpack writer decodes differently:\n sent %+v\n got  %+v", m.T, sp.w, back2)
		return
	}
	nt := false
	for _, n := range sp.containers {
		if n == 0 {
			nt = true
			x.Label("has-nil-or-empty-container")
			break
		}
	}
	for _, l := range sp.ltimes {
		if l >= 1<<63 {
			nt = true
			x.Label("ltime>=2^63")
			break
		}
	}
	x.NonTrivial(nt)
}

func bodyC32RelayHdr(m *c32Msg, x *vkit.Ctx) {
	addr := net.UDPAddr{IP: net.IP(m.Addr), Port: int(m.Port), Zone: m.Zone}
	inner := &serf.VerifMessageQueryResponse{LTime: serf.LamportTime(m.L1), ID: m.ID, From: string(m.S1), Flags: m.Flags, Payload: m.P}
	env, err := serf.VerifEncodeRelayMessage(serf.VerifMessageQueryResponseType, addr, string(m.S3), inner)
	if err != nil {
		x.Violationf("encode-error:relayhdr", "encodeRelayMessage failed: %v", err)
		return
	}
	want, _ := serf.VerifEncodeMessage(serf.VerifMessageQueryResponseType, inner, false)
	if len(env) == 0 || env[0] != serf.VerifMessageRelayType {
		x.Violationf("type-byte:relayhdr", "first byte of relay envelope is %v", env[:min(1, len(env))])
		return
	}
	// read the header as the receiver does: a decoder over a reader, the
	// remainder is the wrapped message
	for _, mirror := range []bool{false, true} {
		rd := bytes.NewReader(env[1:])
		h := codec.MsgpackHandle{}
		dec := codec.NewDecoder(rd, &h)
		var gotAddr net.UDPAddr
		var gotName string
		if mirror {
			var wh wRelayHeader
			if err := dec.Decode(&wh); err != nil {
				x.Violationf("wire-decode-error:relayhdr", "relay header unreadable: %v", err)
				return
			}
			gotAddr, gotName = net.UDPAddr{IP: wh.DestAddr.IP, Port: wh.DestAddr.Port, Zone: wh.DestAddr.Zone}, wh.DestName
		} else {
			var sh serf.VerifRelayHeader
			if err := dec.Decode(&sh); err != nil {
				x.Violationf("decode-error:relayhdr", "relay header unreadable: %v", err)
				return
			}
			gotAddr, gotName = sh.DestAddr, sh.DestName
		}
		rest := make([]byte, rd.Len())
		_, _ = rd.Read(rest)
		if !bytes.Equal([]byte(gotAddr.IP), m.Addr) && !(len(gotAddr.IP) == 0 && len(m.Addr) == 0) || gotAddr.Port != int(m.Port) || gotAddr.Zone != m.Zone || gotName != string(m.S3) {
			x.Violationf("roundtrip:relayhdr", "relay header changed (mirror=%v): sent %v/%q got %v/%q", mirror, addr, string(m.S3), gotAddr, gotName)
			return
		}
		if !bytes.Equal(rest, want) {
			x.Violationf("relay-remainder", "bytes behind the relay header differ from the encoded message (mirror=%v): %s vs %s", mirror, hexShort(rest), hexShort(want))
			return
		}
	}
	x.NonTrivial(len(m.P) == 0 || len(m.Addr) == 0 || m.L1 >= 1<<63)
}

func timeDuration(v int64) time.Duration { return time.Duration(v) }

func c32Node(x *vkit.Ctx, nw *simnet.Network, name string, pv int, tags map[string]string) (*node.Node, error) {
	return node.New(nw, node.Opts{Name: name, Quiet: true, Tags: tags, Mutate: func(c *serf.Config) { c.ProtocolVersion = uint8(pv) }})
}

func c32Map(kvs []c32KV) map[string]string {
	m := map[string]string{}
	for _, kv := range kvs {
		m[kv.K] = kv.V
	}
	return m
}

func bodyC32Tags(c *c32Tags, x *vkit.Ctx) {
	x.Labelf("tags:pv%d->pv%d", c.PVEnc, c.PVDec)
	nw := simnet.New(1)
	a, err := c32Node(x, nw, "enc", c.PVEnc, nil)
	if err != nil {
		x.Inconclusive("create: " + err.Error())
		return
	}
	defer a.Stop()
	b := a
	if c.PVDec != c.PVEnc {
		b, err = c32Node(x, nw, "dec", c.PVDec, nil)
		if err != nil {
			x.Inconclusive("create: " + err.Error())
			return
		}
		defer b.Stop()
	}
	tags := c32Map(c.Tags)
	var in map[string]string = tags
	if len(c.Tags) == 0 && c.How%2 == 0 {
		in = nil // "no tags" as a nil map; odd How: as an empty one
	}
	enc := a.Serf.VerifEncodeTags(in)
	got := b.Serf.VerifDecodeTags(enc)
	var want map[string]string
	if c.PVEnc >= 3 {
		want = tags
		if len(enc) == 0 || enc[0] != serf.VerifTagMagicByte {
			x.Violationf("tags-magic", "protocol %d tag encoding does not start with the magic byte: %s", c.PVEnc, hexShort(enc))
			return
		}
		// an independent reader sees the same map behind the magic byte
		var wm map[string]string
		if err := mpDec(enc[1:], &wm); err != nil || !eqLoose(wm, tags) {
			x.Violationf("tags-wire", "protocol %d tag encoding is not magic+msgpack(map): err=%v got %v want %v", c.PVEnc, err, wm, tags)
			return
		}
	} else {
		want = map[string]string{"role": tags["role"]}
	}
	if !eqLoose(got, want) {
		x.Violationf(fmt.Sprintf("tags-roundtrip:pv%d", min(c.PVEnc, 3)), "tags encoded at protocol %d decode (at protocol %d) to %v, want %v", c.PVEnc, c.PVDec, got, want)
		return
	}
	// ... and the same at member level: the decoding node learned the member
	// with its previous tags and now receives the new set as a metadata update;
	// what it lists for the member afterwards is the new set, nothing else
	// (the metadata always fits here, larger sets are the limit cases' job)
	prevEnc := a.Serf.VerifEncodeTags(c32Map(c.Prev))
	if len(enc) <= memberlist.MetaMaxSize && len(prevEnc) <= memberlist.MetaMaxSize {
		peer := func(meta []byte) *memberlist.Node {
			return &memberlist.Node{Name: "tagged-peer", Addr: net.IPv4(10, 1, 2, 3), Port: 7946, Meta: meta, PMin: 1, PMax: 5, PCur: 2, DMin: 2, DMax: 5, DCur: uint8(c.PVEnc)}
		}
		ed := b.Serf.VerifEventDelegate()
		b.Drain(node.Settle)
		wantEvents := 0
		switch c.How % 4 {
		case 0:
			ed.NotifyJoin(peer(prevEnc))
			ed.NotifyUpdate(peer(enc))
			wantEvents = 2
		case 1:
			ed.NotifyJoin(peer(enc))
			wantEvents = 1
		case 2:
			ed.NotifyJoin(peer(prevEnc))
			ed.NotifyLeave(peer(prevEnc))
			ed.NotifyJoin(peer(enc))
			wantEvents = 3
		default:
			ed.NotifyJoin(peer(prevEnc))
			ed.NotifyUpdate(peer(enc))
			ed.NotifyUpdate(peer(enc))
			wantEvents = 3
		}
		x.Labelf("tags:member-level:how%d", c.How%4)
		var listed map[string]string
		found := false
		for _, m := range b.Serf.Members() {
			if m.Name == "tagged-peer" {
				listed, found = m.Tags, true
			}
		}
		if !found {
			x.Violationf("tags-member-missing", "member not listed after join+update")
			return
		}
		if !eqLoose(listed, want) {
			x.Violationf("tags-after-update", "a member that advertised %v and then (how=%d) %v (protocol %d) is listed with %v, want %v", c32Map(c.Prev), c.How%4, tags, c.PVEnc, listed, want)
			return
		}
		// ... and what the application is told: the last member event about the
		// peer carries the new set
		var last *serf.Member
		evs, ok := b.WaitEvents(5*time.Second, func(evs []serf.Event) bool {
			n := 0
			for _, e := range evs {
				if me, ok := e.(serf.MemberEvent); ok {
					for i := range me.Members {
						if me.Members[i].Name == "tagged-peer" {
							n++
						}
					}
				}
			}
			return n >= wantEvents
		})
		if !ok {
			x.Inconclusive("member events about the peer not delivered within 5s")
			return
		}
		for _, e := range evs {
			if me, ok := e.(serf.MemberEvent); ok {
				for i := range me.Members {
					if me.Members[i].Name == "tagged-peer" {
						last = &me.Members[i]
					}
				}
			}
		}
		if last == nil || !eqLoose(last.Tags, want) {
			x.Violationf("tags-in-member-event", "the last member event about a member that advertised %v and then (how=%d) %v (protocol %d) carries %+v, want tags %v", c32Map(c.Prev), c.How%4, tags, c.PVEnc, last, want)
			return
		}
		if len(c.Prev) > 0 {
			x.Label("tags:update-over-previous-set")
		}
	}
	_, hasRole := tags["role"]
	if hasRole {
		x.Label("tags:has-role")
	}
	if len(tags) >= 16 {
		x.Label("tags:>=16-entries")
	}
	x.NonTrivial(len(tags) >= 2 || (c.PVEnc < 3 && hasRole))
}

// bodyC32RelayE2E: responder -> envelope -> relaying node -> origin.
func bodyC32RelayE2E(r *c32Relay, x *vkit.Ctx) {
	x.Label("relay:end-to-end")
	nw := simnet.New(1)
	n, err := node.New(nw, node.Opts{Name: "responder", Quiet: true})
	if err != nil {
		x.Inconclusive("create: " + err.Error())
		return
	}
	defer n.Stop()
	rl, err := node.New(nw, node.Opts{Name: "relayer", Quiet: true})
	if err != nil {
		x.Inconclusive("create: " + err.Error())
		return
	}
	defer rl.Stop()
	for i := 0; i < r.E2E+3; i++ {
		n.EventsD.NotifyJoin(node.MLNode(fmt.Sprintf("m%d", i), fmt.Sprintf("10.7.0.%d", i+1), 7946, nil, 5, 5))
	}
	origin := net.UDPAddr{IP: net.IP(r.IP), Port: int(r.Port)}
	originName := string(r.DestName)
	q := serf.VerifMessageQuery{LTime: serf.LamportTime(r.L), ID: r.ID, Addr: r.IP, Port: r.Port, SourceNode: originName,
		RelayFactor: uint8(r.E2E), Timeout: time.Minute, Name: "c32-relay", Payload: []byte("?")}
	msg, _ := serf.VerifEncodeMessage(serf.VerifMessageQueryType, &q, false)
	n.Drain(node.Settle)
	n.Delegate.NotifyMsg(msg)
	var dq *serf.Query
	if _, ok := n.WaitEvents(5*time.Second, func(evs []serf.Event) bool {
		for _, e := range evs {
			if qq, ok := e.(*serf.Query); ok && qq.Name == "c32-relay" {
				dq = qq
			}
		}
		return dq != nil
	}); !ok {
		x.Inconclusive("query not delivered to the application")
		return
	}
	nw.Packets()
	if err := dq.Respond(r.P); err != nil {
		x.Inconclusive("Respond: " + err.Error())
		return
	}
	var direct []byte
	var envs [][]byte
	for _, p := range node.UserMsgs(nw.Packets()) {
		if p.From != "responder" || len(p.Buf) == 0 {
			continue
		}
		switch p.Buf[0] {
		case serf.VerifMessageQueryResponseType:
			if direct != nil {
				x.Violationf("relay-e2e-two-direct-replies", "two direct replies")
				return
			}
			direct = p.Buf
		case serf.VerifMessageRelayType:
			envs = append(envs, p.Buf)
		}
	}
	if direct == nil {
		x.Inconclusive("no direct reply captured")
		return
	}
	// the direct reply says what the application answered (independent reader)
	var wr wResp
	if err := mpDec(direct[1:], &wr); err != nil || wr.LTime != r.L || wr.ID != r.ID || wr.From != "responder" || !bytes.Equal(wr.Payload, r.P) && len(wr.Payload)+len(r.P) > 0 {
		x.Violationf("relay-e2e-direct-reply", "direct reply %+v (err %v) is not the answer %s to query %d/%d", wr, err, hexShort(r.P), r.L, r.ID)
		return
	}
	if len(envs) == 0 { // how many relays are chosen is C35's subject (the choice is random and may come up short)
		x.Inconclusive("no relay envelope sent")
		return
	}
	x.Labelf("relay:e2e-envelopes=%d", len(envs))
	for _, env := range envs {
		nw.Packets()
		rl.Delegate.NotifyMsg(env)
		var fw []simnet.Packet
		for _, p := range node.UserMsgs(nw.Packets()) {
			if p.From == "relayer" {
				fw = append(fw, p)
			}
		}
		if len(fw) != 1 {
			x.Violationf("relay-not-forwarded", "an envelope sent by a responder produced %d packets at the relaying node, want 1 (log: %s)", len(fw), tailStr(rl.Log.String(), 400))
			return
		}
		if fw[0].To != origin.String() || fw[0].ToName != originName {
			x.Violationf("relay-wrong-destination", "relayed to %q/%q, the origin is %q/%q", fw[0].To, fw[0].ToName, origin.String(), originName)
			return
		}
		if !bytes.Equal(fw[0].Buf, direct) {
			x.Violationf("relay-bytes", "the relayed reply differs from the direct one: got %s want %s", hexShort(fw[0].Buf), hexShort(direct))
			return
		}
	}
	if len(r.IP) == 16 {
		x.Label("relay:ip-16-bytes")
	}
	x.NonTrivial(true)
}

func bodyC32Relay(r *c32Relay, x *vkit.Ctx) {
	if r.E2E > 0 {
		bodyC32RelayE2E(r, x)
		return
	}
	nw := simnet.New(1)
	n, err := node.New(nw, node.Opts{Name: "relay", Quiet: true})
	if err != nil {
		x.Inconclusive("create: " + err.Error())
		return
	}
	defer n.Stop()
	nw.Packets()
	addr := net.UDPAddr{IP: net.IP(r.IP), Port: int(r.Port), Zone: r.Zone}
	var env, want []byte
	if r.Raw {
		x.Label("relay:raw-inner")
		hdr, err := mpEnc(wRelayHeader{DestAddr: wUDPAddr{IP: r.IP, Port: int(r.Port), Zone: r.Zone}, DestName: string(r.DestName)})
		if err != nil {
			x.Inconclusive("harness encoder failed")
			return
		}
		env = append([]byte{serf.VerifMessageRelayType}, hdr...)
		env = append(env, r.RawInner...)
		want = append([]byte{}, r.RawInner...)
	} else {
		x.Label("relay:response")
		resp := &serf.VerifMessageQueryResponse{LTime: serf.LamportTime(r.L), ID: r.ID, From: string(r.From), Flags: r.Flags, Payload: r.P}
		env, err = serf.VerifEncodeRelayMessage(serf.VerifMessageQueryResponseType, addr, string(r.DestName), resp)
		if err != nil {
			x.Violationf("encode-error:relay", "encodeRelayMessage: %v", err)
			return
		}
		want, _ = serf.VerifEncodeMessage(serf.VerifMessageQueryResponseType, resp, false)
	}
	n.Delegate.NotifyMsg(env)
	pk := node.UserMsgs(nw.Packets())
	if len(pk) != 1 {
		x.Violationf("relay-not-forwarded", "relay envelope for %s produced %d packets, want 1 (log: %s)", addr.String(), len(pk), tailStr(n.Log.String(), 400))
		return
	}
	if pk[0].To != addr.String() || pk[0].ToName != string(r.DestName) {
		x.Violationf("relay-wrong-destination", "relayed to %q/%q, want %q/%q", pk[0].To, pk[0].ToName, addr.String(), string(r.DestName))
		return
	}
	if !bytes.Equal(pk[0].Buf, want) {
		x.Violationf("relay-bytes", "relayed bytes differ from the wrapped message: got %s want %s", hexShort(pk[0].Buf), hexShort(want))
		return
	}
	if len(r.IP) == 16 {
		x.Label("relay:ip-16-bytes")
	}
	x.NonTrivial(true)
}

func tailStr(s string, n int) string {
	if len(s) > n {
		return "…" + s[len(s)-n:]
	}
	return s
}

func bodyC32Limit(l *c32Limit, x *vkit.Ctx) {
	tags := c32Map(l.Tags)
	size := c32TagsSize(l.PV, l.Tags)
	d := size - memberlist.MetaMaxSize
	switch {
	case d < -8:
		x.Label("limit:far-below")
	case d > 8:
		x.Label("limit:far-above")
	default:
		x.Labelf("limit:%+d", d)
	}
	x.Labelf("limit:pv%d", l.PV)
	nw := simnet.New(1)
	var n *node.Node
	var err error
	accepted := false
	var panicked any
	func() {
		defer func() { panicked = recover() }() // only the calling goroutine: memberlist panics on oversize NodeMeta
		if l.ViaCreate {
			x.Label("limit:create")
			n, err = c32Node(x, nw, "lim", l.PV, tags)
			accepted = err == nil
		} else {
			x.Label("limit:settags")
			n, err = c32Node(x, nw, "lim", l.PV, map[string]string{"role": "r"})
			if err != nil {
				return
			}
			err = n.Serf.SetTags(tags)
			accepted = err == nil
		}
	}()
	if n != nil {
		defer n.Stop()
	}
	if panicked != nil {
		x.Violationf("oversize-tags-panic", "tag map of encoded size %d (limit %d) made the node panic instead of being rejected: %v", size, memberlist.MetaMaxSize, panicked)
		return
	}
	if !l.ViaCreate && n == nil {
		x.Inconclusive("create: " + fmt.Sprint(err))
		return
	}
	if accepted {
		x.Label("limit:accepted")
		if size > memberlist.MetaMaxSize {
			x.Violationf("oversize-tags-accepted", "tag map whose encoding is %d bytes (> %d) was accepted", size, memberlist.MetaMaxSize)
			return
		}
		meta := n.Serf.Memberlist().LocalNode().Meta
		if len(meta) > memberlist.MetaMaxSize {
			x.Violationf("oversize-meta-advertised", "advertised metadata is %d bytes", len(meta))
			return
		}
		if len(meta) != size {
			x.Violationf("meta-size-differs", "advertised metadata is %d bytes, independent encoding of the tags is %d", len(meta), size)
			return
		}
		if l.PV >= 3 {
			var wm map[string]string
			if len(meta) < 1 || meta[0] != serf.VerifTagMagicByte || mpDec(meta[1:], &wm) != nil || !eqLoose(wm, tags) {
				x.Violationf("meta-not-tags", "advertised metadata does not decode to the accepted tags: %s", hexShort(meta))
				return
			}
		} else if string(meta) != tags["role"] {
			x.Violationf("meta-not-tags", "advertised metadata %q is not the role %q", meta, tags["role"])
			return
		}
		// ... and the node decodes its own advertisement like everybody else: what
		// it lists for itself is the accepted set (the role only before protocol 3)
		own := tags
		if l.PV < 3 {
			own = map[string]string{"role": tags["role"]}
		}
		if lm := n.Serf.LocalMember(); !eqLoose(lm.Tags, own) {
			x.Violationf("own-tags-differ", "after the tag set was accepted (protocol %d, via create=%v) the node lists itself with %v, want %v", l.PV, l.ViaCreate, lm.Tags, own)
			return
		}
	} else {
		x.Label("limit:rejected")
		if size <= memberlist.MetaMaxSize {
			x.Violationf("fitting-tags-rejected", "tag map whose encoding is %d bytes (<= %d) was rejected: %v", size, memberlist.MetaMaxSize, err)
			return
		}
		// "accepted only if it fits": a rejected set must not have taken effect
		// either. What the node would advertise next is what memberlist asks the
		// delegate for (NodeMeta panics when the tags in effect exceed the limit).
		if !l.ViaCreate && n != nil {
			var meta []byte
			var p any
			func() {
				defer func() { p = recover() }()
				meta = n.Serf.VerifDelegate().NodeMeta(memberlist.MetaMaxSize)
			}()
			if p != nil {
				x.Violationf("rejected-tags-took-effect", "SetTags rejected a %d-byte tag set, but the node now panics when memberlist asks for its metadata: %v", size, p)
				return
			}
			prev := map[string]string{"role": "r"}
			if l.PV >= 3 {
				var wm map[string]string
				if len(meta) < 1 || meta[0] != serf.VerifTagMagicByte || mpDec(meta[1:], &wm) != nil || !eqLoose(wm, prev) {
					x.Violationf("rejected-tags-took-effect", "SetTags rejected the tag set, but the node would now advertise %s instead of its previous tags", hexShort(meta))
					return
				}
			} else if string(meta) != prev["role"] {
				x.Violationf("rejected-tags-took-effect", "SetTags rejected the tag set, but the node would now advertise role %q instead of %q", meta, prev["role"])
				return
			}
		}
	}
	x.NonTrivial(d >= -8 && d <= 8)
}

func bodyC32Seq(q *c32Seq, x *vkit.Ctx) {
	if len(q.Items) == 0 {
		x.Inconclusive("malformed case")
		return
	}
	nw := simnet.New(1)
	n, err := c32Node(x, nw, "seq-node", 5, nil)
	if err != nil {
		x.Inconclusive("node setup: " + err.Error())
		return
	}
	defer n.Stop()
	n.Drain(node.Settle)
	type got struct {
		name    string
		payload []byte // the slice the application was handed, not a copy
	}
	var recv []got
	for i, it := range q.Items {
		lt := serf.LamportTime(10 + i)
		var msg []byte
		if it.Query {
			msg, _ = serf.VerifEncodeMessage(serf.VerifMessageQueryType, &serf.VerifMessageQuery{LTime: lt, ID: uint32(100 + i), Addr: []byte{10, 9, 9, 9}, Port: 7946, SourceNode: "peer", Name: it.Name, Payload: it.Payload, Timeout: time.Second}, false)
		} else {
			msg, _ = serf.VerifEncodeMessage(serf.VerifMessageUserEventType, &serf.VerifMessageUserEvent{LTime: lt, Name: it.Name, Payload: it.Payload}, false)
		}
		// memberlist re-uses its packet buffer: the delegate gets a slice it must not keep
		wire := append([]byte(nil), msg...)
		n.Delegate.NotifyMsg(wire)
		for k := range wire {
			wire[k] = 0xEE
		}
		evs, ok := n.WaitEvents(5*time.Second, func(es []serf.Event) bool {
			for _, e := range es {
				switch v := e.(type) {
				case serf.UserEvent:
					if !it.Query && v.LTime == lt {
						return true
					}
				case *serf.Query:
					if it.Query && v.LTime == lt {
						return true
					}
				}
			}
			return false
		})
		if !ok {
			x.Violationf("seq-not-delivered", "item %d (%+v) was not handed to the application", i, it)
			return
		}
		for _, e := range evs {
			switch v := e.(type) {
			case serf.UserEvent:
				if v.LTime == lt {
					recv = append(recv, got{v.Name, v.Payload})
				}
			case *serf.Query:
				if v.LTime == lt {
					recv = append(recv, got{v.Name, v.Payload})
				}
			}
		}
		if len(recv) != i+1 {
			x.Violationf("seq-delivery-count", "after item %d the application holds %d deliveries", i, len(recv))
			return
		}
		// everything handed over so far still reads as it was sent
		for j := 0; j <= i; j++ {
			if recv[j].name != q.Items[j].Name || !bytes.Equal(recv[j].payload, q.Items[j].Payload) {
				x.Violationf("delivered-value-changed", "after item %d arrived, the value handed to the application for item %d reads name %q payload %q; sent %q %q",
					i, j, recv[j].name, recv[j].payload, q.Items[j].Name, q.Items[j].Payload)
				return
			}
		}
	}
	// what a joining node would be told about the recent user events
	var pp serf.VerifMessagePushPull
	st := n.Delegate.LocalState(true)
	if len(st) < 1 || serf.VerifDecodeMessage(st[1:], &pp) != nil {
		x.Violationf("seq-local-state", "LocalState does not decode")
		return
	}
	for j, it := range q.Items {
		if it.Query {
			continue
		}
		found := false
		for _, ue := range pp.Events {
			if ue == nil || ue.LTime != serf.LamportTime(10+j) {
				continue
			}
			for _, e := range ue.Events {
				if e.Name == it.Name && bytes.Equal(e.Payload, it.Payload) {
					found = true
				}
			}
		}
		if !found {
			x.Violationf("state-sync-value-changed", "the state sync does not carry user event %d as sent (name %q payload %q); it carries %+v", j, it.Name, it.Payload, pp.Events)
			return
		}
	}
	x.Label("part:seq")
	x.Labelf("seq:items=%d", len(q.Items))
	x.NonTrivial(len(q.Items) >= 2)
}

func bodyC32(c c32Case, x *vkit.Ctx) {
	switch {
	case c.Kind == "msg" && c.Msg != nil:
		bodyC32Msg(c.Msg, x)
	case c.Kind == "tags" && c.Tags != nil:
		bodyC32Tags(c.Tags, x)
	case c.Kind == "relay" && c.Relay != nil:
		bodyC32Relay(c.Relay, x)
	case c.Kind == "limit" && c.Limit != nil:
		bodyC32Limit(c.Limit, x)
	case c.Kind == "seq" && c.Seq != nil:
		bodyC32Seq(c.Seq, x)
	default:
		x.Inconclusive("malformed case")
	}
}

func TestC32(t *testing.T) { vkit.Run(t, "C32", genC32, bodyC32) }

// FuzzDecodeEncode: whatever decodes must re-encode to something that decodes
// to the same value (decode -> encode -> decode stability).
func FuzzDecodeEncode(f *testing.F) {
	seed := func(typ uint8, v any) {
		b, err := serf.VerifEncodeMessage(typ, v, false)
		if err == nil {
			f.Add(typ, b[1:])
		}
	}
	seed(serf.VerifMessageJoinType, &serf.VerifMessageJoin{LTime: 7, Node: "n1"})
	seed(serf.VerifMessageLeaveType, &serf.VerifMessageLeave{LTime: 9, Node: "n1", Prune: true})
	seed(serf.VerifMessageUserEventType, &serf.VerifMessageUserEvent{LTime: 3, Name: "deploy", Payload: []byte("x"), CC: true})
	seed(serf.VerifMessageQueryType, &serf.VerifMessageQuery{LTime: 3, ID: 77, Addr: []byte{127, 0, 0, 1}, Port: 7946, SourceNode: "a",
		Filters: [][]byte{{0, 0x91, 0xa1, 'a'}}, Flags: 1, RelayFactor: 2, Timeout: 1e9, Name: "q", Payload: []byte("p")})
	seed(serf.VerifMessageQueryResponseType, &serf.VerifMessageQueryResponse{LTime: 3, ID: 77, From: "b", Flags: 1, Payload: []byte("r")})
	seed(serf.VerifMessagePushPullType, &serf.VerifMessagePushPull{LTime: 5, StatusLTimes: map[string]serf.LamportTime{"a": 1, "b": 2},
		LeftMembers: []string{"c"}, EventLTime: 4, Events: []*serf.VerifUserEvents{nil, {LTime: 3, Events: []serf.VerifUserEvent{{Name: "e", Payload: []byte("p")}}}}, QueryLTime: 6})
	seed(serf.VerifMessageKeyRequestType, &serf.VerifKeyRequest{Key: bytes.Repeat([]byte{1}, 16)})
	seed(serf.VerifMessageKeyResponseType, &serf.VerifNodeKeyResponse{Result: true, Message: "m", Keys: []string{"a", "b"}, PrimaryKey: "a"})
	seed(serf.VerifMessageConflictResponseType, &serf.Member{Name: "a", Addr: net.IP{1, 2, 3, 4}, Port: 1, Tags: map[string]string{"role": "x"}, Status: serf.StatusAlive})
	news := map[uint8]func() any{
		serf.VerifMessageLeaveType:            func() any { return &serf.VerifMessageLeave{} },
		serf.VerifMessageJoinType:             func() any { return &serf.VerifMessageJoin{} },
		serf.VerifMessagePushPullType:         func() any { return &serf.VerifMessagePushPull{} },
		serf.VerifMessageUserEventType:        func() any { return &serf.VerifMessageUserEvent{} },
		serf.VerifMessageQueryType:            func() any { return &serf.VerifMessageQuery{} },
		serf.VerifMessageQueryResponseType:    func() any { return &serf.VerifMessageQueryResponse{} },
		serf.VerifMessageConflictResponseType: func() any { return &serf.Member{} },
		serf.VerifMessageKeyRequestType:       func() any { return &serf.VerifKeyRequest{} },
		serf.VerifMessageKeyResponseType:      func() any { return &serf.VerifNodeKeyResponse{} },
		serf.VerifMessageRelayType:            func() any { return &serf.VerifRelayHeader{} },
	}
	f.Fuzz(func(t *testing.T, typ uint8, data []byte) {
		mk := news[typ%10]
		v1 := mk()
		if err := serf.VerifDecodeMessage(data, v1); err != nil {
			return
		}
		for _, newTime := range []bool{false, true} {
			enc, err := serf.VerifEncodeMessage(typ%10, v1, newTime)
			if err != nil {
				t.Fatalf("decoded value does not re-encode: %v (%+v)", err, v1)
			}
			if enc[0] != typ%10 {
				t.Fatalf("type byte %d, want %d", enc[0], typ%10)
			}
			v2 := mk()
			if err := serf.VerifDecodeMessage(enc[1:], v2); err != nil {
				t.Fatalf("re-encoded value does not decode: %v (%+v)", err, v1)
			}
			if !eqLoose(v1, v2) {
				t.Fatalf("decode->encode->decode changed the value:\n %+v\n %+v", v1, v2)
			}
		}
	})
}
