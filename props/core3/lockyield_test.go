//go:build verif

package core3

import (
	"runtime"
	"time"
)

// setLockHook installs a function that serf's mutexes call before every
// acquire ("lock", "rlock") and after every release ("unlock", "runlock"); it
// does something only when the package is built with the "locks" overlay (see
// yield_overlay_test.go), which sets lockHookAvailable.
var (
	setLockHook       = func(h func(op string)) {}
	lockHookAvailable = false
)

func linger(d time.Duration) {
	for t0 := time.Now(); time.Since(t0) < d; {
		runtime.Gosched()
	}
}

// lockYield makes every goroutine of the node linger after it released one of
// serf's mutexes: mode 0 not at all, mode 1 for 40us after every release, mode
// 2 for 100us after releasing a read lock. That is where a goroutine that
// checked under one critical section and acts under the next can be
// overtaken. Lingering is something any scheduler may do: it adds schedules
// and cannot make correct code fail.
func lockYield(mode int) {
	switch mode {
	case 1:
		setLockHook(func(op string) {
			if op == "unlock" || op == "runlock" {
				linger(40 * time.Microsecond)
			}
		})
	case 2:
		setLockHook(func(op string) {
			if op == "runlock" {
				linger(100 * time.Microsecond)
			}
		})
	default:
		setLockHook(nil)
	}
}
