//go:build verif

// Package agentp holds the property checks that run a real agent.Agent plus
// its IPC server (agent.AgentIPC) in-process: the Serf instance lives on the
// harness-owned simnet, the IPC listener is a real loopback TCP listener and
// the checks talk to it with a raw msgpack client so that they can send
// requests no well-behaved client would send.
package agentp

import (
	"bufio"
	"bytes"
	"errors"
	"fmt"
	"io"
	"net"
	"reflect"
	"sync"
	"sync/atomic"
	"time"

	"github.com/hashicorp/go-msgpack/v2/codec"
	"github.com/hashicorp/memberlist"
	"github.com/hashicorp/serf/cmd/serf/command/agent"
	"github.com/hashicorp/serf/serf"

	"verif/internal/node"
	"verif/internal/simnet"
)

// ---------------------------------------------------------------- recorder

// recHandler is the harness' always-on "*" event handler: it is registered
// before the agent starts and records every event the agent dispatches, in
// dispatch order.
type recHandler struct {
	mu     sync.Mutex
	events []serf.Event
	wake   chan struct{}
}

func newRecHandler() *recHandler { return &recHandler{wake: make(chan struct{}, 1)} }

func (h *recHandler) HandleEvent(e serf.Event) {
	h.mu.Lock()
	h.events = append(h.events, e)
	h.mu.Unlock()
	select {
	case h.wake <- struct{}{}:
	default:
	}
}

// snapshot returns a copy of the events seen so far.
func (h *recHandler) snapshot() []serf.Event {
	h.mu.Lock()
	defer h.mu.Unlock()
	return append([]serf.Event(nil), h.events...)
}

func (h *recHandler) count() int {
	h.mu.Lock()
	defer h.mu.Unlock()
	return len(h.events)
}

// waitFor blocks until pred holds for the recorded events or the timeout passes.
func (h *recHandler) waitFor(timeout time.Duration, pred func([]serf.Event) bool) bool {
	deadline := time.NewTimer(timeout)
	defer deadline.Stop()
	for {
		h.mu.Lock()
		ok := pred(h.events)
		h.mu.Unlock()
		if ok {
			return true
		}
		select {
		case <-h.wake:
		case <-deadline.C:
			h.mu.Lock()
			ok := pred(h.events)
			h.mu.Unlock()
			return ok
		}
	}
}

// sawUser reports whether a user event of that name was recorded.
func sawUser(evs []serf.Event, name string) bool {
	for _, e := range evs {
		if ue, ok := e.(serf.UserEvent); ok && ue.Name == name {
			return true
		}
	}
	return false
}

// sawQuery returns the recorded query event of that name.
func sawQuery(evs []serf.Event, name string) *serf.Query {
	for _, e := range evs {
		if q, ok := e.(*serf.Query); ok && q.Name == name {
			return q
		}
	}
	return nil
}

// ---------------------------------------------------------------- rig

type rigOpts struct {
	Name     string
	AuthKey  string
	TagsFile string
	Tags     map[string]string // initial tags (only without a tags file)
	Loopback bool
	// Keyring: 16-byte primary key; when set the agent's Serf runs with
	// encryption enabled, so the key commands really change the keyring
	Keyring []byte
	// MutateSerf is applied to the serf configuration last
	MutateSerf func(*serf.Config)
	// WrapListener lets a check put its own net.Listener around the loopback
	// listener handed to the IPC server (slow or gated connection writes)
	WrapListener func(net.Listener) net.Listener
}

// rig is one agent + IPC server + harness-side handles.
type rig struct {
	nw    *simnet.Network
	tr    *simnet.Transport
	conf  *serf.Config
	aconf *agent.Config
	agent *agent.Agent
	ipc   *agent.AgentIPC
	ln    net.Listener
	rec   *recHandler
	logs  *node.SafeBuffer
	syncN int
}

// serfConf builds a serf configuration on the network the way the rig needs
// it (agent.Create installs LogOutput, memberlist refuses Logger+LogOutput).
func serfConf(nw *simnet.Network, name string, tags map[string]string) (*serf.Config, *simnet.Transport) {
	conf, tr, _, _ := node.Config(nw, node.Opts{Name: name, Quiet: true, NoEventCh: true, Tags: tags,
		Mutate: func(c *serf.Config) {
			c.Logger = nil
			c.MemberlistConfig.Logger = nil
		}})
	return conf, tr
}

func newRig(o rigOpts) (*rig, error) {
	if o.Name == "" {
		o.Name = "agent0"
	}
	nw := simnet.New(1)
	nw.Loopback = o.Loopback
	conf, tr := serfConf(nw, o.Name, o.Tags)
	if o.Keyring != nil {
		kr, err := memberlist.NewKeyring(nil, o.Keyring)
		if err != nil {
			tr.Kill()
			return nil, fmt.Errorf("keyring: %w", err)
		}
		conf.MemberlistConfig.Keyring = kr
	}
	if o.MutateSerf != nil {
		o.MutateSerf(conf)
	}
	aconf := agent.DefaultConfig()
	aconf.NodeName = o.Name
	aconf.TagsFile = o.TagsFile
	logs := &node.SafeBuffer{}
	lw := agent.NewLogWriter(64)
	out := io.MultiWriter(logs, lw)
	a, err := agent.Create(aconf, conf, out)
	if err != nil {
		tr.Kill()
		return nil, fmt.Errorf("agent.Create: %w", err)
	}
	rec := newRecHandler()
	a.RegisterEventHandler(rec)
	if err := a.Start(); err != nil {
		tr.Kill()
		return nil, fmt.Errorf("agent.Start: %w", err)
	}
	ln, err := loopbackListen()
	if err != nil {
		a.Shutdown()
		tr.Kill()
		return nil, fmt.Errorf("listen: %w", err)
	}
	var sln net.Listener = ln
	if o.WrapListener != nil {
		sln = o.WrapListener(ln)
	}
	ipc := agent.NewAgentIPC(a, o.AuthKey, sln, out, lw, false)
	return &rig{nw: nw, tr: tr, conf: conf, aconf: aconf, agent: a, ipc: ipc, ln: ln, rec: rec, logs: logs}, nil
}

// close stops the agent first (its event loop stops dispatching) and only
// then the IPC server: the server closes the event streams' channels, and a
// dispatch still in flight would hit a closed channel.
func (r *rig) close() {
	r.agent.Shutdown()
	time.Sleep(300 * time.Microsecond)
	r.ipc.Shutdown()
	r.tr.Kill()
}

func (r *rig) addr() string { return r.ln.Addr().String() }

// ---------------------------------------------------------------- raw client

func newHandle() *codec.MsgpackHandle {
	h := &codec.MsgpackHandle{WriteExt: true}
	h.TimeNotBuiltin = true
	h.MapType = reflect.TypeOf(map[string]any(nil))
	h.Canonical = true
	return h
}

// wireVal is one top-level msgpack value the agent sent.
type wireVal struct {
	Raw    any
	Map    map[string]any // non-nil when the value is a map
	IsHdr  bool           // map with exactly the keys Seq and Error
	Seq    uint64
	Err    string
	SentAt int64 // number of requests this client had written when the value was read
}

func (v wireVal) String() string {
	if v.IsHdr {
		return fmt.Sprintf("header{Seq:%d Error:%q}", v.Seq, v.Err)
	}
	s := fmt.Sprintf("%v", v.Raw)
	if len(s) > 200 {
		s = s[:200] + "…"
	}
	return "body" + s
}

func asUint(v any) (uint64, bool) {
	switch x := v.(type) {
	case uint64:
		return x, true
	case int64:
		if x < 0 {
			return 0, false
		}
		return uint64(x), true
	case uint32:
		return uint64(x), true
	case int:
		if x < 0 {
			return 0, false
		}
		return uint64(x), true
	case uint8:
		return uint64(x), true
	case int8:
		return uint64(x), x >= 0
	case uint16:
		return uint64(x), true
	case int16:
		return uint64(x), x >= 0
	case int32:
		return uint64(x), x >= 0
	}
	return 0, false
}

func asString(v any) (string, bool) {
	switch x := v.(type) {
	case string:
		return x, true
	case []byte:
		return string(x), true
	case nil:
		return "", true
	}
	return "", false
}

func asBytes(v any) []byte {
	switch x := v.(type) {
	case string:
		return []byte(x)
	case []byte:
		return x
	}
	return nil
}

func classify(raw any) wireVal {
	w := wireVal{Raw: raw}
	m, ok := raw.(map[string]any)
	if !ok {
		return w
	}
	w.Map = m
	if len(m) != 2 {
		return w
	}
	s, ok1 := m["Seq"]
	e, ok2 := m["Error"]
	if !ok1 || !ok2 {
		return w
	}
	seq, ok1 := asUint(s)
	es, ok2 := asString(e)
	if !ok1 || !ok2 {
		return w
	}
	w.IsHdr, w.Seq, w.Err = true, seq, es
	return w
}

// rawClient is a msgpack client without any protocol knowledge. Values read
// from the agent are kept in an unbounded in-order queue.
type rawClient struct {
	conn    net.Conn
	qmu     sync.Mutex
	queue   []wireVal
	closed  bool          // read side ended
	readErr error         // valid once closed
	wake    chan struct{} // poked on every queue change
	sent    atomic.Int64
	wmu     sync.Mutex
	wdead   bool
}

func dialRaw(addr string) (*rawClient, error) {
	conn, err := net.DialTimeout("tcp", addr, 2*time.Second)
	if err != nil {
		return nil, err
	}
	c := &rawClient{conn: conn, wake: make(chan struct{}, 1)}
	go c.readLoop()
	return c, nil
}

func (c *rawClient) poke() {
	select {
	case c.wake <- struct{}{}:
	default:
	}
}

func (c *rawClient) readLoop() {
	dec := codec.NewDecoder(bufio.NewReader(c.conn), newHandle())
	for {
		var v any
		err := dec.Decode(&v)
		c.qmu.Lock()
		if err != nil {
			c.readErr = err
			c.closed = true
			c.qmu.Unlock()
			c.poke()
			return
		}
		w := classify(v)
		w.SentAt = c.sent.Load()
		c.queue = append(c.queue, w)
		c.qmu.Unlock()
		c.poke()
	}
}

// send writes the given values (header, optional body, ...) in one write.
func (c *rawClient) send(vals ...any) error {
	var buf bytes.Buffer
	enc := codec.NewEncoder(&buf, newHandle())
	for _, v := range vals {
		if err := enc.Encode(v); err != nil {
			return err
		}
	}
	c.wmu.Lock()
	defer c.wmu.Unlock()
	if c.wdead {
		return errors.New("write side closed")
	}
	c.sent.Add(1)
	c.conn.SetWriteDeadline(time.Now().Add(5 * time.Second))
	_, err := c.conn.Write(buf.Bytes())
	return err
}

// closeWrite half-closes the connection (the agent sees EOF on its next read).
func (c *rawClient) closeWrite() {
	c.wmu.Lock()
	defer c.wmu.Unlock()
	c.wdead = true
	if tc, ok := c.conn.(*net.TCPConn); ok {
		tc.CloseWrite()
	}
}

func (c *rawClient) close() { c.conn.Close() }

func (c *rawClient) pop() (v wireVal, ok, closed bool) {
	c.qmu.Lock()
	defer c.qmu.Unlock()
	if len(c.queue) > 0 {
		v = c.queue[0]
		c.queue = c.queue[1:]
		return v, true, false
	}
	return wireVal{}, false, c.closed
}

// next returns the next value, ok=false on timeout, closed=true when the
// agent closed the connection (or the read failed) and nothing is left.
func (c *rawClient) next(timeout time.Duration) (v wireVal, ok bool, closed bool) {
	if v, ok, closed = c.pop(); ok || closed || timeout <= 0 {
		return
	}
	t := time.NewTimer(timeout)
	defer t.Stop()
	for {
		select {
		case <-c.wake:
			if v, ok, closed = c.pop(); ok || closed {
				return
			}
		case <-t.C:
			return c.pop()
		}
	}
}

func hdr(cmd string, seq uint64) map[string]any {
	return map[string]any{"Command": cmd, "Seq": seq}
}

// isReset reports whether a read error is a connection reset (the peer closed
// with unread data; replies in flight may have been discarded by the kernel).
func isReset(err error) bool {
	if err == nil {
		return false
	}
	var oe *net.OpError
	if errors.As(err, &oe) {
		return !errors.Is(err, io.EOF)
	}
	return false
}
