//go:build verif

package agentp

import (
	"testing"
	"time"
)

func TestSmokeRig(t *testing.T) {
	t0 := time.Now()
	r, err := newRig(rigOpts{AuthKey: "k", Loopback: true})
	if err != nil {
		t.Fatal(err)
	}
	defer r.close()
	t.Logf("rig up in %v", time.Since(t0))
	c, err := dialRaw(r.addr())
	if err != nil {
		t.Fatal(err)
	}
	defer c.close()
	show := func(what string) {
		for {
			v, ok, closed := c.next(100 * time.Millisecond)
			if closed {
				t.Logf("%s: closed (%v)", what, c.readErr)
				return
			}
			if !ok {
				return
			}
			t.Logf("%s: %v", what, v)
		}
	}
	c.send(hdr("handshake", 1), map[string]any{"Version": 1})
	show("handshake")
	c.send(hdr("event", 2), map[string]any{"Name": "x", "Payload": []byte("p"), "Coalesce": false})
	show("event-preauth")
	c.send(hdr("auth", 3), map[string]any{"AuthKey": "k"})
	show("auth")
	c.send(hdr("stream", 4), map[string]any{"Type": "*"})
	show("stream")
	c.send(hdr("event", 5), map[string]any{"Name": "x", "Payload": []byte("p"), "Coalesce": false})
	show("event")
	c.send(hdr("members", 6))
	show("members")
	c.send(hdr("query", 7), map[string]any{"Name": "q", "Payload": []byte("p"), "RequestAck": true, "Timeout": int64(20 * time.Millisecond)})
	show("query")
	c.send(hdr("list-keys", 8))
	show("list-keys")
	c.send(hdr("install-key", 9), map[string]any{"Key": "AAAA"})
	show("install-key")
	c.send(hdr("tags", 10), map[string]any{"Tags": map[string]string{"a": "b"}, "DeleteTags": []string{"x"}})
	show("tags")
	c.send(hdr("stats", 11))
	show("stats")
	c.send(hdr("event", 12), 7)
	show("event-bad-body")
	t.Logf("events: %v", r.rec.snapshot())
}
