//go:build verif

package agentp

import (
	"fmt"
	"os"
	"path/filepath"
	"sync"
	"testing"
	"time"
)

// TestC30ConcurrentProbe is NOT part of the C30 check (the property quantifies
// over edit sequences). It documents what happens when two RPC clients edit
// tags at the same time: run with VERIF_PROBE=1.
func TestC30ConcurrentProbe(t *testing.T) {
	if os.Getenv("VERIF_PROBE") == "" {
		t.Skip("probe; set VERIF_PROBE=1")
	}
	lost, fileDiffers, rounds := 0, 0, 300
	for round := 0; round < rounds; round++ {
		dir, _ := os.MkdirTemp("", "c30p-")
		tagsFile := filepath.Join(dir, "tags.json")
		r, err := newRig(rigOpts{Loopback: true, TagsFile: tagsFile})
		if err != nil {
			t.Fatal(err)
		}
		var cls [2]*rawClient
		for i := range cls {
			cl, err := dialRaw(r.addr())
			if err != nil {
				t.Fatal(err)
			}
			cl.send(hdr("handshake", 1), map[string]any{"Version": 1})
			cl.next(5 * time.Second)
			cls[i] = cl
		}
		var wg sync.WaitGroup
		start := make(chan struct{})
		for i, cl := range cls {
			wg.Add(1)
			go func(i int, cl *rawClient) {
				defer wg.Done()
				<-start
				cl.send(hdr("tags", 2), map[string]any{"Tags": map[string]string{fmt.Sprintf("k%d", i): "v"}, "DeleteTags": []string{}})
				cl.next(5 * time.Second)
			}(i, cl)
		}
		close(start)
		wg.Wait()
		eff := r.agent.Serf().LocalMember().Tags
		if len(eff) != 2 {
			lost++
		}
		got, err := c30Reload(r, tagsFile)
		if err != nil {
			t.Fatal(err)
		}
		if !c30Equal(got, eff) {
			fileDiffers++
			if fileDiffers == 1 {
				t.Logf("round %d: in effect %s, next start loads %s", round, c30Show(eff), c30Show(got))
			}
		}
		for _, cl := range cls {
			cl.close()
		}
		r.close()
		os.RemoveAll(dir)
	}
	t.Logf("%d rounds of two concurrent single-key edits: lost update in %d, tags file != tags in effect in %d", rounds, lost, fileDiffers)
}
