//go:build verif

package agentp

import (
	"fmt"
	"sort"
	"strings"
	"sync"
	"testing"
	"time"

	"github.com/hashicorp/serf/serf"
	"pgregory.net/rapid"

	"verif/internal/node"
	"verif/internal/vkit"
)

// C25 — RPC replies and stream records stay correlated and well-formed.
//
// A case is one RPC session (handshaken, no auth key) of plain requests,
// event-stream subscriptions with generated filters, stops, RPC queries with
// client-chosen timeouts from 1 ns to 50 ms, and Serf-side activity injected
// through the agent's own memberlist delegates (user events, member
// joins/leaves/failures/updates, foreign queries, query acks/responses from
// fake responders timed relative to the query deadline).
//
// Oracle (everything the agent writes on the connection is parsed as a
// sequence of msgpack values):
//   - every header's Seq is the Seq of a request already written; plain
//     requests get exactly one header; a body follows a header exactly where
//     the protocol says so;
//   - event stream: its records equal, in order, the filter-matching
//     subsequence (filter semantics re-implemented from the documentation) of
//     the events the agent dispatched while the stream was registered — the
//     reference is an always-on handler registered before the agent starts;
//   - query stream: every ack/response record names a responder that really
//     sent that kind of reply for this query (never empty), at most once each,
//     with the payload it sent; exactly one done record; nothing after it.

type c25Reply struct {
	From    int    `json:"f"`
	Ack     bool   `json:"ack,omitempty"`
	AtPct   int    `json:"at"` // injection time after the request was written, in % of the timeout
	WrongID bool   `json:"wrong,omitempty"`
	Payload string `json:"p,omitempty"`
}

type c25Op struct {
	K       string     `json:"k"`
	S       string     `json:"s,omitempty"`
	N       int        `json:"n,omitempty"`
	B       bool       `json:"b,omitempty"`
	T       int64      `json:"t,omitempty"` // query timeout, ns
	Replies []c25Reply `json:"r,omitempty"`
}

type c25Case struct {
	Ops []c25Op `json:"ops"`
	// StopRace, when set, replaces the session by the "stop while events flow"
	// mode of c25_stoprace_test.go
	StopRace *c25StopRace `json:"stop_race,omitempty"`
}

var (
	c25Names   = []string{"deploy", "ping", "a"}
	c25Filters = []string{"*", "user", "user:deploy", "query", "member-join", "", "user:ping", "query:ping",
		"member-leave,member-failed", "user:deploy,query", "member-join,user:a", "member-update", "query:deploy,user:ping",
		"member-reap", "bogus", "user:deploy,bogus", "User"}
	c25Timeouts = []int64{1, 2, 3, 50, 1000, 20_000, 200_000, 1_000_000, 3_000_000, 10_000_000, 25_000_000, 50_000_000}
	c25Fakes    = []string{"n1", "n2", "n3", "n4"}
)

func genC25(t *rapid.T) c25Case {
	var c c25Case
	if rapid.IntRange(0, 7).Draw(t, "stoprace") == 0 {
		c.StopRace = &c25StopRace{
			Streams:   rapid.IntRange(1, 3).Draw(t, "sr-streams"),
			Events:    rapid.IntRange(40, 300).Draw(t, "sr-events"),
			Mode:      rapid.IntRange(0, 1).Draw(t, "sr-mode"),
			StopAfter: rapid.IntRange(1, 120).Draw(t, "sr-stopafter"),
			SlowUs:    rapid.SampledFrom([]int{1, 20, 100, 300}).Draw(t, "sr-slow"),
			Pauses:    []int{rapid.IntRange(0, 299).Draw(t, "p0"), rapid.IntRange(0, 299).Draw(t, "p1"), rapid.IntRange(0, 299).Draw(t, "p2")},
		}
		return c
	}
	n := rapid.IntRange(4, 28).Draw(t, "n")
	streams := 0
	for i := 0; i < n; i++ {
		var op c25Op
		kinds := []string{"user", "stream", "query", "event", "join", "fquery", "user", "query", "stop", "failed", "leave", "update",
			"members", "stats", "respond", "sleep", "stream", "user", "event", "join", "fquery"}
		if streams == 0 && i < 3 {
			kinds = []string{"stream", "stream", "query", "user"}
		}
		op.K = rapid.SampledFrom(kinds).Draw(t, "kind")
		switch op.K {
		case "stream":
			op.S = rapid.SampledFrom(c25Filters).Draw(t, "filter")
			streams++
		case "stop":
			op.N = rapid.IntRange(0, 5).Draw(t, "which")
		case "user":
			op.S = rapid.SampledFrom(c25Names).Draw(t, "name")
			op.N = rapid.SampledFrom([]int{0, 0, 0, 0, 1}).Draw(t, "ltmode")
			op.B = rapid.Bool().Draw(t, "cc")
		case "event":
			op.S = rapid.SampledFrom(c25Names).Draw(t, "name")
			op.B = rapid.Bool().Draw(t, "cc")
		case "join", "leave", "failed", "update":
			op.N = rapid.IntRange(0, 2).Draw(t, "node")
		case "fquery":
			op.S = rapid.SampledFrom(c25Names).Draw(t, "name")
			op.B = rapid.Bool().Draw(t, "ack")
		case "query":
			op.S = rapid.SampledFrom(c25Names).Draw(t, "name")
			op.T = rapid.SampledFrom(c25Timeouts).Draw(t, "timeout")
			op.B = rapid.Bool().Draw(t, "ack")
			for j, nr := 0, rapid.IntRange(0, 5).Draw(t, "nreplies"); j < nr; j++ {
				op.Replies = append(op.Replies, c25Reply{
					From:    rapid.IntRange(0, len(c25Fakes)-1).Draw(t, "from"),
					Ack:     rapid.Bool().Draw(t, "isack"),
					AtPct:   rapid.SampledFrom([]int{0, 10, 50, 90, 99, 100, 101, 110, 150, 300}).Draw(t, "at"),
					WrongID: rapid.IntRange(0, 7).Draw(t, "wrong") == 0,
					Payload: rapid.SampledFrom([]string{"", "ok", "r2"}).Draw(t, "payload"),
				})
			}
		case "respond":
			op.N = rapid.IntRange(0, 2).Draw(t, "payload")
		case "sleep":
			op.N = rapid.SampledFrom([]int{0, 50, 500, 2000}).Draw(t, "us")
		}
		c.Ops = append(c.Ops, op)
	}
	return c
}

// ---- filter semantics, from the documentation of `serf agent -event-handler`
// and the RPC stream command: a comma separated list; "*" (or nothing) is
// everything; "user" every user event, "user:NAME" only that name; likewise
// "query"; or one of the member event types.

var c25FilterTypes = map[string]bool{"member-join": true, "member-leave": true, "member-failed": true, "member-update": true,
	"member-reap": true, "user": true, "query": true, "*": true}

func c25FilterValid(spec string) bool {
	if spec == "" {
		return true
	}
	for _, p := range strings.Split(spec, ",") {
		if strings.HasPrefix(p, "user:") {
			p = "user"
		} else if strings.HasPrefix(p, "query:") {
			p = "query"
		}
		if !c25FilterTypes[p] {
			return false
		}
	}
	return true
}

func c25Match(spec string, e serf.Event) bool {
	if spec == "" {
		return true
	}
	for _, p := range strings.Split(spec, ",") {
		switch {
		case p == "*":
			return true
		case p == "user":
			if _, ok := e.(serf.UserEvent); ok {
				return true
			}
		case strings.HasPrefix(p, "user:"):
			if ue, ok := e.(serf.UserEvent); ok && (ue.Name == p[5:] || p[5:] == "") {
				return true
			}
		case p == "query":
			if _, ok := e.(*serf.Query); ok {
				return true
			}
		case strings.HasPrefix(p, "query:"):
			if q, ok := e.(*serf.Query); ok && (q.Name == p[6:] || p[6:] == "") {
				return true
			}
		default:
			if me, ok := e.(serf.MemberEvent); ok && me.Type.String() == p {
				return true
			}
		}
	}
	return false
}

// c25Desc renders an event the way its stream record must look.
func c25Desc(e serf.Event) string {
	switch ev := e.(type) {
	case serf.UserEvent:
		return fmt.Sprintf("user|%s|%d|%x|%v", ev.Name, ev.LTime, ev.Payload, ev.Coalesce)
	case *serf.Query:
		return fmt.Sprintf("query|%s|%d|%x", ev.Name, ev.LTime, ev.Payload)
	case serf.MemberEvent:
		var names []string
		for _, m := range ev.Members {
			names = append(names, m.Name+"/"+m.Status.String())
		}
		return fmt.Sprintf("%s|%s", ev.Type.String(), strings.Join(names, ","))
	}
	return fmt.Sprintf("?%T", e)
}

func c25RecDesc(m map[string]any) string {
	ev, _ := asString(m["Event"])
	switch ev {
	case "user":
		name, _ := asString(m["Name"])
		lt, _ := asUint(m["LTime"])
		cc, _ := m["Coalesce"].(bool)
		return fmt.Sprintf("user|%s|%d|%x|%v", name, lt, asBytes(m["Payload"]), cc)
	case "query":
		name, _ := asString(m["Name"])
		lt, _ := asUint(m["LTime"])
		return fmt.Sprintf("query|%s|%d|%x", name, lt, asBytes(m["Payload"]))
	default:
		var names []string
		if ms, ok := m["Members"].([]any); ok {
			for _, x := range ms {
				if mm, ok := x.(map[string]any); ok {
					n, _ := asString(mm["Name"])
					st, _ := asString(mm["Status"])
					names = append(names, n+"/"+st)
				}
			}
		}
		return fmt.Sprintf("%s|%s", ev, strings.Join(names, ","))
	}
}

// ---- session state

type c25Stream struct {
	seq     uint64
	filter  string
	openAt  int // number of reference events dispatched when it was registered
	closeAt int // -1 while registered
	recs    []map[string]any
}

type c25QRec struct{ typ, from, payload string }

type c25Query struct {
	seq      uint64
	op       int
	timeout  time.Duration
	mu       sync.Mutex
	acks     map[string]bool            // responders that sent an ack for this query
	resps    map[string]map[string]bool // responder -> payloads it sent
	recs     []c25QRec
	done     int
	lateRepl bool // some reply was injected at/after the deadline or the timeout is sub-microsecond
}

type c25Sess struct {
	x       *vkit.Ctx
	r       *rig
	cl      *rawClient
	mon     *vkit.Monitor
	nsent   uint64
	kind    map[uint64]string // seq -> "plain" | "body" | "stream" | "query"
	headers map[uint64]int    // headers seen per seq
	first   map[uint64]wireVal
	pending *wireVal // header waiting for its body
	streams []*c25Stream
	bySeq   map[uint64]*c25Stream
	queries map[uint64]*c25Query
	qorder  []*c25Query
	lastQID uint64
	lastQNm string // payload of the query behind lastQID
	haveQID bool
	syncN   int
	log     []string
	wg      sync.WaitGroup
}

const c25Wait = 6 * time.Second

func (s *c25Sess) trace() string {
	l := s.log
	if len(l) > 40 {
		l = l[len(l)-40:]
	}
	return strings.Join(l, " ")
}

// handle consumes one value from the wire: framing, correlation, dispatch.
func (s *c25Sess) handle(v wireVal) bool {
	s.log = append(s.log, v.String())
	if s.pending != nil {
		h := *s.pending
		s.pending = nil
		if v.IsHdr {
			s.x.Violationf("missing-body", "header Seq %d (%s) must be followed by a body, got another header %v (trace: %s)", h.Seq, s.kind[h.Seq], v, s.trace())
			return false
		}
		if v.Map == nil {
			s.x.Violationf("malformed-body", "body after header Seq %d is not a map: %v", h.Seq, v)
			return false
		}
		switch s.kind[h.Seq] {
		case "stream":
			st := s.bySeq[h.Seq]
			st.recs = append(st.recs, v.Map)
			if ev, _ := asString(v.Map["Event"]); ev == "query" {
				if id, ok := asUint(v.Map["ID"]); ok {
					s.lastQID, s.haveQID = id, true
					s.lastQNm = string(asBytes(v.Map["Payload"]))
				}
			}
		case "query":
			q := s.queries[h.Seq]
			typ, _ := asString(v.Map["Type"])
			from, _ := asString(v.Map["From"])
			pl := string(asBytes(v.Map["Payload"]))
			q.recs = append(q.recs, c25QRec{typ, from, pl})
			if q.done > 0 && typ == "done" {
				s.x.Violationf("done-twice", "query Seq %d: a second done record (trace: %s)", h.Seq, s.trace())
				return false
			}
			if q.done > 0 {
				s.x.Violationf("record-after-done", "query Seq %d: record %s/%q received after its done record (trace: %s)", h.Seq, typ, from, s.trace())
				return false
			}
			switch typ {
			case "done":
				q.done++
			case "ack", "response":
				q.mu.Lock()
				okAck := q.acks[from]
				okResp := q.resps[from][pl]
				knownResp := q.resps[from] != nil
				q.mu.Unlock()
				if from == "" && vkit.IsKnown("C25", "bogus-record-after-close") {
					// listed known finding: count it, drop the record, judge the rest
					s.x.Excluded()
					q.recs = q.recs[:len(q.recs)-1]
					return true
				}
				if from == "" {
					s.x.Violationf("bogus-record-after-close", "query Seq %d (timeout %v): %s record with empty From — no responder sent it (trace: %s)", h.Seq, q.timeout, typ, s.trace())
					return false
				}
				if typ == "ack" && !okAck || typ == "response" && !knownResp {
					s.x.Violationf("query-record-unknown-source", "query Seq %d: %s record from %q, which never sent one for this query (trace: %s)", h.Seq, typ, from, s.trace())
					return false
				}
				if typ == "response" && !okResp {
					s.x.Violationf("query-record-wrong-payload", "query Seq %d: response from %q with payload %q, which it never sent (trace: %s)", h.Seq, from, pl, s.trace())
					return false
				}
				for _, p := range q.recs[:len(q.recs)-1] {
					if p.typ == typ && p.from == from {
						s.x.Violationf("query-record-duplicate", "query Seq %d: second %s record from %q (trace: %s)", h.Seq, typ, from, s.trace())
						return false
					}
				}
			default:
				s.x.Violationf("query-record-unknown-type", "query Seq %d: record of type %q", h.Seq, typ)
				return false
			}
		}
		return true
	}
	if !v.IsHdr {
		s.x.Violationf("unexpected-body", "a body arrived where a header was expected: %v (trace: %s)", v, s.trace())
		return false
	}
	if v.Seq < 11 || v.Seq > 10+uint64(v.SentAt) || v.Seq > 10+s.nsent {
		s.x.Violationf("unknown-seq", "header carries Seq %d, but only requests 11..%d had been written (trace: %s)", v.Seq, 10+v.SentAt, s.trace())
		return false
	}
	s.headers[v.Seq]++
	nth := s.headers[v.Seq]
	if nth == 1 {
		s.first[v.Seq] = v
	}
	k := s.kind[v.Seq]
	switch {
	case k == "plain" || k == "body":
		if nth > 1 {
			s.x.Violationf("duplicate-reply", "request Seq %d (%s) got a second header %v (trace: %s)", v.Seq, k, v, s.trace())
			return false
		}
		if k == "body" && v.Err == "" {
			s.pending = &v
		}
	case k == "stream" || k == "query":
		if nth > 1 {
			if first := s.first[v.Seq]; first.Err != "" {
				s.x.Violationf("record-for-refused-request", "Seq %d (%s) was refused (%q) but later got %v", v.Seq, k, first.Err, v)
				return false
			}
			if v.Err != "" {
				s.x.Violationf("record-with-error", "Seq %d (%s): record header carries an error: %v", v.Seq, k, v)
				return false
			}
			s.pending = &v
		}
	}
	return true
}

// pump reads until cond holds. ok=false: violation recorded or inconclusive.
func (s *c25Sess) pump(cond func() bool, timeout time.Duration, what string) (ok, timedOut bool) {
	deadline := time.Now().Add(timeout)
	for {
		if s.pending == nil && cond() {
			return true, false
		}
		rem := time.Until(deadline)
		if rem <= 0 {
			return true, true
		}
		v, got, closed := s.cl.next(rem)
		if closed {
			s.x.Inconclusive("connection closed by the agent while waiting for " + what)
			return false, false
		}
		if !got {
			return true, true
		}
		if !s.handle(v) {
			return false, false
		}
	}
}

// drain consumes whatever is already queued.
func (s *c25Sess) drain() bool {
	for {
		v, got, _ := s.cl.next(0)
		if !got {
			return true
		}
		if !s.handle(v) {
			return false
		}
	}
}

// request writes one request and waits for its first header (and body).
func (s *c25Sess) request(kind, cmd string, body any) (wireVal, bool) {
	s.nsent++
	seq := 10 + s.nsent
	s.kind[seq] = kind
	s.log = append(s.log, fmt.Sprintf("> %s#%d", cmd, seq))
	vals := []any{hdr(cmd, seq)}
	if body != nil {
		vals = append(vals, body)
	}
	return s.await(seq, cmd, vals)
}

func (s *c25Sess) await(seq uint64, cmd string, vals []any) (wireVal, bool) {
	if err := s.cl.send(vals...); err != nil {
		s.x.Inconclusive("write failed: " + err.Error())
		return wireVal{}, false
	}
	s.mon.MaxGap()
	ok, to := s.pump(func() bool { return s.headers[seq] > 0 }, c25Wait, cmd+" reply")
	if !ok {
		return wireVal{}, false
	}
	if to {
		if s.pending != nil && s.mon.MaxGap() < time.Second {
			s.x.Violationf("missing-body", "header %v (%s) must be followed by a body, nothing came within %v (trace: %s)", *s.pending, s.kind[s.pending.Seq], c25Wait, s.trace())
			return wireVal{}, false
		}
		s.x.Inconclusive(fmt.Sprintf("no reply to %s within %v", cmd, c25Wait))
		return wireVal{}, false
	}
	return s.first[seq], true
}

// quiesce makes sure every event enqueued so far has been handed to every
// registered handler: it emits a uniquely named user event, waits for the
// reference handler to see it and for every registered stream whose filter
// matches it to deliver its record.
func (s *c25Sess) quiesce() bool {
	s.syncN++
	name := fmt.Sprintf("zz-sync-%d", s.syncN)
	if err := s.r.agent.UserEvent(name, nil, false); err != nil {
		s.x.Inconclusive("sync event failed: " + err.Error())
		return false
	}
	if !s.r.rec.waitFor(c25Wait, func(ev []serf.Event) bool { return sawUser(ev, name) }) {
		s.x.Inconclusive("sync event not dispatched in time")
		return false
	}
	probe := serf.UserEvent{Name: name}
	has := func(st *c25Stream) bool {
		for i := len(st.recs) - 1; i >= 0; i-- {
			if n, _ := asString(st.recs[i]["Name"]); n == name {
				return true
			}
		}
		return false
	}
	s.mon.MaxGap()
	ok, to := s.pump(func() bool {
		for _, st := range s.streams {
			if st.closeAt < 0 && c25Match(st.filter, probe) && !has(st) {
				return false
			}
		}
		return true
	}, c25Wait, "sync records")
	if !ok {
		return false
	}
	if to {
		if s.mon.MaxGap() > time.Second {
			s.x.Inconclusive("starved while waiting for sync records")
			return false
		}
		for _, st := range s.streams {
			if st.closeAt < 0 && c25Match(st.filter, probe) && !has(st) {
				s.x.Violationf("stream-missing-event", "stream Seq %d (filter %q) did not deliver user event %q within %v although the agent dispatched it (trace: %s)", st.seq, st.filter, name, c25Wait, s.trace())
				return false
			}
		}
	}
	return true
}

func (s *c25Sess) inject(t uint8, msg any) {
	buf, err := serf.VerifEncodeMessage(t, msg, false)
	if err != nil {
		panic(err)
	}
	s.r.agent.Serf().VerifDelegate().NotifyMsg(buf)
}

func bodyC25(c c25Case, x *vkit.Ctx) {
	if c.StopRace != nil {
		bodyC25StopRace(c.StopRace, x)
		return
	}
	r, err := newRig(rigOpts{Loopback: true})
	if err != nil {
		x.Inconclusive("rig: " + err.Error())
		return
	}
	defer r.close()
	cl, err := dialRaw(r.addr())
	if err != nil {
		x.Inconclusive("dial: " + err.Error())
		return
	}
	defer cl.close()
	mon := vkit.StartMonitor()
	defer mon.Stop()
	s := &c25Sess{x: x, r: r, cl: cl, mon: mon, kind: map[uint64]string{}, headers: map[uint64]int{}, first: map[uint64]wireVal{},
		bySeq: map[uint64]*c25Stream{}, queries: map[uint64]*c25Query{}}
	defer s.wg.Wait()

	if v, ok := s.request("plain", "handshake", map[string]any{"Version": 1}); !ok {
		return
	} else if v.Err != "" {
		x.Inconclusive("handshake refused: " + v.Err)
		return
	}
	sf := r.agent.Serf()
	local := r.conf.NodeName
	userLT, queryLT, memberLT := serf.LamportTime(100), serf.LamportTime(100), serf.LamportTime(100)
	var lastUser *serf.VerifMessageUserEvent
	metaN := 0

	for i, op := range c.Ops {
		switch op.K {
		case "stream":
			if !s.quiesce() {
				return
			}
			s.nsent++
			seq := 10 + s.nsent
			s.kind[seq] = "stream"
			st := &c25Stream{seq: seq, filter: op.S, closeAt: -1}
			s.bySeq[seq] = st
			s.log = append(s.log, fmt.Sprintf("> stream(%q)#%d", op.S, seq))
			v, ok := s.await(seq, "stream", []any{hdr("stream", seq), map[string]any{"Type": op.S}})
			if !ok {
				return
			}
			if v.Err != "" {
				if c25FilterValid(op.S) {
					x.Label("valid-filter-refused")
				} else {
					x.Label("invalid-filter-refused")
				}
				continue
			}
			// the registration happens after the reply was written: a second
			// round trip makes sure it is complete before anything else happens
			if _, ok := s.request("plain", "stop", map[string]any{"Stop": uint64(0)}); !ok {
				return
			}
			st.openAt = r.rec.count()
			s.streams = append(s.streams, st)
		case "stop":
			var open []*c25Stream
			for _, st := range s.streams {
				if st.closeAt < 0 {
					open = append(open, st)
				}
			}
			if len(open) == 0 {
				continue
			}
			st := open[op.N%len(open)]
			if !s.quiesce() {
				return
			}
			if _, ok := s.request("plain", "stop", map[string]any{"Stop": st.seq}); !ok {
				return
			}
			st.closeAt = r.rec.count()
			x.Label("stream-stopped")
		case "user":
			m := &serf.VerifMessageUserEvent{LTime: userLT, Name: op.S, Payload: []byte(fmt.Sprintf("u%d", i)), CC: op.B}
			if op.N == 1 && lastUser != nil {
				m = lastUser // an exact duplicate: Serf must drop it
			} else {
				userLT++
			}
			lastUser = m
			s.inject(serf.VerifMessageUserEventType, m)
		case "event":
			if _, ok := s.request("plain", "event", map[string]any{"Name": op.S, "Payload": []byte(fmt.Sprintf("e%d", i)), "Coalesce": op.B}); !ok {
				return
			}
		case "join", "update":
			metaN++
			meta := sf.VerifEncodeTags(map[string]string{"v": fmt.Sprint(metaN)})
			n := node.MLNode(c25Fakes[op.N], fmt.Sprintf("10.1.0.%d", op.N+1), 7946, meta, 5, 5)
			if op.K == "join" {
				sf.VerifEventDelegate().NotifyJoin(n)
			} else {
				sf.VerifEventDelegate().NotifyUpdate(n)
			}
		case "leave", "failed":
			if op.K == "leave" {
				memberLT++
				s.inject(serf.VerifMessageLeaveType, &serf.VerifMessageLeave{LTime: memberLT, Node: c25Fakes[op.N]})
			}
			n := node.MLNode(c25Fakes[op.N], fmt.Sprintf("10.1.0.%d", op.N+1), 7946, nil, 5, 5)
			sf.VerifEventDelegate().NotifyLeave(n)
		case "fquery":
			queryLT++
			var flags uint32
			if op.B {
				flags = serf.VerifQueryFlagAck
			}
			s.inject(serf.VerifMessageQueryType, &serf.VerifMessageQuery{LTime: queryLT, ID: uint32(7000 + i), Addr: []byte{10, 1, 0, 9}, Port: 7946,
				SourceNode: "far", Flags: flags, Timeout: 30 * time.Millisecond, Name: op.S, Payload: []byte(fmt.Sprintf("f%d", i))})
		case "members", "stats":
			if _, ok := s.request("body", op.K, nil); !ok {
				return
			}
		case "respond":
			id := uint64(424242)
			if s.haveQID {
				id = s.lastQID
			}
			pl := fmt.Sprintf("resp%d", op.N)
			// if the ID belongs to one of our own queries, the local node is a
			// genuine responder for it with this payload
			if s.haveQID {
				for _, q := range s.qorder {
					if fmt.Sprintf("rq%d", q.op) == s.lastQNm {
						q.mu.Lock()
						if q.resps[local] == nil {
							q.resps[local] = map[string]bool{}
						}
						q.resps[local][pl] = true
						q.mu.Unlock()
					}
				}
			}
			if _, ok := s.request("plain", "respond", map[string]any{"ID": id, "Payload": []byte(pl)}); !ok {
				return
			}
			x.Label("respond")
		case "sleep":
			time.Sleep(time.Duration(op.N) * time.Microsecond)
		case "query":
			s.nsent++
			seq := 10 + s.nsent
			s.kind[seq] = "query"
			timeout := time.Duration(op.T)
			q := &c25Query{seq: seq, op: i, timeout: timeout, acks: map[string]bool{}, resps: map[string]map[string]bool{}}
			if op.B {
				q.acks[local] = true // the local node acknowledges its own query
			}
			s.queries[seq] = q
			s.qorder = append(s.qorder, q)
			// pool name (so that query:NAME filters match); the payload is unique
			// to the request and identifies the query in the reference handler
			name := op.S
			payload := []byte(fmt.Sprintf("rq%d", i))
			s.log = append(s.log, fmt.Sprintf("> query(%v)#%d", timeout, seq))
			t0 := time.Now()
			v, ok := s.await(seq, "query", []any{hdr("query", seq), map[string]any{"Name": name, "Payload": payload, "RequestAck": op.B,
				"Timeout": op.T, "FilterNodes": []string{}, "FilterTags": map[string]string{}, "RelayFactor": uint8(0)}})
			if !ok {
				return
			}
			if v.Err != "" {
				x.Label("query-refused")
				continue
			}
			if timeout < time.Microsecond {
				q.lateRepl = true
			}
			x.Labelf("query-timeout<=%v", c25Bucket(timeout))
			if len(op.Replies) == 0 {
				continue
			}
			// learn (LTime, ID) of the query from the reference handler
			var qe *serf.Query
			if !r.rec.waitFor(c25Wait, func(evs []serf.Event) bool {
				for _, e := range evs {
					if qq, ok := e.(*serf.Query); ok && string(qq.Payload) == string(payload) {
						qe = qq
						return true
					}
				}
				return false
			}) {
				x.Inconclusive("own query not dispatched in time")
				return
			}
			lt, id := qe.LTime, qe.VerifID()
			replies := append([]c25Reply(nil), op.Replies...)
			sort.SliceStable(replies, func(a, b int) bool { return replies[a].AtPct < replies[b].AtPct })
			for _, rp := range replies {
				if rp.AtPct >= 100 {
					q.lateRepl = true
				}
				if rp.WrongID {
					continue
				}
				from := c25Fakes[rp.From]
				q.mu.Lock()
				if rp.Ack {
					q.acks[from] = true
				} else {
					if q.resps[from] == nil {
						q.resps[from] = map[string]bool{}
					}
					q.resps[from][rp.Payload] = true
				}
				q.mu.Unlock()
			}
			s.wg.Add(1)
			go func() {
				defer s.wg.Done()
				for _, rp := range replies {
					off := timeout * time.Duration(rp.AtPct) / 100
					if rp.AtPct > 100 { // "after the deadline" need not be long after
						off = timeout + min(off-timeout, 2*time.Millisecond)
					}
					at := t0.Add(off)
					if d := time.Until(at); d > 0 {
						time.Sleep(d)
					}
					m := &serf.VerifMessageQueryResponse{LTime: lt, ID: id, From: c25Fakes[rp.From], Payload: []byte(rp.Payload)}
					if rp.Ack {
						m.Flags = serf.VerifQueryFlagAck
						m.Payload = nil
					}
					if rp.WrongID {
						m.ID = id + 1
					}
					buf, err := serf.VerifEncodeMessage(serf.VerifMessageQueryResponseType, m, false)
					if err == nil {
						sf.VerifDelegate().NotifyMsg(buf)
					}
				}
			}()
		}
		if !s.drain() {
			return
		}
	}

	// ---- end of session
	s.wg.Wait()
	mon.MaxGap()
	started := 0
	for _, q := range s.qorder {
		if s.first[q.seq].Err == "" && s.headers[q.seq] > 0 {
			started++
		}
	}
	ok, to := s.pump(func() bool {
		for _, q := range s.qorder {
			if s.first[q.seq].Err == "" && q.done == 0 {
				return false
			}
		}
		return true
	}, c25Wait, "query completion")
	if !ok {
		return
	}
	if to {
		if mon.MaxGap() > time.Second {
			x.Inconclusive("starved while waiting for query completion")
			return
		}
		for _, q := range s.qorder {
			if s.first[q.seq].Err == "" && q.done == 0 {
				x.Violationf("query-never-done", "query Seq %d (timeout %v) got no done record within %v after its deadline (records: %v)", q.seq, q.timeout, c25Wait, q.recs)
				return
			}
		}
	}
	if !s.quiesce() {
		return
	}
	ref := r.rec.snapshot()
	expected := map[*c25Stream][]string{}
	for _, st := range s.streams {
		end := len(ref)
		if st.closeAt >= 0 {
			end = st.closeAt
		}
		for _, e := range ref[st.openAt:end] {
			if c25Match(st.filter, e) {
				expected[st] = append(expected[st], c25Desc(e))
			}
		}
	}
	mon.MaxGap()
	ok, to = s.pump(func() bool {
		for _, st := range s.streams {
			if len(st.recs) < len(expected[st]) {
				return false
			}
		}
		return true
	}, c25Wait, "stream records")
	if !ok {
		return
	}
	starved := to && mon.MaxGap() > time.Second
	// give stray records (second done, records of stopped streams, ...) a moment
	time.Sleep(3 * time.Millisecond)
	if !s.drain() {
		return
	}
	if s.pending != nil {
		if ok, _ := s.pump(func() bool { return true }, time.Second, "trailing body"); !ok {
			return
		}
	}
	for _, st := range s.streams {
		exp := expected[st]
		for j, m := range st.recs {
			got := c25RecDesc(m)
			if j >= len(exp) {
				x.Violationf("stream-extra-event", "stream Seq %d (filter %q): record #%d %q has no counterpart among the %d matching events the agent dispatched while it was registered", st.seq, st.filter, j, got, len(exp))
				return
			}
			if got != exp[j] {
				sig := "stream-wrong-event"
				matches := false
				for _, e := range exp {
					if e == got {
						matches = true
					}
				}
				if !matches {
					sig = "stream-nonmatching-event"
				}
				x.Violationf(sig, "stream Seq %d (filter %q): record #%d is %q, expected %q (expected sequence %v)", st.seq, st.filter, j, got, exp[j], exp)
				return
			}
		}
		if len(st.recs) < len(exp) {
			if starved {
				x.Inconclusive("starved while waiting for stream records")
				return
			}
			x.Violationf("stream-missing-event", "stream Seq %d (filter %q) delivered %d of %d matching events within %v; first missing %q", st.seq, st.filter, len(st.recs), len(exp), c25Wait, exp[len(st.recs)])
			return
		}
	}
	for _, q := range s.qorder {
		if q.done > 1 {
			x.Violationf("done-twice", "query Seq %d: %d done records", q.seq, q.done)
			return
		}
	}

	// ---- labels and non-triviality
	lateQuery, shared := false, false
	for _, q := range s.qorder {
		if s.first[q.seq].Err == "" && q.lateRepl {
			lateQuery = true
		}
		if len(q.recs) > 1 {
			x.Label("query-with-replies-delivered")
		}
	}
	for a := 0; a < len(s.streams) && !shared; a++ {
		for b := a + 1; b < len(s.streams) && !shared; b++ {
			sa, sb := s.streams[a], s.streams[b]
			if sa.filter == sb.filter {
				continue
			}
			seen := map[string]bool{}
			for _, e := range expected[sa] {
				if !strings.HasPrefix(e, "user|zz-sync-") {
					seen[e] = true
				}
			}
			for _, e := range expected[sb] {
				if seen[e] {
					shared = true
				}
			}
		}
	}
	if lateQuery {
		x.Label("query-deadline-vs-replies")
	}
	if shared {
		x.Label("streams-share-events")
	}
	x.Labelf("streams=%d", min(len(s.streams), 4))
	x.Labelf("queries=%d", min(started, 4))
	total := 0
	for _, st := range s.streams {
		total += len(expected[st])
	}
	x.Labelf("stream-records~%d", min(total/5*5, 30))
	x.NonTrivial(lateQuery || shared)
}

func c25Bucket(d time.Duration) time.Duration {
	for _, b := range []time.Duration{time.Microsecond, time.Millisecond, 10 * time.Millisecond} {
		if d <= b {
			return b
		}
	}
	return 50 * time.Millisecond
}

func TestC25(t *testing.T) { vkit.Run(t, "C25", genC25, bodyC25) }
