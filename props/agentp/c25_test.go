//go:build verif

package agentp

import (
	"fmt"
	"net"
	"regexp"
	"sort"
	"strconv"
	"strings"
	"sync"
	"testing"
	"time"

	"github.com/hashicorp/serf/serf"
	"pgregory.net/rapid"

	"verif/internal/node"
	"verif/internal/vkit"
)

// C25 — RPC replies and stream records stay correlated and well-formed.
//
// A case is one RPC session (handshaken, no auth key) of plain requests,
// event-stream subscriptions with generated filters, stops, RPC queries with
// client-chosen timeouts from 1 ns to 50 ms, and Serf-side activity injected
// through the agent's own memberlist delegates (user events, member
// joins/leaves/failures/updates, foreign queries, query acks/responses from
// fake responders timed relative to the query deadline).
//
// Oracle (everything the agent writes on the connection is parsed as a
// sequence of msgpack values):
//   - every header's Seq is the Seq of a request already written; plain
//     requests get exactly one header; a body follows a header exactly where
//     the protocol says so;
//   - event stream: its records equal, in order, the filter-matching
//     subsequence (filter semantics re-implemented from the documentation) of
//     the events the agent dispatched while the stream was registered — the
//     reference is an always-on handler registered before the agent starts;
//   - query stream: every ack/response record names a responder that really
//     sent that kind of reply for this query (never empty), at most once each,
//     with the payload it sent; exactly one done record; nothing after it.

type c25Reply struct {
	From    int    `json:"f"`
	Ack     bool   `json:"ack,omitempty"`
	AtPct   int    `json:"at"` // injection time after the request was written, in % of the timeout
	WrongID bool   `json:"wrong,omitempty"`
	Payload string `json:"p,omitempty"`
}

type c25Op struct {
	K       string     `json:"k"`
	S       string     `json:"s,omitempty"`
	N       int        `json:"n,omitempty"`
	B       bool       `json:"b,omitempty"`
	T       int64      `json:"t,omitempty"` // query timeout, ns
	Replies []c25Reply `json:"r,omitempty"`
	C       int        `json:"c,omitempty"` // RPC connection the request goes to (0 primary, 1 second)
}

type c25Case struct {
	Ops []c25Op `json:"ops"`
	// SeqBase: the n-th request of a connection carries Seq SeqBase+10+n (both
	// connections count from the same base, so their stream and query sequence
	// numbers collide); the bases put the numbers around 2^32, 2^63 and the
	// wrap-around of the 64-bit range
	SeqBase uint64 `json:"seqbase,omitempty"`
	// SlowWriteUs: every write of the agent on an RPC connection takes this
	// long (the listener handed to the IPC server is the harness'): replies,
	// records and completion records of concurrent streams pile up behind
	// each other
	SlowWriteUs int `json:"slow_write_us,omitempty"`
	// StopRace, when set, replaces the session by the "stop while events flow"
	// mode of c25_stoprace_test.go
	StopRace *c25StopRace `json:"stop_race,omitempty"`
}

var (
	// names: next to plain ones a proper prefix and an extension of another
	// name, the same name in another case, a name with the separator of the
	// filter syntax in it, and the empty name
	c25Names   = []string{"deploy", "ping", "a", "deploy", "dep", "deploy2", "Deploy", "deploy:x", ""}
	c25Filters = []string{"*", "user", "user:deploy", "query", "member-join", "", "user:ping", "query:ping",
		"member-leave,member-failed", "user:deploy,query", "member-join,user:a", "member-update", "query:deploy,user:ping",
		"member-reap", "bogus", "user:deploy,bogus", "User",
		"user:dep", "query:dep", "user:Deploy", "user:deploy:x", "query:deploy:x", "user:", "query:", "user:deploy2,query:Deploy",
		"user:deploy,user:deploy", "*,user", "member-reap,member-leave", "user:DEPLOY", " user"}
	c25SeqBases  = []uint64{0, 0, 0, 1<<32 - 20, 1<<63 - 20, 1<<64 - 14, 1<<64 - 30}
	c25LogLevels = []string{"debug", "info", "INFO", "warn", "err", "trace", "bogus", ""}
	c25Timeouts  = []int64{1, 2, 3, 50, 1000, 20_000, 200_000, 1_000_000, 3_000_000, 10_000_000, 25_000_000, 50_000_000}
	c25Fakes     = []string{"n1", "n2", "n3", "n4"}
)

func genC25(t *rapid.T) c25Case {
	var c c25Case
	if rapid.IntRange(0, 7).Draw(t, "stoprace") == 0 {
		c.StopRace = &c25StopRace{
			Streams:   rapid.IntRange(1, 3).Draw(t, "sr-streams"),
			Events:    rapid.IntRange(40, 300).Draw(t, "sr-events"),
			Mode:      rapid.IntRange(0, 1).Draw(t, "sr-mode"),
			StopAfter: rapid.IntRange(1, 120).Draw(t, "sr-stopafter"),
			SlowUs:    rapid.SampledFrom([]int{1, 20, 100, 300}).Draw(t, "sr-slow"),
			Pauses:    []int{rapid.IntRange(0, 299).Draw(t, "p0"), rapid.IntRange(0, 299).Draw(t, "p1"), rapid.IntRange(0, 299).Draw(t, "p2")},
		}
		return c
	}
	c.SeqBase = rapid.SampledFrom(c25SeqBases).Draw(t, "seqbase")
	c.SlowWriteUs = rapid.SampledFrom([]int{0, 0, 0, 0, 30, 200, 1000}).Draw(t, "slowwrite")
	second := rapid.IntRange(0, 2).Draw(t, "second") == 0 // the session uses a second RPC connection
	n := rapid.IntRange(4, 28).Draw(t, "n")
	streams := 0
	for i := 0; i < n; i++ {
		var op c25Op
		kinds := []string{"user", "stream", "query", "event", "join", "fquery", "user", "query", "stop", "failed", "leave", "update",
			"members", "stats", "respond", "sleep", "stream", "user", "event", "join", "fquery", "monitor", "prune", "failed"}
		if streams == 0 && i < 3 {
			kinds = []string{"stream", "stream", "query", "user"}
		}
		op.K = rapid.SampledFrom(kinds).Draw(t, "kind")
		if second {
			switch op.K {
			case "stream", "stop", "query", "event", "members", "stats", "respond", "monitor", "prune":
				op.C = rapid.SampledFrom([]int{0, 0, 1}).Draw(t, "conn")
			}
		}
		switch op.K {
		case "stream":
			op.S = rapid.SampledFrom(c25Filters).Draw(t, "filter")
			op.B = rapid.IntRange(0, 4).Draw(t, "reuseseq") == 0
			streams++
		case "stop":
			op.N = rapid.IntRange(0, 5).Draw(t, "which")
		case "monitor":
			op.S = rapid.SampledFrom(c25LogLevels).Draw(t, "level")
		case "user":
			op.S = rapid.SampledFrom(c25Names).Draw(t, "name")
			// 0 fresh event, own payload; 1 exact duplicate of the previous one
			// (Serf drops it); 2 fresh event whose payload equals that of others;
			// 3 fresh event without payload
			op.N = rapid.SampledFrom([]int{0, 0, 0, 0, 1, 2, 2, 3}).Draw(t, "ltmode")
			op.B = rapid.Bool().Draw(t, "cc")
		case "event":
			op.S = rapid.SampledFrom(c25Names).Draw(t, "name")
			op.N = rapid.SampledFrom([]int{0, 0, 2, 3}).Draw(t, "plmode")
			op.B = rapid.Bool().Draw(t, "cc")
		case "join", "leave", "failed", "update", "prune":
			op.N = rapid.IntRange(0, 2).Draw(t, "node")
			if op.K == "prune" {
				op.B = rapid.Bool().Draw(t, "prune")
				op.T = int64(rapid.IntRange(0, 1).Draw(t, "failfirst"))
			}
		case "fquery":
			op.S = rapid.SampledFrom(c25Names).Draw(t, "name")
			op.B = rapid.Bool().Draw(t, "ack")
		case "query":
			op.S = rapid.SampledFrom(c25Names).Draw(t, "name")
			op.T = rapid.SampledFrom(c25Timeouts).Draw(t, "timeout")
			op.B = rapid.Bool().Draw(t, "ack")
			for j, nr := 0, rapid.IntRange(0, 5).Draw(t, "nreplies"); j < nr; j++ {
				op.Replies = append(op.Replies, c25Reply{
					From:    rapid.IntRange(0, len(c25Fakes)-1).Draw(t, "from"),
					Ack:     rapid.Bool().Draw(t, "isack"),
					AtPct:   rapid.SampledFrom([]int{0, 10, 50, 90, 99, 100, 101, 110, 150, 300}).Draw(t, "at"),
					WrongID: rapid.IntRange(0, 7).Draw(t, "wrong") == 0,
					Payload: rapid.SampledFrom([]string{"", "ok", "r2"}).Draw(t, "payload"),
				})
			}
		case "respond":
			op.N = rapid.IntRange(0, 2).Draw(t, "payload")
		case "sleep":
			op.N = rapid.SampledFrom([]int{0, 50, 500, 2000}).Draw(t, "us")
		}
		c.Ops = append(c.Ops, op)
	}
	return c
}

// ---- filter semantics, from the documentation of `serf agent -event-handler`
// and the RPC stream command: a comma separated list; "*" (or nothing) is
// everything; "user" every user event, "user:NAME" only that name; likewise
// "query"; or one of the member event types.

var c25FilterTypes = map[string]bool{"member-join": true, "member-leave": true, "member-failed": true, "member-update": true,
	"member-reap": true, "user": true, "query": true, "*": true}

func c25FilterValid(spec string) bool {
	if spec == "" {
		return true
	}
	for _, p := range strings.Split(spec, ",") {
		if strings.HasPrefix(p, "user:") {
			p = "user"
		} else if strings.HasPrefix(p, "query:") {
			p = "query"
		}
		if !c25FilterTypes[p] {
			return false
		}
	}
	return true
}

func c25Match(spec string, e serf.Event) bool {
	if spec == "" {
		return true
	}
	for _, p := range strings.Split(spec, ",") {
		switch {
		case p == "*":
			return true
		case p == "user":
			if _, ok := e.(serf.UserEvent); ok {
				return true
			}
		case strings.HasPrefix(p, "user:"):
			if ue, ok := e.(serf.UserEvent); ok && (ue.Name == p[5:] || p[5:] == "") {
				return true
			}
		case p == "query":
			if _, ok := e.(*serf.Query); ok {
				return true
			}
		case strings.HasPrefix(p, "query:"):
			if q, ok := e.(*serf.Query); ok && (q.Name == p[6:] || p[6:] == "") {
				return true
			}
		default:
			if me, ok := e.(serf.MemberEvent); ok && me.Type.String() == p {
				return true
			}
		}
	}
	return false
}

// c25MemberDesc renders everything a member entry of a stream record says.
func c25MemberDesc(name, status string, addr net.IP, port uint64, tags map[string]string, vs [6]uint64) string {
	keys := make([]string, 0, len(tags))
	for k := range tags {
		keys = append(keys, k)
	}
	sort.Strings(keys)
	var kv []string
	for _, k := range keys {
		kv = append(kv, fmt.Sprintf("%q=%q", k, tags[k]))
	}
	return fmt.Sprintf("%s/%s@%s:%d{%s}%v", name, status, addr.String(), port, strings.Join(kv, " "), vs)
}

// c25Desc renders an event the way its stream record must look.
func c25Desc(e serf.Event) string {
	switch ev := e.(type) {
	case serf.UserEvent:
		return fmt.Sprintf("user|%s|%d|%x|%v", ev.Name, ev.LTime, ev.Payload, ev.Coalesce)
	case *serf.Query:
		return fmt.Sprintf("query|%s|%d|%x", ev.Name, ev.LTime, ev.Payload)
	case serf.MemberEvent:
		var names []string
		for _, m := range ev.Members {
			names = append(names, c25MemberDesc(m.Name, m.Status.String(), m.Addr, uint64(m.Port), m.Tags,
				[6]uint64{uint64(m.ProtocolMin), uint64(m.ProtocolMax), uint64(m.ProtocolCur), uint64(m.DelegateMin), uint64(m.DelegateMax), uint64(m.DelegateCur)}))
		}
		return fmt.Sprintf("%s|%s", ev.Type.String(), strings.Join(names, ","))
	}
	return fmt.Sprintf("?%T", e)
}

func c25RecDesc(m map[string]any) string {
	ev, _ := asString(m["Event"])
	switch ev {
	case "user":
		name, _ := asString(m["Name"])
		lt, _ := asUint(m["LTime"])
		cc, _ := m["Coalesce"].(bool)
		return fmt.Sprintf("user|%s|%d|%x|%v", name, lt, asBytes(m["Payload"]), cc)
	case "query":
		name, _ := asString(m["Name"])
		lt, _ := asUint(m["LTime"])
		return fmt.Sprintf("query|%s|%d|%x", name, lt, asBytes(m["Payload"]))
	default:
		var names []string
		if ms, ok := m["Members"].([]any); ok {
			for _, x := range ms {
				if mm, ok := x.(map[string]any); ok {
					n, _ := asString(mm["Name"])
					st, _ := asString(mm["Status"])
					port, _ := asUint(mm["Port"])
					tags := map[string]string{}
					if tm, ok := mm["Tags"].(map[string]any); ok {
						for k, v := range tm {
							tags[k], _ = asString(v)
						}
					}
					var vs [6]uint64
					for i, k := range []string{"ProtocolMin", "ProtocolMax", "ProtocolCur", "DelegateMin", "DelegateMax", "DelegateCur"} {
						vs[i], _ = asUint(mm[k])
					}
					names = append(names, c25MemberDesc(n, st, net.IP(asBytes(mm["Addr"])), port, tags, vs))
				}
			}
		}
		return fmt.Sprintf("%s|%s", ev, strings.Join(names, ","))
	}
}

// ---- session state

type c25Stream struct {
	seq     uint64
	filter  string
	openAt  int // number of reference events dispatched when it was registered
	closeAt int // -1 while registered
	recs    []map[string]any
}

// c25Monitor is one log stream (RPC monitor).
type c25Monitor struct {
	seq      uint64
	level    string
	rank     int // rank of the requested level, -1 unknown
	openSync int // number of the last sync event emitted before the registration was complete
	stopSync int // number of the last sync event emitted before the stop was acknowledged; -1 while registered
	lines    int
	syncSeen []int // sync events whose "Received event" line the stream carried, in order of arrival
}

type c25QRec struct{ typ, from, payload string }

type c25Query struct {
	seq      uint64
	op       int
	timeout  time.Duration
	mu       sync.Mutex
	acks     map[string]bool            // responders that sent an ack for this query
	resps    map[string]map[string]bool // responder -> payloads it sent
	recs     []c25QRec
	done     int
	lateRepl bool // some reply was injected at/after the deadline or the timeout is sub-microsecond
}

// c25Shared is what the connections of one session have in common.
type c25Shared struct {
	x     *vkit.Ctx
	r     *rig
	mon   *vkit.Monitor
	syncN int
	wg    sync.WaitGroup
	all   []*c25Sess
}

// c25Sess is the harness' view of one RPC connection.
type c25Sess struct {
	*c25Shared
	tag      string // "A" (primary) or "B"
	base     uint64 // request n carries Seq base+10+n
	cl       *rawClient
	nsent    uint64
	kind     map[uint64]string // seq -> "plain" | "body" | "stream" | "query" | "monitor"
	headers  map[uint64]int    // headers seen per seq
	first    map[uint64]wireVal
	pending  *wireVal // header waiting for its body
	streams  []*c25Stream
	bySeq    map[uint64]*c25Stream
	monitors map[uint64]*c25Monitor
	monOrder []*c25Monitor
	queries  map[uint64]*c25Query
	qorder   []*c25Query
	lastQID  uint64
	lastQNm  string // payload of the query behind lastQID
	haveQID  bool
	log      []string
}

const c25Wait = 6 * time.Second

var (
	c25LevelRank = map[string]int{"TRACE": 0, "DEBUG": 1, "INFO": 2, "WARN": 3, "ERR": 4}
	c25SyncLine  = regexp.MustCompile(`Received event: user-event: zz-sync-(\d+)$`)
)

// c25LineLevel is the level of a log line as the documented filter reads it:
// the first bracketed token; -1 when that is not a level.
func c25LineLevel(line string) int {
	x := strings.IndexByte(line, '[')
	if x < 0 {
		return -1
	}
	y := strings.IndexByte(line[x:], ']')
	if y < 0 {
		return -1
	}
	if r, ok := c25LevelRank[line[x+1:x+y]]; ok {
		return r
	}
	return -1
}

func (s *c25Sess) trace() string {
	l := s.log
	if len(l) > 40 {
		l = l[len(l)-40:]
	}
	return "connection " + s.tag + ": " + strings.Join(l, " ")
}

func (s *c25Sess) seqOf(n uint64) uint64 { return s.base + 10 + n }

// handle consumes one value from the wire: framing, correlation, dispatch.
func (s *c25Sess) handle(v wireVal) bool {
	s.log = append(s.log, v.String())
	if s.pending != nil {
		h := *s.pending
		s.pending = nil
		if v.IsHdr {
			s.x.Violationf("missing-body", "header Seq %d (%s) must be followed by a body, got another header %v (trace: %s)", h.Seq, s.kind[h.Seq], v, s.trace())
			return false
		}
		if v.Map == nil {
			s.x.Violationf("malformed-body", "body after header Seq %d is not a map: %v", h.Seq, v)
			return false
		}
		switch s.kind[h.Seq] {
		case "stream":
			st := s.bySeq[h.Seq]
			st.recs = append(st.recs, v.Map)
			if ev, _ := asString(v.Map["Event"]); ev == "query" {
				if id, ok := asUint(v.Map["ID"]); ok {
					s.lastQID, s.haveQID = id, true
					s.lastQNm = string(asBytes(v.Map["Payload"]))
				}
			}
		case "monitor":
			mo := s.monitors[h.Seq]
			lv, has := v.Map["Log"]
			line, isStr := asString(lv)
			if !has || lv == nil || !isStr || len(v.Map) != 1 {
				s.x.Violationf("malformed-log-record", "monitor Seq %d: record is not {Log: string}: %v", h.Seq, v)
				return false
			}
			mo.lines++
			if lr := c25LineLevel(line); lr >= 0 && mo.rank >= 0 && lr < mo.rank {
				s.x.Violationf("monitor-below-level", "monitor Seq %d asked for level %s and got the line %q", h.Seq, mo.level, line)
				return false
			}
			if m := c25SyncLine.FindStringSubmatch(line); m != nil {
				k, _ := strconv.Atoi(m[1])
				if mo.stopSync >= 0 && k > mo.stopSync {
					s.x.Violationf("monitor-record-after-stop", "monitor Seq %d was stopped (stop acknowledged) before sync event %d was emitted, yet it carried the line %q (trace: %s)", h.Seq, k, line, s.trace())
					return false
				}
				if n := len(mo.syncSeen); n > 0 && mo.syncSeen[n-1] >= k {
					s.x.Violationf("monitor-lines-out-of-order", "monitor Seq %d: line of sync event %d after that of sync event %d", h.Seq, k, mo.syncSeen[n-1])
					return false
				}
				mo.syncSeen = append(mo.syncSeen, k)
			}
		case "query":
			q := s.queries[h.Seq]
			typ, _ := asString(v.Map["Type"])
			from, _ := asString(v.Map["From"])
			pl := string(asBytes(v.Map["Payload"]))
			q.recs = append(q.recs, c25QRec{typ, from, pl})
			if q.done > 0 && typ == "done" {
				s.x.Violationf("done-twice", "query Seq %d: a second done record (trace: %s)", h.Seq, s.trace())
				return false
			}
			if q.done > 0 {
				s.x.Violationf("record-after-done", "query Seq %d: record %s/%q received after its done record (trace: %s)", h.Seq, typ, from, s.trace())
				return false
			}
			switch typ {
			case "done":
				q.done++
			case "ack", "response":
				q.mu.Lock()
				okAck := q.acks[from]
				okResp := q.resps[from][pl]
				knownResp := q.resps[from] != nil
				q.mu.Unlock()
				if from == "" && vkit.IsKnown("C25", "bogus-record-after-close") {
					// listed known finding: count it, drop the record, judge the rest
					s.x.Excluded()
					q.recs = q.recs[:len(q.recs)-1]
					return true
				}
				if from == "" {
					s.x.Violationf("bogus-record-after-close", "query Seq %d (timeout %v): %s record with empty From — no responder sent it (trace: %s)", h.Seq, q.timeout, typ, s.trace())
					return false
				}
				if typ == "ack" && !okAck || typ == "response" && !knownResp {
					s.x.Violationf("query-record-unknown-source", "query Seq %d: %s record from %q, which never sent one for this query (trace: %s)", h.Seq, typ, from, s.trace())
					return false
				}
				if typ == "response" && !okResp {
					s.x.Violationf("query-record-wrong-payload", "query Seq %d: response from %q with payload %q, which it never sent (trace: %s)", h.Seq, from, pl, s.trace())
					return false
				}
				for _, p := range q.recs[:len(q.recs)-1] {
					if p.typ == typ && p.from == from {
						s.x.Violationf("query-record-duplicate", "query Seq %d: second %s record from %q (trace: %s)", h.Seq, typ, from, s.trace())
						return false
					}
				}
			default:
				s.x.Violationf("query-record-unknown-type", "query Seq %d: record of type %q", h.Seq, typ)
				return false
			}
		}
		return true
	}
	if !v.IsHdr {
		s.x.Violationf("unexpected-body", "a body arrived where a header was expected: %v (trace: %s)", v, s.trace())
		return false
	}
	// requests 1..n of this connection carry base+11 .. base+10+n (the sum may
	// wrap around; the difference does not)
	if d := v.Seq - s.base - 10; d < 1 || d > uint64(v.SentAt) || d > s.nsent {
		s.x.Violationf("unknown-seq", "header carries Seq %d, but only requests with Seq %d..%d had been written on this connection (trace: %s)", v.Seq, s.seqOf(1), s.seqOf(uint64(v.SentAt)), s.trace())
		return false
	}
	s.headers[v.Seq]++
	nth := s.headers[v.Seq]
	if nth == 1 {
		s.first[v.Seq] = v
	}
	k := s.kind[v.Seq]
	switch {
	case k == "plain" || k == "body":
		if nth > 1 {
			s.x.Violationf("duplicate-reply", "request Seq %d (%s) got a second header %v (trace: %s)", v.Seq, k, v, s.trace())
			return false
		}
		if k == "body" && v.Err == "" {
			s.pending = &v
		}
	case k == "stream" || k == "query" || k == "monitor":
		if nth > 1 {
			if first := s.first[v.Seq]; first.Err != "" {
				s.x.Violationf("record-for-refused-request", "Seq %d (%s) was refused (%q) but later got %v", v.Seq, k, first.Err, v)
				return false
			}
			if v.Err != "" {
				s.x.Violationf("record-with-error", "Seq %d (%s): record header carries an error: %v", v.Seq, k, v)
				return false
			}
			s.pending = &v
		}
	}
	return true
}

// pump reads until cond holds. ok=false: violation recorded or inconclusive.
func (s *c25Sess) pump(cond func() bool, timeout time.Duration, what string) (ok, timedOut bool) {
	deadline := time.Now().Add(timeout)
	for {
		if s.pending == nil && cond() {
			return true, false
		}
		rem := time.Until(deadline)
		if rem <= 0 {
			return true, true
		}
		v, got, closed := s.cl.next(rem)
		if closed {
			s.x.Inconclusive("connection closed by the agent while waiting for " + what)
			return false, false
		}
		if !got {
			return true, true
		}
		if !s.handle(v) {
			return false, false
		}
	}
}

// drain consumes whatever is already queued.
func (s *c25Sess) drain() bool {
	for {
		v, got, _ := s.cl.next(0)
		if !got {
			return true
		}
		if !s.handle(v) {
			return false
		}
	}
}

func (sh *c25Shared) drainAll() bool {
	for _, s := range sh.all {
		if !s.drain() {
			return false
		}
	}
	return true
}

// request writes one request and waits for its first header (and body).
func (s *c25Sess) request(kind, cmd string, body any) (wireVal, bool) {
	s.nsent++
	seq := s.seqOf(s.nsent)
	s.kind[seq] = kind
	s.log = append(s.log, fmt.Sprintf("> %s#%d", cmd, seq))
	vals := []any{hdr(cmd, seq)}
	if body != nil {
		vals = append(vals, body)
	}
	return s.await(seq, cmd, vals)
}

// barrier is one more round trip on the connection that changes nothing: a
// stop naming its own sequence number (which is no stream). The agent handles
// the requests of a connection one after the other, so whatever the previous
// request left to do after its reply (registering a stream) is done.
func (s *c25Sess) barrier() bool {
	_, ok := s.request("plain", "stop", map[string]any{"Stop": s.seqOf(s.nsent + 1)})
	return ok
}

func (s *c25Sess) await(seq uint64, cmd string, vals []any) (wireVal, bool) {
	if err := s.cl.send(vals...); err != nil {
		s.x.Inconclusive("write failed: " + err.Error())
		return wireVal{}, false
	}
	s.mon.MaxGap()
	ok, to := s.pump(func() bool { return s.headers[seq] > 0 }, c25Wait, cmd+" reply")
	if !ok {
		return wireVal{}, false
	}
	if to {
		if s.pending != nil && s.mon.MaxGap() < time.Second {
			s.x.Violationf("missing-body", "header %v (%s) must be followed by a body, nothing came within %v (trace: %s)", *s.pending, s.kind[s.pending.Seq], c25Wait, s.trace())
			return wireVal{}, false
		}
		s.x.Inconclusive(fmt.Sprintf("no reply to %s within %v", cmd, c25Wait))
		return wireVal{}, false
	}
	return s.first[seq], true
}

// quiesce makes sure every event enqueued so far has been handed to every
// registered handler: it emits a uniquely named user event, waits for the
// reference handler to see it and, on every connection, for every registered
// stream whose filter matches it to deliver its record.
func (sh *c25Shared) quiesce() bool {
	sh.syncN++
	name := fmt.Sprintf("zz-sync-%d", sh.syncN)
	if err := sh.r.agent.UserEvent(name, nil, false); err != nil {
		sh.x.Inconclusive("sync event failed: " + err.Error())
		return false
	}
	if !sh.r.rec.waitFor(c25Wait, func(ev []serf.Event) bool { return sawUser(ev, name) }) {
		sh.x.Inconclusive("sync event not dispatched in time")
		return false
	}
	probe := serf.UserEvent{Name: name}
	has := func(st *c25Stream) bool {
		for i := len(st.recs) - 1; i >= 0; i-- {
			if n, _ := asString(st.recs[i]["Name"]); n == name {
				return true
			}
		}
		return false
	}
	for _, s := range sh.all {
		sh.mon.MaxGap()
		ok, to := s.pump(func() bool {
			for _, st := range s.streams {
				if st.closeAt < 0 && c25Match(st.filter, probe) && !has(st) {
					return false
				}
			}
			return true
		}, c25Wait, "sync records")
		if !ok {
			return false
		}
		if to {
			if sh.mon.MaxGap() > time.Second {
				sh.x.Inconclusive("starved while waiting for sync records")
				return false
			}
			for _, st := range s.streams {
				if st.closeAt < 0 && c25Match(st.filter, probe) && !has(st) {
					sh.x.Violationf("stream-missing-event", "stream Seq %d (filter %q) did not deliver user event %q within %v although the agent dispatched it (trace: %s)", st.seq, st.filter, name, c25Wait, s.trace())
					return false
				}
			}
		}
	}
	return true
}

func (sh *c25Shared) inject(t uint8, msg any) {
	buf, err := serf.VerifEncodeMessage(t, msg, false)
	if err != nil {
		panic(err)
	}
	sh.r.agent.Serf().VerifDelegate().NotifyMsg(buf)
}

// connect opens one more RPC connection and shakes hands on it.
func (sh *c25Shared) connect(tag string, base uint64) *c25Sess {
	cl, err := dialRaw(sh.r.addr())
	if err != nil {
		sh.x.Inconclusive("dial: " + err.Error())
		return nil
	}
	s := &c25Sess{c25Shared: sh, tag: tag, base: base, cl: cl, kind: map[uint64]string{}, headers: map[uint64]int{}, first: map[uint64]wireVal{},
		bySeq: map[uint64]*c25Stream{}, monitors: map[uint64]*c25Monitor{}, queries: map[uint64]*c25Query{}}
	sh.all = append(sh.all, s)
	if v, ok := s.request("plain", "handshake", map[string]any{"Version": 1}); !ok {
		return nil
	} else if v.Err != "" {
		sh.x.Inconclusive("handshake refused: " + v.Err)
		return nil
	}
	return s
}

// slowListener hands the IPC server connections whose writes take a while.
type slowListener struct {
	net.Listener
	d time.Duration
}

type slowConn struct {
	net.Conn
	d time.Duration
}

func (l *slowListener) Accept() (net.Conn, error) {
	c, err := l.Listener.Accept()
	if err != nil {
		return nil, err
	}
	return &slowConn{Conn: c, d: l.d}, nil
}

func (c *slowConn) Write(p []byte) (int, error) {
	time.Sleep(c.d)
	return c.Conn.Write(p)
}

func bodyC25(c c25Case, x *vkit.Ctx) {
	if c.StopRace != nil {
		bodyC25StopRace(c.StopRace, x)
		return
	}
	// two sessions in three: the agent's goroutines linger after releasing one
	// of the agent package's mutexes (lockyield_test.go)
	lockYield((len(c.Ops) + c.SlowWriteUs) % 3)
	defer lockYield(0)
	ro := rigOpts{Loopback: true}
	if c.SlowWriteUs > 0 {
		d := time.Duration(min(c.SlowWriteUs, 2000)) * time.Microsecond
		ro.WrapListener = func(l net.Listener) net.Listener { return &slowListener{Listener: l, d: d} }
		x.Labelf("slow-writes=%v", d)
	}
	r, err := newRig(ro)
	if err != nil {
		x.Inconclusive("rig: " + err.Error())
		return
	}
	defer r.close()
	mon := vkit.StartMonitor()
	defer mon.Stop()
	sh := &c25Shared{x: x, r: r, mon: mon}
	defer func() {
		for _, s := range sh.all {
			s.cl.close()
		}
	}()
	defer sh.wg.Wait()
	if c.SeqBase != 0 {
		x.Label("seq-base-special")
	}

	sA := sh.connect("A", c.SeqBase)
	if sA == nil {
		return
	}
	var sB *c25Sess
	sf := r.agent.Serf()
	local := r.conf.NodeName
	userLT, queryLT, memberLT := serf.LamportTime(100), serf.LamportTime(100), serf.LamportTime(100)
	var lastUser *serf.VerifMessageUserEvent
	metaN := 0
	payloadOf := func(mode, i int, prefix string) []byte {
		switch mode {
		case 2:
			return []byte("same") // byte-equal payloads in distinct events
		case 3:
			return nil
		}
		return []byte(fmt.Sprintf("%s%d", prefix, i))
	}

	for i, op := range c.Ops {
		s := sA
		if op.C == 1 {
			if sB == nil {
				if sB = sh.connect("B", c.SeqBase); sB == nil {
					return
				}
				x.Label("second-connection")
			}
			s = sB
		}
		switch op.K {
		case "stream":
			if !sh.quiesce() {
				return
			}
			var seq uint64
			reuse := false
			if op.B {
				// a client may use the sequence number of a stream it has stopped
				// for a new stream. Only streams that carried the sync events are
				// taken: the sync record seen before their stop proves that nothing
				// of the old stream is still in flight (records queued before a stop
				// are still delivered after it, and would be mistaken for records
				// of the new stream).
				for _, old := range s.streams {
					if old.closeAt >= 0 && s.bySeq[old.seq] == old && c25Match(old.filter, serf.UserEvent{Name: "zz-sync-0"}) {
						seq, reuse = old.seq, true
					}
				}
			}
			if reuse {
				delete(s.headers, seq)
				delete(s.first, seq)
				x.Label("stream-seq-reused-after-stop")
			} else {
				s.nsent++
				seq = s.seqOf(s.nsent)
			}
			s.kind[seq] = "stream"
			st := &c25Stream{seq: seq, filter: op.S, closeAt: -1}
			s.bySeq[seq] = st
			s.log = append(s.log, fmt.Sprintf("> stream(%q)#%d", op.S, seq))
			v, ok := s.await(seq, "stream", []any{hdr("stream", seq), map[string]any{"Type": op.S}})
			if !ok {
				return
			}
			if v.Err != "" {
				if c25FilterValid(op.S) {
					// a documented filter on a sequence number this connection has
					// no stream for: nothing allows the agent to refuse it
					x.Violationf("valid-stream-refused", "connection %s: stream request Seq %d with the valid filter %q was refused: %q (trace: %s)", s.tag, seq, op.S, v.Err, s.trace())
					return
				}
				x.Label("invalid-filter-refused")
				continue
			}
			// the registration happens after the reply was written: a second
			// round trip makes sure it is complete before anything else happens
			if !s.barrier() {
				return
			}
			st.openAt = r.rec.count()
			s.streams = append(s.streams, st)
			for _, o := range sh.all {
				if o != s && o.bySeq[seq] != nil && o.bySeq[seq].closeAt < 0 && o.first[seq].Err == "" {
					x.Label("same-seq-streams-on-two-connections")
				}
			}
		case "monitor":
			if !sh.quiesce() {
				return
			}
			s.nsent++
			seq := s.seqOf(s.nsent)
			s.kind[seq] = "monitor"
			mo := &c25Monitor{seq: seq, level: strings.ToUpper(op.S), rank: -1, stopSync: -1}
			if rk, ok := c25LevelRank[mo.level]; ok {
				mo.rank = rk
			}
			s.monitors[seq] = mo
			s.log = append(s.log, fmt.Sprintf("> monitor(%q)#%d", op.S, seq))
			v, ok := s.await(seq, "monitor", []any{hdr("monitor", seq), map[string]any{"LogLevel": op.S}})
			if !ok {
				return
			}
			if v.Err != "" {
				active := false
				for _, o := range s.monOrder {
					if o.stopSync < 0 {
						active = true
					}
				}
				if mo.rank >= 0 && !active {
					// a documented level and no log stream on this connection yet
					// (or none left): nothing allows the agent to refuse
					x.Violationf("valid-monitor-refused", "connection %s: monitor request Seq %d with level %q was refused although the connection has no log stream: %q (trace: %s)", s.tag, seq, op.S, v.Err, s.trace())
					return
				}
				x.Label("monitor-refused")
				continue
			}
			if !s.barrier() {
				return
			}
			mo.openSync = sh.syncN
			s.monOrder = append(s.monOrder, mo)
			x.Label("monitor-open")
		case "stop":
			var open []*c25Stream
			for _, st := range s.streams {
				if st.closeAt < 0 {
					open = append(open, st)
				}
			}
			var openMon []*c25Monitor
			for _, mo := range s.monOrder {
				if mo.stopSync < 0 {
					openMon = append(openMon, mo)
				}
			}
			if len(open)+len(openMon) == 0 {
				continue
			}
			if !sh.quiesce() {
				return
			}
			k := op.N % (len(open) + len(openMon))
			if len(openMon) > 0 && op.N%2 == 1 {
				k = len(open) // odd choices go for the log stream when there is one
			}
			if k < len(open) {
				st := open[k]
				if _, ok := s.request("plain", "stop", map[string]any{"Stop": st.seq}); !ok {
					return
				}
				st.closeAt = r.rec.count()
				x.Label("stream-stopped")
			} else {
				mo := openMon[k-len(open)]
				if _, ok := s.request("plain", "stop", map[string]any{"Stop": mo.seq}); !ok {
					return
				}
				mo.stopSync = sh.syncN
				x.Label("monitor-stopped")
			}
		case "user":
			m := &serf.VerifMessageUserEvent{LTime: userLT, Name: op.S, Payload: payloadOf(op.N, i, "u"), CC: op.B}
			if op.N == 1 && lastUser != nil {
				m = lastUser // an exact duplicate: Serf must drop it
			} else {
				userLT++
			}
			lastUser = m
			sh.inject(serf.VerifMessageUserEventType, m)
		case "event":
			if _, ok := s.request("plain", "event", map[string]any{"Name": op.S, "Payload": payloadOf(op.N, i, "e"), "Coalesce": op.B}); !ok {
				return
			}
		case "join", "update":
			metaN++
			meta := sf.VerifEncodeTags(map[string]string{"v": fmt.Sprint(metaN), "role": c25Fakes[op.N]})
			n := node.MLNode(c25Fakes[op.N], fmt.Sprintf("10.1.0.%d", op.N+1), uint16(7946+op.N), meta, 5, 5)
			if op.K == "join" {
				sf.VerifEventDelegate().NotifyJoin(n)
			} else {
				sf.VerifEventDelegate().NotifyUpdate(n)
			}
		case "leave", "failed":
			if op.K == "leave" {
				memberLT++
				sh.inject(serf.VerifMessageLeaveType, &serf.VerifMessageLeave{LTime: memberLT, Node: c25Fakes[op.N]})
			}
			n := node.MLNode(c25Fakes[op.N], fmt.Sprintf("10.1.0.%d", op.N+1), uint16(7946+op.N), nil, 5, 5)
			sf.VerifEventDelegate().NotifyLeave(n)
		case "prune":
			// RPC force-leave, with or without prune: a failed member becomes
			// left, a pruned one is reaped (member-reap events)
			if op.T == 1 {
				// make sure the target is a failed member (joined, then lost)
				n := node.MLNode(c25Fakes[op.N], fmt.Sprintf("10.1.0.%d", op.N+1), uint16(7946+op.N), nil, 5, 5)
				sf.VerifEventDelegate().NotifyJoin(n)
				sf.VerifEventDelegate().NotifyLeave(n)
			}
			if _, ok := s.request("plain", "force-leave", map[string]any{"Node": c25Fakes[op.N], "Prune": op.B}); !ok {
				return
			}
			x.Label("force-leave")
		case "fquery":
			queryLT++
			var flags uint32
			if op.B {
				flags = serf.VerifQueryFlagAck
			}
			sh.inject(serf.VerifMessageQueryType, &serf.VerifMessageQuery{LTime: queryLT, ID: uint32(7000 + i), Addr: []byte{10, 1, 0, 9}, Port: 7946,
				SourceNode: "far", Flags: flags, Timeout: 30 * time.Millisecond, Name: op.S, Payload: []byte(fmt.Sprintf("f%d", i))})
		case "members", "stats":
			if _, ok := s.request("body", op.K, nil); !ok {
				return
			}
		case "respond":
			id := uint64(424242)
			if s.haveQID {
				id = s.lastQID
			}
			pl := fmt.Sprintf("resp%d", op.N)
			// if the ID belongs to one of our own queries, the local node is a
			// genuine responder for it with this payload
			if s.haveQID {
				for _, o := range sh.all {
					for _, q := range o.qorder {
						if fmt.Sprintf("rq%d", q.op) == s.lastQNm {
							q.mu.Lock()
							if q.resps[local] == nil {
								q.resps[local] = map[string]bool{}
							}
							q.resps[local][pl] = true
							q.mu.Unlock()
						}
					}
				}
			}
			if _, ok := s.request("plain", "respond", map[string]any{"ID": id, "Payload": []byte(pl)}); !ok {
				return
			}
			x.Label("respond")
		case "sleep":
			time.Sleep(time.Duration(op.N) * time.Microsecond)
		case "query":
			s.nsent++
			seq := s.seqOf(s.nsent)
			s.kind[seq] = "query"
			timeout := time.Duration(op.T)
			q := &c25Query{seq: seq, op: i, timeout: timeout, acks: map[string]bool{}, resps: map[string]map[string]bool{}}
			if op.B {
				q.acks[local] = true // the local node acknowledges its own query
			}
			s.queries[seq] = q
			s.qorder = append(s.qorder, q)
			// pool name (so that query:NAME filters match); the payload is unique
			// to the request and identifies the query in the reference handler
			name := op.S
			payload := []byte(fmt.Sprintf("rq%d", i))
			s.log = append(s.log, fmt.Sprintf("> query(%v)#%d", timeout, seq))
			t0 := time.Now()
			v, ok := s.await(seq, "query", []any{hdr("query", seq), map[string]any{"Name": name, "Payload": payload, "RequestAck": op.B,
				"Timeout": op.T, "FilterNodes": []string{}, "FilterTags": map[string]string{}, "RelayFactor": uint8(0)}})
			if !ok {
				return
			}
			if v.Err != "" {
				x.Label("query-refused")
				continue
			}
			if timeout < time.Microsecond {
				q.lateRepl = true
			}
			x.Labelf("query-timeout<=%v", c25Bucket(timeout))
			if len(op.Replies) == 0 {
				continue
			}
			// learn (LTime, ID) of the query from the reference handler
			var qe *serf.Query
			if !r.rec.waitFor(c25Wait, func(evs []serf.Event) bool {
				for _, e := range evs {
					if qq, ok := e.(*serf.Query); ok && string(qq.Payload) == string(payload) {
						qe = qq
						return true
					}
				}
				return false
			}) {
				x.Inconclusive("own query not dispatched in time")
				return
			}
			lt, id := qe.LTime, qe.VerifID()
			replies := append([]c25Reply(nil), op.Replies...)
			sort.SliceStable(replies, func(a, b int) bool { return replies[a].AtPct < replies[b].AtPct })
			for _, rp := range replies {
				if rp.AtPct >= 100 {
					q.lateRepl = true
				}
				if rp.WrongID {
					continue
				}
				from := c25Fakes[rp.From]
				q.mu.Lock()
				if rp.Ack {
					q.acks[from] = true
				} else {
					if q.resps[from] == nil {
						q.resps[from] = map[string]bool{}
					}
					q.resps[from][rp.Payload] = true
				}
				q.mu.Unlock()
			}
			sh.wg.Add(1)
			go func() {
				defer sh.wg.Done()
				for _, rp := range replies {
					off := timeout * time.Duration(rp.AtPct) / 100
					if rp.AtPct > 100 { // "after the deadline" need not be long after
						off = timeout + min(off-timeout, 2*time.Millisecond)
					}
					at := t0.Add(off)
					if d := time.Until(at); d > 0 {
						time.Sleep(d)
					}
					m := &serf.VerifMessageQueryResponse{LTime: lt, ID: id, From: c25Fakes[rp.From], Payload: []byte(rp.Payload)}
					if rp.Ack {
						m.Flags = serf.VerifQueryFlagAck
						m.Payload = nil
					}
					if rp.WrongID {
						m.ID = id + 1
					}
					buf, err := serf.VerifEncodeMessage(serf.VerifMessageQueryResponseType, m, false)
					if err == nil {
						sf.VerifDelegate().NotifyMsg(buf)
					}
				}
			}()
		}
		if !sh.drainAll() {
			return
		}
	}

	// ---- end of session
	sh.wg.Wait()
	started := 0
	for _, s := range sh.all {
		mon.MaxGap()
		for _, q := range s.qorder {
			if s.first[q.seq].Err == "" && s.headers[q.seq] > 0 {
				started++
			}
		}
		ok, to := s.pump(func() bool {
			for _, q := range s.qorder {
				if s.first[q.seq].Err == "" && q.done == 0 {
					return false
				}
			}
			return true
		}, c25Wait, "query completion")
		if !ok {
			return
		}
		if to {
			if mon.MaxGap() > time.Second {
				x.Inconclusive("starved while waiting for query completion")
				return
			}
			for _, q := range s.qorder {
				if s.first[q.seq].Err == "" && q.done == 0 {
					x.Violationf("query-never-done", "query Seq %d (timeout %v) got no done record within %v after its deadline (records: %v)", q.seq, q.timeout, c25Wait, q.recs)
					return
				}
			}
		}
	}
	if !sh.quiesce() {
		return
	}
	ref := r.rec.snapshot()
	expected := map[*c25Stream][]string{}
	// monWant: the sync events a log stream at INFO or below must carry a line for
	monWant := func(mo *c25Monitor) (from, to int) {
		to = sh.syncN
		if mo.stopSync >= 0 {
			to = mo.stopSync
		}
		return mo.openSync + 1, to
	}
	monHas := func(mo *c25Monitor) bool {
		from, to := monWant(mo)
		n := 0
		for _, k := range mo.syncSeen {
			if k >= from && k <= to {
				n++
			}
		}
		return n >= to-from+1
	}
	starved := false
	for _, s := range sh.all {
		for _, st := range s.streams {
			end := len(ref)
			if st.closeAt >= 0 {
				end = st.closeAt
			}
			for _, e := range ref[st.openAt:end] {
				if c25Match(st.filter, e) {
					expected[st] = append(expected[st], c25Desc(e))
				}
			}
		}
		mon.MaxGap()
		ok, to := s.pump(func() bool {
			for _, st := range s.streams {
				if len(st.recs) < len(expected[st]) {
					return false
				}
			}
			for _, mo := range s.monOrder {
				if mo.rank >= 0 && mo.rank <= c25LevelRank["INFO"] && !monHas(mo) {
					return false
				}
			}
			return true
		}, c25Wait, "stream records")
		if !ok {
			return
		}
		if to && mon.MaxGap() > time.Second {
			starved = true
		}
	}
	// give stray records (second done, records of stopped streams, ...) a moment
	time.Sleep(3*time.Millisecond + 4*time.Duration(c.SlowWriteUs)*time.Microsecond)
	if !sh.drainAll() {
		return
	}
	for _, s := range sh.all {
		if s.pending != nil {
			if ok, _ := s.pump(func() bool { return true }, time.Second, "trailing body"); !ok {
				return
			}
		}
	}
	for _, s := range sh.all {
		for _, st := range s.streams {
			exp := expected[st]
			for j, m := range st.recs {
				got := c25RecDesc(m)
				if j >= len(exp) {
					x.Violationf("stream-extra-event", "connection %s, stream Seq %d (filter %q): record #%d %q has no counterpart among the %d matching events the agent dispatched while it was registered", s.tag, st.seq, st.filter, j, got, len(exp))
					return
				}
				if got != exp[j] {
					sig := "stream-wrong-event"
					matches := false
					for _, e := range exp {
						if e == got {
							matches = true
						}
					}
					if !matches {
						sig = "stream-nonmatching-event"
					}
					x.Violationf(sig, "connection %s, stream Seq %d (filter %q): record #%d is %q, expected %q (expected sequence %v)", s.tag, st.seq, st.filter, j, got, exp[j], exp)
					return
				}
			}
			if len(st.recs) < len(exp) {
				if starved {
					x.Inconclusive("starved while waiting for stream records")
					return
				}
				x.Violationf("stream-missing-event", "connection %s, stream Seq %d (filter %q) delivered %d of %d matching events within %v; first missing %q", s.tag, st.seq, st.filter, len(st.recs), len(exp), c25Wait, exp[len(st.recs)])
				return
			}
		}
		for _, mo := range s.monOrder {
			if mo.rank >= 0 && mo.rank <= c25LevelRank["INFO"] && !monHas(mo) {
				if starved {
					x.Inconclusive("starved while waiting for log records")
					return
				}
				from, to := monWant(mo)
				x.Violationf("monitor-missing-line", "connection %s, monitor Seq %d (level %s) was registered while sync events %d..%d were dispatched (each logged at INFO), but carried lines only for %v (%d lines in all)", s.tag, mo.seq, mo.level, from, to, mo.syncSeen, mo.lines)
				return
			}
			if mo.lines > 0 {
				x.Label("monitor-lines-delivered")
			}
		}
		for _, q := range s.qorder {
			if q.done > 1 {
				x.Violationf("done-twice", "query Seq %d: %d done records", q.seq, q.done)
				return
			}
		}
	}

	// ---- labels and non-triviality
	lateQuery, shared := false, false
	var allStreams []*c25Stream
	for _, s := range sh.all {
		for _, q := range s.qorder {
			if s.first[q.seq].Err == "" && q.lateRepl {
				lateQuery = true
			}
			if len(q.recs) > 1 {
				x.Label("query-with-replies-delivered")
			}
		}
		allStreams = append(allStreams, s.streams...)
	}
	for a := 0; a < len(allStreams) && !shared; a++ {
		for b := a + 1; b < len(allStreams) && !shared; b++ {
			sa, sb := allStreams[a], allStreams[b]
			if sa.filter == sb.filter {
				continue
			}
			seen := map[string]bool{}
			for _, e := range expected[sa] {
				if !strings.HasPrefix(e, "user|zz-sync-") {
					seen[e] = true
				}
			}
			for _, e := range expected[sb] {
				if seen[e] {
					shared = true
				}
			}
		}
	}
	if lateQuery {
		x.Label("query-deadline-vs-replies")
	}
	if shared {
		x.Label("streams-share-events")
	}
	x.Labelf("streams=%d", min(len(allStreams), 4))
	x.Labelf("queries=%d", min(started, 4))
	total := 0
	for _, st := range allStreams {
		total += len(expected[st])
		for _, e := range expected[st] {
			if strings.HasPrefix(e, "member-reap|") {
				x.Label("reap-event-streamed")
				break
			}
		}
	}
	x.Labelf("stream-records~%d", min(total/5*5, 30))
	x.NonTrivial(lateQuery || shared)
}

func c25Bucket(d time.Duration) time.Duration {
	for _, b := range []time.Duration{time.Microsecond, time.Millisecond, 10 * time.Millisecond} {
		if d <= b {
			return b
		}
	}
	return 50 * time.Millisecond
}

func TestC25(t *testing.T) { vkit.Run(t, "C25", genC25, bodyC25) }
