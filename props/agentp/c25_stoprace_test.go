//go:build verif

package agentp

import (
	"fmt"
	"sync"
	"sync/atomic"
	"time"

	"github.com/hashicorp/serf/serf"

	"verif/internal/vkit"
)

// C25, "stop while events flow" mode.
//
// The generated sessions of c25_test.go make every stream open/stop boundary
// exact with a sync event, which keeps them clear of one schedule: a stream
// being stopped (explicit `stop`, or the connection going away) while the
// agent's event loop is in the middle of dispatching an event to the handlers
// it had listed a moment earlier. This mode generates exactly that: events
// are injected from a second goroutine without pause while the client stops
// its streams or drops the connection. A slow co-registered handler widens the
// gap between the loop taking its handler list and reaching the stream.
//
// Oracle: the agent survives (crash oracle of the driver: a send on a stopped
// stream's channel is a panic in the agent's event loop), the connection that
// stays open keeps receiving every matching event of its remaining stream,
// and no record for the stopped stream's Seq arrives after the stop was
// acknowledged and the flow has ended.

type c25StopRace struct {
	Streams   int   `json:"streams"`    // 1-3 streams on the doomed connection
	Events    int   `json:"events"`     // events injected while stopping
	Mode      int   `json:"mode"`       // 0 explicit stop of every stream, 1 close the connection
	StopAfter int   `json:"stop_after"` // stop once this many events have been injected
	SlowUs    int   `json:"slow_us"`    // per-event delay of the co-registered slow handler
	Pauses    []int `json:"pauses"`     // microsecond pauses between stops
}

type slowHandler struct {
	d  time.Duration
	on atomic.Bool
}

func (h *slowHandler) HandleEvent(serf.Event) {
	if h.on.Load() {
		time.Sleep(h.d)
	}
}

func bodyC25StopRace(c *c25StopRace, x *vkit.Ctx) {
	lockYield(c.SlowUs % 3)
	defer lockYield(0)
	r, err := newRig(rigOpts{Loopback: true})
	if err != nil {
		x.Inconclusive("rig: " + err.Error())
		return
	}
	defer r.close()
	slow := &slowHandler{d: time.Duration(max(1, c.SlowUs)) * time.Microsecond}
	r.agent.RegisterEventHandler(slow)

	open := func() (*rawClient, bool) {
		cl, err := dialRaw(r.addr())
		if err != nil {
			x.Inconclusive("dial: " + err.Error())
			return nil, false
		}
		if err := cl.send(hdr("handshake", 1), map[string]any{"Version": 1}); err != nil {
			x.Inconclusive("handshake: " + err.Error())
			return nil, false
		}
		if v, ok, _ := cl.next(5 * time.Second); !ok || v.Err != "" {
			x.Inconclusive("handshake reply")
			return nil, false
		}
		return cl, true
	}
	stream := func(cl *rawClient, seq uint64) bool {
		if err := cl.send(hdr("stream", seq), map[string]any{"Type": "user"}); err != nil {
			return false
		}
		v, ok, _ := cl.next(5 * time.Second)
		return ok && v.IsHdr && v.Seq == seq && v.Err == ""
	}
	doomed, ok := open()
	if !ok {
		return
	}
	defer doomed.close()
	keeper, ok := open()
	if !ok {
		return
	}
	defer keeper.close()
	ns := max(1, min(c.Streams, 3))
	for i := 0; i < ns; i++ {
		if !stream(doomed, uint64(10+i)) {
			x.Inconclusive("stream open on the doomed connection")
			return
		}
	}
	if !stream(keeper, 50) {
		x.Inconclusive("stream open on the keeper connection")
		return
	}

	// The agent acknowledges a stream request BEFORE it registers the stream
	// (deliberately, see handleStream), so events fired right after the ack may
	// legitimately be missed: feed sync events until each connection shows one.
	syncUp := func(cl *rawClient, tag string) bool {
		d := r.agent.Serf().VerifDelegate()
		for i := 0; i < 2000; i++ {
			msg, _ := serf.VerifEncodeMessage(serf.VerifMessageUserEventType,
				&serf.VerifMessageUserEvent{LTime: serf.LamportTime(10 + i), Name: fmt.Sprintf("sync-%s-%d", tag, i), Payload: []byte("s")}, false)
			d.NotifyMsg(msg)
			seen := false
			for {
				v, ok, closed := cl.next(2 * time.Millisecond)
				if closed {
					return false
				}
				if !ok {
					break
				}
				if !v.IsHdr {
					seen = true
				}
			}
			if seen {
				// every stream of this connection is registered once the newest sync
				// event has been seen on each; drain what is left
				time.Sleep(2 * time.Millisecond)
				for {
					if _, ok, _ := cl.next(3 * time.Millisecond); !ok {
						break
					}
				}
				return true
			}
		}
		return false
	}
	if !syncUp(keeper, "k") || !syncUp(doomed, "d") {
		x.Inconclusive("streams did not come up")
		return
	}
	// the doomed connection's sync events also reached the keeper: drain them
	for {
		if _, ok, _ := keeper.next(3 * time.Millisecond); !ok {
			break
		}
	}

	// ---- the flow
	total := max(20, min(c.Events, 400))
	stopAt := max(1, min(c.StopAfter, total-1))
	slow.on.Store(true)
	var injected atomic.Int64
	var wg sync.WaitGroup
	wg.Add(1)
	go func() {
		defer wg.Done()
		d := r.agent.Serf().VerifDelegate()
		for i := 0; i < total; i++ {
			msg, _ := serf.VerifEncodeMessage(serf.VerifMessageUserEventType,
				&serf.VerifMessageUserEvent{LTime: serf.LamportTime(1000 + i), Name: fmt.Sprintf("flow-%d", i), Payload: []byte("x")}, false)
			d.NotifyMsg(msg)
			injected.Add(1)
		}
	}()
	for injected.Load() < int64(stopAt) {
		time.Sleep(20 * time.Microsecond)
	}
	if c.Mode == 0 {
		for i := 0; i < ns; i++ {
			_ = doomed.send(hdr("stop", uint64(100+i)), map[string]any{"Stop": uint64(10 + i)})
			if i < len(c.Pauses) {
				time.Sleep(time.Duration(c.Pauses[i]%300) * time.Microsecond)
			}
		}
		x.Label("stoprace:explicit-stop")
	} else {
		doomed.close()
		x.Label("stoprace:connection-dropped")
	}
	wg.Wait()
	slow.on.Store(false)

	// a last, recognisable event closes the flow; the keeper's stream must carry it
	last, _ := serf.VerifEncodeMessage(serf.VerifMessageUserEventType,
		&serf.VerifMessageUserEvent{LTime: serf.LamportTime(5000), Name: "flow-end", Payload: []byte("x")}, false)
	r.agent.Serf().VerifDelegate().NotifyMsg(last)

	// ---- the keeper connection still works and got every flow event in order
	mon := vkit.StartMonitor()
	defer mon.Stop()
	next := 0
	deadline := time.Now().Add(20 * time.Second)
	for {
		v, ok, closed := keeper.next(time.Until(deadline))
		if closed {
			x.Violationf("stoprace-keeper-connection-lost", "the other connection was closed while streams of a different connection were being stopped")
			return
		}
		if !ok {
			if mon.MaxGap() > 200*time.Millisecond {
				x.Inconclusive("starved while reading the keeper stream")
				return
			}
			x.Violationf("stoprace-events-missing", "the stream of the connection that stayed open stopped after %d of %d events (+ end marker) although only other streams were stopped", next, total)
			return
		}
		if v.IsHdr {
			if v.Seq != 50 {
				x.Violationf("stoprace-foreign-seq", "record header with Seq %d on the keeper connection (its only stream is 50)", v.Seq)
				return
			}
			continue
		}
		name, _ := asString(v.Map["Name"])
		if len(name) >= 5 && name[:5] == "sync-" {
			continue // a straggler of the set-up phase
		}
		if name == "flow-end" {
			break
		}
		want := fmt.Sprintf("flow-%d", next)
		if name != want {
			// 512 may be outstanding at most; the reader keeps up, so nothing may be skipped
			x.Violationf("stoprace-event-skipped-or-reordered", "keeper stream: got %q, expected %q", name, want)
			return
		}
		next++
	}
	if next != total {
		x.Violationf("stoprace-events-missing", "keeper stream carried %d of %d flow events before the end marker", next, total)
		return
	}
	x.Labelf("stoprace:streams=%d", ns)
	x.NonTrivial(true)
}
