//go:build verif

package agentp

import (
	"encoding/json"
	"fmt"
	"io"
	"os"
	"path/filepath"
	"sort"
	"strings"
	"testing"
	"time"

	"github.com/hashicorp/go-msgpack/v2/codec"
	"github.com/hashicorp/serf/cmd/serf/command/agent"
	"github.com/hashicorp/serf/serf"
	"pgregory.net/rapid"

	"verif/internal/vkit"
)

// C30 — tag edits apply as documented and persisted tags match effective tags.
//
// A case is an agent (with or without a tags file, with generated initial
// tags) and a sequence of RPC "tags" edits sent over a raw connection. After
// every edit the harness compares the tags in effect (Serf LocalMember) with
// (previous − deleted) ∪ set when the agent answered success, with the previous
// tags when it answered an error, and — when a tags file is configured — with
// what a fresh agent.Create on the same file loads. The harness never predicts
// whether an edit is accepted, except that tiny tag sets must be.

type c30KV struct {
	K   string `json:"k"`
	V   string `json:"v"`
	Pad int    `json:"pad,omitempty"` // value is V followed by Pad filler bytes
	// Fit, when non-zero, replaces Pad at run time: the value is padded so
	// that the tags resulting from the edit encode to exactly limit+Fit-100
	// bytes (100 = exactly at the limit)
	Fit int `json:"fit,omitempty"`
}

func (kv c30KV) value() string { return kv.V + strings.Repeat("x", kv.Pad) }

type c30Edit struct {
	Set []c30KV  `json:"set"`
	Del []string `json:"del"`
	// Rep: how an empty Tags / DeleteTags field travels: 0 as an empty map /
	// list, 1 left out of the request, 2 as an explicit nil
	Rep int `json:"rep,omitempty"`
	// Restart: the agent is stopped and started again on the same tags file
	// before this edit (a real next start, not only the loader)
	Restart bool `json:"restart,omitempty"`
}

type c30Case struct {
	File  bool      `json:"file"`
	Init  []c30KV   `json:"init"`
	Edits []c30Edit `json:"edits"`
	// Peer: the agent's memberlist knows one more alive member (learnt from an
	// alive packet the harness injects) and waits at most BcastNs for the
	// update broadcast, which never goes out on the quiet network: Serf then
	// reports an edit as failed AFTER the tags took effect
	Peer    bool  `json:"peer,omitempty"`
	BcastNs int64 `json:"bcast_ns,omitempty"`
	// EmptyFile: what the tags file holds at the first start when there are no
	// initial tags: 0 no file, 1 "{}", 2 "null", 3 "{}" plus a newline
	EmptyFile int `json:"empty_file,omitempty"`
}

// keys: next to plain and awkward ones, the same word in another case and
// proper prefixes / extensions of another key (a delete must hit exactly one)
var c30Keys = []string{"role", "dc", "a", "b", "", "ключ", "k<>&\"'", "with space", "emoji😀", "x=y", "nul\x00key",
	"Role", "ROLE", "rol", "role2", "dc", "role", "ab", "A"}
var c30Vals = []string{"", "1", "web", "true", "<b>&amp;</b>", "\"quoted\"", "line\nbreak", "日本語", "a,b=c", " sep", "\\back\\slash"}

func genC30KV(t *rapid.T, allowBig bool) c30KV {
	var kv c30KV
	switch rapid.IntRange(0, 9).Draw(t, "keykind") {
	case 0:
		kv.K = rapid.StringN(0, 6, 24).Draw(t, "key")
	case 1:
		kv.K = fmt.Sprintf("f%d", rapid.IntRange(0, 30).Draw(t, "fresh"))
	default:
		kv.K = rapid.SampledFrom(c30Keys).Draw(t, "poolkey")
	}
	if rapid.IntRange(0, 5).Draw(t, "valkind") == 0 {
		kv.V = rapid.StringN(0, 8, 32).Draw(t, "val")
	} else {
		kv.V = rapid.SampledFrom(c30Vals).Draw(t, "poolval")
	}
	if allowBig && rapid.IntRange(0, 3).Draw(t, "big") == 0 {
		kv.Pad = rapid.SampledFrom([]int{100, 200, 250, 300, 400, 450, 470, 480, 490, 495, 500, 505, 510, 520, 600, 2000}).Draw(t, "pad")
		if rapid.IntRange(0, 2).Draw(t, "fit") == 0 {
			kv.Fit = 100 + rapid.SampledFrom([]int{0, 0, 1, -1, 2, -2, 3, -3, 4, -4, 5, -6, 7, -8, 8, 9, -12, 16}).Draw(t, "fitdelta")
		}
	}
	return kv
}

func genC30(t *rapid.T) c30Case {
	var c c30Case
	c.File = rapid.IntRange(0, 3).Draw(t, "file") != 0
	for i, n := 0, rapid.IntRange(0, 3).Draw(t, "ninit"); i < n; i++ {
		c.Init = append(c.Init, genC30KV(t, false))
	}
	ne := rapid.IntRange(1, 8).Draw(t, "nedits")
	var known []string
	for _, kv := range c.Init {
		known = append(known, kv.K)
	}
	for i := 0; i < ne; i++ {
		var e c30Edit
		for j, n := 0, rapid.IntRange(0, 3).Draw(t, "nset"); j < n; j++ {
			kv := genC30KV(t, true)
			e.Set = append(e.Set, kv)
			known = append(known, kv.K)
		}
		for j, n := 0, rapid.SampledFrom([]int{0, 1, 1, 2, 2, 4}).Draw(t, "ndel"); j < n; j++ {
			switch {
			case len(e.Set) > 0 && rapid.IntRange(0, 3).Draw(t, "delset") == 0:
				e.Del = append(e.Del, e.Set[rapid.IntRange(0, len(e.Set)-1).Draw(t, "delsetidx")].K)
			case len(known) > 0 && rapid.IntRange(0, 4).Draw(t, "delknown") != 0:
				e.Del = append(e.Del, known[rapid.IntRange(0, len(known)-1).Draw(t, "delidx")])
			default:
				e.Del = append(e.Del, rapid.SampledFrom(c30Keys).Draw(t, "delpool"))
			}
		}
		e.Rep = rapid.SampledFrom([]int{0, 0, 1, 2}).Draw(t, "rep")
		e.Restart = c.File && i > 0 && rapid.IntRange(0, 5).Draw(t, "restart") == 0
		c.Edits = append(c.Edits, e)
	}
	if rapid.IntRange(0, 3).Draw(t, "peer") == 0 {
		c.Peer = true
		c.BcastNs = rapid.SampledFrom([]int64{1, 1000, 100_000, 1_000_000}).Draw(t, "bcast")
	}
	if c.File && len(c.Init) == 0 {
		c.EmptyFile = rapid.IntRange(0, 3).Draw(t, "emptyfile")
	}
	return c
}

func c30Map(kvs []c30KV) map[string]string {
	m := map[string]string{}
	for _, kv := range kvs {
		m[kv.K] = kv.value()
	}
	return m
}

func c30Copy(m map[string]string) map[string]string {
	o := make(map[string]string, len(m))
	for k, v := range m {
		o[k] = v
	}
	return o
}

func c30Equal(a, b map[string]string) bool {
	if len(a) != len(b) {
		return false
	}
	for k, v := range a {
		if w, ok := b[k]; !ok || w != v {
			return false
		}
	}
	return true
}

// c30Show renders a tag map compactly (long values abbreviated).
func c30Show(m map[string]string) string {
	keys := make([]string, 0, len(m))
	for k := range m {
		keys = append(keys, k)
	}
	sort.Strings(keys)
	var sb strings.Builder
	sb.WriteString("{")
	for i, k := range keys {
		if i > 0 {
			sb.WriteString(", ")
		}
		v := m[k]
		if len(v) > 24 {
			fmt.Fprintf(&sb, "%q:%q…(%d bytes)", k, v[:12], len(v))
		} else {
			fmt.Fprintf(&sb, "%q:%q", k, v)
		}
	}
	sb.WriteString("}")
	return sb.String()
}

// c30Reload asks the agent's own loader what a restart would load.
func c30Reload(r *rig, tagsFile string) (map[string]string, error) {
	conf, tr := serfConf(r.nw, "reload", nil)
	defer tr.Kill()
	ac := agent.DefaultConfig()
	ac.NodeName = "reload"
	ac.TagsFile = tagsFile
	if _, err := agent.Create(ac, conf, io.Discard); err != nil {
		return nil, err
	}
	return conf.Tags, nil
}

// c30MetaLimit is the documented limit on a node's encoded tags (memberlist's
// MetaMaxSize).
const c30MetaLimit = 512

// c30EncodedSize is the size of the tags on the wire, computed by the harness:
// one magic byte followed by the msgpack map in the (old-spec, raw strings)
// format every Serf node decodes.
func c30EncodedSize(tags map[string]string) int {
	var buf []byte
	if err := codec.NewEncoderBytes(&buf, &codec.MsgpackHandle{}).Encode(tags); err != nil {
		return -1
	}
	return 1 + len(buf)
}

// c30Advertised decodes what the node advertises to the cluster as its tags.
func c30Advertised(meta []byte) (map[string]string, error) {
	if len(meta) == 0 || meta[0] != 255 {
		return nil, fmt.Errorf("metadata does not start with the tag magic byte: % x", meta[:min(len(meta), 8)])
	}
	tags := map[string]string{}
	if err := codec.NewDecoderBytes(meta[1:], &codec.MsgpackHandle{}).Decode(&tags); err != nil {
		return nil, err
	}
	return tags, nil
}

// c30Alive is memberlist's alive message (wire names).
type c30Alive struct {
	Incarnation uint32
	Node        string
	Addr        []byte
	Port        uint16
	Meta        []byte
	Vsn         []uint8
}

func bodyC30(c c30Case, x *vkit.Ctx) {
	dir, err := os.MkdirTemp("", "c30-")
	if err != nil {
		x.Inconclusive("tempdir: " + err.Error())
		return
	}
	defer os.RemoveAll(dir)
	init := c30Map(c.Init)
	o := rigOpts{Loopback: true}
	tagsFile := ""
	if c.File {
		tagsFile = filepath.Join(dir, "tags.json")
		o.TagsFile = tagsFile
		var content []byte
		if len(init) > 0 {
			content, _ = json.Marshal(init)
		} else {
			content = [][]byte{nil, []byte("{}"), []byte("null"), []byte("{}\n")}[c.EmptyFile%4]
			x.Labelf("empty-tags-file-variant-%d", c.EmptyFile%4)
		}
		if content != nil {
			if err := os.WriteFile(tagsFile, content, 0o600); err != nil {
				x.Inconclusive("write initial tags file: " + err.Error())
				return
			}
		}
		x.Label("tags-file")
	} else {
		o.Tags = c30Copy(init)
		x.Label("no-tags-file")
	}
	if c.Peer {
		bt := time.Duration(min(max(c.BcastNs, 1), int64(time.Millisecond)))
		o.MutateSerf = func(conf *serf.Config) { conf.BroadcastTimeout = bt }
		x.Label("peer-known")
	}
	var r *rig
	var cl *rawClient
	defer func() {
		if cl != nil {
			cl.close()
		}
		if r != nil {
			r.close()
		}
	}()
	call := func(seq uint64, vals ...any) (string, bool) {
		if err := cl.send(vals...); err != nil {
			x.Inconclusive("write: " + err.Error())
			return "", false
		}
		for {
			v, got, closed := cl.next(10 * time.Second)
			if closed || !got {
				x.Inconclusive(fmt.Sprintf("no reply to request %d (closed=%v)", seq, closed))
				return "", false
			}
			if v.IsHdr && v.Seq == seq {
				return v.Err, true
			}
		}
	}
	// start (re)starts the agent on the same configuration and tags file and
	// opens a handshaken RPC connection to it
	start := func() bool {
		if cl != nil {
			cl.close()
			cl = nil
		}
		if r != nil {
			r.close()
			r = nil
		}
		if r, err = newRig(o); err != nil {
			x.Inconclusive("rig: " + err.Error())
			return false
		}
		if c.Peer {
			// one more member, as memberlist learns it from the network
			var b []byte
			if err := codec.NewEncoderBytes(&b, &codec.MsgpackHandle{}).Encode(c30Alive{Incarnation: 1, Node: "peer0", Addr: []byte{10, 1, 0, 1}, Port: 7946, Vsn: []uint8{1, 5, 2, 2, 5, 4}}); err != nil {
				x.Inconclusive("encode alive: " + err.Error())
				return false
			}
			r.tr.Inject("10.1.0.1:7946", append([]byte{4}, b...))
			for dl := time.Now().Add(5 * time.Second); r.agent.Serf().Memberlist().NumMembers() != 2; {
				if time.Now().After(dl) {
					x.Inconclusive("memberlist did not take the injected member")
					return false
				}
				time.Sleep(200 * time.Microsecond)
			}
		}
		if cl, err = dialRaw(r.addr()); err != nil {
			x.Inconclusive("dial: " + err.Error())
			return false
		}
		if e, ok := call(1, hdr("handshake", 1), map[string]any{"Version": 1}); !ok || e != "" {
			if ok {
				x.Inconclusive("handshake refused: " + e)
			}
			return false
		}
		return true
	}
	if !start() {
		return
	}

	effective := func() map[string]string { return c30Copy(r.agent.Serf().LocalMember().Tags) }
	// advertisedCheck: what the node tells the cluster must be the tags in effect
	advertisedCheck := func(step string, eff map[string]string) bool {
		meta := r.agent.Serf().Memberlist().LocalNode().Meta
		adv, err := c30Advertised(meta)
		if err != nil {
			x.Violationf("advertised-tags-undecodable", "%s: the metadata the node advertises does not decode as tags: %v", step, err)
			return false
		}
		if !c30Equal(adv, eff) {
			x.Violationf("advertised-tags-differ", "%s: tags in effect %s, but the node advertises %s", step, c30Show(eff), c30Show(adv))
			return false
		}
		return true
	}
	reloadCheck := func(step string, eff map[string]string, outcome string) bool {
		afterReject := outcome == "rejected"
		if !c.File {
			return true
		}
		got, err := c30Reload(r, tagsFile)
		if err != nil {
			x.Violationf("reload-fails", "%s: a fresh agent on the same tags file fails to load it: %v", step, err)
			return false
		}
		if !c30Equal(got, eff) {
			if afterReject && vkit.IsKnown("C30", "file-differs-after-rejected-edit") {
				x.Excluded() // listed known finding: counted, the rest of the case is still judged
				return true
			}
			sig := "file-differs-after-accepted-edit"
			if afterReject {
				sig = "file-differs-after-rejected-edit"
			}
			if outcome == "applied-but-reported-failed" {
				sig = "file-differs-after-applied-edit-reported-failed"
			}
			if step == "start" {
				sig = "file-differs-at-start"
			}
			x.Violationf(sig, "%s: tags in effect %s, but the next start would load %s", step, c30Show(eff), c30Show(got))
			return false
		}
		return true
	}

	if eff := effective(); !c30Equal(eff, init) {
		x.Violationf("initial-tags-differ", "configured initial tags %s, in effect %s", c30Show(init), c30Show(eff))
		return
	}
	if !advertisedCheck("start", init) || !reloadCheck("start", init, "start") {
		return
	}

	rejected, accepted, both, rejectedWithFile, nearLimit, appliedButFailed := 0, 0, 0, 0, 0, 0
	for i, e := range c.Edits {
		before := effective()
		if e.Restart && c.File {
			// the real next start: stop the agent, start it again on the same file
			if !start() {
				return
			}
			x.Label("restarted")
			if now := effective(); !c30Equal(now, before) {
				x.Violationf("restart-changes-tags", "before edit %d the agent was restarted on its tags file: tags in effect were %s, after the restart %s", i, c30Show(before), c30Show(now))
				return
			}
			if !advertisedCheck(fmt.Sprintf("restart before edit %d", i), before) {
				return
			}
		}
		e.Set = append([]c30KV(nil), e.Set...) // the case itself stays as drawn
		// values asked to "fit": pad the last such value of the edit so that the
		// resulting tags encode to the requested size next to the limit
		for j := len(e.Set) - 1; j >= 0; j-- {
			kv := e.Set[j]
			if kv.Fit == 0 {
				continue
			}
			last := true
			for _, later := range e.Set[j+1:] {
				if later.K == kv.K {
					last = false // a later entry of the same key wins
				}
			}
			if !last {
				continue
			}
			sized := func(pad int) int {
				m := c30Copy(before)
				for _, k := range e.Del {
					delete(m, k)
				}
				for jj, o := range e.Set {
					if jj == j {
						m[o.K] = o.V + strings.Repeat("x", pad)
					} else if o.Fit == 0 || jj > j {
						m[o.K] = o.value()
					} else {
						m[o.K] = o.V
					}
				}
				return c30EncodedSize(m)
			}
			target := c30MetaLimit + kv.Fit - 100
			pad := 0
			for try := 0; try < 4; try++ {
				if d := target - sized(pad); d == 0 {
					break
				} else {
					pad = max(0, pad+d)
				}
			}
			// the entries before j that also asked to fit go unpadded
			for jj := range e.Set {
				if e.Set[jj].Fit != 0 {
					e.Set[jj].Pad, e.Set[jj].Fit = 0, 0
				}
			}
			e.Set[j].Pad = pad
			if sized(pad) == target {
				x.Labelf("fitted-to-limit%+d", min(max(kv.Fit-100, -3), 3))
			}
			break
		}
		set := c30Map(e.Set)
		expected := c30Copy(before)
		for _, k := range e.Del {
			delete(expected, k)
		}
		overlap := false
		for k, v := range set {
			expected[k] = v
			for _, d := range e.Del {
				if d == k {
					overlap = true
				}
			}
		}
		del := e.Del
		if del == nil {
			del = []string{}
		}
		body := map[string]any{"Tags": set, "DeleteTags": del}
		switch e.Rep % 3 {
		case 1: // an empty field is left out
			if len(set) == 0 {
				delete(body, "Tags")
				x.Label("tags-field-absent")
			}
			if len(del) == 0 {
				delete(body, "DeleteTags")
			}
		case 2: // an empty field is an explicit nil
			if len(set) == 0 {
				body["Tags"] = nil
				x.Label("tags-field-nil")
			}
			if len(del) == 0 {
				body["DeleteTags"] = nil
			}
		}
		seq := uint64(10 + i)
		reply, ok := call(seq, hdr("tags", seq), body)
		if !ok {
			return
		}
		after := effective()
		step := fmt.Sprintf("edit %d (set %s, delete %q)", i, c30Show(set), e.Del)
		if overlap {
			both++
		}
		size := c30EncodedSize(expected)
		if size > c30MetaLimit-16 && size <= c30MetaLimit+16 {
			nearLimit++
		}
		outcome := "rejected"
		if reply == "" {
			outcome = "accepted"
			accepted++
			if !c30Equal(after, expected) {
				sig := "edit-result-differs"
				if overlap {
					sig = "edit-result-differs-set-and-delete"
				}
				x.Violationf(sig, "%s accepted: previous %s, expected %s, in effect %s", step, c30Show(before), c30Show(expected), c30Show(after))
				return
			}
			if meta := r.agent.Serf().Memberlist().LocalNode().Meta; len(meta) > c30MetaLimit {
				x.Violationf("oversize-accepted", "%s accepted but the advertised metadata is %d bytes", step, len(meta))
				return
			}
		} else if c.Peer && size >= 0 && size <= c30MetaLimit && c30Equal(after, expected) {
			// Another member is alive and the update broadcast was not confirmed
			// in time: Serf applied the edit and reported a failure. The reply is
			// not judged; the result must be the documented one (it is), and
			// below, as always, the node must advertise and the next start must
			// load exactly the tags now in effect.
			appliedButFailed++
			outcome = "applied-but-reported-failed"
			x.Label("edit-applied-but-reported-failed")
		} else {
			rejected++
			if c.File {
				rejectedWithFile++
			}
			if !c30Equal(after, before) {
				x.Violationf("rejected-edit-changed-tags", "%s answered %q, yet tags went from %s to %s", step, reply, c30Show(before), c30Show(after))
				return
			}
			small := 0
			for k, v := range expected {
				small += len(k) + len(v) + 6
			}
			if c.Peer && size >= 0 && size <= c30MetaLimit {
				// with another member alive an edit may fail for want of a
				// confirmed broadcast; left unapplied (tags unchanged, checked
				// above) that is a legitimate failure
				small = 1 << 20
				size = -1
			}
			if small < 256 {
				x.Violationf("small-edit-rejected", "%s answered %q although the resulting tags %s are tiny", step, reply, c30Show(expected))
				return
			}
			// the only documented ground for refusing an edit is the limit on
			// the encoded tags: a result that fits must be accepted
			if size >= 0 && size <= c30MetaLimit {
				x.Violationf("fitting-edit-rejected", "%s answered %q although the resulting tags %s encode to %d bytes (limit %d)", step, reply, c30Show(expected), size, c30MetaLimit)
				return
			}
		}
		if !advertisedCheck(step+fmt.Sprintf(" answered %q", reply), after) {
			return
		}
		if !reloadCheck(step+fmt.Sprintf(" answered %q", reply), after, outcome) {
			return
		}
	}
	if rejected > 0 {
		x.Label("has-rejected-edit")
	}
	if accepted > 0 {
		x.Label("has-accepted-edit")
	}
	if both > 0 {
		x.Label("key-set-and-deleted")
	}
	if rejectedWithFile > 0 {
		x.Label("rejected-edit-then-reload")
	}
	if nearLimit > 0 {
		x.Label("edit-within-16-bytes-of-the-limit")
	}
	x.NonTrivial(rejectedWithFile > 0 || both > 0)
}

func TestC30(t *testing.T) { vkit.Run(t, "C30", genC30, bodyC30) }
