//go:build verif && verifoverlay

package agentp

import "github.com/hashicorp/serf/cmd/serf/command/agent"

// Built with the "agentlocks" overlay of /verif/overlaygen: the agent
// package's mutexes call a hook before acquiring and after releasing.
func init() { setLockHook = agent.VerifSetLockHook }
