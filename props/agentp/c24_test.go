//go:build verif

package agentp

import (
	"encoding/base64"
	"fmt"
	"strings"
	"testing"
	"time"

	"github.com/hashicorp/serf/serf"
	"pgregory.net/rapid"

	"verif/internal/node"
	"verif/internal/vkit"
)

// C24 — RPC commands take effect only after handshake and authentication.
//
// A case is a session against one agent (with or without an auth key): a list
// of requests, each addressed to one of three logical connection slots. The
// harness keeps, per connection, the model (handshaken, authed) derived only
// from the replies to handshake/auth requests it sent, and checks
//
//   - while the gate is closed (no successful handshake yet, or key configured
//     and the right key not yet accepted): everything the agent writes on that
//     connection is a bare header with a non-empty Error (the only success
//     headers allowed answer a handshake, or an auth that carried the right
//     key); every well-formed rejected command gets such a header; and none of
//     the commands sent in that phase has any effect on the agent (each
//     state-changing request carries a name unique to the request, so effects
//     are attributed exactly);
//   - once the gate is open the same commands do take effect (non-vacuity).
//
// Whether the agent closes the connection after a rejection is not asserted.

type c24Op struct {
	Conn int    `json:"c"`
	Cmd  string `json:"cmd"`
	Var  int    `json:"v,omitempty"` // handshake: version choice; auth: key choice
	Body int    `json:"b,omitempty"` // 0 well-formed 1 scalar 2 missing(+EOF) 3 wrong field types 4 extra Command/Seq keys (smuggled header)
	Smug string `json:"s,omitempty"` // smuggled command for Body 4
	Q    int    `json:"q,omitempty"` // >0: the request carries the special Seq c24SpecialSeqs[Q-1]
}

type c24Case struct {
	Key string `json:"key"`
	Enc bool   `json:"enc,omitempty"` // the agent's Serf has a keyring (key commands really work)
	// SeqBase: request i carries Seq SeqBase+10+2i (the client picks sequence
	// numbers freely; 0, the 32-bit and the sign boundary and the top of the
	// range are the values an implementation might treat specially)
	SeqBase uint64  `json:"seqbase,omitempty"`
	Ops     []c24Op `json:"ops"`
}

var c24Plain = []string{
	"event", "event", "tags", "tags", "join", "query", "stream", "monitor", "stop", "respond",
	"members", "members", "members-filtered", "stats", "stats", "get-coordinate", "list-keys",
	"install-key", "use-key", "remove-key", "force-leave", "leave", "bogus", "",
	"force-leave", "install-key",
}

var c24HandshakeVersions = []int64{1, 0, 2, -1, 1<<31 - 1}

func c24AuthKey(key string, v int) string {
	switch v {
	case 0:
		return key
	case 1:
		return "wrong"
	case 2:
		return ""
	case 3:
		if len(key) > 0 {
			return key[:len(key)-1]
		}
		return "x"
	case 4:
		return key + " "
	case 5:
		return strings.ToUpper(key) + "!"
	case 6: // equal under case folding only
		return c24SwapCase(key)
	case 7:
		return " " + key
	case 8: // proper suffix
		if len(key) > 1 {
			return key[1:]
		}
		return "y"
	case 9: // the key is a suffix of what is presented
		return "x" + key
	case 10:
		return key + key
	case 11: // same length, first byte differs
		if len(key) > 0 {
			return c24Flip(key[:1]) + key[1:]
		}
		return "z"
	case 12: // same length, last byte differs
		if len(key) > 0 {
			return key[:len(key)-1] + c24Flip(key[len(key)-1:])
		}
		return "z"
	case 13:
		return key + "\x00"
	case 14: // same length, a middle byte differs
		if len(key) > 2 {
			return key[:len(key)/2] + c24Flip(key[len(key)/2:len(key)/2+1]) + key[len(key)/2+1:]
		}
		return key + "\t"
	default:
		return strings.TrimSpace(key) + "\n"
	}
}

const c24KeyVariants = 16

var c24SpecialSeqs = []uint64{0, 1, 1<<64 - 1, 1 << 32, 1 << 63}

// with base 2^64-10 the first request carries Seq 0 (the sum wraps)
var c24SeqBases = []uint64{0, 0, 0, 1<<64 - 10, 1<<64 - 9, 1<<32 - 16, 1<<63 - 16, 1<<64 - 80}

func c24SwapCase(s string) string {
	b := []byte(s)
	for i, c := range b {
		switch {
		case c >= 'a' && c <= 'z':
			b[i] = c - 32
		case c >= 'A' && c <= 'Z':
			b[i] = c + 32
		}
	}
	return string(b)
}

// c24Flip maps a one-byte string to another one-byte ASCII string.
func c24Flip(s string) string {
	if s == "#" {
		return "$"
	}
	return "#"
}

// c24Keys: configured keys. Next to plain ones: mixed case with an inner and a
// trailing blank, a blank only, non-ASCII, and one longer than any fixed-size
// digest or buffer a comparison might go through.
var c24Keys = []string{"", "s3cret", "s3cret", "k", "S3cret Key ", " ", "pässwörd", "0123456789abcdef0123456789abcdef0123456789abcdef0123456789abcdefXYZ"}

func genC24(t *rapid.T) c24Case {
	var c c24Case
	c.Key = rapid.SampledFrom(c24Keys).Draw(t, "key")
	c.Enc = rapid.IntRange(0, 2).Draw(t, "enc") == 0
	c.SeqBase = rapid.SampledFrom(c24SeqBases).Draw(t, "seqbase")
	n := rapid.IntRange(3, 24).Draw(t, "n")
	// the generator mirrors the expected connection state only to bias the
	// draw towards sequences that get somewhere; the body never trusts it
	type sim struct{ alive, hs, authed bool }
	var sims [3]sim
	for i := 0; i < n; i++ {
		op := c24Op{Conn: rapid.SampledFrom([]int{0, 0, 0, 1, 1, 2}).Draw(t, "conn")}
		s := &sims[op.Conn]
		if !s.alive {
			*s = sim{alive: true}
		}
		r := rapid.IntRange(0, 99).Draw(t, "kind")
		open := s.hs && (s.authed || c.Key == "")
		isHS, isAuth := false, false
		switch { // rapid favours small r: the most useful action of each state comes first
		case !s.hs:
			isHS, isAuth = r < 66, r >= 66 && r < 74
		case !open:
			isAuth, isHS = r >= 45 && r < 90, r >= 90
		default:
			isAuth, isHS = r >= 86 && r < 94, r >= 94
		}
		switch {
		case isHS:
			op.Cmd = "handshake"
			op.Var = rapid.SampledFrom([]int{0, 0, 0, 0, 0, 0, 0, 0, 0, 0, 1, 2, 3, 4}).Draw(t, "version")
		case isAuth:
			op.Cmd = "auth"
			if c.Key != "" && s.hs && !s.authed {
				op.Var = rapid.SampledFrom([]int{0, 0, 0, 0, 0, 0, 1, 2, 3, 4, 5, 6, 7, 8, 9, 10, 11, 12, 13, 14, 15}).Draw(t, "keyvar")
			} else {
				op.Var = rapid.IntRange(0, c24KeyVariants-1).Draw(t, "keyvar")
			}
		default:
			op.Cmd = rapid.SampledFrom(c24Plain).Draw(t, "cmd")
			if op.Cmd == "leave" && rapid.IntRange(0, 2).Draw(t, "keepleave") != 0 {
				op.Cmd = "event"
			}
		}
		op.Body = rapid.SampledFrom([]int{0, 0, 0, 0, 0, 0, 0, 0, 0, 0, 0, 0, 0, 0, 0, 0, 0, 0, 0, 0, 0, 0, 0, 0, 0, 1, 2, 3, 4, 4}).Draw(t, "body")
		if rapid.IntRange(0, 5).Draw(t, "specialseq") == 0 {
			op.Q = rapid.SampledFrom([]int{1, 1, 1, 2, 3, 4, 5}).Draw(t, "seqchoice")
		}
		if op.Body == 4 {
			op.Smug = rapid.SampledFrom([]string{"leave", "leave", "members", "stats", "tags", "event"}).Draw(t, "smug")
		}
		c.Ops = append(c.Ops, op)
		// advance the bias model
		switch {
		case op.Body != 0:
			s.alive = false
		case op.Cmd == "handshake":
			if op.Var == 0 {
				s.hs = true
				if c.Key == "" {
					s.authed = true
				}
			}
		case !s.hs:
			s.alive = false
		case op.Cmd == "auth":
			if op.Var == 0 {
				s.authed = true
			}
		case op.Cmd == "bogus" || op.Cmd == "":
			if s.authed {
				s.alive = false
			}
		}
	}
	return c
}

const (
	c24ReplyWait = 6 * time.Second
	c24Junk      = "junk"
)

func c24JunkBody() map[string]any {
	return map[string]any{"Version": c24Junk, "AuthKey": 7, "Name": 7, "Node": 7, "Existing": c24Junk,
		"Tags": c24Junk, "Key": 7, "LogLevel": 7, "Type": 7, "Stop": c24Junk, "ID": c24Junk, "Timeout": c24Junk}
}

// c24Smug: handshake/auth would read the *next* request as their body when the
// agent takes the smuggled keys for a request; only body-less interpretations
// keep the framing defined.
func c24Smug(s string) string {
	switch s {
	case "leave", "members", "stats", "tags", "event":
		return s
	}
	return "leave"
}

// presentsRightKey: the request is an auth whose body carries the configured key.
func (s *c24Session) presentsRightKey(op c24Op) bool {
	return op.Cmd == "auth" && s.key != "" && (op.Body == 0 || op.Body == 4) && c24AuthKey(s.key, op.Var) == s.key
}

// c24Sent is what the harness remembers about one request it wrote.
type c24Sent struct {
	idx      int
	op       c24Op
	seq      uint64
	gated    bool   // model gate closed when the request was written
	preHS    bool   // ... because no handshake yet
	effect   string // "event:<name>", "tags:<key>", "join:<addr>", "query:<name>", "leave", ""
	wellBody bool
	smuggled bool
	replied  bool
	replyErr string
	gotBody  bool
}

type c24Conn struct {
	c      *rawClient
	hs     bool
	authed bool
	fresh  bool
	dead   bool
	lastOK bool // the last reply read on this connection was a success header
	log    []string
}

type c24Session struct {
	x      *vkit.Ctx
	key    string
	r      *rig
	conns  [3]*c24Conn
	sent   []*c24Sent
	all    []*c24Conn
	ghosts map[string]bool

	seqBase uint64
	usedSeq map[uint64]bool
}

func (s *c24Session) gateClosed(cn *c24Conn) bool {
	return !cn.hs || (s.key != "" && !cn.authed)
}

func c24StateChanging(cmd string) bool {
	switch cmd {
	case "event", "tags", "join", "query", "leave":
		return true
	}
	return false
}

// c24Request builds the values to write for an op.
func (s *c24Session) request(i int, op c24Op) (vals []any, snt *c24Sent) {
	// Sequence numbers stay unique within the session: the agent answers a
	// rejected command that has a body twice with the same Seq (it takes the
	// unread body for one more request of the same kind), so a Seq used twice
	// could pair a request with a stale reply.
	seq := s.seqBase + uint64(10+2*i)
	if op.Q > 0 {
		if sp := c24SpecialSeqs[(op.Q-1)%len(c24SpecialSeqs)]; !s.usedSeq[sp] && !s.usedSeq[sp+1] {
			seq = sp
		}
	}
	for s.usedSeq[seq] || s.usedSeq[seq+1] {
		seq ^= 1 << 40
		seq += 2
	}
	s.usedSeq[seq], s.usedSeq[seq+1] = true, true
	snt = &c24Sent{idx: i, op: op, seq: seq}
	var body map[string]any
	switch op.Cmd {
	case "handshake":
		body = map[string]any{"Version": c24HandshakeVersions[op.Var%len(c24HandshakeVersions)]}
	case "auth":
		body = map[string]any{"AuthKey": c24AuthKey(s.key, op.Var)}
	case "event":
		name := fmt.Sprintf("ev%d", i)
		body = map[string]any{"Name": name, "Payload": []byte("p"), "Coalesce": false}
		snt.effect = "event:" + name
	case "tags":
		k := fmt.Sprintf("t%d", i)
		body = map[string]any{"Tags": map[string]string{k: "1"}, "DeleteTags": []string{}}
		snt.effect = "tags:" + k
	case "join":
		addr := fmt.Sprintf("127.200.%d.1:7946", i+1)
		body = map[string]any{"Existing": []string{addr}, "Replay": false}
		snt.effect = "join:" + addr
	case "query":
		name := fmt.Sprintf("q%d", i)
		body = map[string]any{"Name": name, "Payload": []byte("p"), "RequestAck": true, "Timeout": int64(2 * time.Millisecond)}
		snt.effect = "query:" + name
	case "leave":
		snt.effect = "leave"
	case "stream":
		body = map[string]any{"Type": "*"}
	case "monitor":
		body = map[string]any{"LogLevel": "debug"}
	case "stop":
		body = map[string]any{"Stop": uint64(9999)}
	case "respond":
		body = map[string]any{"ID": uint64(1), "Payload": []byte("r")}
	case "members-filtered":
		body = map[string]any{"Tags": map[string]string{}, "Status": "", "Name": ".*"}
	case "get-coordinate":
		body = map[string]any{"Node": "agent0"}
	case "install-key":
		// a key unique to the request; it lands in the keyring only when the
		// agent runs with encryption (c.Enc), otherwise the command fails
		k := base64.StdEncoding.EncodeToString([]byte(fmt.Sprintf("c24-key-%08d", i)))
		body = map[string]any{"Key": k}
		snt.effect = "key:" + k
	case "use-key", "remove-key":
		body = map[string]any{"Key": "AAAAAAAAAAAAAAAAAAAAAA=="}
	case "force-leave":
		// the target is a member the agent holds as failed (created here, by
		// playing memberlist): an effective force-leave turns it into "left"
		name := fmt.Sprintf("ghost%d", i)
		s.makeFailed(name, i)
		body = map[string]any{"Node": name, "Prune": false}
		snt.effect = "fleave:" + name
	}
	vals = []any{hdr(op.Cmd, seq)}
	snt.wellBody = op.Body == 0 || op.Body == 4
	if body == nil {
		// a command without a body: the header alone is the whole, well-formed
		// request; whatever follows it is a separate (garbage) value. A map with
		// Command/Seq keys would be a genuine second request, so none is sent.
		snt.wellBody = true
		snt.smuggled = false
		switch op.Body {
		case 1:
			vals = append(vals, 7)
		case 3:
			vals = append(vals, c24JunkBody())
		}
		return vals, snt
	}
	switch op.Body {
	case 0:
		vals = append(vals, body)
	case 1:
		vals = append(vals, 7)
		snt.effect = ""
	case 2:
		snt.effect = ""
	case 3:
		vals = append(vals, c24JunkBody())
		snt.effect = ""
	case 4:
		body["Command"] = c24Smug(op.Smug)
		body["Seq"] = seq + 1
		vals = append(vals, body)
		snt.smuggled = true
	}
	return vals, snt
}

// makeFailed makes the agent's Serf hold a member of that name as failed.
func (s *c24Session) makeFailed(name string, i int) {
	if s.ghosts[name] {
		return
	}
	s.ghosts[name] = true
	ed := s.r.agent.Serf().VerifEventDelegate()
	n := node.MLNode(name, fmt.Sprintf("10.9.%d.%d", i/200, 1+i%200), 7946, nil, 5, 5)
	ed.NotifyJoin(n)
	ed.NotifyLeave(n)
}

func (s *c24Session) dial(slot int) *c24Conn {
	c, err := dialRaw(s.r.addr())
	if err != nil {
		return nil
	}
	cn := &c24Conn{c: c, fresh: true}
	s.conns[slot] = cn
	s.all = append(s.all, cn)
	return cn
}

// consume applies the gate rules to one value read from cn. cur is the
// request being awaited (nil while draining). Returns false after a violation.
func (s *c24Session) consume(cn *c24Conn, v wireVal, cur *c24Sent) bool {
	cn.log = append(cn.log, v.String())
	if !s.gateClosed(cn) {
		return true
	}
	phase := "auth"
	if !cn.hs {
		phase = "handshake"
	}
	if !v.IsHdr {
		s.x.Violationf("data-before-"+phase, "connection sent a non-header value before %s: %v (transcript: %v)", phase, v, cn.log)
		return false
	}
	if v.Err != "" {
		return true
	}
	// a success header while the gate is closed
	if cur != nil && v.Seq == cur.seq && !cur.replied {
		if cur.op.Cmd == "handshake" {
			return true
		}
		if cur.op.Cmd == "auth" {
			if s.key != "" && !s.presentsRightKey(cur.op) {
				s.x.Violationf("wrong-key-accepted", "op %d: auth with key %q/body variant %d (configured %q) got a success reply", cur.idx, c24AuthKey(s.key, cur.op.Var), cur.op.Body, s.key)
				return false
			}
			if cn.hs {
				return true
			}
		}
	}
	s.x.Violationf("success-reply-before-"+phase, "connection got a success header %v before %s (awaiting %+v; transcript %v)", v, phase, cur, cn.log)
	return false
}

// await reads until the first header carrying snt.seq. ok=false: violation
// recorded or case inconclusive. closed=true: the connection ended first.
func (s *c24Session) await(cn *c24Conn, snt *c24Sent, mon *vkit.Monitor) (ok, closed bool) {
	for {
		v, got, cl := cn.c.next(c24ReplyWait)
		if cl {
			cn.dead = true
			return true, true
		}
		if !got {
			if s.gateClosed(cn) && snt.wellBody && snt.op.Cmd != "handshake" && snt.op.Cmd != "auth" && mon.MaxGap() < time.Second {
				s.x.Violationf("no-error-reply", "op %d (%s) sent while the gate was closed got no reply within %v and the connection stayed open (transcript %v)", snt.idx, snt.op.Cmd, c24ReplyWait, cn.log)
				return false, false
			}
			s.x.Inconclusive("no reply within the wait window")
			return false, false
		}
		if !s.consume(cn, v, snt) {
			return false, false
		}
		if v.IsHdr && v.Seq == snt.seq {
			snt.replied = true
			snt.replyErr = v.Err
			return true, false
		}
	}
}

func bodyC24(c c24Case, x *vkit.Ctx) {
	ro := rigOpts{AuthKey: c.Key, Loopback: true}
	if c.Enc {
		ro.Keyring = []byte("c24-primary-key!")
		x.Label("keyring")
	}
	r, err := newRig(ro)
	if err != nil {
		x.Inconclusive("rig: " + err.Error())
		return
	}
	defer r.close()
	mon := vkit.StartMonitor()
	defer mon.Stop()
	s := &c24Session{x: x, key: c.Key, r: r, ghosts: map[string]bool{}, seqBase: c.SeqBase, usedSeq: map[uint64]bool{}}
	defer func() {
		for _, cn := range s.all {
			cn.c.close()
		}
	}()
	if c.Key == "" {
		x.Label("no-key")
	} else {
		x.Label("with-key")
	}
	agentLeft := false
	rejectedPre, effectivePost := 0, 0
	rejHS, rejAuth := 0, 0

	for i, op := range c.Ops {
		if agentLeft {
			break
		}
		for attempt := 0; attempt < 2; attempt++ {
			cn := s.conns[op.Conn]
			if cn == nil || cn.dead {
				if cn = s.dial(op.Conn); cn == nil {
					x.Inconclusive("dial failed")
					return
				}
			}
			vals, snt := s.request(i, op)
			snt.gated = s.gateClosed(cn)
			snt.preHS = !cn.hs
			first := cn.fresh
			cn.fresh = false
			cn.log = append(cn.log, fmt.Sprintf("> %s#%d/b%d", op.Cmd, snt.seq, op.Body))
			s.sent = append(s.sent, snt)
			if err := cn.c.send(vals...); err != nil {
				cn.dead = true
				if !first {
					x.Label("redial")
					continue
				}
				x.Inconclusive("write on a fresh connection failed")
				return
			}
			if op.Body == 2 {
				cn.c.closeWrite()
			}
			ok, closed := s.await(cn, snt, mon)
			if !ok {
				return
			}
			if closed && !snt.replied {
				owed := snt.gated && op.Body == 0 && op.Cmd != "handshake" && op.Cmd != "auth"
				if !first && !(owed && cn.lastOK) {
					// the agent had closed the connection before reading this
					// request (closure is not asserted): try once on a fresh one
					x.Label("redial")
					continue
				}
				// Either the first request on the connection, or the last thing
				// the agent said on it was a success reply (a handshake it
				// accepted, say): nothing was rejected there, so the agent had
				// no reason to hang up before reading this request. It read it,
				// refused it (nothing else explains the closure) and owes the
				// error reply.
				if owed && !first {
					x.Label("closed-after-success")
				}
				if owed {
					if isReset(cn.c.readErr) {
						x.Inconclusive("connection reset before the reply could be read")
						return
					}
					x.Violationf("no-error-reply", "op %d (%s): sent while the gate was closed (first request on the connection: %v; otherwise right after a success reply), connection closed without any error reply (transcript %v)", i, op.Cmd, first, cn.log)
					return
				}
			}
			// model transitions and per-reply checks
			if snt.replied {
				cn.lastOK = snt.replyErr == ""
				switch {
				case op.Cmd == "handshake":
					if snt.replyErr == "" {
						cn.hs = true
						x.Label("handshake-ok")
					} else {
						x.Label("handshake-refused")
					}
				case op.Cmd == "auth":
					right := s.presentsRightKey(op)
					switch {
					case snt.preHS:
						x.Label("auth-before-handshake")
					case right && snt.replyErr == "":
						cn.authed = true
						x.Label("auth-ok")
					case right && op.Body == 0 && snt.replyErr != "":
						x.Violationf("right-key-rejected", "op %d: auth with the configured key after a handshake was refused: %q", i, snt.replyErr)
						return
					case c.Key != "":
						x.Label("auth-wrong-key")
					}
				case snt.gated:
					// consume() has verified it is an error header
					if c24StateChanging(op.Cmd) && snt.wellBody {
						rejectedPre++
					}
					if snt.preHS {
						rejHS++
					} else {
						rejAuth++
					}
				default:
					// gate open: the command must work
					if snt.wellBody && op.Body == 0 {
						switch op.Cmd {
						case "event", "tags", "members", "stats", "stop", "stream", "query":
							if snt.replyErr != "" {
								x.Violationf("refused-after-gate-open", "op %d (%s) after handshake%s was refused: %q", i, op.Cmd, map[bool]string{true: "+auth"}[c.Key != ""], snt.replyErr)
								return
							}
						}
						if op.Cmd == "members" || op.Cmd == "stats" {
							v, got, _ := cn.c.next(c24ReplyWait)
							if got {
								cn.log = append(cn.log, v.String())
							}
							if !got || v.IsHdr {
								x.Violationf("no-data-after-gate-open", "op %d (%s) after the gate opened: header not followed by a body (got %v)", i, op.Cmd, v)
								return
							}
						}
					}
					if op.Cmd == "leave" && snt.wellBody {
						agentLeft = true
						x.Label("leave-effective")
					}
				}
			}
			if snt.smuggled {
				x.Label("smuggled-header")
				// the extra keys may have been read as a request of their own
				s.sent = append(s.sent, &c24Sent{idx: i, op: c24Op{Cmd: c24Smug(op.Smug)}, seq: snt.seq + 1, gated: snt.gated, preHS: snt.preHS,
					effect: map[bool]string{true: "leave"}[c24Smug(op.Smug) == "leave"]})
			}
			if op.Body != 0 && !agentLeft {
				x.Labelf("body-variant-%d", op.Body)
				// framing after a malformed body is not defined: drain what
				// the agent still says (gate rules apply) and drop the connection
				for !cn.dead {
					v, got, cl := cn.c.next(20 * time.Millisecond)
					if cl || !got {
						break
					}
					if !s.consume(cn, v, nil) {
						return
					}
				}
				cn.c.close()
				cn.dead = true
			}
			break
		}
	}

	// ---- end of session: let everything the agent did become visible
	if !agentLeft {
		if st := r.agent.Serf().State(); st != serf.SerfAlive {
			for _, snt := range s.sent {
				if snt.effect == "leave" && snt.gated {
					x.Violationf("leave-before-gate", "a leave request (op %d, seq %d) sent while the gate was closed took effect: serf state %v", snt.idx, snt.seq, st)
					return
				}
			}
			x.Inconclusive("serf not alive although no leave was issued")
			return
		}
		if err := r.agent.UserEvent("zz-sentinel", nil, false); err != nil {
			x.Inconclusive("sentinel event failed: " + err.Error())
			return
		}
		if !r.rec.waitFor(5*time.Second, func(ev []serf.Event) bool { return sawUser(ev, "zz-sentinel") }) {
			x.Inconclusive("sentinel event not dispatched in time")
			return
		}
	}
	time.Sleep(5 * time.Millisecond)
	for _, cn := range s.all {
		for !cn.dead {
			v, got, cl := cn.c.next(0)
			if cl || !got {
				break
			}
			if !s.consume(cn, v, nil) {
				return
			}
		}
	}

	evs := r.rec.snapshot()
	tags := r.agent.Serf().LocalMember().Tags
	ctags := r.agent.SerfConfig().Tags
	dials := map[string]bool{}
	for _, d := range r.nw.Dials() {
		dials[d.To] = true
	}
	ring := map[string]bool{}
	if kr := r.conf.MemberlistConfig.Keyring; kr != nil {
		for _, k := range kr.GetKeys() {
			ring[base64.StdEncoding.EncodeToString(k)] = true
		}
	}
	gone := map[string]bool{} // members the agent holds as leaving / left
	for _, m := range r.agent.Serf().Members() {
		if m.Status == serf.StatusLeft || m.Status == serf.StatusLeaving {
			gone[m.Name] = true
		}
	}
	leaveGated, leaveOpen := false, false
	for _, snt := range s.sent {
		kind, arg, _ := strings.Cut(snt.effect, ":")
		if kind == "" {
			continue
		}
		seen := false
		switch kind {
		case "event":
			seen = sawUser(evs, arg)
		case "tags":
			_, a := tags[arg]
			_, b := ctags[arg]
			seen = a || b
		case "join":
			seen = dials[arg]
		case "query":
			seen = sawQuery(evs, arg) != nil
		case "key":
			seen = ring[arg]
		case "fleave":
			seen = gone[arg]
		case "leave":
			if snt.gated {
				leaveGated = true
			} else if snt.replied {
				leaveOpen = true
			}
			continue
		}
		if snt.gated && seen {
			ph := "auth"
			if snt.preHS {
				ph = "handshake"
			}
			x.Violationf("effect-before-"+ph, "op %d (%s, seq %d) was sent before %s completed on its connection, yet its effect %q is visible on the agent", snt.idx, snt.op.Cmd, snt.seq, ph, snt.effect)
			return
		}
		if !snt.gated && snt.replied && snt.replyErr == "" && !agentLeft {
			if !seen {
				x.Violationf("no-effect-after-gate-open", "op %d (%s) got a success reply after the gate opened but its effect %q is not visible", snt.idx, snt.op.Cmd, snt.effect)
				return
			}
			effectivePost++
			x.Label("effective-after-gate:" + kind)
		}
	}
	st := r.agent.Serf().State()
	if leaveGated && !leaveOpen && st != serf.SerfAlive {
		x.Violationf("leave-before-gate", "a leave request sent while the gate was closed took effect: serf state %v", st)
		return
	}
	if leaveOpen && st == serf.SerfAlive {
		x.Violationf("no-effect-after-gate-open", "leave got a reply after the gate opened but serf is still alive")
		return
	}

	if rejHS > 0 {
		x.Label("rejected-before-handshake")
	}
	if rejAuth > 0 {
		x.Label("rejected-before-auth")
	}
	if effectivePost > 0 {
		x.Label("effective-after-gate")
	}
	x.Labelf("connections=%d", min(len(s.all), 6))
	x.NonTrivial(rejectedPre >= 1 && effectivePost >= 1)
}

func TestC24(t *testing.T) { vkit.Run(t, "C24", genC24, bodyC24) }
