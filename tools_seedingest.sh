#!/bin/bash
# tools_seedingest.sh <ID-n> ...   ingest /tmp/seeds/<ID-n> into /verif/seeded/<ID-n>, verify it, write meta.json
cd /verif
for s in "$@"; do
  src=/tmp/seeds/$s; id=${s%-*}
  [ -f $src/patch.diff ] || { echo "$s: no patch"; continue; }
  dst=seeded/$s; mkdir -p $dst
  cp $src/patch.diff $dst/; cp $src/demo_test.go $dst/ 2>/dev/null; cp $src/demo_path.txt $dst/ 2>/dev/null; cp $src/notes.md $dst/ 2>/dev/null
  ./tools_seedverify.sh $dst $id quick > $dst/verify.log 2>&1
  python3 - "$s" "$id" "$dst" <<'PY'
import sys,json,re,os
s,pid,dst=sys.argv[1:4]
log=open(os.path.join(dst,'verify.log')).read()
m=re.search(r'^(demo\S*=.*)$',log,re.M)
flags=dict(kv.split('=',1) for kv in (m.group(1).split() if m else []))
ce=re.search(r'check-exit=(\d+)',log)
notes=open(os.path.join(dst,'notes.md')).read() if os.path.exists(os.path.join(dst,'notes.md')) else ''
first=[l for l in notes.splitlines() if l.strip()]
meta={"seed":s,"breaks_property":pid,"title":first[0].lstrip('# ').strip() if first else "",
 "needs_to_manifest":"see notes.md","verified":flags,
 "ran":["tools_seedverify.sh: demo without/with the change in a scratch worktree, go build/vet, the affected package's own tests (up to 3 tries, timing-sensitive under load), ./check %s quick against the change through go -overlay"%pid],
 "check_exit":int(ce.group(1)) if ce else None,
 "caught_by":("./check %s quick"%pid) if ce and ce.group(1)=='1' else None}
json.dump(meta,open(os.path.join(dst,'meta.json'),'w'),indent=1)
print(s, flags, "check-exit", meta["check_exit"])
PY
done
