#!/bin/bash
# runseed.sh <seed-dir> <ID> [tier]  : run ./check ID against the seed's patch via overlay
seed="$(cd "$1" && pwd)"; id="$2"; tier="${3:-quick}"
wt=/tmp/wt-rs-$$
git -C /repo worktree add -q --detach "$wt" HEAD || exit 2
trap 'git -C /repo worktree remove --force "$wt" >/dev/null 2>&1; rm -rf "$wt"' EXIT
(cd "$wt" && git apply "$seed/patch.diff") || exit 2
changed=$(cd "$wt" && git diff --name-only)
ov=$(mktemp /tmp/seedov.XXXXXX.json)
python3 - "$wt" "$ov" $changed <<'PY'
import json,sys,shutil,os,tempfile
wt,ov=sys.argv[1],sys.argv[2]
d=tempfile.mkdtemp(prefix="seedfiles.")
rep={}
for f in sys.argv[3:]:
    dst=os.path.join(d,f.replace("/","__")); shutil.copyfile(os.path.join(wt,f),dst); rep["/repo/"+f]=dst
json.dump({"Replace":rep},open(ov,"w"))
PY
cd /verif && VERIF_MUTANT_OVERLAY="$ov" ./check "$id" "$tier" 2>&1 | grep -v "^KNOWN" | grep -E "^\[|VIOLATION|quick:|thorough:|INFRA|crash|BUILD" | head -4 | cut -c1-400
echo "check-exit=${PIPESTATUS[0]}"
