#!/usr/bin/env python3
"""Generate MANIFEST.json from checks.json (single source of truth)."""
import json, os, subprocess
root = os.path.dirname(os.path.abspath(__file__))
c = json.load(open(os.path.join(root, "checks.json")))
import glob
c["properties"] = {os.path.basename(f)[:-5]: json.load(open(f)) for f in glob.glob(os.path.join(root, "checks.d", "*.json"))}
allprops = [json.loads(l)["id"] for l in open(os.path.join(root, "properties.jsonl"))]
hook_commits = c.get("hook_commits", [])
checks = []
for pid in sorted(c["properties"]):
    s = c["properties"][pid]
    checks.append({
        "property_id": pid,
        "quick_cmd": "./check %s quick" % pid,
        "thorough_cmd": "./check %s thorough" % pid,
        "evidence_file": "/verif/evidence/%s.json" % pid,
        "replay_cmd_template": "./check %s --replay {path}" % pid,
        "engine": s["pkg"],
        "level_claimed": {"category": s["level"], "text": s["level_text"], "design_ref": "DESIGN.md section 4, " + pid},
        "level_note": "; ".join(s.get("assumptions", [])) or "none beyond the harness itself",
        "technique": s["technique"],
    })
na = [{"property_id": p, "reason": c.get("not_applicable", {}).get(p, "check not built yet in this session")} for p in allprops if p not in c["properties"]]
m = {
    "version": 1,
    "setup_cmd": "./check --setup",
    "hooks": {
        "guard": "verif",
        "enable": "go build tag: every check builds /repo with -tags verif (go test -c -tags verif ...), through the replace directive in /verif/go.mod",
        "baseline_off_cmd": c["baseline_off_cmd"],
        "source_commits": hook_commits,
        "add_only": True,
    },
    "engines": [{"name": k, "path": "props/" + k, "serves_properties": sorted(p for p, s in c["properties"].items() if s["pkg"] == k), "kind_free_text": v.get("kind", "rapid property tests")} for k, v in c["packages"].items() if any(s["pkg"] == k for s in c["properties"].values())],
    "checks": checks,
    "notes": c.get("notes", ""),
    "not_applicable": na,
}
json.dump(m, open(os.path.join(root, "MANIFEST.json"), "w"), indent=1)
print("MANIFEST.json: %d checks, %d not claimed" % (len(checks), len(na)))
