// overlaygen produces the `go build -overlay` used by the snapshot and Lamport
// checks. It parses the *current* sources of /repo (so a change to them is
// picked up by the next check run), rewrites nothing but the identifiers that
// name file-system and time entry points (mode snapshot) or inserts yield
// points before atomic operations (mode lamport), and adds a shim file to
// package serf. No logic is touched. If it meets a file-system or time call it
// does not know, it refuses (exit 2) rather than guess.
package main

import (
	"bytes"
	"encoding/json"
	"flag"
	"fmt"
	"go/ast"
	"go/format"
	"go/parser"
	"go/token"
	"os"
	"path/filepath"
	"sort"
	"strings"
)

// srcOverride maps a repo path to the file whose content is read instead.
var srcOverride = map[string]string{}

func readPath(p string) string {
	if o, ok := srcOverride[p]; ok {
		return o
	}
	return p
}

func die(f string, a ...any) {
	fmt.Fprintf(os.Stderr, "overlaygen: "+f+"\n", a...)
	os.Exit(2)
}

func main() {
	repo := flag.String("repo", "/repo", "serf checkout")
	out := flag.String("out", "", "output directory")
	mode := flag.String("mode", "snapshot", "snapshot|lamport|locks|clientlocks|agentlocks")
	mutant := flag.String("mutant", "", "optional overlay.json whose replacements are read instead of the repo files (sensitivity trials)")
	flag.Parse()
	if *mutant != "" {
		b, err := os.ReadFile(*mutant)
		if err != nil {
			die("%v", err)
		}
		var m struct{ Replace map[string]string }
		if err := json.Unmarshal(b, &m); err != nil {
			die("%v", err)
		}
		srcOverride = m.Replace
	}
	if *out == "" {
		die("-out required")
	}
	if err := os.MkdirAll(*out, 0o755); err != nil {
		die("%v", err)
	}
	replace := map[string]string{}
	switch *mode {
	case "snapshot":
		src := filepath.Join(*repo, "serf", "snapshot.go")
		dst := filepath.Join(*out, "snapshot.go")
		stats := rewriteSnapshot(src, dst)
		replace[src] = dst
		shim := filepath.Join(*out, "verif_shim_snapshot.go")
		if err := os.WriteFile(shim, []byte(snapshotShim), 0o644); err != nil {
			die("%v", err)
		}
		replace[filepath.Join(*repo, "serf", "verif_shim_snapshot.go")] = shim
		fmt.Printf("snapshot.go rewritten: %s\n", stats)
	case "lamport":
		src := filepath.Join(*repo, "serf", "lamport.go")
		dst := filepath.Join(*out, "lamport.go")
		n := rewriteLamport(src, dst)
		replace[src] = dst
		shim := filepath.Join(*out, "verif_shim_lamport.go")
		if err := os.WriteFile(shim, []byte(lamportShim), 0o644); err != nil {
			die("%v", err)
		}
		replace[filepath.Join(*repo, "serf", "verif_shim_lamport.go")] = shim
		fmt.Printf("lamport.go: %d uses of sync/atomic redirected to yielding wrappers\n", n)
	case "locks", "clientlocks", "agentlocks":
		dir, pkgName, files := "serf", "serf", []string{"serf.go", "query.go", "event.go"}
		switch *mode {
		case "clientlocks":
			dir, pkgName, files = "client", "client", []string{"rpc_client.go"}
		case "agentlocks":
			dir, pkgName = filepath.Join("cmd", "serf", "command", "agent"), "agent"
			files = []string{"agent.go", "event_handler.go", "gated_writer.go", "ipc.go", "ipc_event_stream.go", "log_writer.go"}
		}
		total := 0
		for _, name := range files {
			src := filepath.Join(*repo, dir, name)
			dst := filepath.Join(*out, name)
			k := rewriteLocks(src, dst)
			if k > 0 {
				replace[src] = dst
			}
			total += k
		}
		if total == 0 {
			die("no sync.Mutex/sync.RWMutex found; refusing to produce a vacuous overlay")
		}
		shim := filepath.Join(*out, "verif_shim_locks.go")
		if err := os.WriteFile(shim, []byte(strings.Replace(locksShim, "package serf\n", "package "+pkgName+"\n", 1)), 0o644); err != nil {
			die("%v", err)
		}
		replace[filepath.Join(*repo, dir, "verif_shim_locks.go")] = shim
		fmt.Printf("%s (%s): %d mutexes replaced by yielding wrappers\n", dir, strings.Join(files, ", "), total)
	default:
		die("unknown mode %q", *mode)
	}
	b, _ := json.MarshalIndent(map[string]any{"Replace": replace}, "", " ")
	if err := os.WriteFile(filepath.Join(*out, "overlay.json"), b, 0o644); err != nil {
		die("%v", err)
	}
}

// ---------------------------------------------------------------- snapshot

// what to do with a selector on package os / time
var osRewrite = map[string]string{ // function → shim function/method
	"OpenFile": "verifFS.OpenFile", "Remove": "verifFS.Remove", "Rename": "verifFS.Rename",
	"Stat": "verifFS.Stat", "Lstat": "verifFS.Stat", "Truncate": "verifFS.Truncate",
	// composed from the primitives above in the shim
	"Create": "verifCreate", "Open": "verifOpen", "ReadFile": "verifReadFile", "WriteFile": "verifWriteFile",
}
var osKeep = map[string]bool{ // constants / types / errors that are not operations
	"O_RDWR": true, "O_APPEND": true, "O_CREATE": true, "O_TRUNC": true, "O_RDONLY": true, "O_WRONLY": true,
	"O_EXCL": true, "O_SYNC": true, "FileMode": true, "FileInfo": true, "ErrNotExist": true, "ErrInvalid": true,
	"ErrExist": true, "IsNotExist": true, "IsExist": true, "ModePerm": true, "PathSeparator": true,
}
var timeRewrite = map[string]string{"Now": "Now", "NewTicker": "NewTicker", "After": "After", "Since": "Since"}
var timeKeep = map[string]bool{
	"Time": true, "Duration": true, "Nanosecond": true, "Microsecond": true, "Millisecond": true,
	"Second": true, "Minute": true, "Hour": true,
}

func rewriteSnapshot(src, dst string) string {
	fset := token.NewFileSet()
	f, err := parser.ParseFile(fset, readPath(src), nil, parser.ParseComments)
	if err != nil {
		die("parse %s: %v", src, err)
	}
	// make sure "os" and "time" are imported under their own names
	for _, im := range f.Imports {
		p := strings.Trim(im.Path.Value, `"`)
		if (p == "os" || p == "time") && im.Name != nil {
			die("import %q is renamed; refusing", p)
		}
		switch p {
		case "io/ioutil", "syscall", "io/fs", "path/filepath":
			die("snapshot.go imports %q: unknown file-system surface; refusing", p)
		}
	}
	counts := map[string]int{}
	var bad []string
	replaceWithIdent := map[*ast.SelectorExpr]string{}
	ast.Inspect(f, func(n ast.Node) bool {
		switch x := n.(type) {
		case *ast.StarExpr:
			if sel, ok := x.X.(*ast.SelectorExpr); ok && isPkg(sel.X, "os") && sel.Sel.Name == "File" {
				x.X = ast.NewIdent("VerifFile")
				counts["*os.File"]++
				return false
			}
		case *ast.SelectorExpr:
			if isPkg(x.X, "os") {
				name := x.Sel.Name
				if m, ok := osRewrite[name]; ok {
					if recv, meth, isMethod := strings.Cut(m, "."); isMethod {
						x.X = ast.NewIdent(recv)
						x.Sel = ast.NewIdent(meth)
					} else {
						// a plain shim function: replace the whole selector by an identifier
						replaceWithIdent[x] = m
					}
					counts["os."+name]++
				} else if !osKeep[name] {
					bad = append(bad, fset.Position(x.Pos()).String()+": os."+name)
				}
				return false
			}
			if isPkg(x.X, "time") {
				name := x.Sel.Name
				if m, ok := timeRewrite[name]; ok {
					x.X = ast.NewIdent("verifTime")
					x.Sel = ast.NewIdent(m)
					counts["time."+name]++
				} else if !timeKeep[name] {
					bad = append(bad, fset.Position(x.Pos()).String()+": time."+name)
				}
				return false
			}
		}
		return true
	})
	// second pass: selectors that become plain identifiers (only call targets occur in practice)
	if len(replaceWithIdent) > 0 {
		ast.Inspect(f, func(n ast.Node) bool {
			if c, ok := n.(*ast.CallExpr); ok {
				if sel, ok := c.Fun.(*ast.SelectorExpr); ok {
					if id, ok := replaceWithIdent[sel]; ok {
						c.Fun = ast.NewIdent(id)
						delete(replaceWithIdent, sel)
					}
				}
			}
			return true
		})
		for sel := range replaceWithIdent {
			bad = append(bad, fset.Position(sel.Pos()).String()+": os."+sel.Sel.Name+" used other than as a call")
		}
	}
	if len(bad) > 0 {
		die("unknown file-system/time calls in snapshot.go (teach overlaygen about them):\n  %s", strings.Join(bad, "\n  "))
	}
	var buf bytes.Buffer
	if err := format.Node(&buf, fset, f); err != nil {
		die("print: %v", err)
	}
	if err := os.WriteFile(dst, buf.Bytes(), 0o644); err != nil {
		die("%v", err)
	}
	var keys []string
	for k := range counts {
		keys = append(keys, k)
	}
	sort.Strings(keys)
	var parts []string
	for _, k := range keys {
		parts = append(parts, fmt.Sprintf("%s×%d", k, counts[k]))
	}
	return strings.Join(parts, " ")
}

func isPkg(e ast.Expr, name string) bool {
	id, ok := e.(*ast.Ident)
	return ok && id.Name == name && id.Obj == nil
}

const snapshotShim = `package serf

// Added through go build -overlay by /verif/overlaygen; not part of the tree.
// File-system and time entry points of snapshot.go go through these
// indirections, which default to the real OS and the real clock.

import (
	"os"
	"time"
)

// VerifFileImpl is what a harness file system hands out.
type VerifFileImpl interface {
	Read(p []byte) (int, error)
	Write(p []byte) (int, error)
	Seek(offset int64, whence int) (int64, error)
	Sync() error
	Close() error
	Stat() (os.FileInfo, error)
	Truncate(size int64) error
	Name() string
}

// VerifFile replaces *os.File. Like *os.File its methods are nil-safe (they
// return os.ErrInvalid on a nil receiver instead of panicking).
type VerifFile struct{ Impl VerifFileImpl }

func (f *VerifFile) Read(p []byte) (int, error) {
	if f == nil {
		return 0, os.ErrInvalid
	}
	return f.Impl.Read(p)
}
func (f *VerifFile) Write(p []byte) (int, error) {
	if f == nil {
		return 0, os.ErrInvalid
	}
	return f.Impl.Write(p)
}
func (f *VerifFile) Seek(o int64, w int) (int64, error) {
	if f == nil {
		return 0, os.ErrInvalid
	}
	return f.Impl.Seek(o, w)
}
func (f *VerifFile) Sync() error {
	if f == nil {
		return os.ErrInvalid
	}
	return f.Impl.Sync()
}
func (f *VerifFile) Close() error {
	if f == nil {
		return os.ErrInvalid
	}
	return f.Impl.Close()
}
func (f *VerifFile) Stat() (os.FileInfo, error) {
	if f == nil {
		return nil, os.ErrInvalid
	}
	return f.Impl.Stat()
}
func (f *VerifFile) Truncate(size int64) error {
	if f == nil {
		return os.ErrInvalid
	}
	return f.Impl.Truncate(size)
}
func (f *VerifFile) WriteString(s string) (int, error) { return f.Write([]byte(s)) }
func (f *VerifFile) Name() string {
	if f == nil {
		return ""
	}
	return f.Impl.Name()
}

// VerifFS is the file-system surface snapshot.go uses.
type VerifFS interface {
	OpenFile(name string, flag int, perm os.FileMode) (*VerifFile, error)
	Remove(name string) error
	Rename(oldpath, newpath string) error
	Stat(name string) (os.FileInfo, error)
	Truncate(name string, size int64) error
}

func verifCreate(name string) (*VerifFile, error) {
	return verifFS.OpenFile(name, os.O_RDWR|os.O_CREATE|os.O_TRUNC, 0666)
}

func verifOpen(name string) (*VerifFile, error) { return verifFS.OpenFile(name, os.O_RDONLY, 0) }

func verifReadFile(name string) ([]byte, error) {
	f, err := verifOpen(name)
	if err != nil {
		return nil, err
	}
	defer f.Close()
	var out []byte
	buf := make([]byte, 4096)
	for {
		n, err := f.Read(buf)
		out = append(out, buf[:n]...)
		if err != nil {
			if err.Error() == "EOF" {
				return out, nil
			}
			return out, err
		}
	}
}

func verifWriteFile(name string, data []byte, perm os.FileMode) error {
	f, err := verifFS.OpenFile(name, os.O_WRONLY|os.O_CREATE|os.O_TRUNC, perm)
	if err != nil {
		return err
	}
	_, err = f.Write(data)
	if cerr := f.Close(); err == nil {
		err = cerr
	}
	return err
}

type verifRealFS struct{}

func (verifRealFS) OpenFile(name string, flag int, perm os.FileMode) (*VerifFile, error) {
	f, err := os.OpenFile(name, flag, perm)
	if err != nil {
		return nil, err
	}
	return &VerifFile{Impl: f}, nil
}
func (verifRealFS) Remove(name string) error                { return os.Remove(name) }
func (verifRealFS) Rename(o, n string) error                { return os.Rename(o, n) }
func (verifRealFS) Stat(name string) (os.FileInfo, error)   { return os.Stat(name) }
func (verifRealFS) Truncate(name string, size int64) error  { return os.Truncate(name, size) }

var verifFS VerifFS = verifRealFS{}

// VerifSetFS installs a harness file system (nil = the real one).
func VerifSetFS(fs VerifFS) {
	if fs == nil {
		fs = verifRealFS{}
	}
	verifFS = fs
}

// VerifTicker replaces *time.Ticker.
type VerifTicker struct {
	C    <-chan time.Time
	stop func()
}

func (t *VerifTicker) Stop() {
	if t.stop != nil {
		t.stop()
	}
}

// VerifClock is the time surface snapshot.go uses.
type VerifClock interface {
	Now() time.Time
	Since(t time.Time) time.Duration
	NewTicker(d time.Duration) *VerifTicker
	After(d time.Duration) <-chan time.Time
}

type verifRealClock struct{}

func (verifRealClock) Now() time.Time                  { return time.Now() }
func (verifRealClock) Since(t time.Time) time.Duration { return time.Since(t) }
func (verifRealClock) NewTicker(d time.Duration) *VerifTicker {
	t := time.NewTicker(d)
	return &VerifTicker{C: t.C, stop: t.Stop}
}
func (verifRealClock) After(d time.Duration) <-chan time.Time { return time.After(d) }

var verifTime VerifClock = verifRealClock{}

// VerifSetClock installs a harness clock (nil = the real one).
func VerifSetClock(c VerifClock) {
	if c == nil {
		c = verifRealClock{}
	}
	verifTime = c
}

// VerifNewTicker lets a harness clock build tickers.
func VerifNewTicker(c <-chan time.Time, stop func()) *VerifTicker {
	return &VerifTicker{C: c, stop: stop}
}
`

// ----------------------------------------------------------------- lamport

func rewriteLamport(src, dst string) int {
	fset := token.NewFileSet()
	f, err := parser.ParseFile(fset, readPath(src), nil, 0)
	if err != nil {
		die("parse %s: %v", src, err)
	}
	// Every atomic operation goes through a wrapper that yields to the harness
	// first. This is done on the *types and functions of sync/atomic* (not on
	// statements), so it does not depend on the shape of the code around them:
	//   atomic.Uint64 (field/var types)        -> verifAtomicUint64
	//   atomic.LoadUint64(&x) etc. (functions) -> verifLoadUint64(&x) etc.
	typeMap := map[string]string{"Uint64": "verifAtomicUint64"}
	funcMap := map[string]string{
		"LoadUint64": "verifLoadUint64", "StoreUint64": "verifStoreUint64", "AddUint64": "verifAddUint64",
		"CompareAndSwapUint64": "verifCompareAndSwapUint64", "SwapUint64": "verifSwapUint64",
	}
	n := 0
	var bad []string
	var rewrite func(e *ast.Expr)
	usesSync := false
	rewrite = func(e *ast.Expr) {
		// a mutex (not in the tree as it is, but an obvious way to change it)
		// becomes a lock that yields to the harness while it is contended
		// instead of blocking the cooperative scheduler
		if sel, ok := (*e).(*ast.SelectorExpr); ok && isPkg(sel.X, "sync") {
			switch sel.Sel.Name {
			case "Mutex":
				*e = ast.NewIdent("verifYieldMutex")
				n++
			case "RWMutex":
				*e = ast.NewIdent("verifYieldRWMutex")
				n++
			}
			return
		}
		if sel, ok := (*e).(*ast.SelectorExpr); ok && isPkg(sel.X, "atomic") {
			if to, ok := typeMap[sel.Sel.Name]; ok {
				*e = ast.NewIdent(to)
				n++
			} else if to, ok := funcMap[sel.Sel.Name]; ok {
				*e = ast.NewIdent(to)
				n++
			} else {
				bad = append(bad, fset.Position(sel.Pos()).String()+": atomic."+sel.Sel.Name)
			}
		}
	}
	ast.Inspect(f, func(node ast.Node) bool {
		switch x := node.(type) {
		case *ast.Field:
			rewrite(&x.Type)
		case *ast.ValueSpec:
			if x.Type != nil {
				rewrite(&x.Type)
			}
		case *ast.CallExpr:
			rewrite(&x.Fun)
		case *ast.StarExpr:
			rewrite(&x.X)
		case *ast.CompositeLit:
			if x.Type != nil {
				rewrite(&x.Type)
			}
		}
		return true
	})
	// anything of sync/atomic left over is something this rewriter does not know
	ast.Inspect(f, func(node ast.Node) bool {
		if sel, ok := node.(*ast.SelectorExpr); ok && isPkg(sel.X, "atomic") {
			bad = append(bad, fset.Position(sel.Pos()).String()+": atomic."+sel.Sel.Name+" (unhandled position)")
		}
		return true
	})
	if len(bad) > 0 {
		die("lamport.go uses sync/atomic in a way overlaygen does not know:\n  %s", strings.Join(bad, "\n  "))
	}
	// drop the now unused import
	for _, d := range f.Decls {
		gd, ok := d.(*ast.GenDecl)
		if !ok || gd.Tok != token.IMPORT {
			continue
		}
		var keep []ast.Spec
		for _, sp := range gd.Specs {
			if is, ok := sp.(*ast.ImportSpec); ok && strings.Trim(is.Path.Value, `"`) == "sync/atomic" {
				continue
			}
			keep = append(keep, sp)
		}
		gd.Specs = keep
	}
	var decls []ast.Decl
	for _, d := range f.Decls {
		if gd, ok := d.(*ast.GenDecl); ok && gd.Tok == token.IMPORT && len(gd.Specs) == 0 {
			continue
		}
		decls = append(decls, d)
	}
	f.Decls = decls
	f.Imports = nil
	for _, d := range f.Decls {
		if gd, ok := d.(*ast.GenDecl); ok && gd.Tok == token.IMPORT {
			for _, sp := range gd.Specs {
				if is, ok := sp.(*ast.ImportSpec); ok && strings.Trim(is.Path.Value, `"`) == "sync" {
					usesSync = true
				}
			}
		}
	}
	var buf bytes.Buffer
	if err := format.Node(&buf, fset, f); err != nil {
		die("print: %v", err)
	}
	if usesSync {
		buf.WriteString("\nvar _ sync.Once\n")
	}
	if err := os.WriteFile(dst, buf.Bytes(), 0o644); err != nil {
		die("%v", err)
	}
	if n == 0 {
		die("no use of sync/atomic found in lamport.go; refusing to produce a vacuous overlay")
	}
	return n
}

const lamportShim = `package serf

// Added through go build -overlay by /verif/overlaygen; not part of the tree.
// lamport.go's uses of sync/atomic are redirected to these wrappers, which
// yield to the harness before every atomic operation and otherwise behave
// exactly like the originals.

import (
	"runtime"
	"sync"
	"sync/atomic"
)

// VerifYieldHook, when set, is called before every atomic operation of
// LamportClock; the harness uses it to own the interleaving.
var VerifYieldHook func()

func verifYield() {
	if h := VerifYieldHook; h != nil {
		h()
	}
}

// VerifLockWaitHook, when set, is called by a goroutine that found a lock of
// LamportClock taken, before it tries again: to the harness that goroutine is
// blocked until somebody else has moved.
var VerifLockWaitHook func()

func verifLockWait() {
	if h := VerifLockWaitHook; h != nil {
		h()
		return
	}
	runtime.Gosched()
}

type verifAtomicUint64 struct{ v atomic.Uint64 }

func (x *verifAtomicUint64) Load() uint64 { verifYield(); return x.v.Load() }
func (x *verifAtomicUint64) Store(n uint64) { verifYield(); x.v.Store(n) }
func (x *verifAtomicUint64) Add(d uint64) uint64 { verifYield(); return x.v.Add(d) }
func (x *verifAtomicUint64) Swap(n uint64) uint64 { verifYield(); return x.v.Swap(n) }
func (x *verifAtomicUint64) CompareAndSwap(o, n uint64) bool {
	verifYield()
	return x.v.CompareAndSwap(o, n)
}

// Locks that yield to the harness while contended (a goroutine blocked in a
// real Lock would stall the cooperative scheduler of the check).
type verifYieldMutex struct{ mu sync.Mutex }

func (m *verifYieldMutex) Lock() {
	verifYield()
	for !m.mu.TryLock() {
		verifLockWait()
	}
}
func (m *verifYieldMutex) Unlock()       { m.mu.Unlock() }
func (m *verifYieldMutex) TryLock() bool { return m.mu.TryLock() }

type verifYieldRWMutex struct{ mu sync.RWMutex }

func (m *verifYieldRWMutex) Lock() {
	verifYield()
	for !m.mu.TryLock() {
		verifLockWait()
	}
}
func (m *verifYieldRWMutex) Unlock() { m.mu.Unlock() }
func (m *verifYieldRWMutex) RLock() {
	verifYield()
	for !m.mu.TryRLock() {
		verifLockWait()
	}
}
func (m *verifYieldRWMutex) RUnlock() { m.mu.RUnlock() }

func verifLoadUint64(p *uint64) uint64        { verifYield(); return atomic.LoadUint64(p) }
func verifStoreUint64(p *uint64, n uint64)     { verifYield(); atomic.StoreUint64(p, n) }
func verifAddUint64(p *uint64, d uint64) uint64 { verifYield(); return atomic.AddUint64(p, d) }
func verifSwapUint64(p *uint64, n uint64) uint64 { verifYield(); return atomic.SwapUint64(p, n) }
func verifCompareAndSwapUint64(p *uint64, o, n uint64) bool {
	verifYield()
	return atomic.CompareAndSwapUint64(p, o, n)
}
`

// ------------------------------------------------------------------- locks

// rewriteLocks replaces the types sync.Mutex and sync.RWMutex of struct fields
// and variables by wrappers with the same method set that call a harness hook
// before acquiring and after releasing. No statement is touched: the code
// locks and unlocks exactly where it did; the hook can only make a goroutine
// slower at those points, which every scheduler is allowed to do.
func rewriteLocks(src, dst string) int {
	fset := token.NewFileSet()
	f, err := parser.ParseFile(fset, readPath(src), nil, parser.ParseComments)
	if err != nil {
		die("parse %s: %v", src, err)
	}
	n := 0
	rewrite := func(e *ast.Expr) {
		if sel, ok := (*e).(*ast.SelectorExpr); ok && isPkg(sel.X, "sync") {
			switch sel.Sel.Name {
			case "Mutex":
				*e = ast.NewIdent("verifMutex")
				n++
			case "RWMutex":
				*e = ast.NewIdent("verifRWMutex")
				n++
			}
		}
	}
	ast.Inspect(f, func(node ast.Node) bool {
		switch x := node.(type) {
		case *ast.Field:
			rewrite(&x.Type)
		case *ast.ValueSpec:
			if x.Type != nil {
				rewrite(&x.Type)
			}
		}
		return true
	})
	// a mutex used in any other position (embedded by pointer, passed as
	// sync.Locker, composite literal ...) is something this rewriter does not know
	var bad []string
	ast.Inspect(f, func(node ast.Node) bool {
		if sel, ok := node.(*ast.SelectorExpr); ok && isPkg(sel.X, "sync") {
			switch sel.Sel.Name {
			case "Mutex", "RWMutex", "Locker", "Cond", "NewCond":
				bad = append(bad, fset.Position(sel.Pos()).String()+": sync."+sel.Sel.Name)
			}
		}
		return true
	})
	if len(bad) > 0 {
		die("%s uses sync locks in a way overlaygen does not know:\n  %s", src, strings.Join(bad, "\n  "))
	}
	if n == 0 {
		return 0
	}
	var buf bytes.Buffer
	if err := format.Node(&buf, fset, f); err != nil {
		die("print: %v", err)
	}
	// keep the sync import used whatever else the file needs it for
	buf.WriteString("\nvar _ sync.Once\n")
	if err := os.WriteFile(dst, buf.Bytes(), 0o644); err != nil {
		die("%v", err)
	}
	return n
}

const locksShim = `package serf

// Added through go build -overlay by /verif/overlaygen; not part of the tree.
// The mutexes of serf.go, query.go and event.go are of these types instead of
// sync.Mutex / sync.RWMutex. They behave exactly like the originals; when the
// harness has set VerifLockHook it is called before every acquire and after
// every release, so that the harness can hold a goroutine back at the points
// where another one may overtake it.

import (
	"sync"
	"sync/atomic"
)

var verifLockHook atomic.Pointer[func(op string)]

// VerifSetLockHook installs (or, with nil, removes) the hook.
func VerifSetLockHook(h func(op string)) {
	if h == nil {
		verifLockHook.Store(nil)
		return
	}
	verifLockHook.Store(&h)
}

func verifLockPoint(op string) {
	if h := verifLockHook.Load(); h != nil {
		(*h)(op)
	}
}

type verifMutex struct{ mu sync.Mutex }

func (m *verifMutex) Lock()         { verifLockPoint("lock"); m.mu.Lock() }
func (m *verifMutex) Unlock()       { m.mu.Unlock(); verifLockPoint("unlock") }
func (m *verifMutex) TryLock() bool { return m.mu.TryLock() }

type verifRWMutex struct{ mu sync.RWMutex }

func (m *verifRWMutex) Lock()    { verifLockPoint("lock"); m.mu.Lock() }
func (m *verifRWMutex) Unlock()  { m.mu.Unlock(); verifLockPoint("unlock") }
func (m *verifRWMutex) RLock()   { verifLockPoint("rlock"); m.mu.RLock() }
func (m *verifRWMutex) RUnlock() { m.mu.RUnlock(); verifLockPoint("runlock") }
`
