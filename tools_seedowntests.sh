#!/bin/bash
# tools_seedowntests.sh <seeded/ID-n> ...  : re-run the affected packages' own tests with the seeded
# change applied, in a private network namespace (serf's tests bind fixed loopback addresses and
# collide with concurrent runs), up to 3 tries; update meta.json.
export GOFLAGS=-mod=mod GOPROXY=off
for seed in "$@"; do
  seed="$(cd "$seed" && pwd)"
  wt=/tmp/wt-own-$$
  git -C /repo worktree add -q --detach "$wt" HEAD || exit 2
  (cd "$wt" && git apply "$seed/patch.diff") || { echo "patch does not apply"; git -C /repo worktree remove --force "$wt"; continue; }
  res=""
  for p in $(cd "$wt" && git diff --name-only | xargs -n1 dirname | sort -u); do
    ok=FAIL; failing=""
    for try in 1 2 3; do
      out=$(cd "$wt" && unshare -n bash -c "ip link set lo up; go test -count=1 ./$p/ 2>&1")
      failing=$(echo "$out" | grep -E "^--- FAIL" | awk '{print $3}' | sort -u | tr '\n' ' ')
      # TestSyslogFilter always fails in this sandbox (no syslog daemon; listed under always_fail in BASELINE.json)
      rest=$(echo "$failing" | tr ' ' '\n' | grep -v -E '^(TestSyslogFilter|TestCommandRun_mDNS)$' | grep -v '^$' | tr '\n' ' ')
      if [ -z "$rest" ]; then ok=PASS; break; fi
    done
    res="$res own-tests[$p]=$ok($failing)"
  done
  git -C /repo worktree remove --force "$wt" >/dev/null 2>&1; rm -rf "$wt"
  echo "$(basename $seed):$res"
  python3 - "$seed" "$res" <<'PY'
import json,sys,re
seed,res=sys.argv[1],sys.argv[2]
m=json.load(open(seed+'/meta.json'))
for k,v in re.findall(r'(own-tests\[[^\]]+\])=(\S+)',res):
    m['verified'][k]=v
m.setdefault('ran',[]).append("tools_seedowntests.sh: the affected packages' own tests with the change applied, in a private network namespace, up to 3 tries")
json.dump(m,open(seed+'/meta.json','w'),indent=1)
PY
done
