#!/bin/bash
# tools_seedrecheck.sh <ID-n> <CHECK-ID> <tier> "<note>" : run a check against a seed again and record it in meta.json
s=$1; id=$2; tier=$3; note="$4"
out=$(./tools_runseed.sh seeded/$s $id $tier 2>&1)
ex=$(echo "$out" | grep -o "check-exit=[0-9]*" | cut -d= -f2)
first=$(echo "$out" | grep -E "^\[|process crashed" | head -1 | cut -c1-200)
python3 - "$s" "$id" "$tier" "$ex" "$note" "$first" <<'PY'
import json,sys
s,cid,tier,ex,note,first=sys.argv[1:7]
p='seeded/%s/meta.json'%s
m=json.load(open(p))
m.setdefault('history',[])
if not m['history']:
    m['history'].append({"check":"%s quick"%m['breaks_property'],"exit":m.get('check_exit'),"note":"first run, before any strengthening"})
m['history'].append({"check":"%s %s"%(cid,tier),"exit":int(ex) if ex else None,"note":note,"first_violation":first})
if ex=='1':
    cb="./check %s %s"%(cid,tier)
    if not m.get('caught_by'):
        m['caught_by']=cb
        m['also']=note
    elif cb not in m['caught_by']:
        m['caught_by']+=", "+cb
json.dump(m,open(p,'w'),indent=1)
print(s,cid,tier,"exit",ex,first[:120])
PY
