#!/bin/bash
# Sensitivity trials without touching /repo:
#   tools_mutant.sh <repo-relative-file> <sed-expression-or-@patchfile> -- ./check C05 quick
# builds the check against a mutated copy of one file through `go -overlay`.
set -e
f="$1"; expr="$2"; shift 2; [ "$1" = "--" ] && shift
d=$(mktemp -d /tmp/mutant.XXXXXX)
cp "/repo/$f" "$d/$(basename $f)"
if [[ "$expr" == @* ]]; then (cd "$d" && patch -s "$(basename $f)" < "${expr:1}"); else sed -i -E "$expr" "$d/$(basename $f)"; fi
if cmp -s "/repo/$f" "$d/$(basename $f)"; then echo "mutation did not change the file" >&2; rm -rf "$d"; exit 3; fi
diff -u "/repo/$f" "$d/$(basename $f)" | head -40 || true
echo "{\"Replace\": {\"/repo/$f\": \"$d/$(basename $f)\"}}" > "$d/overlay.json"
set +e
VERIF_MUTANT_OVERLAY="$d/overlay.json" "$@"
rc=$?
rm -rf "$d"
echo "mutant run exit code: $rc"
exit $rc
