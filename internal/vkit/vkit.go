// Package vkit is the small runtime shared by every property check: it draws a
// JSON-able case with rapid, records what the case looked like (labels,
// non-triviality, digest), applies the known-findings protocol, and leaves a
// summary file that the ./check driver turns into evidence/<ID>.json.
//
// Contract with the driver (environment):
//
//	VERIF_OUT     directory for this process' output files (summary, current case, violation)
//	VERIF_REPLAY  path of a JSON case file: run exactly that case, no generator
//	VERIF_KNOWN   path of known_findings.json (read-only)
//	VERIF_TIER    quick|thorough (informational; budgets come in through -rapid.checks)
package vkit

import (
	"encoding/binary"
	"encoding/json"
	"fmt"
	"hash/fnv"
	"os"
	"path/filepath"
	"sort"
	"strings"
	"sync"
	"testing"
	"time"

	"pgregory.net/rapid"
)

// Ctx is handed to the property body for one case.
type Ctx struct {
	id       string
	labels   map[string]int
	nontriv  bool
	digest   string
	incon    string
	viols    []Violation
	sample   any
	excluded int
}

// Violation is one oracle mismatch.
type Violation struct {
	Signature string `json:"signature"`
	Detail    string `json:"detail"`
}

// Label counts a class this case belongs to (generator-distribution evidence).
func (c *Ctx) Label(l string) { c.labels[l]++ }

// Labelf is Label with formatting.
func (c *Ctx) Labelf(f string, a ...any) { c.labels[fmt.Sprintf(f, a...)]++ }

// NonTrivial marks the case as non-trivial by the property's stated rule.
func (c *Ctx) NonTrivial(b bool) {
	if b {
		c.nontriv = true
	}
}

// Digest overrides the default distinctness digest (hash of the case JSON).
func (c *Ctx) Digest(s string) { c.digest = s }

// Inconclusive drops the case (starved timers etc.); never a violation.
func (c *Ctx) Inconclusive(reason string) { c.incon = reason }

// IsInconclusive reports whether the case was already marked inconclusive.
func (c *Ctx) IsInconclusive() bool { return c.incon != "" }

// Excluded counts a sub-input that was excluded by construction because it is
// a listed known finding.
func (c *Ctx) Excluded() { c.excluded++ }

// Sample overrides what is shown as a sample for this case (default: the case).
func (c *Ctx) Sample(v any) { c.sample = v }

// Violationf records an oracle mismatch with a signature naming the specific
// input class.
func (c *Ctx) Violationf(sig, f string, a ...any) {
	c.viols = append(c.viols, Violation{Signature: sig, Detail: fmt.Sprintf(f, a...)})
}

// Failed reports whether any violation was recorded in this case.
func (c *Ctx) Failed() bool { return len(c.viols) > 0 }

// Shadow returns a fresh context that records into nothing: a body can re-run
// a case in it to see whether a timing-dependent verdict comes out again
// before it reports it.
func (c *Ctx) Shadow() *Ctx { return &Ctx{id: c.id, labels: map[string]int{}} }

// HasViolation reports whether a violation with this signature was recorded.
func (c *Ctx) HasViolation(sig string) bool {
	for _, v := range c.viols {
		if v.Signature == sig {
			return true
		}
	}
	return false
}

type knownFile struct {
	Findings []struct {
		Property  string `json:"property"`
		Status    string `json:"status"` // "known" or "fixed"
		Signature string `json:"signature"`
		What      string `json:"what"`
	} `json:"findings"`
}

type summary struct {
	Property      string            `json:"property"`
	Evaluations   int               `json:"evaluations"`
	NonTrivial    int               `json:"nontrivial"`
	Inconclusive  int               `json:"inconclusive"`
	InconReasons  map[string]int    `json:"inconclusive_reasons"`
	Excluded      int               `json:"excluded"`
	Labels        map[string]int    `json:"labels"`
	Samples       []json.RawMessage `json:"samples"`
	NTSamples     []json.RawMessage `json:"nontrivial_samples"`
	Known         map[string]string `json:"known"` // signature -> detail of first occurrence
	KnownCount    map[string]int    `json:"known_count"`
	Violations    int               `json:"violations"`
	ViolationSigs []string          `json:"violation_sigs"`
	Done          bool              `json:"done"`
	Replayed      bool              `json:"replayed"`
}

type recorder struct {
	mu       sync.Mutex
	id       string
	out      string
	sum      summary
	digests  map[uint64]struct{}
	known    map[string]string // signature -> what
	lastSave time.Time
}

var (
	recMu sync.Mutex
	recs  = map[string]*recorder{}
)

func getRecorder(id string) *recorder {
	recMu.Lock()
	defer recMu.Unlock()
	if r, ok := recs[id]; ok {
		return r
	}
	r := &recorder{id: id, out: os.Getenv("VERIF_OUT"), digests: map[uint64]struct{}{}, known: map[string]string{}}
	r.sum.Property = id
	r.sum.Labels = map[string]int{}
	r.sum.Known = map[string]string{}
	r.sum.KnownCount = map[string]int{}
	r.sum.InconReasons = map[string]int{}
	if p := os.Getenv("VERIF_KNOWN"); p != "" {
		if b, err := os.ReadFile(p); err == nil {
			var kf knownFile
			if json.Unmarshal(b, &kf) == nil {
				for _, f := range kf.Findings {
					if f.Property == id && f.Status == "known" {
						r.known[f.Signature] = f.What
					}
				}
			}
		}
	}
	recs[id] = r
	return r
}

// IsKnown tells a generator/property whether a signature is a listed known
// finding (so that the offending sub-domain can be excluded by construction).
func IsKnown(id, sig string) bool {
	r := getRecorder(id)
	_, ok := r.known[sig]
	return ok
}

func hash64(s string) uint64 {
	h := fnv.New64a()
	h.Write([]byte(s))
	return h.Sum64()
}

func (r *recorder) path(name string) string {
	if r.out == "" {
		return ""
	}
	return filepath.Join(r.out, r.id+"."+name)
}

func (r *recorder) writeCurrent(caseJSON []byte) {
	if p := r.path("current.json"); p != "" {
		_ = os.WriteFile(p, caseJSON, 0o644)
	}
}

func (r *recorder) save(force bool) {
	if r.out == "" {
		return
	}
	if !force && time.Since(r.lastSave) < 2*time.Second {
		return
	}
	r.lastSave = time.Now()
	b, _ := json.Marshal(&r.sum)
	tmp := r.path("summary.json.tmp")
	if os.WriteFile(tmp, b, 0o644) == nil {
		_ = os.Rename(tmp, r.path("summary.json"))
	}
	// digests of non-trivial cases, 8 bytes each
	buf := make([]byte, 0, 8*len(r.digests))
	for d := range r.digests {
		buf = binary.LittleEndian.AppendUint64(buf, d)
	}
	tmp = r.path("digests.bin.tmp")
	if os.WriteFile(tmp, buf, 0o644) == nil {
		_ = os.Rename(tmp, r.path("digests.bin"))
	}
}

const maxSamples = 6

// record folds one finished case into the summary. It returns the violations
// that are NOT known findings.
func (r *recorder) record(c *Ctx, caseJSON []byte) []Violation {
	r.mu.Lock()
	defer r.mu.Unlock()
	if c.incon != "" {
		r.sum.Inconclusive++
		r.sum.InconReasons[c.incon]++
		r.save(false)
		return nil
	}
	r.sum.Evaluations++
	r.sum.Excluded += c.excluded
	for l, n := range c.labels {
		r.sum.Labels[l] += n
	}
	var sample json.RawMessage = caseJSON
	if c.sample != nil {
		if b, err := json.Marshal(c.sample); err == nil {
			sample = b
		}
	}
	if len(sample) > 4000 {
		sample, _ = json.Marshal(string(sample[:4000]) + "…(truncated)")
	}
	if len(r.sum.Samples) < maxSamples/2 {
		r.sum.Samples = append(r.sum.Samples, sample)
	}
	if c.nontriv {
		d := c.digest
		if d == "" {
			d = string(caseJSON)
		}
		h := hash64(d)
		if _, seen := r.digests[h]; !seen {
			r.digests[h] = struct{}{}
			r.sum.NonTrivial = len(r.digests)
			if len(r.sum.NTSamples) < maxSamples {
				r.sum.NTSamples = append(r.sum.NTSamples, sample)
			}
		}
	}
	var fresh []Violation
	for _, v := range c.viols {
		if _, ok := r.known[v.Signature]; ok {
			if _, seen := r.sum.Known[v.Signature]; !seen {
				r.sum.Known[v.Signature] = v.Detail
			}
			r.sum.KnownCount[v.Signature]++
			continue
		}
		fresh = append(fresh, v)
	}
	if len(fresh) > 0 {
		r.sum.Violations++
		sigs := map[string]bool{}
		for _, s := range r.sum.ViolationSigs {
			sigs[s] = true
		}
		for _, v := range fresh {
			if !sigs[v.Signature] {
				sigs[v.Signature] = true
				r.sum.ViolationSigs = append(r.sum.ViolationSigs, v.Signature)
			}
		}
		sort.Strings(r.sum.ViolationSigs)
		if p := r.path("violation.json"); p != "" {
			rec := map[string]any{"property": r.id, "violations": fresh, "case": json.RawMessage(caseJSON)}
			b, _ := json.MarshalIndent(rec, "", " ")
			_ = os.WriteFile(p, b, 0o644)
			// the bare case is the replay file
			_ = os.WriteFile(r.path("violation.case.json"), caseJSON, 0o644)
		}
		r.save(true)
	} else {
		r.save(false)
	}
	return fresh
}

// Finish must be called when the test function is done (Run does it).
func (r *recorder) finish(replayed bool) {
	r.mu.Lock()
	defer r.mu.Unlock()
	r.sum.Done = true
	r.sum.Replayed = replayed
	r.save(true)
}

// Run is the entry point of every property test.
//
//	gen  draws a JSON-able case (all randomness must come from rapid)
//	body evaluates the property on the case, reporting through Ctx
//
// Replay: with VERIF_REPLAY set, every file named there (a file, or all
// *.json files of a directory whose name starts with the property id or that
// is named after it) is decoded into C and run through body without rapid.
func Run[C any](t *testing.T, id string, gen func(*rapid.T) C, body func(C, *Ctx)) {
	r := getRecorder(id)
	defer func() { r.finish(os.Getenv("VERIF_REPLAY") != "") }()

	runOne := func(c C) ([]Violation, []byte) {
		caseJSON, err := json.Marshal(c)
		if err != nil {
			panic(fmt.Sprintf("vkit: case of %s is not JSON-able: %v", id, err))
		}
		r.writeCurrent(caseJSON)
		ctx := &Ctx{id: id, labels: map[string]int{}}
		body(c, ctx)
		return r.record(ctx, caseJSON), caseJSON
	}

	if rp := os.Getenv("VERIF_REPLAY"); rp != "" {
		files := replayFiles(rp, id)
		for _, f := range files {
			b, err := os.ReadFile(f)
			if err != nil {
				t.Fatalf("replay: %v", err)
			}
			var c C
			if err := json.Unmarshal(b, &c); err != nil {
				t.Fatalf("replay %s: cannot decode case: %v", f, err)
			}
			fresh, _ := runOne(c)
			if len(fresh) > 0 {
				t.Errorf("REPLAY-VIOLATION property=%s file=%s: %s: %s", id, f, fresh[0].Signature, fresh[0].Detail)
			}
		}
		return
	}

	rapid.Check(t, func(rt *rapid.T) {
		c := gen(rt)
		fresh, caseJSON := runOne(c)
		if len(fresh) > 0 {
			cj := string(caseJSON)
			if len(cj) > 3000 {
				cj = cj[:3000] + "…"
			}
			rt.Fatalf("property %s violated: [%s] %s\ncase: %s", id, fresh[0].Signature, fresh[0].Detail, cj)
		}
	})
}

func replayFiles(rp, id string) []string {
	st, err := os.Stat(rp)
	if err != nil {
		return nil
	}
	if !st.IsDir() {
		return []string{rp}
	}
	ents, _ := os.ReadDir(rp)
	var out []string
	for _, e := range ents {
		if !e.IsDir() && strings.HasSuffix(e.Name(), ".json") {
			out = append(out, filepath.Join(rp, e.Name()))
		}
	}
	sort.Strings(out)
	return out
}

// Starved runs f while a 2ms ticker watches for scheduling gaps; it reports
// true when a gap above limit was seen (the surrounding timing expectations
// are then not to be trusted).
type Monitor struct {
	stop   chan struct{}
	done   chan struct{}
	mu     sync.Mutex
	maxGap time.Duration
	last   time.Time
}

// StartMonitor starts a starvation monitor.
func StartMonitor() *Monitor {
	m := &Monitor{stop: make(chan struct{}), done: make(chan struct{}), last: time.Now()}
	go func() {
		defer close(m.done)
		tk := time.NewTicker(2 * time.Millisecond)
		defer tk.Stop()
		for {
			select {
			case <-m.stop:
				return
			case <-tk.C:
				// the tick's own time stamp may predate a stall (a tick
				// that sat in the channel); the clock does not
				now := time.Now()
				m.mu.Lock()
				gap := now.Sub(m.last)
				m.last = now
				if gap > m.maxGap {
					m.maxGap = gap
				}
				m.mu.Unlock()
			}
		}
	}()
	return m
}

// MaxGap returns and resets the largest gap seen. The gap that is still open
// counts: a caller whose deadline passed during a stall of the whole process
// usually runs before the monitor goroutine does, and must see that stall.
func (m *Monitor) MaxGap() time.Duration {
	m.mu.Lock()
	defer m.mu.Unlock()
	g := m.maxGap
	if open := time.Since(m.last); open > g {
		g = open
	}
	m.maxGap = 0
	return g
}

// Stop ends the monitor.
func (m *Monitor) Stop() { close(m.stop); <-m.done }
