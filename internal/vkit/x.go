package vkit
import (
 _ "pgregory.net/rapid"
 _ "github.com/anishathalye/porcupine"
 _ "github.com/hashicorp/serf/serf"
 _ "github.com/hashicorp/serf/cmd/serf/command/agent"
 _ "github.com/hashicorp/serf/client"
)
