// Package simnet is a harness-owned in-memory network for memberlist: every
// node gets a Transport (memberlist.NodeAwareTransport) attached to a Network
// that can capture, loop back, partition, drop and kill.
package simnet

import (
	"errors"
	"fmt"
	"math/rand"
	"net"
	"sync"
	"time"

	"github.com/hashicorp/memberlist"
)

// Packet is one datagram the network saw.
type Packet struct {
	From   string // transport name
	To     string // addr "ip:port" as given by memberlist
	ToName string // node name if memberlist supplied one
	Buf    []byte
}

// Dial is one stream attempt the network saw.
type Dial struct {
	From   string
	To     string
	ToName string
}

// Network wires transports together.
type Network struct {
	mu     sync.Mutex
	byAddr map[string]*Transport
	nextIP int

	// Deliver controls whether packets/streams to *other* transports are
	// delivered (cluster mode). When false everything is only captured.
	Deliver bool
	// Loopback delivers packets a transport addresses to itself.
	Loopback bool

	blocked map[[2]string]bool // unordered pair of transport names
	lossPct int
	rng     *rand.Rand

	// DropPacket, when set, is consulted for every packet after capture;
	// returning true drops it.
	DropPacket func(p Packet) bool

	// HoldDial, when set, is called for every dial; it may block (to park a
	// Join) and returns an error to fail the dial or nil to continue.
	HoldDial func(d Dial) error

	// ShutdownDelay is how long a transport takes to shut down (a real
	// transport waits for its listener goroutines); read when Shutdown is called.
	ShutdownDelay time.Duration

	packets []Packet
	dials   []Dial
	capture bool
}

// New creates a network. seed drives packet loss decisions only.
func New(seed int64) *Network {
	return &Network{
		byAddr:  map[string]*Transport{},
		blocked: map[[2]string]bool{},
		rng:     rand.New(rand.NewSource(seed)),
		capture: true,
	}
}

// SetCapture turns recording of packets/dials on or off (off for long cluster runs).
func (n *Network) SetCapture(on bool) { n.mu.Lock(); n.capture = on; n.mu.Unlock() }

// Packets returns and clears the captured packets.
func (n *Network) Packets() []Packet {
	n.mu.Lock()
	defer n.mu.Unlock()
	p := n.packets
	n.packets = nil
	return p
}

// PeekPackets returns the captured packets without clearing.
func (n *Network) PeekPackets() []Packet {
	n.mu.Lock()
	defer n.mu.Unlock()
	return append([]Packet(nil), n.packets...)
}

// Dials returns and clears the captured dials.
func (n *Network) Dials() []Dial {
	n.mu.Lock()
	defer n.mu.Unlock()
	d := n.dials
	n.dials = nil
	return d
}

func pair(a, b string) [2]string {
	if a > b {
		a, b = b, a
	}
	return [2]string{a, b}
}

// Block cuts (or restores) the link between two transports, both directions.
func (n *Network) Block(a, b string, blocked bool) {
	n.mu.Lock()
	defer n.mu.Unlock()
	if blocked {
		n.blocked[pair(a, b)] = true
	} else {
		delete(n.blocked, pair(a, b))
	}
}

// HealAll removes every partition and packet loss.
func (n *Network) HealAll() {
	n.mu.Lock()
	defer n.mu.Unlock()
	n.blocked = map[[2]string]bool{}
	n.lossPct = 0
}

// SetLoss sets the datagram loss percentage (streams are not affected).
func (n *Network) SetLoss(pct int) { n.mu.Lock(); n.lossPct = pct; n.mu.Unlock() }

// NewTransport creates a transport for a node. addr may be "" (a fresh
// 127.0.x.y:7946 address is allocated) or an explicit "ip:port" (used to
// restart a node at the same address).
func (n *Network) NewTransport(name, addr string) *Transport {
	n.mu.Lock()
	defer n.mu.Unlock()
	if addr == "" {
		n.nextIP++
		addr = fmt.Sprintf("127.0.%d.%d:7946", n.nextIP/250, n.nextIP%250+1)
	}
	t := &Transport{
		net:      n,
		name:     name,
		addr:     addr,
		packetCh: make(chan *memberlist.Packet, 4096),
		streamCh: make(chan net.Conn, 64),
		downCh:   make(chan struct{}),
	}
	n.byAddr[addr] = t
	return t
}

type simAddr string

func (a simAddr) Network() string { return "sim" }
func (a simAddr) String() string  { return string(a) }

// Transport implements memberlist.NodeAwareTransport.
type Transport struct {
	net      *Network
	name     string
	addr     string
	packetCh chan *memberlist.Packet
	streamCh chan net.Conn
	mu       sync.Mutex
	down     bool
	downCh   chan struct{}
}

var _ memberlist.NodeAwareTransport = (*Transport)(nil)

// Name returns the transport's node name.
func (t *Transport) Name() string { return t.name }

// Addr returns "ip:port".
func (t *Transport) Addr() string { return t.addr }

// Inject feeds a raw packet to this transport's memberlist as if it came
// from the given address.
func (t *Transport) Inject(from string, buf []byte) {
	t.packetCh <- &memberlist.Packet{Buf: buf, From: simAddr(from), Timestamp: time.Now()}
}

func (t *Transport) isDown() bool {
	t.mu.Lock()
	defer t.mu.Unlock()
	return t.down
}

// Kill makes the transport dead: nothing in, nothing out.
func (t *Transport) Kill() {
	t.mu.Lock()
	if !t.down {
		t.down = true
		close(t.downCh)
	}
	t.mu.Unlock()
	t.net.mu.Lock()
	if t.net.byAddr[t.addr] == t {
		delete(t.net.byAddr, t.addr)
	}
	t.net.mu.Unlock()
}

func (t *Transport) FinalAdvertiseAddr(string, int) (net.IP, int, error) {
	host, portStr, err := net.SplitHostPort(t.addr)
	if err != nil {
		return nil, 0, err
	}
	var port int
	fmt.Sscanf(portStr, "%d", &port)
	return net.ParseIP(host), port, nil
}

func (t *Transport) WriteTo(b []byte, addr string) (time.Time, error) {
	return t.WriteToAddress(b, memberlist.Address{Addr: addr})
}

func (t *Transport) WriteToAddress(b []byte, a memberlist.Address) (time.Time, error) {
	now := time.Now()
	if t.isDown() {
		return now, errors.New("simnet: transport is down")
	}
	n := t.net
	buf := append([]byte(nil), b...)
	pk := Packet{From: t.name, To: a.Addr, ToName: a.Name, Buf: buf}
	n.mu.Lock()
	if n.capture {
		n.packets = append(n.packets, pk)
	}
	dest := n.byAddr[a.Addr]
	drop := false
	if dest == nil {
		drop = true
	} else if dest == t {
		drop = !n.Loopback && !n.Deliver
	} else {
		drop = !n.Deliver || n.blocked[pair(t.name, dest.name)] ||
			(n.lossPct > 0 && n.rng.Intn(100) < n.lossPct)
	}
	dp := n.DropPacket
	n.mu.Unlock()
	if !drop && dp != nil && dp(pk) {
		drop = true
	}
	if drop || dest.isDown() {
		return now, nil // UDP: silently lost
	}
	select {
	case dest.packetCh <- &memberlist.Packet{Buf: buf, From: simAddr(t.addr), Timestamp: now}:
	default: // receiver queue full: lost
	}
	return now, nil
}

func (t *Transport) PacketCh() <-chan *memberlist.Packet { return t.packetCh }

func (t *Transport) DialTimeout(addr string, timeout time.Duration) (net.Conn, error) {
	return t.DialAddressTimeout(memberlist.Address{Addr: addr}, timeout)
}

func (t *Transport) DialAddressTimeout(a memberlist.Address, timeout time.Duration) (net.Conn, error) {
	n := t.net
	d := Dial{From: t.name, To: a.Addr, ToName: a.Name}
	// the attempt is on record even if the transport has been shut down (a real
	// transport's dialer does not care; the attempt is what a check wants to see)
	n.mu.Lock()
	if n.capture {
		n.dials = append(n.dials, d)
	}
	n.mu.Unlock()
	if t.isDown() {
		return nil, errors.New("simnet: transport is down")
	}
	n.mu.Lock()
	hold := n.HoldDial
	n.mu.Unlock()
	if hold != nil {
		if err := hold(d); err != nil {
			return nil, err
		}
	}
	n.mu.Lock()
	dest := n.byAddr[a.Addr]
	ok := dest != nil && n.Deliver && (dest == t || !n.blocked[pair(t.name, dest.name)])
	n.mu.Unlock()
	if !ok || dest.isDown() {
		return nil, fmt.Errorf("simnet: no route to %s", a.Addr)
	}
	p1, p2 := net.Pipe()
	c1 := &conn{Conn: p1, n: n, a: t, b: dest, local: simAddr(dest.addr), remote: simAddr(t.addr)}
	c2 := &conn{Conn: p2, n: n, a: t, b: dest, local: simAddr(t.addr), remote: simAddr(dest.addr)}
	select {
	case dest.streamCh <- c1:
	case <-dest.downCh:
		p1.Close()
		p2.Close()
		return nil, fmt.Errorf("simnet: %s went down", a.Addr)
	case <-time.After(timeout):
		p1.Close()
		p2.Close()
		return nil, fmt.Errorf("simnet: dial timeout to %s", a.Addr)
	}
	return c2, nil
}

func (t *Transport) StreamCh() <-chan net.Conn { return t.streamCh }

// InjectStream hands the transport's owner a new inbound stream connection
// that claims to come from the address from, whatever the network's delivery
// and partition settings say (the stream counterpart of Inject), and returns
// the harness' end of it.
func (t *Transport) InjectStream(from string, timeout time.Duration) (net.Conn, error) {
	if t.isDown() {
		return nil, errors.New("simnet: transport is down")
	}
	p1, p2 := net.Pipe()
	c1 := &conn{Conn: p1, n: t.net, a: t, b: t, local: simAddr(t.addr), remote: simAddr(from)}
	select {
	case t.streamCh <- c1:
	case <-t.downCh:
		p1.Close()
		p2.Close()
		return nil, fmt.Errorf("simnet: %s went down", t.addr)
	case <-time.After(timeout):
		p1.Close()
		p2.Close()
		return nil, fmt.Errorf("simnet: nobody accepts streams at %s", t.addr)
	}
	return p2, nil
}

func (t *Transport) Shutdown() error {
	t.net.mu.Lock()
	d := t.net.ShutdownDelay
	t.net.mu.Unlock()
	if d > 0 {
		time.Sleep(d)
	}
	t.Kill()
	return nil
}

// conn is a pipe end that fails once its link is cut or an endpoint dies.
type conn struct {
	net.Conn
	n             *Network
	a, b          *Transport
	local, remote net.Addr
}

func (c *conn) cut() bool {
	if c.a.isDown() || c.b.isDown() {
		return true
	}
	c.n.mu.Lock()
	defer c.n.mu.Unlock()
	return c.a != c.b && c.n.blocked[pair(c.a.name, c.b.name)]
}

func (c *conn) Read(p []byte) (int, error) {
	if c.cut() {
		c.Conn.Close()
		return 0, errors.New("simnet: connection cut")
	}
	return c.Conn.Read(p)
}

func (c *conn) Write(p []byte) (int, error) {
	if c.cut() {
		c.Conn.Close()
		return 0, errors.New("simnet: connection cut")
	}
	return c.Conn.Write(p)
}

func (c *conn) LocalAddr() net.Addr  { return c.local }
func (c *conn) RemoteAddr() net.Addr { return c.remote }
