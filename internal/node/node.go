//go:build verif

// Package node builds real serf.Serf instances on the harness-owned simnet
// and exposes the memberlist delegates so that a check can play "memberlist
// and the wire" itself.
package node

import (
	"bytes"
	"fmt"
	"io"
	"log"
	"net"
	"sync"
	"time"

	"github.com/hashicorp/memberlist"
	"github.com/hashicorp/serf/serf"

	"verif/internal/simnet"
)

// Opts tunes a node.
type Opts struct {
	Name      string
	Addr      string // "" = allocate
	Tags      map[string]string
	EventBuf  int // size of the application event channel (default 4096)
	NoEventCh bool
	// Quiet: memberlist timers are set so long that memberlist never does
	// anything on its own (single-node simulations). Otherwise fast timers.
	Quiet bool
	// Mutate is applied to the config last.
	Mutate func(c *serf.Config)
	// LogTo receives the node's log (default: discarded).
	LogTo io.Writer
}

// Node is a running serf instance plus its harness-side handles.
type Node struct {
	Name   string
	Serf   *serf.Serf
	Conf   *serf.Config
	Tr     *simnet.Transport
	Net    *simnet.Network
	Events chan serf.Event
	Log    *SafeBuffer

	Delegate memberlist.Delegate
	EventsD  memberlist.EventDelegate
}

// SafeBuffer is a goroutine-safe bytes.Buffer.
type SafeBuffer struct {
	mu sync.Mutex
	b  bytes.Buffer
}

func (s *SafeBuffer) Write(p []byte) (int, error) {
	s.mu.Lock()
	defer s.mu.Unlock()
	if s.b.Len() > 1<<20 {
		s.b.Reset()
	}
	return s.b.Write(p)
}

func (s *SafeBuffer) String() string {
	s.mu.Lock()
	defer s.mu.Unlock()
	return s.b.String()
}

// Config builds the serf configuration a node would use, without creating it.
func Config(nw *simnet.Network, o Opts) (*serf.Config, *simnet.Transport, chan serf.Event, *SafeBuffer) {
	tr := nw.NewTransport(o.Name, o.Addr)
	conf := serf.DefaultConfig()
	conf.Init()
	conf.NodeName = o.Name
	conf.Tags = o.Tags
	lb := &SafeBuffer{}
	var w io.Writer = lb
	if o.LogTo != nil {
		w = o.LogTo
	}
	conf.Logger = log.New(w, o.Name+" ", log.Lmicroseconds)
	ml := memberlist.DefaultLANConfig()
	ml.Name = o.Name
	ml.Transport = tr
	ml.Logger = conf.Logger
	ml.EnableCompression = false
	ml.BindAddr, ml.BindPort = splitAddr(tr.Addr())
	ml.AdvertiseAddr, ml.AdvertisePort = ml.BindAddr, ml.BindPort
	if o.Quiet {
		ml.ProbeInterval = 24 * time.Hour
		ml.GossipInterval = 24 * time.Hour
		ml.PushPullInterval = 24 * time.Hour
		ml.TCPTimeout = 50 * time.Millisecond
		ml.RetransmitMult = 1 << 20
		conf.ReapInterval = 24 * time.Hour
		conf.ReconnectInterval = 24 * time.Hour
		conf.QueueCheckInterval = 24 * time.Hour
		conf.BroadcastTimeout = 2 * time.Millisecond
		conf.LeavePropagateDelay = 0
	} else {
		ml.ProbeInterval = 40 * time.Millisecond
		ml.ProbeTimeout = 15 * time.Millisecond
		ml.GossipInterval = 5 * time.Millisecond
		ml.PushPullInterval = 400 * time.Millisecond
		ml.TCPTimeout = 100 * time.Millisecond
		ml.SuspicionMult = 3
		ml.GossipToTheDeadTime = 500 * time.Millisecond
		conf.ReapInterval = 24 * time.Hour
		conf.ReconnectInterval = 30 * time.Millisecond
		conf.ReconnectTimeout = 24 * time.Hour
		conf.TombstoneTimeout = 24 * time.Hour
		conf.BroadcastTimeout = 200 * time.Millisecond
		conf.LeavePropagateDelay = 30 * time.Millisecond
	}
	conf.MemberlistConfig = ml
	var ch chan serf.Event
	if !o.NoEventCh {
		n := o.EventBuf
		if n == 0 {
			n = 4096
		}
		ch = make(chan serf.Event, n)
		conf.EventCh = ch
	}
	if o.Mutate != nil {
		o.Mutate(conf)
	}
	return conf, tr, ch, lb
}

func splitAddr(a string) (string, int) {
	h, p, _ := net.SplitHostPort(a)
	var port int
	fmt.Sscanf(p, "%d", &port)
	return h, port
}

// New creates and starts a node.
func New(nw *simnet.Network, o Opts) (*Node, error) {
	conf, tr, ch, lb := Config(nw, o)
	s, err := serf.Create(conf)
	if err != nil {
		tr.Kill()
		return nil, err
	}
	return &Node{
		Name: o.Name, Serf: s, Conf: conf, Tr: tr, Net: nw, Events: ch, Log: lb,
		Delegate: borrowedBuffers{s.VerifDelegate()}, EventsD: s.VerifEventDelegate(),
	}, nil
}

// Stop shuts the node down (no leave) and kills its transport.
func (n *Node) Stop() {
	_ = n.Serf.Shutdown()
	n.Tr.Kill()
}

// Drain returns every event currently buffered on the application channel.
// settle is how long the channel must stay empty before we believe the
// pipeline (internal-query filter, snapshotter, coalescers are goroutines) is
// drained; use Settle for the default.
func (n *Node) Drain(settle time.Duration) []serf.Event {
	var out []serf.Event
	if n.Events == nil {
		return nil
	}
	timer := time.NewTimer(settle)
	defer timer.Stop()
	for {
		select {
		case e := <-n.Events:
			out = append(out, e)
			if !timer.Stop() {
				select {
				case <-timer.C:
				default:
				}
			}
			timer.Reset(settle)
		case <-timer.C:
			return out
		}
	}
}

// Settle is the default quiet period for Drain. The pipeline stages are
// channel hand-offs between goroutines (microseconds); 3 ms of silence on an
// idle machine is ample, and checks that depend on completeness use
// WaitEvents with an explicit expectation instead.
const Settle = 3 * time.Millisecond

// WaitEvents collects events until pred returns true or the timeout passes.
func (n *Node) WaitEvents(timeout time.Duration, pred func([]serf.Event) bool) ([]serf.Event, bool) {
	var out []serf.Event
	deadline := time.After(timeout)
	for {
		if pred(out) {
			return out, true
		}
		select {
		case e := <-n.Events:
			out = append(out, e)
		case <-deadline:
			return out, pred(out)
		}
	}
}

// MLNode fabricates the memberlist.Node a notification would carry.
func MLNode(name, ip string, port uint16, meta []byte, pmax, dmax uint8) *memberlist.Node {
	return &memberlist.Node{
		Name: name, Addr: net.ParseIP(ip), Port: port, Meta: meta,
		PMin: 1, PMax: pmax, PCur: 2, DMin: 2, DMax: dmax, DCur: dmax,
	}
}

// UserMsgs extracts the serf-level messages from captured packets: a packet
// is [userMsg=8][serf message] (optionally behind a 5-byte CRC header) when
// compression, encryption and labels are off. Compound gossip packets are
// split as well.
func UserMsgs(pkts []simnet.Packet) []simnet.Packet {
	var out []simnet.Packet
	for _, p := range pkts {
		for _, m := range splitPacket(p.Buf) {
			q := p
			q.Buf = m
			out = append(out, q)
		}
	}
	return out
}

func splitPacket(b []byte) [][]byte {
	if len(b) == 0 {
		return nil
	}
	switch b[0] {
	case 12: // hasCrcMsg
		if len(b) < 5 {
			return nil
		}
		return splitPacket(b[5:])
	case 8: // userMsg
		return [][]byte{b[1:]}
	case 7: // compoundMsg
		if len(b) < 2 {
			return nil
		}
		n := int(b[1])
		b = b[2:]
		if len(b) < 2*n {
			return nil
		}
		lens := make([]int, n)
		for i := 0; i < n; i++ {
			lens[i] = int(b[2*i])<<8 | int(b[2*i+1])
		}
		b = b[2*n:]
		var out [][]byte
		for _, l := range lens {
			if len(b) < l {
				break
			}
			out = append(out, splitPacket(b[:l])...)
			b = b[l:]
		}
		return out
	}
	return nil
}

// borrowedBuffers hands serf's delegate its input the way memberlist does: in
// a buffer that belongs to the caller and is used for something else as soon
// as the call returns ("the byte slice may be modified after the call returns,
// so it should be copied if needed"). The wrapper delivers a private copy and
// overwrites it afterwards, so a decoded value that still points into the
// buffer shows as garbage in whatever the check looks at later.
type borrowedBuffers struct{ memberlist.Delegate }

func scribble(b []byte) {
	for i := range b {
		b[i] = 0xEE
	}
}

func (d borrowedBuffers) NotifyMsg(buf []byte) {
	tmp := append(make([]byte, 0, len(buf)), buf...)
	d.Delegate.NotifyMsg(tmp)
	scribble(tmp)
}

func (d borrowedBuffers) MergeRemoteState(buf []byte, join bool) {
	tmp := append(make([]byte, 0, len(buf)), buf...)
	d.Delegate.MergeRemoteState(tmp, join)
	scribble(tmp)
}
